"""C14 correspondence: pgmpy's model conversions (BN -> MN, MN <-> factor graph, triangulation,
junction tree, partition function) vs the Coq model coq/C14 (as-coded model + verified checkers)."""
import itertools
import random
from fractions import Fraction

from harness import common
from harness.common import ok, bad

PROP = "C14"
LEVEL = "proof"
HASHSEEDS = {"quick": [0, 1, 2, 3], "thorough": list(range(16))}
BUDGET_S = {"quick": 150, "thorough": 1500}
EXHAUSTIVE = {"quick": False, "thorough": False}
RULE = ("random Bayesian networks (1-7 nodes, families with up to 4 parents, CPD evidence order shuffled, edge/CPD "
        "insertion order shuffled, cardinalities 1-3, columns with exact zeros and with entries 2^-30..2^-50), "
        "Markov networks (single node, edgeless, chordless cycles, trees, random connected, k-tree chordal, complete, "
        "grids, disconnected, isolated nodes, 9-10 node cycles and a 9-variable factor on K9; edges in either "
        "orientation, built node-by-node or from an ebunch; pairwise/clique/unary/repeated-scope factors; duplicates: "
        "equal-but-distinct, axis-permuted, NEAR-equal (relative 2^-35), and THE SAME OBJECT added two or three times "
        "in one add_factors call or one call each; values small dyadics, with exact zeros, or scaled by 2^-300..2^300; "
        "values passed as lists, ndarrays, another factor's .values, or a buffer overwritten afterwards; malformed: "
        "uncovered node, non-clique scope) and factor graphs (factor objects as nodes, incl. equal factors; malformed: "
        "variable-variable edge, factor node without factor); BNs whose CPDs disagree on a state-name order must be "
        "rejected by check_model.  Node names str/int/tuple/mixed/substring-of-each-other (x1,x10,x1_0,G,G2,'' and "
        "the keyword prefix phi_); state names default, per-variable strings, shared strings, non-positional ints "
        "([1,0],[1,2,0]), 1-based, booleans.  Every heuristic H1..H6, the no-argument default, order=[] and explicit "
        "orders (also with isolated and repeated nodes), inplace both ways; numpy backend and (1 case in 6) torch "
        "(float32-exact values only: torch.Tensor(values) is the backend's documented float32 construction); every "
        "partition function also under torch; get_immoralities = the married non-adjacent co-parent pairs, parents "
        "of different name types included.  State-name ORDER disagreements between factors of one MN/FG are not "
        "generated (outside every property statement; check_model does not compare them); between CPDs of a BN "
        "they must be rejected.  "
        "Names handed to the API (factor scopes, CPD variables, orders, markov_blanket) are equal-but-not-identical "
        "objects (rebuilt strings/tuples, ints above 256); node, edge and order containers are lists, tuples, "
        "one-shot generators, sets / dict views (a numpy array as `order` raises on the unchanged tree: reported, not "
        "generated); 9-12 node chains/trees and BNs (more than 8 cliques), a variable with 257/300 states; CPD "
        "columns typed with three decimals (sums within 0.004 of 1 but not 1; the model carries the exact Z); "
        "optional features are drawn independently so every pair occurs.  "
        "Every conversion is bracketed by a deep snapshot of the source (nodes, edges, factor objects, value bytes, "
        "state names, the order argument).  SESSIONS on one object (MN, BN, FG): conversions re-run after add_edge, "
        "remove_edge, add_node, remove_node, clear (networkx mutators), add_factors (also with a LATER invalid "
        "factor), remove_factors, a rejected self loop, IN-PLACE edits of a factor object the network holds (one entry, "
        "set_value, scalar product, normalize) and of a CPD object a BN holds (column values, normalize, "
        "reorder_parents(inplace)) -- same graph, same object identities --, triangulate(inplace), "
        "mutation of a returned junction tree, add_cpds replacing a CPD, new edges/nodes in a BN; oracle = the model "
        "on the current state.  Tolerance 1e-9 RELATIVE to the model's exact rational.  Corpus: two equal factors, "
        "the 4-cycle with an isolated node, the same object twice.  Not applicable: pandas frames (no DataFrame in any "
        "anchor), optional numeric bounds (none), n_jobs/caches (none); factor-less models have no distribution.  "
        "A case is non-trivial when it has >=1 edge and >=1 factor over >=2 variables; distinct = distinct canonical "
        "(kind, graph, factors, options)")
TRUSTED_BASE = [
    "networkx Graph storage, nx.find_cliques (cross-checked against the model's brute-force maximal cliques), "
    "nx.minimum_spanning_tree (its output is validated by the verified tree/RIP checkers and by the proved "
    "maximum-weight certificate weight >= wstar), nx.find_cliques (its listing must pass the verified "
    "max_cliques_chk), nx.is_chordal (cross-checked against the verified PEO-search checker)",
    "numpy/torch einsum inside DiscreteFactor.product (C04 covers it); values are dyadic rationals, exact in float64",
    "the elimination order pgmpy chose is observed by recording nx.Graph.remove_node calls",
    "Fulkerson-Gross: a graph is chordal iff it has a perfect elimination ordering (Spec.chordal is the PEO form)",
    "session mirrors (edge/node/factor lists after a mutator) are kept by the harness; add_factors by the model",
]
ASSUMPTIONS = ["node names are interned to nat identifiers by the harness",
               "cardinalities are consistent across factors (inconsistent cardinalities are not generated)",
               "to_factor_graph is exercised with string node names only (it joins the scope with '_'); the "
               "FactorGraph API on its output (open finding) without names starting with 'phi'",
               "torch cases use float32-exact values only (small dyadics, exact zeros; no 2^-300..2^300 scaling, no "
               "near-equal duplicates, no 2^-30..2^-50 columns): the torch backend builds factors through "
               "torch.Tensor(values), i.e. float32 is its documented construction dtype",
               "a factor that is a NODE of a FactorGraph is never edited in place: factors hash by value, the edit "
               "changes the hash of a networkx node key and every FactorGraph method then raises ValueError('Edges "
               "can only be between variables and factors') on the unchanged tree (reported to the coordinator); "
               "in-place edits are exercised on the factors of Markov networks and the CPDs of Bayesian networks",
               "the factors of one Markov network / factor graph agree on each variable's state-name order: "
               "MarkovNetwork.check_model does not compare state-name orders across factors and products are "
               "positional; this is outside every property statement (C05's validation clause is about Bayesian "
               "networks), so such inputs are not generated -- only the BN version, which check_model rejects"]

TORCH_PARTITION = True    # get_partition_function under torch: repaired by 0dd4715 (fixed key "partition-function-torch")
STATE_STYLES = ["default", "str", "shared", "intperm", "rot", "onebased", "bool"]
NAME_STYLES = common.NAME_STYLES + ["substr"]
VALSRC = ["list", "list", "ndarray", "other", "buffer"]

HEUR = ["H1", "H2", "H3", "H4", "H5", "H6"]


# ------------------------------------------------------------------ generation
def _vals(rng, k, zeros=False):
    out = []
    for _ in range(k):
        if zeros and rng.random() < 0.1:
            out.append([0, 1])
        else:
            d = rng.choice([1, 2, 4])
            out.append([rng.randint(1, 4 * d), d])
    return out


def _graph(rng, shape, n):
    """-> (n, edges) with edges as sorted id pairs"""
    E = set()
    if shape == "cycle":
        n = max(n, 4)
        E = {tuple(sorted((i, (i + 1) % n))) for i in range(n)}
    elif shape == "tree":
        for i in range(1, n):
            E.add((rng.randrange(i), i))
    elif shape == "random":
        for i in range(1, n):
            E.add((rng.randrange(i), i))
        for _ in range(rng.randint(1, n)):
            a, b = rng.sample(range(n), 2)
            E.add(tuple(sorted((a, b))))
    elif shape == "chordal":
        cl = [[0]]
        for v in range(1, n):
            K = rng.choice(cl)
            S = rng.sample(K, rng.randint(1, min(len(K), 3)))
            for u in S:
                E.add((u, v))
            cl.append(S + [v])
    elif shape == "complete":
        n = min(n, 5)
        E = {(i, j) for i in range(n) for j in range(i + 1, n)}
    elif shape == "grid":
        n = 6
        E = {(0, 1), (1, 2), (3, 4), (4, 5), (0, 3), (1, 4), (2, 5)}
    elif shape == "iso":  # chordless cycle + isolated node(s)
        k = max(4, n - 1)
        E = {tuple(sorted((i, (i + 1) % k))) for i in range(k)}
        n = k + rng.randint(1, 2)
    elif shape == "isochordal":  # chordal + isolated node
        for i in range(1, n - 1):
            E.add((rng.randrange(i), i))
    elif shape == "disc":
        n = max(n, 5)
        h = n // 2
        for i in range(1, h):
            E.add((rng.randrange(i), i))
        for i in range(h + 1, n):
            E.add((rng.randrange(h, i), i))
        if h >= 3 and rng.random() < 0.5:
            E.add((0, h - 1)) if (0, h - 1) not in E else None
    elif shape == "wheelless":  # two chordless cycles sharing an edge
        n = 6
        E = {(0, 1), (1, 2), (2, 3), (0, 3), (2, 4), (4, 5), (3, 5)}
    elif shape == "single":
        n = 1
    elif shape == "edgeless":
        n = rng.randint(2, 3)
    elif shape == "wide9":      # K9 (room for a 9-variable factor), sometimes with a pendant node
        n = rng.choice([9, 10])
        E = {(i, j) for i in range(9) for j in range(i + 1, 9)}
        if n == 10:
            E |= {(0, 9), (1, 9)}
    elif shape == "chain12":    # 9-12 node chains / trees: more than 8 cliques
        n = rng.choice([9, 10] if n <= 6 else [9, 10, 11, 12])        # n <= 6: quick tier
        E = {(i, i + 1) for i in range(n - 1)}
    elif shape == "tree12":
        n = rng.choice([9, 9, 10] if n <= 6 else [9, 9, 10, 11, 12])
        E = {(rng.randrange(max(0, i - 3), i), i) for i in range(1, n)}
    elif shape == "cycle10":    # chordless cycle on 9-10 nodes (sets of >= 9 small ints)
        n = rng.choice([9, 10])
        E = {tuple(sorted((i, (i + 1) % n))) for i in range(n)}
    perm = list(range(n))
    rng.shuffle(perm)
    E2 = sorted({tuple(sorted((perm[a], perm[b]))) for a, b in E})
    rng.shuffle(E2)
    return n, [list(e) if rng.random() < 0.5 else [e[1], e[0]] for e in E2]


def _cliques_upto3(n, edges):
    adj = {i: set() for i in range(n)}
    for a, b in edges:
        adj[a].add(b)
        adj[b].add(a)
    tri = [[a, b, c] for a in range(n) for b in adj[a] if b > a for c in adj[a] & adj[b] if c > b]
    return adj, tri


def _scale(vals, e):
    """multiply every [num, den] by 2^e"""
    if e >= 0:
        return [[x[0] << e, x[1]] for x in vals]
    return [[x[0], x[1] << (-e)] for x in vals]


def _apply_mag(rng, fs, copies):
    """scale the factors by powers of two, keeping EVERY partial product (also with up to three copies of a
    factor when duplicates follow) a normal float64: without duplicates single factors reach 2^-300..2^300 and
    totals 2^+-900, with duplicates 2^+-200 and totals 2^+-600"""
    budget = 200 if copies else 900
    steps = [-200, -100, -60, -10, 0, 10, 60, 100, 200] if copies else [-300, -150, -60, -10, 0, 10, 60, 150, 300]
    pos = neg = tweaks = 0
    for f in fs:
        e = rng.choice(steps)
        if e > 0 and pos + e > budget or e < 0 and neg - e > budget:
            e = 0
        pos, neg = pos + max(e, 0), neg + max(-e, 0)
        f["vals"] = _scale(f["vals"], e)
        if tweaks < 2 and rng.random() < 0.4 and len(f["vals"]) > 1:      # one entry 2^-40 of its neighbours
            tweaks += 1
            i = rng.randrange(len(f["vals"]))
            f["vals"][i] = _scale([f["vals"][i]], -40)[0]


def _mn_factors(rng, n, edges, cards, dup_mode, vstyle="small", p_edge=0.7, p_tri=0.4):
    adj, tri = _cliques_upto3(n, edges)
    fs = []

    def mk(scope):
        scope = list(scope)
        rng.shuffle(scope)
        k = 1
        for v in scope:
            k *= cards[v]
        return {"vars": scope, "vals": _vals(rng, k, zeros=(vstyle == "zeros"))}

    for e in edges:
        if rng.random() < p_edge:
            fs.append(mk(e))
    for t in tri:
        if rng.random() < p_tri:
            fs.append(mk(t))
    covered = {v for f in fs for v in f["vars"]}
    for v in range(n):
        if v not in covered:
            if adj[v] and rng.random() < 0.5:
                fs.append(mk([v, rng.choice(sorted(adj[v]))]))
            else:
                fs.append(mk([v]))
            covered |= set(fs[-1]["vars"])
    if rng.random() < 0.4:
        fs.append(mk([rng.randrange(n)]))
    if rng.random() < 0.3 and fs:  # repeated scope, different values
        fs.append(mk(rng.choice(fs)["vars"]))
    if vstyle == "mag":
        _apply_mag(rng, fs, dup_mode is not None)
    if dup_mode == "object" and fs:
        # THE SAME DiscreteFactor OBJECT added two or three times (shared "oid"); unary and pairwise preferred
        small = [f for f in fs if len(f["vars"]) <= 2] or fs
        for k, f in enumerate(rng.sample(small, min(len(small), rng.randint(1, 2)))):
            f["oid"] = k + 1
            for _ in range(rng.choice([1, 1, 2])):
                fs.append({"vars": list(f["vars"]), "vals": [list(x) for x in f["vals"]], "oid": k + 1})
    elif dup_mode and fs:
        for _ in range(rng.randint(1, 2)):
            f = rng.choice(fs)
            if dup_mode == "perm" and len(f["vars"]) >= 2:
                fs.append(_permuted_copy(rng, f, cards))
            elif dup_mode == "near":
                # equal under DiscreteFactor.__eq__ (atol 1e-8) but a different function: one entry * (1 + 2^-35)
                g = {"vars": list(f["vars"]), "vals": [list(x) for x in f["vals"]]}
                nz = [i for i, x in enumerate(g["vals"]) if x[0] != 0]
                if nz:
                    i = rng.choice(nz)
                    g["vals"][i] = [g["vals"][i][0] * ((1 << 35) + 1), g["vals"][i][1] << 35]
                fs.append(g)
            else:
                fs.append({"vars": list(f["vars"]), "vals": [list(x) for x in f["vals"]]})
    rng.shuffle(fs)
    return fs


def _permuted_copy(rng, f, cards):
    """the same function with the axes in another order (equal by DiscreteFactor.__eq__)"""
    vs = f["vars"]
    p = list(range(len(vs)))
    while p == list(range(len(vs))):
        rng.shuffle(p)
    nvs = [vs[i] for i in p]
    shape = [cards[v] for v in vs]
    nshape = [cards[v] for v in nvs]
    vals = []
    for t in itertools.product(*[range(c) for c in nshape]):
        old = [0] * len(vs)
        for k, i in enumerate(p):
            old[i] = t[k]
        flat = 0
        for c, i in zip(shape, old):
            flat = flat * c + i
        vals.append(list(f["vals"][flat]))
    return {"vars": nvs, "vals": vals}


def _bn(rng, n):
    order = list(range(n))
    rng.shuffle(order)
    pmax = rng.choice([1, 2, 3, 4]) if n <= 8 else rng.choice([1, 2])
    edges = []
    pars = {v: [] for v in range(n)}
    for i in range(1, n):
        k = rng.randint(0 if rng.random() < 0.3 else 1, min(i, pmax))
        ps = rng.sample(order[:i], k)
        if i == n - 1 and n >= 4 and rng.random() < 0.6:
            ps = rng.sample(order[:i], min(i, rng.choice([3, 3, 4])))
        for p in ps:
            edges.append([p, order[i]])
            pars[order[i]].append(p)
    rng.shuffle(edges)
    return edges, pars, order


def _column(rng, card, skew):
    """a probability column of exact dyadics; skew: all the mass but 2^-k (k = 30..50) on one state;
    skew == "dec": typed with three decimals, sum within 0.004 of 1 but not 1 (check_model tolerates 0.01)"""
    if skew == "dec":
        base = common.rand_column(rng, card, zeros=False)
        col = [max(1, int(round(float(c) * 1000))) for c in base]
        col[rng.randrange(card)] += rng.choice([-2, -1, 1, 2, 3]) + (1000 - sum(col))
        if min(col) < 1:
            col = [c + 1 for c in col]
        return [[c, 1000] for c in col]
    if not skew or card == 1:
        return [[c.numerator, c.denominator] for c in common.rand_column(rng, card)]
    k = rng.choice([30, 40, 50])
    hot = rng.randrange(card)
    return [[(1 << k) - (card - 1), 1 << k] if r == hot else [1, 1 << k] for r in range(card)]


def _bn_cpds(rng, n, pars, cards, skew=False):
    cpds = []
    for v in range(n):
        ev = list(pars[v])
        rng.shuffle(ev)
        k = 1
        for p in ev:
            k *= cards[p]
        cols = [_column(rng, cards[v], skew if skew == "dec" else (skew and rng.random() < 0.5)) for _ in range(k)]
        cpds.append({"var": v, "ev": ev, "vals": [[c[r] for c in cols] for r in range(cards[v])]})
    rng.shuffle(cpds)
    return cpds


def _f32(c):
    """torch cases only with values that survive float32: the DiscreteFactor/TabularCPD constructors go through
    torch.Tensor(values) (float32) on the unchanged tree (reported; construction is C04/C05)"""
    if c.get("backend") == "torch" and (c.get("vstyle") == "mag" or c.get("dup") == "near" or c.get("skew")
                                        or c.get("shape") == "bigcard"):
        c["backend"] = "numpy"
    return c


def _opts(rng, i, name_styles=None):
    return {"style": rng.choice(name_styles or NAME_STYLES), "states": rng.choice(STATE_STYLES),
            "valsrc": rng.choice(VALSRC), "backend": "torch" if i % 6 == 5 else "numpy",
            "ctype": rng.choice(["list", "tuple", "gen", "set"]),
            "nameseed": rng.randint(0, 10**9)}


def _mn_case(rng, shape, nmax, dups, mal=0.08):
    n, edges = _graph(rng, shape, rng.randint(3, nmax))
    wide = shape in ("wide9", "cycle10", "chain12", "tree12")
    cards = [2] * n if wide else [rng.choice([1, 2, 2, 2, 3]) for _ in range(n)]
    if wide and rng.random() < 0.5:
        cards[rng.randrange(n)] = 1
    dup = rng.choice(dups)
    vstyle = rng.choice(["small", "small", "zeros", "mag"])
    if shape == "wide9":
        fs = _mn_factors(rng, n, edges, cards, dup, vstyle, p_edge=0.12, p_tri=0.02)
        deg = {v: 0 for v in range(n)}
        for a, b in edges:
            deg[a] += 1
            deg[b] += 1
        big = [v for v in range(n) if deg[v] >= 8]
        rng.shuffle(big)
        fs.insert(rng.randrange(len(fs) + 1), {"vars": big, "vals": _vals(rng, 2 ** sum(1 for v in big if cards[v] == 2))})
    else:
        fs = _mn_factors(rng, n, edges, cards, dup, vstyle)
    malformed = None
    if rng.random() < mal and not wide:
        malformed = rng.choice(["uncovered", "nonclique"])
        if malformed == "uncovered":
            v = rng.randrange(n)
            fs = [f for f in fs if v not in f["vars"]]
            if not fs:
                malformed = None
                fs = _mn_factors(rng, n, edges, cards, None)
        else:
            es = {tuple(sorted(e)) for e in edges}
            non = [(a, b) for a in range(n) for b in range(a + 1, n) if (a, b) not in es]
            if non:
                a, b = rng.choice(non)
                fs.append({"vars": [a, b], "vals": _vals(rng, cards[a] * cards[b])})
            else:
                malformed = None
    orders = []
    for _ in range(1 if wide else 2):
        o = sorted({v for e in edges for v in e})
        rng.shuffle(o)
        orders.append(o)
    if shape in ("iso", "isochordal", "edgeless", "single") or rng.random() < 0.2:
        o = list(range(n))
        rng.shuffle(o)
        if rng.random() < 0.5:
            o.insert(rng.randrange(len(o) + 1), rng.choice(o))   # a repeated node is skipped
        orders.append(o)
    nodes = list(range(n))
    rng.shuffle(nodes)
    return {"kind": "mn", "shape": shape, "n": n, "nodes": nodes, "edges": edges, "cards": cards,
            "factors": fs, "dup": dup, "vstyle": vstyle, "malformed": malformed, "orders": orders,
            "addmode": rng.choice(["once", "each"]), "build": rng.choice(["nodes", "ebunch"])}


def cases(tier, seed):
    rng = random.Random(seed)
    out = []
    q = tier == "quick"
    nb, nm, nf, n2, nw, ns, nbs, nfs = (150, 400, 110, 30, 8, 90, 50, 40) if q else (1400, 4000, 900, 250, 80, 900, 500, 400)
    nmax = 6 if q else 7
    # ---- Bayesian networks
    for i in range(nb):
        n = rng.choice([1, 2, 3, 4, 5, 6, nmax, nmax])
        if i % 25 == 7:
            n = rng.choice([9, 9, 10] if q else [9, 10, 11, 12])        # mid-sized: more than 8 cliques
        edges, pars, topo = _bn(rng, n)
        cards = [rng.choice([1, 2, 2, 2, 3, 3]) for _ in range(n)] if n <= 8 else [2] * n
        skew = rng.choice([False, False, True, "dec"]) if n <= 8 else rng.choice([False, "dec"])
        cpds = _bn_cpds(rng, n, pars, cards, skew=skew)
        nodes = list(range(n))
        rng.shuffle(nodes)
        c = {"kind": "bn", "n": n, "nodes": nodes, "edges": edges, "cards": cards, "cpds": cpds, "skew": skew}
        c.update(_opts(rng, i))
        if rng.random() < 0.06:
            el = [(p, v) for p, v in map(tuple, edges) if cards[p] >= 2]
            if el:      # the child's CPD lists a parent's states in another order: check_model must reject
                c["mismatch"] = list(rng.choice(el))
                c["states"] = rng.choice(["str", "shared", "onebased"])
        out.append(c)
    # ---- Markov networks
    shapes = ["cycle", "tree", "random", "random", "chordal", "complete", "grid", "iso", "isochordal", "disc",
              "wheelless", "single", "edgeless"]
    dups = [None, None, "exact", "perm", "object", "near"]
    for i in range(nm):
        c = _mn_case(rng, shapes[i % len(shapes)], nmax, dups)
        c.update(_opts(rng, i))
        out.append(c)
    for i in range(nw):
        c = _mn_case(rng, ["wide9", "cycle10", "chain12", "tree12"][i % 4], nmax, [None, "exact", "object"])
        c.update(_opts(rng, i, ["int", "bigint", "str", "mixed"]))
        c["backend"] = "numpy"
        out.append(c)
    for i in range(2 if q else 12):     # a variable with more than 256 states
        big = rng.choice([257, 300])
        cards = [big, rng.choice([1, 2]), 2]
        fs = [{"vars": [0, 1], "vals": _vals(rng, big * cards[1])}, {"vars": [0], "vals": _vals(rng, big)},
              {"vars": [1, 2], "vals": _vals(rng, cards[1] * 2)}]
        rng.shuffle(fs)
        c = {"kind": "mn", "shape": "bigcard", "n": 3, "nodes": [0, 1, 2], "edges": [[0, 1], [2, 1]], "cards": cards,
             "factors": fs, "dup": None, "vstyle": "small", "malformed": None, "orders": [[0, 1, 2]],
             "addmode": "once", "build": "nodes"}
        c.update(_opts(rng, i))
        c["backend"] = "numpy"
        out.append(c)
    for i in range(n2):
        shape = rng.choice(["cycle", "tree", "random", "chordal"])
        n, edges = _graph(rng, shape, rng.randint(3, 5))
        cards = [rng.choice([2, 2, 3]) for _ in range(n)]
        fs = _mn_factors(rng, n, edges, cards, rng.choice([None, "exact", "object"]))
        c = {"kind": "mn2fg", "shape": shape, "n": n, "nodes": list(range(n)), "edges": edges,
             "cards": cards, "factors": fs}
        c.update(_opts(rng, i, ["str", "substr-nophi"]))
        c["backend"] = "numpy"
        out.append(c)
    # ---- factor graphs
    for i in range(nf):
        shape = rng.choice(["cycle", "tree", "random", "chordal", "complete", "single", "edgeless"])
        n, edges = _graph(rng, shape, rng.randint(2, 6))
        cards = [rng.choice([1, 2, 2, 3]) for _ in range(n)]
        dup = rng.choice([None, None, None, "exact", "perm", "object", "near"])
        vstyle = rng.choice(["small", "zeros", "mag"])
        fs = _mn_factors(rng, n, edges, cards, dup, vstyle)
        c = {"kind": "fg", "shape": shape, "n": n, "cards": cards, "factors": fs, "dup": dup, "vstyle": vstyle,
             "build": rng.choice(["nodes", "ebunch"]),
             "malformed": rng.choice(["varvar", "nofactor"]) if rng.random() < 0.12 and n >= 2 and dup is None else None}
        c.update(_opts(rng, i))
        out.append(c)
    # ---- sessions on one object
    for i in range(ns):
        shape = rng.choice(["cycle", "cycle", "random", "chordal", "iso", "wheelless", "grid"])
        n, edges = _graph(rng, shape, rng.randint(4, 6))
        cards = [rng.choice([1, 2, 2, 3]) for _ in range(n + 2)]        # two spare nodes for add_node
        fs = _mn_factors(rng, n, edges, cards, rng.choice([None, None, "exact", "object"]))
        nodes = list(range(n))
        rng.shuffle(nodes)
        c = {"kind": "sess", "shape": shape, "n": n + 2, "n0": n, "nodes": nodes, "edges": edges, "cards": cards,
             "factors": fs, "nops": rng.randint(4, 7), "opseed": rng.randint(0, 10**9), "addmode": "once",
             "build": "nodes"}
        c.update(_opts(rng, i))
        out.append(c)
    for i in range(nbs):
        n = rng.randint(2, 5)
        edges, pars, topo = _bn(rng, n)
        cards = [rng.choice([1, 2, 2, 3]) for _ in range(n + 2)]
        cpds = _bn_cpds(rng, n, pars, cards)
        c = {"kind": "bnsess", "n": n + 2, "n0": n, "nodes": list(range(n)), "edges": edges, "cards": cards,
             "cpds": cpds, "topo": topo, "nops": rng.randint(2, 5), "opseed": rng.randint(0, 10**9)}
        c.update(_opts(rng, i))
        out.append(c)
    for i in range(nfs):
        shape = rng.choice(["cycle", "tree", "random", "chordal"])
        n, edges = _graph(rng, shape, rng.randint(3, 5))
        cards = [rng.choice([1, 2, 2, 3]) for _ in range(n)]
        fs = _mn_factors(rng, n, edges, cards, None)
        c = {"kind": "fgsess", "shape": shape, "n": n, "cards": cards, "factors": fs, "dup": None,
             "build": "nodes", "malformed": None, "nops": rng.randint(2, 4), "opseed": rng.randint(0, 10**9)}
        c.update(_opts(rng, i))
        out.append(c)
    rng.shuffle(out)
    return [_f32(c) for c in out]


def shrink(case):
    if case["kind"] in ("mn", "fg", "mn2fg", "sess", "fgsess"):
        fs = case["factors"]
        for i in range(len(fs)):
            c = dict(case)
            c["factors"] = fs[:i] + fs[i + 1:]
            yield c
    if case["kind"] in ("sess", "bnsess", "fgsess") and case["nops"] > 1:
        c = dict(case)
        c["nops"] = case["nops"] - 1
        yield c
    if case.get("backend") == "torch":
        c = dict(case)
        c["backend"] = "numpy"
        yield c
    if case["kind"] == "mn":
        for i in range(len(case["orders"])):
            c = dict(case)
            c["orders"] = case["orders"][:i] + case["orders"][i + 1:]
            yield c


# ------------------------------------------------------------------ helpers
SUBSTR_POOL = ["x1", "x10", "x", "x1_0", "G", "G2", "phi", "phi_x1", "", "x_1", "1", "10"]


def _names(case):
    rng = random.Random(case["nameseed"])
    st = case["style"]
    if st.startswith("substr"):
        pool = [x for x in SUBSTR_POOL if not (st.endswith("nophi") and x.startswith("phi"))]
        rng.shuffle(pool)
        return pool[:case["n"]]
    if st == "bigint":      # ints above 256 are not cached objects
        pool = list(range(1000, 1000 + case["n"] + 3))
        rng.shuffle(pool)
        return pool[:case["n"]]
    return common.node_names(rng, case["n"], st)


def _fresh(x):
    """an equal but NOT identical name object (the API must compare names with ==, never with `is`)"""
    if isinstance(x, str):
        return (x + "#")[:-1] if x else x
    if isinstance(x, tuple):
        return tuple(_fresh(y) for y in list(x))
    if isinstance(x, int) and not isinstance(x, bool):
        return int(str(x))
    return x


def _ctype(case, seq):
    """the same items in another documented container type (one-shot generator, tuple, order-preserving view)"""
    ct = case.get("ctype", "list")
    if ct == "tuple":
        return tuple(seq)
    if ct == "gen":
        return (x for x in list(seq))
    if ct == "set":
        return dict.fromkeys(seq).keys()
    return list(seq)


def _state_names(case, v):
    c = case["cards"][v]
    st = case["states"]
    if st == "str":
        return ["s%d_%d" % (v, k) for k in range(c)]
    if st == "shared":
        return ["a", "b", "c", "d"][:c]
    if st == "intperm":
        return list(range(c))[::-1]
    if st == "rot":
        return [(k + 1) % c for k in range(c)]
    if st == "onebased":
        return list(range(1, c + 1))
    if st == "bool":
        return [False, True] if c == 2 else ["t%d" % k for k in range(c)]
    return list(range(c))


def _fr(p):
    return Fraction(p[0], p[1])


def _close(a, b):
    """implementation float a vs the model's exact rational b: 1e-9 RELATIVE to b; an exact zero must be zero"""
    a = float(a)
    if not isinstance(b, Fraction):
        b = Fraction(b)
    if a != a:
        return False
    if b == 0:
        return a == 0.0
    fb = float(b)
    return abs(a - fb) <= 1e-9 * abs(fb)


def _mk_factor(case, names, f):
    import numpy as np
    from pgmpy.factors.discrete import DiscreteFactor
    vs = [_fresh(names[v]) for v in f["vars"]]
    card = [case["cards"][v] for v in f["vars"]]
    vals = [float(_fr(x)) for x in f["vals"]]
    kw = {}
    if case["states"] != "default":
        kw["state_names"] = {_fresh(names[v]): _state_names(case, v) for v in f["vars"]}
    src = case.get("valsrc", "list")
    if src == "ndarray":
        return DiscreteFactor(vs, card, np.ascontiguousarray(vals, dtype=np.float64), **kw)
    if src == "other":      # built from another factor's (n-d) values
        tmp = DiscreteFactor(list(vs), list(card), vals)
        return DiscreteFactor(vs, card, tmp.values, **kw)
    if src == "buffer":     # the caller's buffer is overwritten afterwards
        buf = np.array(vals, dtype=np.float64)
        phi = DiscreteFactor(vs, card, buf, **kw)
        buf[:] = -7.0
        return phi
    return DiscreteFactor(vs, card, vals, **kw)


def _mk_factors(case, names, flist):
    """pgmpy factor objects for the case's factor list; entries sharing an "oid" are THE SAME object"""
    by_oid, out = {}, []
    for f in flist:
        oid = f.get("oid")
        if oid is not None and oid in by_oid:
            out.append(by_oid[oid])
            continue
        phi = _mk_factor(case, names, f)
        if oid is not None:
            by_oid[oid] = phi
        out.append(phi)
    return out


def _mfac(f):
    return [list(f["vars"]), [_fr(x) for x in f["vals"]]]


def _canon_impl(phi, idx):
    import numpy as np
    vs = [idx[v] for v in phi.variables]
    card = [int(c) for c in phi.cardinality]
    arr = np.asarray(phi.values, dtype=float).reshape(card)
    return {tuple(sorted(zip(vs, t))): float(arr[t]) for t in itertools.product(*[range(c) for c in card])}


def _canon_model(mf, cards):
    vs, vals = mf
    card = [cards[v] for v in vs]
    keys = [tuple(sorted(zip(vs, t))) for t in itertools.product(*[range(c) for c in card])]
    if len(keys) != len(vals):
        return None
    return {k: common.frac(x) if isinstance(x, list) else x for k, x in zip(keys, vals)}


def _same(ci, cm):
    if cm is None or set(ci) != set(cm):
        return False
    return all(_close(ci[k], cm[k]) for k in ci)


def _eset(edges, idx=None):
    if idx is None:
        return {frozenset(e) for e in edges}
    return {frozenset((idx[a], idx[b])) for a, b in edges}


def _connected(nodes, edges):
    nodes = list(nodes)
    if not nodes:
        return True
    adj = {v: set() for v in nodes}
    for a, b in edges:
        adj[a].add(b)
        adj[b].add(a)
    seen, st = {nodes[0]}, [nodes[0]]
    while st:
        x = st.pop()
        for y in adj[x]:
            if y not in seen:
                seen.add(y)
                st.append(y)
    return len(seen) == len(nodes)


def _spy(fn):
    """run fn() recording nx.Graph.remove_node; -> (result, exception-or-None, order of the final elimination loop)"""
    import networkx as nx
    rec = []
    orig = nx.Graph.remove_node

    def wrapped(self, n):
        rec.append((self, n))
        return orig(self, n)

    nx.Graph.remove_node = wrapped
    res, exc = None, None
    try:
        res = fn()
    except Exception as e:  # classified by the caller
        exc = e
    finally:
        nx.Graph.remove_node = orig
    order = []
    if rec:
        g = rec[-1][0]
        i = len(rec)
        while i > 0 and rec[i - 1][0] is g:
            i -= 1
        order = [n for (_, n) in rec[i:]]
    return res, exc, order


def _snap_factors(factors):
    import numpy as np
    return [(id(p), list(p.variables), [int(c) for c in p.cardinality],
             np.asarray(p.values, dtype=float).tobytes(),
             sorted(((repr(k), list(v)) for k, v in p.state_names.items()))) for p in factors]


def _snap(m):
    """deep snapshot of a model object: node order, edge set, factor objects (identity, scope, value bytes, states)"""
    fac = m.cpds if hasattr(m, "cpds") else m.factors
    return (list(map(repr, m.nodes())), {frozenset(map(repr, e)) for e in m.edges()}, _snap_factors(fac))


def _pure(P, before, m, what):
    if _snap(m) != before:
        P.add("impl!=spec:source-mutated", {"call": what})
        return False
    return True


def _build_mn(case, names, nodes=None, edges=None, factors=None):
    from pgmpy.models import MarkovNetwork
    nodes = case["nodes"] if nodes is None else nodes
    edges = case["edges"] if edges is None else edges
    el = [(names[a], _fresh(names[b])) for a, b in edges]
    if case.get("build") == "ebunch" and el:
        mn = MarkovNetwork(_ctype(case, el))
        mn.add_nodes_from(_ctype(case, [names[v] for v in nodes]))
    else:
        mn = MarkovNetwork()
        mn.add_nodes_from(_ctype(case, [names[v] for v in nodes]))
        mn.add_edges_from(_ctype(case, el))
    fs = _mk_factors(case, names, case["factors"] if factors is None else factors)
    if case.get("addmode") == "each":
        for phi in fs:
            mn.add_factors(phi)
    else:
        mn.add_factors(*fs)
    return mn, fs


def _has_equal(fdicts, cards):
    """two factors equal as functions (any axis order)"""
    seen = []
    for f in fdicts:
        c = _canon_model(_mfac(f), cards)
        if any(c == d for d in seen):
            return True
        seen.append(c)
    return False


def _torch(case):
    return case.get("backend") == "torch"


class Problems:
    def __init__(self):
        self.items = []

    def add(self, kind, detail, finding=None):
        self.items.append((kind, detail, finding))

    def outcome(self, nontrivial, key, tags):
        unl = [p for p in self.items if p[2] is None]
        if unl:
            k, d, _ = unl[0]
            return bad(k, d, None, nontrivial=nontrivial, key=key, tags=tags)
        if self.items:
            k, d, f = self.items[0]
            return bad(k, d, f, nontrivial=nontrivial, key=key, tags=tags)
        return ok(nontrivial=nontrivial, key=key, tags=tags)


# ------------------------------------------------------------------ junction tree checks (shared)
def check_jt(P, drv, jt, order, ids_nodes, ids_edges, mfactors, cards, idx, states, has_equal, tags, what):
    """jt: pgmpy JunctionTree built from the MN (ids_nodes, ids_edges, mfactors); order: elimination order
    pgmpy's triangulate() used (ids)."""
    from pgmpy.factors import factor_product
    tn, te = drv.call("c14_triangulate", [ids_nodes, ids_edges, order, False])
    mc = {frozenset(c) for c in drv.call("c14_maxcliques", [tn, te])}
    jn = list(jt.nodes())
    cl = [[idx[v] for v in c] for c in jn]
    if {frozenset(c) for c in cl} != mc or len({frozenset(c) for c in cl}) != len(cl) or \
            any(len(set(c)) != len(c) for c in cl):
        P.add("impl!=model:jt-cliques", {"what": what, "impl": sorted(map(sorted, cl)), "model": sorted(map(sorted, mc))})
        return
    # the verified listing checker on nx.find_cliques' own listing (hypothesis of C14_junction_tree_construction)
    if not drv.call("c14_mcchk", [tn, te, cl]):
        P.add("impl!=spec:jt-cliques-not-the-maximal-cliques", {"what": what, "impl": cl})
        return
    pos = {c: i for i, c in enumerate(jn)}
    tedges = [[pos[a], pos[b]] for a, b in jt.edges()]
    scopes = [f[0] for f in mfactors]
    tree, cover, rip = drv.call("c14_jtchk", [cl, tedges, scopes])
    # maximum-weight certificate for nx.minimum_spanning_tree's tree: weight reaches the bound wstar
    # (C14_max_weight_certificate); with the two checks above the theorems give RIP without rip_chk
    wt, ws = drv.call("c14_jtweight", [cl, tedges])
    if tree and wt < ws:
        P.add("impl!=spec:jt-not-maximum-weight", {"what": what, "weight": wt, "bound": ws, "rip": rip,
                                                   "cliques": cl, "edges": tedges})
        return
    if tree and wt >= ws and not rip:
        P.add("model:rip-theorem-contradicted", {"what": what, "cliques": cl, "edges": tedges})
        return
    tags.append("jt cliques=%d" % len(cl))
    if not (tree and cover and rip):
        P.add("impl!=spec:jt-structure", {"what": what, "tree": tree, "cover": cover, "rip": rip,
                                          "cliques": cl, "edges": tedges})
        return
    if len(jt.factors) != len(cl):
        P.add("impl!=spec:jt-potential-count", {"what": what, "n": len(jt.factors)})
        return
    for c, phi in zip(cl, jt.factors):
        if {idx[v] for v in phi.variables} != set(c):
            P.add("impl!=spec:jt-potential-scope", {"what": what, "clique": c,
                                                    "scope": [idx[v] for v in phi.variables]})
            return
        for v in phi.variables:
            if list(phi.state_names[v]) != list(states[idx[v]]):
                P.add("impl!=spec:jt-state-names", {"what": what, "var": idx[v],
                                                    "impl": list(phi.state_names[v]), "expected": states[idx[v]]})
                return
    try:
        if jt.check_model() is not True:
            P.add("impl!=spec:jt-check_model", {"what": what})
    except ValueError as e:
        P.add("impl!=spec:jt-check_model", {"what": what, "exc": repr(e)})
        return
    st, pots = drv.call_e("c14_jtpots", [cards, cl, mfactors])
    coded = st == "ok" and all(_same(_canon_impl(phi, idx), _canon_model(mp, cards))
                               for phi, mp in zip(jt.factors, pots))
    allv = sorted({v for c in cl for v in c})
    spec_tab = drv.call("c14_joint", [cards, mfactors, allv])
    prod = factor_product(*jt.factors) if len(jt.factors) > 1 else jt.factors[0]
    spec = _same(_canon_impl(prod, idx), _canon_model([allv, spec_tab], cards))
    zi = float(jt.get_partition_function())
    zspec = common.frac(drv.call("c14_partition", [cards, mfactors]))
    zok = _close(zi, zspec)
    detail = {"what": what, "cliques": cl, "as_coded_model_agrees": coded, "joint_preserved": spec,
              "Z_impl": zi, "Z_factors": float(zspec), "equal_factors_present": has_equal}
    if spec and zok and coded:
        tags.append("jt joint preserved" + (" (equal factors present)" if has_equal else ""))
        return
    P.add("impl!=spec:jt-joint" if not spec or not zok else "impl!=model:jt-potentials", detail)


# ------------------------------------------------------------------ BN
def _mk_cpd(case, names, c, mismatch=None):
    from pgmpy.factors.discrete import TabularCPD
    v, ev = c["var"], c["ev"]
    cards = case["cards"]
    vals = [[float(_fr(x)) for x in row] for row in c["vals"]]
    kw = {}
    if case["states"] != "default":
        sn = {_fresh(names[u]): _state_names(case, u) for u in [v] + ev}
        if mismatch and mismatch[1] == v and mismatch[0] in ev:
            sn[names[mismatch[0]]] = sn[names[mismatch[0]]][::-1]
        kw["state_names"] = sn
    return TabularCPD(_fresh(names[v]), cards[v], vals, evidence=[_fresh(names[u]) for u in ev] or None,
                      evidence_card=[cards[u] for u in ev] or None, **kw)


def _mcpd(c):
    return [c["var"], c["ev"], [_fr(x) for row in c["vals"] for x in row]]


def _bn_core(P, drv, case, bn, nodes, edges, cpds_by_var, names, idx, states, tags, what):
    """all BN conversions on the object [bn] whose current state is (nodes, edges, cpds_by_var)"""
    from pgmpy.factors import factor_product
    cards = case["cards"]
    before = _snap(bn)
    mg = bn.moralize()
    mnodes, medges = drv.call("c14_moral", [nodes, edges])
    if {idx[v] for v in mg.nodes()} != set(mnodes) or _eset(mg.edges(), idx) != _eset(medges):
        P.add("impl!=model:moralize", {"what": what, "impl": sorted(map(sorted, _eset(mg.edges(), idx))),
                                       "model": sorted(map(sorted, _eset(medges)))})
    dag_adj = _eset(edges)
    imm = {frozenset((idx[a], idx[b])) for a, b in bn.get_immoralities()}
    if imm != _eset(medges) - dag_adj:
        P.add("impl!=model:get_immoralities", {"what": what, "impl": sorted(map(sorted, imm)),
                                                "model": sorted(map(sorted, _eset(medges) - dag_adj))})
    mm = bn.to_markov_model()
    cpd_vars = [idx[c.variable] for c in bn.cpds]
    if sorted(cpd_vars) != sorted(cpds_by_var):
        P.add("impl!=model:bn-cpds", {"what": what, "impl": sorted(cpd_vars), "expected": sorted(cpds_by_var)})
        return
    mcpds = [_mcpd(cpds_by_var[v]) for v in cpd_vars]
    (gn, ge), mfs = drv.call("c14_bn2mn", [nodes, edges, mcpds])
    mfs = [[f[0], [common.frac(x) for x in f[1]]] for f in mfs]
    if {idx[v] for v in mm.nodes()} != set(gn) or _eset(mm.edges(), idx) != _eset(ge):
        P.add("impl!=model:to_markov_model-graph", {"what": what, "impl": sorted(map(sorted, _eset(mm.edges(), idx))),
                                                    "model": sorted(map(sorted, _eset(ge)))})
    if len(mm.factors) != len(mfs):
        P.add("impl!=model:to_markov_model-factor-count", {"what": what, "impl": len(mm.factors), "model": len(mfs)})
    else:
        for phi, mf in zip(mm.factors, mfs):
            if not _same(_canon_impl(phi, idx), _canon_model(mf, cards)):
                P.add("impl!=model:to_markov_model-factor", {"what": what, "scope": mf[0]})
                break
            if any(list(phi.state_names[v]) != list(states[idx[v]]) for v in phi.variables):
                P.add("impl!=spec:to_markov_model-state-names", {"what": what, "scope": mf[0]})
                break
    if P.items:
        return
    if not drv.call("c14_mncheck", [gn, ge, mfs]):
        P.add("model:moral-graph-mn-invalid", {"what": what})
    mm.check_model()
    if not _torch(case) or TORCH_PARTITION:
        z = float(mm.get_partition_function())
        zm = common.frac(drv.call("c14_partition", [cards, mfs]))
        if not _close(z, zm):       # = 1 only when every column is exactly normalised; the model knows
            P.add("impl!=model:bn-mn-partition", {"what": what, "impl": z, "model": float(zm)})
    allv = sorted(nodes)
    tab = drv.call("c14_joint", [cards, mfs, allv])
    prod = factor_product(*mm.factors) if len(mm.factors) > 1 else mm.factors[0]
    if set(idx[v] for v in prod.variables) != set(allv) or \
            not _same(_canon_impl(prod, idx), _canon_model([allv, tab], cards)):
        P.add("impl!=spec:bn-mn-joint", {"what": what})
    if _connected(nodes, ge):
        jt, exc, order = _spy(bn.to_junction_tree)
        if exc is not None:
            P.add("impl:bn-to_junction_tree-raises", {"what": what, "exc": repr(exc)})
        else:
            check_jt(P, drv, jt, [idx[v] for v in order], gn, ge, mfs, cards, idx, states, False, tags, what)
    else:
        tags.append("bn disconnected (no jt)")
    # the converted network is a new object: mutating it leaves the source alone
    for phi in mm.factors:
        phi.values *= 3
    _pure(P, before, bn, what + ":moralize/to_markov_model/to_junction_tree")


def _build_bn(case, names):
    from pgmpy.models import BayesianNetwork
    bn = BayesianNetwork()
    bn.add_nodes_from([names[v] for v in case["nodes"]])
    bn.add_edges_from([(names[a], names[b]) for a, b in case["edges"]])
    for c in case["cpds"]:
        bn.add_cpds(_mk_cpd(case, names, c, case.get("mismatch")))
    return bn


def run_bn(case, drv):
    names = _names(case)
    idx = {nm: i for i, nm in enumerate(names)}
    n = case["n"]
    P = Problems()
    tags = ["bn n=%d" % n, "bn maxparents=%d" % max([len(c["ev"]) for c in case["cpds"]]),
            "states=%s" % case["states"], "names=%s" % case["style"], "backend=%s" % case["backend"]]
    key = common.canon_key(["bn", sorted(map(tuple, case["edges"])), case["cards"], case["cpds"], case.get("mismatch")])
    bn = _build_bn(case, names)
    if case.get("mismatch"):
        tags.append("bn state-order mismatch rejected")
        try:
            bn.check_model()
            P.add("impl:bn-state-order-mismatch-accepted", {"edge": case["mismatch"]})
        except ValueError:
            pass
        return P.outcome(True, key, tags)
    bn.check_model()
    states = {v: _state_names(case, v) for v in range(n)}
    _bn_core(P, drv, case, bn, case["nodes"], case["edges"], {c["var"]: c for c in case["cpds"]}, names, idx,
             states, tags, "bn")
    return P.outcome(len(case["edges"]) > 0, key, tags)


def run_bnsess(case, drv):
    """one BayesianNetwork object, converted again after every edit"""
    names = _names(case)
    idx = {nm: i for i, nm in enumerate(names)}
    cards, n0 = case["cards"], case["n0"]
    rng = random.Random(case["opseed"])
    P = Problems()
    tags = ["bnsess n=%d" % n0, "backend=%s" % case["backend"]]
    key = common.canon_key(["bnsess", case["edges"], cards, case["cpds"], case["opseed"], case["nops"]])
    bn = _build_bn(case, names)
    nodes, edges = list(case["nodes"]), [list(e) for e in case["edges"]]
    cp = {c["var"]: c for c in case["cpds"]}
    topo = list(case["topo"])
    states = {v: _state_names(case, v) for v in range(case["n"])}
    spare = [v for v in range(case["n"]) if v not in nodes]

    def newcpd(v, ev):
        k = 1
        for p in ev:
            k *= cards[p]
        cols = [_column(rng, cards[v], False) for _ in range(k)]
        return {"var": v, "ev": list(ev), "vals": [[c[r] for c in cols] for r in range(cards[v])]}

    def relayout(vals, ev, new_ev):
        """the same conditional table with the evidence listed in another order"""
        oc, ncard = [cards[p] for p in ev], [cards[p] for p in new_ev]
        out = []
        for row in vals:
            nr = []
            for t in itertools.product(*[range(c) for c in ncard]):
                cfg = dict(zip(new_ev, t))
                col = 0
                for p, c in zip(ev, oc):
                    col = col * c + cfg[p]
                nr.append(row[col])
            out.append(nr)
        return out

    def poke_cpd(mode):
        """edit, IN PLACE, a CPD object the network holds (same graph, same CPD identities)"""
        v = rng.choice(sorted(cp))
        cpd = bn.get_cpds(_fresh(names[v]))
        ev = cp[v]["ev"]
        ncol = len(cp[v]["vals"][0])
        col = rng.randrange(ncol)
        t, r = [], col
        for p in reversed(ev):
            t.append(r % cards[p])
            r //= cards[p]
        sel = (slice(None),) + tuple(reversed(t))
        if mode == "reorder" and len(ev) >= 2:
            new_ev = list(ev)
            while new_ev == ev:
                rng.shuffle(new_ev)
            cpd.reorder_parents([_fresh(names[p]) for p in new_ev], inplace=True)
            cp[v] = {"var": v, "ev": new_ev, "vals": relayout(cp[v]["vals"], ev, new_ev)}
            return "reorder"
        if mode == "normalize":
            ks = [rng.randint(1, 9) for _ in range(cards[v])]
            for r_, k in enumerate(ks):
                cpd.values[(r_,) + sel[1:]] = float(k)
            cpd.normalize(inplace=True)
            newcol = [[k, sum(ks)] for k in ks]
            mode = "normalize"
        else:
            newcol = _column(rng, cards[v], False)
            for r_, x in enumerate(newcol):
                cpd.values[(r_,) + sel[1:]] = float(_fr(x))
            mode = "values"
        cp[v] = dict(cp[v])
        cp[v]["vals"] = [list(row) for row in cp[v]["vals"]]
        for r_ in range(cards[v]):
            cp[v]["vals"][r_][col] = newcol[r_]
        return mode

    _bn_core(P, drv, case, bn, nodes, edges, cp, names, idx, states, tags, "bnsess step 0")
    forced = case.get("ops")
    for step in range(1, (len(forced) if forced else case["nops"]) + 1):
        if P.items:
            break
        es = {tuple(e) for e in edges}
        cand = [(a, b) for i, a in enumerate(topo) for b in topo[i + 1:] if (a, b) not in es and len(cp[b]["ev"]) < 3]
        op = forced[step - 1] if forced else rng.choice(
            ["replace", "add_edge", "add_edge", "add_node", "poke_cpd:values", "poke_cpd:values",
             "poke_cpd:normalize", "poke_cpd:reorder"])
        if op.startswith("poke_cpd"):
            op = "poke_cpd:" + poke_cpd(op.split(":")[1])
        elif op == "add_edge" and cand:
            a, b = rng.choice(cand)
            bn.add_edge(names[a], names[b])
            edges.append([a, b])
            ev = cp[b]["ev"] + [a]
            rng.shuffle(ev)
            cp[b] = newcpd(b, ev)
            bn.add_cpds(_mk_cpd(case, names, cp[b]))          # replaces the CPD of an existing variable
        elif op == "add_node" and spare:
            v = spare.pop()
            pa = rng.sample(topo, min(len(topo), rng.randint(0, 2)))
            bn.add_node(names[v])
            nodes.append(v)
            for p in pa:
                bn.add_edge(names[p], names[v])
                edges.append([p, v])
            topo.append(v)
            cp[v] = newcpd(v, pa)
            bn.add_cpds(_mk_cpd(case, names, cp[v]))
        else:
            op = "replace"
            v = rng.choice(sorted(cp))
            cp[v] = newcpd(v, cp[v]["ev"])
            bn.add_cpds(_mk_cpd(case, names, cp[v]))
        tags.append("bnsess op=%s" % op)
        bn.check_model()
        _bn_core(P, drv, case, bn, nodes, edges, cp, names, idx, states, tags, "bnsess step %d (%s)" % (step, op))
    return P.outcome(True, key, tags)


# ------------------------------------------------------------------ MN
def _tri_check_obj(P, drv, mn, ids_nodes, ids_edges, cards, idx, kw, label, tags, case=None):
    """mn.triangulate(**kw) on the given object whose graph is (ids_nodes, ids_edges)"""
    inplace = kw.get("inplace", False)
    before = _snap(mn)
    given_names = list(kw["order"]) if kw.get("order") else None
    kw2 = dict(kw)
    if kw.get("order") and case is not None:
        # equal-but-not-identical names in another container type (tuple, one-shot generator, dict view)
        kw2["order"] = _ctype(case, [_fresh(v) for v in kw["order"]])
    res, exc, order = _spy(lambda: mn.triangulate(**kw2))
    order = [idx[v] for v in order]
    edge_nodes = {v for e in ids_edges for v in e}
    iso = sorted(set(ids_nodes) - edge_nodes)
    chordal = drv.call("c14_chordal", [ids_nodes, ids_edges])
    if exc is not None:
        P.add("impl:triangulate-raises", {"label": label, "exc": repr(exc), "isolated": iso, "chordal": bool(chordal)})
        return None
    if given_names is not None and list(kw["order"]) != given_names:
        P.add("impl!=spec:argument-mutated", {"label": label, "arg": "order"})
    out = mn if inplace else res
    if inplace and not chordal and res is not mn:
        P.add("impl!=model:triangulate-inplace-return", {"label": label})
    if not inplace:
        _pure(P, before, mn, "triangulate " + label)
    elif _snap(mn)[2] != before[2] or _snap(mn)[0] != before[0]:
        P.add("impl!=spec:source-mutated", {"call": "triangulate " + label, "part": "nodes/factors"})
    on = {idx[v] for v in out.nodes()}
    oe = _eset(out.edges(), idx)
    if kw.get("order"):
        given = [idx[v] for v in kw["order"]]
        eff = []
        for v in given:
            if v in edge_nodes and v not in eff:
                eff.append(v)
        if not chordal and order != eff:
            P.add("harness:spied-order-differs", {"label": label, "spied": order, "given": given})
            return None
        morder = given          # the model applies the skip rule itself
    else:
        morder = order
    r = drv.call("c14_triangulate", [ids_nodes, ids_edges, morder, inplace])
    if on != set(r[0]) or oe != _eset(r[1]):
        # the property predicate itself on pgmpy's output (verified checker)
        prop_ok = _eset(ids_edges) <= oe and set(ids_nodes) <= on and \
            bool(drv.call("c14_chordal", [sorted(on), [sorted(e) for e in oe]]))
        P.add("impl!=model:triangulate", {"label": label, "order": morder, "impl": sorted(map(sorted, oe)),
                                          "impl_is_chordal_supergraph": prop_ok,
                                          "model": sorted(map(sorted, _eset(r[1]))),
                                          "impl_nodes": sorted(on), "model_nodes": sorted(r[0])})
        return None
    # property: chordal supergraph on all the nodes
    if not _eset(ids_edges) <= oe or not drv.call("c14_chordal", [sorted(on), [sorted(e) for e in oe]]):
        P.add("impl!=spec:triangulate-not-chordal-supergraph", {"label": label, "order": morder,
                                                               "impl": sorted(map(sorted, oe))})
        return None
    if not set(ids_nodes) <= on:
        P.add("impl!=spec:triangulate-drops-nodes", {"label": label, "lost": sorted(set(ids_nodes) - on)})
        return None
    if iso and not chordal:
        tags.append("triangulate with isolated nodes")
    if not kw.get("order") and not chordal:
        h = HEUR.index(kw.get("heuristic", "H6")) + 1
        if not drv.call("c14_heur", [h, cards, ids_nodes, ids_edges, order]):
            P.add("impl!=model:heuristic-order", {"label": label, "order": order})
    return r[1]


def _tri_check(P, drv, case, names, idx, kw, label, tags):
    mn, _ = _build_mn(case, names)
    _tri_check_obj(P, drv, mn, case["nodes"], case["edges"], case["cards"], idx, kw, label, tags, case)


def _fg_struct(P, drv, mn, fs, names, ids_nodes, ids_edges, mfs):
    """MarkovNetwork.to_factor_graph: the factor objects themselves, and the structure of the model"""
    fg = mn.to_factor_graph()
    if len(fg.factors) != len(fs) or any(a is not b for a, b in zip(fg.factors, fs)):
        P.add("impl!=spec:to_factor_graph-factors", {"impl": len(fg.factors), "expected": len(fs)})
    mv, mfn, mfe, mff = drv.call("c14_mn2fg", [ids_nodes, ids_edges, mfs])
    fname = {tuple(sc): "phi_" + "_".join(names[v] for v in sc) for sc in map(tuple, mfn)}
    exp_nodes = {names[v] for v in mv} | set(fname.values())
    exp_edges = {frozenset((names[v], fname[tuple(sc)])) for v, sc in mfe}
    if set(fg.nodes()) != exp_nodes or {frozenset(e) for e in fg.edges()} != exp_edges:
        P.add("impl!=model:to_factor_graph-structure", {"impl": sorted(map(str, fg.nodes())),
                                                        "model": sorted(map(str, exp_nodes))})
    return fg


def _rejects():
    """how an invalid model is refused: ValueError, or networkx's error for a factor on a node that is gone"""
    from networkx import NetworkXError
    return (ValueError, NetworkXError)


def _mn_rejected(P, mn, what):
    for f in (mn.get_partition_function, mn.to_junction_tree, mn.triangulate):
        try:
            f()
            P.add("impl:invalid-model-accepted", {"call": f.__name__, "what": what})
        except _rejects():
            pass


def run_mn(case, drv):
    names = _names(case)
    idx = {nm: i for i, nm in enumerate(names)}
    n, cards = case["n"], case["cards"]
    ids_nodes, ids_edges = case["nodes"], case["edges"]
    P = Problems()
    tags = ["mn shape=%s" % case["shape"], "mn n=%d" % n, "mn factors=%d" % len(case["factors"]),
            "values=%s" % case.get("vstyle"), "states=%s" % case["states"], "names=%s" % case["style"],
            "backend=%s" % case["backend"], "valsrc=%s" % case.get("valsrc"),
            "max factor width=%d" % max(len(f["vars"]) for f in case["factors"])]
    if case["dup"]:
        tags.append("mn dup=%s" % case["dup"])
    key = common.canon_key(["mn", sorted(map(tuple, ids_edges)), n, cards, case["factors"]])
    nontrivial = len(ids_edges) > 0 and any(len(f["vars"]) >= 2 for f in case["factors"])
    mfs = [_mfac(f) for f in case["factors"]]
    states = {v: _state_names(case, v) for v in range(n)}
    has_equal = _has_equal(case["factors"], cards)
    mn, fs = _build_mn(case, names)
    before = _snap(mn)
    # check_model
    mok = drv.call("c14_mncheck", [ids_nodes, ids_edges, mfs])
    try:
        mn.check_model()
        iok = True
    except ValueError:
        iok = False
    if iok != bool(mok):
        P.add("impl!=model:check_model", {"impl": iok, "model": bool(mok), "malformed": case["malformed"]})
        return P.outcome(nontrivial, key, tags)
    if not iok:
        tags.append("mn rejected (%s)" % case["malformed"])
        _mn_rejected(P, mn, "malformed")
        return P.outcome(nontrivial, key, tags)
    # partition function
    if not _torch(case) or TORCH_PARTITION:
        z = float(mn.get_partition_function())
        zm = common.frac(drv.call("c14_partition", [cards, mfs]))
        if not _close(z, zm):
            P.add("impl!=model:partition", {"impl": z, "model": float(zm)})
        _pure(P, before, mn, "get_partition_function")
    # markov blanket, chordality
    for v in ids_nodes:
        if {idx[u] for u in mn.markov_blanket(_fresh(names[v]))} != set(drv.call("c14_blanket", [ids_nodes, ids_edges, v])):
            P.add("impl!=model:markov_blanket", {"v": v})
            break
    chordal = bool(drv.call("c14_chordal", [ids_nodes, ids_edges]))
    if bool(mn.is_triangulated()) != chordal:
        P.add("impl!=model:is_triangulated", {"impl": bool(mn.is_triangulated()), "model": chordal})
    tags.append("mn chordal=%s" % chordal)
    # MN -> FG: structure and the factor multiset (no FactorGraph API beyond construction here)
    if all(isinstance(x, str) for x in names):
        _fg_struct(P, drv, mn, fs, names, ids_nodes, ids_edges, mfs)
        _pure(P, before, mn, "to_factor_graph")
    # triangulation: every heuristic, the default, order=[] and explicit orders, inplace both ways
    wide = n >= 9
    for h in (HEUR if not wide else HEUR[:1] + HEUR[5:]):
        for inplace in (False, True):
            _tri_check(P, drv, case, names, idx, {"heuristic": h, "inplace": inplace}, "%s inplace=%s" % (h, inplace), tags)
    _tri_check(P, drv, case, names, idx, {}, "default", tags)
    _tri_check(P, drv, case, names, idx, {"order": [], "inplace": True}, "order=[] inplace=True", tags)
    for o in case["orders"]:
        for inplace in (False, True):
            _tri_check(P, drv, case, names, idx, {"order": [names[v] for v in o], "inplace": inplace},
                       "order inplace=%s" % inplace, tags)
    # junction tree (connected graphs only), twice on the same object
    if _connected(ids_nodes, ids_edges):
        jts = []
        for rep in (1, 2):
            jt, exc, order = _spy(mn.to_junction_tree)
            if exc is not None:
                P.add("impl:to_junction_tree-raises", {"exc": repr(exc), "call": rep})
                break
            check_jt(P, drv, jt, [idx[v] for v in order], ids_nodes, ids_edges, mfs, cards, idx, states,
                     has_equal, tags if rep == 1 else [], "mn call %d" % rep)
            _pure(P, before, mn, "to_junction_tree")
            jts.append(jt)
            for phi in jt.factors:          # mutate the result: the source and the next result are unaffected
                phi.values *= 3
        if len(jts) == 2 and (jts[0] is jts[1] or any(a is b for a in jts[0].factors for b in jts[1].factors)):
            P.add("impl!=spec:junction-trees-share-objects", {})
    else:
        tags.append("mn disconnected (no jt)")
    return P.outcome(nontrivial, key, tags)


def run_sess(case, drv):
    """one MarkovNetwork object: conversions are re-run after every mutation; oracle = model on the current state"""
    from pgmpy.factors.discrete import DiscreteFactor
    names = _names(case)
    idx = {nm: i for i, nm in enumerate(names)}
    cards = case["cards"]
    rng = random.Random(case["opseed"])
    P = Problems()
    tags = ["sess n=%d" % case["n0"], "backend=%s" % case["backend"], "states=%s" % case["states"]]
    key = common.canon_key(["sess", case["edges"], cards, case["factors"], case["opseed"], case["nops"]])
    states = {v: _state_names(case, v) for v in range(case["n"])}
    mn, objs = _build_mn(case, names)
    nodes, edges = list(case["nodes"]), [list(e) for e in case["edges"]]
    fd = [dict(f) for f in case["factors"]]
    spare = [v for v in range(case["n"]) if v not in nodes]
    strnames = all(isinstance(x, str) for x in names)
    sess_h = rng.choice(HEUR)       # the same call is repeated after every edit

    def newf(scope):
        k = 1
        for v in scope:
            k *= cards[v]
        return {"vars": list(scope), "vals": _vals(rng, k)}

    def drop(i):
        """mn.remove_factors(objs[i]): list.remove takes the FIRST factor that is, or equals, it"""
        x = objs[i]
        mn.remove_factors(x)
        cx = _canon_model(_mfac(fd[i]), cards)
        j = next(j for j in range(len(objs)) if objs[j] is x or _canon_model(_mfac(fd[j]), cards) == cx)
        del objs[j]
        del fd[j]

    def core(what):
        mfs = [_mfac(f) for f in fd]
        if len(mn.factors) != len(objs) or any(a is not b for a, b in zip(mn.factors, objs)):
            P.add("impl!=model:session-factor-list", {"what": what, "impl": len(mn.factors), "expected": len(objs)})
            return False
        if {idx[v] for v in mn.nodes()} != set(nodes) or _eset(mn.edges(), idx) != _eset(edges):
            P.add("impl!=model:session-graph", {"what": what})
            return False
        before = _snap(mn)
        mok = bool(drv.call("c14_mncheck", [nodes, edges, mfs]))
        try:
            mn.check_model()
            iok = True
        except _rejects():
            iok = False
        if iok != mok:
            P.add("impl!=model:check_model", {"what": what, "impl": iok, "model": mok})
            return False
        if not iok:
            tags.append("sess state rejected")
            _mn_rejected(P, mn, what)
            return False
        if not fd:
            return False
        if {v for f in fd for v in f["vars"]} != set(nodes):
            # check_model only compares the NUMBER of nodes with the number of covered variables; a unary factor
            # on a removed node next to an uncovered node passes it, and get_partition_function refuses
            tags.append("sess state rejected (scope != nodes)")
            try:
                mn.get_partition_function()
                P.add("impl:invalid-model-accepted", {"call": "get_partition_function", "what": what})
            except _rejects():
                pass
            return False
        if not _torch(case) or TORCH_PARTITION:
            z = float(mn.get_partition_function())
            zm = common.frac(drv.call("c14_partition", [cards, mfs]))
            if not _close(z, zm):
                P.add("impl!=model:partition", {"what": what, "impl": z, "model": float(zm)})
        chordal = bool(drv.call("c14_chordal", [nodes, edges]))
        if bool(mn.is_triangulated()) != chordal:
            P.add("impl!=model:is_triangulated", {"what": what, "impl": bool(mn.is_triangulated()), "model": chordal})
        _tri_check_obj(P, drv, mn, nodes, edges, cards, idx, {"heuristic": sess_h}, what + " tri", tags)
        o = sorted({v for e in edges for v in e})
        rng.shuffle(o)
        _tri_check_obj(P, drv, mn, nodes, edges, cards, idx, {"order": [names[v] for v in o]}, what + " tri order", tags, case)
        if strnames:
            _fg_struct(P, drv, mn, objs, names, nodes, edges, mfs)
        if _connected(nodes, edges):
            jt, exc, order = _spy(mn.to_junction_tree)
            if exc is not None:
                P.add("impl:to_junction_tree-raises", {"what": what, "exc": repr(exc)})
            else:
                check_jt(P, drv, jt, [idx[v] for v in order], nodes, edges, mfs, cards, idx, states,
                         _has_equal(fd, cards), [], what)
        _pure(P, before, mn, what)
        return True

    valid = core("sess step 0")
    for step in range(1, case["nops"] + 1):
        if P.items:
            break
        es = {frozenset(e) for e in edges}
        non = [(a, b) for a in nodes for b in nodes if a < b and frozenset((a, b)) not in es]
        ops = ["add_edge", "remove_edge", "rewire", "rewire", "replace_factor", "swap_node", "add_factors", "add_factors_bad",
               "remove_factors", "self_loop", "add_node", "remove_node", "poke", "tri_inplace", "mutate_jt"]
        if step == case["nops"]:
            ops.append("clear")
        op = rng.choice(ops)
        if op == "add_edge" and non:
            a, b = rng.choice(non)
            mn.add_edge(names[a], names[b])
            edges.append([a, b])
        elif op == "remove_edge" and edges:
            a, b = rng.choice(edges)
            if rng.random() < 0.75:
                while True:
                    hit = [i for i, f in enumerate(fd) if a in f["vars"] and b in f["vars"]]
                    if not hit:
                        break
                    drop(hit[0])
            mn.remove_edge(names[a], names[b])                 # inherited from networkx
            edges = [e for e in edges if frozenset(e) != frozenset((a, b))]
        elif op == "rewire" and edges and non:
            # one edge out, another in: node, edge and (if no factor sat on it) factor COUNTS are unchanged
            free = [e for e in edges if not any(e[0] in f["vars"] and e[1] in f["vars"] for f in fd)] or edges
            a, b = rng.choice(free)
            while True:
                hit = [i for i, f in enumerate(fd) if a in f["vars"] and b in f["vars"]]
                if not hit:
                    break
                drop(hit[0])
            mn.remove_edge(names[a], names[b])
            edges = [e for e in edges if frozenset(e) != frozenset((a, b))]
            c, d = rng.choice(non)
            mn.add_edge(names[c], names[d])
            edges.append([c, d])
            for v in (a, b):            # keep every node covered
                if v in nodes and not any(v in f["vars"] for f in fd):
                    f = newf([v])
                    phi = _mk_factor(case, names, f)
                    mn.add_factors(phi)
                    objs.append(phi)
                    fd.append(f)
        elif op == "swap_node" and spare and len(nodes) > 1:
            # a node leaves with its k factors, another one arrives with k unary factors (and the same degree
            # when possible): the NUMBER of nodes and of factors is unchanged, the variable set is not
            v = rng.choice(nodes)
            k = 0
            while True:
                hit = [i for i, f in enumerate(fd) if v in f["vars"]]
                if not hit:
                    break
                drop(hit[0])
                k += 1
            nb = [e[0] if e[1] == v else e[1] for e in edges if v in e]
            mn.remove_node(names[v])
            nodes.remove(v)
            edges = [e for e in edges if v not in e]
            w = spare.pop()
            mn.add_node(names[w])
            nodes.append(w)
            for u in nb:
                mn.add_edge(names[w], names[u])
                edges.append([w, u])
            for _ in range(max(k, 1)):
                f = newf([w])
                phi = _mk_factor(case, names, f)
                mn.add_factors(phi)
                objs.append(phi)
                fd.append(f)
            for u in nodes:             # keep every node covered
                if not any(u in f["vars"] for f in fd):
                    f = newf([u])
                    phi = _mk_factor(case, names, f)
                    mn.add_factors(phi)
                    objs.append(phi)
                    fd.append(f)
        elif op == "replace_factor" and any(set(f["vars"]) <= set(nodes) for f in fd):
            i = rng.choice([j for j, f in enumerate(fd) if set(f["vars"]) <= set(nodes)])
            f = newf(fd[i]["vars"])             # same scope, other values: the factor COUNT is unchanged
            drop(i)
            phi = _mk_factor(case, names, f)
            mn.add_factors(phi)
            objs.append(phi)
            fd.append(f)
        elif op == "add_factors" and nodes:
            scope = rng.choice(edges) if edges and rng.random() < 0.6 else [rng.choice(nodes)]
            f = newf(scope)
            phi = _mk_factor(case, names, f)
            mn.add_factors(phi)
            objs.append(phi)
            fd.append(f)
        elif op == "add_factors_bad" and nodes:
            good = [newf([rng.choice(nodes)]) for _ in range(rng.randint(1, 2))]
            ghost = case["n"]       # an id that is not a node; the name below is not a node either
            new = good[:1] + [{"vars": [rng.choice(nodes), ghost], "vals": _vals(rng, cards[0])}] + good[1:]
            phis = []
            for f in new:
                if ghost in f["vars"]:
                    v = [u for u in f["vars"] if u != ghost][0]
                    phis.append(DiscreteFactor([names[v], "__ghost__"], [cards[v], 1],
                                               [float(_fr(x)) for x in _vals(rng, cards[v])]))
                else:
                    phis.append(_mk_factor(case, names, f))
            snapshot_args = [id(x) for x in phis]
            try:
                mn.add_factors(*phis)
                P.add("impl:add_factors-accepts-unknown-variable", {})
            except ValueError:
                pass
            after, okflag = drv.call("c14_addfactors", [nodes, [_mfac(f) for f in fd],
                                                       [[f["vars"], [_fr(x) for x in f["vals"]]] for f in new]])
            kept = len(after) - len(fd)
            if okflag or [id(x) for x in phis] != snapshot_args:
                P.add("model:add_factors", {"ok": okflag})
            objs.extend(phis[:kept])
            fd.extend(new[:kept])
        elif op == "remove_factors" and fd:
            drop(rng.randrange(len(fd)))
        elif op == "self_loop" and nodes:
            a = rng.choice(nodes)
            try:
                mn.add_edge(names[a], names[a])
                P.add("impl:self-loop-accepted", {})
            except ValueError:
                pass
        elif op == "add_node" and spare:
            v = spare.pop()
            mn.add_node(names[v])
            nodes.append(v)
            if rng.random() < 0.7:
                f = newf([v])
                phi = _mk_factor(case, names, f)
                mn.add_factors(phi)
                objs.append(phi)
                fd.append(f)
        elif op == "remove_node" and len(nodes) > 1:
            v = rng.choice(nodes)
            if rng.random() < 0.75:
                while True:
                    hit = [i for i, f in enumerate(fd) if v in f["vars"]]
                    if not hit:
                        break
                    drop(hit[0])
            mn.remove_node(names[v])                            # inherited from networkx
            nodes.remove(v)
            edges = [e for e in edges if v not in e]
        elif op == "poke" and fd:
            # IN-PLACE edit of a factor object the network holds: one entry, set_value, scalar product, normalize
            i = rng.randrange(len(fd))
            phi = objs[i]
            mode = rng.choice(["values", "values", "set_value", "scalar", "normalize"])
            vals = [list(x) for x in fd[i]["vals"]]
            k = rng.randrange(len(vals))
            shape = [cards[v] for v in fd[i]["vars"]]
            t, r = [], k
            for c in reversed(shape):
                t.append(r % c)
                r //= c
            t = tuple(reversed(t))
            tot = sum(_fr(x) for x in vals)
            if mode == "scalar":
                phi.product(2.0, inplace=True)
                vals = [[2 * x[0], x[1]] for x in vals]
            elif mode == "normalize" and tot != 0:
                phi.normalize(inplace=True)
                vals = [[(_fr(x) / tot).numerator, (_fr(x) / tot).denominator] for x in vals]
            elif mode == "set_value" and all(isinstance(names[v], str) for v in fd[i]["vars"]):
                nv = _vals(rng, 1)[0]
                # a state is addressed by its name when that is a string, else by its number (set_value's rule)
                phi.set_value(float(_fr(nv)), **{names[v]: (states[v][ti] if isinstance(states[v][ti], str) else ti)
                                                 for v, ti in zip(fd[i]["vars"], t)})
                vals[k] = nv
            else:
                mode = "values"
                nv = _vals(rng, 1)[0]
                phi.values[t] = float(_fr(nv))
                vals[k] = nv
            for j in range(len(fd)):
                if objs[j] is phi:
                    fd[j] = dict(fd[j])
                    fd[j]["vals"] = [list(x) for x in vals]
            op = "poke:" + mode
        elif op == "tri_inplace" and valid:
            h = rng.choice(HEUR)
            ne = _tri_check_obj(P, drv, mn, nodes, edges, cards, idx, {"heuristic": h, "inplace": True},
                                "sess tri_inplace " + h, tags)
            if ne is None:
                break
            edges = [list(e) for e in ne]
        elif op == "mutate_jt" and valid and _connected(nodes, edges):
            jt = mn.to_junction_tree()
            for phi in jt.factors:
                phi.values *= 3
            jt.remove_node(list(jt.nodes())[0])
        elif op == "clear":
            mn.clear()                                          # inherited from networkx; the factors stay
            nodes, edges = [], []
        else:
            op = "none"
        tags.append("sess op=%s" % op)
        valid = core("sess step %d (%s)" % (step, op))
    return P.outcome(True, key, tags)


def run_mn2fg(case, drv):
    """the FactorGraph API on the output of MarkovNetwork.to_factor_graph"""
    names = _names(case)
    idx = {nm: i for i, nm in enumerate(names)}
    cards = case["cards"]
    P = Problems()
    tags = ["mn2fg n=%d" % case["n"], "names=%s" % case["style"]]
    key = common.canon_key(["mn2fg", sorted(map(tuple, case["edges"])), cards, case["factors"]])
    mfs = [_mfac(f) for f in case["factors"]]
    mn, fs = _build_mn(case, names)
    mn.check_model()
    fg = mn.to_factor_graph()
    from pgmpy.factors.discrete import DiscreteFactor
    same_factors = len(fg.factors) == len(fs) and all(a is b for a, b in zip(fg.factors, fs))
    if not same_factors:
        P.add("impl!=spec:to_factor_graph-factors", {})
        return P.outcome(True, key, tags)
    zm = common.frac(drv.call("c14_partition", [cards, mfs]))
    try:
        z = float(fg.get_partition_function())
        if not _close(z, zm):
            P.add("impl!=model:fg-partition", {"impl": z, "model": float(zm)})
        back = fg.to_markov_model()
        if len(back.factors) != len(fs) or _eset(back.edges(), idx) != _eset(mn.edges(), idx):
            P.add("impl!=spec:fg-roundtrip", {})
    except ValueError as e:
        fnodes = [x for x in fg.nodes() if x not in set(mn.nodes())]
        if fnodes and not any(isinstance(x, DiscreteFactor) for x in fnodes):
            # the factor list is intact, but FactorGraph.check_model rejects string factor nodes
            tags.append("fg rejects to_factor_graph output")
            P.add("impl!=spec:to_factor_graph-invalid-target", {"exc": repr(e), "factor_nodes": fnodes[:4]},
                  finding="to-factor-graph-invalid-target")
        else:
            P.add("impl:fg-api-raises", {"exc": repr(e)})
    return P.outcome(True, key, tags)


# ------------------------------------------------------------------ FG
def _build_fg(case, names, fs):
    from pgmpy.models import FactorGraph
    used = sorted({v for f in case["factors"] for v in f["vars"]})
    el = [(v, phi) for phi in fs for v in phi.variables]
    if case.get("build") == "ebunch" and el:
        fg = FactorGraph(el)
    else:
        fg = FactorGraph()
        fg.add_nodes_from([names[v] for v in used])
        for phi in fs:
            fg.add_node(phi)
        fg.add_edges_from(el)
    fg.add_factors(*fs)
    return fg


def _fg_core(P, drv, case, fg, fs, fd, names, idx, states, tags, what):
    from pgmpy.factors.discrete import DiscreteFactor
    cards = case["cards"]
    mfs = [_mfac(f) for f in fd]
    has_equal = _has_equal(fd, cards)
    before = _snap(fg)
    st, r = drv.call_e("c14_fg2mn", [cards, mfs])
    try:
        mm = fg.to_markov_model()
        exc = None
    except ValueError as e:
        mm, exc = None, e
    if exc is not None:
        nfn = sum(1 for x in fg.nodes() if isinstance(x, DiscreteFactor))
        # exactly: equal factor objects became one networkx node, and check_model counted them
        if st == "err" and r == 5 and has_equal and nfn < len(fs) and "factor nodes" in str(exc):
            tags.append("fg equal factors rejected")
            P.add("impl!=spec:fg-equal-factors-rejected", {"exc": repr(exc)},
                  finding="equal-factors-collapse-factorgraph")
        else:
            P.add("impl!=model:fg-to_markov_model-raises", {"what": what, "exc": repr(exc), "model": [st, r]})
        return None
    if st != "ok":
        P.add("impl!=model:fg-to_markov_model", {"what": what, "model_err": r})
        return None
    (gn, ge), mf2 = r
    if {idx[v] for v in mm.nodes()} != set(gn) or _eset(mm.edges(), idx) != _eset(ge):
        P.add("impl!=model:fg-to_markov_model-graph", {"what": what, "impl": sorted(map(sorted, _eset(mm.edges(), idx))),
                                                       "model": sorted(map(sorted, _eset(ge)))})
    if len(mm.factors) != len(fs) or any(a is not b for a, b in zip(mm.factors, fs)):
        P.add("impl!=spec:fg-to_markov_model-factors", {"what": what, "impl": len(mm.factors), "expected": len(fs)})
    mf2 = [[f[0], [common.frac(x) for x in f[1]]] for f in mf2]
    if [(_canon_model(a, cards)) for a in mf2] != [_canon_model(a, cards) for a in mfs]:
        P.add("model:fg-to_markov_model-factors", {})
    if P.items:
        return None
    if not _torch(case) or TORCH_PARTITION:
        zm = common.frac(drv.call("c14_partition", [cards, mfs]))
        z1, z2 = float(fg.get_partition_function()), float(mm.get_partition_function())
        if not _close(z1, zm) or not _close(z2, zm):
            P.add("impl!=model:fg-partition", {"what": what, "fg": z1, "mn": z2, "model": float(zm)})
    if not P.items and _connected(gn, ge):
        jt, exc, order = _spy(fg.to_junction_tree)
        if exc is not None:
            P.add("impl:fg-to_junction_tree-raises", {"what": what, "exc": repr(exc)})
        else:
            check_jt(P, drv, jt, [idx[v] for v in order], gn, ge, mfs, cards, idx, states, has_equal, tags, what)
    if _snap(fg) != before:
        P.add("impl!=spec:source-mutated", {"call": what})
    return mm


def run_fg(case, drv):
    names = _names(case)
    idx = {nm: i for i, nm in enumerate(names)}
    n, cards = case["n"], case["cards"]
    P = Problems()
    tags = ["fg n=%d" % n, "fg factors=%d" % len(case["factors"]), "backend=%s" % case["backend"]]
    if case["dup"]:
        tags.append("fg dup=%s" % case["dup"])
    key = common.canon_key(["fg", n, cards, case["factors"], case.get("malformed")])
    nontrivial = any(len(f["vars"]) >= 2 for f in case["factors"])
    states = {v: _state_names(case, v) for v in range(n)}
    fs = _mk_factors(case, names, case["factors"])
    fg = _build_fg(case, names, fs)
    if case.get("malformed"):
        from pgmpy.factors.discrete import DiscreteFactor
        used = sorted({v for f in case["factors"] for v in f["vars"]})
        if case["malformed"] == "varvar" and len(used) >= 2:
            fg.add_edge(names[used[0]], names[used[1]])         # variable - variable edge
        else:
            extra = DiscreteFactor([names[used[0]]], [cards[used[0]]], [float(k + 5) for k in range(cards[used[0]])])
            fg.add_node(extra)                                  # a factor node whose factor was never added
            fg.add_edge(names[used[0]], extra)
        tags.append("fg rejected (%s)" % case["malformed"])
        for f in (fg.to_markov_model, fg.to_junction_tree, fg.get_partition_function):
            try:
                f()
                P.add("impl:invalid-factor-graph-accepted", {"call": f.__name__, "malformed": case["malformed"]})
            except ValueError:
                pass
        return P.outcome(nontrivial, key, tags)
    _fg_core(P, drv, case, fg, fs, case["factors"], names, idx, states, tags, "fg")
    return P.outcome(nontrivial, key, tags)


def run_fgsess(case, drv):
    """one FactorGraph object, converted again after factors are added / removed and after its results are mutated"""
    names = _names(case)
    idx = {nm: i for i, nm in enumerate(names)}
    cards = case["cards"]
    rng = random.Random(case["opseed"])
    P = Problems()
    tags = ["fgsess n=%d" % case["n"], "backend=%s" % case["backend"]]
    key = common.canon_key(["fgsess", cards, case["factors"], case["opseed"], case["nops"]])
    states = {v: _state_names(case, v) for v in range(case["n"])}
    fd = [dict(f) for f in case["factors"]]
    if _has_equal(fd, cards):
        return ok(nontrivial=False, key=key, tags=tags + ["fgsess skipped (equal factors)"])
    fs = _mk_factors(case, names, fd)
    fg = _build_fg(case, names, fs)
    mm = _fg_core(P, drv, case, fg, fs, fd, names, idx, states, tags, "fgsess step 0")
    for step in range(1, case["nops"] + 1):
        if P.items:
            break
        used = sorted({v for f in fd for v in f["vars"]})
        op = rng.choice(["add", "add", "remove", "mutate_mm"])
        if op == "remove":
            cand = [i for i in range(len(fd))
                    if all(any(v in g["vars"] for j, g in enumerate(fd) if j != i) for v in fd[i]["vars"])]
            if not cand:
                op = "add"
            else:
                i = rng.choice(cand)
                fg.remove_factors(fs[i])                        # also removes the factor node
                del fs[i]
                del fd[i]
        if op == "mutate_mm" and mm is not None and mm.factors:
            mm.remove_factors(mm.factors[0])                    # the converted network is a separate object
            mm.add_edge("__m1__", "__m2__")
        elif op == "mutate_mm":
            op = "add"
        if op == "add":
            scope = rng.sample(used, min(len(used), rng.randint(1, 2)))
            k = 1
            for v in scope:
                k *= cards[v]
            f = {"vars": scope, "vals": _vals(rng, k)}
            if _has_equal(fd + [f], cards):
                continue
            phi = _mk_factor(case, names, f)
            fg.add_node(phi)
            fg.add_edges_from([(v, phi) for v in phi.variables])
            fg.add_factors(phi)
            fs.append(phi)
            fd.append(f)
        tags.append("fgsess op=%s" % op)
        mm = _fg_core(P, drv, case, fg, fs, fd, names, idx, states, tags, "fgsess step %d (%s)" % (step, op))
    return P.outcome(True, key, tags)


RUNNERS = {"bn": run_bn, "mn": run_mn, "mn2fg": run_mn2fg, "fg": run_fg, "sess": run_sess, "bnsess": run_bnsess,
           "fgsess": run_fgsess}


def run_case(case, drv):
    case.setdefault("backend", "numpy")
    case.setdefault("style", "str")
    case.setdefault("states", "default")
    f = RUNNERS[case["kind"]]
    if case["backend"] != "torch":
        return f(case, drv)
    from pgmpy import config
    config.set_backend("torch")
    try:
        return f(case, drv)
    finally:
        config.set_backend("numpy")
