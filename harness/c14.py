"""C14 correspondence: pgmpy's model conversions (BN -> MN, MN <-> factor graph, triangulation,
junction tree, partition function) vs the Coq model coq/C14 (as-coded model + verified checkers)."""
import itertools
import random
from fractions import Fraction

from harness import common
from harness.common import ok, bad

PROP = "C14"
LEVEL = "proof"
HASHSEEDS = {"quick": [0, 1, 2, 3], "thorough": list(range(16))}
BUDGET_S = {"quick": 150, "thorough": 1500}
EXHAUSTIVE = {"quick": False, "thorough": False}
RULE = ("random Bayesian networks (2-7 nodes, families with up to 4 parents, CPD evidence order shuffled, "
        "cardinalities 1-3, str/int/tuple/mixed node names, string or default state names), Markov networks "
        "(chordless cycles, trees, random connected, k-tree chordal, complete, grids, disconnected, isolated "
        "nodes; pairwise/clique/unary/repeated-scope/duplicate(equal, also axis-permuted) factors; malformed: "
        "uncovered node, non-clique scope) and factor graphs (factor objects as nodes, incl. equal factors); "
        "every heuristic H1..H6 and explicit orders (also with isolated and repeated nodes), inplace both ways; "
        "corpus: the former D2 witness (two equal factors) and the 4-cycle with an isolated node.  A case is non-trivial when it has >=1 "
        "edge and >=1 factor over >=2 variables; distinct = distinct canonical (kind, graph, factors, options)")
TRUSTED_BASE = [
    "networkx Graph storage, nx.find_cliques (cross-checked against the model's brute-force maximal cliques), "
    "nx.minimum_spanning_tree (its output is validated by the verified tree/RIP checkers), nx.is_chordal "
    "(cross-checked against the verified PEO-search checker)",
    "numpy einsum inside DiscreteFactor.product (C04 covers it); values are dyadic rationals, exact in float64",
    "the elimination order pgmpy chose is observed by recording nx.Graph.remove_node calls",
    "Fulkerson-Gross: a graph is chordal iff it has a perfect elimination ordering (Spec.chordal is the PEO form)",
]
ASSUMPTIONS = ["node names are interned to nat identifiers by the harness",
               "cardinalities are consistent across factors (inconsistent cardinalities are not generated)",
               "to_factor_graph is exercised with string node names only (it joins the scope with '_')"]

HEUR = ["H1", "H2", "H3", "H4", "H5", "H6"]


# ------------------------------------------------------------------ generation
def _vals(rng, k, zeros=False):
    out = []
    for _ in range(k):
        if zeros and rng.random() < 0.1:
            out.append([0, 1])
        else:
            d = rng.choice([1, 2, 4])
            out.append([rng.randint(1, 4 * d), d])
    return out


def _graph(rng, shape, n):
    """-> (n, edges) with edges as sorted id pairs"""
    E = set()
    if shape == "cycle":
        n = max(n, 4)
        E = {tuple(sorted((i, (i + 1) % n))) for i in range(n)}
    elif shape == "tree":
        for i in range(1, n):
            E.add((rng.randrange(i), i))
    elif shape == "random":
        for i in range(1, n):
            E.add((rng.randrange(i), i))
        for _ in range(rng.randint(1, n)):
            a, b = rng.sample(range(n), 2)
            E.add(tuple(sorted((a, b))))
    elif shape == "chordal":
        cl = [[0]]
        for v in range(1, n):
            K = rng.choice(cl)
            S = rng.sample(K, rng.randint(1, min(len(K), 3)))
            for u in S:
                E.add((u, v))
            cl.append(S + [v])
    elif shape == "complete":
        n = min(n, 5)
        E = {(i, j) for i in range(n) for j in range(i + 1, n)}
    elif shape == "grid":
        n = 6
        E = {(0, 1), (1, 2), (3, 4), (4, 5), (0, 3), (1, 4), (2, 5)}
    elif shape == "iso":  # chordless cycle + isolated node(s)
        k = max(4, n - 1)
        E = {tuple(sorted((i, (i + 1) % k))) for i in range(k)}
        n = k + rng.randint(1, 2)
    elif shape == "isochordal":  # chordal + isolated node
        for i in range(1, n - 1):
            E.add((rng.randrange(i), i))
    elif shape == "disc":
        n = max(n, 5)
        h = n // 2
        for i in range(1, h):
            E.add((rng.randrange(i), i))
        for i in range(h + 1, n):
            E.add((rng.randrange(h, i), i))
        if h >= 3 and rng.random() < 0.5:
            E.add((0, h - 1)) if (0, h - 1) not in E else None
    elif shape == "wheelless":  # two chordless cycles sharing an edge
        n = 6
        E = {(0, 1), (1, 2), (2, 3), (0, 3), (2, 4), (4, 5), (3, 5)}
    perm = list(range(n))
    rng.shuffle(perm)
    E2 = sorted({tuple(sorted((perm[a], perm[b]))) for a, b in E})
    rng.shuffle(E2)
    return n, [list(e) for e in E2]


def _cliques_upto3(n, edges):
    adj = {i: set() for i in range(n)}
    for a, b in edges:
        adj[a].add(b)
        adj[b].add(a)
    tri = [[a, b, c] for a in range(n) for b in adj[a] if b > a for c in adj[a] & adj[b] if c > b]
    return adj, tri


def _mn_factors(rng, n, edges, cards, dup_mode):
    adj, tri = _cliques_upto3(n, edges)
    fs = []

    def mk(scope):
        scope = list(scope)
        rng.shuffle(scope)
        k = 1
        for v in scope:
            k *= cards[v]
        return {"vars": scope, "vals": _vals(rng, k)}

    for e in edges:
        if rng.random() < 0.7:
            fs.append(mk(e))
    for t in tri:
        if rng.random() < 0.4:
            fs.append(mk(t))
    covered = {v for f in fs for v in f["vars"]}
    for v in range(n):
        if v not in covered:
            if adj[v] and rng.random() < 0.5:
                fs.append(mk([v, rng.choice(sorted(adj[v]))]))
            else:
                fs.append(mk([v]))
            covered |= set(fs[-1]["vars"])
    if rng.random() < 0.4:
        fs.append(mk([rng.randrange(n)]))
    if rng.random() < 0.3 and fs:  # repeated scope, different values
        fs.append(mk(rng.choice(fs)["vars"]))
    if dup_mode == "object" and fs:
        # THE SAME DiscreteFactor OBJECT added two or three times (shared "oid"); unary and pairwise preferred
        small = [f for f in fs if len(f["vars"]) <= 2] or fs
        for k, f in enumerate(rng.sample(small, min(len(small), rng.randint(1, 2)))):
            f["oid"] = k + 1
            for _ in range(rng.choice([1, 1, 2])):
                fs.append({"vars": list(f["vars"]), "vals": [list(x) for x in f["vals"]], "oid": k + 1})
    elif dup_mode and fs:
        for _ in range(rng.randint(1, 2)):
            f = rng.choice(fs)
            if dup_mode == "perm" and len(f["vars"]) >= 2:
                fs.append(_permuted_copy(rng, f, cards))
            else:
                fs.append({"vars": list(f["vars"]), "vals": [list(x) for x in f["vals"]]})
    rng.shuffle(fs)
    return fs


def _permuted_copy(rng, f, cards):
    """the same function with the axes in another order (equal by DiscreteFactor.__eq__)"""
    vs = f["vars"]
    p = list(range(len(vs)))
    while p == list(range(len(vs))):
        rng.shuffle(p)
    nvs = [vs[i] for i in p]
    shape = [cards[v] for v in vs]
    nshape = [cards[v] for v in nvs]
    vals = []
    for t in itertools.product(*[range(c) for c in nshape]):
        old = [0] * len(vs)
        for k, i in enumerate(p):
            old[i] = t[k]
        flat = 0
        for c, i in zip(shape, old):
            flat = flat * c + i
        vals.append(list(f["vals"][flat]))
    return {"vars": nvs, "vals": vals}


def _bn(rng, n):
    order = list(range(n))
    rng.shuffle(order)
    pmax = rng.choice([1, 2, 3, 4])
    edges = []
    pars = {v: [] for v in range(n)}
    for i in range(1, n):
        k = rng.randint(0 if rng.random() < 0.3 else 1, min(i, pmax))
        ps = rng.sample(order[:i], k)
        if i == n - 1 and n >= 4 and rng.random() < 0.6:
            ps = rng.sample(order[:i], min(i, rng.choice([3, 3, 4])))
        for p in ps:
            edges.append([p, order[i]])
            pars[order[i]].append(p)
    return edges, pars


def cases(tier, seed):
    rng = random.Random(seed)
    out = []
    nb, nm, nf, n2 = (200, 550, 150, 40) if tier == "quick" else (1500, 4200, 1000, 300)
    for _ in range(nb):
        n = rng.randint(2, 7 if tier == "thorough" else 6)
        edges, pars = _bn(rng, n)
        cards = [rng.choice([1, 2, 2, 2, 3, 3]) for _ in range(n)]
        cpds = []
        for v in range(n):
            ev = list(pars[v])
            rng.shuffle(ev)
            k = 1
            for p in ev:
                k *= cards[p]
            cols = [common.rand_column(rng, cards[v]) for _ in range(k)]
            vals = [[[c[r].numerator, c[r].denominator] for c in cols] for r in range(cards[v])]
            cpds.append({"var": v, "ev": ev, "vals": vals})
        rng.shuffle(cpds)
        nodes = list(range(n))
        rng.shuffle(nodes)
        out.append({"kind": "bn", "n": n, "nodes": nodes, "edges": edges, "cards": cards, "cpds": cpds,
                    "style": rng.choice(common.NAME_STYLES), "states": rng.choice(["default", "str"]),
                    "nameseed": rng.randint(0, 10**9)})
    shapes = ["cycle", "tree", "random", "random", "chordal", "complete", "grid", "iso", "isochordal", "disc",
              "wheelless"]
    for i in range(nm):
        shape = shapes[i % len(shapes)]
        n, edges = _graph(rng, shape, rng.randint(3, 7 if tier == "thorough" else 6))
        cards = [rng.choice([1, 2, 2, 2, 3]) for _ in range(n)]
        dup = rng.choice([None, None, "exact", "perm", "object"])
        fs = _mn_factors(rng, n, edges, cards, dup)
        malformed = None
        if rng.random() < 0.08:
            malformed = rng.choice(["uncovered", "nonclique"])
            if malformed == "uncovered":
                v = rng.randrange(n)
                fs = [f for f in fs if v not in f["vars"]]
                if not fs:
                    malformed = None
                    fs = _mn_factors(rng, n, edges, cards, None)
            else:
                es = {tuple(e) for e in edges}
                non = [(a, b) for a in range(n) for b in range(a + 1, n) if (a, b) not in es]
                if non:
                    a, b = rng.choice(non)
                    fs.append({"vars": [a, b], "vals": _vals(rng, cards[a] * cards[b])})
                else:
                    malformed = None
        orders = []
        for _ in range(2):
            o = sorted({v for e in edges for v in e})
            rng.shuffle(o)
            orders.append(o)
        if shape in ("iso", "isochordal") or rng.random() < 0.2:
            o = list(range(n))
            rng.shuffle(o)
            if rng.random() < 0.5:
                o.insert(rng.randrange(len(o) + 1), rng.choice(o))   # a repeated node is skipped
            orders.append(o)
        nodes = list(range(n))
        rng.shuffle(nodes)
        out.append({"kind": "mn", "shape": shape, "n": n, "nodes": nodes, "edges": edges, "cards": cards,
                    "factors": fs, "dup": dup, "malformed": malformed, "orders": orders,
                    "addmode": rng.choice(["once", "each"]),
                    "style": rng.choice(common.NAME_STYLES), "states": rng.choice(["default", "str"]),
                    "nameseed": rng.randint(0, 10**9)})
    for i in range(n2):
        shape = rng.choice(["cycle", "tree", "random", "chordal"])
        n, edges = _graph(rng, shape, rng.randint(3, 5))
        cards = [rng.choice([2, 2, 3]) for _ in range(n)]
        fs = _mn_factors(rng, n, edges, cards, rng.choice([None, "exact", "object"]))
        out.append({"kind": "mn2fg", "shape": shape, "n": n, "nodes": list(range(n)), "edges": edges,
                    "cards": cards, "factors": fs, "style": "str", "states": "default",
                    "nameseed": rng.randint(0, 10**9)})
    for i in range(nf):
        shape = rng.choice(["cycle", "tree", "random", "chordal", "complete"])
        n, edges = _graph(rng, shape, rng.randint(2, 6))
        cards = [rng.choice([1, 2, 2, 3]) for _ in range(n)]
        dup = rng.choice([None, None, None, "exact", "perm", "object"])
        fs = _mn_factors(rng, n, edges, cards, dup)
        out.append({"kind": "fg", "shape": shape, "n": n, "cards": cards, "factors": fs, "dup": dup,
                    "style": rng.choice(common.NAME_STYLES), "states": rng.choice(["default", "str"]),
                    "nameseed": rng.randint(0, 10**9)})
    rng.shuffle(out)
    return out


def shrink(case):
    if case["kind"] in ("mn", "fg", "mn2fg"):
        fs = case["factors"]
        for i in range(len(fs)):
            c = dict(case)
            c["factors"] = fs[:i] + fs[i + 1:]
            yield c
    if case["kind"] == "mn":
        for i in range(len(case["orders"])):
            c = dict(case)
            c["orders"] = case["orders"][:i] + case["orders"][i + 1:]
            yield c


# ------------------------------------------------------------------ helpers
def _names(case):
    rng = random.Random(case["nameseed"])
    return common.node_names(rng, case["n"], case["style"])


def _state_names(case, v):
    c = case["cards"][v]
    if case["states"] == "str":
        return ["s%d_%d" % (v, k) for k in range(c)]
    return list(range(c))


def _fr(p):
    return Fraction(p[0], p[1])


def _mk_factor(case, names, f):
    from pgmpy.factors.discrete import DiscreteFactor
    vs = [names[v] for v in f["vars"]]
    card = [case["cards"][v] for v in f["vars"]]
    vals = [float(_fr(x)) for x in f["vals"]]
    if case["states"] == "str":
        return DiscreteFactor(vs, card, vals, state_names={names[v]: _state_names(case, v) for v in f["vars"]})
    return DiscreteFactor(vs, card, vals)


def _mk_factors(case, names, flist):
    """pgmpy factor objects for the case's factor list; entries sharing an "oid" are THE SAME object"""
    by_oid, out = {}, []
    for f in flist:
        oid = f.get("oid")
        if oid is not None and oid in by_oid:
            out.append(by_oid[oid])
            continue
        phi = _mk_factor(case, names, f)
        if oid is not None:
            by_oid[oid] = phi
        out.append(phi)
    return out


def _mfac(f):
    return [list(f["vars"]), [_fr(x) for x in f["vals"]]]


def _canon_impl(phi, idx):
    import numpy as np
    vs = [idx[v] for v in phi.variables]
    card = [int(c) for c in phi.cardinality]
    arr = np.asarray(phi.values, dtype=float).reshape(card)
    return {tuple(sorted(zip(vs, t))): float(arr[t]) for t in itertools.product(*[range(c) for c in card])}


def _canon_model(mf, cards):
    vs, vals = mf
    card = [cards[v] for v in vs]
    keys = [tuple(sorted(zip(vs, t))) for t in itertools.product(*[range(c) for c in card])]
    if len(keys) != len(vals):
        return None
    return {k: common.frac(x) if isinstance(x, list) else x for k, x in zip(keys, vals)}


def _same(ci, cm):
    if cm is None or set(ci) != set(cm):
        return False
    return all(common.approx(ci[k], cm[k]) for k in ci)


def _eset(edges, idx=None):
    if idx is None:
        return {frozenset(e) for e in edges}
    return {frozenset((idx[a], idx[b])) for a, b in edges}


def _connected(nodes, edges):
    nodes = list(nodes)
    if not nodes:
        return True
    adj = {v: set() for v in nodes}
    for a, b in edges:
        adj[a].add(b)
        adj[b].add(a)
    seen, st = {nodes[0]}, [nodes[0]]
    while st:
        x = st.pop()
        for y in adj[x]:
            if y not in seen:
                seen.add(y)
                st.append(y)
    return len(seen) == len(nodes)


def _spy(fn):
    """run fn() recording nx.Graph.remove_node; -> (result, exception-or-None, order of the final elimination loop)"""
    import networkx as nx
    rec = []
    orig = nx.Graph.remove_node

    def wrapped(self, n):
        rec.append((self, n))
        return orig(self, n)

    nx.Graph.remove_node = wrapped
    res, exc = None, None
    try:
        res = fn()
    except Exception as e:  # classified by the caller
        exc = e
    finally:
        nx.Graph.remove_node = orig
    order = []
    if rec:
        g = rec[-1][0]
        i = len(rec)
        while i > 0 and rec[i - 1][0] is g:
            i -= 1
        order = [n for (_, n) in rec[i:]]
    return res, exc, order


def _build_mn(case, names, factors=None):
    from pgmpy.models import MarkovNetwork
    mn = MarkovNetwork()
    mn.add_nodes_from([names[v] for v in case["nodes"]])
    mn.add_edges_from([(names[a], names[b]) for a, b in case["edges"]])
    fs = _mk_factors(case, names, case["factors"] if factors is None else factors)
    if case.get("addmode") == "each":
        for phi in fs:
            mn.add_factors(phi)
    else:
        mn.add_factors(*fs)
    return mn, fs


def _has_equal(case):
    """two factors equal as functions (any axis order)"""
    seen = []
    for f in case["factors"]:
        c = _canon_model(_mfac(f), case["cards"])
        if any(c == d for d in seen):
            return True
        seen.append(c)
    return False


class Problems:
    def __init__(self):
        self.items = []

    def add(self, kind, detail, finding=None):
        self.items.append((kind, detail, finding))

    def outcome(self, nontrivial, key, tags):
        unl = [p for p in self.items if p[2] is None]
        if unl:
            k, d, _ = unl[0]
            return bad(k, d, None, nontrivial=nontrivial, key=key, tags=tags)
        if self.items:
            k, d, f = self.items[0]
            return bad(k, d, f, nontrivial=nontrivial, key=key, tags=tags)
        return ok(nontrivial=nontrivial, key=key, tags=tags)


# ------------------------------------------------------------------ junction tree checks (shared)
def check_jt(P, drv, jt, order, ids_nodes, ids_edges, mfactors, cards, idx, states, has_equal, tags, what):
    """jt: pgmpy JunctionTree built from the MN (ids_nodes, ids_edges, mfactors); order: elimination order
    pgmpy's triangulate() used (ids)."""
    from pgmpy.factors import factor_product
    tn, te = drv.call("c14_triangulate", [ids_nodes, ids_edges, order, False])
    mc = {frozenset(c) for c in drv.call("c14_maxcliques", [tn, te])}
    jn = list(jt.nodes())
    cl = [[idx[v] for v in c] for c in jn]
    if {frozenset(c) for c in cl} != mc or len({frozenset(c) for c in cl}) != len(cl) or \
            any(len(set(c)) != len(c) for c in cl):
        P.add("impl!=model:jt-cliques", {"what": what, "impl": sorted(map(sorted, cl)), "model": sorted(map(sorted, mc))})
        return
    pos = {c: i for i, c in enumerate(jn)}
    tedges = [[pos[a], pos[b]] for a, b in jt.edges()]
    scopes = [f[0] for f in mfactors]
    tree, cover, rip = drv.call("c14_jtchk", [cl, tedges, scopes])
    tags.append("jt cliques=%d" % len(cl))
    if not (tree and cover and rip):
        P.add("impl!=spec:jt-structure", {"what": what, "tree": tree, "cover": cover, "rip": rip,
                                          "cliques": cl, "edges": tedges})
        return
    if len(jt.factors) != len(cl):
        P.add("impl!=spec:jt-potential-count", {"what": what, "n": len(jt.factors)})
        return
    for c, phi in zip(cl, jt.factors):
        if {idx[v] for v in phi.variables} != set(c):
            P.add("impl!=spec:jt-potential-scope", {"what": what, "clique": c,
                                                    "scope": [idx[v] for v in phi.variables]})
            return
        for v in phi.variables:
            if list(phi.state_names[v]) != list(states[idx[v]]):
                P.add("impl!=spec:jt-state-names", {"what": what, "var": idx[v],
                                                    "impl": list(phi.state_names[v]), "expected": states[idx[v]]})
                return
    st, pots = drv.call_e("c14_jtpots", [cards, cl, mfactors])
    coded = st == "ok" and all(_same(_canon_impl(phi, idx), _canon_model(mp, cards))
                               for phi, mp in zip(jt.factors, pots))
    allv = sorted({v for c in cl for v in c})
    spec_tab = drv.call("c14_joint", [cards, mfactors, allv])
    prod = factor_product(*jt.factors) if len(jt.factors) > 1 else jt.factors[0]
    spec = _same(_canon_impl(prod, idx), _canon_model([allv, spec_tab], cards))
    zi = float(jt.get_partition_function())
    zspec = common.frac(drv.call("c14_partition", [cards, mfactors]))
    zok = common.approx(zi, zspec)
    detail = {"what": what, "cliques": cl, "as_coded_model_agrees": coded, "joint_preserved": spec,
              "Z_impl": zi, "Z_factors": float(zspec), "equal_factors_present": has_equal}
    if spec and zok and coded:
        tags.append("jt joint preserved" + (" (equal factors present)" if has_equal else ""))
        return
    P.add("impl!=spec:jt-joint" if not spec or not zok else "impl!=model:jt-potentials", detail)


# ------------------------------------------------------------------ BN cases
def run_bn(case, drv):
    from pgmpy.models import BayesianNetwork
    from pgmpy.factors.discrete import TabularCPD
    from pgmpy.factors import factor_product
    names = _names(case)
    idx = {nm: i for i, nm in enumerate(names)}
    n, cards = case["n"], case["cards"]
    P = Problems()
    tags = ["bn n=%d" % n, "bn maxparents=%d" % max([len(c["ev"]) for c in case["cpds"]])]
    bn = BayesianNetwork()
    bn.add_nodes_from([names[v] for v in case["nodes"]])
    bn.add_edges_from([(names[a], names[b]) for a, b in case["edges"]])
    states = {v: _state_names(case, v) for v in range(n)}
    mcpds = []
    for c in case["cpds"]:
        v, ev = c["var"], c["ev"]
        vals = [[float(_fr(x)) for x in row] for row in c["vals"]]
        kw = {}
        if case["states"] == "str":
            kw["state_names"] = {names[u]: states[u] for u in [v] + ev}
        cpd = TabularCPD(names[v], cards[v], vals, evidence=[names[u] for u in ev] or None,
                         evidence_card=[cards[u] for u in ev] or None, **kw)
        bn.add_cpds(cpd)
        mcpds.append([v, ev, [_fr(x) for row in c["vals"] for x in row]])
    bn.check_model()
    key = common.canon_key(["bn", sorted(map(tuple, case["edges"])), cards, case["cpds"]])
    nontrivial = len(case["edges"]) > 0
    # moral graph
    mg = bn.moralize()
    mnodes, medges = drv.call("c14_moral", [case["nodes"], case["edges"]])
    if {idx[v] for v in mg.nodes()} != set(mnodes) or _eset(mg.edges(), idx) != _eset(medges):
        P.add("impl!=model:moralize", {"impl": sorted(map(sorted, _eset(mg.edges(), idx))),
                                       "model": sorted(map(sorted, _eset(medges)))})
    # BN -> MN
    mm = bn.to_markov_model()
    (gn, ge), mfs = drv.call("c14_bn2mn", [case["nodes"], case["edges"], mcpds])
    mfs = [[f[0], [common.frac(x) for x in f[1]]] for f in mfs]
    if {idx[v] for v in mm.nodes()} != set(gn) or _eset(mm.edges(), idx) != _eset(ge):
        P.add("impl!=model:to_markov_model-graph", {"impl": sorted(map(sorted, _eset(mm.edges(), idx))),
                                                    "model": sorted(map(sorted, _eset(ge)))})
    cpd_list = list(bn.cpds)
    if len(mm.factors) != len(mfs):
        P.add("impl!=model:to_markov_model-factor-count", {"impl": len(mm.factors), "model": len(mfs)})
    else:
        for phi, mf, cpd in zip(mm.factors, mfs, cpd_list):
            if not _same(_canon_impl(phi, idx), _canon_model(mf, cards)):
                P.add("impl!=model:to_markov_model-factor", {"scope": mf[0]})
                break
            if any(list(phi.state_names[v]) != list(states[idx[v]]) for v in phi.variables):
                P.add("impl!=spec:to_markov_model-state-names", {"scope": mf[0]})
                break
    if not P.items:
        if not drv.call("c14_mncheck", [gn, ge, mfs]):
            P.add("model:moral-graph-mn-invalid", {})
        mm.check_model()
        z = float(mm.get_partition_function())
        zm = common.frac(drv.call("c14_partition", [cards, mfs]))
        if not common.approx(z, zm) or not common.approx(z, 1):
            P.add("impl!=model:bn-mn-partition", {"impl": z, "model": float(zm)})
        allv = list(range(n))
        tab = drv.call("c14_joint", [cards, mfs, allv])
        prod = factor_product(*mm.factors) if len(mm.factors) > 1 else mm.factors[0]
        if set(idx[v] for v in prod.variables) != set(allv) or \
                not _same(_canon_impl(prod, idx), _canon_model([allv, tab], cards)):
            P.add("impl!=spec:bn-mn-joint", {})
        if _connected(range(n), ge):
            jt, exc, order = _spy(bn.to_junction_tree)
            if exc is not None:
                P.add("impl:bn-to_junction_tree-raises", {"exc": repr(exc)})
            else:
                check_jt(P, drv, jt, [idx[v] for v in order], gn, ge, mfs, cards, idx, states, False, tags, "bn")
        else:
            tags.append("bn disconnected (no jt)")
    return P.outcome(nontrivial, key, tags)


# ------------------------------------------------------------------ MN cases
def _tri_check(P, drv, case, names, idx, kw, label, tags):
    mn, _ = _build_mn(case, names)
    ids_nodes, ids_edges, cards = case["nodes"], case["edges"], case["cards"]
    inplace = kw.get("inplace", False)
    res, exc, order = _spy(lambda: mn.triangulate(**kw))
    order = [idx[v] for v in order]
    edge_nodes = {v for e in ids_edges for v in e}
    iso = sorted(set(ids_nodes) - edge_nodes)
    chordal = drv.call("c14_chordal", [ids_nodes, ids_edges])
    if exc is not None:
        P.add("impl:triangulate-raises", {"label": label, "exc": repr(exc), "isolated": iso, "chordal": bool(chordal)})
        return
    out = mn if inplace else res
    if inplace and not chordal and res is not mn:
        P.add("impl!=model:triangulate-inplace-return", {"label": label})
    on = {idx[v] for v in out.nodes()}
    oe = _eset(out.edges(), idx)
    if "order" in kw:
        given = [idx[v] for v in kw["order"]]
        eff = []
        for v in given:
            if v in edge_nodes and v not in eff:
                eff.append(v)
        if not chordal and order != eff:
            P.add("harness:spied-order-differs", {"label": label, "spied": order, "given": given})
            return
        morder = given          # the model applies the skip rule itself
    else:
        morder = order
    r = drv.call("c14_triangulate", [ids_nodes, ids_edges, morder, inplace])
    if on != set(r[0]) or oe != _eset(r[1]):
        # the property predicate itself on pgmpy's output (verified checker)
        prop_ok = _eset(ids_edges) <= oe and set(ids_nodes) <= on and \
            bool(drv.call("c14_chordal", [sorted(on), [sorted(e) for e in oe]]))
        P.add("impl!=model:triangulate", {"label": label, "order": morder, "impl": sorted(map(sorted, oe)),
                                          "impl_is_chordal_supergraph": prop_ok,
                                          "model": sorted(map(sorted, _eset(r[1]))),
                                          "impl_nodes": sorted(on), "model_nodes": sorted(r[0])})
        return
    # property: chordal supergraph on all the nodes
    if not _eset(ids_edges) <= oe or not drv.call("c14_chordal", [sorted(on), [sorted(e) for e in oe]]):
        P.add("impl!=spec:triangulate-not-chordal-supergraph", {"label": label, "order": morder,
                                                               "impl": sorted(map(sorted, oe))})
        return
    if not set(ids_nodes) <= on:
        P.add("impl!=spec:triangulate-drops-nodes", {"label": label, "lost": sorted(set(ids_nodes) - on)})
        return
    if iso and not chordal:
        tags.append("triangulate with isolated nodes")
    if "order" not in kw and not chordal:
        if not drv.call("c14_heur", [HEUR.index(kw["heuristic"]) + 1, cards, ids_nodes, ids_edges, order]):
            P.add("impl!=model:heuristic-order", {"label": label, "order": order})


def run_mn(case, drv):
    names = _names(case)
    idx = {nm: i for i, nm in enumerate(names)}
    n, cards = case["n"], case["cards"]
    ids_nodes, ids_edges = case["nodes"], case["edges"]
    P = Problems()
    tags = ["mn shape=%s" % case["shape"], "mn n=%d" % n, "mn factors=%d" % len(case["factors"])]
    if case["dup"]:
        tags.append("mn dup=%s" % case["dup"])
    key = common.canon_key(["mn", sorted(map(tuple, ids_edges)), n, cards, case["factors"]])
    nontrivial = len(ids_edges) > 0 and any(len(f["vars"]) >= 2 for f in case["factors"])
    mfs = [_mfac(f) for f in case["factors"]]
    states = {v: _state_names(case, v) for v in range(n)}
    has_equal = _has_equal(case)
    mn, fs = _build_mn(case, names)
    # check_model
    mok = drv.call("c14_mncheck", [ids_nodes, ids_edges, mfs])
    try:
        mn.check_model()
        iok = True
    except ValueError:
        iok = False
    if iok != bool(mok):
        P.add("impl!=model:check_model", {"impl": iok, "model": bool(mok), "malformed": case["malformed"]})
        return P.outcome(nontrivial, key, tags)
    if not iok:
        tags.append("mn rejected (%s)" % case["malformed"])
        for f in (mn.get_partition_function, mn.to_junction_tree, mn.triangulate):
            try:
                f()
                P.add("impl:invalid-model-accepted", {"call": f.__name__})
            except ValueError:
                pass
        return P.outcome(nontrivial, key, tags)
    # partition function and joint
    from pgmpy.factors import factor_product
    z = float(mn.get_partition_function())
    zm = common.frac(drv.call("c14_partition", [cards, mfs]))
    if not common.approx(z, zm):
        P.add("impl!=model:partition", {"impl": z, "model": float(zm)})
    # markov blanket, chordality
    for v in range(n):
        if {idx[u] for u in mn.markov_blanket(names[v])} != set(drv.call("c14_blanket", [ids_nodes, ids_edges, v])):
            P.add("impl!=model:markov_blanket", {"v": v})
            break
    chordal = bool(drv.call("c14_chordal", [ids_nodes, ids_edges]))
    if bool(mn.is_triangulated()) != chordal:
        P.add("impl!=model:is_triangulated", {"impl": bool(mn.is_triangulated()), "model": chordal})
    tags.append("mn chordal=%s" % chordal)
    # MN -> FG: structure and the factor multiset (no FactorGraph API beyond construction here)
    if all(isinstance(x, str) for x in names):
        fg = mn.to_factor_graph()
        if len(fg.factors) != len(fs) or any(a is not b for a, b in zip(fg.factors, fs)):
            P.add("impl!=spec:to_factor_graph-factors", {"impl": len(fg.factors), "expected": len(fs)})
        mv, mfn, mfe, mff = drv.call("c14_mn2fg", [ids_nodes, ids_edges, mfs])
        fname = {tuple(s): "phi_" + "_".join(names[v] for v in s) for s in map(tuple, mfn)}
        exp_nodes = {names[v] for v in mv} | set(fname.values())
        exp_edges = {frozenset((names[v], fname[tuple(s)])) for v, s in mfe}
        if set(fg.nodes()) != exp_nodes or {frozenset(e) for e in fg.edges()} != exp_edges:
            P.add("impl!=model:to_factor_graph-structure", {"impl": sorted(map(str, fg.nodes())),
                                                            "model": sorted(map(str, exp_nodes))})
    # triangulation: every heuristic and explicit orders, inplace both ways
    for h in HEUR:
        for inplace in (False, True):
            _tri_check(P, drv, case, names, idx, {"heuristic": h, "inplace": inplace}, "%s inplace=%s" % (h, inplace), tags)
    for o in case["orders"]:
        for inplace in (False, True):
            _tri_check(P, drv, case, names, idx, {"order": [names[v] for v in o], "inplace": inplace},
                       "order inplace=%s" % inplace, tags)
    # junction tree (connected graphs only)
    if _connected(ids_nodes, ids_edges):
        jt, exc, order = _spy(mn.to_junction_tree)
        if exc is not None:
            P.add("impl:to_junction_tree-raises", {"exc": repr(exc)})
        else:
            check_jt(P, drv, jt, [idx[v] for v in order], ids_nodes, ids_edges, mfs, cards, idx, states,
                     has_equal, tags, "mn")
    else:
        tags.append("mn disconnected (no jt)")
    return P.outcome(nontrivial, key, tags)


def run_mn2fg(case, drv):
    """the FactorGraph API on the output of MarkovNetwork.to_factor_graph"""
    names = _names(case)
    idx = {nm: i for i, nm in enumerate(names)}
    cards = case["cards"]
    P = Problems()
    tags = ["mn2fg n=%d" % case["n"]]
    key = common.canon_key(["mn2fg", sorted(map(tuple, case["edges"])), cards, case["factors"]])
    mfs = [_mfac(f) for f in case["factors"]]
    mn, fs = _build_mn(case, names)
    mn.check_model()
    fg = mn.to_factor_graph()
    from pgmpy.factors.discrete import DiscreteFactor
    same_factors = len(fg.factors) == len(fs) and all(a is b for a, b in zip(fg.factors, fs))
    if not same_factors:
        P.add("impl!=spec:to_factor_graph-factors", {})
        return P.outcome(True, key, tags)
    zm = common.frac(drv.call("c14_partition", [cards, mfs]))
    try:
        z = float(fg.get_partition_function())
        if not common.approx(z, zm):
            P.add("impl!=model:fg-partition", {"impl": z, "model": float(zm)})
        back = fg.to_markov_model()
        if len(back.factors) != len(fs) or _eset(back.edges(), idx) != _eset(mn.edges(), idx):
            P.add("impl!=spec:fg-roundtrip", {})
    except ValueError as e:
        fnodes = [x for x in fg.nodes() if x not in set(mn.nodes())]
        if fnodes and not any(isinstance(x, DiscreteFactor) for x in fnodes):
            # the factor list is intact, but FactorGraph.check_model rejects string factor nodes
            tags.append("fg rejects to_factor_graph output")
            P.add("impl!=spec:to_factor_graph-invalid-target", {"exc": repr(e), "factor_nodes": fnodes[:4]},
                  finding="to-factor-graph-invalid-target")
        else:
            P.add("impl:fg-api-raises", {"exc": repr(e)})
    return P.outcome(True, key, tags)


# ------------------------------------------------------------------ FG cases
def run_fg(case, drv):
    from pgmpy.models import FactorGraph
    names = _names(case)
    idx = {nm: i for i, nm in enumerate(names)}
    n, cards = case["n"], case["cards"]
    P = Problems()
    tags = ["fg n=%d" % n, "fg factors=%d" % len(case["factors"])]
    if case["dup"]:
        tags.append("fg dup=%s" % case["dup"])
    key = common.canon_key(["fg", n, cards, case["factors"]])
    nontrivial = any(len(f["vars"]) >= 2 for f in case["factors"])
    mfs = [_mfac(f) for f in case["factors"]]
    states = {v: _state_names(case, v) for v in range(n)}
    has_equal = _has_equal(case)
    fs = _mk_factors(case, names, case["factors"])
    fg = FactorGraph()
    used = sorted({v for f in case["factors"] for v in f["vars"]})
    fg.add_nodes_from([names[v] for v in used])
    for phi in fs:
        fg.add_node(phi)
        fg.add_edges_from([(v, phi) for v in phi.variables])
    fg.add_factors(*fs)
    st, r = drv.call_e("c14_fg2mn", [cards, mfs])
    try:
        mm = fg.to_markov_model()
        exc = None
    except ValueError as e:
        mm, exc = None, e
    if exc is not None:
        from pgmpy.factors.discrete import DiscreteFactor
        nfn = sum(1 for x in fg.nodes() if isinstance(x, DiscreteFactor))
        # exactly: equal factor objects became one networkx node, and check_model counted them
        if st == "err" and r == 5 and has_equal and nfn < len(fs) and "factor nodes" in str(exc):
            tags.append("fg equal factors rejected")
            P.add("impl!=spec:fg-equal-factors-rejected", {"exc": repr(exc)},
                  finding="equal-factors-collapse-factorgraph")
        else:
            P.add("impl!=model:fg-to_markov_model-raises", {"exc": repr(exc), "model": [st, r]})
        return P.outcome(nontrivial, key, tags)
    if st != "ok":
        P.add("impl!=model:fg-to_markov_model", {"model_err": r})
        return P.outcome(nontrivial, key, tags)
    (gn, ge), mf2 = r
    if {idx[v] for v in mm.nodes()} != set(gn) or _eset(mm.edges(), idx) != _eset(ge):
        P.add("impl!=model:fg-to_markov_model-graph", {"impl": sorted(map(sorted, _eset(mm.edges(), idx))),
                                                       "model": sorted(map(sorted, _eset(ge)))})
    if len(mm.factors) != len(fs) or any(a is not b for a, b in zip(mm.factors, fs)):
        P.add("impl!=spec:fg-to_markov_model-factors", {"impl": len(mm.factors), "expected": len(fs)})
    mf2 = [[f[0], [common.frac(x) for x in f[1]]] for f in mf2]
    if [(_canon_model(a, cards)) for a in mf2] != [_canon_model(a, cards) for a in mfs]:
        P.add("model:fg-to_markov_model-factors", {})
    if P.items:
        return P.outcome(nontrivial, key, tags)
    zm = common.frac(drv.call("c14_partition", [cards, mfs]))
    z1, z2 = float(fg.get_partition_function()), float(mm.get_partition_function())
    if not common.approx(z1, zm) or not common.approx(z2, zm):
        P.add("impl!=model:fg-partition", {"fg": z1, "mn": z2, "model": float(zm)})
    if not P.items and _connected(gn, ge):
        jt, exc, order = _spy(fg.to_junction_tree)
        if exc is not None:
            P.add("impl:fg-to_junction_tree-raises", {"exc": repr(exc)})
        else:
            check_jt(P, drv, jt, [idx[v] for v in order], gn, ge, mfs, cards, idx, states, has_equal, tags, "fg")
    return P.outcome(nontrivial, key, tags)


def run_case(case, drv):
    k = case["kind"]
    if k == "bn":
        return run_bn(case, drv)
    if k == "mn":
        return run_mn(case, drv)
    if k == "mn2fg":
        return run_mn2fg(case, drv)
    if k == "fg":
        return run_fg(case, drv)
    raise ValueError(k)
