"""Shared harness library: wire format, driver client, worker pool, result aggregation.

Every property module `harness/cNN.py` defines

    PROP = "C08"
    HASHSEEDS = {"quick": [0, 1], "thorough": [0, 1, 2, 3]}      # PYTHONHASHSEED per worker group
    def cases(tier, seed):          -> list of JSON-serialisable case dicts (all randomness from `seed`)
    def run_case(case, drv):        -> outcome dict (see `ok` / `bad` below); drv = Driver
    def shrink(case):   (optional)  -> iterable of strictly smaller candidate cases

`run_case` drives pgmpy from /repo's working tree AND the extracted Coq model on the same
input and compares canonical forms.  It must not raise for a disagreement: it returns bad(...).
"""
import json
import os
import random
import subprocess
import sys
import time
import hashlib
from fractions import Fraction

VERIF = os.path.dirname(os.path.dirname(os.path.abspath(__file__)))
REPO = os.environ.get("VERIF_REPO", "/repo")  # VERIF_REPO: development only (mutant copies); registered commands use /repo
PY = "/venv/bin/python"


# ------------------------------------------------------------------ wire format
def enc(o):
    """Python object -> sexp text.  ints/bools -> hex ints, Fractions -> (num den), sequences -> lists."""
    if isinstance(o, bool):
        return "1" if o else "0"
    if isinstance(o, int):
        return format(o, "x")
    if isinstance(o, Fraction):
        return "(%s %s)" % (format(o.numerator, "x"), format(o.denominator, "x"))
    if isinstance(o, float):
        return enc(Fraction(o))
    if isinstance(o, (list, tuple)):
        return "(" + " ".join(enc(x) for x in o) + ")"
    if o is None:
        return "()"
    if hasattr(o, "item"):  # numpy scalar
        return enc(o.item())
    raise TypeError("cannot encode %r" % (o,))


def dec(s):
    """sexp text -> nested lists of ints."""
    toks = s.replace("(", " ( ").replace(")", " ) ").split()
    pos = 0

    def val():
        nonlocal pos
        t = toks[pos]
        pos += 1
        if t == "(":
            out = []
            while toks[pos] != ")":
                out.append(val())
            pos += 1
            return out
        return int(t, 16)

    v = val()
    return v


def frac(p):
    """decode a model rational [num, den]"""
    return Fraction(p[0], p[1])


class ModelError(Exception):
    def __init__(self, code):
        Exception.__init__(self, "model error %s" % code)
        self.code = code


class Driver:
    """Client of build/<prop>/driver (the extracted Coq model).  One request per line."""

    def __init__(self, prop):
        self.path = os.path.join(VERIF, "build", prop.lower(), "driver")
        self.p = None

    def _start(self):
        self.p = subprocess.Popen(
            ["/bin/sh", "-c", "ulimit -s unlimited 2>/dev/null; exec " + self.path],
            stdin=subprocess.PIPE,
            stdout=subprocess.PIPE,
            text=True,
            bufsize=1,
        )

    def raw(self, entry, obj):
        if self.p is None or self.p.poll() is not None:
            self._start()
        self.p.stdin.write(entry + " " + enc(obj) + "\n")
        self.p.stdin.flush()
        line = self.p.stdout.readline()
        if not line:
            raise RuntimeError("driver died on %s" % entry)
        line = line.strip()
        if line.startswith("!"):
            raise RuntimeError("driver: " + line)
        self._record(entry, obj, line)
        return dec(line)

    def _record(self, entry, obj, reply):
        """keep a small sample of (entry, request, reply) for the extraction cross-check: check.py
        re-evaluates them inside Coq (vm_compute on the same Run.v entry) and compares"""
        self.ncalls = getattr(self, "ncalls", 0) + 1
        if self.ncalls > 3 and (self.ncalls % 37) != 0:
            return
        req = enc(obj)
        if len(req) + len(reply) > 1500:
            return
        try:
            d = os.path.join(os.path.dirname(self.path), "xcheck")
            os.makedirs(d, exist_ok=True)
            with open(os.path.join(d, "%d.jsonl" % os.getpid()), "a") as f:
                f.write(json.dumps({"entry": entry, "req": req, "reply": reply}) + "\n")
        except OSError:
            pass

    def call(self, entry, obj):
        """Returns the payload of an ok reply; raises ModelError(code) for a model error reply."""
        r = self.raw(entry, obj)
        if isinstance(r, list) and len(r) == 2 and r[0] == 0:
            return r[1]
        if isinstance(r, list) and len(r) == 2 and r[0] == -1:
            raise ModelError(r[1])
        raise RuntimeError("malformed reply %r" % (r,))

    def call_e(self, entry, obj):
        """Like call, but returns ('ok', payload) or ('err', code)."""
        try:
            return ("ok", self.call(entry, obj))
        except ModelError as e:
            return ("err", e.code)

    def close(self):
        if self.p is not None:
            try:
                self.p.stdin.close()
                self.p.wait(timeout=5)
            except Exception:
                self.p.kill()
            self.p = None


# ------------------------------------------------------------------ outcomes
def ok(nontrivial=True, key=None, tags=(), note=None):
    """Outcome of a case on which implementation, model and property agree.
    nontrivial: by the module's stated RULE; key: canonical identity of the input (distinctness);
    tags: histogram labels (sizes, options, error kinds)."""
    return {"ok": True, "nontrivial": bool(nontrivial), "key": key, "tags": list(tags), "note": note}


def bad(kind, detail, finding=None, nontrivial=True, key=None, tags=()):
    """Outcome of a case that violates the property or the correspondence.
    kind: short class of the disagreement (e.g. 'impl!=model', 'impl!=spec', 'mutated-argument');
    detail: JSON-serialisable description with expected / observed values;
    finding: key of a known_findings.json entry this disagreement is an instance of, decided by a
             narrow diagnosing predicate in the module (None = unlisted)."""
    return {
        "ok": False,
        "kind": kind,
        "detail": detail,
        "finding": finding,
        "nontrivial": bool(nontrivial),
        "key": key,
        "tags": list(tags),
    }


def canon_key(obj):
    return hashlib.sha1(json.dumps(obj, sort_keys=True, default=str).encode()).hexdigest()[:16]


def approx(a, b, tol=1e-9):
    """|a-b| <= tol*max(1,|b|) ; a = implementation float, b = exact model value (Fraction/float)"""
    a = float(a)
    b = float(b)
    if a != a or b != b:
        return False
    return abs(a - b) <= tol * max(1.0, abs(b))


# ------------------------------------------------------------------ environment for pgmpy
def impl_env(hashseed):
    e = dict(os.environ)
    e["PYTHONPATH"] = REPO + os.pathsep + VERIF
    e["PYTHONDONTWRITEBYTECODE"] = "1"
    e["PYTHONHASHSEED"] = str(hashseed)
    e["PYTHONWARNINGS"] = "ignore"
    e["PGMPY_VERIF"] = "1"
    e.setdefault("OMP_NUM_THREADS", "1")
    e.setdefault("MKL_NUM_THREADS", "1")
    return e


def assert_repo_pgmpy():
    import pgmpy

    f = os.path.realpath(pgmpy.__file__)
    if not f.startswith(REPO + "/"):
        raise RuntimeError("pgmpy imported from %s, not from /repo" % f)


def quiet():
    import logging
    import warnings

    warnings.filterwarnings("ignore")
    logging.getLogger("pgmpy").setLevel(logging.ERROR)
    logging.disable(logging.WARNING)


# ------------------------------------------------------------------ small generators shared by modules
def rand_dag(rng, n, p=None, names=None):
    """random DAG on n nodes: returns (nodes, edges) over 0..n-1 with a random hidden order"""
    order = list(range(n))
    rng.shuffle(order)
    if p is None:
        p = rng.choice([0.2, 0.35, 0.5, 0.7])
    edges = []
    for i in range(n):
        for j in range(i + 1, n):
            if rng.random() < p:
                edges.append((order[i], order[j]))
    rng.shuffle(edges)
    nodes = list(range(n))
    rng.shuffle(nodes)
    return nodes, edges


def all_dags(n):
    """every DAG on labelled nodes 0..n-1 (as edge lists)"""
    import itertools

    pairs = [(i, j) for i in range(n) for j in range(n) if i != j]
    und = [(i, j) for i in range(n) for j in range(i + 1, n)]
    out = []
    for choice in itertools.product((0, 1, 2), repeat=len(und)):
        edges = []
        for (i, j), c in zip(und, choice):
            if c == 1:
                edges.append((i, j))
            elif c == 2:
                edges.append((j, i))
        # acyclicity by Kahn
        indeg = [0] * n
        for u, v in edges:
            indeg[v] += 1
        stack = [i for i in range(n) if indeg[i] == 0]
        seen = 0
        adj = {i: [] for i in range(n)}
        for u, v in edges:
            adj[u].append(v)
        while stack:
            u = stack.pop()
            seen += 1
            for v in adj[u]:
                indeg[v] -= 1
                if indeg[v] == 0:
                    stack.append(v)
        if seen == n:
            out.append(edges)
    return out


def dyadic(rng, bits=4):
    """a random dyadic rational in (0,1] with the given number of bits"""
    return Fraction(rng.randint(1, 2**bits), 2**bits)


def rand_column(rng, card, zeros=True):
    """a probability column of `card` exact dyadic rationals summing to 1 (floats represent them exactly)"""
    den = 2 ** rng.choice([2, 3, 4, 6])
    while True:
        cuts = sorted(rng.randint(0, den) for _ in range(card - 1))
        parts = [b - a for a, b in zip([0] + cuts, cuts + [den])]
        if zeros or all(x > 0 for x in parts):
            return [Fraction(x, den) for x in parts]


NAME_STYLES = ["str", "int", "tuple", "mixed"]


def node_names(rng, n, style=None):
    """n distinct hashable node names of a given style; index i <-> name[i]"""
    style = style or rng.choice(NAME_STYLES)
    if style == "str":
        pool = ["A", "B", "C", "D", "E", "F", "G", "H", "I", "J", "K", "L", "M", "N"]
        rng.shuffle(pool)
        return pool[:n]
    if style == "int":
        pool = list(range(0, n + 3))
        rng.shuffle(pool)
        return pool[:n]
    if style == "tuple":
        return [("v", i) for i in rng.sample(range(n + 3), n)]
    pool = ["x", 0, ("t", 1), "y", 7, "zz", 3, ("u", 2), "w", 11, "q", 5, "r", 13]
    rng.shuffle(pool)
    return pool[:n]
