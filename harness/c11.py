"""C11 correspondence: pgmpy HillClimbSearch / ExhaustiveSearch / TreeSearch vs the Coq model
(coq/C11/Model.v, theorems in coq/C11/Props.v).

hc      HillClimbSearch.estimate driven with a StructureScore subclass whose local_score reads a dyadic
        rational table shared with the model: exact graph equality (node order, edges() order) in EVERY run,
        score ties included (candidates come in column order since /repo d77f396), the contract of the
        property checked independently on pgmpy's result in every case, caller's start_dag unchanged.
session ONE HillClimbSearch object reused for 2-4 estimate() calls with a new score table (same scorer class)
        and new options each time (use_cache on/off, toggled): each result = the model's for ITS table/options.
        builtin cases likewise reuse one estimator for scorer instances of one class with different
        equivalent_sample_size; ExhaustiveSearch.estimate twice; one TreeSearch with two weight functions.
legal   HillClimbSearch._legal_operations on a random DAG/tabu list/option set vs the model's three
        generators: additions as a set, removals and flips as sequences, deltas exactly.
builtin k2/bdeu/bds/bic/aic on small integer data: contract only (pgmpy's own score as oracle).
exh     ExhaustiveSearch.all_dags order, all_scores, estimate vs the model (global maximum).
tree    TreeSearch chow-liu / TAN: pgmpy's own float weights, as exact rationals, go to the proved
        brute-force spanning tree optimality checker; orientation vs the model's BFS orientation.
"""
import itertools
import random
from fractions import Fraction

from harness import common
from harness.common import ok, bad

PROP = "C11"
LEVEL = "proof"
HASHSEEDS = {"quick": [0, 1, 2, 3], "thorough": [0, 1, 2, 3, 4, 5, 6, 7]}
BUDGET_S = {"quick": 400, "thorough": 1500}  # caps for a loaded machine; quick needs ~25 s on 16 cores
EXHAUSTIVE = {"quick": False, "thorough": False}
RULE = ("random option combinations over 1..8 columns (2..6 mostly): score tables generic (unique maxima), few-valued or almost "
        "flat (many ties, compared exactly under every hash seed), with differences of 1e-9 ('fine') and magnitudes of 1e10 "
        "('big'); start DAG none/random with shuffled node order, fixed/black/white lists as list/set/tuple incl. empty white "
        "list, max_indegree 0..3/None, tabu_length 0/1/2/5/100/None, dyadic epsilon incl. 0 and negative, max_iter 0..40 as "
        "int or float, zero and non-zero structure_prior_ratio, cache on/off, show_progress; malformed stream: start_dag over "
        "other nodes, fixed edges closing a cycle, fixed edge naming a non-column.  A case is non-trivial when at least one "
        "operation was applied (hc), the graph has an edge or a candidate (legal), n>=3 (exh, tree); distinct = distinct "
        "generated input.  GENERALISATION CLASSES -- "
        "A sessions: one HillClimbSearch reused for 2-4 estimate() calls with new tables/options/hyper-parameters (streams "
        "session, builtin rounds, reject), one ExhaustiveSearch for all_dags/all_scores/estimate x2, one TreeSearch for two "
        "weight functions with explicit and automatic root; the estimators have no mutators of their own.  "
        "B purity: start_dag (nodes, edges, predecessor order), the fixed/black/white list objects and the DataFrame (labels, "
        "dtypes, cells) equal their snapshots after every call.  "
        "C result independence: the returned DAG is scribbled on (edges removed, node added) and the same call repeated on the "
        "same object with the same argument objects gives a distinct, equal result (hc, exh, tree).  "
        "D pandas: index range/shifted/permuted/gapped/duplicate/string/negative, columns int/bool/categorical/categorical "
        "with unused or reordered categories/constant, column order shuffled (builtin, exh default scorer, tree); weights are "
        "checked against mutual information computed from the raw rows, built-in results against the same frame under a "
        "RangeIndex.  E names: str, int, mixed int/str (hc, legal, tree, cache; ExhaustiveSearch sorts the labels and the "
        "Gaussian scores paste them into a formula, so those two get sortable resp. identifier names only), substrings of "
        "each other, the operation keywords '+', '-', 'flip', falsy '' and 0.  F state names: 1-based, reversed, gapped, bool, "
        "declared state_names with unobserved states.  G sizes: 1 column, 7-8 columns, int labels >= 8 in shuffled order, "
        "cardinality-1 columns, empty lists, 0 vs None for max_indegree/tabu_length/epsilon/max_iter, falsy root and class "
        "names.  H magnitudes: tables 'fine'/'big', weight tables ~1e-18 and ~1e20, negative and zero weights; knife-edge "
        "delta == epsilon is exact on dyadic tables; NaN/inf scores are outside the property.  I backends: not applicable "
        "(structure search never touches the numpy/torch factor backend).  J variants: k2/bdeu/bds/bic/aic/bic-g/aic-g by "
        "name (any case) and as instances, all-defaults call, use_cache, state_names, ScoreCache max_size, all_dags(nodes), "
        "default ExhaustiveSearch scorer, chow-liu/tan, mutual_info/adjusted/normalized/callable weights, n_jobs 1/2, "
        "show_progress, root None.  K rejected calls: invalid scoring names/objects, start_dag not a DAG, non-iterable "
        "fixed_edges, unknown root/class/estimator_type/weight function, root == class -- each followed by a good call on the "
        "same object.  L orders: node/edge insertion order of start_dag, column order, set(fixed_edges) order, hash seeds, "
        "row order (weights).  M budget: cases are shuffled; the budget floor is enforced by tools/check.py.  "
        "N equal-not-identical: every name handed to estimate()/all_dags()/TreeSearch (start_dag nodes, edge tuples of the "
        "fixed/black/white lists, tabu entries, root, class) is rebuilt at run time (str join, int(str(x)), tuple(...)), int "
        "labels above 256 and 2**31/2**40.  O containers: fixed/black/white lists as list, tuple, set, frozenset, dict, dict "
        "keys view, pandas (Multi)Index, generator, iter, map, filter (one-shot iterators; the model gets the order of the "
        "same set() construction); all_dags(nodes) as list/tuple/Index/object array/dict keys; start_dag as DAG or "
        "BayesianNetwork; lists of lists are unhashable for set() and not offered.  P sizes: hill climbing and "
        "_legal_operations on 9 and 12 columns (parent sets <= 2), stream bigtree on 9/10/12/16/17/33 columns, a 300-state "
        "column, integer codes above 2**24; ExhaustiveSearch stays at <= 4 columns (2**(n(n-1)) graphs).  Q not applicable "
        "(structure search has no probability tables).  R combinations: all options are drawn independently in every case "
        "(cache x non-zero prior ratio, white list x max_indegree x tabu, state_names x scorer instance, TAN x weight "
        "function x n_jobs)")
TRUSTED_BASE = ["networkx: DiGraph storage and iteration order (nodes, adjacency, predecessors), copy(), has_path, "
                "all_simple_paths, is_directed_acyclic_graph, from_pandas_adjacency (drops zero weights), "
                "maximum_spanning_tree (Kruskal; its output is checked by the proved optimality checker on every "
                "case, the algorithm itself is not modelled), bfs_tree",
                "sklearn mutual_info_score etc. and joblib: edge weights are taken from pgmpy's own weight matrix",
                "ScoreCache/LRUCache is transparent for a score that is a function of (variable, parent tuple)",
                "the only python set left on the path is set(fixed_edges): the harness hands its iteration order to the "
                "model (it fixes where new fixed edges sit in edges()), and checks on the model that another order "
                "gives the same trace and edge set"]
ASSUMPTIONS = ["node names are interned to nat identifiers by the harness",
               "nx.all_simple_paths is read by its documented meaning (Props.C11_flip_test_faithful relates it to the model's test)",
               "scores are dyadic rationals so float arithmetic of the deltas is exact"]


NAMES = ["A", "B", "C", "D", "E", "F", "G", "H", "K", "foo", "bar", "x1", "x2", "Zz", "q",
         "x10", "G2", "AB", "+", "-", "flip", "None", "0", "a b", "node", ""]  # substrings of each other, operation keywords, falsy


def K(x):
    """hashable name -> canonical text (numpy integer column labels compare equal to python ints)"""
    return repr(x.item() if hasattr(x, "item") else x)


# ------------------------------------------------------------------ generation
def cases(tier, seed):
    rng = random.Random(seed)
    out = []
    nq = tier == "quick"
    for i in range(600 if nq else 7000):
        out.append({"kind": "hc", "seed": rng.randint(0, 10**9)})
    for i in range(400 if nq else 5000):
        out.append({"kind": "legal", "seed": rng.randint(0, 10**9)})
    for i in range(100 if nq else 500):
        out.append({"kind": "builtin", "seed": rng.randint(0, 10**9)})
    for i in range(40 if nq else 250):
        out.append({"kind": "exh", "seed": rng.randint(0, 10**9), "n": rng.choice([1, 2, 3, 3, 3, 3, 4] if nq else [1, 2, 3, 3, 4, 4])})
    for i in range(80 if nq else 900):
        out.append({"kind": "tree", "seed": rng.randint(0, 10**9)})
    for i in range(3 if nq else 12):
        out.append({"kind": "hc", "seed": rng.randint(0, 10**9), "foreign": True})
    for i in range(250 if nq else 2500):
        out.append({"kind": "session", "seed": rng.randint(0, 10**9)})
    for i in range(60 if nq else 400):
        out.append({"kind": "reject", "seed": rng.randint(0, 10**9)})
    for i in range(80 if nq else 600):
        out.append({"kind": "cache", "seed": rng.randint(0, 10**9)})
    for i in range(14 if nq else 150):
        out.append({"kind": "bigtree", "seed": rng.randint(0, 10**9)})
    rng.shuffle(out)
    return out


def shrink(case):
    return []


def gen_names(rng, n, mixed_ok=False):
    r = rng.random()
    if r < 0.65 or (r < 0.75 and not mixed_ok):
        pool = list(NAMES)
        rng.shuffle(pool)
        return pool[:n]
    if r < 0.75:  # int and str labels together (they do not sort against each other)
        pool = list(NAMES[:12]) + list(range(0, 10))
        rng.shuffle(pool)
        out = pool[:n]
        if n >= 2 and all(isinstance(x, str) for x in out):
            out[0] = 0
        if n >= 2 and all(isinstance(x, int) for x in out):
            out[1] = "A"
        return out
    pool = list(range(0, n + 4)) if rng.random() < 0.6 else [rng.choice([250, 1000, 2**31, 2**40]) + i for i in range(n + 4)]
    rng.shuffle(pool)
    return pool[:n]


def gen_table(rng, n, style, cap=None):
    """(v, frozenset(parents)) -> Fraction, for all v and parent subsets (indices 0..n-1) of size <= cap"""
    tab = {}
    for v in range(n):
        rest = [u for u in range(n) if u != v]
        for r in range(n if cap is None else min(n, cap + 1)):
            for ps in itertools.combinations(rest, r):
                if style == "generic":
                    q = Fraction(rng.randint(-2**20, 2**20), 2**10)
                elif style == "ties":
                    q = Fraction(rng.choice([-2, -1, 0, 0, 1, 1, 2, 3]), rng.choice([1, 1, 2]))
                elif style == "flat":
                    q = Fraction(rng.choice([0, 0, 0, 1]) * min(r, 2), 1)
                elif style == "fine":   # candidates differ by ~1e-9 .. 1e-6 (rounding "for stability" would merge them)
                    q = Fraction(rng.randint(-2**10, 2**10), 2**30) + Fraction(rng.randint(-3, 3), 1)
                elif style == "big":    # large magnitudes with small exact differences
                    q = Fraction(-2**34, 1) + Fraction(rng.randint(-2**14, 2**14), 2**8)
                else:  # "penal": generic reward minus a penalty growing with the number of parents
                    q = Fraction(rng.randint(-2**12, 2**12), 2**6) - Fraction(rng.randint(0, 40) * r, 1)
                tab[(v, frozenset(ps))] = q
    return tab


def rand_edges_acyclic(rng, n, p, order=None):
    if order is None:
        order = list(range(n))
        rng.shuffle(order)
    es = [(order[i], order[j]) for i in range(n) for j in range(i + 1, n) if rng.random() < p]
    rng.shuffle(es)
    return es


def rand_pairs(rng, n, p):
    return [(u, v) for u in range(n) for v in range(n) if u != v and rng.random() < p]


def fresh(x):
    """an EQUAL object that is not the one stored in the frame / graph (`is` must not be used for names)"""
    if isinstance(x, str):
        return "".join(list(x)) if len(x) > 1 else x      # one-character strings are singletons in CPython
    if isinstance(x, int) and not isinstance(x, bool):
        return int(str(x))                                  # a new object above 256
    if isinstance(x, tuple):
        return tuple(fresh(y) for y in x)
    return x


ONE_SHOT = ("generator", "iter", "map", "filter")


class ArgForm:
    """an iterable argument in one of the container types python offers; make() gives the object to pass
    (the same object every time for re-usable containers, a new iterator for one-shot ones)"""

    def __init__(self, rng, lst, allow_index=True):
        kinds = ["list", "list", "set", "tuple", "frozenset", "generator", "iter", "map", "filter", "dict", "dict-keys"]
        if allow_index and lst and len({type(x) for e in lst for x in e}) == 1:
            kinds.append("index")
        self.kind = rng.choice(kinds)
        self.base = [fresh(e) for e in lst]
        self.obj = None

    def make(self):
        k, b = self.kind, self.base
        if k == "generator":
            return (e for e in b)
        if k == "iter":
            return iter(b)
        if k == "map":
            return map(tuple, [list(e) for e in b])
        if k == "filter":
            return filter(lambda e: True, b)
        if self.obj is None:
            if k == "dict":
                self.obj = dict.fromkeys(b, 1)
            elif k == "dict-keys":
                self._d = dict.fromkeys(b, 1)
                self.obj = self._d.keys()
            elif k == "index":
                import pandas as pd
                self.obj = pd.Index(b)
            else:
                self.obj = {"list": list, "set": set, "tuple": tuple, "frozenset": frozenset}[k](b)
        return self.obj

    def snapshot(self):
        return None if self.kind in ONE_SHOT else (type(self.make()), [tuple(e) for e in self.make()])


def as_form(rng, lst):
    f = ArgForm(rng, lst)
    return f, f.kind


def prune_indegree(edges, cap):
    indeg, out = {}, []
    for u, v in edges:
        if indeg.get(v, 0) < cap:
            indeg[v] = indeg.get(v, 0) + 1
            out.append((u, v))
    return out


def gen_hc(seed, foreign=False, n=None, names=None, mixed_ok=True):
    rng = random.Random(seed)
    if n is None:
        n = rng.choice([2, 3, 3, 4, 4, 4, 5, 5, 6] * 4 + [1, 7, 8, 9, 12])
        names = gen_names(rng, n, mixed_ok)
    o = {"n": n, "names": names}
    o["tstyle"] = rng.choice(["generic", "generic", "penal", "ties", "ties", "flat", "fine", "big"])
    cap = 2 if n >= 9 else None   # mid-sized problems: parent sets of at most two nodes (table and options agree)
    o["tab"] = gen_table(rng, n, o["tstyle"], cap)
    # start (start and fixed edges mostly agree on a hidden order, so that their union is acyclic)
    hidden = list(range(n))
    rng.shuffle(hidden)
    if rng.random() < 0.15:
        hidden = None
    if rng.random() < 0.3:
        o["start"] = None
    else:
        ns = list(range(n))
        rng.shuffle(ns)
        o["start"] = (ns, rand_edges_acyclic(rng, n, rng.choice([0.0, 0.2, 0.4, 0.7]), hidden))
    o["fixed"] = rand_edges_acyclic(rng, n, rng.choice([0.0, 0.0, 0.15, 0.3]), hidden)
    o["black"] = rand_pairs(rng, n, rng.choice([0.0, 0.0, 0.2, 0.5]))
    o["white"] = None if rng.random() < 0.6 else rand_pairs(rng, n, rng.choice([0.3, 0.6, 0.9]))
    o["max_indegree"] = rng.choice([None, None, None, 0, 1, 1, 2, 2, 3])
    o["tabu_length"] = rng.choice([0, 0, 0, 1, 2, 5, 100, None])
    o["eps"] = rng.choice([Fraction(1, 2**13), Fraction(1, 2**13), Fraction(0), Fraction(1), Fraction(1, 4),
                           Fraction(5, 2), Fraction(-1, 2), Fraction(rng.randint(0, 64), 8)])
    if o["tstyle"] in ("ties", "flat") and rng.random() < 0.6:
        o["eps"] = rng.choice([Fraction(0), Fraction(1, 2), Fraction(1)])
    if o["tstyle"] == "fine":
        o["eps"] = rng.choice([Fraction(1, 2**31), Fraction(1, 2**24), Fraction(0), Fraction(1, 2**13)])
    if o["white"] is not None and rng.random() < 0.1:
        o["white"] = []   # an empty white list forbids every addition (not the same as None)
    o["max_iter"] = rng.choice([0, 1, 2, 3, 5, 10, 40, 40, 40, 40])
    if n >= 7:
        o["max_iter"] = rng.choice([1, 3, 6])
    if cap is not None:
        o["max_indegree"] = rng.choice([1, 2, 2])
        both = prune_indegree(o["fixed"] + (o["start"][1] if o["start"] else []), o["max_indegree"])
        o["fixed"] = [e for e in o["fixed"] if e in both]
        if o["start"]:
            o["start"] = (o["start"][0], [e for e in o["start"][1] if e in both and e not in o["fixed"]] + [e for e in o["fixed"] if rng.random() < 0.3])
    if rng.random() < 0.85:
        o["prior"] = [Fraction(0)] * 3
    else:
        o["prior"] = [Fraction(rng.randint(-8, 8), 4) for _ in range(3)]
    o["use_cache"] = rng.random() < 0.7
    # malformed stream
    o["bad"] = None
    r = rng.random()
    if foreign:
        o["bad"] = "foreign"
    elif r < 0.04 and o["start"] is not None:
        o["bad"] = rng.choice(["start-missing", "start-extra"])
    elif r < 0.10 and n >= 2:
        o["bad"] = "cycle"
        # fixed edges that close a cycle with the start graph or among themselves
        es = o["start"][1] if o["start"] else []
        if es and rng.random() < 0.6:
            u, v = rng.choice(es)
            o["fixed"] = o["fixed"] + [(v, u)]
        else:
            u, v = rng.sample(range(n), 2)
            o["fixed"] = [(u, v), (v, u)]
    return o


# ------------------------------------------------------------------ pgmpy side
_DF = {}


def frame(names, rows=None, seed=0, card=2):
    import pandas as pd
    key = (tuple(map(K, names)), seed, card, rows is None)
    if key in _DF and rows is None:
        return _DF[key]
    rng = random.Random(seed)
    if rows is None:
        rows = [[rng.randrange(card) for _ in names] for _ in range(12)]
        for c in range(len(names)):  # every state observed
            for s in range(card):
                rows[(c + s) % len(rows)][c] = s
    df = pd.DataFrame(rows, columns=list(names))
    if len(_DF) > 50:
        _DF.clear()
    _DF[key] = df
    return df


def frame_snapshot(df):
    """everything observable about a frame: labels, dtypes, cell values"""
    return ([K(c) for c in df.columns], [repr(i) for i in df.index], [str(t) for t in df.dtypes],
            [[repr(x) for x in row] for row in df.itertuples(index=False, name=None)])


def table_score(df, names, tab, prior):
    from pgmpy.estimators import StructureScore
    idx = {K(nm): i for i, nm in enumerate(names)}
    ftab = {k: float(v) for k, v in tab.items()}
    pr = {"+": float(prior[0]), "-": float(prior[1]), "flip": float(prior[2])}

    class TableScore(StructureScore):
        def local_score(self, variable, parents):
            return ftab[(idx[K(variable)], frozenset(idx[K(p)] for p in parents))]

        def structure_prior_ratio(self, operation):
            return pr[operation]

    return TableScore(df)


def total_tab(tab, n, edges):
    t = Fraction(0)
    for v in range(n):
        t += tab[(v, frozenset(u for (u, w) in edges if w == v))]
    return t


def is_acyclic(n_nodes, edges):
    import networkx as nx
    g = nx.DiGraph()
    g.add_nodes_from(n_nodes)
    g.add_edges_from(edges)
    return nx.is_directed_acyclic_graph(g)


def spec_moves(nodes, edges, fixed, black, white, maxin):
    """every legal single-edge change by the property's definition (independent of pgmpy and of the model):
    yields (kind, (x, y), new edge set)"""
    es = set(edges)
    pa = {v: {u for (u, w) in es if w == v} for v in nodes}
    for x in nodes:
        for y in nodes:
            if x == y:
                continue
            if (x, y) not in es and (y, x) not in es:
                if (x, y) in black or (white is not None and (x, y) not in white):
                    continue
                if maxin is not None and len(pa[y]) + 1 > maxin:
                    continue
                new = es | {(x, y)}
                if is_acyclic(nodes, new):
                    yield "+", (x, y), new
    for (x, y) in es:
        if (x, y) in fixed:
            continue
        yield "-", (x, y), es - {(x, y)}
        if (y, x) in black or (white is not None and (y, x) not in white):
            continue
        if maxin is not None and len(pa[x]) + 1 > maxin:
            continue
        new = (es - {(x, y)}) | {(y, x)}
        if is_acyclic(nodes, new):
            yield "flip", (x, y), new


def contract(n, res_nodes, res_edges, start_edges, o, score_of, local_opt, monotone, tol=Fraction(0)):
    """the clauses of the property on a result; score_of(edge set) -> number.  Returns None or (clause, detail)."""
    nodes = list(range(n))
    es = set(res_edges)
    fixed = set(map(tuple, o["fixed"]))
    black = set(map(tuple, o["black"]))
    white = None if o["white"] is None else set(map(tuple, o["white"]))
    base = set(start_edges) | fixed
    if sorted(res_nodes) != nodes:
        return "nodes", {"nodes": sorted(res_nodes)}
    if len(es) != len(res_edges) or not is_acyclic(nodes, es):
        return "acyclic", {"edges": sorted(es)}
    if not fixed <= es:
        return "fixed-kept", {"missing": sorted(fixed - es)}
    if (es - base) & black:
        return "black-absent", {"edges": sorted((es - base) & black)}
    if white is not None and not (es - base) <= white:
        return "white-only", {"edges": sorted((es - base) - white)}
    mi = o["max_indegree"]
    if mi is not None:
        indeg = lambda E, v: sum(1 for (a, b) in E if b == v)
        if all(indeg(base, v) <= mi for v in nodes) and any(indeg(es, v) > mi for v in nodes):
            return "indegree", {"edges": sorted(es)}
    if monotone:
        s0, s1 = score_of(base), score_of(es)
        if s1 < s0 - tol:
            return "score-monotone", {"start": str(s0), "result": str(s1)}
    if local_opt:
        s1 = score_of(es)
        for kind, e, new in spec_moves(nodes, es, fixed, black, white, mi):
            d = score_of(new) - s1
            if d >= o["eps"] + tol:
                return "local-optimum", {"move": [kind, list(e)], "delta": str(d), "eps": str(o["eps"])}
    return None


def build_start(o, names, extra=None):
    from pgmpy.base import DAG
    if o["start"] is None:
        return None
    g = DAG()
    ns, es = o["start"]
    g.add_nodes_from([names[i] for i in ns])
    g.add_edges_from([(names[u], names[v]) for u, v in es])
    return g


def enc_opt(x):
    return [] if x is None else [x]


def cfg_obj(n, fixed_order, o):
    return [list(range(n)), [list(e) for e in fixed_order], [list(e) for e in o["black"]],
            enc_opt(None if o["white"] is None else [list(e) for e in o["white"]]),
            enc_opt(o["max_indegree"]), enc_opt(o["tabu_length"]), o["eps"], o["max_iter"], list(o["prior"])]


def table_obj(tab):
    return [[v, sorted(ps), q] for (v, ps), q in sorted(tab.items(), key=lambda kv: (kv[0][0], sorted(kv[0][1])))]


def case_hc(case, drv):
    from pgmpy.estimators import HillClimbSearch
    o = gen_hc(case["seed"], case.get("foreign", False))
    df = frame(o["names"])
    est = HillClimbSearch(df, use_cache=o["use_cache"])
    key = common.canon_key(["hc", case["seed"], case.get("foreign", False)])
    return hc_round(o, est, df, drv, case["seed"], key)


def case_session(case, drv):
    """one HillClimbSearch object reused for 2-4 estimate() calls: a new score table (same scorer class) and new
    options each time; every result must be the model's result for ITS table and options"""
    from pgmpy.estimators import HillClimbSearch
    rng = random.Random(case["seed"])
    o0 = gen_hc(rng.randint(0, 10**9))
    n, names = o0["n"], o0["names"]
    df = frame(names)
    est = HillClimbSearch(df, use_cache=rng.random() < 0.8)
    key = common.canon_key(["session", case["seed"]])
    rounds = rng.choice([2, 2, 3, 4])
    tags = ["session rounds=%d" % rounds, "session cache=%d" % est.use_cache]
    nontrivial = False
    for r in range(rounds):
        o = o0 if r == 0 else gen_hc(rng.randint(0, 10**9), n=n, names=names)
        if r > 0 and rng.random() < 0.15:
            est.use_cache = not est.use_cache  # public attribute, read at every estimate()
            tags.append("session cache-toggled")
        out = hc_round(o, est, df, drv, rng.randint(0, 10**9), key)
        tags += [t for t in out["tags"] if t.startswith(("steps=", "table=", "tie-broken", "error=", "exact"))]
        if not out["ok"]:
            out["kind"] = out["kind"] + "(session round %d)" % r
            out["tags"] = tags
            return out
        nontrivial = nontrivial or out["nontrivial"]
    return ok(nontrivial=nontrivial, key=key, tags=tags)


def hc_round(o, est, df, drv, rseed, key, foreign=False):
    n, names = o["n"], o["names"]
    idx = {K(nm): i for i, nm in enumerate(names)}
    rng = random.Random(rseed + 1)
    tags = ["hc n=%d" % n, "table=" + o["tstyle"], "tabu=%s" % o["tabu_length"], "maxin=%s" % o["max_indegree"],
            "white=%s" % ("none" if o["white"] is None else "given"), "start=%s" % ("none" if o["start"] is None else "dag")]
    fnames = [fresh(x) for x in names]     # equal to the column labels, never the same objects
    start = build_start(o, fnames)
    if start is not None and rng.random() < 0.1:
        from pgmpy.models import BayesianNetwork   # a DAG subclass is a DAG
        bn = BayesianNetwork()
        bn.add_nodes_from(list(start.nodes()))
        try:
            bn.add_edges_from(list(start.edges()))
            start = bn
            tags.append("start=BayesianNetwork")
        except ValueError:
            pass   # a cyclic start graph (malformed stream) cannot be built as a BayesianNetwork: keep the plain DAG
    fixed_named = [(names[u], names[v]) for u, v in o["fixed"]]
    if o["bad"] == "start-missing":
        start.remove_node(names[o["start"][0][0]])
    elif o["bad"] == "start-extra":
        start.add_node("__extra__")
    elif o["bad"] == "foreign":
        fixed_named = fixed_named + [(names[0], "__nocolumn__")]
    fixed_f, ff = as_form(rng, fixed_named)
    black_f, bf = as_form(rng, [(names[u], names[v]) for u, v in o["black"]])
    white_f = None if o["white"] is None else as_form(rng, [(names[u], names[v]) for u, v in o["white"]])[0]
    tags += ["fixed-as=" + ff, "black-as=" + bf] + (["white-as=" + white_f.kind] if white_f else [])
    fixed_arg, black_arg, white_arg = fixed_f.make(), black_f.make(), (None if white_f is None else white_f.make())
    snap = None if start is None else (list(start.nodes()), list(start.edges()), {v: list(start.predecessors(v)) for v in start.nodes()})
    score = table_score(df, names, o["tab"], o["prior"])
    # what the model needs to know about python's orders
    fixed_order_named = list(set(fixed_f.make() if ff in ONE_SHOT else fixed_arg))   # the very operation estimate() performs
    if ff in ONE_SHOT:
        fixed_arg = fixed_f.make()
    if start is None:
        m_nodes, m_edges = list(range(n)), []
    else:
        cp = start.copy()
        m_nodes = [idx.get(K(v), n + k) for k, v in enumerate(cp.nodes())]
        m_edges = [(idx[K(u)], idx[K(v)]) for u, v in cp.edges()]
    fidx = dict(idx)
    fidx[K("__nocolumn__")] = n + 7
    fixed_order = [(fidx[K(u)], fidx[K(v)]) for u, v in fixed_order_named]
    forms = [f for f in (fixed_f, black_f, white_f) if f is not None]
    arg_snap = [f.snapshot() for f in forms]
    df_snap = frame_snapshot(df)
    kwargs = dict(scoring_method=score, start_dag=start, fixed_edges=fixed_arg,
                  tabu_length=o["tabu_length"], max_indegree=o["max_indegree"], black_list=black_arg,
                  white_list=white_arg, epsilon=float(o["eps"]),
                  max_iter=float(o["max_iter"]) if rng.random() < 0.2 else o["max_iter"],   # documented default is the float 1e6
                  show_progress=rng.random() < 0.05)
    try:
        res = est.estimate(**kwargs)
        err = None
    except ValueError:
        res, err = None, "value"
    if snap is not None:
        now = (list(start.nodes()), list(start.edges()), {v: list(start.predecessors(v)) for v in start.nodes()})
        if now != snap:
            return bad("impl!=spec:start_dag-mutated", {"before": str(snap), "after": str(now)}, key=key, tags=tags)
    if [f.snapshot() for f in forms] != arg_snap:
        return bad("impl!=spec:list-argument-mutated", {"before": str(arg_snap), "after": str([f.snapshot() for f in forms])}, key=key, tags=tags)
    if frame_snapshot(df) != df_snap:
        return bad("impl!=spec:data-frame-mutated", {}, key=key, tags=tags)
    if res is not None and (res is start or not isinstance(res, type(start or res))):
        return bad("impl!=spec:result-is-start_dag", {}, key=key, tags=tags)
    if res is not None and o["bad"] != "foreign" and rng.random() < 0.2:
        # result independence: wreck the returned graph, ask again with the very same argument objects
        first = (list(res.nodes()), list(res.edges()))
        res.remove_edges_from(list(res.edges()))
        if len(names) >= 2:
            res.add_edge(names[1], names[0])
        res.add_node("__scribble__")
        kwargs.update(fixed_edges=fixed_f.make(), black_list=black_f.make(), white_list=None if white_f is None else white_f.make())
        res2 = est.estimate(**kwargs)
        if res2 is res or (list(res2.nodes()), list(res2.edges())) != first:
            return bad("impl!=spec:result-not-independent", {"first": str(first), "second": str((list(res2.nodes()), list(res2.edges())))}, key=key, tags=tags)
        if snap is not None and (list(start.nodes()), list(start.edges())) != snap[:2]:
            return bad("impl!=spec:start_dag-mutated-through-result", {}, key=key, tags=tags)
        res = res2
        tags.append("result-independence")
    st, m = drv.call_e("c11_hc", [cfg_obj(n, fixed_order, o), table_obj(o["tab"]), m_nodes, [list(e) for e in m_edges]])
    if o["bad"] == "foreign":
        # a fixed edge naming a non-column is outside the property's domain (the option lists range over the
        # data's variables): pgmpy may reject it or return anything; only the model/pgmpy agreement is noted
        tags += ["malformed=foreign", "out-of-domain"]
        if err == "value":
            tags.append("foreign-rejected")
        elif st == "ok" and sorted(K(v) for v in res.nodes()) == sorted([K(x) for x in names] + [K("__nocolumn__")]) \
                and (n + 7) in m[0]:
            tags.append("foreign-node-kept(as modelled)")
        return ok(nontrivial=False, key=key, tags=tags)
    if err or st == "err":
        tags.append("error=%s/%s" % (err, m if st == "err" else None))
        if (err == "value") != (st == "err"):
            return bad("impl!=model:error", {"impl": err, "model": [st, m], "bad": o["bad"]}, key=key, tags=tags)
        return ok(nontrivial=True, key=key, tags=tags)
    if o["bad"] in ("start-missing", "start-extra"):
        return bad("impl!=spec:bad-start-accepted", {"bad": o["bad"]}, key=key, tags=tags)
    m_nodes_r, m_edges_r, broke, tie, trace, tot0, tot1 = m
    m_edges_r = [tuple(e) for e in m_edges_r]
    g_nodes = [idx[K(v)] for v in res.nodes()]
    g_edges = [(idx[K(u)], idx[K(v)]) for u, v in res.edges()]
    tags += ["steps=%d" % min(len(trace), 8), "broke=%d" % broke, "tie-broken=%d" % tie]
    for t in trace:
        tags.append("applied=" + "+-f"[t[0]])
    # contract, independently of the model
    zero_prior = all(p == 0 for p in o["prior"])
    seeded = set(m_edges) | set(o["fixed"])
    score_of = lambda E: total_tab(o["tab"], n, E)
    local_opt = zero_prior and o["tabu_length"] == 0 and broke
    c = contract(n, g_nodes, g_edges, m_edges, o, score_of, local_opt, zero_prior and o["eps"] >= 0)
    if c:
        return bad("impl!=spec:" + c[0], dict(c[1], impl_edges=g_edges, opts=str({k: o[k] for k in ("fixed", "black", "white", "max_indegree", "tabu_length", "eps", "max_iter")}), start=str(o["start"])), key=key, tags=tags)
    if local_opt:
        tags.append("local-optimum-checked")
    # exact comparison, ties included: node order, edges() order, totals
    if g_nodes != m_nodes_r or g_edges != m_edges_r:
        kind = "impl!=model:hc-graph" if set(g_edges) != set(m_edges_r) else "impl!=model:hc-order"
        return bad(kind, {"impl": [g_nodes, g_edges], "model": [m_nodes_r, m_edges_r], "trace": trace, "tie": tie,
                          "opts": str({k: o[k] for k in ("fixed", "black", "white", "max_indegree", "tabu_length", "eps", "max_iter", "prior")}),
                          "start": str(o["start"]), "names": [str(x) for x in names]}, key=key, tags=tags)
    if common.frac(tot1) != score_of(set(g_edges)) or common.frac(tot0) != score_of(seeded):
        return bad("impl!=model:hc-total", {"model": [tot0, tot1]}, key=key, tags=tags)
    tags.append("exact")
    # the iteration order of set(fixed_edges) must not matter for the trace and the edge set (the table score
    # depends on the parent set only): re-run the model with the fixed edges in another order
    if len(fixed_order) >= 2:
        alt = list(reversed(fixed_order)) if rseed % 2 else sorted(fixed_order)
        if alt != fixed_order:
            m2 = drv.call("c11_hc", [cfg_obj(n, alt, o), table_obj(o["tab"]), m_nodes, [list(e) for e in m_edges]])
            if m2[4] != trace or sorted(map(tuple, m2[1])) != sorted(m_edges_r) or m2[2] != broke:
                return bad("model:fixed-order-matters", {"order1": fixed_order, "order2": alt, "trace1": trace, "trace2": m2[4]},
                           key=key, tags=tags)
            tags.append("fixed-order-permuted")
    return ok(nontrivial=len(trace) > 0, key=key, tags=tags)


def case_reject(case, drv):
    """calls that must be rejected (ValueError), interleaved with good calls on the SAME estimator: the object
    must stay usable and give the model's result afterwards"""
    import networkx as nx
    from pgmpy.estimators import HillClimbSearch, K2Score
    rng = random.Random(case["seed"])
    o = gen_hc(rng.randint(0, 10**9))
    o["bad"] = None
    n, names = o["n"], o["names"]
    df = frame(names)
    est = HillClimbSearch(df, use_cache=rng.random() < 0.7)
    key = common.canon_key(["reject", case["seed"]])
    good = table_score(df, names, o["tab"], o["prior"])
    plain = nx.DiGraph()
    plain.add_nodes_from(names)
    menu = [("scoring=int", dict(scoring_method=5)), ("scoring=k2score", dict(scoring_method="k2score")),
            ("scoring=BicScore", dict(scoring_method="BicScore")), ("scoring=nope", dict(scoring_method="nope")),
            ("scoring=class", dict(scoring_method=K2Score)),
            ("start=nx.DiGraph", dict(scoring_method=good, start_dag=plain)),
            ("start=edge-list", dict(scoring_method=good, start_dag=[])),
            ("fixed=None", dict(scoring_method=good, fixed_edges=None)), ("fixed=5", dict(scoring_method=good, fixed_edges=5))]
    tags = ["reject n=%d" % n]
    for _ in range(rng.choice([1, 2, 3])):
        name, kw = rng.choice(menu)
        tags.append("reject " + name)
        try:
            r = est.estimate(show_progress=False, **kw)
            return bad("impl!=spec:invalid-call-accepted", {"call": name, "result": str(list(r.edges()))}, key=key, tags=tags)
        except ValueError:
            pass
    out = hc_round(o, est, df, drv, rng.randint(0, 10**9), key)
    out["tags"] = tags + [t for t in out["tags"] if t.startswith(("exact", "error="))]
    if not out["ok"]:
        out["kind"] += "(after rejected calls)"
    return out


def case_cache(case, drv):
    """ScoreCache / LRUCache transparency, eviction included: a wrapped table scorer answers every request
    with the table's value, whatever the cache size and the request history; hits do not call the scorer"""
    from pgmpy.estimators.ScoreCache import ScoreCache
    rng = random.Random(case["seed"])
    n = rng.choice([2, 3, 4])
    names = gen_names(rng, n, True)
    tab = gen_table(rng, n, rng.choice(["generic", "ties", "fine"]))
    df = frame(names)
    idx = {K(nm): i for i, nm in enumerate(names)}
    base = table_score(df, names, tab, [0, 0, 0])
    calls = []
    orig = base.local_score
    base.local_score = lambda v, ps: (calls.append((K(v), tuple(K(p) for p in ps))), orig(v, ps))[1]
    size = rng.choice([1, 2, 3, 5, 8, 10000])
    sc = ScoreCache(base, df, max_size=size)
    key = common.canon_key(["cache", case["seed"]])
    tags = ["cache size=%d" % size]
    reqs = []
    for _ in range(rng.choice([10, 30, 80])):
        if reqs and rng.random() < 0.5:
            reqs.append(rng.choice(reqs[-6:]))       # a recent request again
        else:
            v = rng.randrange(n)
            rest = [u for u in range(n) if u != v]
            ps = rng.sample(rest, rng.randint(0, len(rest)))
            reqs.append((v, tuple(ps)))
    lru = []   # reference LRU over (variable, parent TUPLE) keys
    for i, (v, ps) in enumerate(reqs):
        before = len(calls)
        got = sc.local_score(names[v], [names[p] for p in ps])
        if Fraction(got) != tab[(v, frozenset(ps))]:
            return bad("impl!=spec:cache-not-transparent", {"request": i, "variable": v, "parents": list(ps), "impl": got,
                                                            "table": str(tab[(v, frozenset(ps))]), "size": size}, key=key, tags=tags)
        k = (v, ps)
        hit = k in lru
        if hit:
            lru.remove(k)
        lru.append(k)
        if len(lru) > size:
            lru.pop(0)
        if (len(calls) - before) != (0 if hit else 1):
            return bad("impl!=spec:cache-hit-pattern", {"request": i, "expected_hit": hit, "scorer_calls": len(calls) - before,
                                                        "size": size}, key=key, tags=tags)
    tags.append("cache evictions=%d" % (1 if len(set(reqs)) > size else 0))
    return ok(nontrivial=len(set(reqs)) > 1, key=key, tags=tags)


def case_legal(case, drv):
    from pgmpy.estimators import HillClimbSearch
    from pgmpy.base import DAG
    rng = random.Random(case["seed"])
    o = gen_hc(rng.randint(0, 10**9))
    n, names = o["n"], o["names"]
    idx = {K(nm): i for i, nm in enumerate(names)}
    key = common.canon_key(["legal", case["seed"]])
    ns = list(range(n))
    rng.shuffle(ns)
    es = rand_edges_acyclic(rng, n, rng.choice([0.2, 0.4, 0.6, 0.9]))
    if n >= 9:
        es = prune_indegree(es, o["max_indegree"])
    names = [fresh(x) for x in names]   # graph, lists and tabu entries are built from equal, not identical, labels
    g = DAG()
    g.add_nodes_from([names[i] for i in ns])
    g.add_edges_from([(names[u], names[v]) for u, v in es])
    # tabu list: arbitrary operations, biased to ones that matter
    tabu = []
    kinds = ["+", "-", "flip"]
    for _ in range(rng.choice([0, 0, 1, 2, 4, 8]) if n >= 2 else 0):
        k = rng.choice(kinds)
        if es and rng.random() < 0.6:
            u, v = rng.choice(es)
            if rng.random() < 0.4:
                u, v = v, u
        else:
            u, v = rng.sample(range(n), 2)
        tabu.append((k, (u, v)))
    df = frame(names)
    score = table_score(df, names, o["tab"], o["prior"])
    est = HillClimbSearch(df)
    black = set((names[u], names[v]) for u, v in o["black"])
    white = (set((u, v) for u in names for v in names) if o["white"] is None
             else set((names[u], names[v]) for u, v in o["white"]))
    fixed = set((names[u], names[v]) for u, v in o["fixed"])
    mi = float("inf") if o["max_indegree"] is None else o["max_indegree"]
    ops = list(est._legal_operations(g, score.local_score, score.structure_prior_ratio,
                                     [(k, (names[u], names[v])) for k, (u, v) in tabu], mi, black, white, fixed))
    kn = {"+": 0, "-": 1, "flip": 2}
    got = [(kn[op[0]], (idx[K(op[1][0])], idx[K(op[1][1])]), Fraction(d)) for op, d in ops]
    m = drv.call("c11_legal", [cfg_obj(n, o["fixed"], o), table_obj(o["tab"]), [idx[K(v)] for v in g.nodes()],
                               [[idx[K(u)], idx[K(v)]] for u, v in g.edges()],
                               [[kn[k], [u, v]] for k, (u, v) in tabu]])
    mm = [[(t[0], tuple(t[1]), common.frac(t[2])) for t in part] for part in m]
    g_add = [t for t in got if t[0] == 0]
    tags = ["legal n=%d" % n, "tabu-len=%d" % len(tabu), "ops=%d" % min(len(got), 20),
            "adds=%d" % min(len(g_add), 10), "dels=%d" % len(mm[1]), "flips=%d" % len(mm[2])]
    detail = {"nodes": [idx[K(v)] for v in g.nodes()], "edges": [(idx[K(u)], idx[K(v)]) for u, v in g.edges()],
              "tabu": tabu, "opts": str({k: o[k] for k in ("fixed", "black", "white", "max_indegree", "prior")})}
    if got != mm[0] + mm[1] + mm[2]:
        if sorted(got) == sorted(mm[0] + mm[1] + mm[2]):
            return bad("impl!=model:legal-order", dict(detail, impl=str(got), model=str(mm[0] + mm[1] + mm[2])), key=key, tags=tags)
        return bad("impl!=model:legal-operations", dict(detail, impl=str(got), model=str(mm[0] + mm[1] + mm[2])), key=key, tags=tags)
    return ok(nontrivial=len(es) > 0 or len(got) > 0, key=key, tags=tags)


def vary_frame(rng, df, tags, allow_const=True):
    """the same observations in another pandas dress: index labels (never data), dtypes, state values"""
    import pandas as pd
    df = df.copy()
    m = len(df)
    ik = rng.choice(["range", "range", "shifted", "permuted", "gapped", "duplicate", "string", "negative"])
    if ik == "shifted":
        df.index = range(7, 7 + m)
    elif ik == "permuted":
        lab = list(range(m))
        rng.shuffle(lab)
        df.index = lab
    elif ik == "gapped":
        df.index = sorted(rng.sample(range(5 * m), m))
    elif ik == "duplicate":
        df.index = [rng.randrange(3) for _ in range(m)]
    elif ik == "string":
        lab = ["r%d" % i for i in range(m)]
        rng.shuffle(lab)
        df.index = lab
    elif ik == "negative":
        df.index = range(-m, 0)
    tags.append("index=" + ik)
    for c in df.columns:
        vals = sorted(set(df[c]))
        vk = rng.choice(["asis", "asis", "one-based", "reversed", "gapped", "bool", "cat", "cat-unused", "cat-reordered", "const",
                         "huge-codes"])
        if vk == "bool" and len(vals) != 2:
            vk = "one-based"
        if vk == "const" and not allow_const:
            vk = "asis"
        if vk == "one-based":
            df[c] = df[c].map({v: v + 1 for v in vals})
        elif vk == "reversed":          # integer state names that are not their positions
            df[c] = df[c].map({v: vals[len(vals) - 1 - i] for i, v in enumerate(vals)})
        elif vk == "gapped":
            df[c] = df[c].map({v: 10 * v - 3 for v in vals})
        elif vk == "huge-codes":        # neighbours above 2**24 (a float32 detour would merge them)
            df[c] = df[c].map({v: 2**24 + 1 + v for v in vals})
        elif vk == "bool":
            df[c] = df[c].map({vals[0]: False, vals[1]: True}).astype(bool)
        elif vk == "cat":
            df[c] = pd.Categorical(df[c], categories=vals)
        elif vk == "cat-unused":        # a declared category that never occurs
            df[c] = pd.Categorical(df[c], categories=vals + [max(vals) + 5])
        elif vk == "cat-reordered":
            df[c] = pd.Categorical(df[c], categories=list(reversed(vals)))
        elif vk == "const":             # cardinality 1
            df[c] = vals[0]
        tags.append("column=" + vk)
    return df


def case_builtin(case, drv):
    from pgmpy.estimators import (HillClimbSearch, K2Score, BDeuScore, BDsScore, BicScore, AICScore,
                                  BicScoreGauss, AICScoreGauss)
    rng = random.Random(case["seed"])
    o = gen_hc(rng.randint(0, 10**9), mixed_ok=False)
    while o["n"] > 5 or not isinstance(o["names"][0], str):  # integer column labels break pandas unstack in the built-in scores
        o = gen_hc(rng.randint(0, 10**9), mixed_ok=False)
    o["bad"] = None
    n, names = o["n"], o["names"]
    idx = {K(nm): i for i, nm in enumerate(names)}
    key = common.canon_key(["builtin", case["seed"]])
    # data with some structure
    rows = []
    cards = [rng.choice([2, 2, 3]) for _ in range(n)]
    for _ in range(rng.choice([20, 40, 80])):
        r = []
        for c in range(n):
            if c > 0 and rng.random() < 0.6:
                r.append((r[rng.randrange(c)] + (rng.random() < 0.15)) % cards[c])
            else:
                r.append(rng.randrange(cards[c]))
        rows.append(r)
    for c in range(n):
        for s in range(cards[c]):
            rows[(c * 3 + s) % len(rows)][c] = s
    method = rng.choice(["k2", "bdeu", "bdeu", "bds", "bds", "bic", "aic", "bic-g", "aic-g"])
    cls = {"k2": K2Score, "bdeu": BDeuScore, "bds": BDsScore, "bic": BicScore, "aic": AICScore,
           "bic-g": BicScoreGauss, "aic-g": AICScoreGauss}[method]
    tags = ["builtin n=%d" % n, "method=" + method]
    import pandas as pd
    if method.endswith("-g") and not all(nm.isidentifier() and nm not in ("None",) for nm in names):
        # the Gaussian scores paste column names into a statsmodels formula: identifiers only
        method, cls = "bic", BicScore
        tags[-1] = "method=bic"
    df = pd.DataFrame(rows, columns=list(names))
    if method.endswith("-g"):
        df = df.astype(float) + pd.DataFrame([[rng.randint(-8, 8) / 16.0 for _ in names] for _ in rows], columns=list(names))
        if n > 4:
            df = df[list(names[:4])]
            n, names = 4, names[:4]
            o = gen_hc(rng.randint(0, 10**9), n=n, names=names)
            o["bad"] = None
            idx = {K(nm): i for i, nm in enumerate(names)}
    else:
        df = vary_frame(rng, df, tags)
    est_kw = {}
    if not method.endswith("-g") and rng.random() < 0.2:
        # declared state names with a state that is never observed, in a non-sorted order
        est_kw["state_names"] = {}
        for c in names:
            st = list(pd.unique(df[c]))
            rng.shuffle(st)
            est_kw["state_names"][c] = st + ([max(st) + 11] if not isinstance(st[0], (bool,)) and rng.random() < 0.5 else [])
        tags.append("state_names=given")
    df_snap = frame_snapshot(df)
    # ONE estimator object, 1-3 estimate() calls: same scorer class, different hyper-parameters and options;
    # every result is judged against a FRESH scorer with the requested hyper-parameters
    use_cache = rng.random() < 0.85
    est = HillClimbSearch(df, use_cache=use_cache, **est_kw)
    rounds = rng.choice([1, 2, 2, 3])
    tags.append("builtin rounds=%d" % rounds)
    nontrivial = False
    ess_pool = [1, 200, 5, 50]
    rng.shuffle(ess_pool)
    for r in range(rounds):
        if r > 0:
            o2 = gen_hc(rng.randint(0, 10**9), n=n, names=names)
            o2["bad"] = None
            o = o2
        kw = {"equivalent_sample_size": ess_pool[r]} if method in ("bdeu", "bds") else {}
        as_instance = bool(kw) or rng.random() < 0.5
        # a scorer named by a string is built by estimate() from the data alone (no state_names)
        oracle = cls(df, **kw, **(est_kw if as_instance else {}))
        scoring = cls(df, **kw, **est_kw) if as_instance else (method.upper() if rng.random() < 0.3 else method)
        o["eps"] = rng.choice([Fraction(1, 10000), Fraction(1, 100), Fraction(1), Fraction(0)])
        o["max_iter"] = rng.choice([1, 3, 1000, 1000, 1000])
        o["tabu_length"] = rng.choice([0, 0, 0, 2, 100])
        if o["eps"] == 0 or o["tabu_length"] != 0:
            o["max_iter"] = min(o["max_iter"], 30)   # zero-gain moves or tabu walks may run until max_iter
        defaults = method == "k2" and not as_instance and rng.random() < 0.3
        if defaults:   # every documented default: k2, no start, no lists, tabu 100, epsilon 1e-4, max_iter 1e6
            o = dict(o, start=None, fixed=[], black=[], white=None, max_indegree=None, tabu_length=100,
                     eps=Fraction(1, 10000), max_iter=10**6)
            call = dict(show_progress=False)
            tags.append("all-defaults")
        else:
            fn_ = [fresh(x) for x in names]
            fx_form = ArgForm(rng, [(fn_[u], fn_[v]) for u, v in o["fixed"]], allow_index=False)
            bl_form = ArgForm(rng, [(fn_[u], fn_[v]) for u, v in o["black"]], allow_index=False)
            call = dict(scoring_method=scoring, start_dag=None,
                        fixed_edges=fx_form.make(),
                        tabu_length=o["tabu_length"], max_indegree=o["max_indegree"],
                        black_list=bl_form.make(),
                        white_list=None if o["white"] is None else [(fn_[u], fn_[v]) for u, v in o["white"]],
                        epsilon=float(o["eps"]), max_iter=o["max_iter"], show_progress=False)
        start = build_start(o, [fresh(x) for x in names])
        if not defaults:
            call["start_dag"] = start
        start_e = [] if start is None else o["start"][1]
        try:
            res = est.estimate(**call)
            if r == 0 and rng.random() < 0.5:
                # the index is never data: the same observations under a RangeIndex give the same graph
                twin = HillClimbSearch(df.reset_index(drop=True), use_cache=use_cache, **est_kw)
                call2 = dict(call)
                if not defaults:   # one-shot iterators were consumed by the first call
                    call2.update(fixed_edges=fx_form.make(), black_list=bl_form.make())
                if as_instance:
                    call2["scoring_method"] = cls(df.reset_index(drop=True), **kw, **est_kw)
                res0 = twin.estimate(**call2)
                if (list(res0.nodes()), list(res0.edges())) != (list(res.nodes()), list(res.edges())):
                    return bad("impl!=spec:builtin-index-is-data", {"with_index": str(list(res.edges())), "range_index": str(list(res0.edges())),
                                                                     "method": method}, key=key, tags=tags)
                tags.append("index-twin")
        except ValueError:
            if is_acyclic(range(n), set(start_e) | set(o["fixed"])):
                return bad("impl!=spec:builtin-unexpected-valueerror", {"round": r}, key=key, tags=tags)
            tags.append("error=cycle")
            continue
        g_nodes = [idx[K(v)] for v in res.nodes()]
        g_edges = [(idx[K(u)], idx[K(v)]) for u, v in res.edges()]
        cache = {}

        def score_of(E, oracle=oracle, cache=cache):
            t = 0.0
            for v in range(n):
                k = (v, frozenset(u for (u, w) in E if w == v))
                if k not in cache:
                    cache[k] = oracle.local_score(names[v], [names[u] for u in sorted(k[1])])
                t += cache[k]
            if method == "bds":  # BDsScore.structure_prior: -(#edges + const) * log 2, consistent with its prior ratio
                import math
                t -= len(set(E)) * math.log(2.0)
            return t
        local_opt = o["tabu_length"] == 0 and o["max_iter"] == 1000 and o["eps"] > 0
        c = contract(n, g_nodes, g_edges, start_e, o, score_of, local_opt, True, tol=1e-7)
        tags += ["edges=%d" % len(g_edges)] + (["local-optimum-checked"] if local_opt else []) + (["ess=%s" % kw["equivalent_sample_size"]] if kw else [])
        if c:
            return bad("impl!=spec:builtin-" + c[0], dict(c[1], method=method, kw=str(kw), round=r, impl_edges=g_edges), key=key, tags=tags)
        nontrivial = nontrivial or len(g_edges) > 0
    if frame_snapshot(df) != df_snap:
        return bad("impl!=spec:data-frame-mutated", {"method": method}, key=key, tags=tags)
    return ok(nontrivial=nontrivial, key=key, tags=tags)


def case_exh(case, drv):
    from pgmpy.estimators import ExhaustiveSearch
    rng = random.Random(case["seed"])
    n = case["n"]
    names = sorted(gen_names(rng, n))
    # all_dags sorts the names; interning follows the sorted order so that model order = python order;
    # the frame's columns come in another order
    tstyle = rng.choice(["generic", "generic", "ties", "penal", "fine", "big"])
    tab = gen_table(rng, n, tstyle)
    cols = list(names)
    rng.shuffle(cols)
    df = frame(cols)
    df_snap = frame_snapshot(df)
    idx = {K(nm): i for i, nm in enumerate(names)}
    key = common.canon_key(["exh", case["seed"], n])
    score = table_score(df, names, tab, [0, 0, 0])
    es = ExhaustiveSearch(df, scoring_method=score, use_cache=rng.random() < 0.5)
    best, allm = drv.call("c11_exh", [list(range(n)), table_obj(tab)])
    allm = [(common.frac(q), [tuple(e) for e in edges]) for q, edges in allm]
    tags = ["exh n=%d" % n, "table=" + tstyle, "dags=%d" % len(allm)]
    dags = [[(idx[K(u)], idx[K(v)]) for u, v in d.edges()] for d in es.all_dags()]
    if [sorted(d) for d in dags] != [sorted(e) for _, e in allm]:
        return bad("impl!=model:all_dags", {"impl_count": len(dags), "model_count": len(allm)}, key=key, tags=tags)
    if n <= 3 or case["seed"] % 3 == 0:
        sc = es.all_scores()
        got = [(Fraction(s), sorted((idx[K(u)], idx[K(v)]) for u, v in d.edges())) for s, d in sc]
        exp = sorted([(q, sorted(e)) for q, e in allm], key=lambda t: t[0])  # stable, like python's sorted
        if got != exp:
            return bad("impl!=model:all_scores", {"impl": str(got[:5]), "model": str(exp[:5])}, key=key, tags=tags)
        tags.append("all_scores")
    # all_dags(nodes=...) with an explicit node list: taken in the GIVEN order, not sorted
    if n >= 2:
        sub = rng.sample(range(n), rng.randint(1, n))
        _, allsub = drv.call("c11_exh", [sub, table_obj(tab)])
        import numpy as np
        import pandas as pd
        nl = [fresh(names[i]) for i in sub]     # equal labels, other objects; every sized container
        ck = rng.choice(["list", "tuple", "index", "object-array", "dict-keys"])
        nodes_arg = {"list": nl, "tuple": tuple(nl), "index": pd.Index(nl), "object-array": np.array(nl, dtype=object),
                     "dict-keys": dict.fromkeys(nl).keys()}[ck]
        tags.append("nodes-as=" + ck)
        dsub = [sorted((idx[K(u)], idx[K(v)]) for u, v in d.edges()) for d in es.all_dags(nodes=nodes_arg)]
        if dsub != [sorted(tuple(e) for e in edges) for _, edges in allsub]:
            return bad("impl!=model:all_dags(nodes)", {"nodes": sub, "impl_count": len(dsub), "model_count": len(allsub)}, key=key, tags=tags)
        tags.append("all_dags(nodes)")
    r = es.estimate()
    first = (list(r.nodes()), list(r.edges()))
    if first != (sorted(r.nodes()), sorted(r.edges())):
        return bad("impl!=spec:exh-result-not-sorted", {"impl": str(first)}, key=key, tags=tags)
    # result independence: scribble on the returned graph, same object asked again
    got = sorted((idx[K(u)], idx[K(v)]) for u, v in r.edges())
    r.remove_edges_from(list(r.edges()))
    r.add_node("__scribble__")
    r_again = es.estimate()
    if r_again is r or (list(r_again.nodes()), list(r_again.edges())) != first:
        return bad("impl!=spec:exh-second-call-differs", {"first": str(first), "second": str(list(r_again.edges()))}, key=key, tags=tags)
    if frame_snapshot(df) != df_snap:
        return bad("impl!=spec:data-frame-mutated", {}, key=key, tags=tags)
    r = r_again
    mx = max(q for q, _ in allm)
    if sorted(idx[K(v)] for v in r.nodes()) != list(range(n)) or not is_acyclic(range(n), got):
        return bad("impl!=spec:exh-not-a-dag-on-the-variables", {"impl": got}, key=key, tags=tags)
    if total_tab(tab, n, got) != mx:
        return bad("impl!=spec:exh-not-global-max", {"impl": got, "score": str(total_tab(tab, n, got)), "max": str(mx)}, key=key, tags=tags)
    # independent brute force over all labelled DAGs
    if mx != max(total_tab(tab, n, e) for e in common.all_dags(n)) or len(allm) != len(common.all_dags(n)):
        return bad("model!=spec:exh-max", {}, key=key, tags=tags)
    if not best or common.frac(best[0][1]) != mx:
        return bad("model!=spec:exh-best", {"model": best}, key=key, tags=tags)
    if got != sorted(tuple(e) for e in best[0][0]):
        return bad("impl!=model:exh-estimate", {"impl": got, "model": best[0][0]}, key=key, tags=tags)
    if sum(1 for q, _ in allm if q == mx) > 1:
        tags.append("tied-maximum(first wins)")
    # default scorer (K2 through a ScoreCache) on real data in pandas dress: a global maximiser of K2
    if n <= 3 and isinstance(names[0], str) and case["seed"] % 2 == 0:
        import pandas as pd
        from pgmpy.estimators import K2Score
        rows = [[rng.randrange(2 + (c == 0)) for c in range(n)] for _ in range(24)]
        for rw in rows:
            if n >= 2 and rng.random() < 0.7:
                rw[1] = rw[0] % 2
        for c in range(n):
            for st in range(2 + (c == 0)):
                rows[(3 * c + st) % 24][c] = st
        d2 = vary_frame(rng, pd.DataFrame(rows, columns=cols), tags, allow_const=False)
        rk = ExhaustiveSearch(d2).estimate()
        oracle = K2Score(d2)
        cache = {}

        def k2_total(E):
            t = 0.0
            for v in range(n):
                k = (v, frozenset(u for (u, w) in E if w == v))
                if k not in cache:
                    cache[k] = oracle.local_score(names[v], [names[u] for u in sorted(k[1])])
                t += cache[k]
            return t
        gk = sorted((idx[K(u)], idx[K(v)]) for u, v in rk.edges())
        best_k2 = max(k2_total(e) for e in common.all_dags(n))
        if sorted(idx[K(v)] for v in rk.nodes()) != list(range(n)) or not is_acyclic(range(n), gk) \
                or k2_total(gk) < best_k2 - 1e-9 * max(1.0, abs(best_k2)):
            return bad("impl!=spec:exh-default-scorer-not-global-max", {"impl": gk, "score": k2_total(gk), "max": best_k2}, key=key, tags=tags)
        tags.append("default-scorer(k2)")
    return ok(nontrivial=n >= 3, key=key, tags=tags)


def case_tree(case, drv):
    import numpy as np
    from pgmpy.estimators import TreeSearch
    rng = random.Random(case["seed"])
    n = rng.choice([2, 3, 4, 4, 5, 5, 6, 6] * 3 + [1])
    names = gen_names(rng, n, True)
    idx = {K(nm): i for i, nm in enumerate(names)}
    key = common.canon_key(["tree", case["seed"]])
    cards = [rng.choice([2, 2, 3, 4]) for _ in range(n)]
    rows = []
    noise = rng.choice([0.1, 0.25, 0.4])
    for _ in range(rng.choice([60, 120, 250])):
        r = []
        for c in range(n):
            if c > 0 and rng.random() < 0.8:
                r.append((r[rng.randrange(c)] + (rng.random() < noise) * rng.randrange(1, 3)) % cards[c])
            else:
                r.append(rng.randrange(cards[c]))
        rows.append(r)
    for c in range(n):
        for s in range(cards[c]):
            rows[(c * 4 + s) % len(rows)][c] = s
    import pandas as pd
    plain = pd.DataFrame(rows, columns=list(names))
    vtags = []
    df = vary_frame(rng, plain, vtags, allow_const=rng.random() < 0.1)
    df_snap = frame_snapshot(df)
    mode = rng.choice(["mutual_info", "mutual_info", "mutual_info", "normalized_mutual_info", "adjusted_mutual_info",
                       "table", "table-ties", "table-neg0", "table-tiny", "table-huge"])
    if mode.startswith("table"):
        wt = {}
        for i in range(n):
            for j in range(i + 1, n):
                if mode == "table":
                    w = Fraction(rng.randint(1, 2**16), 2**8)
                elif mode == "table-tiny":      # ~1e-18 .. 1e-13, all different
                    w = Fraction(rng.randint(1, 2**16), 2**76)
                elif mode == "table-huge":      # ~1e15 .. 1e20, neighbours differ in the last bits
                    w = Fraction(2**50 + rng.randint(1, 2**16), 1) * rng.choice([1, 2**16])
                elif mode == "table-ties":
                    w = Fraction(rng.choice([1, 1, 2, 3]), 2)
                else:
                    w = Fraction(rng.choice([-3, -1, 0, 2, 5, 7]) * 16 + rng.randint(0, 3), 4)
                    if rng.random() < 0.2:
                        w = Fraction(0)
                wt[(i, j)] = wt[(j, i)] = w

        def fn(u, v):
            return float(wt[(idx[K(u.name)], idx[K(v.name)])])
    else:
        fn = mode
    kind = "tan" if n >= 3 and rng.random() < 0.3 else "chow-liu"
    tags = ["tree n=%d" % n, "weights=" + mode, "type=" + kind] + vtags
    cls = rng.randrange(n) if kind == "tan" else None
    n_jobs = 2 if rng.random() < 0.03 else 1
    show = rng.random() < 0.05

    def weights_of(frame_):
        if kind == "tan":
            return TreeSearch._get_conditional_weights(frame_, names[cls], fn, n_jobs, show)
        return TreeSearch._get_weights(frame_, fn, n_jobs, show)
    W = weights_of(df)   # (a categorical class column with an unobserved category crashed here before /repo 7cd818c)
    keep = [i for i in range(n) if i != cls]
    if W.shape != (n, n) or not np.array_equal(W, W.T) or any(W[i, i] != 0 for i in range(n)):
        return bad("impl!=spec:weights-not-symmetric", {}, key=key, tags=tags)
    # the weight matrix against an oracle that never saw pandas: the score table, or mutual information computed
    # from the raw observation rows (labels, dtypes and the index are not data)
    import math

    def mi(rws, i, j):
        m = len(rws)
        cij, ci, cj = {}, {}, {}
        for rw in rws:
            cij[(rw[i], rw[j])] = cij.get((rw[i], rw[j]), 0) + 1
            ci[rw[i]] = ci.get(rw[i], 0) + 1
            cj[rw[j]] = cj.get(rw[j], 0) + 1
        return sum(c / m * math.log(c * m / (ci[a] * cj[b])) for (a, b), c in cij.items())
    const_cols = [c for c in range(n) if df.iloc[:, c].nunique() == 1]
    orows = [[(0 if c in const_cols else rw[c]) for c in range(n)] for rw in rows]
    for i in range(n):
        for j in range(i + 1, n):
            if mode.startswith("table"):
                exp = float(wt[(i, j)])
                exact = kind != "tan"
            elif mode == "mutual_info":
                if kind == "tan":
                    exp = 0.0
                    for cv in sorted(set(rw[cls] for rw in orows)):
                        part = [rw for rw in orows if rw[cls] == cv]
                        exp += len(part) / len(orows) * mi(part, i, j)
                else:
                    exp = mi(orows, i, j)
                exact = False
            else:
                continue
            if kind == "tan" and cls in (i, j):
                continue
            got_w = float(W[i, j])
            if (exact and Fraction(got_w) != wt[(i, j)]) or (not exact and abs(got_w - exp) > 1e-9 * max(abs(exp), 1e-300) + 1e-13 * (not mode.startswith("table"))):
                return bad("impl!=spec:weights-matrix", {"pair": [i, j], "impl": got_w, "expected": exp, "mode": mode, "type": kind}, key=key, tags=tags)
    if not mode.startswith("table") and n >= 2:
        # ... and against pgmpy itself on the plain frame, and with the rows in another order
        Wp = weights_of(plain)
        perm = list(range(len(rows)))
        rng.shuffle(perm)
        Ws = weights_of(df.iloc[perm])
        for A, what in ((Wp, "plain-frame"), (Ws, "row-order")):
            if const_cols and what == "plain-frame":
                continue
            if not np.allclose(A, W, rtol=1e-9, atol=1e-12):
                return bad("impl!=spec:weights-depend-on-" + what, {"mode": mode, "type": kind}, key=key, tags=tags)
    G = [[[i, j], Fraction(float(W[i, j]))] for i in keep for j in keep if i < j and W[i, j] != 0]
    ws = [q for _, q in G]
    tags.append("distinct-weights" if len(set(ws)) == len(ws) else "tied-weights")
    roots = keep + ([None] if kind != "tan" or True else [])
    checked = 0
    mst_memo = {}
    for root in roots:
        ts = TreeSearch(df, root_node=None if root is None else fresh(names[root]), n_jobs=n_jobs)
        try:
            D = ts.estimate(estimator_type=kind, class_node=None if cls is None else fresh(names[cls]),
                            edge_weights_fn=fn, show_progress=show)
        except ValueError:
            # automatic root may be the class node
            if kind == "tan" and root is None and K(ts.root_node) == K(names[cls]):
                tags.append("tan-auto-root-is-class")
                continue
            return bad("impl!=spec:tree-unexpected-valueerror", {"root": root}, key=key, tags=tags)
        if root is None:
            if kind != "tan":
                sums = W.sum(axis=0)
                r = idx[K(ts.root_node)]
                if sums[r] < sums.max():
                    return bad("impl!=spec:auto-root-not-max-weight", {"root": r}, key=key, tags=tags)
            root = idx[K(ts.root_node)]
            tags.append("auto-root")
        edges = [(idx[K(u)], idx[K(v)]) for u, v in D.edges()]
        nodes_d = sorted(idx[K(v)] for v in D.nodes())
        if kind == "tan":
            cls_edges = {(cls, v) for v in keep}
            if not cls_edges <= set(edges):
                return bad("impl!=spec:tan-class-edges", {"edges": edges, "class": cls}, key=key, tags=tags)
            edges = [e for e in edges if e not in cls_edges]
            if any(cls in e for e in edges):
                return bad("impl!=spec:tan-edge-into-class", {"edges": edges, "class": cls}, key=key, tags=tags)
        T = sorted({(min(u, v), max(u, v)) for u, v in edges})
        # optimality depends on the tree only: one run of the proved checker per distinct tree; orientation per root
        tk = tuple(T)
        if tk not in mst_memo:
            mst_memo[tk] = drv.call("c11_tree", [keep, G, [list(e) for e in T], root])[:2]
        chk, span = mst_memo[tk]
        orient = drv.call("c11_bfs", [keep, [list(e) for e in T], root])
        # is the weight graph connected at all?  (outside the property's scope if not)
        if "conn" not in mst_memo:
            mst_memo["conn"] = len(drv.call("c11_bfs", [keep, [e for e, _ in G], root])) == len(keep) - 1
        connected = mst_memo["conn"]
        if not connected:
            tags.append("weight-graph-disconnected(out of scope)")
            continue
        if nodes_d != sorted(set(keep) | ({cls} if cls is not None else set())):
            return bad("impl!=spec:tree-nodes", {"nodes": nodes_d}, key=key, tags=tags)
        if len(edges) != len(T) or not span:
            return bad("impl!=spec:not-a-spanning-tree", {"edges": edges, "G": str(G)}, key=key, tags=tags)
        if not chk:
            return bad("impl!=spec:spanning-tree-not-maximal", {"edges": edges, "G": str(G)}, key=key, tags=tags)
        if sorted(edges) != sorted(tuple(e) for e in orient):
            return bad("impl!=model:bfs-orientation", {"impl": sorted(edges), "model": sorted(orient), "root": root}, key=key, tags=tags)
        # independent statement of the orientation contract
        indeg = {v: 0 for v in keep}
        for u, v in edges:
            indeg[v] += 1
        if indeg[root] != 0 or any(indeg[v] != 1 for v in keep if v != root):
            return bad("impl!=spec:orientation", {"edges": edges, "root": root}, key=key, tags=tags)
        checked += 1
        if rng.random() < 0.3:
            # result independence: scribble on the returned DAG, ask the same object again
            first = sorted(D.edges(), key=str)
            D.remove_edges_from(list(D.edges()))
            D.add_node("__scribble__")
            D2 = ts.estimate(estimator_type=kind, class_node=None if cls is None else names[cls],
                             edge_weights_fn=fn, show_progress=False)
            if D2 is D or sorted(D2.edges(), key=str) != first or "__scribble__" in D2.nodes():
                return bad("impl!=spec:tree-result-not-independent", {"first": str(first), "second": str(list(D2.edges()))}, key=key, tags=tags)
            tags.append("result-independence")
    if frame_snapshot(df) != df_snap:
        return bad("impl!=spec:data-frame-mutated", {}, key=key, tags=tags)
    # the same TreeSearch object reused with ANOTHER weight function: the second tree must be optimal for the
    # second weights (nothing of the first call may be remembered)
    if kind == "chow-liu" and n >= 3:
        wt2 = {}
        for i in range(n):
            for j in range(i + 1, n):
                wt2[(i, j)] = wt2[(j, i)] = Fraction(rng.randint(1, 2**16), 2**8)

        def fn2(u, v):
            return float(wt2[(idx[K(u.name)], idx[K(v.name)])])
        r0 = rng.randrange(n)
        ts = TreeSearch(df, root_node=names[r0], n_jobs=1)
        ts.estimate(estimator_type="chow-liu", edge_weights_fn=fn, show_progress=False)
        D2 = ts.estimate(estimator_type="chow-liu", edge_weights_fn=fn2, show_progress=False)
        e2 = [(idx[K(u)], idx[K(v)]) for u, v in D2.edges()]
        G2 = [[[i, j], wt2[(i, j)]] for i in range(n) for j in range(i + 1, n)]
        T2 = sorted({(min(u, v), max(u, v)) for u, v in e2})
        chk, span, orient = drv.call("c11_tree", [list(range(n)), G2, [list(e) for e in T2], r0])
        if not (chk and span) or sorted(e2) != sorted(tuple(e) for e in orient):
            return bad("impl!=spec:tree-reused-object", {"edges": e2, "G2": str(G2), "root": r0, "mst_chk": chk}, key=key, tags=tags)
        tags.append("tree-object-reused")
        # the same with an automatically chosen root: whatever root the object reports, the second tree is optimal for
        # the second weights and points away from that root
        ta = TreeSearch(df, n_jobs=1)
        ta.estimate(estimator_type="chow-liu", edge_weights_fn=fn, show_progress=False)
        D3 = ta.estimate(estimator_type="chow-liu", edge_weights_fn=fn2, show_progress=False)
        e3 = [(idx[K(u)], idx[K(v)]) for u, v in D3.edges()]
        T3 = sorted({(min(u, v), max(u, v)) for u, v in e3})
        chk, span, orient = drv.call("c11_tree", [list(range(n)), G2, [list(e) for e in T3], idx[K(ta.root_node)]])
        if not (chk and span) or sorted(e3) != sorted(tuple(e) for e in orient):
            return bad("impl!=spec:tree-reused-object(auto root)", {"edges": e3, "root": idx[K(ta.root_node)], "mst_chk": chk}, key=key, tags=tags)
    # argument checks
    for kw in ({"estimator_type": "nope"}, {"estimator_type": "tan"}, {"estimator_type": "tan", "class_node": "__none__"},
               {"edge_weights_fn": 5}, {"edge_weights_fn": "mutual"}):
        try:
            TreeSearch(df, root_node=names[0], n_jobs=1).estimate(show_progress=False, **kw)
            return bad("impl!=spec:tree-bad-argument-accepted", {"kw": str(kw)}, key=key, tags=tags)
        except ValueError:
            pass
    if n >= 3:
        try:
            TreeSearch(df, root_node=names[1], n_jobs=1).estimate(estimator_type="tan", class_node=names[1], show_progress=False)
            return bad("impl!=spec:tan-root-equals-class-accepted", {}, key=key, tags=tags)
        except ValueError:
            pass
    tags.append("roots-checked=%d" % checked)
    return ok(nontrivial=n >= 3 and checked > 0, key=key, tags=tags)


def case_bigtree(case, drv):
    """mid-sized Chow-Liu / TAN problems (9..33 columns, sizes around 8, 16, 32 and = 1 mod 8) and a column with more than
    256 states.  The brute-force optimality checker is out of reach here: the model contributes spanning_treeb and the BFS
    orientation, optimality is checked by the cycle property (every edge left out is no heavier than any tree edge
    on the path between its ends) on pgmpy's own weights as exact rationals."""
    import numpy as np
    import pandas as pd
    from pgmpy.estimators import TreeSearch
    rng = random.Random(case["seed"])
    key = common.canon_key(["bigtree", case["seed"]])
    n = rng.choice([9, 9, 10, 12, 16, 17, 33])
    style = rng.choice(["str", "int", "bigint"])
    names = {"str": ["v%d" % i for i in range(n)], "int": list(range(n)), "bigint": [1000 + 7 * i for i in range(n)]}[style]
    rng.shuffle(names)
    idx = {K(nm): i for i, nm in enumerate(names)}
    many = n <= 12 and rng.random() < 0.4
    m = 600 if many else 40
    rows = [[rng.randrange(2) for _ in range(n)] for _ in range(m)]
    if many:     # one column with ~300 distinct states, another that follows it
        for r_, rw in enumerate(rows):
            rw[0] = r_ % 300
            rw[1] = (rw[0] * 7) % 5
    df = pd.DataFrame(rows, columns=list(names))
    mode = "mutual_info" if (many and n <= 12) else rng.choice(["table", "table-ties"])
    tags = ["bigtree n=%d" % n, "names=" + style, "weights=" + mode] + (["states>256"] if many else [])
    if mode == "mutual_info":
        fn = "mutual_info"
    else:
        wt = {}
        for i in range(n):
            for j in range(i + 1, n):
                wt[(i, j)] = wt[(j, i)] = (Fraction(rng.randint(1, 2**16), 2**8) if mode == "table" else Fraction(rng.choice([1, 2, 3]), 2))

        def fn(u, v):
            return float(wt[(idx[K(u.name)], idx[K(v.name)])])
    kind = "tan" if n <= 17 and rng.random() < 0.3 else "chow-liu"
    cls = rng.randrange(1 if many else 0, n) if kind == "tan" else None   # (not the 300-state column as class: 300 sub-frames)
    tags.append("type=" + kind)
    keep = [i for i in range(n) if i != cls]
    W = (TreeSearch._get_conditional_weights(df, names[cls], fn, 1, False) if kind == "tan"
         else TreeSearch._get_weights(df, fn, 1, False))
    if W.shape != (n, n) or not np.array_equal(W, W.T):
        return bad("impl!=spec:weights-not-symmetric", {}, key=key, tags=tags)
    if mode != "mutual_info":
        for i in keep:
            for j in keep:
                if i < j and abs(float(W[i, j]) - float(wt[(i, j)])) > 1e-9 * float(wt[(i, j)]):
                    return bad("impl!=spec:weights-matrix", {"pair": [i, j], "impl": float(W[i, j]), "table": str(wt[(i, j)])}, key=key, tags=tags)
    wq = {(i, j): Fraction(float(W[i, j])) for i in keep for j in keep if i < j and W[i, j] != 0}
    G = [[[i, j], q] for (i, j), q in sorted(wq.items())]
    for root in rng.sample(keep, 2) + [None]:
        ts = TreeSearch(df, root_node=None if root is None else fresh(names[root]), n_jobs=1)
        try:
            D = ts.estimate(estimator_type=kind, class_node=None if cls is None else fresh(names[cls]), edge_weights_fn=fn, show_progress=False)
        except ValueError:
            if kind == "tan" and root is None and K(ts.root_node) == K(names[cls]):
                continue
            raise
        root = idx[K(ts.root_node)]
        edges = [(idx[K(u)], idx[K(v)]) for u, v in D.edges()]
        if kind == "tan":
            ce = {(cls, v) for v in keep}
            if not ce <= set(edges):
                return bad("impl!=spec:tan-class-edges", {"class": cls}, key=key, tags=tags)
            edges = [e for e in edges if e not in ce]
        T = sorted({(min(u, v), max(u, v)) for u, v in edges})
        if len(T) != len(edges) or len(T) != len(keep) - 1 or not drv.call("c11_span", [keep, G, [list(e) for e in T]]):
            return bad("impl!=spec:not-a-spanning-tree", {"edges": edges}, key=key, tags=tags)
        orient = drv.call("c11_bfs", [keep, [list(e) for e in T], root])
        if sorted(edges) != sorted(tuple(e) for e in orient):
            return bad("impl!=model:bfs-orientation", {"impl": sorted(edges), "model": sorted(orient), "root": root}, key=key, tags=tags)
        # cycle property
        adj = {v: [] for v in keep}
        for u, v in T:
            adj[u].append(v)
            adj[v].append(u)

        def path(a, b):
            prev, todo = {a: None}, [a]
            while todo:
                x = todo.pop()
                for y in adj[x]:
                    if y not in prev:
                        prev[y] = x
                        todo.append(y)
            out = []
            while prev[b] is not None:
                out.append((min(b, prev[b]), max(b, prev[b])))
                b = prev[b]
            return out
        tset = set(T)
        for (i, j), q in wq.items():
            if (i, j) not in tset and any(wq[e] < q for e in path(i, j)):
                return bad("impl!=spec:spanning-tree-not-maximal", {"left_out": [i, j], "weight": str(q), "root": root}, key=key, tags=tags)
    return ok(nontrivial=True, key=key, tags=tags)


def run_case(case, drv):
    k = case["kind"]
    if k == "hc":
        return case_hc(case, drv)
    if k == "session":
        return case_session(case, drv)
    if k == "reject":
        return case_reject(case, drv)
    if k == "cache":
        return case_cache(case, drv)
    if k == "bigtree":
        return case_bigtree(case, drv)
    if k == "legal":
        return case_legal(case, drv)
    if k == "builtin":
        return case_builtin(case, drv)
    if k == "exh":
        return case_exh(case, drv)
    if k == "tree":
        return case_tree(case, drv)
    return bad("harness-unknown-kind", {"kind": k})
