(* Generic line driver for the extracted model.  Request:  <entry> <sexp>   Reply: <sexp>
   sexp ::= hexint | '(' sexp* ')'      hexint ::= ['-'] hexdigits
   Integers are converted bit by bit to/from the extracted inductive Z/positive: no Extract
   Constant, no native ints inside the model. *)
open Model

let rec pos_of_bits (bits : bool list) (acc : positive) : positive =
  match bits with
  | [] -> acc
  | b :: r -> pos_of_bits r (if b then XI acc else XO acc)

let z_of_hex (s : string) : z =
  let neg = String.length s > 0 && s.[0] = '-' in
  let i0 = if neg then 1 else 0 in
  let bits = ref [] in
  for i = i0 to String.length s - 1 do
    let c = s.[i] in
    let v = match c with
      | '0'..'9' -> Char.code c - 48
      | 'a'..'f' -> Char.code c - 87
      | _ -> failwith "hex" in
    bits := (v land 1 <> 0) :: (v land 2 <> 0) :: (v land 4 <> 0) :: (v land 8 <> 0) :: !bits
  done;
  bits := List.rev !bits;
  let rec strip = function false :: r -> strip r | l -> l in
  match strip !bits with
  | [] -> Z0
  | _ :: r -> let p = pos_of_bits r XH in if neg then Zneg p else Zpos p

let hex_of_pos (p : positive) : string =
  (* collect bits LSB first *)
  let rec go p acc = match p with
    | XH -> true :: acc
    | XO q -> go q (false :: acc)
    | XI q -> go q (true :: acc) in
  let bits = go p [] in (* MSB first *)
  let n = List.length bits in
  let pad = (4 - n mod 4) mod 4 in
  let bits = (List.init pad (fun _ -> false)) @ bits in
  let buf = Buffer.create 16 in
  let rec emit = function
    | a :: b :: c :: d :: r ->
      let v = (if a then 8 else 0) + (if b then 4 else 0) + (if c then 2 else 0) + (if d then 1 else 0) in
      Buffer.add_char buf "0123456789abcdef".[v]; emit r
    | _ -> () in
  emit bits; Buffer.contents buf

let hex_of_z = function
  | Z0 -> "0"
  | Zpos p -> hex_of_pos p
  | Zneg p -> "-" ^ hex_of_pos p

let parse (s : string) (start : int) : sx * int =
  let n = String.length s in
  let rec skip i = if i < n && (s.[i] = ' ' || s.[i] = '\t') then skip (i + 1) else i in
  let rec value i =
    let i = skip i in
    if i >= n then failwith "eof"
    else if s.[i] = '(' then
      let rec items i acc =
        let i = skip i in
        if i >= n then failwith "unclosed"
        else if s.[i] = ')' then (SL (List.rev acc), i + 1)
        else let (v, j) = value i in items j (v :: acc) in
      items (i + 1) []
    else
      let j = ref i in
      while !j < n && s.[!j] <> ' ' && s.[!j] <> ')' && s.[!j] <> '(' do incr j done;
      (SZ (z_of_hex (String.sub s i (!j - i))), !j) in
  value start

let rec print buf = function
  | SZ z -> Buffer.add_string buf (hex_of_z z)
  | SL l ->
    Buffer.add_char buf '(';
    List.iteri (fun i x -> if i > 0 then Buffer.add_char buf ' '; print buf x) l;
    Buffer.add_char buf ')'

let () =
  try
    while true do
      let line = input_line stdin in
      let sp = try String.index line ' ' with Not_found -> String.length line in
      let name = String.sub line 0 sp in
      (try
         let f = List.assoc name Entries.table in
         let (arg, _) = parse line sp in
         let buf = Buffer.create 256 in
         print buf (f arg);
         print_string (Buffer.contents buf)
       with
       | Not_found -> print_string "!unknown-entry"
       | Failure m -> print_string ("!parse " ^ m)
       | Stack_overflow -> print_string "!stack-overflow");
      print_newline ()
    done
  with End_of_file -> ()
