(* C15: a rejected single operation leaves the store unchanged.  First for every rejection that happens
   at the argument checks; then, using the heap invariant that no stored CPD lists its own variable among
   its parents (TabularCPD's constructor guarantees distinct scope variables), the operations that mutate
   after their argument checks (remove_node of a present node, do(inplace=True)) are shown never to raise. *)
From Coq Require Import List Bool Arith Lia PeanoNat QArith Qcanon.
From PV Require Import Base.Graph C15.Model C15.ProofsGraph C15.ProofsBN C15.ProofsCPD.
Import ListNotations.
Local Open Scope nat_scope.

Definition single (o : op) : Prop :=
  match o with
  | AddNodes _ xs _ _ => length xs <= 1
  | AddEdges _ es _ => length es <= 1
  | RemoveEdges _ es _ => length es <= 1
  | RemoveNodes _ xs => length xs <= 1
  | AddCpds _ cs => length cs <= 1
  | RemoveCpds _ xs => length xs <= 1
  | RemoveCpdObjs _ cs => length cs <= 1
  | _ => True
  end.

(* operations whose argument check passes, so that pgmpy starts mutating before a later failure *)
Definition late_reject (s : state) (o : op) : Prop :=
  match o with
  | RemoveNodes a xs => exists m x, nth_error (ms s) a = Some m /\ In x xs /\ In x (nodes (bg m))
  | Do a xs true => exists m, nth_error (ms s) a = Some m /\ subsetb xs (nodes (bg m)) = true
  | _ => False
  end.

Lemma commit_same s a m : nth_error (ms s) a = Some m -> commit s a m = s.
Proof. intros H. unfold commit, set_ms. rewrite (upd_same _ _ _ H). destruct s; reflexivity. Qed.
Lemma set_bg_same m : set_bg m (bg m) = m.
Proof. destruct m; reflexivity. Qed.
Lemma log_nw_nil m : log_nw m [] = m.
Proof. destruct m; reflexivity. Qed.
Lemma log_ew_nil m : log_ew m [] = m.
Proof. destruct m; reflexivity. Qed.

Lemma children_absent g x : wf_graph g -> ~ In x (nodes g) -> children g x = [].
Proof.
  intros [_ He] Hx. destruct (children g x) as [|c r] eqn:E; [reflexivity|].
  exfalso. apply Hx. assert (Hc : In c (children g x)) by (rewrite E; left; reflexivity).
  apply In_children in Hc. apply (He _ _ Hc).
Qed.

Lemma m_add_cpds_ok cs : forall s m,
  (forall c, In c cs -> forallb (fun x => memn x (nodes (bg m))) (c_scope c) = true) ->
  snd (m_add_cpds s m cs) = Ok.
Proof.
  induction cs as [|c r IH]; intros s m H; simpl; [reflexivity|].
  unfold m_add_cpd. rewrite (H c (or_introl eq_refl)). apply IH. simpl. intros c' Hc. apply H. right. exact Hc.
Qed.
Lemma rand_cpds_scope g ns dr : wf_graph g ->
  forall c, In c (map (rand_cpd g ns dr) (nodes g)) ->
  forallb (fun x => memn x (nodes g)) (c_scope c) = true.
Proof.
  intros [_ He] c Hc. apply in_map_iff in Hc. destruct Hc as [x [Hq Hx]]. subst c.
  unfold c_scope. simpl. apply andb_true_iff. split; [apply memn_In; exact Hx|].
  apply forallb_forall. intros p Hp. apply memn_In. apply In_parents in Hp. apply (He _ _ Hp).
Qed.

Lemma rejected_op_no_change s o e :
  good s -> single o -> ~ late_reject s o -> snd (step s o) = Err e -> fst (step s o) = s.
Proof.
  intros Hg Hs Hl. destruct o as [eb lat|a xs ws lat|a es ws|a es strict|a xs|a cs|a xs|a cs|a xs ip|a|a isd ns dr ip]; simpl in *.
  - destruct (bn_add_edges_g g_empty eb) as [g o1]. destruct o1; [|reflexivity].
    destruct (acyclicb g); [simpl; discriminate|reflexivity].
  - destruct (nth_error (ms s) a) as [m|] eqn:En; [|reflexivity].
    destruct (wlen_bad (length xs) ws); [reflexivity|].
    destruct xs as [|x [|x2 r]]; simpl in Hs; [| |lia].
    + destruct lat; simpl; discriminate.
    + destruct lat as [|b lt].
      * simpl. intros _. rewrite log_nw_nil. apply commit_same. exact En.
      * cbn [combine m_add_nodes]. destruct (m_add_node s m (x, b)) as [s1 m1]. simpl. discriminate.
  - destruct (nth_error (ms s) a) as [m|] eqn:En; [|reflexivity].
    destruct (wlen_bad (length es) ws); [reflexivity|].
    destruct es as [|[u v] [|e2 r]]; simpl in *; [discriminate| |lia].
    destruct (bn_add_edge_g (bg m) u v); simpl; [discriminate|]. intros _.
    rewrite set_bg_same, log_ew_nil. apply commit_same. exact En.
  - destruct (nth_error (ms s) a) as [m|] eqn:En; [|reflexivity].
    destruct es as [|[u v] [|e2 r]]; simpl in *; [discriminate| |lia].
    destruct (has_edge (bg m) u v); simpl; [discriminate|]. destruct strict; simpl; [|discriminate]. intros _.
    rewrite set_bg_same. apply commit_same. exact En.
  - destruct (nth_error (ms s) a) as [m|] eqn:En; [|reflexivity].
    destruct xs as [|x [|x2 r]]; simpl in *; [discriminate| |lia].
    assert (Hx : ~ In x (nodes (bg m))).
    { intros Hx. apply Hl. exists m, x. split; [reflexivity|]. split; [left; reflexivity|exact Hx]. }
    unfold m_remove_node. rewrite (children_absent _ _ (proj1 (good_nth s a m Hg En)) Hx). simpl.
    unfold get_cpds. apply memn_false in Hx. rewrite Hx. simpl. intros _. apply commit_same. exact En.
  - destruct (nth_error (ms s) a) as [m|] eqn:En; [|reflexivity].
    destruct cs as [|c [|c2 r]]; simpl in *; [discriminate| |lia].
    destruct (m_add_cpd s m c) as [[s1 m1]|]; simpl; [discriminate|]. intros _. apply commit_same. exact En.
  - destruct (nth_error (ms s) a) as [m|] eqn:En; [|reflexivity].
    destruct xs as [|x [|x2 r]]; simpl in *; [discriminate| |lia].
    destruct (m_remove_cpd s m x); simpl; [discriminate|]. intros _. apply commit_same. exact En.
  - destruct (nth_error (ms s) a) as [m|] eqn:En; [|reflexivity].
    destruct cs as [|c [|c2 r]]; simpl in *; [discriminate| |lia].
    destruct (list_remove_val s c (bcpds m)); simpl; [discriminate|]. intros _. apply commit_same. exact En.
  - destruct (nth_error (ms s) a) as [m|] eqn:En; [|reflexivity].
    destruct (subsetb xs (nodes (bg m))) eqn:Es; simpl; [|reflexivity].
    destruct ip.
    + exfalso. apply Hl. exists m. auto.
    + destruct (copy_model s m) as [[s1 m1]|]; [|reflexivity].
      destruct (copy_model s1 m1) as [[s2 m2]|]; [|reflexivity].
      destruct (m_do_on s2 m2 xs) as [[s3 m3] o1]. destruct o1; [simpl; discriminate|reflexivity].
  - destruct (nth_error (ms s) a) as [m|]; [|reflexivity].
    destruct (copy_model s m) as [[s1 m1]|]; [simpl; discriminate|reflexivity].
  - destruct (nth_error (ms s) a) as [m|] eqn:En; [|reflexivity].
    destruct (isd && _); [reflexivity|]. destruct ip.
    + pose proof (m_add_cpds_ok _ s m (rand_cpds_scope (bg m) ns dr (proj1 (good_nth s a m Hg En)))) as Hok.
      destruct (m_add_cpds s m _) as [[s' m'] o1]. simpl in *. subst o1. discriminate.
    + destruct (copy_model s m) as [[s1 m1]|]; [|reflexivity].
      destruct (m_add_cpds s1 m1 _) as [[s2 m2] o1]. destruct o1; [simpl; discriminate|reflexivity].
Qed.

(* ---------------------------------------------------------------- stored CPDs never list their own variable *)
Definition cpd_ok (c : cpd) : Prop := ~ In (c_var c) (c_ev c).
Definition cells_ok (s : state) : Prop := Forall cpd_ok (hc s).
Definition op_ok (o : op) : Prop :=
  match o with AddCpds _ cs => Forall cpd_ok cs | _ => True end.

Lemma marg1_var c x : c_var (cpd_marg1 c x) = c_var c.
Proof. unfold cpd_marg1. destruct (index_of x (c_ev c)); reflexivity. Qed.
Lemma marg1_ev_incl c x y : In y (c_ev (cpd_marg1 c x)) -> In y (c_ev c).
Proof. unfold cpd_marg1. destruct (index_of x (c_ev c)); simpl; [apply remove_at_incl|auto]. Qed.
Lemma marg_fold_ok xs : forall c, cpd_ok c -> cpd_ok (fold_left cpd_marg1 xs c).
Proof.
  induction xs as [|x r IH]; intros c H; simpl; [exact H|]. apply IH. unfold cpd_ok in *.
  rewrite marg1_var. intros K. apply H. eapply marg1_ev_incl; eauto.
Qed.
Lemma marginalize_ok c xs c' : cpd_ok c -> cpd_marginalize c xs = Some c' -> cpd_ok c'.
Proof.
  unfold cpd_marginalize. intros H. destruct (memn _ xs); [discriminate|]. destruct (forallb _ xs); [|discriminate].
  intros E. inversion E; subst. apply (marg_fold_ok xs c H).
Qed.
Lemma get_c_ok s l : cells_ok s -> cpd_ok (get_c s l).
Proof.
  intros H. unfold get_c. destruct (Nat.lt_ge_cases l (length (hc s))) as [L|L].
  - unfold cells_ok in H. rewrite Forall_forall in H. apply H. apply nth_In. exact L.
  - rewrite nth_overflow by exact L. intros [].
Qed.
Lemma cells_ok_upd s l c : cells_ok s -> cpd_ok c -> cells_ok (set_hc s (upd (hc s) l c)).
Proof. intros H K. unfold cells_ok. simpl. apply Forall_upd; assumption. Qed.

Lemma marg_children_ok chs : forall s m x s' o,
  cells_ok s -> marg_children s m x chs = (s', o) -> cells_ok s'.
Proof.
  induction chs as [|c r IH]; intros s m x s' o Hc H; simpl in H.
  - inversion H; subst. exact Hc.
  - destruct (get_cpds s m c) as [[l|]|]; [|eapply IH; eauto|inversion H; subst; exact Hc].
    destruct (memn x (c_ev (get_c s l))); [|eapply IH; eauto].
    destruct (cpd_marginalize (get_c s l) [x]) as [c'|] eqn:E; [|inversion H; subst; exact Hc].
    eapply IH; [|exact H]. apply cells_ok_upd; [exact Hc|]. eapply marginalize_ok; [apply get_c_ok; exact Hc|exact E].
Qed.
Lemma do_cpds_ok xs : forall s m s' o, cells_ok s -> do_cpds s m xs = (s', o) -> cells_ok s'.
Proof.
  induction xs as [|x r IH]; intros s m s' o Hc H; simpl in H.
  - inversion H; subst. exact Hc.
  - destruct (get_cpds s m x) as [[l|]|]; [|eapply IH; eauto|inversion H; subst; exact Hc].
    destruct (cpd_marginalize _ _) as [c'|] eqn:E; [|inversion H; subst; exact Hc].
    eapply IH; [|exact H]. apply cells_ok_upd; [exact Hc|]. eapply marginalize_ok; [apply get_c_ok; exact Hc|exact E].
Qed.
Lemma m_add_cpds_cells cs : forall s m s' m' o,
  cells_ok s -> Forall cpd_ok cs -> m_add_cpds s m cs = (s', m', o) -> cells_ok s'.
Proof.
  induction cs as [|c r IH]; intros s m s' m' o Hc Hf H; simpl in H.
  - inversion H; subst. exact Hc.
  - inversion Hf; subst. unfold m_add_cpd in H. destruct (forallb _ (c_scope c)); [|inversion H; subst; exact Hc].
    eapply IH; [|eassumption|exact H]. unfold cells_ok. simpl. apply Forall_app. split; [exact Hc|]. constructor; [assumption|constructor].
Qed.
Lemma m_remove_node_cells s m x s' m' o : cells_ok s -> m_remove_node s m x = (s', m', o) -> cells_ok s'.
Proof.
  unfold m_remove_node. intros Hc. destruct (marg_children s m x (children (bg m) x)) as [s1 o1] eqn:E.
  apply (marg_children_ok _ _ _ _ _ _ Hc) in E. destruct o1; [|intros H; inversion H; subst; exact E].
  destruct (get_cpds s1 m x); intros H; inversion H; subst; exact E.
Qed.
Lemma m_remove_nodes_cells xs : forall s m s' m' o, cells_ok s -> m_remove_nodes s m xs = (s', m', o) -> cells_ok s'.
Proof.
  induction xs as [|x r IH]; intros s m s' m' o Hc H; simpl in H.
  - inversion H; subst. exact Hc.
  - destruct (m_remove_node s m x) as [[s1 m1] o1] eqn:E. apply (m_remove_node_cells _ _ _ _ _ _ Hc) in E.
    destruct o1; [eapply IH; eauto|inversion H; subst; exact E].
Qed.
Lemma m_do_on_cells s m xs s' m' o : cells_ok s -> m_do_on s m xs = (s', m', o) -> cells_ok s'.
Proof.
  unfold m_do_on. intros Hc. simpl. destruct (bcpds m); [intros H; inversion H; subst; exact Hc|].
  destruct (do_cpds s _ xs) as [s1 o1] eqn:E. apply (do_cpds_ok _ _ _ _ _ Hc) in E.
  intros H; inversion H; subst; exact E.
Qed.
Lemma m_add_nodes_cells xs : forall s m s' m', cells_ok s -> m_add_nodes s m xs = (s', m') -> cells_ok s'.
Proof. intros s m s' m' Hc H. apply m_add_nodes_spec in H. destruct H as (_ & B & _). unfold cells_ok. rewrite B. exact Hc. Qed.
Lemma copy_model_cells s m s' m' : cells_ok s -> copy_model s m = Some (s', m') -> cells_ok s'.
Proof.
  unfold copy_model. intros Hc.
  destruct (bn_add_edges_g _ _) as [g1 o1]. destruct o1; [|discriminate].
  destruct (m_add_cpds s _ (map (get_c s) (bcpds m))) as [[s1 m1] o2] eqn:E2. destruct o2; [|discriminate].
  intros H. inversion H; subst. unfold cells_ok. simpl.
  eapply m_add_cpds_cells; [exact Hc| |exact E2].
  rewrite Forall_forall. intros c Hi. apply in_map_iff in Hi. destruct Hi as [l [<- _]]. apply get_c_ok. exact Hc.
Qed.
Lemma rand_cpds_ok g ns dr : acyclic g -> Forall cpd_ok (map (rand_cpd g ns dr) (nodes g)).
Proof.
  intros Ha. rewrite Forall_forall. intros c Hi. apply in_map_iff in Hi. destruct Hi as [x [<- _]].
  unfold cpd_ok. simpl. intros Hp. apply In_parents in Hp. apply (Ha x x Hp). apply dpath_refl.
Qed.

Lemma step_cells_ok s o : good s -> cells_ok s -> op_ok o -> cells_ok (fst (step s o)).
Proof.
  intros Hg Hc Ho. destruct o as [eb lat|a xs ws lat|a es ws|a es strict|a xs|a cs|a xs|a cs|a xs ip|a|a isd ns dr ip]; simpl in *.
  - destruct (bn_add_edges_g g_empty eb) as [g o1]. destruct o1; [|exact Hc]. destruct (acyclicb g); exact Hc.
  - destruct (nth_error (ms s) a) as [m|]; [|exact Hc]. destruct (wlen_bad (length xs) ws); [exact Hc|].
    destruct (m_add_nodes s m (combine xs lat)) as [s' m'] eqn:E.
    simpl. exact (m_add_nodes_cells _ _ _ _ _ Hc E).
  - destruct (nth_error (ms s) a) as [m|]; [|exact Hc]. destruct (wlen_bad (length es) ws); [exact Hc|].
    destruct (bn_add_edges_g (bg m) es). exact Hc.
  - destruct (nth_error (ms s) a) as [m|]; [|exact Hc]. destruct (bn_remove_edges_g (bg m) es strict). exact Hc.
  - destruct (nth_error (ms s) a) as [m|]; [|exact Hc]. destruct (m_remove_nodes s m xs) as [[s' m'] o1] eqn:E.
    simpl. exact (m_remove_nodes_cells _ _ _ _ _ _ Hc E).
  - destruct (nth_error (ms s) a) as [m|]; [|exact Hc]. destruct (m_add_cpds s m cs) as [[s' m'] o1] eqn:E.
    simpl. exact (m_add_cpds_cells _ _ _ _ _ _ Hc Ho E).
  - destruct (nth_error (ms s) a) as [m|]; [|exact Hc]. destruct (m_remove_cpds s m xs). exact Hc.
  - destruct (nth_error (ms s) a) as [m|]; [|exact Hc]. destruct (m_remove_cpd_objs s m cs). exact Hc.
  - destruct (nth_error (ms s) a) as [m|]; [|exact Hc]. destruct (negb _); [exact Hc|]. destruct ip.
    + destruct (m_do_on s m xs) as [[s' m'] o1] eqn:E. simpl. exact (m_do_on_cells _ _ _ _ _ _ Hc E).
    + destruct (copy_model s m) as [[s1 m1]|] eqn:E1; [|exact Hc].
      destruct (copy_model s1 m1) as [[s2 m2]|] eqn:E2; [|exact Hc].
      destruct (m_do_on s2 m2 xs) as [[s3 m3] o1] eqn:E3. destruct o1; [|exact Hc]. change (cells_ok s3).
      eapply m_do_on_cells; [|exact E3]. eapply copy_model_cells; [|exact E2]. eapply copy_model_cells; eauto.
  - destruct (nth_error (ms s) a) as [m|]; [|exact Hc]. destruct (copy_model s m) as [[s1 m1]|] eqn:E1; [|exact Hc].
    change (cells_ok s1). eapply copy_model_cells; eauto.
  - destruct (nth_error (ms s) a) as [m|] eqn:En; [|exact Hc]. destruct (isd && _); [exact Hc|]. destruct ip.
    + destruct (m_add_cpds s m _) as [[s' m'] o1] eqn:E. change (cells_ok s').
      eapply m_add_cpds_cells; [exact Hc| |exact E]. apply rand_cpds_ok. apply (good_nth s a m Hg En).
    + destruct (copy_model s m) as [[s1 m1]|] eqn:E1; [|exact Hc].
      destruct (m_add_cpds s1 m1 _) as [[s2 m2] o1] eqn:E2. destruct o1; [|exact Hc]. change (cells_ok s2).
      eapply m_add_cpds_cells; [eapply copy_model_cells; eauto| |exact E2].
      apply rand_cpds_ok. apply (copy_model_spec _ _ _ _ E1).
Qed.

(* every reachable state satisfies both invariants *)
Lemma run_inv ops : forall s, good s -> cells_ok s -> Forall op_ok ops -> good (run s ops) /\ cells_ok (run s ops).
Proof.
  induction ops as [|o r IH]; intros s Hg Hc Ho; simpl; [auto|]. inversion Ho; subst.
  apply IH; [apply step_good; exact Hg|apply step_cells_ok; assumption|assumption].
Qed.

(* ---------------------------------------------------------------- the mutating operations never raise *)
Lemma marg_children_never chs : forall s m x,
  cells_ok s -> (forall c, In c chs -> In c (nodes (bg m))) -> snd (marg_children s m x chs) = Ok.
Proof.
  induction chs as [|c r IH]; intros s m x Hc Hn; simpl; [reflexivity|].
  unfold get_cpds at 1. rewrite (proj2 (memn_In c (nodes (bg m))) (Hn c (or_introl eq_refl))).
  destruct (find _ (bcpds m)) as [l|]; [|apply IH; [exact Hc|intros c' H'; apply Hn; right; exact H']].
  destruct (memn x (c_ev (get_c s l))) eqn:Ex; [|apply IH; [exact Hc|intros c' H'; apply Hn; right; exact H']].
  unfold cpd_marginalize. simpl. rewrite Ex. simpl.
  destruct (Nat.eqb (c_var (get_c s l)) x) eqn:Ev.
  - exfalso. apply Nat.eqb_eq in Ev. apply (get_c_ok s l Hc). rewrite Ev. apply memn_In. exact Ex.
  - simpl. apply IH; [|intros c' H'; apply Hn; right; exact H'].
    apply cells_ok_upd; [exact Hc|]. apply (marginalize_ok (get_c s l) [x]); [apply get_c_ok; exact Hc|].
    unfold cpd_marginalize. simpl. rewrite Ev, Ex. reflexivity.
Qed.
Lemma do_cpds_never xs : forall s m,
  cells_ok s -> (forall x, In x xs -> In x (nodes (bg m))) -> snd (do_cpds s m xs) = Ok.
Proof.
  induction xs as [|x r IH]; intros s m Hc Hn; simpl; [reflexivity|].
  unfold get_cpds at 1. rewrite (proj2 (memn_In x (nodes (bg m))) (Hn x (or_introl eq_refl))).
  destruct (find _ (bcpds m)) as [l|]; [|apply IH; [exact Hc|intros c' H'; apply Hn; right; exact H']].
  assert (E : exists c', cpd_marginalize (get_c s l) (c_ev (get_c s l)) = Some c').
  { unfold cpd_marginalize. pose proof (get_c_ok s l Hc) as K. apply memn_false in K. rewrite K.
    assert (F : forallb (fun x0 => memn x0 (c_ev (get_c s l))) (c_ev (get_c s l)) = true)
      by (apply forallb_forall; intros y Hy; apply memn_In; exact Hy).
    rewrite F. eauto. }
  destruct E as [c' E]. rewrite E. apply IH; [|intros c'' H'; apply Hn; right; exact H'].
  apply cells_ok_upd; [exact Hc|]. eapply marginalize_ok; [apply get_c_ok; exact Hc|exact E].
Qed.

Lemma m_remove_node_present s m x :
  wf_graph (bg m) -> cells_ok s -> memn x (nodes (bg m)) = true ->
  exists s' m', m_remove_node s m x = (s', m', Ok).
Proof.
  intros Hw Hc Ex. unfold m_remove_node.
  pose proof (marg_children_never (children (bg m) x) s m x Hc) as K.
  destruct (marg_children s m x (children (bg m) x)) as [s1 o1]. simpl in K. rewrite K.
  - unfold get_cpds. rewrite Ex. eauto.
  - intros c Hi. apply In_children in Hi. apply (proj2 Hw _ _ Hi).
Qed.
Lemma remove_in_edges_nodes xs : forall g, nodes (fold_left g_remove_in_edges xs g) = nodes g.
Proof. induction xs as [|y r IH]; intros g; simpl; [reflexivity|]. rewrite IH. reflexivity. Qed.
Lemma m_do_on_never s m xs :
  cells_ok s -> subsetb xs (nodes (bg m)) = true -> exists s' m', m_do_on s m xs = (s', m', Ok).
Proof.
  intros Hc Es. unfold m_do_on. simpl. destruct (bcpds m) eqn:Eb; [eauto|].
  pose proof (do_cpds_never xs s (set_bg m (fold_left g_remove_in_edges xs (bg m))) Hc) as K.
  destruct (do_cpds s _ xs) as [s1 o1]. simpl in K. rewrite K; [eauto|].
  intros x Hx. simpl. rewrite remove_in_edges_nodes. unfold subsetb in Es. rewrite forallb_forall in Es.
  apply memn_In. apply Es. exact Hx.
Qed.

Theorem rejected_op_no_change_full s o e :
  good s -> cells_ok s -> single o -> snd (step s o) = Err e -> fst (step s o) = s.
Proof.
  intros Hg Hc Hs.
  destruct o as [eb lat|a xs ws lat|a es ws|a es strict|a xs|a cs|a xs|a cs|a xs ip|a|a isd ns dr ip];
    try (apply rejected_op_no_change; [exact Hg|exact Hs|exact (fun H => H)]).
  - (* remove_node *)
    destruct (nth_error (ms s) a) as [m|] eqn:En; [|simpl; rewrite En; intros _; reflexivity].
    destruct xs as [|x [|x2 r]]; [simpl; rewrite En; simpl; discriminate| |simpl in Hs; lia].
    destruct (memn x (nodes (bg m))) eqn:Ex.
    + destruct (m_remove_node_present s m x (proj1 (good_nth s a m Hg En)) Hc Ex) as (s' & m' & E).
      simpl. rewrite En. simpl. rewrite E. simpl. discriminate.
    + apply (rejected_op_no_change s (RemoveNodes a [x]) e Hg); [simpl; lia|].
      intros (m0 & x0 & E0 & [<-|[]] & Hin). rewrite En in E0. inversion E0; subst.
      apply memn_In in Hin. congruence.
  - (* do *)
    destruct ip; [|apply rejected_op_no_change; [exact Hg|exact Hs|exact (fun H => H)]].
    simpl. destruct (nth_error (ms s) a) as [m|] eqn:En; [|intros _; reflexivity].
    destruct (subsetb xs (nodes (bg m))) eqn:Es; simpl; [|intros _; reflexivity].
    destruct (m_do_on_never s m xs Hc Es) as (s' & m' & E). rewrite E. simpl. discriminate.
Qed.
