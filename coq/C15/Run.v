(* C15 entry points for the extracted driver: sx -> sx.  Every entry takes a whole history and
   returns the trace (outcome + observable state after EVERY step), so that the harness compares
   pgmpy with the model step by step. *)
From Coq Require Import List Bool Arith ZArith QArith Qcanon.
From PV Require Import Base.Sx Base.Graph C15.Model.
Import ListNotations.
Local Open Scope nat_scope.

Definition bind {A B} (o : option A) (f : A -> option B) : option B :=
  match o with Some x => f x | None => None end.

Definition sx_edge := sx_pair sx_nat sx_nat.
Definition sx_cpd (s : sx) : option cpd :=
  match s with
  | SL [v; vc; ev; ec; cols] =>
      bind (sx_nat v) (fun v' => bind (sx_nat vc) (fun vc' =>
      bind (sx_list sx_nat ev) (fun ev' => bind (sx_list sx_nat ec) (fun ec' =>
      bind (sx_list (sx_list sx_Qc) cols) (fun cols' =>
      Some {| c_var := v'; c_vcard := vc'; c_ev := ev'; c_ecard := ec'; c_cols := cols' |})))))
  | _ => None
  end.

Definition sx_op (s : sx) : option op :=
  match s with
  | SL [SZ 0%Z; eb; lat] =>
      bind (sx_list sx_edge eb) (fun eb' => bind (sx_list sx_nat lat) (fun lat' => Some (NewBN eb' lat')))
  | SL [SZ 1%Z; a; xs; ws; lat] =>
      bind (sx_nat a) (fun a' => bind (sx_list sx_nat xs) (fun xs' => bind (sx_list sx_nat ws) (fun ws' =>
      bind (sx_list sx_bool lat) (fun lat' => Some (AddNodes a' xs' ws' lat')))))
  | SL [SZ 2%Z; a; es; ws] =>
      bind (sx_nat a) (fun a' => bind (sx_list sx_edge es) (fun es' => bind (sx_list sx_nat ws) (fun ws' =>
      Some (AddEdges a' es' ws'))))
  | SL [SZ 10%Z; a; es; st] =>
      bind (sx_nat a) (fun a' => bind (sx_list sx_edge es) (fun es' => bind (sx_bool st) (fun st' =>
      Some (RemoveEdges a' es' st'))))
  | SL [SZ 3%Z; a; xs] =>
      bind (sx_nat a) (fun a' => bind (sx_list sx_nat xs) (fun xs' => Some (RemoveNodes a' xs')))
  | SL [SZ 4%Z; a; cs] =>
      bind (sx_nat a) (fun a' => bind (sx_list sx_cpd cs) (fun cs' => Some (AddCpds a' cs')))
  | SL [SZ 5%Z; a; xs] =>
      bind (sx_nat a) (fun a' => bind (sx_list sx_nat xs) (fun xs' => Some (RemoveCpds a' xs')))
  | SL [SZ 9%Z; a; cs] =>
      bind (sx_nat a) (fun a' => bind (sx_list sx_cpd cs) (fun cs' => Some (RemoveCpdObjs a' cs')))
  | SL [SZ 6%Z; a; xs; ip] =>
      bind (sx_nat a) (fun a' => bind (sx_list sx_nat xs) (fun xs' => bind (sx_bool ip) (fun ip' =>
      Some (Do a' xs' ip'))))
  | SL [SZ 7%Z; a] => bind (sx_nat a) (fun a' => Some (Copy a'))
  | SL [SZ 8%Z; a; isd; ns; dr; ip] =>
      bind (sx_nat a) (fun a' => bind (sx_bool isd) (fun isd' =>
      bind (sx_list (sx_pair sx_nat sx_nat) ns) (fun ns' => bind (sx_list sx_Qc dr) (fun dr' =>
      bind (sx_bool ip) (fun ip' => Some (RandomCpds a' isd' ns' dr' ip'))))))
  | _ => None
  end.

Definition of_err (e : err) : sx :=
  SZ (match e with EValue => 1 | EAttr => 2 | ENotImpl => 3 | ENx => 4 | EBadId => 5 | EIndex => 6 end)%Z.
Definition of_out (o : out) : sx := match o with Ok => SZ 0%Z | Err e => of_err e end.
Definition of_edge := of_pair of_nat of_nat.
Definition of_graph (g : digraph) : list sx := [of_list of_nat (nodes g); of_list of_edge (edges g)].
Definition of_cpd (c : cpd) : sx :=
  SL [of_nat (c_var c); of_nat (c_vcard c); of_list of_nat (c_ev c); of_list of_nat (c_ecard c);
      of_list (of_list of_Qc) (c_cols c)].
(* [nodes; edges; latents location; latents; [(cpd location, cpd) ...]; node weight log; edge weight log] *)
Definition of_model (s : state) (m : bn) : sx :=
  SL (of_graph (bg m) ++
      [of_nat (blat m); of_list of_nat (get_l s (blat m));
       of_list (fun l => SL [of_nat l; of_cpd (get_c s l)]) (bcpds m);
       of_list (of_pair of_nat of_nat) (bnw m);
       of_list (fun e => SL [of_nat (fst (fst e)); of_nat (snd (fst e)); of_nat (snd e)]) (bew m)]).
Definition of_state (s : state) : sx := of_list (of_model s) (ms s).

Fixpoint trace (s : state) (ops : list op) : list sx :=
  match ops with
  | [] => []
  | o :: r => let (s', out) := step s o in SL [of_out out; of_state s'] :: trace s' r
  end.

(* [op ...] -> [[out; [model ...]] ...] *)
Definition run_c15_bn (s : sx) : sx :=
  match sx_list sx_op s with
  | Some ops => sx_ok (SL (trace init ops))
  | None => bad_request
  end.

(* same, but only the last step's [out; [model ...]] (the harness calls it once per step) *)
Fixpoint last_step (s : state) (ops : list op) (acc : sx) : sx :=
  match ops with
  | [] => acc
  | o :: r => let (s', out) := step s o in last_step s' r (SL [of_out out; of_state s'])
  end.
Definition run_c15_bn_last (s : sx) : sx :=
  match sx_list sx_op s with
  | Some ops => sx_ok (last_step init ops (SL []))
  | None => bad_request
  end.

(* DAG(ebunch): -> [nodes; edges] | error 1 (ValueError: cycle) *)
Definition run_c15_dag (s : sx) : sx :=
  match sx_list sx_edge s with
  | Some eb => match dag_init eb with
               | Some g => sx_ok (SL (of_graph g))
               | None => sx_err 1
               end
  | None => bad_request
  end.

Definition sx_dnode := sx_pair sx_nat sx_nat.
Definition sx_dop (s : sx) : option dop :=
  match s with
  | SL [SZ 0%Z; xs] => bind (sx_list sx_nat xs) (fun xs' => Some (DAddNodes xs'))
  | SL [SZ 1%Z; es] => bind (sx_list (sx_pair sx_dnode sx_dnode) es) (fun es' => Some (DAddEdges es'))
  | _ => None
  end.
Fixpoint dtrace (g : digraph) (ops : list dop) : list sx :=
  match ops with
  | [] => []
  | o :: r => let (g', out) := dstep g o in SL (of_out out :: of_graph g') :: dtrace g' r
  end.
Definition run_c15_dbn (s : sx) : sx :=
  match sx_list sx_dop s with
  | Some ops => sx_ok (SL (dtrace g_empty ops))
  | None => bad_request
  end.

(* [nodes; stored cpds [(id, scope)]; new cpds] -> [out; stored ids afterwards] *)
Definition sx_dcpd := sx_pair sx_nat (sx_list sx_nat).
Definition run_c15_dbn_add_cpds (s : sx) : sx :=
  match s with
  | SL [ns; cs; new] =>
      match sx_list sx_nat ns, sx_list sx_dcpd cs, sx_list sx_dcpd new with
      | Some ns', Some cs', Some new' =>
          let (r, o) := dbn_add_cpds {| nodes := ns'; edges := [] |} cs' new' in
          sx_ok (SL [of_out o; of_list of_nat (map fst r)])
      | _, _, _ => bad_request
      end
  | _ => bad_request
  end.

Definition sx_clique := sx_pair sx_nat (sx_list sx_nat).
Definition sx_jop (s : sx) : option jop :=
  match s with
  | SL [SZ 0%Z; xs] => bind (sx_list sx_nat xs) (fun xs' => Some (JAddNodes xs'))
  | SL [SZ 1%Z; es; ws] =>
      bind (sx_list (sx_pair sx_clique sx_clique) es) (fun es' => bind (sx_list sx_nat ws) (fun ws' =>
      Some (JAddEdges es' ws')))
  | _ => None
  end.
Fixpoint jtrace (g : digraph) (ops : list jop) : list sx :=
  match ops with
  | [] => []
  | o :: r => let (g', out) := jstep g o in SL (of_out out :: of_graph g') :: jtrace g' r
  end.
Definition run_c15_jt (s : sx) : sx :=
  match sx_list sx_jop s with
  | Some ops => sx_ok (SL (jtrace g_empty ops))
  | None => bad_request
  end.
