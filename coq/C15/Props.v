(* C15 property theorems.  Statements only, each closed by [exact]/a one-line instantiation of a lemma
   proved in C15/Proofs*.v or C15/Examples.v, with Print Assumptions underneath.
   Model: C15/Model.v (store of BayesianNetwork objects with explicit heaps for latents sets and CPD
   objects; DBN and junction-tree edge machines). *)
From Coq Require Import List Bool Arith Lia QArith Qcanon.
From PV Require Import Base.Graph C15.Model C15.ProofsGraph C15.ProofsBN C15.ProofsDJ C15.ProofsRej C15.ProofsCPD
  C15.ProofsCopy C15.ProofsHeap C15.Examples C15.ProofsLift.
Import ListNotations.
Local Open Scope nat_scope.

(* every live BayesianNetwork after ANY history (valid or rejected operations, copies, do, random CPDs)
   is a well-formed graph without directed cycle *)
Theorem C15_bn_acyclic_always : forall ops m,
  In m (ms (run init ops)) -> wf_graph (bg m) /\ acyclic (bg m).
Proof. intros ops m H. pose proof (run_good ops init good_init) as G. unfold good in G. rewrite Forall_forall in G. exact (G m H). Qed.
Print Assumptions C15_bn_acyclic_always.

(* DAG(ebunch): construction either raises or yields an acyclic graph *)
Theorem C15_dag_init_acyclic : forall eb g, dag_init eb = Some g -> wf_graph g /\ acyclic g.
Proof. exact dag_init_acyclic. Qed.
Print Assumptions C15_dag_init_acyclic.

(* DynamicBayesianNetwork: any history of add_node(s)/add_edge(s) (slice normalisation, unchecked mirror
   edge included) keeps the 2-slice graph acyclic *)
Theorem C15_dbn_acyclic_always : forall ops,
  wf_graph (drun g_empty ops) /\ acyclic (drun g_empty ops).
Proof. intros ops. exact (proj1 (drun_inv ops g_empty dbn_inv_empty)). Qed.
Print Assumptions C15_dbn_acyclic_always.

(* JunctionTree: any history of add_node(s)/add_edge(s) (valid or rejected, self edges included) keeps the
   undirected graph a forest: every edge was added between unconnected end points ... *)
Theorem C15_jt_forest_always : forall ops,
  wf_graph (jrun g_empty ops) /\ uforest (edges (jrun g_empty ops)).
Proof. intros ops. exact (jrun_inv ops g_empty jt_inv_empty). Qed.
Print Assumptions C15_jt_forest_always.
(* ... hence every edge is a bridge (removing any one edge occurrence disconnects its end points), the
   textbook characterisation of "no cycle" — no self loop, no parallel edge, no longer cycle *)
Theorem C15_jt_no_cycle_always : forall ops, all_bridges (edges (jrun g_empty ops)).
Proof. intros ops. apply uforest_all_bridges. exact (proj2 (jrun_inv ops g_empty jt_inv_empty)). Qed.
Print Assumptions C15_jt_no_cycle_always.

(* A rejected single operation leaves the store EQUAL, in every state reachable by a history whose
   add_cpds arguments are TabularCPD objects (distinct scope variables: the constructor's own check) *)
Theorem C15_rejected_op_no_change : forall ops o e,
  Forall op_ok ops -> single o ->
  snd (step (run init ops) o) = Err e -> fst (step (run init ops) o) = run init ops.
Proof.
  intros ops o e Ho Hs. destruct (run_inv ops init good_init (Forall_nil _) Ho) as [G C].
  exact (rejected_op_no_change_full _ o e G C Hs).
Qed.
Print Assumptions C15_rejected_op_no_change.
Theorem C15_rejected_edge_no_change_dbn_jt : forall g,
  (forall e er, snd (dbn_add_edge g e) = Err er -> fst (dbn_add_edge g e) = g) /\
  (forall e er, snd (jt_add_edge g e) = Err er -> fst (jt_add_edge g e) = g).
Proof. intros g. split; [apply dbn_add_edge_rejected|apply jt_add_edge_rejected]. Qed.
Print Assumptions C15_rejected_edge_no_change_dbn_jt.

(* DynamicBayesianNetwork.add_cpds with several arguments is atomic: rejected => nothing stored *)
Theorem C15_dbn_add_cpds_rejected_no_change : forall g cs new e,
  snd (dbn_add_cpds g cs new) = Err e -> fst (dbn_add_cpds g cs new) = cs.
Proof. intros g cs new e. unfold dbn_add_cpds. destruct (forallb _ new); [discriminate|reflexivity]. Qed.
Print Assumptions C15_dbn_add_cpds_rejected_no_change.

(* remove_node(x) through [step]: for every remaining variable v, the CPD object that get_cpds(v) returned
   before — if it was a well-formed, column-normalised table whose parent set equals v's graph parents —
   is afterwards a well-formed, column-normalised table whose parent set equals v's parents in the new graph
   (x marginalised out in place exactly when it was a parent) *)
Theorem C15_remove_node_cpds : forall s a m x s',
  nth_error (ms s) a = Some m -> step s (RemoveNodes a [x]) = (s', Ok) ->
  forall v l0, v <> x -> get_cpds s m v = Some (Some l0) -> l0 < length (hc s) ->
    cpd_valid (get_c s l0) -> cpd_consistent (bg m) (get_c s l0) ->
    exists m', nth_error (ms s') a = Some m' /\ bg m' = g_remove_node (bg m) x /\
               cpd_valid (get_c s' l0) /\ cpd_consistent (bg m') (get_c s' l0) /\ c_var (get_c s' l0) = v.
Proof. exact remove_node_cpds. Qed.
Print Assumptions C15_remove_node_cpds.
(* ... and which CPD objects remain: remove_node(x) deletes exactly the object get_cpds(x) returns (by
   identity, commit 984e212) and keeps every other one — so the CPDs "remaining" after remove_node(x)
   are those of the variables v <> x covered by C15_remove_node_cpds *)
Theorem C15_remove_node_cpd_list : forall s a m x s',
  nth_error (ms s) a = Some m -> step s (RemoveNodes a [x]) = (s', Ok) ->
  exists m', nth_error (ms s') a = Some m' /\
    (forall l, In l (bcpds m') -> In l (bcpds m)) /\
    (forall l lx, In l (bcpds m) -> get_cpds s m x = Some (Some lx) -> l <> lx -> In l (bcpds m')) /\
    (forall l, In l (bcpds m) -> get_cpds s m x = Some None -> In l (bcpds m')) /\
    (forall lx, get_cpds s m x = Some (Some lx) -> NoDup (bcpds m) -> ~ In lx (bcpds m')).
Proof. exact remove_node_cpd_list. Qed.
Print Assumptions C15_remove_node_cpd_list.
(* do(xs, inplace=True) through [step] (the non-inplace variant runs the same loop on a fresh copy): same
   statement; intervened variables end with a parent-less normalised CPD, the others keep theirs *)
Theorem C15_do_cpds : forall s a m xs s',
  nth_error (ms s) a = Some m -> step s (Do a xs true) = (s', Ok) ->
  forall v l0, get_cpds s m v = Some (Some l0) -> l0 < length (hc s) ->
    cpd_valid (get_c s l0) -> cpd_consistent (bg m) (get_c s l0) ->
    exists m', nth_error (ms s') a = Some m' /\ bg m' = fold_left g_remove_in_edges xs (bg m) /\
               cpd_valid (get_c s' l0) /\ cpd_consistent (bg m') (get_c s' l0) /\ c_var (get_c s' l0) = v /\
               (In v xs -> c_ev (get_c s' l0) = []).
Proof. exact do_cpds_valid. Qed.
Print Assumptions C15_do_cpds.
(* the CPD-level core: TabularCPD.marginalize (einsum over parent axes, then column renormalisation) *)
Theorem C15_marginalize_one_parent : forall c x,
  cpd_wf c -> ~ In (c_var c) (c_ev c) -> cpd_normalised c -> In x (c_ev c) ->
  exists c', cpd_marginalize c [x] = Some c' /\ cpd_wf c' /\ cpd_normalised c' /\ c_var c' = c_var c /\
             (forall y, In y (c_ev c') <-> In y (c_ev c) /\ y <> x).
Proof. exact remove_node_cpd. Qed.
Print Assumptions C15_marginalize_one_parent.
Theorem C15_marginalize_all_parents : forall c,
  cpd_wf c -> ~ In (c_var c) (c_ev c) -> cpd_normalised c ->
  exists c', cpd_marginalize c (c_ev c) = Some c' /\ cpd_wf c' /\ cpd_normalised c' /\ c_var c' = c_var c /\
             c_ev c' = [].
Proof. exact do_cpd. Qed.
Print Assumptions C15_marginalize_all_parents.

(* copy independence, as a frame theorem over ALL nine operations and all histories: an operation that is
   not addressed to live model b leaves b in place with the same graph, latents and CPD list (every table
   entry).  Rests on the separation invariant (distinct live models own disjoint latents/CPD cells,
   ProofsHeap.sep), which copy() maintains by allocating fresh cells. *)
Theorem C15_copy_independent : forall ops o b mb,
  target o <> Some b -> nth_error (ms (run init ops)) b = Some mb ->
  nth_error (ms (fst (step (run init ops) o))) b = Some mb /\
  obs_model (fst (step (run init ops) o)) mb = obs_model (run init ops) mb.
Proof. intros ops o b mb. apply step_frame. apply run_sep, sep_init. Qed.
Print Assumptions C15_copy_independent.
(* ... and the copy itself: fresh cells, same latents *)
Theorem C15_copy_fresh_cells : forall s m s' m',
  copy_model s m = Some (s', m') ->
  hl s' = hl s ++ [[]; get_l s (blat m)] /\ blat m' = length (hl s) + 1 /\
  get_l s' (blat m') = get_l s (blat m) /\
  (exists ext, hc s' = hc s ++ ext) /\ Forall (fun l => length (hc s) <= l) (bcpds m').
Proof. exact copy_model_fresh. Qed.
Print Assumptions C15_copy_fresh_cells.
