(* C15: the CPD theorems lifted through the heap loops of remove_node and do: the CPD that get_cpds
   associates with a remaining variable, if it was well-formed, normalised and consistent with the graph
   before, is well-formed, normalised and consistent with the new graph after. *)
From Coq Require Import List Bool Arith Lia PeanoNat QArith Qcanon.
From PV Require Import Base.Graph C15.Model C15.ProofsGraph C15.ProofsBN C15.ProofsCPD C15.ProofsRej C15.ProofsHeap
  C15.Examples.
Import ListNotations.
Local Open Scope nat_scope.

Definition cpd_consistent (g : digraph) (c : cpd) : Prop :=
  forall y, In y (c_ev c) <-> In (y, c_var c) (edges g).
Definition cpd_valid (c : cpd) : Prop := cpd_wf c /\ ~ In (c_var c) (c_ev c) /\ cpd_normalised c.

Lemma marg_fold_var xs : forall c, c_var (fold_left cpd_marg1 xs c) = c_var c.
Proof. induction xs as [|x r IH]; intros c; simpl; [reflexivity|]. rewrite IH. apply marg1_var. Qed.
Lemma marginalize_var c xs c' : cpd_marginalize c xs = Some c' -> c_var c' = c_var c.
Proof.
  unfold cpd_marginalize. destruct (memn _ xs); [discriminate|]. destruct (forallb _ xs); [|discriminate].
  intros E. inversion E; subst. simpl. apply marg_fold_var.
Qed.

(* get_cpds only looks at the variables of the cells *)
Lemma get_cpds_upd s m v l c' :
  c_var c' = c_var (get_c s l) -> get_cpds (set_hc s (upd (hc s) l c')) m v = get_cpds s m v.
Proof.
  intros Hv. unfold get_cpds. destruct (memn v (nodes (bg m))); [|reflexivity]. f_equal.
  induction (bcpds m) as [|l1 r IH]; simpl; [reflexivity|].
  assert (E : c_var (get_c (set_hc s (upd (hc s) l c')) l1) = c_var (get_c s l1)).
  { unfold get_c. simpl. destruct (Nat.eq_dec l l1) as [->|Hne].
    - destruct (Nat.lt_ge_cases l1 (length (hc s))) as [L|L].
      + rewrite nth_upd_eq by exact L. exact Hv.
      + rewrite !nth_overflow; [reflexivity|exact L|rewrite upd_length; exact L].
    - rewrite nth_upd_ne by exact Hne. reflexivity. }
  rewrite E. destruct (Nat.eqb _ v); [reflexivity|exact IH].
Qed.
Lemma get_c_upd_eq s l c' : l < length (hc s) -> get_c (set_hc s (upd (hc s) l c')) l = c'.
Proof. intros L. unfold get_c. simpl. apply nth_upd_eq. exact L. Qed.
Lemma get_c_upd_ne s l l0 c' : l <> l0 -> get_c (set_hc s (upd (hc s) l c')) l0 = get_c s l0.
Proof. intros L. unfold get_c. simpl. apply nth_upd_ne. exact L. Qed.

(* ---------------------------------------------------------------- remove_node *)
Section RemoveNode.
Variables (x v : node) (l0 : nat) (c0 : cpd).
Hypothesis Hval : cpd_valid c0.
Hypothesis Hv : c_var c0 = v.

Definition marged (cur : cpd) : Prop := In x (c_ev c0) /\ cpd_marginalize c0 [x] = Some cur.

Lemma marged_no_x cur : marged cur -> memn x (c_ev cur) = false.
Proof.
  intros [Hx E]. destruct Hval as (Hw & Hn & Hs).
  destruct (remove_node_cpd c0 x Hw Hn Hs Hx) as (c' & E' & _ & _ & _ & Hev).
  rewrite E in E'. inversion E'; subst. apply memn_false. intros K. apply Hev in K. destruct K as [_ K]. apply K. reflexivity.
Qed.

Lemma marg_children_stays chs : forall s m s' o,
  marg_children s m x chs = (s', o) -> marged (get_c s l0) -> marged (get_c s' l0).
Proof.
  induction chs as [|c r IH]; intros s m s' o H Hd; simpl in H.
  - inversion H; subst. exact Hd.
  - destruct (get_cpds s m c) as [[l|]|]; [|eapply IH; eauto|inversion H; subst; exact Hd].
    destruct (memn x (c_ev (get_c s l))) eqn:Ex; [|eapply IH; eauto].
    destruct (cpd_marginalize (get_c s l) [x]) as [c'|]; [|inversion H; subst; exact Hd].
    eapply IH; [exact H|]. destruct (Nat.eq_dec l l0) as [->|Hne].
    + rewrite (marged_no_x _ Hd) in Ex. discriminate.
    + rewrite get_c_upd_ne by exact Hne. exact Hd.
Qed.

Lemma marg_children_track chs : forall s m s',
  marg_children s m x chs = (s', Ok) ->
  get_cpds s m v = Some (Some l0) -> l0 < length (hc s) -> get_c s l0 = c0 ->
  (get_c s' l0 = c0 /\ (In x (c_ev c0) -> ~ In v chs)) \/ marged (get_c s' l0).
Proof.
  induction chs as [|c r IH]; intros s m s' H Hg Hl Hd; simpl in H.
  - inversion H; subst. left. split; [exact Hd|intros _ []].
  - destruct (get_cpds s m c) as [[l|]|] eqn:Gc; [| |discriminate].
    + destruct (memn x (c_ev (get_c s l))) eqn:Ex.
      * destruct (cpd_marginalize (get_c s l) [x]) as [c'|] eqn:Em; [|discriminate].
        pose proof (marginalize_var _ _ _ Em) as Hvar.
        destruct (Nat.eq_dec l l0) as [->|Hne].
        -- right. eapply marg_children_stays; [exact H|].
           rewrite get_c_upd_eq by exact Hl. rewrite Hd in *. split; [apply memn_In; exact Ex|exact Em].
        -- assert (Hg1 : get_cpds (set_hc s (upd (hc s) l c')) m v = Some (Some l0))
             by (rewrite get_cpds_upd; assumption).
           assert (Hl1 : l0 < length (hc (set_hc s (upd (hc s) l c')))) by (simpl; rewrite upd_length; exact Hl).
           assert (Hd1 : get_c (set_hc s (upd (hc s) l c')) l0 = c0) by (rewrite get_c_upd_ne by exact Hne; exact Hd).
           destruct (IH _ m s' H Hg1 Hl1 Hd1) as [[K1 K2]|K]; [left|right; exact K].
           split; [exact K1|]. intros Hx [Hc|Hc]; [|exact (K2 Hx Hc)].
           subst c. rewrite Hg in Gc. inversion Gc. congruence.
      * destruct (IH s m s' H Hg Hl Hd) as [[K1 K2]|K]; [left|right; exact K].
        split; [exact K1|]. intros Hx [Hc|Hc]; [|exact (K2 Hx Hc)].
        subst c. rewrite Hg in Gc. inversion Gc; subst l.
        rewrite Hd in Ex. apply memn_false in Ex. exact (Ex Hx).
    + destruct (IH s m s' H Hg Hl Hd) as [[K1 K2]|K]; [left|right; exact K].
      split; [exact K1|]. intros Hx [Hc|Hc]; [|exact (K2 Hx Hc)].
      subst c. rewrite Hg in Gc. discriminate.
Qed.
End RemoveNode.

Lemma remove_node_edges g x y v : v <> x ->
  (In (y, v) (edges (g_remove_node g x)) <-> In (y, v) (edges g) /\ y <> x).
Proof.
  intros Hv. simpl. rewrite filter_In. unfold keep_edge_wo. simpl. rewrite andb_true_iff, !negb_true_iff, !Nat.eqb_neq.
  tauto.
Qed.

Theorem remove_node_cpds s a m x s' :
  nth_error (ms s) a = Some m -> step s (RemoveNodes a [x]) = (s', Ok) ->
  forall v l0, v <> x -> get_cpds s m v = Some (Some l0) -> l0 < length (hc s) ->
    cpd_valid (get_c s l0) -> cpd_consistent (bg m) (get_c s l0) ->
    exists m', nth_error (ms s') a = Some m' /\ bg m' = g_remove_node (bg m) x /\
               cpd_valid (get_c s' l0) /\ cpd_consistent (bg m') (get_c s' l0) /\ c_var (get_c s' l0) = v.
Proof.
  intros En Hstep v l0 Hvx Hg Hl Hval Hcons.
  assert (La : a < length (ms s)) by (apply nth_error_Some; congruence).
  pose proof (proj2 (get_cpds_In _ _ _ _ Hg)) as Hvar.
  simpl in Hstep. rewrite En in Hstep. unfold m_remove_node in Hstep.
  destruct (marg_children s m x (children (bg m) x)) as [sA oA] eqn:EA.
  destruct oA; [|simpl in Hstep; inversion Hstep].
  destruct (get_cpds sA m x) as [oc|]; [|simpl in Hstep; inversion Hstep].
  simpl in Hstep. inversion Hstep; subst s'. clear Hstep.
  pose proof (marg_children_spec _ _ _ _ _ _ EA) as (Ams & _ & _).
  eexists. split; [unfold commit; simpl; rewrite Ams; apply nth_error_upd_eq; exact La|].
  split; [reflexivity|].
  change (get_c (commit _ a _) l0) with (get_c sA l0). simpl bg.
  destruct Hval as (Hw & Hn & Hs).
  destruct (marg_children_track x v l0 (get_c s l0) (conj Hw (conj Hn Hs)) Hvar _ _ _ _ EA Hg Hl eq_refl) as [[K1 K2]|[Kx Km]].
  - rewrite K1. assert (Nx : ~ In x (c_ev (get_c s l0))).
    { intros Hx. apply (K2 Hx). apply In_children. rewrite <- Hvar. apply Hcons. exact Hx. }
    split; [exact (conj Hw (conj Hn Hs))|]. split; [|exact Hvar].
    intros y. rewrite Hvar. rewrite remove_node_edges by exact Hvx. rewrite <- Hvar. rewrite <- (Hcons y).
    split; [intros Hy; split; [exact Hy|intros ->; exact (Nx Hy)]|tauto].
  - destruct (remove_node_cpd _ x Hw Hn Hs Kx) as (c' & E' & Hw' & Hs' & Hv' & Hev).
    rewrite Km in E'. inversion E'; subst c'. clear E'.
    split; [split; [exact Hw'|split; [|exact Hs']]|split; [|congruence]].
    + rewrite Hv'. intros K. apply Hev in K. exact (Hn (proj1 K)).
    + intros y. rewrite Hv', Hvar. rewrite remove_node_edges by exact Hvx. rewrite <- Hvar. rewrite <- (Hcons y). apply Hev.
Qed.

(* get_cpds is stable through the marginalisation loop (it only looks at the cells' variables) *)
Lemma marg_children_get_cpds chs : forall s m x s' o v,
  marg_children s m x chs = (s', o) -> get_cpds s' m v = get_cpds s m v.
Proof.
  induction chs as [|c r IH]; intros s m x s' o v H; simpl in H.
  - inversion H; subst. reflexivity.
  - destruct (get_cpds s m c) as [[l|]|]; [|eapply IH; eauto|inversion H; subst; reflexivity].
    destruct (memn x (c_ev (get_c s l))); [|eapply IH; eauto].
    destruct (cpd_marginalize (get_c s l) [x]) as [c'|] eqn:Em; [|inversion H; subst; reflexivity].
    rewrite (IH _ _ _ _ _ v H). apply get_cpds_upd. eapply marginalize_var; eauto.
Qed.
Lemma remove_loc_keeps t : forall ls l, In l ls -> l <> t -> In l (remove_loc t ls).
Proof.
  induction ls as [|y r IH]; intros l Hi Hne; simpl; [exact Hi|].
  destruct (Nat.eqb y t) eqn:E.
  - apply Nat.eqb_eq in E. destruct Hi as [Hi|Hi]; [congruence|exact Hi].
  - destruct Hi as [Hi|Hi]; [left; exact Hi|right; apply IH; assumption].
Qed.
Lemma remove_loc_drops t : forall ls, NoDup ls -> ~ In t (remove_loc t ls).
Proof.
  induction ls as [|y r IH]; intros Hn; simpl; [intros []|]. inversion Hn; subst.
  destruct (Nat.eqb y t) eqn:E.
  - apply Nat.eqb_eq in E. subst. assumption.
  - apply Nat.eqb_neq in E. intros [K|K]; [exact (E K)|exact (IH H2 K)].
Qed.

(* remove_node(x) deletes exactly the CPD object that get_cpds(x) returns (by identity, since 984e212)
   and keeps every other CPD object of the model *)
Theorem remove_node_cpd_list s a m x s' :
  nth_error (ms s) a = Some m -> step s (RemoveNodes a [x]) = (s', Ok) ->
  exists m', nth_error (ms s') a = Some m' /\
    (forall l, In l (bcpds m') -> In l (bcpds m)) /\
    (forall l lx, In l (bcpds m) -> get_cpds s m x = Some (Some lx) -> l <> lx -> In l (bcpds m')) /\
    (forall l, In l (bcpds m) -> get_cpds s m x = Some None -> In l (bcpds m')) /\
    (forall lx, get_cpds s m x = Some (Some lx) -> NoDup (bcpds m) -> ~ In lx (bcpds m')).
Proof.
  intros En Hstep.
  assert (La : a < length (ms s)) by (apply nth_error_Some; congruence).
  simpl in Hstep. rewrite En in Hstep. unfold m_remove_node in Hstep.
  destruct (marg_children s m x (children (bg m) x)) as [sA oA] eqn:EA.
  destruct oA; [|simpl in Hstep; inversion Hstep].
  pose proof (marg_children_get_cpds _ _ _ _ _ _ x EA) as Gx.
  destruct (get_cpds sA m x) as [oc|] eqn:Goc; [|simpl in Hstep; inversion Hstep].
  simpl in Hstep. inversion Hstep; subst s'. clear Hstep.
  pose proof (marg_children_spec _ _ _ _ _ _ EA) as (Ams & _ & _).
  eexists. split; [unfold commit; simpl; rewrite Ams; apply nth_error_upd_eq; exact La|]. simpl.
  destruct oc as [l1|]; simpl.
  - split; [intros l; apply lre_In|]. split; [|split].
    + intros l lx Hi Hg Hne. rewrite <- Gx in Hg. inversion Hg; subst. apply remove_loc_keeps; assumption.
    + intros l _ Hg. rewrite <- Gx in Hg. discriminate.
    + intros lx Hg Hn. rewrite <- Gx in Hg. inversion Hg; subst. apply remove_loc_drops. exact Hn.
  - split; [auto|]. split; [|split].
    + intros l lx _ Hg. rewrite <- Gx in Hg. discriminate.
    + auto.
    + intros lx Hg. rewrite <- Gx in Hg. discriminate.
Qed.

(* ---------------------------------------------------------------- do *)
Section DoTrack.
Variables (v : node) (l0 : nat) (c0 : cpd).

Definition dq (cur : cpd) : Prop := cpd_valid cur /\ c_var cur = v /\ (cur = c0 \/ c_ev cur = []).

Lemma do_cpds_track xs : forall s m s' o,
  do_cpds s m xs = (s', o) -> get_cpds s m v = Some (Some l0) -> l0 < length (hc s) -> dq (get_c s l0) ->
  dq (get_c s' l0) /\ (In v xs -> o = Ok -> c_ev (get_c s' l0) = []) /\
  (~ In v xs -> get_c s' l0 = get_c s l0) /\ (c_ev (get_c s l0) = [] -> c_ev (get_c s' l0) = []).
Proof.
  induction xs as [|x r IH]; intros s m s' o H Hg Hl Hq; simpl in H.
  - inversion H; subst. split; [exact Hq|]. split; [intros []|]. split; auto.
  - destruct (get_cpds s m x) as [[l|]|] eqn:Gx.
    + destruct (cpd_marginalize (get_c s l) (c_ev (get_c s l))) as [c'|] eqn:Em.
      * pose proof (marginalize_var _ _ _ Em) as Hvar.
        assert (Hg1 : get_cpds (set_hc s (upd (hc s) l c')) m v = Some (Some l0)) by (rewrite get_cpds_upd; assumption).
        assert (Hl1 : l0 < length (hc (set_hc s (upd (hc s) l c')))) by (simpl; rewrite upd_length; exact Hl).
        destruct (Nat.eq_dec l l0) as [->|Hne].
        -- destruct Hq as ((Hw & Hn & Hs) & Hv & _).
           destruct (do_cpd _ Hw Hn Hs) as (c2 & E2 & Hw2 & Hs2 & Hv2 & He2).
           rewrite Em in E2. inversion E2; subst c2. clear E2.
           assert (Hq1 : dq (get_c (set_hc s (upd (hc s) l0 c')) l0)).
           { rewrite get_c_upd_eq by exact Hl. split; [split; [exact Hw2|split; [rewrite He2; intros []|exact Hs2]]|].
             split; [congruence|right; exact He2]. }
           destruct (IH _ m s' o H Hg1 Hl1 Hq1) as (A & B & C & D).
           assert (E0 : c_ev (get_c s' l0) = []) by (apply D; rewrite get_c_upd_eq by exact Hl; exact He2).
           split; [exact A|]. split; [intros _ _; exact E0|]. split; [|intros _; exact E0].
           intros Nv. exfalso. apply Nv. left. destruct (get_cpds_In _ _ _ _ Gx) as [_ K]. congruence.
        -- assert (Hq1 : dq (get_c (set_hc s (upd (hc s) l c')) l0)) by (rewrite get_c_upd_ne by exact Hne; exact Hq).
           destruct (IH _ m s' o H Hg1 Hl1 Hq1) as (A & B & C & D).
           rewrite get_c_upd_ne in C, D by exact Hne.
           assert (Nx : x <> v) by (intros ->; rewrite Hg in Gx; inversion Gx; congruence).
           split; [exact A|]. split; [intros [K|K]; [contradiction|exact (B K)]|]. split; [|exact D].
           intros Nv. apply C. intros K. apply Nv. right. exact K.
      * inversion H; subst. split; [exact Hq|]. split; [intros _ K; discriminate|]. split; auto.
    + destruct (IH s m s' o H Hg Hl Hq) as (A & B & C & D).
      assert (Nx : x <> v) by (intros ->; rewrite Hg in Gx; discriminate).
      split; [exact A|]. split; [intros [K|K]; [contradiction|exact (B K)]|]. split; [|exact D].
      intros Nv. apply C. intros K. apply Nv. right. exact K.
    + inversion H; subst. split; [exact Hq|]. split; [intros _ K; discriminate|]. split; auto.
Qed.
End DoTrack.

Lemma remove_in_edges_fold_edges xs : forall g y v,
  In (y, v) (edges (fold_left g_remove_in_edges xs g)) <-> In (y, v) (edges g) /\ ~ In v xs.
Proof.
  induction xs as [|x r IH]; intros g y v; simpl; [tauto|].
  rewrite IH. simpl. rewrite filter_In. simpl. rewrite negb_true_iff, Nat.eqb_neq. split.
  - intros [[A B] C]. split; [exact A|]. intros [K|K]; [congruence|contradiction].
  - intros [A B]. split; [split; [exact A|]|]; intros K; apply B; [left; congruence|right; exact K].
Qed.

Theorem do_cpds_valid s a m xs s' :
  nth_error (ms s) a = Some m -> step s (Do a xs true) = (s', Ok) ->
  forall v l0, get_cpds s m v = Some (Some l0) -> l0 < length (hc s) ->
    cpd_valid (get_c s l0) -> cpd_consistent (bg m) (get_c s l0) ->
    exists m', nth_error (ms s') a = Some m' /\ bg m' = fold_left g_remove_in_edges xs (bg m) /\
               cpd_valid (get_c s' l0) /\ cpd_consistent (bg m') (get_c s' l0) /\ c_var (get_c s' l0) = v /\
               (In v xs -> c_ev (get_c s' l0) = []).
Proof.
  intros En Hstep v l0 Hg Hl Hval Hcons.
  assert (La : a < length (ms s)) by (apply nth_error_Some; congruence).
  pose proof (proj2 (get_cpds_In _ _ _ _ Hg)) as Hvar.
  simpl in Hstep. rewrite En in Hstep. destruct (negb (subsetb xs (nodes (bg m)))); [inversion Hstep|].
  unfold m_do_on in Hstep. simpl in Hstep.
  destruct (bcpds m) as [|b0 br] eqn:Eb.
  { exfalso. unfold get_cpds in Hg. rewrite Eb in Hg. destruct (memn v (nodes (bg m))); simpl in Hg; discriminate. }
  set (m1 := set_bg m (fold_left g_remove_in_edges xs (bg m))) in *.
  destruct (do_cpds s m1 xs) as [sA oA] eqn:EA. inversion Hstep; subst s' oA. clear Hstep.
  pose proof (do_cpds_spec _ _ _ _ _ EA) as (Ams & _).
  assert (Hg1 : get_cpds s m1 v = Some (Some l0)).
  { unfold get_cpds in *. unfold m1. simpl. rewrite remove_in_edges_nodes. exact Hg. }
  assert (Hq : dq v (get_c s l0) (get_c s l0)) by (split; [exact Hval|split; [exact Hvar|left; reflexivity]]).
  destruct (do_cpds_track v l0 (get_c s l0) xs s m1 sA Ok EA Hg1 Hl Hq) as ((Hv' & Hvar' & _) & B & C & _).
  exists m1. split; [unfold commit; simpl; rewrite Ams; apply nth_error_upd_eq; exact La|].
  split; [reflexivity|]. change (get_c (commit sA a m1) l0) with (get_c sA l0).
  split; [exact Hv'|]. split; [|split; [exact Hvar'|intros K; exact (B K eq_refl)]].
  intros y. unfold m1. simpl bg. rewrite Hvar'. rewrite remove_in_edges_fold_edges.
  destruct (in_dec Nat.eq_dec v xs) as [Hi|Hi].
  - rewrite (B Hi eq_refl). simpl. split; [intros []|intros [_ K]; exact (K Hi)].
  - rewrite (C Hi). rewrite <- Hvar. rewrite <- (Hcons y).
    split; [intros K; split; [exact K|rewrite Hvar; exact Hi]|intros [K _]; exact K].
Qed.

(* non-vacuity: A -> B with P(B | A): all hypotheses of the two lifted theorems hold, and both steps succeed *)
Definition s_ab : state := run init [NewBN [(0, 1)] []; AddCpds 0 [cpd_child 1 0]].
Example ex_lift_hyps :
  exists m, nth_error (ms s_ab) 0 = Some m /\ get_cpds s_ab m 1 = Some (Some 0) /\ 0 < length (hc s_ab) /\
            cpd_valid (get_c s_ab 0) /\ cpd_consistent (bg m) (get_c s_ab 0) /\
            snd (step s_ab (RemoveNodes 0 [0])) = Ok /\ snd (step s_ab (Do 0 [1] true)) = Ok.
Proof.
  eexists. split; [vm_compute; reflexivity|]. split; [vm_compute; reflexivity|]. split; [vm_compute; lia|].
  change (get_c s_ab 0) with (cpd_child 1 0).
  destruct ex_cpd_hyps as (A & B & C & _). split; [exact (conj A (conj B C))|]. split.
  - intros y. simpl. split; [intros [<-|[]]; left; reflexivity|intros [K|[]]; inversion K; left; reflexivity].
  - split; vm_compute; reflexivity.
Qed.
