(* C15: graph-level lemmas — the networkx primitives keep well-formedness; guarded edge insertion,
   node/edge removal keep acyclicity. *)
From Coq Require Import List Bool Arith Lia PeanoNat.
From PV Require Import Base.Graph C15.Model.
Import ListNotations.
Local Open Scope nat_scope.

Definition good_g (g : digraph) : Prop := wf_graph g /\ acyclic g.

Lemma good_empty : good_g g_empty.
Proof. split; [split; [constructor|intros u v []]|intros u v []]. Qed.

Lemma NoDup_snoc {A} (l : list A) x : NoDup l -> ~ In x l -> NoDup (l ++ [x]).
Proof.
  induction l as [|y l IH]; intros Hn Hx; simpl.
  - constructor; [intros []|constructor].
  - inversion Hn; subst. constructor.
    + rewrite in_app_iff. intros [H|[H|[]]]; [contradiction|]. subst. apply Hx. left. reflexivity.
    + apply IH; [assumption|]. intros H. apply Hx. right. exact H.
Qed.

(* ---------------------------------------------------------------- add_node *)
Lemma add_node_edges g x : edges (g_add_node g x) = edges g.
Proof. unfold g_add_node. destruct (memn x (nodes g)); reflexivity. Qed.
Lemma add_node_nodes_in g x y : In y (nodes (g_add_node g x)) <-> In y (nodes g) \/ y = x.
Proof.
  unfold g_add_node. destruct (memn x (nodes g)) eqn:E; simpl.
  - apply memn_In in E. split; [auto|intros [H| ->]; auto].
  - rewrite in_app_iff. simpl. split; [intros [H|[H|[]]]; auto|intros [H|H]; auto].
Qed.
Lemma wf_add_node g x : wf_graph g -> wf_graph (g_add_node g x).
Proof.
  intros [Hn He]. split.
  - unfold g_add_node. destruct (memn x (nodes g)) eqn:E; simpl; [exact Hn|].
    apply memn_false in E. apply NoDup_snoc; assumption.
  - intros u v H. rewrite add_node_edges in H. destruct (He u v H) as [A B].
    split; apply add_node_nodes_in; auto.
Qed.
Lemma dpath_same_edges g g' u v : edges g' = edges g -> dpath g u v -> dpath g' u v.
Proof.
  intros E H. induction H as [u|u v w _ IH He]; [apply dpath_refl|].
  eapply dpath_step; [exact IH|]. rewrite E. exact He.
Qed.
Lemma dpath_sub g g' u v : (forall e, In e (edges g') -> In e (edges g)) -> dpath g' u v -> dpath g u v.
Proof.
  intros E H. induction H as [u|u v w _ IH He]; [apply dpath_refl|].
  eapply dpath_step; [exact IH|]. apply E. exact He.
Qed.
Lemma acyclic_sub g g' : (forall e, In e (edges g') -> In e (edges g)) -> acyclic g -> acyclic g'.
Proof.
  intros E H u v He Hp. apply (H u v (E _ He)). eapply dpath_sub; eauto.
Qed.
Lemma good_add_node g x : good_g g -> good_g (g_add_node g x).
Proof.
  intros [Hw Ha]. split; [apply wf_add_node; exact Hw|].
  apply (acyclic_sub g); [|exact Ha]. intros e. rewrite add_node_edges. auto.
Qed.
Lemma good_add_nodes xs : forall g, good_g g -> good_g (fold_left g_add_node xs g).
Proof. induction xs as [|x r IH]; intros g H; simpl; [exact H|]. apply IH. apply good_add_node. exact H. Qed.

(* ---------------------------------------------------------------- add_edge *)
Lemma add_edge_edges_in g u v e : In e (edges (g_add_edge g u v)) <-> In e (edges g) \/ e = (u, v).
Proof.
  unfold g_add_edge. set (g1 := g_add_node (g_add_node g u) v).
  assert (E1 : edges g1 = edges g) by (unfold g1; rewrite !add_node_edges; reflexivity).
  destruct (has_edge g1 u v) eqn:E; simpl.
  - rewrite E1. apply has_edge_In in E. rewrite E1 in E. split; [auto|intros [H| ->]; auto].
  - rewrite in_app_iff, E1. simpl. split; [intros [H|[H|[]]]; auto|intros [H|H]; auto].
Qed.
Lemma add_edge_nodes_in g u v y : In y (nodes (g_add_edge g u v)) <-> In y (nodes g) \/ y = u \/ y = v.
Proof.
  unfold g_add_edge. set (g1 := g_add_node (g_add_node g u) v).
  assert (N : In y (nodes g1) <-> In y (nodes g) \/ y = u \/ y = v).
  { unfold g1. rewrite !add_node_nodes_in. tauto. }
  destruct (has_edge g1 u v); simpl; exact N.
Qed.
Lemma wf_add_edge g u v : wf_graph g -> wf_graph (g_add_edge g u v).
Proof.
  intros Hw. assert (W1 : wf_graph (g_add_node (g_add_node g u) v)) by (apply wf_add_node, wf_add_node, Hw).
  split.
  - unfold g_add_edge. destruct (has_edge _ u v); simpl; apply W1.
  - intros a b H. apply add_edge_edges_in in H. rewrite !add_edge_nodes_in. destruct H as [H|H].
    + destruct Hw as [_ He]. destruct (He a b H). auto.
    + inversion H; subst. auto.
Qed.
Lemma dpath_add_edge g g' u v x y :
  (forall e, In e (edges g') -> In e (edges g) \/ e = (u, v)) ->
  dpath g' x y -> dpath g x y \/ (dpath g x u /\ dpath g v y).
Proof.
  intros E H. induction H as [x|x w y _ IH He]; [left; apply dpath_refl|].
  destruct (E _ He) as [Hg|Hn].
  - destruct IH as [IH|[I1 I2]].
    + left. eapply dpath_step; eauto.
    + right. split; [exact I1|]. eapply dpath_step; eauto.
  - inversion Hn; subst. destruct IH as [IH|[I1 I2]].
    + right. split; [exact IH|apply dpath_refl].
    + right. split; [exact I1|apply dpath_refl].
Qed.
Lemma acyclic_add_edge g g' u v :
  (forall e, In e (edges g') -> In e (edges g) \/ e = (u, v)) ->
  acyclic g -> ~ dpath g v u -> acyclic g'.
Proof.
  intros E Ha Hn a b He Hp.
  destruct (dpath_add_edge g g' u v b a E Hp) as [H|[H1 H2]]; destruct (E _ He) as [Hg|Hq].
  - exact (Ha a b Hg H).
  - inversion Hq; subst. exact (Hn H).
  - apply Hn. eapply dpath_trans; [exact H2|]. eapply dpath_step_l; [exact Hg|exact H1].
  - inversion Hq; subst. exact (Hn H1).
Qed.
Lemma dpath_absent_dst g u v : wf_graph g -> ~ In u (nodes g) -> dpath g v u -> u = v.
Proof.
  intros [_ He] Hu H. destruct H as [|v w u _ Hwu]; [reflexivity|].
  exfalso. apply Hu. apply (He _ _ Hwu).
Qed.
Lemma dpath_absent_src g u v : wf_graph g -> ~ In v (nodes g) -> dpath g v u -> u = v.
Proof.
  intros [_ He] Hv H. induction H as [|v w u _ IH Hwu]; [reflexivity|].
  specialize (IH Hv). subst. exfalso. apply Hv. apply (He _ _ Hwu).
Qed.
(* the guard of BayesianNetwork.add_edge / DynamicBayesianNetwork.add_edge really excludes a path v ->* u *)
Lemma guard_no_path g u v :
  wf_graph g -> u <> v -> memn u (nodes g) && memn v (nodes g) && has_path g v u = false -> ~ dpath g v u.
Proof.
  intros Hw Hne Hg Hp.
  destruct (memn u (nodes g)) eqn:Eu.
  - destruct (memn v (nodes g)) eqn:Ev.
    + simpl in Hg. apply (has_path_spec g v u Hw) in Hp. congruence.
    + apply memn_false in Ev. apply Hne. apply (dpath_absent_src g u v Hw Ev Hp).
  - apply memn_false in Eu. apply Hne. apply (dpath_absent_dst g u v Hw Eu Hp).
Qed.
Lemma bn_add_edge_g_good g u v g' : good_g g -> bn_add_edge_g g u v = Some g' -> good_g g'.
Proof.
  intros [Hw Ha] H. unfold bn_add_edge_g in H.
  destruct (Nat.eqb u v) eqn:E; [discriminate|]. apply Nat.eqb_neq in E.
  destruct (memn u (nodes g) && memn v (nodes g) && has_path g v u) eqn:G; [discriminate|].
  inversion H; subst. split; [apply wf_add_edge; exact Hw|].
  apply (acyclic_add_edge g _ u v); [intros e He; apply add_edge_edges_in; exact He|exact Ha|].
  apply guard_no_path; assumption.
Qed.
Lemma bn_add_edges_g_good es : forall g, good_g g -> good_g (fst (bn_add_edges_g g es)).
Proof.
  induction es as [|[u v] r IH]; intros g H; simpl; [exact H|].
  destruct (bn_add_edge_g g u v) eqn:E; simpl; [|exact H].
  apply IH. eapply bn_add_edge_g_good; eauto.
Qed.

(* ---------------------------------------------------------------- removals *)
Lemma good_remove_node g x : good_g g -> good_g (g_remove_node g x).
Proof.
  intros [[Hn He] Ha]. split; [split|].
  - simpl. apply NoDup_filter. exact Hn.
  - simpl. intros u v H. apply filter_In in H. destruct H as [H K]. unfold keep_edge_wo in K. simpl in K.
    apply andb_true_iff in K. destruct K as [K1 K2]. destruct (He u v H) as [A B].
    split; apply filter_In; split; assumption.
  - apply (acyclic_sub g); [|exact Ha]. simpl. intros e H. apply filter_In in H. tauto.
Qed.
Lemma good_remove_edge g u v : good_g g -> good_g (g_remove_edge g u v).
Proof.
  intros [[Hn He] Ha]. split; [split|].
  - exact Hn.
  - simpl. intros a b H. apply filter_In in H. apply He. tauto.
  - apply (acyclic_sub g); [|exact Ha]. simpl. intros e H. apply filter_In in H. tauto.
Qed.
Lemma bn_remove_edges_g_good es strict : forall g, good_g g -> good_g (fst (bn_remove_edges_g g es strict)).
Proof.
  induction es as [|[u v] r IH]; intros g H; simpl; [exact H|].
  destruct (has_edge g u v); [apply IH, good_remove_edge, H|]. destruct strict; [exact H|apply IH, H].
Qed.
Lemma good_remove_in_edges g x : good_g g -> good_g (g_remove_in_edges g x).
Proof.
  intros [[Hn He] Ha]. split; [split|].
  - exact Hn.
  - simpl. intros u v H. apply filter_In in H. apply He. tauto.
  - apply (acyclic_sub g); [|exact Ha]. simpl. intros e H. apply filter_In in H. tauto.
Qed.
Lemma good_remove_in_edges_fold xs : forall g, good_g g -> good_g (fold_left g_remove_in_edges xs g).
Proof. induction xs as [|x r IH]; intros g H; simpl; [exact H|]. apply IH, good_remove_in_edges, H. Qed.

(* DAG(ebunch): whatever passes the find_cycle test is acyclic *)
Lemma fold_add_edge_wf eb : forall g, wf_graph g ->
  wf_graph (fold_left (fun g e => g_add_edge g (fst e) (snd e)) eb g).
Proof. induction eb as [|e r IH]; intros g H; simpl; [exact H|]. apply IH, wf_add_edge, H. Qed.
Lemma dag_init_acyclic eb g : dag_init eb = Some g -> wf_graph g /\ acyclic g.
Proof.
  unfold dag_init. intros H.
  set (g0 := fold_left (fun g e => g_add_edge g (fst e) (snd e)) eb g_empty) in *.
  assert (W : wf_graph g0) by (apply fold_add_edge_wf; apply good_empty).
  destruct (acyclicb g0) eqn:E; [|discriminate]. inversion H; subst.
  split; [exact W|]. apply acyclicb_spec; assumption.
Qed.
