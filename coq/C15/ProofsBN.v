(* C15: the BayesianNetwork store machine keeps every live model well-formed and acyclic; frame facts
   (which component each helper touches). *)
From Coq Require Import List Bool Arith Lia PeanoNat QArith Qcanon.
From PV Require Import Base.Graph C15.Model C15.ProofsGraph.
Import ListNotations.
Local Open Scope nat_scope.

Definition good (s : state) : Prop := Forall (fun m => good_g (bg m)) (ms s).

Lemma Forall_upd {A} (P : A -> Prop) l i x : Forall P l -> P x -> Forall P (upd l i x).
Proof.
  revert i. induction l as [|y l IH]; intros i Hl Hx; simpl; [constructor|].
  inversion Hl; subst. destruct i; constructor; auto.
Qed.
Lemma upd_same {A} (l : list A) i x : nth_error l i = Some x -> upd l i x = l.
Proof.
  revert i. induction l as [|y l IH]; intros i H; destruct i; simpl in *; try discriminate.
  - inversion H; reflexivity.
  - f_equal. apply IH. exact H.
Qed.
Lemma good_nth s a m : good s -> nth_error (ms s) a = Some m -> good_g (bg m).
Proof. intros H E. apply nth_error_In in E. unfold good in H. rewrite Forall_forall in H. apply H, E. Qed.

(* ---------------------------------------------------------------- frames *)
Lemma m_add_node_spec s m xl s' m' :
  m_add_node s m xl = (s', m') ->
  ms s' = ms s /\ hc s' = hc s /\ bcpds m' = bcpds m /\ blat m' = blat m /\ bg m' = g_add_node (bg m) (fst xl).
Proof.
  destruct xl as [x l]. unfold m_add_node. intros H. inversion H; subst. destruct l; simpl; auto.
Qed.
Lemma m_add_nodes_spec xs : forall s m s' m',
  m_add_nodes s m xs = (s', m') ->
  ms s' = ms s /\ hc s' = hc s /\ bcpds m' = bcpds m /\ blat m' = blat m /\
  bg m' = fold_left g_add_node (map fst xs) (bg m).
Proof.
  induction xs as [|xl r IH]; intros s m s' m' H; simpl in *.
  - inversion H; subst. auto.
  - destruct (m_add_node s m xl) as [s1 m1] eqn:E. apply m_add_node_spec in E.
    destruct E as (A & B & C & D & G). apply IH in H. destruct H as (A' & B' & C' & D' & G').
    rewrite A', B', C', D', G', A, B, C, D, G. auto.
Qed.

Lemma m_add_cpd_spec s m c s' m' :
  m_add_cpd s m c = Some (s', m') ->
  ms s' = ms s /\ hl s' = hl s /\ bg m' = bg m /\ blat m' = blat m /\ hc s' = hc s ++ [c].
Proof.
  unfold m_add_cpd. destruct (forallb _ _); [|discriminate]. intros H. inversion H; subst. simpl. auto.
Qed.
Lemma m_add_cpds_spec cs : forall s m s' m' o,
  m_add_cpds s m cs = (s', m', o) ->
  ms s' = ms s /\ hl s' = hl s /\ bg m' = bg m /\ blat m' = blat m.
Proof.
  induction cs as [|c r IH]; intros s m s' m' o H; simpl in *.
  - inversion H; subst. auto.
  - destruct (m_add_cpd s m c) as [[s1 m1]|] eqn:E.
    + apply m_add_cpd_spec in E. destruct E as (A & B & C & D & _). apply IH in H.
      destruct H as (A' & B' & C' & D'). rewrite A', B', C', D'. auto.
    + inversion H; subst. auto.
Qed.
Lemma m_remove_cpds_spec xs : forall s m m' o,
  m_remove_cpds s m xs = (m', o) -> bg m' = bg m /\ blat m' = blat m.
Proof.
  induction xs as [|x r IH]; intros s m m' o H; simpl in *.
  - inversion H; subst. auto.
  - destruct (m_remove_cpd s m x) as [m1|] eqn:E.
    + apply IH in H. destruct H as [A B]. rewrite A, B. unfold m_remove_cpd in E.
      destruct (get_cpds s m x) as [[l|]|]; try discriminate. inversion E; subst. auto.
    + inversion H; subst. auto.
Qed.
Lemma upd_length {A} (l : list A) i x : length (upd l i x) = length l.
Proof. revert i. induction l as [|y t IH]; intros [|i]; simpl; auto. Qed.
Lemma m_remove_cpd_objs_spec cs : forall s m m' o,
  m_remove_cpd_objs s m cs = (m', o) -> bg m' = bg m /\ blat m' = blat m.
Proof.
  induction cs as [|c r IH]; intros s m m' o H; simpl in *.
  - inversion H; subst. auto.
  - destruct (list_remove_val s c (bcpds m)) as [ls|].
    + apply IH in H. destruct H as [A B]. rewrite A, B. auto.
    + inversion H; subst. auto.
Qed.
Lemma marg_children_spec chs : forall s m x s' o,
  marg_children s m x chs = (s', o) -> ms s' = ms s /\ hl s' = hl s /\ length (hc s') = length (hc s).
Proof.
  induction chs as [|c r IH]; intros s m x s' o H; simpl in *.
  - inversion H; subst. auto.
  - destruct (get_cpds s m c) as [[l|]|].
    + destruct (memn x (c_ev (get_c s l))); [|apply IH in H; exact H].
      destruct (cpd_marginalize (get_c s l) [x]) as [c'|].
      * apply IH in H. destruct H as (A & B & C). rewrite A, B, C. simpl. rewrite upd_length. auto.
      * inversion H; subst. auto.
    + apply IH in H. exact H.
    + inversion H; subst. auto.
Qed.
Lemma m_remove_node_spec s m x s' m' o :
  m_remove_node s m x = (s', m', o) ->
  ms s' = ms s /\ (good_g (bg m) -> good_g (bg m')).
Proof.
  unfold m_remove_node. destruct (marg_children s m x (children (bg m) x)) as [s1 o1] eqn:E.
  apply marg_children_spec in E. destruct E as (A & B & C).
  destruct o1.
  - destruct (get_cpds s1 m x) as [oc|].
    + intros H. inversion H; subst. simpl. split; [exact A|]. apply good_remove_node.
    + intros H. inversion H; subst. auto.
  - intros H. inversion H; subst. auto.
Qed.
Lemma m_remove_nodes_spec xs : forall s m s' m' o,
  m_remove_nodes s m xs = (s', m', o) -> ms s' = ms s /\ (good_g (bg m) -> good_g (bg m')).
Proof.
  induction xs as [|x r IH]; intros s m s' m' o H; simpl in *.
  - inversion H; subst. auto.
  - destruct (m_remove_node s m x) as [[s1 m1] o1] eqn:E. apply m_remove_node_spec in E. destruct E as [A G].
    destruct o1.
    + apply IH in H. destruct H as [A' G']. rewrite A'. auto.
    + inversion H; subst. auto.
Qed.
Lemma do_cpds_spec xs : forall s m s' o,
  do_cpds s m xs = (s', o) -> ms s' = ms s /\ hl s' = hl s.
Proof.
  induction xs as [|x r IH]; intros s m s' o H; simpl in *.
  - inversion H; subst. auto.
  - destruct (get_cpds s m x) as [[l|]|]; [|apply IH in H; exact H|inversion H; subst; auto].
    destruct (cpd_marginalize _ _); [|inversion H; subst; auto].
    apply IH in H. destruct H as [A B]. rewrite A, B. auto.
Qed.
Lemma m_do_on_spec s m xs s' m' o :
  m_do_on s m xs = (s', m', o) ->
  ms s' = ms s /\ hl s' = hl s /\ blat m' = blat m /\ bcpds m' = bcpds m /\
  bg m' = fold_left g_remove_in_edges xs (bg m).
Proof.
  unfold m_do_on. simpl. destruct (bcpds m) eqn:Eb.
  - intros H. inversion H; subst. simpl. auto.
  - destruct (do_cpds s _ xs) as [s1 o1] eqn:E. apply do_cpds_spec in E. destruct E as [A B].
    intros H. inversion H; subst. simpl. auto.
Qed.
Lemma copy_model_spec s m s' m' :
  copy_model s m = Some (s', m') -> ms s' = ms s /\ good_g (bg m').
Proof.
  unfold copy_model.
  destruct (bn_add_edges_g (fold_left g_add_node (nodes (bg m)) g_empty) (g_edges_view (bg m))) as [g1 o1] eqn:E.
  destruct o1; [|discriminate].
  destruct (m_add_cpds s _ (map (get_c s) (bcpds m))) as [[s1 m1] o2] eqn:E2.
  destruct o2; [|discriminate]. intros H. inversion H; subst.
  apply m_add_cpds_spec in E2. destruct E2 as (A & B & C & D). simpl. split; [exact A|].
  rewrite C. simpl.
  assert (G := bn_add_edges_g_good (g_edges_view (bg m)) _ (good_add_nodes (nodes (bg m)) _ good_empty)).
  rewrite E in G. exact G.
Qed.

(* ---------------------------------------------------------------- the invariant *)
Lemma good_commit s s' a m' : good s -> ms s' = ms s -> good_g (bg m') -> good (commit s' a m').
Proof. intros H E G. unfold good, commit. simpl. rewrite E. apply Forall_upd; assumption. Qed.
Lemma good_push s s' m' : good s -> ms s' = ms s -> good_g (bg m') -> good (push s' m').
Proof.
  intros H E G. unfold good, push. simpl. rewrite E. apply Forall_app. split; [exact H|]. constructor; [exact G|constructor].
Qed.

Lemma step_good s o : good s -> good (fst (step s o)).
Proof.
  intros H. destruct o as [eb lat|a xs ws lat|a es ws|a es strict|a xs|a cs|a xs|a cs|a xs ip|a|a isd ns dr ip]; simpl.
  - destruct (bn_add_edges_g g_empty eb) as [g o1] eqn:E. destruct o1; [|exact H].
    destruct (acyclicb g); [|exact H]. simpl.
    apply (good_push s); [exact H|reflexivity|]. simpl.
    assert (G := bn_add_edges_g_good eb _ good_empty). rewrite E in G. exact G.
  - destruct (nth_error (ms s) a) as [m|] eqn:En; [|exact H].
    destruct (wlen_bad (length xs) ws); [exact H|].
    destruct (m_add_nodes s m (combine xs lat)) as [s' m'] eqn:E. simpl. apply m_add_nodes_spec in E.
    destruct E as (A & _ & _ & _ & G). apply (good_commit s); [exact H|exact A|]. cbn [bg log_nw]. rewrite G.
    apply good_add_nodes. eapply good_nth; eauto.
  - destruct (nth_error (ms s) a) as [m|] eqn:En; [|exact H].
    destruct (wlen_bad (length es) ws); [exact H|].
    destruct (bn_add_edges_g (bg m) es) as [g' o1] eqn:E. simpl.
    apply (good_commit s); [exact H|reflexivity|]. cbn [bg log_ew set_bg].
    assert (G := bn_add_edges_g_good es _ (good_nth s a m H En)). rewrite E in G. exact G.
  - destruct (nth_error (ms s) a) as [m|] eqn:En; [|exact H].
    destruct (bn_remove_edges_g (bg m) es strict) as [g' o1] eqn:E. simpl.
    apply (good_commit s); [exact H|reflexivity|]. cbn [bg set_bg].
    assert (G := bn_remove_edges_g_good es strict _ (good_nth s a m H En)). rewrite E in G. exact G.
  - destruct (nth_error (ms s) a) as [m|] eqn:En; [|exact H].
    destruct (m_remove_nodes s m xs) as [[s' m'] o1] eqn:E. simpl. apply m_remove_nodes_spec in E.
    destruct E as [A G]. apply (good_commit s); [exact H|exact A|]. apply G. eapply good_nth; eauto.
  - destruct (nth_error (ms s) a) as [m|] eqn:En; [|exact H].
    destruct (m_add_cpds s m cs) as [[s' m'] o1] eqn:E. simpl. apply m_add_cpds_spec in E.
    destruct E as (A & _ & G & _). apply (good_commit s); [exact H|exact A|]. rewrite G. eapply good_nth; eauto.
  - destruct (nth_error (ms s) a) as [m|] eqn:En; [|exact H].
    destruct (m_remove_cpds s m xs) as [m' o1] eqn:E. simpl. apply m_remove_cpds_spec in E.
    destruct E as [G _]. apply (good_commit s); [exact H|reflexivity|]. rewrite G. eapply good_nth; eauto.
  - destruct (nth_error (ms s) a) as [m|] eqn:En; [|exact H].
    destruct (m_remove_cpd_objs s m cs) as [m' o1] eqn:E. simpl. apply m_remove_cpd_objs_spec in E.
    destruct E as [G _]. apply (good_commit s); [exact H|reflexivity|]. rewrite G. eapply good_nth; eauto.
  - destruct (nth_error (ms s) a) as [m|] eqn:En; [|exact H].
    destruct (negb (subsetb xs (nodes (bg m)))); [exact H|]. destruct ip.
    + destruct (m_do_on s m xs) as [[s' m'] o1] eqn:E. simpl. apply m_do_on_spec in E.
      destruct E as (A & _ & _ & _ & G). apply (good_commit s); [exact H|exact A|]. rewrite G.
      apply good_remove_in_edges_fold. eapply good_nth; eauto.
    + destruct (copy_model s m) as [[s1 m1]|] eqn:E1; [|exact H].
      destruct (copy_model s1 m1) as [[s2 m2]|] eqn:E2; [|exact H].
      destruct (m_do_on s2 m2 xs) as [[s3 m3] o1] eqn:E3. destruct o1; [|exact H]. simpl.
      apply copy_model_spec in E1, E2. apply m_do_on_spec in E3.
      destruct E1 as [A1 _], E2 as [A2 G2], E3 as (A3 & _ & _ & _ & G3).
      apply (good_push s); [exact H|congruence|]. rewrite G3. apply good_remove_in_edges_fold. exact G2.
  - destruct (nth_error (ms s) a) as [m|] eqn:En; [|exact H].
    destruct (copy_model s m) as [[s1 m1]|] eqn:E1; [|exact H]. simpl.
    apply copy_model_spec in E1. destruct E1 as [A1 G1]. apply (good_push s); assumption.
  - destruct (nth_error (ms s) a) as [m|] eqn:En; [|exact H].
    destruct (isd && _); [exact H|]. destruct ip.
    + destruct (m_add_cpds s m _) as [[s' m'] o1] eqn:E. simpl. apply m_add_cpds_spec in E.
      destruct E as (A & _ & G & _). apply (good_commit s); [exact H|exact A|]. rewrite G. eapply good_nth; eauto.
    + destruct (copy_model s m) as [[s1 m1]|] eqn:E1; [|exact H].
      destruct (m_add_cpds s1 m1 _) as [[s2 m2] o1] eqn:E2. destruct o1; [|exact H]. simpl.
      apply copy_model_spec in E1. apply m_add_cpds_spec in E2.
      destruct E1 as [A1 G1], E2 as (A2 & _ & G2 & _).
      apply (good_push s); [exact H|congruence|]. rewrite G2. exact G1.
Qed.

Lemma run_good ops : forall s, good s -> good (run s ops).
Proof.
  induction ops as [|o r IH]; intros s H; simpl; [exact H|]. apply IH. apply step_good. exact H.
Qed.
Lemma good_init : good init.
Proof. constructor. Qed.
