(* C15: TabularCPD.marginalize (sum out parent axes, then renormalise the columns) maps a
   well-formed CPD with non-zero constant column sums — in particular a normalised one — to a normalised
   CPD over exactly the remaining parents. *)
From Coq Require Import List Bool Arith Lia PeanoNat QArith Qcanon.
From PV Require Import Base.Graph C15.Model.
Import ListNotations.
Local Open Scope nat_scope.

Definition q0 : Qc := Q2Qc 0%Q.
Definition q1 : Qc := Q2Qc 1%Q.
Fixpoint nq (n : nat) : Qc := match n with 0 => q0 | S k => Qcplus (nq k) q1 end.

Lemma nq_nonneg n : Qcle q0 (nq n).
Proof.
  induction n as [|n IH]; simpl; [apply Qcle_refl|].
  replace q0 with (Qcplus q0 q0) by (unfold q0; ring).
  apply Qcplus_le_compat; [exact IH|]. unfold q0, q1. unfold Qcle. simpl. discriminate.
Qed.
Lemma nq_pos n : nq (S n) <> q0.
Proof.
  simpl. intros H. pose proof (nq_nonneg n) as Hn.
  assert (L : Qclt q0 (Qcplus (nq n) q1)).
  { apply Qclt_le_trans with (y := q1); [unfold Qclt, q0, q1; simpl; reflexivity|].
    replace q1 with (Qcplus q0 q1) at 1 by (unfold q0; ring).
    apply Qcplus_le_compat; [exact Hn|apply Qcle_refl]. }
  rewrite H in L. apply (Qclt_not_eq _ _ L). reflexivity.
Qed.

Definition cpd_wf (c : cpd) : Prop :=
  length (c_ecard c) = length (c_ev c) /\ NoDup (c_ev c) /\ Forall (fun k => 0 < k) (c_ecard c) /\
  Forall (fun col => length col = c_vcard c) (c_cols c).
(* every column sums to q *)
Definition colsums (q : Qc) (c : cpd) : Prop := Forall (fun col => colsum col = q) (c_cols c).
Definition cpd_normalised (c : cpd) : Prop := colsums q1 c.

(* ---------------------------------------------------------------- list helpers *)
Lemma Forall_firstn {A} (P : A -> Prop) n l : Forall P l -> Forall P (firstn n l).
Proof. revert n. induction l as [|x l IH]; intros [|n] H; simpl; try constructor; inversion H; subst; auto. Qed.
Lemma Forall_skipn {A} (P : A -> Prop) n l : Forall P l -> Forall P (skipn n l).
Proof. revert n. induction l as [|x l IH]; intros [|n] H; simpl; try assumption; inversion H; subst; auto. Qed.
Lemma Forall_map2 {A B C} (P : A -> Prop) (Q : B -> Prop) (R : C -> Prop) (f : A -> B -> C) :
  (forall x y, P x -> Q y -> R (f x y)) -> forall a b, Forall P a -> Forall Q b -> Forall R (map2 f a b).
Proof.
  intros H a. induction a as [|x a IH]; intros [|y b] Ha Hb; simpl; try constructor;
    inversion Ha; inversion Hb; subst; auto.
Qed.

Lemma colsum_nil : colsum [] = q0.
Proof. reflexivity. Qed.
Lemma colsum_cons x c : colsum (x :: c) = Qcplus x (colsum c).
Proof. reflexivity. Qed.
Lemma vadd_spec n a b : length a = n -> length b = n ->
  length (vadd a b) = n /\ colsum (vadd a b) = Qcplus (colsum a) (colsum b).
Proof.
  revert a b. induction n as [|n IH]; intros [|x a] [|y b] Ha Hb; simpl in Ha, Hb; try discriminate.
  - split; [reflexivity|]. change (vadd [] []) with (@nil Qc). rewrite colsum_nil. unfold q0. ring.
  - destruct (IH a b) as [L S]; [lia|lia|].
    change (vadd (x :: a) (y :: b)) with (Qcplus x y :: vadd a b).
    split; [simpl; lia|]. rewrite !colsum_cons, S. ring.
Qed.

Definition colP (n : nat) (q : Qc) (col : list Qc) : Prop := length col = n /\ colsum col = q.

Lemma blocksum_spec n q d inner : forall k acc l,
  Forall (colP n (Qcmult q (nq k))) acc -> Forall (colP n q) l ->
  Forall (colP n (Qcmult q (nq (k + d)))) (blocksum d inner acc l).
Proof.
  induction d as [|d IH]; intros k acc l Ha Hl; simpl.
  - rewrite Nat.add_0_r. exact Ha.
  - replace (k + S d) with (S k + d) by lia. apply IH; [|apply Forall_skipn; exact Hl].
    apply (Forall_map2 (colP n (Qcmult q (nq k))) (colP n q)); [|exact Ha|apply Forall_firstn; exact Hl].
    intros x y [Lx Sx] [Ly Sy]. destruct (vadd_spec n x y Lx Ly) as [L S]. split; [exact L|].
    rewrite S, Sx, Sy. cbn [nq]. unfold q1. ring.
Qed.
Lemma marg_chunks_spec n q d inner : forall outer l,
  Forall (colP n q) l -> Forall (colP n (Qcmult q (nq d))) (marg_chunks outer d inner l).
Proof.
  induction outer as [|o IH]; intros l Hl; simpl; [constructor|].
  apply Forall_app. split; [|apply IH; apply Forall_skipn; exact Hl].
  destruct d as [|d']; [constructor|].
  replace (S d') with (1 + d') by lia. apply blocksum_spec.
  - cbn [nq]. replace (Qcmult q (Qcplus q0 q1)) with q by (unfold q0, q1; ring). apply Forall_firstn. exact Hl.
  - apply Forall_skipn, Forall_firstn. exact Hl.
Qed.

(* ---------------------------------------------------------------- normalisation *)
Lemma colsum_div c s : colsum (map (fun x => Qcdiv x s) c) = Qcdiv (colsum c) s.
Proof.
  induction c as [|x c IH].
  - change (map (fun x => Qcdiv x s) []) with (@nil Qc). rewrite colsum_nil. unfold Qcdiv, q0. ring.
  - change (map (fun x => Qcdiv x s) (x :: c)) with (Qcdiv x s :: map (fun x => Qcdiv x s) c).
    rewrite !colsum_cons, IH. unfold Qcdiv. ring.
Qed.
Lemma norm_col_spec n q col : q <> q0 -> colP n q col -> colP n q1 (norm_col col).
Proof.
  intros Hq [L S]. unfold norm_col. split; [rewrite map_length; exact L|].
  rewrite colsum_div, S. unfold Qcdiv. apply Qcmult_inv_r. exact Hq.
Qed.

(* ---------------------------------------------------------------- remove_at / index_of *)
Lemma index_of_spec x l k : index_of x l = Some k -> k < length l /\ nth k l 0 = x.
Proof.
  revert k. induction l as [|y l IH]; intros k H; simpl in *; [discriminate|].
  destruct (Nat.eqb x y) eqn:E.
  - inversion H; subst. apply Nat.eqb_eq in E. split; [lia|auto].
  - destruct (index_of x l) as [j|]; [|discriminate]. inversion H; subst.
    destruct (IH j eq_refl). split; [lia|assumption].
Qed.
Lemma index_of_In x l : In x l -> exists k, index_of x l = Some k.
Proof.
  induction l as [|y l IH]; intros H; [destruct H|]. simpl. destruct (Nat.eqb x y) eqn:E; [eauto|].
  destruct H as [H|H]; [subst; rewrite Nat.eqb_refl in E; discriminate|].
  destruct (IH H) as [k Hk]. rewrite Hk. simpl. eauto.
Qed.
Lemma remove_at_length {A} k (l : list A) : k < length l -> length (remove_at k l) = length l - 1.
Proof.
  revert k. induction l as [|y l IH]; intros [|k] H; simpl in *; try lia.
  rewrite IH; lia.
Qed.
Lemma remove_at_In k (l : list nat) y : NoDup l -> k < length l ->
  (In y (remove_at k l) <-> In y l /\ y <> nth k l 0).
Proof.
  revert k. induction l as [|z l IH]; intros [|k] Hn Hk; simpl in *; try lia; inversion Hn; subst.
  - split.
    + intros H. split; [auto|]. intros ->. contradiction.
    + intros [[H|H] Hne]; [congruence|exact H].
  - rewrite (IH k); [|assumption|lia]. split.
    + intros [K|[K1 K2]]; [subst|auto].
      split; [auto|]. intros E. match goal with N : ~ In _ l |- _ => apply N end. rewrite E. apply nth_In. lia.
    + intros [[H|H] Hne]; auto.
Qed.
Lemma remove_at_incl {A} k (l : list A) y : In y (remove_at k l) -> In y l.
Proof.
  revert k. induction l as [|w l IHl]; intros [|k] H; simpl in *; auto.
  destruct H as [H|H]; [auto|right; eapply IHl; eauto].
Qed.
Lemma remove_at_NoDup k (l : list nat) : NoDup l -> NoDup (remove_at k l).
Proof.
  revert k. induction l as [|z l IH]; intros [|k] Hn; simpl; try constructor; inversion Hn; subst; auto.
  intros H. apply remove_at_incl in H. contradiction.
Qed.
Lemma remove_at_Forall {A} (P : A -> Prop) k l : Forall P l -> Forall P (remove_at k l).
Proof. revert k. induction l as [|z l IH]; intros [|k] H; simpl; try constructor; inversion H; subst; auto. Qed.

(* ---------------------------------------------------------------- one summed-out parent *)
Lemma marg1_spec c x q :
  cpd_wf c -> In x (c_ev c) -> colsums q c ->
  exists d, cpd_wf (cpd_marg1 c x) /\ colsums (Qcmult q (nq (S d))) (cpd_marg1 c x) /\
            c_var (cpd_marg1 c x) = c_var c /\
            (forall y, In y (c_ev (cpd_marg1 c x)) <-> In y (c_ev c) /\ y <> x).
Proof.
  intros (Hl & Hn & Hp & Hc) Hx Hs. unfold cpd_marg1.
  destruct (index_of_In x _ Hx) as [k Hk]. rewrite Hk. destruct (index_of_spec _ _ _ Hk) as [Hlt Hnth].
  assert (Hd : 0 < nth k (c_ecard c) 0).
  { rewrite Forall_forall in Hp. apply Hp. apply nth_In. lia. }
  destruct (nth k (c_ecard c) 0) as [|d] eqn:Ed; [lia|]. exists d.
  assert (M : Forall (colP (c_vcard c) (Qcmult q (nq (S d))))
                (marg_chunks (prodl (firstn k (c_ecard c))) (S d) (prodl (skipn (S k) (c_ecard c))) (c_cols c))).
  { apply marg_chunks_spec. unfold colsums in Hs. rewrite Forall_forall in *. intros col Hi. split; auto. }
  split; [|split; [|split]]; simpl.
  - repeat split; simpl.
    + rewrite !remove_at_length; lia.
    + apply remove_at_NoDup. exact Hn.
    + apply remove_at_Forall. exact Hp.
    + rewrite Forall_forall in *. intros col Hi. apply (M col Hi).
  - unfold colsums. simpl. rewrite Forall_forall in *. intros col Hi. apply (M col Hi).
  - reflexivity.
  - intros y. pose proof (remove_at_In k (c_ev c) y Hn Hlt) as R. subst x. exact R.
Qed.

Lemma marg_fold_spec xs : forall c q,
  cpd_wf c -> NoDup xs -> incl xs (c_ev c) -> colsums q c -> q <> q0 ->
  exists q', q' <> q0 /\ cpd_wf (fold_left cpd_marg1 xs c) /\ colsums q' (fold_left cpd_marg1 xs c) /\
             c_var (fold_left cpd_marg1 xs c) = c_var c /\
             (forall y, In y (c_ev (fold_left cpd_marg1 xs c)) <-> In y (c_ev c) /\ ~ In y xs).
Proof.
  induction xs as [|x r IH]; intros c q Hw Hn Hi Hs Hq; simpl.
  - exists q. split; [exact Hq|]. split; [exact Hw|]. split; [exact Hs|]. split; [reflexivity|].
    intros y. simpl. tauto.
  - inversion Hn as [|? ? Hxr Hnr]; subst.
    destruct (marg1_spec c x q Hw (Hi x (or_introl eq_refl)) Hs) as (d & Hw1 & Hs1 & Hv1 & He1).
    destruct (IH (cpd_marg1 c x) (Qcmult q (nq (S d))) Hw1 Hnr) as (q' & Hq' & Hw2 & Hs2 & Hv2 & He2).
    + intros y Hy. apply He1. split; [apply Hi; right; exact Hy|]. intros ->. contradiction.
    + exact Hs1.
    + intros H. apply Qcmult_integral in H. destruct H as [H|H]; [exact (Hq H)|exact (nq_pos d H)].
    + exists q'. split; [exact Hq'|]. split; [exact Hw2|]. split; [exact Hs2|]. split; [congruence|].
      intros y. rewrite He2, He1. split.
      * intros [[A B] C]. split; [exact A|]. intros [D|D]; [congruence|contradiction].
      * intros [A B]. split; [split; [exact A|]|]; intros D; apply B; [left; congruence|right; exact D].
Qed.

(* TabularCPD.marginalize on a CPD with non-zero constant column sums: succeeds exactly when the
   variables are parents, and yields a normalised CPD over exactly the other parents *)
Theorem cpd_marginalize_spec c xs q :
  cpd_wf c -> ~ In (c_var c) (c_ev c) -> NoDup xs -> incl xs (c_ev c) -> colsums q c -> q <> q0 ->
  exists c', cpd_marginalize c xs = Some c' /\ cpd_wf c' /\ cpd_normalised c' /\ c_var c' = c_var c /\
             (forall y, In y (c_ev c') <-> In y (c_ev c) /\ ~ In y xs).
Proof.
  intros Hw Hv Hn Hi Hs Hq. unfold cpd_marginalize.
  destruct (memn (c_var c) xs) eqn:E; [apply memn_In in E; exfalso; apply Hv, Hi, E|].
  assert (F : forallb (fun x => memn x (c_ev c)) xs = true).
  { apply forallb_forall. intros x Hx. apply memn_In. apply Hi. exact Hx. }
  rewrite F. destruct (marg_fold_spec xs c q Hw Hn Hi Hs Hq) as (q' & Hq' & Hw' & Hs' & Hv' & He').
  eexists. split; [reflexivity|]. destruct Hw' as (A & B & C & D).
  split; [|split; [|split]]; simpl; auto.
  - repeat split; simpl; auto. rewrite Forall_forall in *. intros col Hc. apply in_map_iff in Hc.
    destruct Hc as [c0 [Hq0 Hc0]]. subst col. unfold norm_col. rewrite map_length. apply D. exact Hc0.
  - unfold cpd_normalised, colsums in *. simpl. rewrite Forall_forall in *. intros col Hc.
    apply in_map_iff in Hc. destruct Hc as [c0 [Hq0 Hc0]]. subst col.
    apply (norm_col_spec (c_vcard (fold_left cpd_marg1 xs c)) q' c0 Hq'). split; [apply D|apply Hs']; exact Hc0.
Qed.
