(* C15: non-vacuity examples for the hypotheses of the theorems in Props.v, and derived corollaries. *)
From Coq Require Import List Bool Arith Lia PeanoNat QArith Qcanon.
From PV Require Import Base.Graph C15.Model C15.ProofsGraph C15.ProofsBN C15.ProofsDJ C15.ProofsRej C15.ProofsCPD
  C15.ProofsCopy C15.ProofsHeap.
Import ListNotations.
Local Open Scope nat_scope.

Lemma q1_neq_q0 : q1 <> q0.
Proof. intros H. apply (f_equal (fun q => Qnum (this q))) in H. vm_compute in H. discriminate. Qed.

(* remove_node: one parent summed out of a normalised CPD *)
Lemma remove_node_cpd c x :
  cpd_wf c -> ~ In (c_var c) (c_ev c) -> cpd_normalised c -> In x (c_ev c) ->
  exists c', cpd_marginalize c [x] = Some c' /\ cpd_wf c' /\ cpd_normalised c' /\ c_var c' = c_var c /\
             (forall y, In y (c_ev c') <-> In y (c_ev c) /\ y <> x).
Proof.
  intros Hw Hv Hn Hx.
  destruct (cpd_marginalize_spec c [x] q1 Hw Hv) as (c' & A & B & C & D & E).
  - constructor; [intros []|constructor].
  - intros y [<-|[]]. exact Hx.
  - exact Hn.
  - exact q1_neq_q0.
  - exists c'. repeat (split; [assumption|]). intros y. rewrite E. simpl. split.
    + intros [P Q]. split; [exact P|]. intros ->. apply Q. left. reflexivity.
    + intros [P Q]. split; [exact P|]. intros [R|[]]. apply Q. symmetry. exact R.
Qed.
(* do: all parents summed out *)
Lemma do_cpd c :
  cpd_wf c -> ~ In (c_var c) (c_ev c) -> cpd_normalised c ->
  exists c', cpd_marginalize c (c_ev c) = Some c' /\ cpd_wf c' /\ cpd_normalised c' /\ c_var c' = c_var c /\
             c_ev c' = [].
Proof.
  intros Hw Hv Hn.
  destruct (cpd_marginalize_spec c (c_ev c) q1 Hw Hv) as (c' & A & B & C & D & E).
  - apply Hw.
  - intros y Hy. exact Hy.
  - exact Hn.
  - exact q1_neq_q0.
  - exists c'. repeat (split; [assumption|]). destruct (c_ev c') as [|y r]; [reflexivity|].
    exfalso. destruct (proj1 (E y) (or_introl eq_refl)) as [P Q]. exact (Q P).
Qed.

Definition half : Qc := Q2Qc (1 # 2).
Definition cpd_root (v : node) : cpd :=
  {| c_var := v; c_vcard := 2; c_ev := []; c_ecard := []; c_cols := [[half; half]] |}.
Definition cpd_child (v p : node) : cpd :=
  {| c_var := v; c_vcard := 2; c_ev := [p]; c_ecard := [2]; c_cols := [[half; half]; [half; half]] |}.
Definition s_do : state := run init [NewBN [(0, 1)] []; AddCpds 0 [cpd_root 0]].
Lemma half_half : colsum [half; half] = q1.
Proof. apply Qc_is_canon. vm_compute. reflexivity. Qed.
Example ex_cpd_hyps :
  cpd_wf (cpd_child 1 0) /\ ~ In (c_var (cpd_child 1 0)) (c_ev (cpd_child 1 0)) /\
  cpd_normalised (cpd_child 1 0) /\ In 0 (c_ev (cpd_child 1 0)).
Proof.
  split; [|split; [|split]].
  - unfold cpd_wf. simpl. split; [reflexivity|]. split; [repeat constructor; intros []|]. split; repeat constructor.
  - simpl. intros [H|[]]. discriminate.
  - repeat constructor; apply half_half.
  - left. reflexivity.
Qed.

(* a reachable state and a rejected single operation (closing a cycle); and the two formerly
   half-executed operations now succeed *)
Example ex_rejected :
  good s_do /\ cells_ok s_do /\ single (AddEdges 0 [(1, 0)] [7]) /\
  snd (step s_do (AddEdges 0 [(1, 0)] [7])) = Err EValue /\
  snd (step s_do (AddEdges 0 [(0, 1)] [7; 8])) = Err EValue /\ snd (step s_do (AddNodes 0 [5] [3] [])) = Err EIndex /\
  snd (step s_do (Do 0 [1] true)) = Ok /\ snd (step s_do (RemoveNodes 0 [0])) = Ok.
Proof.
  assert (I : good s_do /\ cells_ok s_do).
  { apply run_inv; [apply good_init|constructor|]. repeat constructor. simpl. intros []. }
  destruct I. repeat split; auto; try (simpl; lia); vm_compute; reflexivity.
Qed.
(* a history with edges and a copy, for the acyclicity theorem *)
Example ex_history :
  map (fun m => edges (bg m)) (ms (run init [NewBN [(0, 1); (1, 2)] [0]; Copy 0; AddEdges 1 [(2, 0)] [4]; AddEdges 1 [(0, 2); (2, 2)] [4; 5]]))
  = [[(0, 1); (1, 2)]; [(0, 1); (1, 2); (0, 2)]].
Proof. vm_compute. reflexivity. Qed.
Example ex_dbn :
  edges (drun g_empty [DAddEdges [((0, 0), (1, 0)); ((1, 0), (0, 1)); ((1, 0), (0, 0))]])
  = [(0, 2); (1, 3); (2, 1)].
Proof. vm_compute. reflexivity. Qed.
Example ex_jt :
  edges (jrun g_empty [JAddEdges [((0, [0; 1]), (1, [1; 2])); ((1, [1; 2]), (0, [0; 1])); ((2, [2]), (2, [2]))] [1; 2; 3]]) = [(0, 1)].
Proof. vm_compute. reflexivity. Qed.
(* two live models after a copy: the frame theorem's hypotheses are met with b = 0 and an op on 1 *)
Example ex_frame :
  sep (run init [NewBN [(0, 1)] [0]; Copy 0]) /\ target (AddNodes 1 [5] [2] [true]) <> Some 0 /\
  length (ms (run init [NewBN [(0, 1)] [0]; Copy 0])) = 2.
Proof. split; [apply run_sep, sep_init|]. split; [discriminate|vm_compute; reflexivity]. Qed.
