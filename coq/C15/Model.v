(* C15 model: the public editing operations of pgmpy's BayesianNetwork (pgmpy/models/BayesianNetwork.py
   on top of pgmpy/base/DAG.py and networkx.DiGraph), DynamicBayesianNetwork.add_edge and
   JunctionTree.add_edge, as coded now (after the fix: commits 6ab8e3d copy() gives the copy its own latents set, 3ff3f12 do()
   skips nodes without a CPD, 2ac6a55 remove_node marginalises only CPDs that list the node, 1e667dd
   JunctionTree.add_edge rejects u == v, 984e212 remove_cpds deletes the resolved object by identity).
   Executable definitions only.

   Representation choices (all validated by the correspondence run):
   * a networkx DiGraph is a [digraph] whose [nodes] list is the insertion order of G._node and whose
     [edges] list is the global insertion order of the edges; G.successors(u) / G.predecessors(v) /
     G.edges() orders are derived from it exactly as networkx's dict-of-dict storage yields them;
   * mutable Python objects that pgmpy mutates in place or may share (the [latents] set, TabularCPD
     objects) live in explicit heaps; a model holds locations.  [copy()] allocates fresh cells, so that
     "shares no mutable state" is a statement about locations and not true by construction;
   * a TabularCPD is (variable, cardinality, ordered evidence, evidence cardinalities, table) with the
     table stored as the list of COLUMNS of pgmpy's 2-D get_values() (column j = j-th row-major parent
     configuration); entries are exact rationals Qc;
   * exceptions are an enum; an operation that raises keeps whatever it had already mutated. *)
From Coq Require Import List Bool Arith PeanoNat QArith Qcanon.
From PV Require Import Base.Graph.
Import ListNotations.
Local Open Scope nat_scope.

(* ------------------------------------------------------------------ networkx.DiGraph primitives *)
Definition g_empty : digraph := {| nodes := []; edges := [] |}.
Definition g_add_node (g : digraph) (x : node) : digraph :=
  if memn x (nodes g) then g else {| nodes := nodes g ++ [x]; edges := edges g |}.
Definition g_add_edge (g : digraph) (u v : node) : digraph :=
  let g1 := g_add_node (g_add_node g u) v in
  if has_edge g1 u v then g1 else {| nodes := nodes g1; edges := edges g1 ++ [(u, v)] |}.
Definition keep_edge_wo (x : node) (e : node * node) : bool :=
  negb (Nat.eqb (fst e) x) && negb (Nat.eqb (snd e) x).
Definition g_remove_node (g : digraph) (x : node) : digraph :=
  {| nodes := filter (fun y => negb (Nat.eqb y x)) (nodes g);
     edges := filter (keep_edge_wo x) (edges g) |}.
(* remove_edge(p, x) for every predecessor p of x (DAG.do) *)
Definition g_remove_in_edges (g : digraph) (x : node) : digraph :=
  {| nodes := nodes g; edges := filter (fun e => negb (Nat.eqb (snd e) x)) (edges g) |}.
(* networkx remove_edge(u, v) *)
Definition g_remove_edge (g : digraph) (u v : node) : digraph :=
  {| nodes := nodes g; edges := filter (fun e => negb (edge_eqb e (u, v))) (edges g) |}.
(* G.edges(): for u in node order, for v in successor insertion order *)
Definition g_edges_view (g : digraph) : list (node * node) :=
  flat_map (fun u => map (fun v => (u, v)) (children g u)) (nodes g).

(* ------------------------------------------------------------------ errors *)
Inductive err := EValue | EAttr | ENotImpl | ENx | EBadId | EIndex.
Inductive out := Ok | Err (e : err).

(* BayesianNetwork.add_edge on the graph component: None = ValueError *)
Definition bn_add_edge_g (g : digraph) (u v : node) : option digraph :=
  if Nat.eqb u v then None
  else if memn u (nodes g) && memn v (nodes g) && has_path g v u then None
  else Some (g_add_edge g u v).
(* add_edges_from: edge by edge, stops at the first edge that raises, keeps the earlier ones *)
Fixpoint bn_add_edges_g (g : digraph) (es : list (node * node)) : digraph * out :=
  match es with
  | [] => (g, Ok)
  | (u, v) :: r => match bn_add_edge_g g u v with
                   | None => (g, Err EValue)
                   | Some g' => bn_add_edges_g g' r
                   end
  end.

(* the removal methods BayesianNetwork inherits from networkx unchanged: remove_edge (strict: a missing
   edge raises NetworkXError) and remove_edges_from (missing edges are skipped silently) *)
Fixpoint bn_remove_edges_g (g : digraph) (es : list (node * node)) (strict : bool) : digraph * out :=
  match es with
  | [] => (g, Ok)
  | (u, v) :: r => if has_edge g u v then bn_remove_edges_g (g_remove_edge g u v) r strict
                   else if strict then (g, Err ENx) else bn_remove_edges_g g r strict
  end.

(* DAG(ebunch): plain networkx insertion (no per-edge check), then nx.find_cycle *)
Definition dag_init (eb : list (node * node)) : option digraph :=
  let g := fold_left (fun g e => g_add_edge g (fst e) (snd e)) eb g_empty in
  if acyclicb g then Some g else None.

(* ------------------------------------------------------------------ TabularCPD *)
Record cpd := { c_var : node; c_vcard : nat; c_ev : list node; c_ecard : list nat;
                c_cols : list (list Qc) }.
Definition dflt_cpd : cpd := {| c_var := 0; c_vcard := 0; c_ev := []; c_ecard := []; c_cols := [] |}.
Definition c_scope (c : cpd) : list node := c_var c :: c_ev c.

Definition prodl (l : list nat) : nat := fold_right Nat.mul 1 l.
Fixpoint map2 {A B C} (f : A -> B -> C) (a : list A) (b : list B) : list C :=
  match a, b with x :: a', y :: b' => f x y :: map2 f a' b' | _, _ => [] end.
Definition vadd (a b : list Qc) : list Qc := map2 Qcplus a b.
Definition colsum (c : list Qc) : Qc := fold_right Qcplus (Q2Qc 0%Q) c.

(* sum of [d] consecutive blocks of [inner] columns each, added to [acc] *)
Fixpoint blocksum (d inner : nat) (acc l : list (list Qc)) : list (list Qc) :=
  match d with
  | 0 => acc
  | S d' => blocksum d' inner (map2 vadd acc (firstn inner l)) (skipn inner l)
  end.
(* einsum that sums out one parent axis of size d (outer = product of the cardinalities before it,
   inner = after it) from the list of columns in row-major parent order *)
Fixpoint marg_chunks (outer d inner : nat) (l : list (list Qc)) : list (list Qc) :=
  match outer with
  | 0 => []
  | S o => match d with
           | 0 => []
           | S d' => blocksum d' inner (firstn inner l) (skipn inner (firstn (d * inner) l))
           end ++ marg_chunks o d inner (skipn (d * inner) l)
  end.

Fixpoint index_of (x : node) (l : list node) : option nat :=
  match l with
  | [] => None
  | y :: r => if Nat.eqb x y then Some 0 else option_map S (index_of x r)
  end.
Fixpoint remove_at {A} (k : nat) (l : list A) : list A :=
  match l, k with
  | [], _ => []
  | _ :: r, 0 => r
  | y :: r, S k' => y :: remove_at k' r
  end.

(* DiscreteFactor.marginalize([x]) for an evidence variable x (no normalisation) *)
Definition cpd_marg1 (c : cpd) (x : node) : cpd :=
  match index_of x (c_ev c) with
  | None => c
  | Some k =>
      {| c_var := c_var c; c_vcard := c_vcard c;
         c_ev := remove_at k (c_ev c); c_ecard := remove_at k (c_ecard c);
         c_cols := marg_chunks (prodl (firstn k (c_ecard c))) (nth k (c_ecard c) 0)
                               (prodl (skipn (S k) (c_ecard c))) (c_cols c) |}
  end.
Definition norm_col (c : list Qc) : list Qc := let s := colsum c in map (fun x => Qcdiv x s) c.
(* TabularCPD.normalize: cpd / cpd.sum(axis=0) *)
Definition cpd_normalize (c : cpd) : cpd :=
  {| c_var := c_var c; c_vcard := c_vcard c; c_ev := c_ev c; c_ecard := c_ecard c;
     c_cols := map norm_col (c_cols c) |}.
(* TabularCPD.marginalize(xs, inplace=True): None = ValueError (nothing mutated) *)
Definition cpd_marginalize (c : cpd) (xs : list node) : option cpd :=
  if memn (c_var c) xs then None
  else if forallb (fun x => memn x (c_ev c)) xs
       then Some (cpd_normalize (fold_left cpd_marg1 xs c))
       else None.

(* value at a named assignment (used by DiscreteFactor.__eq__, which list.remove calls) *)
Fixpoint ravel (idx card : list nat) : nat :=
  match idx, card with
  | i :: ir, _ :: cr => i * prodl cr + ravel ir cr
  | _, _ => 0
  end.
Definition cpd_get (c : cpd) (asg : node -> nat) : Qc :=
  nth (asg (c_var c)) (nth (ravel (map asg (c_ev c)) (c_ecard c)) (c_cols c) []) (Q2Qc 0%Q).
Fixpoint all_idx (card : list nat) : list (list nat) :=
  match card with
  | [] => [[]]
  | k :: r => flat_map (fun i => map (cons i) (all_idx r)) (seq 0 k)
  end.
Fixpoint asg_of (vars : list node) (idx : list nat) (x : node) : nat :=
  match vars, idx with
  | v :: vr, i :: ir => if Nat.eqb x v then i else asg_of vr ir x
  | _, _ => 0
  end.
Definition card_of (c : cpd) (x : node) : nat := asg_of (c_scope c) (c_vcard c :: c_ecard c) x.
Definition Qc_eqb (a b : Qc) : bool := Qeq_bool (this a) (this b).
Definition Qc_abs (q : Qc) : Qc := if Qle_bool 0 (this q) then q else Qcopp q.
(* numpy.allclose(x, y, atol=1e-8) with its default rtol=1e-5:  |x - y| <= atol + rtol * |y| *)
Definition Qc_close (x y : Qc) : bool :=
  Qle_bool (this (Qc_abs (Qcminus x y)))
           (this (Qcplus (Q2Qc (1 # 100000000)) (Qcmult (Q2Qc (1 # 100000)) (Qc_abs y)))).
(* DiscreteFactor.__eq__ (self = a, other = b) for factors with default state names: same scope set, same
   cardinality per variable, and allclose(other aligned to self, self, atol=1e-8) at every named assignment *)
Definition cpd_feq (a b : cpd) : bool :=
  forallb (fun x => memn x (c_scope b)) (c_scope a) && forallb (fun x => memn x (c_scope a)) (c_scope b)
  && forallb (fun x => Nat.eqb (card_of a x) (card_of b x)) (c_scope a)
  && forallb (fun idx => let asg := asg_of (c_scope a) idx in Qc_close (cpd_get b asg) (cpd_get a asg))
             (all_idx (c_vcard a :: c_ecard a)).

(* ------------------------------------------------------------------ the store *)
(* [bnw] / [bew]: write logs (newest first) of the 'weight' attribute networkx stores for nodes / edges;
   weight 0 stands for None.  The attribute of an existing node or edge is the newest entry for it. *)
Record bn := { bg : digraph; blat : nat; bcpds : list nat;
               bnw : list (node * nat); bew : list (node * node * nat) }.
Record state := { hl : list (list node); hc : list cpd; ms : list bn }.
Definition init : state := {| hl := []; hc := []; ms := [] |}.

Fixpoint upd {A} (l : list A) (i : nat) (x : A) : list A :=
  match l, i with
  | [], _ => []
  | _ :: r, 0 => x :: r
  | y :: r, S i' => y :: upd r i' x
  end.
Definition get_l (s : state) (l : nat) : list node := nth l (hl s) [].
Definition get_c (s : state) (l : nat) : cpd := nth l (hc s) dflt_cpd.
Definition set_hl (s : state) (h : list (list node)) : state := {| hl := h; hc := hc s; ms := ms s |}.
Definition set_hc (s : state) (h : list cpd) : state := {| hl := hl s; hc := h; ms := ms s |}.
Definition set_ms (s : state) (m : list bn) : state := {| hl := hl s; hc := hc s; ms := m |}.
Definition set_bg (m : bn) (g : digraph) : bn :=
  {| bg := g; blat := blat m; bcpds := bcpds m; bnw := bnw m; bew := bew m |}.
Definition set_blat (m : bn) (l : nat) : bn :=
  {| bg := bg m; blat := l; bcpds := bcpds m; bnw := bnw m; bew := bew m |}.
Definition set_bcpds (m : bn) (c : list nat) : bn :=
  {| bg := bg m; blat := blat m; bcpds := c; bnw := bnw m; bew := bew m |}.
Definition log_nw (m : bn) (w : list (node * nat)) : bn :=
  {| bg := bg m; blat := blat m; bcpds := bcpds m; bnw := w ++ bnw m; bew := bew m |}.
Definition log_ew (m : bn) (w : list (node * node * nat)) : bn :=
  {| bg := bg m; blat := blat m; bcpds := bcpds m; bnw := bnw m; bew := w ++ bew m |}.
Definition set_add (x : node) (l : list node) : list node := if memn x l then l else l ++ [x].

(* get_cpds(node): None = ValueError (node not in graph); Some None = returns None *)
Definition get_cpds (s : state) (m : bn) (x : node) : option (option nat) :=
  if memn x (nodes (bg m))
  then Some (find (fun l => Nat.eqb (c_var (get_c s l)) x) (bcpds m))
  else None.

(* add_node(x, latent) *)
Definition m_add_node (s : state) (m : bn) (xl : node * bool) : state * bn :=
  let (x, latent) := xl in
  let s' := if latent then set_hl s (upd (hl s) (blat m) (set_add x (get_l s (blat m)))) else s in
  (s', set_bg m (g_add_node (bg m) x)).
Fixpoint m_add_nodes (s : state) (m : bn) (xs : list (node * bool)) : state * bn :=
  match xs with
  | [] => (s, m)
  | xl :: r => let (s', m') := m_add_node s m xl in m_add_nodes s' m' r
  end.

(* one CPD of add_cpds: scope check, then replace the CPD of the same variable or append *)
Fixpoint replace_or_append (s : state) (ls : list nat) (v : node) (nl : nat) : list nat :=
  match ls with
  | [] => [nl]
  | l :: r => if Nat.eqb (c_var (get_c s l)) v then nl :: r else l :: replace_or_append s r v nl
  end.
Definition m_add_cpd (s : state) (m : bn) (c : cpd) : option (state * bn) :=
  if forallb (fun x => memn x (nodes (bg m))) (c_scope c)
  then let nl := length (hc s) in
       Some (set_hc s (hc s ++ [c]), set_bcpds m (replace_or_append s (bcpds m) (c_var c) nl))
  else None.
Fixpoint m_add_cpds (s : state) (m : bn) (cs : list cpd) : state * bn * out :=
  match cs with
  | [] => (s, m, Ok)
  | c :: r => match m_add_cpd s m c with
              | None => (s, m, Err EValue)
              | Some (s', m') => m_add_cpds s' m' r
              end
  end.

(* remove_cpds (since 984e212): the argument is resolved with get_cpds unless it is a factor object, and
   THAT object is deleted by identity; list.remove (value comparison with DiscreteFactor.__eq__) is only
   the fall-back for a CPD object that is not in the list *)
Fixpoint remove_loc (t : nat) (ls : list nat) : list nat :=
  match ls with
  | [] => []
  | l :: r => if Nat.eqb l t then r else l :: remove_loc t r
  end.
(* remove_cpds(name): None = ValueError *)
Definition m_remove_cpd (s : state) (m : bn) (x : node) : option bn :=
  match get_cpds s m x with
  | None => None
  | Some None => None            (* list.remove(None): x not in list *)
  | Some (Some l) => Some (set_bcpds m (remove_loc l (bcpds m)))
  end.
Fixpoint m_remove_cpds (s : state) (m : bn) (xs : list node) : bn * out :=
  match xs with
  | [] => (m, Ok)
  | x :: r => match m_remove_cpd s m x with
              | None => (m, Err EValue)
              | Some m' => m_remove_cpds s m' r
              end
  end.
(* remove_cpds(obj) for a CPD object that is not one of the model's objects: list.remove(obj), i.e. the
   first element e with e == obj; None = ValueError (x not in list) *)
Fixpoint list_remove_val (s : state) (c : cpd) (ls : list nat) : option (list nat) :=
  match ls with
  | [] => None
  | l :: r => if cpd_feq (get_c s l) c then Some r
              else option_map (cons l) (list_remove_val s c r)
  end.
Fixpoint m_remove_cpd_objs (s : state) (m : bn) (cs : list cpd) : bn * out :=
  match cs with
  | [] => (m, Ok)
  | c :: r => match list_remove_val s c (bcpds m) with
              | None => (m, Err EValue)
              | Some ls => m_remove_cpd_objs s (set_bcpds m ls) r
              end
  end.

(* remove_node: first loop — marginalise the node out of its children's CPDs, in place *)
Fixpoint marg_children (s : state) (m : bn) (x : node) (chs : list node) : state * out :=
  match chs with
  | [] => (s, Ok)
  | c :: r => match get_cpds s m c with
              | None => (s, Err EValue)
              | Some None => marg_children s m x r
              | Some (Some l) =>
                  (* since 2ac6a55: only when the removed node is among the CPD's parents *)
                  if memn x (c_ev (get_c s l))
                  then match cpd_marginalize (get_c s l) [x] with
                       | None => (s, Err EValue)
                       | Some c' => marg_children (set_hc s (upd (hc s) l c')) m x r
                       end
                  else marg_children s m x r
              end
  end.
Definition m_remove_node (s : state) (m : bn) (x : node) : state * bn * out :=
  let (s1, o) := marg_children s m x (children (bg m) x) in
  match o with
  | Err e => (s1, m, Err e)
  | Ok =>
      match get_cpds s1 m x with
      | None => (s1, m, Err EValue)
      | Some oc =>
          let m1 := match oc with
                    | None => m
                    | Some l => set_bcpds m (remove_loc l (bcpds m))
                    end in
          (* self.latents = self.latents - {node}: a NEW set object *)
          let nl := length (hl s1) in
          let s2 := set_hl s1 (hl s1 ++ [filter (fun y => negb (Nat.eqb y x)) (get_l s1 (blat m))]) in
          (* networkx forgets the node's attributes: a node re-created by add_edge has no weight *)
          (s2, log_nw (set_bg (set_blat m1 nl) (g_remove_node (bg m) x)) [(x, 0)], Ok)
      end
  end.
Fixpoint m_remove_nodes (s : state) (m : bn) (xs : list node) : state * bn * out :=
  match xs with
  | [] => (s, m, Ok)
  | x :: r => match m_remove_node s m x with
              | (s', m', Ok) => m_remove_nodes s' m' r
              | res => res
              end
  end.

(* copy(): fresh graph built through add_nodes_from / add_edges_from (with the cycle check),
   fresh CPD objects through add_cpds, fresh latents set.  None = ValueError *)
Definition copy_model (s : state) (m : bn) : option (state * bn) :=
  let g0 := fold_left g_add_node (nodes (bg m)) g_empty in
  match bn_add_edges_g g0 (g_edges_view (bg m)) with
  | (_, Err _) => None
  | (g1, Ok) =>
      (* the new model's own default latents set, replaced at the end by set(self.latents) *)
      (* add_nodes_from(self.nodes()) / add_edges_from(self.edges()): the copy carries no weights *)
      let m0 := {| bg := g1; blat := length (hl s) + 1; bcpds := [];
                   bnw := map (fun x => (x, 0)) (nodes (bg m));
                   bew := map (fun e => (fst e, snd e, 0)) (g_edges_view (bg m)) |} in
      match m_add_cpds s m0 (map (get_c s) (bcpds m)) with
      | (_, _, Err _) => None
      | (s1, m1, Ok) =>
          Some (set_hl s1 (hl s1 ++ [[]; get_l s1 (blat m)]), m1)
      end
  end.

(* BayesianNetwork.do: second part, on the adjusted model *)
Fixpoint do_cpds (s : state) (m : bn) (xs : list node) : state * out :=
  match xs with
  | [] => (s, Ok)
  | x :: r => match get_cpds s m x with
              | None => (s, Err EValue)
              | Some None => do_cpds s m r          (* since 3ff3f12: nodes without a CPD are skipped *)
              | Some (Some l) =>
                  let c := get_c s l in
                  match cpd_marginalize c (c_ev c) with
                  | None => (s, Err EValue)
                  | Some c' => do_cpds (set_hc s (upd (hc s) l c')) m r
                  end
              end
  end.
Definition m_do_on (s : state) (m : bn) (xs : list node) : state * bn * out :=
  let m' := set_bg m (fold_left g_remove_in_edges xs (bg m)) in
  match bcpds m' with
  | [] => (s, m', Ok)
  | _ => let (s', o) := do_cpds s m' xs in (s', m', o)
  end.

(* get_random_cpds: structure + the draw stream of numpy's default_rng(42).random((r, ncol)) *)
Fixpoint lookup (ns : list (node * nat)) (x : node) : nat :=
  match ns with
  | [] => 0
  | (y, k) :: r => if Nat.eqb x y then k else lookup r x
  end.
Definition rand_cpd (g : digraph) (ns : list (node * nat)) (draws : list Qc) (x : node) : cpd :=
  let ps := parents g x in
  let r := lookup ns x in
  let pc := map (lookup ns) ps in
  let ncol := prodl pc in
  {| c_var := x; c_vcard := r; c_ev := ps; c_ecard := pc;
     c_cols := map (fun c => norm_col (map (fun i => nth (i * ncol + c) draws (Q2Qc 0%Q)) (seq 0 r)))
                   (seq 0 ncol) |}.

(* ------------------------------------------------------------------ operations *)
Inductive op :=
| NewBN (eb : list (node * node)) (lat : list node)          (* BayesianNetwork(ebunch, latents) *)
(* add_node(x, weight, latent) / add_nodes_from(xs, weights, latent): ws = [] stands for weights=None (or
   any falsy value), lat is the latent flag per node (a bool is expanded by the caller) and may be too short *)
| AddNodes (a : nat) (xs : list node) (ws : list nat) (lat : list bool)
(* add_edge(u, v, weight) / add_edges_from(es, weights) *)
| AddEdges (a : nat) (es : list (node * node)) (ws : list nat)
| RemoveEdges (a : nat) (es : list (node * node)) (strict : bool)   (* remove_edge / remove_edges_from (networkx) *)
| RemoveNodes (a : nat) (xs : list node)                     (* remove_node / remove_nodes_from *)
| AddCpds (a : nat) (cs : list cpd)
| RemoveCpds (a : nat) (xs : list node)
| RemoveCpdObjs (a : nat) (cs : list cpd)                    (* remove_cpds(obj) with foreign objects *)
| Do (a : nat) (xs : list node) (inplace : bool)
| Copy (a : nat)
| RandomCpds (a : nat) (isdict : bool) (ns : list (node * nat)) (draws : list Qc) (inplace : bool).

(* `if weights:` then `len(...) != len(weights)` -> ValueError *)
Definition wlen_bad (n : nat) (ws : list nat) : bool :=
  match ws with [] => false | _ => negb (Nat.eqb n (length ws)) end.
(* the edges add_edges_from really added before the first rejected one *)
Fixpoint added_prefix (g : digraph) (es : list (node * node)) : list (node * node) :=
  match es with
  | [] => []
  | (u, v) :: r => match bn_add_edge_g g u v with
                   | None => []
                   | Some g' => (u, v) :: added_prefix g' r
                   end
  end.
Definition commit (s : state) (a : nat) (m : bn) : state := set_ms s (upd (ms s) a m).
Definition push (s : state) (m : bn) : state := set_ms s (ms s ++ [m]).
Definition subsetb (a b : list node) : bool := forallb (fun x => memn x b) a.
Fixpoint dedupn (l : list node) : list node :=
  match l with [] => [] | x :: r => if memn x r then dedupn r else x :: dedupn r end.

Definition step (s : state) (o : op) : state * out :=
  match o with
  | NewBN eb lat =>
      match bn_add_edges_g g_empty eb with
      | (_, Err _) => (s, Err ENx)          (* networkx wraps the ValueError of add_edge *)
      | (g, Ok) =>
          if acyclicb g
          then (push (set_hl s (hl s ++ [dedupn lat]))
                     {| bg := g; blat := length (hl s); bcpds := []; bnw := []; bew := map (fun e => (fst e, snd e, 0)) eb |}, Ok)
          else (s, Err EValue)
      end
  | AddNodes a xs ws lat =>
      match nth_error (ms s) a with
      | None => (s, Err EBadId)
      | Some m =>
          if wlen_bad (length xs) ws then (s, Err EValue)      (* checked before anything is added *)
          else
            (* node i needs latent[i]: IndexError at the first missing flag, earlier nodes stay *)
            let xl := combine xs lat in
            let (s', m') := m_add_nodes s m xl in
            (commit s' a (log_nw m' (rev (combine (map fst xl) (ws ++ repeat 0 (length xl))))),
             if Nat.ltb (length lat) (length xs) then Err EIndex else Ok)
      end
  | AddEdges a es ws =>
      match nth_error (ms s) a with
      | None => (s, Err EBadId)
      | Some m =>
          if wlen_bad (length es) ws then (s, Err EValue)
          else
            let (g', o) := bn_add_edges_g (bg m) es in
            let done := added_prefix (bg m) es in
            (commit s a (log_ew (set_bg m g')
                           (rev (map (fun ew => (fst (fst ew), snd (fst ew), snd ew))
                                     (combine done (ws ++ repeat 0 (length done)))))), o)
      end
  | RemoveEdges a es strict =>
      match nth_error (ms s) a with
      | None => (s, Err EBadId)
      | Some m => let (g', o) := bn_remove_edges_g (bg m) es strict in (commit s a (set_bg m g'), o)
      end
  | RemoveNodes a xs =>
      match nth_error (ms s) a with
      | None => (s, Err EBadId)
      | Some m => match m_remove_nodes s m xs with (s', m', o) => (commit s' a m', o) end
      end
  | AddCpds a cs =>
      match nth_error (ms s) a with
      | None => (s, Err EBadId)
      | Some m => match m_add_cpds s m cs with (s', m', o) => (commit s' a m', o) end
      end
  | RemoveCpds a xs =>
      match nth_error (ms s) a with
      | None => (s, Err EBadId)
      | Some m => let (m', o) := m_remove_cpds s m xs in (commit s a m', o)
      end
  | RemoveCpdObjs a cs =>
      match nth_error (ms s) a with
      | None => (s, Err EBadId)
      | Some m => let (m', o) := m_remove_cpd_objs s m cs in (commit s a m', o)
      end
  | Do a xs inplace =>
      match nth_error (ms s) a with
      | None => (s, Err EBadId)
      | Some m =>
          if negb (subsetb xs (nodes (bg m))) then (s, Err EValue)
          else if inplace
               then match m_do_on s m xs with (s', m', o) => (commit s' a m', o) end
               else (* model = self.copy(); DAG.do copies it once more *)
                 match copy_model s m with
                 | None => (s, Err EValue)
                 | Some (s1, m1) =>
                     match copy_model s1 m1 with
                     | None => (s, Err EValue)
                     | Some (s2, m2) =>
                         match m_do_on s2 m2 xs with
                         | (s3, m3, Ok) => (push s3 m3, Ok)
                         | (_, _, Err e) => (s, Err e)   (* the local copies are dropped *)
                         end
                     end
                 end
      end
  | Copy a =>
      match nth_error (ms s) a with
      | None => (s, Err EBadId)
      | Some m => match copy_model s m with
                  | None => (s, Err EValue)
                  | Some (s', m') => (push s' m', Ok)
                  end
      end
  | RandomCpds a isdict ns draws inplace =>
      match nth_error (ms s) a with
      | None => (s, Err EBadId)
      | Some m =>
          if isdict && negb (subsetb (map fst ns) (nodes (bg m)) && subsetb (nodes (bg m)) (map fst ns))
          then (s, Err EValue)
          else if inplace
               then match m_add_cpds s m (map (rand_cpd (bg m) ns draws) (nodes (bg m))) with
                    | (s', m', o) => (commit s' a m', o)
                    end
               else match copy_model s m with
                    | None => (s, Err EValue)
                    | Some (s1, m1) =>
                        match m_add_cpds s1 m1 (map (rand_cpd (bg m1) ns draws) (nodes (bg m1))) with
                        | (s2, m2, Ok) => (push s2 m2, Ok)
                        | (_, _, Err e) => (s, Err e)
                        end
                    end
      end
  end.

Definition run (s : state) (ops : list op) : state := fold_left (fun s o => fst (step s o)) ops s.

(* observable content of one model *)
Definition obs_model (s : state) (m : bn) : digraph * list node * list cpd :=
  (bg m, get_l s (blat m), map (get_c s) (bcpds m)).
Definition obs (s : state) : list (digraph * list node * list cpd) := map (obs_model s) (ms s).

(* ------------------------------------------------------------------ DynamicBayesianNetwork *)
(* node (name a, slice t in {0,1}) is the number 2a+t *)
Definition dn (a t : nat) : node := 2 * a + t.
Inductive dop :=
| DAddNodes (xs : list nat)                                   (* add_node(name): adds (name, 0) *)
| DAddEdges (es : list ((nat * nat) * (nat * nat))).          (* ((a, s), (b, t)) *)

(* slice normalisation of add_edge *)
Definition dbn_norm (s t : nat) : (nat * nat) + err :=
  if Nat.eqb s t then inl (0, 0)
  else if Nat.eqb (S s) t then inl (0, 1)
  else if Nat.ltb t s then inr ENotImpl
  else inr EValue.
Definition dbn_add_edge (g : digraph) (e : (nat * nat) * (nat * nat)) : digraph * out :=
  let '((a, s), (b, t)) := e in
  match dbn_norm s t with
  | inr er => (g, Err er)
  | inl (s0, t0) =>
      let u := dn a s0 in let v := dn b t0 in
      if Nat.eqb u v then (g, Err EValue)
      else if memn u (nodes g) && memn v (nodes g) && has_path g v u then (g, Err EValue)
      else let g1 := g_add_edge g u v in
           if Nat.eqb s0 t0
           then (g_add_edge g1 (dn a (1 - s0)) (dn b (1 - t0)), Ok)
           else (g_add_node g1 (dn b (1 - t0)), Ok)
  end.
Fixpoint dbn_add_edges (g : digraph) (es : list ((nat * nat) * (nat * nat))) : digraph * out :=
  match es with
  | [] => (g, Ok)
  | e :: r => match dbn_add_edge g e with
              | (g', Ok) => dbn_add_edges g' r
              | res => res
              end
  end.
Definition dstep (g : digraph) (o : dop) : digraph * out :=
  match o with
  | DAddNodes xs => (fold_left (fun g a => g_add_node g (dn a 0)) xs g, Ok)
  | DAddEdges es => dbn_add_edges g es
  end.
Definition drun (g : digraph) (ops : list dop) : digraph := fold_left (fun g o => fst (dstep g o)) ops g.

(* DynamicBayesianNetwork.add_cpds(cpd, ...): every argument is validated first (scope inside the node set),
   only then are all of them stored: a rejected call stores nothing.  A CPD is (identifier, scope). *)
Definition dbn_add_cpds (g : digraph) (cs new : list (nat * list node)) : list (nat * list node) * out :=
  if forallb (fun c => forallb (fun x => memn x (nodes g)) (snd c)) new
  then (cs ++ new, Ok) else (cs, Err EValue).

(* ------------------------------------------------------------------ JunctionTree *)
(* an undirected networkx Graph: [edges] holds each edge once, as inserted; traversals use both
   orientations.  A clique node is interned to a nat; its variable list travels with the operation. *)
Definition sym (g : digraph) : digraph :=
  {| nodes := nodes g; edges := edges g ++ map (fun e => (snd e, fst e)) (edges g) |}.
Definition disjointb (a b : list nat) : bool := forallb (fun x => negb (memn x b)) a.
Inductive jop :=
| JAddNodes (xs : list nat)
| JAddEdges (es : list ((nat * list nat) * (nat * list nat))) (ws : list nat).   (* ((u, vars u), (v, vars v)); weights *)
Definition jt_add_edge (g : digraph) (e : (nat * list nat) * (nat * list nat)) : digraph * out :=
  let '((u, cu), (v, cv)) := e in
  (* since 1e667dd: u == v is rejected first *)
  if Nat.eqb u v || (memn u (nodes g) && memn v (nodes g) && has_path (sym g) u v) then (g, Err EValue)
  else if disjointb cu cv then (g, Err EValue)          (* ClusterGraph.add_edge: no sepset *)
  else (g_add_edge g u v, Ok).
Fixpoint jt_add_edges (g : digraph) (es : list ((nat * list nat) * (nat * list nat))) : digraph * out :=
  match es with
  | [] => (g, Ok)
  | e :: r => match jt_add_edge g e with
              | (g', Ok) => jt_add_edges g' r
              | res => res
              end
  end.
Definition jstep (g : digraph) (o : jop) : digraph * out :=
  match o with
  | JAddNodes xs => (fold_left g_add_node xs g, Ok)
  | JAddEdges es ws => if wlen_bad (length es) ws then (g, Err EValue) else jt_add_edges g es
  end.
Definition jrun (g : digraph) (ops : list jop) : digraph := fold_left (fun g o => fst (jstep g o)) ops g.
