(* C15: copy() allocates fresh heap cells for the latents set and for every CPD object, leaves the
   existing cells untouched, and the copy holds the same latents and CPD values. *)
From Coq Require Import List Bool Arith Lia PeanoNat QArith Qcanon.
From PV Require Import Base.Graph C15.Model C15.ProofsGraph C15.ProofsBN.
Import ListNotations.
Local Open Scope nat_scope.

Lemma roa_Forall (P : nat -> Prop) s v nl : forall ls,
  Forall P ls -> P nl -> Forall P (replace_or_append s ls v nl).
Proof.
  induction ls as [|l r IH]; intros H Hn; simpl; [constructor; [exact Hn|constructor]|].
  inversion H; subst. destruct (Nat.eqb _ v); constructor; auto.
Qed.

Lemma m_add_cpds_fresh n cs : forall s m s' m' o,
  m_add_cpds s m cs = (s', m', o) -> n <= length (hc s) -> Forall (fun l => n <= l) (bcpds m) ->
  (exists ext, hc s' = hc s ++ ext) /\ Forall (fun l => n <= l) (bcpds m').
Proof.
  induction cs as [|c r IH]; intros s m s' m' o H Hn Hf; simpl in H.
  - inversion H; subst. split; [exists []; rewrite app_nil_r; reflexivity|exact Hf].
  - unfold m_add_cpd in H. destruct (forallb _ (c_scope c)).
    + apply IH in H.
      * destruct H as [[ext He] Hf']. simpl in He. split; [|exact Hf'].
        exists ([c] ++ ext). rewrite He, <- app_assoc. reflexivity.
      * simpl. rewrite app_length. lia.
      * simpl. apply roa_Forall; [exact Hf|exact Hn].
    + inversion H; subst. split; [exists []; rewrite app_nil_r; reflexivity|exact Hf].
Qed.

Lemma copy_model_fresh s m s' m' :
  copy_model s m = Some (s', m') ->
  hl s' = hl s ++ [[]; get_l s (blat m)] /\ blat m' = length (hl s) + 1 /\
  get_l s' (blat m') = get_l s (blat m) /\
  (exists ext, hc s' = hc s ++ ext) /\ Forall (fun l => length (hc s) <= l) (bcpds m').
Proof.
  unfold copy_model.
  destruct (bn_add_edges_g (fold_left g_add_node (nodes (bg m)) g_empty) (g_edges_view (bg m))) as [g1 o1] eqn:E.
  destruct o1; [|discriminate].
  destruct (m_add_cpds s _ (map (get_c s) (bcpds m))) as [[s1 m1] o2] eqn:E2.
  destruct o2; [|discriminate]. intros H. inversion H; subst. clear H.
  pose proof (m_add_cpds_spec _ _ _ _ _ _ E2) as (A & B & C & D).
  pose proof (m_add_cpds_fresh (length (hc s)) _ _ _ _ _ _ E2 (le_n _) (Forall_nil _)) as [X F].
  simpl in *. unfold get_l. simpl. rewrite B, D. simpl.
  split; [reflexivity|]. split; [reflexivity|]. split.
  - rewrite app_nth2; [|lia]. replace (length (hl s) + 1 - length (hl s)) with 1 by lia. reflexivity.
  - split; [exact X|exact F].
Qed.
