(* C15: heap discipline of the store machine.  Every helper touches only the cells owned by the model it
   works on (its latents cell, its CPD cells) or freshly allocated cells; distinct live models own
   disjoint cells (separation invariant); hence an operation addressed to one model leaves the observable
   content of every other live model unchanged. *)
From Coq Require Import List Bool Arith Lia PeanoNat QArith Qcanon.
From PV Require Import Base.Graph C15.Model C15.ProofsGraph C15.ProofsBN.
Import ListNotations.
Local Open Scope nat_scope.

Lemma nth_upd_ne {A} (l : list A) i j x d : i <> j -> nth j (upd l i x) d = nth j l d.
Proof.
  revert i j. induction l as [|y t IH]; intros [|i] [|j] H; simpl; auto; try lia; try (apply IH; lia).
Qed.
Lemma nth_upd_eq {A} (l : list A) i x d : i < length l -> nth i (upd l i x) d = x.
Proof. revert i. induction l as [|y t IH]; intros [|i] H; simpl in *; auto; try lia; try (apply IH; lia). Qed.

Definition own_l (s : state) (m : bn) : Prop := blat m < length (hl s).
Definition own_c (s : state) (m : bn) : Prop := Forall (fun l => l < length (hc s)) (bcpds m).
Definition owned (s : state) (m : bn) : Prop := own_l s m /\ own_c s m.

Record ext_for (m : bn) (s s' : state) (m' : bn) : Prop := {
  e_ms : ms s' = ms s;
  e_ll : length (hl s) <= length (hl s');
  e_lc : length (hc s) <= length (hc s');
  e_fl : forall l, l < length (hl s) -> l <> blat m -> get_l s' l = get_l s l;
  e_fc : forall l, l < length (hc s) -> ~ In l (bcpds m) -> get_c s' l = get_c s l;
  e_lat : blat m' = blat m \/ length (hl s) <= blat m';
  e_cp : forall l, In l (bcpds m') -> In l (bcpds m) \/ length (hc s) <= l;
  e_ol : own_l s m -> own_l s' m';
  e_oc : own_c s m -> own_c s' m' }.

Lemma ext_refl m s : ext_for m s s m.
Proof. constructor; auto. Qed.
Lemma ext_same_cells m s m' : blat m' = blat m -> bcpds m' = bcpds m -> ext_for m s s m'.
Proof.
  intros A B. constructor; auto; unfold own_l, own_c; try rewrite A; try rewrite B; auto;
    try (intros l H; rewrite B in H; auto).
Qed.
Lemma ext_trans m s m1 s1 m2 s2 : ext_for m s s1 m1 -> ext_for m1 s1 s2 m2 -> ext_for m s s2 m2.
Proof.
  intros [a1 a2 a3 a4 a5 a6 a7 a8 a9] [b1 b2 b3 b4 b5 b6 b7 b8 b9]. constructor.
  - congruence.
  - lia.
  - lia.
  - intros l Hl Hn. rewrite b4; [apply a4; assumption|lia|]. destruct a6 as [E|E]; [congruence|lia].
  - intros l Hl Hn. rewrite b5; [apply a5; assumption|lia|]. intros Hi. destruct (a7 l Hi); [contradiction|lia].
  - destruct b6 as [E|E]; [rewrite E; exact a6|right; lia].
  - intros l Hi. destruct (b7 l Hi) as [K|K]; [exact (a7 l K)|right; lia].
  - auto.
  - auto.
Qed.

(* ---------------------------------------------------------------- helpers are extensions *)
Lemma ext_add_node s m xl s' m' : m_add_node s m xl = (s', m') -> ext_for m s s' m'.
Proof.
  destruct xl as [x lt]. unfold m_add_node. intros H. inversion H; subst. clear H.
  destruct lt; [|apply ext_same_cells; reflexivity].
  constructor; (simpl; unfold own_l, own_c, get_l, get_c; simpl).
  - reflexivity.
  - rewrite upd_length. lia.
  - lia.
  - intros l Hl Hn. apply nth_upd_ne. congruence.
  - auto.
  - auto.
  - auto.
  - rewrite upd_length. auto.
  - auto.
Qed.
Lemma ext_add_nodes xs : forall s m s' m', m_add_nodes s m xs = (s', m') -> ext_for m s s' m'.
Proof.
  induction xs as [|xl r IH]; intros s m s' m' H; simpl in H.
  - inversion H; subst. apply ext_refl.
  - destruct (m_add_node s m xl) as [s1 m1] eqn:E. eapply ext_trans; [eapply ext_add_node; exact E|apply IH; exact H].
Qed.

Lemma roa_In s v nl : forall ls l, In l (replace_or_append s ls v nl) -> In l ls \/ l = nl.
Proof.
  induction ls as [|y r IH]; intros l H; simpl in H.
  - destruct H as [H|[]]. auto.
  - destruct (Nat.eqb _ v); destruct H as [H|H]; subst; simpl; auto.
    destruct (IH l H); auto.
Qed.
Lemma ext_add_cpd s m c s' m' : m_add_cpd s m c = Some (s', m') -> ext_for m s s' m'.
Proof.
  unfold m_add_cpd. destruct (forallb _ _); [|discriminate]. intros H. inversion H; subst. clear H.
  constructor; (simpl; unfold own_l, own_c, get_l, get_c; simpl).
  - reflexivity.
  - lia.
  - rewrite app_length. lia.
  - auto.
  - intros l Hl _. apply app_nth1. exact Hl.
  - auto.
  - intros l Hi. apply roa_In in Hi. destruct Hi; [auto|right; lia].
  - auto.
  - intros Ho. rewrite Forall_forall in *. intros l Hi. apply roa_In in Hi. rewrite app_length. simpl.
    destruct Hi as [Hi|Hi]; [specialize (Ho l Hi); lia|lia].
Qed.
Lemma ext_add_cpds cs : forall s m s' m' o, m_add_cpds s m cs = (s', m', o) -> ext_for m s s' m'.
Proof.
  induction cs as [|c r IH]; intros s m s' m' o H; simpl in H.
  - inversion H; subst. apply ext_refl.
  - destruct (m_add_cpd s m c) as [[s1 m1]|] eqn:E.
    + eapply ext_trans; [eapply ext_add_cpd; exact E|eapply IH; exact H].
    + inversion H; subst. apply ext_refl.
Qed.

Lemma lre_In t : forall ls l, In l (remove_loc t ls) -> In l ls.
Proof.
  induction ls as [|y r IH]; intros l H; simpl in H; [exact H|].
  destruct (Nat.eqb y t); [right; exact H|]. destruct H as [H|H]; [left; exact H|right; apply IH; exact H].
Qed.
Lemma lrv_In s c : forall ls ls' l, list_remove_val s c ls = Some ls' -> In l ls' -> In l ls.
Proof.
  induction ls as [|y r IH]; intros ls' l H Hi; simpl in H; [discriminate|].
  destruct (cpd_feq (get_c s y) c); [inversion H; subst; right; exact Hi|].
  destruct (list_remove_val s c r) as [r'|] eqn:E; [|discriminate]. simpl in H. inversion H; subst.
  destruct Hi as [Hi|Hi]; [left; exact Hi|right; eapply IH; eauto].
Qed.
Lemma ext_sub_cells m s m' : blat m' = blat m -> (forall l, In l (bcpds m') -> In l (bcpds m)) -> ext_for m s s m'.
Proof.
  intros A B. constructor; auto; unfold own_l, own_c; try rewrite A; auto.
  intros Ho. rewrite Forall_forall in *. intros l Hi. apply Ho, B, Hi.
Qed.
Lemma ext_remove_cpds xs : forall s m m' o, m_remove_cpds s m xs = (m', o) -> ext_for m s s m'.
Proof.
  induction xs as [|x r IH]; intros s m m' o H; simpl in H.
  - inversion H; subst. apply ext_refl.
  - destruct (m_remove_cpd s m x) as [m1|] eqn:E.
    + eapply ext_trans; [|eapply IH; exact H]. unfold m_remove_cpd in E.
      destruct (get_cpds s m x) as [[l|]|]; try discriminate. inversion E; subst.
      apply ext_sub_cells; [reflexivity|]. simpl. apply lre_In.
    + inversion H; subst. apply ext_refl.
Qed.

Lemma ext_remove_cpd_objs cs : forall s m m' o, m_remove_cpd_objs s m cs = (m', o) -> ext_for m s s m'.
Proof.
  induction cs as [|c r IH]; intros s m m' o H; simpl in H.
  - inversion H; subst. apply ext_refl.
  - destruct (list_remove_val s c (bcpds m)) as [ls|] eqn:E.
    + eapply ext_trans; [|eapply IH; exact H].
      apply ext_sub_cells; [reflexivity|]. simpl. intros l Hl. eapply lrv_In; eauto.
    + inversion H; subst. apply ext_refl.
Qed.
Lemma get_cpds_In s m x l : get_cpds s m x = Some (Some l) -> In l (bcpds m) /\ c_var (get_c s l) = x.
Proof.
  unfold get_cpds. destruct (memn x (nodes (bg m))); [|discriminate]. intros H. inversion H as [F].
  apply find_some in F. destruct F as [A B]. apply Nat.eqb_eq in B. auto.
Qed.
Lemma ext_upd_cell s m l c' : In l (bcpds m) -> ext_for m s (set_hc s (upd (hc s) l c')) m.
Proof.
  intros Hi. constructor; (simpl; unfold own_l, own_c, get_l, get_c; simpl).
  - reflexivity.
  - lia.
  - rewrite upd_length. lia.
  - auto.
  - intros l0 Hl Hn. apply nth_upd_ne. intros ->. contradiction.
  - auto.
  - auto.
  - auto.
  - rewrite upd_length. auto.
Qed.
Lemma ext_marg_children chs : forall s m x s' o, marg_children s m x chs = (s', o) -> ext_for m s s' m.
Proof.
  induction chs as [|c r IH]; intros s m x s' o H; simpl in H.
  - inversion H; subst. apply ext_refl.
  - destruct (get_cpds s m c) as [[l|]|] eqn:G.
    + destruct (memn x (c_ev (get_c s l))); [|eapply IH; exact H].
      destruct (cpd_marginalize (get_c s l) [x]) as [c'|].
      * eapply ext_trans; [apply (ext_upd_cell s m l c'), (get_cpds_In _ _ _ _ G)|eapply IH; exact H].
      * inversion H; subst. apply ext_refl.
    + eapply IH; exact H.
    + inversion H; subst. apply ext_refl.
Qed.
Lemma ext_remove_node s m x s' m' o : m_remove_node s m x = (s', m', o) -> ext_for m s s' m'.
Proof.
  unfold m_remove_node. destruct (marg_children s m x (children (bg m) x)) as [s1 o1] eqn:E.
  apply ext_marg_children in E. destruct o1; [|intros H; inversion H; subst; exact E].
  destruct (get_cpds s1 m x) as [oc|]; [|intros H; inversion H; subst; exact E].
  intros H. inversion H; subst. clear H. eapply ext_trans; [exact E|].
  constructor; (simpl; unfold own_l, own_c, get_l, get_c; simpl).
  - reflexivity.
  - rewrite app_length. lia.
  - lia.
  - intros l Hl _. apply app_nth1. exact Hl.
  - auto.
  - right. lia.
  - intros l Hi. left. destruct oc as [l0|]; simpl in Hi; [apply lre_In in Hi|]; exact Hi.
  - intros _. rewrite app_length. simpl. lia.
  - intros Ho. rewrite Forall_forall in *. intros l Hi. apply Ho.
    destruct oc as [l0|]; simpl in Hi; [apply lre_In in Hi|]; exact Hi.
Qed.
Lemma ext_remove_nodes xs : forall s m s' m' o, m_remove_nodes s m xs = (s', m', o) -> ext_for m s s' m'.
Proof.
  induction xs as [|x r IH]; intros s m s' m' o H; simpl in H.
  - inversion H; subst. apply ext_refl.
  - destruct (m_remove_node s m x) as [[s1 m1] o1] eqn:E. apply ext_remove_node in E.
    destruct o1; [eapply ext_trans; [exact E|eapply IH; exact H]|inversion H; subst; exact E].
Qed.
Lemma ext_do_cpds xs : forall s m s' o, do_cpds s m xs = (s', o) -> ext_for m s s' m.
Proof.
  induction xs as [|x r IH]; intros s m s' o H; simpl in H.
  - inversion H; subst. apply ext_refl.
  - destruct (get_cpds s m x) as [[l|]|] eqn:G; [|eapply IH; exact H|inversion H; subst; apply ext_refl].
    destruct (cpd_marginalize _ _) as [c'|]; [|inversion H; subst; apply ext_refl].
    eapply ext_trans; [apply (ext_upd_cell s m l c'), (get_cpds_In _ _ _ _ G)|eapply IH; exact H].
Qed.
Lemma ext_do_on s m xs s' m' o : m_do_on s m xs = (s', m', o) -> ext_for m s s' m'.
Proof.
  unfold m_do_on. simpl. destruct (bcpds m) eqn:Eb.
  - intros H. inversion H; subst. apply ext_same_cells; reflexivity.
  - destruct (do_cpds s _ xs) as [s1 o1] eqn:E. intros H. inversion H; subst. clear H.
    apply ext_do_cpds in E. eapply ext_trans; [apply (ext_same_cells m s (set_bg m (fold_left g_remove_in_edges xs (bg m)))); reflexivity|].
    exact E.
Qed.

(* ---------------------------------------------------------------- fresh models *)
Record fresh (s s' : state) (m' : bn) : Prop := {
  f_ms : ms s' = ms s;
  f_ll : length (hl s) <= length (hl s');
  f_lc : length (hc s) <= length (hc s');
  f_fl : forall l, l < length (hl s) -> get_l s' l = get_l s l;
  f_fc : forall l, l < length (hc s) -> get_c s' l = get_c s l;
  f_lat : length (hl s) <= blat m';
  f_cp : forall l, In l (bcpds m') -> length (hc s) <= l;
  f_own : owned s' m' }.

Lemma fresh_ext s s1 m1 s2 m2 : fresh s s1 m1 -> ext_for m1 s1 s2 m2 -> fresh s s2 m2.
Proof.
  intros [a1 a2 a3 a4 a5 a6 a7 [a8 a9]] [b1 b2 b3 b4 b5 b6 b7 b8 b9]. constructor.
  - congruence.
  - lia.
  - lia.
  - intros l Hl. rewrite b4; [apply a4; exact Hl|lia|lia].
  - intros l Hl. rewrite b5; [apply a5; exact Hl|lia|]. intros Hi. specialize (a7 l Hi). lia.
  - destruct b6 as [E|E]; lia.
  - intros l Hi. destruct (b7 l Hi) as [K|K]; [exact (a7 l K)|lia].
  - split; auto.
Qed.
Lemma fresh_copy s m s' m' : copy_model s m = Some (s', m') -> fresh s s' m'.
Proof.
  unfold copy_model.
  destruct (bn_add_edges_g (fold_left g_add_node (nodes (bg m)) g_empty) (g_edges_view (bg m))) as [g1 o1].
  destruct o1; [|discriminate].
  destruct (m_add_cpds s _ (map (get_c s) (bcpds m))) as [[s1 m1] o2] eqn:E2.
  destruct o2; [|discriminate]. intros H. inversion H; subst. clear H.
  pose proof (m_add_cpds_spec _ _ _ _ _ _ E2) as (A & B & C & D).
  apply ext_add_cpds in E2. destruct E2 as [b1 b2 b3 b4 b5 b6 b7 b8 b9]. simpl in *.
  constructor; (simpl; unfold get_l, get_c in *; simpl).
  - exact A.
  - rewrite app_length. lia.
  - exact b3.
  - intros l Hl. rewrite B. apply app_nth1. exact Hl.
  - intros l Hl. apply b5; [exact Hl|intros []].
  - rewrite D. simpl. lia.
  - intros l Hi. destruct (b7 l Hi) as [[]|K]; exact K.
  - split; [unfold own_l; simpl; rewrite app_length, D, B; simpl; lia|].
    unfold own_c in *. simpl. apply b9. constructor.
Qed.
Lemma fresh_chain s s1 m1 s2 m2 : fresh s s1 m1 -> fresh s1 s2 m2 -> fresh s s2 m2.
Proof.
  intros [a1 a2 a3 a4 a5 a6 a7 a8] [b1 b2 b3 b4 b5 b6 b7 b8]. constructor.
  - congruence.
  - lia.
  - lia.
  - intros l Hl. rewrite b4; [apply a4; exact Hl|lia].
  - intros l Hl. rewrite b5; [apply a5; exact Hl|lia].
  - lia.
  - intros l Hi. specialize (b7 l Hi). lia.
  - exact b8.
Qed.

(* ---------------------------------------------------------------- separation *)
Definition sep (s : state) : Prop :=
  Forall (owned s) (ms s) /\
  forall i j mi mj, i <> j -> nth_error (ms s) i = Some mi -> nth_error (ms s) j = Some mj ->
    blat mi <> blat mj /\ forall l, In l (bcpds mi) -> ~ In l (bcpds mj).

Lemma nth_error_upd_eq {A} (l : list A) i x : i < length l -> nth_error (upd l i x) i = Some x.
Proof. revert i. induction l as [|y t IH]; intros [|i] H; simpl in *; auto; try lia; try (apply IH; lia). Qed.
Lemma nth_error_upd_ne {A} (l : list A) i j x : i <> j -> nth_error (upd l i x) j = nth_error l j.
Proof. revert i j. induction l as [|y t IH]; intros [|i] [|j] H; simpl; auto; try lia; try (apply IH; lia). Qed.

Lemma obs_frame s s' mb :
  get_l s' (blat mb) = get_l s (blat mb) -> (forall l, In l (bcpds mb) -> get_c s' l = get_c s l) ->
  obs_model s' mb = obs_model s mb.
Proof. intros A B. unfold obs_model. rewrite A. f_equal. apply map_ext_in. exact B. Qed.

Lemma sep_commit s a m s' m' :
  sep s -> nth_error (ms s) a = Some m -> ext_for m s s' m' ->
  sep (commit s' a m') /\
  forall b mb, b <> a -> nth_error (ms s) b = Some mb ->
    nth_error (ms (commit s' a m')) b = Some mb /\ obs_model (commit s' a m') mb = obs_model s mb.
Proof.
  intros [Ho Hd] Ea [b1 b2 b3 b4 b5 b6 b7 b8 b9].
  assert (La : a < length (ms s)) by (apply nth_error_Some; congruence).
  assert (Om : owned s m) by (rewrite Forall_forall in Ho; apply Ho; eapply nth_error_In; eauto).
  assert (Oth : forall b mb, b <> a -> nth_error (ms s) b = Some mb ->
            owned s mb /\ blat mb <> blat m /\ (forall l, In l (bcpds mb) -> ~ In l (bcpds m))).
  { intros b mb Hb Eb. split; [rewrite Forall_forall in Ho; apply Ho; eapply nth_error_In; eauto|].
    exact (Hd b a mb m Hb Eb Ea). }
  split; [split|].
  - unfold commit. simpl. rewrite b1. rewrite Forall_forall. intros x Hx.
    apply In_nth_error in Hx. destruct Hx as [i Hi]. destruct (Nat.eq_dec i a) as [Hia|Hne]; [subst i|].
    + rewrite nth_error_upd_eq in Hi by exact La. inversion Hi; subst. destruct Om. split; auto.
    + rewrite nth_error_upd_ne in Hi by lia. destruct (Oth i x Hne Hi) as [[O1 O2] _].
      split; [unfold own_l in *; simpl; lia|]. unfold own_c in *. simpl. rewrite Forall_forall in *.
      intros l Hl. specialize (O2 l Hl). lia.
  - unfold commit. simpl. rewrite b1. intros i j mi mj Hij Ei Ej.
    destruct (Nat.eq_dec i a) as [Hia|Hi]; destruct (Nat.eq_dec j a) as [Hja|Hj]; [lia|subst i|subst j|].
    + rewrite nth_error_upd_eq in Ei by exact La. rewrite nth_error_upd_ne in Ej by lia.
      inversion Ei; subst. destruct (Oth j mj Hj Ej) as [[O1 O2] [N1 N2]]. split.
      * destruct b6 as [E|E]; [congruence|unfold own_l in O1; lia].
      * intros l Hl Hl2. destruct (b7 l Hl) as [K|K]; [exact (N2 l Hl2 K)|].
        unfold own_c in O2. rewrite Forall_forall in O2. specialize (O2 l Hl2). lia.
    + rewrite nth_error_upd_ne in Ei by lia. rewrite nth_error_upd_eq in Ej by exact La.
      inversion Ej; subst. destruct (Oth i mi Hi Ei) as [[O1 O2] [N1 N2]]. split.
      * destruct b6 as [E|E]; [congruence|unfold own_l in O1; lia].
      * intros l Hl Hl2. destruct (b7 l Hl2) as [K|K]; [exact (N2 l Hl K)|].
        unfold own_c in O2. rewrite Forall_forall in O2. specialize (O2 l Hl). lia.
    + rewrite nth_error_upd_ne in Ei by lia. rewrite nth_error_upd_ne in Ej by lia.
      exact (Hd i j mi mj Hij Ei Ej).
  - intros b mb Hb Eb. destruct (Oth b mb Hb Eb) as [[O1 O2] [N1 N2]]. split.
    + unfold commit. simpl. rewrite b1. rewrite nth_error_upd_ne by lia. exact Eb.
    + apply obs_frame.
      * change (get_l (commit s' a m') (blat mb)) with (get_l s' (blat mb)). apply b4; assumption.
      * intros l Hl. change (get_c (commit s' a m') l) with (get_c s' l). apply b5; [|apply N2; exact Hl].
        unfold own_c in O2. rewrite Forall_forall in O2. apply O2. exact Hl.
Qed.

Lemma sep_push s s' m' :
  sep s -> fresh s s' m' ->
  sep (push s' m') /\
  forall b mb, nth_error (ms s) b = Some mb ->
    nth_error (ms (push s' m')) b = Some mb /\ obs_model (push s' m') mb = obs_model s mb.
Proof.
  intros [Ho Hd] [a1 a2 a3 a4 a5 a6 a7 [a8 a9]].
  assert (Old : forall b mb, nth_error (ms s) b = Some mb -> owned s mb).
  { intros b mb Eb. rewrite Forall_forall in Ho. apply Ho. eapply nth_error_In; eauto. }
  split; [split|].
  - unfold push. simpl. rewrite a1. apply Forall_app. split.
    + rewrite Forall_forall in *. intros x Hx. destruct (Ho x Hx) as [O1 O2]. split.
      * unfold own_l in *. simpl. lia.
      * unfold own_c in *. simpl. rewrite Forall_forall in *. intros l Hl. specialize (O2 l Hl). lia.
    + constructor; [|constructor]. split; assumption.
  - unfold push. simpl. rewrite a1. intros i j mi mj Hij Ei Ej.
    assert (Li : i < length (ms s ++ [m'])) by (apply nth_error_Some; congruence).
    assert (Lj : j < length (ms s ++ [m'])) by (apply nth_error_Some; congruence).
    rewrite app_length in Li, Lj. simpl in Li, Lj.
    destruct (Nat.lt_ge_cases i (length (ms s))) as [Hi|Hi]; destruct (Nat.lt_ge_cases j (length (ms s))) as [Hj|Hj].
    + rewrite nth_error_app1 in Ei, Ej by assumption. exact (Hd i j mi mj Hij Ei Ej).
    + rewrite nth_error_app1 in Ei by assumption. rewrite nth_error_app2 in Ej by assumption.
      replace (j - length (ms s)) with 0 in Ej by lia. inversion Ej; subst.
      destruct (Old i mi Ei) as [O1 O2]. split; [unfold own_l in O1; lia|].
      intros l Hl Hl2. specialize (a7 l Hl2). unfold own_c in O2. rewrite Forall_forall in O2. specialize (O2 l Hl). lia.
    + rewrite nth_error_app2 in Ei by assumption. rewrite nth_error_app1 in Ej by assumption.
      replace (i - length (ms s)) with 0 in Ei by lia. inversion Ei; subst.
      destruct (Old j mj Ej) as [O1 O2]. split; [unfold own_l in O1; lia|].
      intros l Hl Hl2. specialize (a7 l Hl). unfold own_c in O2. rewrite Forall_forall in O2. specialize (O2 l Hl2). lia.
    + lia.
  - intros b mb Eb. destruct (Old b mb Eb) as [O1 O2]. split.
    + unfold push. simpl. rewrite a1. rewrite nth_error_app1; [exact Eb|]. apply nth_error_Some. congruence.
    + apply obs_frame.
      * change (get_l (push s' m') (blat mb)) with (get_l s' (blat mb)). apply a4. exact O1.
      * intros l Hl. change (get_c (push s' m') l) with (get_c s' l). apply a5.
        unfold own_c in O2. rewrite Forall_forall in O2. apply O2. exact Hl.
Qed.

(* ---------------------------------------------------------------- shape of every step *)
Definition target (o : op) : option nat :=
  match o with
  | NewBN _ _ => None
  | AddNodes a _ _ _ | AddEdges a _ _ | RemoveEdges a _ _ | RemoveNodes a _ | AddCpds a _ | RemoveCpds a _ | RemoveCpdObjs a _ | Do a _ _ | Copy a
  | RandomCpds a _ _ _ _ => Some a
  end.

Inductive shape (s : state) (o : op) : Prop :=
| sh_same : fst (step s o) = s -> shape s o
| sh_commit a m s' m' : target o = Some a -> nth_error (ms s) a = Some m -> ext_for m s s' m' ->
    fst (step s o) = commit s' a m' -> shape s o
| sh_push s' m' : fresh s s' m' -> fst (step s o) = push s' m' -> shape s o.

Lemma commit_same' s a m : nth_error (ms s) a = Some m -> commit s a m = s.
Proof. intros H. unfold commit, set_ms. rewrite (upd_same _ _ _ H). destruct s; reflexivity. Qed.

Lemma step_shape s o : shape s o.
Proof.
  destruct o as [eb lat|a xs ws lat|a es ws|a es strict|a xs|a cs|a xs|a cs|a xs ip|a|a isd ns dr ip]; simpl.
  - destruct (bn_add_edges_g g_empty eb) as [g o1] eqn:E. destruct o1; [|apply sh_same; simpl; rewrite E; reflexivity].
    destruct (acyclicb g) eqn:Ea; [|apply sh_same; simpl; rewrite E, Ea; reflexivity].
    eapply sh_push; [|simpl; rewrite E, Ea; reflexivity].
    constructor; (simpl; unfold get_l, get_c, owned, own_l, own_c; simpl).
    + reflexivity.
    + rewrite app_length. lia.
    + lia.
    + intros l Hl. apply app_nth1. exact Hl.
    + auto.
    + lia.
    + intros l [].
    + split; [rewrite app_length; simpl; lia|constructor].
  - destruct (nth_error (ms s) a) as [m|] eqn:En; [|apply sh_same; simpl; rewrite En; reflexivity].
    destruct (wlen_bad (length xs) ws) eqn:Ew; [apply sh_same; simpl; rewrite En, Ew; reflexivity|].
    destruct (m_add_nodes s m (combine xs lat)) as [s' m'] eqn:E.
    eapply (sh_commit s _ a m s' (log_nw m' _)); [reflexivity|exact En| |simpl; rewrite En, Ew, E; reflexivity].
    eapply ext_trans; [eapply ext_add_nodes; exact E|apply ext_same_cells; reflexivity].
  - destruct (nth_error (ms s) a) as [m|] eqn:En; [|apply sh_same; simpl; rewrite En; reflexivity].
    destruct (wlen_bad (length es) ws) eqn:Ew; [apply sh_same; simpl; rewrite En, Ew; reflexivity|].
    destruct (bn_add_edges_g (bg m) es) as [g' o1] eqn:E.
    eapply (sh_commit s _ a m s (log_ew (set_bg m g') _)); [reflexivity|exact En|apply ext_same_cells; reflexivity|simpl; rewrite En, Ew, E; reflexivity].
  - destruct (nth_error (ms s) a) as [m|] eqn:En; [|apply sh_same; simpl; rewrite En; reflexivity].
    destruct (bn_remove_edges_g (bg m) es strict) as [g' o1] eqn:E.
    eapply (sh_commit s _ a m s (set_bg m g')); [reflexivity|exact En|apply ext_same_cells; reflexivity|simpl; rewrite En, E; reflexivity].
  - destruct (nth_error (ms s) a) as [m|] eqn:En; [|apply sh_same; simpl; rewrite En; reflexivity].
    destruct (m_remove_nodes s m xs) as [[s' m'] o1] eqn:E.
    eapply (sh_commit s _ a m s' m'); [reflexivity|exact En|eapply ext_remove_nodes; exact E|simpl; rewrite En, E; reflexivity].
  - destruct (nth_error (ms s) a) as [m|] eqn:En; [|apply sh_same; simpl; rewrite En; reflexivity].
    destruct (m_add_cpds s m cs) as [[s' m'] o1] eqn:E.
    eapply (sh_commit s _ a m s' m'); [reflexivity|exact En|eapply ext_add_cpds; exact E|simpl; rewrite En, E; reflexivity].
  - destruct (nth_error (ms s) a) as [m|] eqn:En; [|apply sh_same; simpl; rewrite En; reflexivity].
    destruct (m_remove_cpds s m xs) as [m' o1] eqn:E.
    eapply (sh_commit s _ a m s m'); [reflexivity|exact En|eapply ext_remove_cpds; exact E|simpl; rewrite En, E; reflexivity].
  - destruct (nth_error (ms s) a) as [m|] eqn:En; [|apply sh_same; simpl; rewrite En; reflexivity].
    destruct (m_remove_cpd_objs s m cs) as [m' o1] eqn:E.
    eapply (sh_commit s _ a m s m'); [reflexivity|exact En|eapply ext_remove_cpd_objs; exact E|simpl; rewrite En, E; reflexivity].
  - destruct (nth_error (ms s) a) as [m|] eqn:En; [|apply sh_same; simpl; rewrite En; reflexivity].
    destruct (negb (subsetb xs (nodes (bg m)))) eqn:Es; [apply sh_same; simpl; rewrite En, Es; reflexivity|].
    destruct ip.
    + destruct (m_do_on s m xs) as [[s' m'] o1] eqn:E.
      eapply (sh_commit s _ a m s' m'); [reflexivity|exact En|eapply ext_do_on; exact E|simpl; rewrite En, Es, E; reflexivity].
    + destruct (copy_model s m) as [[s1 m1]|] eqn:E1; [|apply sh_same; simpl; rewrite En, Es, E1; reflexivity].
      destruct (copy_model s1 m1) as [[s2 m2]|] eqn:E2; [|apply sh_same; simpl; rewrite En, Es, E1, E2; reflexivity].
      destruct (m_do_on s2 m2 xs) as [[s3 m3] o1] eqn:E3.
      destruct o1; [|apply sh_same; simpl; rewrite En, Es, E1, E2, E3; reflexivity].
      eapply (sh_push s _ s3 m3); [|simpl; rewrite En, Es, E1, E2, E3; reflexivity].
      eapply fresh_ext; [eapply fresh_chain; [eapply fresh_copy; exact E1|eapply fresh_copy; exact E2]|eapply ext_do_on; exact E3].
  - destruct (nth_error (ms s) a) as [m|] eqn:En; [|apply sh_same; simpl; rewrite En; reflexivity].
    destruct (copy_model s m) as [[s1 m1]|] eqn:E1; [|apply sh_same; simpl; rewrite En, E1; reflexivity].
    eapply (sh_push s _ s1 m1); [eapply fresh_copy; exact E1|simpl; rewrite En, E1; reflexivity].
  - destruct (nth_error (ms s) a) as [m|] eqn:En; [|apply sh_same; simpl; rewrite En; reflexivity].
    destruct (isd && negb (subsetb (map fst ns) (nodes (bg m)) && subsetb (nodes (bg m)) (map fst ns))) eqn:Ed;
      [apply sh_same; simpl; rewrite En, Ed; reflexivity|].
    destruct ip.
    + destruct (m_add_cpds s m (map (rand_cpd (bg m) ns dr) (nodes (bg m)))) as [[s' m'] o1] eqn:E.
      eapply (sh_commit s _ a m s' m'); [reflexivity|exact En|eapply ext_add_cpds; exact E|simpl; rewrite En, Ed, E; reflexivity].
    + destruct (copy_model s m) as [[s1 m1]|] eqn:E1; [|apply sh_same; simpl; rewrite En, Ed, E1; reflexivity].
      destruct (m_add_cpds s1 m1 (map (rand_cpd (bg m1) ns dr) (nodes (bg m1)))) as [[s2 m2] o1] eqn:E2.
      destruct o1; [|apply sh_same; simpl; rewrite En, Ed, E1, E2; reflexivity].
      eapply (sh_push s _ s2 m2); [|simpl; rewrite En, Ed, E1, E2; reflexivity].
      eapply fresh_ext; [eapply fresh_copy; exact E1|eapply ext_add_cpds; exact E2].
Qed.

Lemma step_sep s o : sep s -> sep (fst (step s o)).
Proof.
  intros H. destruct (step_shape s o) as [E|a m s' m' _ En Hx E|s' m' Hf E]; rewrite E.
  - exact H.
  - exact (proj1 (sep_commit s a m s' m' H En Hx)).
  - exact (proj1 (sep_push s s' m' H Hf)).
Qed.
Lemma run_sep ops : forall s, sep s -> sep (run s ops).
Proof. induction ops as [|o r IH]; intros s H; simpl; [exact H|]. apply IH, step_sep, H. Qed.
Lemma sep_init : sep init.
Proof. split; [constructor|]. intros i j mi mj _ H. destruct i; discriminate. Qed.

(* the frame theorem: an operation not addressed to live model b leaves b in place with the same
   observable content (graph, latents, CPD list with all table entries) *)
Theorem step_frame s o b mb :
  sep s -> target o <> Some b -> nth_error (ms s) b = Some mb ->
  nth_error (ms (fst (step s o))) b = Some mb /\ obs_model (fst (step s o)) mb = obs_model s mb.
Proof.
  intros H Ht Eb. destruct (step_shape s o) as [E|a m s' m' Ha En Hx E|s' m' Hf E]; rewrite E.
  - auto.
  - apply (proj2 (sep_commit s a m s' m' H En Hx)); [|exact Eb]. intros ->. apply Ht. exact Ha.
  - apply (proj2 (sep_push s s' m' H Hf)). exact Eb.
Qed.
