(* C15: DynamicBayesianNetwork.add_edge keeps the 2-slice graph acyclic (including the unchecked mirror
   edge); JunctionTree.add_edge keeps the undirected graph a forest unless a clique is joined to itself. *)
From Coq Require Import List Bool Arith Lia PeanoNat.
From PV Require Import Base.Graph C15.Model C15.ProofsGraph.
Import ListNotations.
Local Open Scope nat_scope.
Local Arguments Nat.mul : simpl never.

(* ================================================================ DBN *)
(* node 2a+t: slice t = parity.  Invariant: edges never leave slice 1, and every slice-1 edge has its
   slice-0 mirror. *)
Definition dbn_inv (g : digraph) : Prop :=
  good_g g /\
  (forall u v, In (u, v) (edges g) -> Nat.odd u = true -> Nat.odd v = true /\ In (u - 1, v - 1) (edges g)).

Lemma dbn_path_down g x y :
  dbn_inv g -> dpath g x y -> Nat.odd x = true -> Nat.odd y = true /\ dpath g (x - 1) (y - 1).
Proof.
  intros [_ I] H Hx. induction H as [x|x w y _ IH He].
  - split; [exact Hx|apply dpath_refl].
  - destruct (IH Hx) as [Hw Hp]. destruct (I w y He Hw) as [Hy Hm].
    split; [exact Hy|]. eapply dpath_step; eauto.
Qed.

Lemma odd_2a a : Nat.odd (2 * a) = false.
Proof. rewrite Nat.odd_mul. reflexivity. Qed.
Lemma odd_2a1 a : Nat.odd (2 * a + 1) = true.
Proof. rewrite Nat.odd_add, Nat.odd_mul. reflexivity. Qed.

Lemma dbn_inv_add_node g x : dbn_inv g -> dbn_inv (g_add_node g x).
Proof.
  intros [G I]. split; [apply good_add_node; exact G|].
  intros u v H. rewrite add_node_edges in *. apply I. exact H.
Qed.

Lemma dbn_add_edge_inv g e : dbn_inv g -> dbn_inv (fst (dbn_add_edge g e)).
Proof.
  intros Hinv. destruct e as [[a s] [b t]]. unfold dbn_add_edge, dbn_norm.
  destruct Hinv as [[Hw Ha] I]. pose proof (conj (conj Hw Ha) I : dbn_inv g) as Hinv.
  destruct (Nat.eqb s t) eqn:Est.
  - (* intra-slice edge (a,0)->(b,0) and its mirror (a,1)->(b,1) *)
    unfold dn. simpl (1 - 0). rewrite !Nat.add_0_r.
    destruct (Nat.eqb (2 * a) (2 * b)) eqn:Eab; [exact Hinv|]. apply Nat.eqb_neq in Eab.
    destruct (memn (2 * a) (nodes g) && memn (2 * b) (nodes g) && has_path g (2 * b) (2 * a)) eqn:G; [exact Hinv|].
    simpl.
    assert (Np : ~ dpath g (2 * b) (2 * a)) by (apply guard_no_path; assumption).
    set (g1 := g_add_edge g (2 * a) (2 * b)).
    assert (E1 : forall e, In e (edges g1) -> In e (edges g) \/ e = (2 * a, 2 * b))
      by (intros e He; apply add_edge_edges_in; exact He).
    assert (A1 : acyclic g1) by (apply (acyclic_add_edge g g1 _ _ E1 Ha Np)).
    assert (W1 : wf_graph g1) by (apply wf_add_edge; exact Hw).
    split; [split; [apply wf_add_edge; exact W1|]|].
    + apply (acyclic_add_edge g1 _ (2 * a + 1) (2 * b + 1));
        [intros e He; apply add_edge_edges_in; exact He|exact A1|].
      intros Hp. destruct (dpath_add_edge g g1 _ _ _ _ E1 Hp) as [H|[H _]].
      * destruct (dbn_path_down g _ _ Hinv H (odd_2a1 b)) as [_ Hd].
        replace (2 * b + 1 - 1) with (2 * b) in Hd by lia. replace (2 * a + 1 - 1) with (2 * a) in Hd by lia.
        exact (Np Hd).
      * destruct (dbn_path_down g _ _ Hinv H (odd_2a1 b)) as [Ho _]. rewrite odd_2a in Ho. discriminate.
    + intros u v He Hu. apply add_edge_edges_in in He. destruct He as [He|He].
      * apply add_edge_edges_in in He. destruct He as [He|He].
        -- destruct (I u v He Hu) as [Hv Hm]. split; [exact Hv|].
           apply add_edge_edges_in. left. apply add_edge_edges_in. left. exact Hm.
        -- inversion He; subst. rewrite odd_2a in Hu. discriminate.
      * inversion He; subst. split; [apply odd_2a1|].
        apply add_edge_edges_in. left. apply add_edge_edges_in. right. f_equal; lia.
  - destruct (Nat.eqb (S s) t) eqn:Est2.
    + (* inter-slice edge (a,0)->(b,1), plus node (b,0) *)
      unfold dn. simpl (1 - 1). rewrite !Nat.add_0_r.
      destruct (Nat.eqb (2 * a) (2 * b + 1)) eqn:Eab; [exact Hinv|]. apply Nat.eqb_neq in Eab.
      destruct (memn (2 * a) (nodes g) && memn (2 * b + 1) (nodes g) && has_path g (2 * b + 1) (2 * a)) eqn:G;
        [exact Hinv|].
      simpl. apply dbn_inv_add_node.
      assert (Np : ~ dpath g (2 * b + 1) (2 * a)) by (apply guard_no_path; assumption).
      split; [split; [apply wf_add_edge; exact Hw|]|].
      * apply (acyclic_add_edge g _ (2 * a) (2 * b + 1)); [intros e He; apply add_edge_edges_in; exact He|exact Ha|exact Np].
      * intros u v He Hu. apply add_edge_edges_in in He. destruct He as [He|He].
        -- destruct (I u v He Hu) as [Hv Hm]. split; [exact Hv|]. apply add_edge_edges_in. left. exact Hm.
        -- inversion He; subst. rewrite odd_2a in Hu. discriminate.
    + destruct (Nat.ltb t s); exact Hinv.
Qed.
Lemma dbn_add_edges_inv es : forall g, dbn_inv g -> dbn_inv (fst (dbn_add_edges g es)).
Proof.
  induction es as [|e r IH]; intros g H; simpl; [exact H|].
  pose proof (dbn_add_edge_inv g e H) as H1. destruct (dbn_add_edge g e) as [g' o]. simpl in H1.
  destruct o; [apply IH; exact H1|exact H1].
Qed.
Lemma dstep_inv g o : dbn_inv g -> dbn_inv (fst (dstep g o)).
Proof.
  intros H. destruct o as [xs|es]; simpl.
  - revert g H. induction xs as [|x r IH]; intros g H; simpl; [exact H|]. apply IH, dbn_inv_add_node, H.
  - apply dbn_add_edges_inv. exact H.
Qed.
Lemma drun_inv ops : forall g, dbn_inv g -> dbn_inv (drun g ops).
Proof. induction ops as [|o r IH]; intros g H; simpl; [exact H|]. apply IH, dstep_inv, H. Qed.
Lemma dbn_inv_empty : dbn_inv g_empty.
Proof. split; [apply good_empty|intros u v []]. Qed.

(* a rejected single add_edge changes nothing *)
Lemma dbn_add_edge_rejected g e er : snd (dbn_add_edge g e) = Err er -> fst (dbn_add_edge g e) = g.
Proof.
  destruct e as [[a s] [b t]]. unfold dbn_add_edge.
  destruct (dbn_norm s t) as [[s0 t0]|]; [|reflexivity].
  destruct (Nat.eqb _ _); [reflexivity|]. destruct (_ && _ && _); [reflexivity|].
  destruct (Nat.eqb s0 t0); simpl; discriminate.
Qed.

(* ================================================================ junction tree *)
(* forest: built by adding edges whose end points are not yet connected (so no edge closes a cycle,
   and no self loop) *)
Definition swap (e : node * node) : node * node := (snd e, fst e).
Definition ug (es : list (node * node)) : digraph := {| nodes := []; edges := es ++ map swap es |}.
Definition uconn (es : list (node * node)) (u v : node) : Prop := dpath (ug es) u v.
Inductive uforest : list (node * node) -> Prop :=
| uf_nil : uforest []
| uf_snoc es u v : uforest es -> ~ uconn es u v -> uforest (es ++ [(u, v)]).

Lemma wf_sym g : wf_graph g -> wf_graph (sym g).
Proof.
  intros [Hn He]. split; [exact Hn|]. simpl. intros u v H. apply in_app_iff in H. destruct H as [H|H].
  - apply He. exact H.
  - apply in_map_iff in H. destruct H as [[a b] [Hq Hi]]. simpl in Hq. inversion Hq; subst.
    destruct (He _ _ Hi). auto.
Qed.
Lemma uconn_sym_g g u v : uconn (edges g) u v <-> dpath (sym g) u v.
Proof. unfold uconn. split; apply dpath_same_edges; reflexivity. Qed.

Definition jt_inv (g : digraph) : Prop := wf_graph g /\ uforest (edges g).

Lemma jt_add_edge_inv g e : jt_inv g -> jt_inv (fst (jt_add_edge g e)).
Proof.
  destruct e as [[u cu] [v cv]]. intros [Hw Hf]. unfold jt_add_edge.
  destruct (Nat.eqb u v) eqn:Euv; [split; assumption|]. apply Nat.eqb_neq in Euv. rewrite orb_false_l.
  destruct (memn u (nodes g) && memn v (nodes g) && has_path (sym g) u v) eqn:G; [split; assumption|].
  destruct (disjointb cu cv); [split; assumption|]. simpl.
  split; [apply wf_add_edge; exact Hw|].
  assert (Np : ~ uconn (edges g) u v).
  { rewrite uconn_sym_g. apply guard_no_path; [apply wf_sym; exact Hw|congruence|].
    change (nodes (sym g)) with (nodes g). rewrite (andb_comm (memn v (nodes g))). exact G. }
  unfold g_add_edge. set (g1 := g_add_node (g_add_node g u) v).
  assert (E1 : edges g1 = edges g) by (unfold g1; rewrite !add_node_edges; reflexivity).
  destruct (has_edge g1 u v); simpl; rewrite E1; [exact Hf|]. apply uf_snoc; assumption.
Qed.
Lemma jt_add_edges_inv es : forall g, jt_inv g -> jt_inv (fst (jt_add_edges g es)).
Proof.
  induction es as [|e r IH]; intros g H; [exact H|]. cbn [jt_add_edges].
  pose proof (jt_add_edge_inv g e H) as H1.
  destruct (jt_add_edge g e) as [g' o]. simpl in H1.
  destruct o; [apply IH; assumption|exact H1].
Qed.
Lemma jt_inv_add_node g x : jt_inv g -> jt_inv (g_add_node g x).
Proof. intros [Hw Hf]. split; [apply wf_add_node; exact Hw|]. rewrite add_node_edges. exact Hf. Qed.
Lemma jstep_inv g o : jt_inv g -> jt_inv (fst (jstep g o)).
Proof.
  intros H. destruct o as [xs|es ws]; simpl.
  - revert g H. induction xs as [|x r IH]; intros g H; simpl; [exact H|]. apply IH, jt_inv_add_node, H.
  - destruct (wlen_bad (length es) ws); [exact H|]. apply jt_add_edges_inv; assumption.
Qed.
Lemma jrun_inv ops : forall g, jt_inv g -> jt_inv (jrun g ops).
Proof. induction ops as [|o r IH]; intros g H; simpl; [exact H|]. apply IH. apply jstep_inv; assumption. Qed.
Lemma jt_inv_empty : jt_inv g_empty.
Proof. split; [apply good_empty|constructor]. Qed.

Lemma jt_add_edge_rejected g e er : snd (jt_add_edge g e) = Err er -> fst (jt_add_edge g e) = g.
Proof.
  destruct e as [[u cu] [v cv]]. unfold jt_add_edge.
  destruct (_ || _); [reflexivity|]. destruct (disjointb cu cv); [reflexivity|]. simpl. discriminate.
Qed.

(* ---------------------------------------------------------------- forest = every edge is a bridge *)
(* textbook characterisation: an undirected (multi)graph has no cycle (no self loop, no parallel edges,
   no longer cycle) iff removing any one edge occurrence disconnects its end points *)
Definition all_bridges (es : list (node * node)) : Prop :=
  forall l1 a b l2, es = l1 ++ (a, b) :: l2 -> ~ uconn (l1 ++ l2) a b.

Lemma ug_edge es x y : In (x, y) (edges (ug es)) <-> In (x, y) es \/ In (y, x) es.
Proof.
  simpl. rewrite in_app_iff, in_map_iff. split.
  - intros [H|[[a b] [Hq Hi]]]; [auto|]. unfold swap in Hq. simpl in Hq. inversion Hq; subst. auto.
  - intros [H|H]; [auto|]. right. exists (y, x). auto.
Qed.
Lemma uconn_mono es es' x y : (forall e, In e es -> In e es') -> uconn es x y -> uconn es' x y.
Proof.
  intros Hi. unfold uconn. apply dpath_sub. intros [a b] H. apply ug_edge in H. apply ug_edge.
  destruct H; auto.
Qed.
Lemma uconn_sym es x y : uconn es x y -> uconn es y x.
Proof.
  unfold uconn. intros H. induction H as [x|x w y _ IH He]; [apply dpath_refl|].
  eapply dpath_step_l; [|exact IH]. apply ug_edge. apply ug_edge in He. tauto.
Qed.
Lemma uconn_trans es x y z : uconn es x y -> uconn es y z -> uconn es x z.
Proof. apply dpath_trans. Qed.
Lemma uconn_edge es a b : In (a, b) es -> uconn es a b.
Proof. intros H. eapply dpath_step; [apply dpath_refl|]. apply ug_edge. auto. Qed.
(* a walk in E + {u,v} either avoids the new edge or crosses it *)
Lemma uconn_add es es' u v x y :
  (forall e, In e es' -> In e es \/ e = (u, v)) ->
  uconn es' x y -> uconn es x y \/ (uconn es x u /\ uconn es v y) \/ (uconn es x v /\ uconn es u y).
Proof.
  intros Hi H. unfold uconn in *. induction H as [x|x w y _ IH He]; [left; apply dpath_refl|].
  assert (Hc : In (w, y) (edges (ug es)) \/ (w = u /\ y = v) \/ (w = v /\ y = u)).
  { apply ug_edge in He. destruct He as [He|He]; destruct (Hi _ He) as [K|K].
    - left. apply ug_edge. auto.
    - inversion K; subst. auto.
    - left. apply ug_edge. auto.
    - inversion K; subst. auto. }
  destruct Hc as [Hc|[[-> ->]|[-> ->]]].
  - destruct IH as [IH|[[I1 I2]|[I1 I2]]].
    + left. eapply dpath_step; eauto.
    + right. left. split; [exact I1|eapply dpath_step; eauto].
    + right. right. split; [exact I1|eapply dpath_step; eauto].
  - destruct IH as [IH|[[I1 I2]|[I1 I2]]].
    + right. left. split; [exact IH|apply dpath_refl].
    + right. left. split; [exact I1|apply dpath_refl].
    + left. exact I1.
  - destruct IH as [IH|[[I1 I2]|[I1 I2]]].
    + right. right. split; [exact IH|apply dpath_refl].
    + left. exact I1.
    + right. right. split; [exact I1|apply dpath_refl].
Qed.

Lemma app_snoc_split {A} (es l1 l2 : list A) (e x : A) :
  es ++ [x] = l1 ++ e :: l2 -> (l2 = [] /\ l1 = es /\ e = x) \/ (exists l2', l2 = l2' ++ [x] /\ es = l1 ++ e :: l2').
Proof.
  intros Hq. destruct l2 as [|y l2].
  - left. apply app_inj_tail in Hq. destruct Hq; subst; auto.
  - right. destruct (@exists_last A (y :: l2)) as [l2' [z Hz]]; [discriminate|].
    rewrite Hz in *. rewrite app_comm_cons, app_assoc in Hq. apply app_inj_tail in Hq.
    destruct Hq; subst. exists l2'. auto.
Qed.

Theorem uforest_all_bridges es : uforest es -> all_bridges es.
Proof.
  intros H. induction H as [|es u v Hf IH Hn]; intros l1 a b l2 Hq.
  - destruct l1; discriminate.
  - destruct (app_snoc_split es l1 l2 (a, b) (u, v) Hq) as [(-> & -> & Hab)|(l2' & -> & ->)].
    + inversion Hab; subst. rewrite app_nil_r. exact Hn.
    + intros Hc. specialize (IH l1 a b l2' eq_refl).
      assert (Hi : forall e, In e (l1 ++ l2' ++ [(u, v)]) -> In e (l1 ++ l2') \/ e = (u, v)).
      { intros e He. rewrite !in_app_iff in *. simpl in He. destruct He as [He|[He|[He|[]]]]; auto. }
      assert (Hsub : forall e, In e (l1 ++ l2') -> In e (l1 ++ (a, b) :: l2')).
      { intros e He. rewrite in_app_iff in *. simpl. tauto. }
      assert (Hab : uconn (l1 ++ (a, b) :: l2') a b).
      { apply uconn_edge. rewrite in_app_iff. simpl. auto. }
      destruct (uconn_add _ _ u v a b Hi Hc) as [K|[[K1 K2]|[K1 K2]]].
      * exact (IH K).
      * apply Hn. apply uconn_trans with (y := a); [apply uconn_sym, (uconn_mono _ _ _ _ Hsub K1)|].
        apply uconn_trans with (y := b); [exact Hab|apply uconn_sym, (uconn_mono _ _ _ _ Hsub K2)].
      * apply Hn. apply uconn_trans with (y := b); [exact (uconn_mono _ _ _ _ Hsub K2)|].
        apply uconn_trans with (y := a); [apply uconn_sym; exact Hab|exact (uconn_mono _ _ _ _ Hsub K1)].
Qed.
