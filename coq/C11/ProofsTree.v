(* C11: Chow-Liu proofs (BFS orientation of a tree; brute-force maximum spanning tree checker) *)
From Coq Require Import List Bool Arith Lia PeanoNat ZArith QArith Qcanon Permutation.
From PV Require Import Base.Reach Base.Graph C11.Model C11.Spec C11.ProofsHC C11.ProofsExh.
Import ListNotations.
Local Open Scope nat_scope.

(* ---------------------------------------------------------------- small list facts *)
Lemma NoDup_snoc {A} (l : list A) x : NoDup (l ++ [x]) <-> NoDup l /\ ~ In x l.
Proof.
  induction l as [|a t IH]; simpl.
  - split; [intros _; split; [constructor|tauto]|intros _; constructor; [tauto|constructor]].
  - split.
    + intros H. inversion H as [|? ? Hna Hnt]; subst. apply IH in Hnt. destruct Hnt as [Hnt Hx].
      split; [constructor; [|exact Hnt]|].
      * intros Hi. apply Hna. apply in_or_app. left. exact Hi.
      * intros [E|Hi]; [|contradiction]. subst. apply Hna. apply in_or_app. right. left. reflexivity.
    + intros [H Hx]. inversion H as [|? ? Hna Hnt]; subst. constructor.
      * intros Hi. apply in_app_iff in Hi. destruct Hi as [Hi|[E|[]]]; [contradiction|]. subst. apply Hx. left. reflexivity.
      * apply IH. split; [exact Hnt|]. intros Hi. apply Hx. right. exact Hi.
Qed.

Lemma NoDup_map_inj_on {A B} (f : A -> B) (l : list A) :
  NoDup l -> (forall x y, In x l -> In y l -> f x = f y -> x = y) -> NoDup (map f l).
Proof.
  induction l as [|a t IH]; intros Hnd Hinj; simpl; [constructor|].
  inversion Hnd as [|? ? Hna Hnt]; subst. constructor.
  - intros Hi. apply in_map_iff in Hi. destruct Hi as [y [Hy Hin]].
    assert (y = a) by (apply Hinj; [right; exact Hin|left; reflexivity|exact Hy]). subst. contradiction.
  - apply IH; [exact Hnt|]. intros x y Hx Hy. apply Hinj; right; assumption.
Qed.

Lemma NoDup_snd_fun (D : list edge) u u' v : NoDup (map snd D) -> In (u, v) D -> In (u', v) D -> u = u'.
Proof.
  induction D as [|[a b] t IH]; intros Hnd H1 H2; [destruct H1|].
  simpl in Hnd. inversion Hnd as [|? ? Hna Hnt]; subst.
  destruct H1 as [H1|H1]; destruct H2 as [H2|H2].
  - congruence.
  - inversion H1; subst. exfalso. apply Hna. apply in_map_iff. exists (u', v). auto.
  - inversion H2; subst. exfalso. apply Hna. apply in_map_iff. exists (u, v). auto.
  - apply IH; assumption.
Qed.

(* ---------------------------------------------------------------- neighbours *)
Lemma In_sym T e : In e (sym T) <-> In e T \/ In (swap e) T.
Proof.
  unfold sym. rewrite in_app_iff, in_map_iff. split.
  - intros [H|[[a b] [Hs H]]]; [left; exact H|]. right. subst e. unfold swap. simpl. exact H.
  - intros [H|H]; [left; exact H|]. right. exists (swap e). split; [|exact H].
    destruct e. reflexivity.
Qed.
Lemma In_nbrs T u w : In w (nbrs T u) <-> In (u, w) (sym T).
Proof.
  rewrite In_sym. unfold nbrs. rewrite in_flat_map. unfold swap. simpl. split.
  - intros [[a b] [Hin H]]. simpl in H. destruct (Nat.eqb a u) eqn:E1.
    + apply Nat.eqb_eq in E1. destruct H as [H|[]]. subst. left. exact Hin.
    + destruct (Nat.eqb b u) eqn:E2; [|destruct H]. apply Nat.eqb_eq in E2. destruct H as [H|[]]. subst.
      right. exact Hin.
  - intros [H|H].
    + exists (u, w). split; [exact H|]. simpl. rewrite Nat.eqb_refl. left. reflexivity.
    + exists (w, u). split; [exact H|]. simpl. destruct (Nat.eqb w u) eqn:E.
      * apply Nat.eqb_eq in E. subst. left. reflexivity.
      * rewrite Nat.eqb_refl. left. reflexivity.
Qed.

(* ---------------------------------------------------------------- BFS *)
Section BFS.
Variable ns : list node.
Variable T : list edge.
Variable root : node.
Hypothesis T_wf : forall u v, In (u, v) T -> In u ns /\ In v ns.

(* edges in discovery order: every source was discovered before *)
Inductive ordered : list edge -> Prop :=
| ord_nil : ordered []
| ord_snoc D u w : ordered D -> In u (root :: map snd D) -> ordered (D ++ [(u, w)]).

Lemma ordered_src D : ordered D -> forall x y, In (x, y) D -> In x (root :: map snd D).
Proof.
  induction 1 as [|D u w Ho IH Hu]; intros x y Hi; [destruct Hi|].
  rewrite map_app. simpl. apply in_app_iff in Hi.
  assert (G : forall z, In z (root :: map snd D) -> root = z \/ In z (map snd D ++ [w])).
  { intros z [Hz|Hz]; [left; exact Hz|right; apply in_or_app; left; exact Hz]. }
  destruct Hi as [Hi|[Hi|[]]]; [apply G; eapply IH; exact Hi|]. inversion Hi; subst. apply G. exact Hu.
Qed.

Lemma ordered_no_back D : ordered D -> NoDup (root :: map snd D) ->
  forall a b, In (a, b) D -> In (b, a) D -> False.
Proof.
  induction 1 as [|D u w Ho IH Hu]; intros Hnd a b H1 H2; [destruct H1|].
  rewrite map_app in Hnd. simpl in Hnd.
  assert (Hnd' : NoDup ((root :: map snd D) ++ [w])) by exact Hnd.
  apply NoDup_snoc in Hnd'. destruct Hnd' as [Hp Hw].
  apply in_app_iff in H1. apply in_app_iff in H2.
  destruct H1 as [H1|[H1|[]]]; destruct H2 as [H2|[H2|[]]].
  - exact (IH Hp a b H1 H2).
  - inversion H2; subst. apply Hw. eapply ordered_src; [exact Ho|exact H1].
  - inversion H1; subst. apply Hw. eapply ordered_src; [exact Ho|exact H2].
  - inversion H1; subst. inversion H2; subst. apply Hw. exact Hu.
Qed.

Lemma ordered_reach D : ordered D ->
  forall v, In v (root :: map snd D) -> dpath {| nodes := ns; edges := D |} root v.
Proof.
  induction 1 as [|D u w Ho IH Hu]; intros v Hv.
  - destruct Hv as [Hv|[]]. subst. apply dpath_refl.
  - assert (Hinc : forall a b, dpath {| nodes := ns; edges := D |} a b ->
                               dpath {| nodes := ns; edges := D ++ [(u, w)] |} a b).
    { intros a b. apply dpath_incl. simpl. intros e He. apply in_or_app. left. exact He. }
    rewrite map_app in Hv. simpl in Hv. destruct Hv as [Hv|Hv]; [subst; apply dpath_refl|].
    apply in_app_iff in Hv. destruct Hv as [Hv|[Hv|[]]].
    + apply Hinc. apply IH. right. exact Hv.
    + subst v. eapply dpath_step; [apply Hinc; apply IH; exact Hu|]. simpl. apply in_or_app. right. left. reflexivity.
Qed.

Definition J (done : list node) (st : bfs_st) : Prop :=
  b_seen st = root :: map snd (b_out st) /\ NoDup (b_seen st) /\ incl (b_seen st) ns /\
  b_seen st = done ++ b_queue st /\ (forall u w, In (u, w) (b_out st) -> In w (nbrs T u)) /\
  ordered (b_out st).

Lemma visit_J done st u w : J done st -> In u (b_seen st) -> In w (nbrs T u) -> In w ns ->
  J done (bfs_visit u st w).
Proof.
  intros [J1 [J2 [J3 [J4 [J5 J6]]]]] Hu Hw Hwn. unfold bfs_visit.
  destruct (memn w (b_seen st)) eqn:E; [repeat split; assumption|]. apply memn_false in E.
  unfold J. simpl. repeat split.
  - rewrite map_app. simpl. rewrite J1. reflexivity.
  - apply NoDup_snoc. split; assumption.
  - intros z Hz. apply in_app_iff in Hz. destruct Hz as [Hz|[Hz|[]]]; [apply J3; exact Hz|subst; exact Hwn].
  - rewrite J4. rewrite app_assoc. reflexivity.
  - intros a b Hi. apply in_app_iff in Hi. destruct Hi as [Hi|[Hi|[]]]; [apply J5; exact Hi|].
    inversion Hi; subst. exact Hw.
  - constructor; [exact J6|]. rewrite <- J1. exact Hu.
Qed.
Lemma visit_seen st u w : incl (b_seen st) (b_seen (bfs_visit u st w)) /\ In w (b_seen (bfs_visit u st w)).
Proof.
  unfold bfs_visit. destruct (memn w (b_seen st)) eqn:E.
  - split; [apply incl_refl|apply memn_In; exact E].
  - simpl. split; [apply incl_appl; apply incl_refl|apply in_or_app; right; left; reflexivity].
Qed.

Lemma fold_J done u : forall l st, J done st -> In u (b_seen st) ->
  (forall w, In w l -> In w (nbrs T u) /\ In w ns) ->
  let st' := fold_left (bfs_visit u) l st in
  J done st' /\ incl (b_seen st) (b_seen st') /\ forall w, In w l -> In w (b_seen st').
Proof.
  induction l as [|w t IH]; intros st HJ Hu Hl; simpl.
  - split; [exact HJ|]. split; [apply incl_refl|intros w []].
  - destruct (Hl w (or_introl eq_refl)) as [Hw Hwn].
    destruct (visit_seen st u w) as [Hinc Hin].
    destruct (IH (bfs_visit u st w)) as [I1 [I2 I3]].
    + apply visit_J; assumption.
    + apply Hinc. exact Hu.
    + intros z Hz. apply Hl. right. exact Hz.
    + split; [exact I1|]. split; [eapply incl_tran; eassumption|].
      intros z [Hz|Hz]; [subst; apply I2; exact Hin|apply I3; exact Hz].
Qed.

Definition closed (done : list node) (st : bfs_st) : Prop :=
  forall v, In v done -> forall w, In w (nbrs T v) -> In w (b_seen st).

Lemma nbrs_in_ns u w : In w (nbrs T u) -> In w ns.
Proof.
  intros H. apply In_nbrs, In_sym in H. unfold swap in H. simpl in H.
  destruct H as [H|H]; apply T_wf in H; tauto.
Qed.

Lemma bfs_loop_spec : forall fuel st done, NoDup ns -> J done st -> closed done st ->
  length ns <= length done + fuel ->
  exists done', J done' (bfs_loop T fuel st) /\ closed done' (bfs_loop T fuel st) /\
                b_queue (bfs_loop T fuel st) = [].
Proof.
  induction fuel as [|f IH]; intros st done Hns HJ Hc Hlen; simpl.
  - exists done. split; [exact HJ|]. split; [exact Hc|].
    destruct HJ as [_ [J2 [J3 [J4 _]]]].
    pose proof (NoDup_incl_length J2 J3) as L. rewrite J4, app_length in L.
    destruct (b_queue st); [reflexivity|simpl in L; lia].
  - destruct (b_queue st) as [|u q] eqn:Eq.
    + exists done. split; [exact HJ|]. split; [exact Hc|exact Eq].
    + set (st0 := {| b_queue := q; b_seen := b_seen st; b_out := b_out st |}).
      assert (HJ0 : J (done ++ [u]) st0).
      { destruct HJ as [J1 [J2 [J3 [J4 [J5 J6]]]]]. unfold J, st0. simpl. repeat split; try assumption.
        rewrite J4, Eq, <- app_assoc. reflexivity. }
      assert (Hu : In u (b_seen st0)).
      { destruct HJ as [_ [_ [_ [J4 _]]]]. unfold st0. simpl. rewrite J4, Eq. apply in_or_app. right. left. reflexivity. }
      destruct (fold_J (done ++ [u]) u (nbrs T u) st0 HJ0 Hu) as [F1 [F2 F3]].
      { intros w Hw. split; [exact Hw|eapply nbrs_in_ns; exact Hw]. }
      apply (IH _ (done ++ [u]) Hns F1).
      * intros v Hv w Hw. apply in_app_iff in Hv. destruct Hv as [Hv|[Hv|[]]].
        -- apply F2. unfold st0. simpl. apply (Hc v Hv w Hw).
        -- subst v. apply F3. exact Hw.
      * rewrite app_length. simpl. lia.
Qed.

Theorem bfs_orient_spec : tree_on ns T root ->
  let D := bfs_orient ns T root in
  (* every non-root node has exactly one parent, the root has none *)
  (forall v, In v ns -> v <> root -> exists u, In (u, v) D /\ forall u', In (u', v) D -> u' = u) /\
  (forall u, ~ In (u, root) D) /\
  (* the skeleton is the tree *)
  (forall u v, In (u, v) D -> In (u, v) T \/ In (v, u) T) /\
  (forall u v, In (u, v) T -> In (u, v) D \/ In (v, u) D) /\
  (* edges point away from the root: every node is reached from the root along D *)
  (forall v, In v ns -> dpath {| nodes := ns; edges := D |} root v).
Proof.
  intros [Hns [Hr [_ [Hlen Hconn]]]] D.
  set (st := {| b_queue := [root]; b_seen := [root]; b_out := [] |}).
  assert (HJ : J [] st).
  { unfold J, st. simpl. repeat split.
    - constructor; [intros []|constructor].
    - intros z [Hz|[]]. subst. exact Hr.
    - intros u w [].
    - constructor. }
  destruct (bfs_loop_spec (length ns) st [] Hns HJ) as [done [[J1 [J2 [J3 [J4 [J5 J6]]]]] [Hc Hq]]].
  { intros v []. }
  { simpl. lia. }
  fold D in J1, J5, J6. change (b_out (bfs_loop T (length ns) st)) with D in *.
  set (r := bfs_loop T (length ns) st) in *.
  rewrite Hq, app_nil_r in J4.
  (* every node is seen *)
  assert (Hall : forall v, In v ns -> In v (b_seen r)).
  { intros v Hv. specialize (Hconn v Hv). unfold uconn in Hconn.
    assert (G : forall a b, dpath (ugraph ns T) a b -> In a (b_seen r) -> In b (b_seen r)).
    { intros a b Hp. induction Hp as [|a b d _ IHp He]; [auto|]. intros Ha.
      simpl in He. apply In_nbrs in He. apply (Hc b); [rewrite <- J4; apply IHp; exact Ha|exact He]. }
    apply (G root v Hconn). rewrite J1. left. reflexivity. }
  assert (Hsnd : NoDup (map snd D)) by (rewrite J1 in J2; inversion J2; assumption).
  assert (Hroot : ~ In root (map snd D)) by (rewrite J1 in J2; inversion J2; assumption).
  assert (HlenD : length D = length T).
  { assert (L1 : length (b_seen r) = length ns).
    { apply Nat.le_antisymm; [apply NoDup_incl_length; assumption|apply NoDup_incl_length; [exact Hns|exact Hall]]. }
    rewrite J1 in L1. cbn [length] in L1. rewrite map_length in L1.
    apply eq_add_S. exact (eq_trans L1 (eq_sym Hlen)). }
  assert (Hskel : forall u v, In (u, v) D -> In (u, v) T \/ In (v, u) T).
  { intros u v Hi. apply J5 in Hi. apply In_nbrs, In_sym in Hi. exact Hi. }
  split; [|split; [|split; [|split]]].
  - intros v Hv Hne. specialize (Hall v Hv). rewrite J1 in Hall. destruct Hall as [E|Hin]; [congruence|].
    apply in_map_iff in Hin. destruct Hin as [[u v'] [E Hin]]. simpl in E. subst v'.
    exists u. split; [exact Hin|]. intros u' Hu'. eapply NoDup_snd_fun; eauto.
  - intros u Hi. apply Hroot. apply in_map_iff. exists (u, root). auto.
  - exact Hskel.
  - (* counting: the canonical images of the n-1 edges of D are n-1 distinct members of T *)
    set (cn := fun e : edge => if mem_edge e T then e else swap e).
    assert (Hcn_in : forall e, In e D -> In (cn e) T).
    { intros [a b] Hi. unfold cn. destruct (mem_edge (a, b) T) eqn:E; [apply mem_edge_In; exact E|].
      apply mem_edge_false in E. destruct (Hskel a b Hi); [contradiction|assumption]. }
    assert (Hcn_cases : forall e, cn e = e \/ cn e = swap e).
    { intros e. unfold cn. destruct (mem_edge e T); auto. }
    assert (HndD : NoDup D).
    { clear - Hsnd. induction D as [|e t IH]; [constructor|]. simpl in Hsnd. inversion Hsnd; subst.
      constructor; [|apply IH; assumption]. intros Hi. apply H1. apply in_map. exact Hi. }
    assert (Hnb : forall a b, In (a, b) D -> In (b, a) D -> False).
    { apply ordered_no_back; [exact J6|]. rewrite <- J1. exact J2. }
    assert (HndL : NoDup (map cn D)).
    { apply NoDup_map_inj_on; [exact HndD|]. intros [a b] [a' b'] H1 H2 E.
      destruct (Hcn_cases (a, b)) as [E1|E1]; destruct (Hcn_cases (a', b')) as [E2|E2];
        rewrite E1, E2 in E; unfold swap in E; simpl in E; inversion E; subst; try reflexivity.
      - exfalso. exact (Hnb _ _ H1 H2).
      - exfalso. exact (Hnb _ _ H1 H2). }
    assert (Hincl : incl T (map cn D)).
    { apply NoDup_length_incl; [exact HndL|rewrite map_length; lia|].
      intros e He. apply in_map_iff in He. destruct He as [e0 [E He]]. subst. apply Hcn_in. exact He. }
    intros u v Hi. apply Hincl in Hi. apply in_map_iff in Hi. destruct Hi as [[a b] [E Hi]].
    destruct (Hcn_cases (a, b)) as [E1|E1]; rewrite E1 in E; unfold swap in E; simpl in E; inversion E; subst; auto.
  - intros v Hv. apply ordered_reach; [exact J6|]. rewrite <- J1. apply Hall. exact Hv.
Qed.
End BFS.

(* ---------------------------------------------------------------- spanning tree checker *)
Lemma nodupb_spec l : nodupb l = true <-> NoDup l.
Proof.
  induction l as [|x t IH]; simpl; [split; [constructor|reflexivity]|].
  rewrite andb_true_iff, negb_true_iff, mem_edge_false, IH. split.
  - intros [H1 H2]. constructor; assumption.
  - intros H. inversion H; auto.
Qed.

Lemma uconn_same_edges ns T T' a b : (forall e, In e T -> In e T') -> uconn ns T a b -> uconn ns T' a b.
Proof.
  intros H. unfold uconn. apply dpath_incl. simpl. intros e He. apply In_sym in He. apply In_sym.
  destruct He as [He|He]; [left|right]; apply H; exact He.
Qed.

Lemma ugraph_wf ns T : NoDup ns -> (forall u v, In (u, v) T -> In u ns /\ In v ns) -> wf_graph (ugraph ns T).
Proof.
  intros Hn Ht. split; [exact Hn|]. simpl. intros u v Hi. apply In_sym in Hi. unfold swap in Hi. simpl in Hi.
  destruct Hi as [Hi|Hi]; apply Ht in Hi; tauto.
Qed.

Lemma connectedb_spec ns T : NoDup ns -> (forall u v, In (u, v) T -> In u ns /\ In v ns) ->
  (connectedb ns T = true <-> connected ns T).
Proof.
  intros Hn Ht. unfold connectedb, connected. destruct ns as [|r t]; [tauto|].
  rewrite forallb_forall. pose proof (ugraph_wf (r :: t) T Hn Ht) as Hw.
  split; intros H v Hv; [apply (has_path_spec _ r v Hw)|apply (has_path_spec _ r v Hw)]; apply H; exact Hv.
Qed.

Section MST.
Variable ns : list node.
Variable G : list (edge * Qc).
Hypothesis Gwf : wgraph_wf ns G.

Lemma spanning_treeb_spec T : spanning_treeb ns G T = true <-> spanning_tree ns G T.
Proof.
  destruct Gwf as [Hn [_ Hg]]. unfold spanning_treeb, spanning_tree.
  rewrite !andb_true_iff, nodupb_spec, forallb_forall, Nat.eqb_eq.
  assert (E : (forall x, In x T -> mem_edge x (map fst G) = true) <-> incl T (map fst G)).
  { split; intros H x Hx; [apply mem_edge_In|apply mem_edge_In]; apply H; exact Hx. }
  rewrite E. split.
  - intros [[[H1 H2] H3] H4]. repeat split; try assumption.
    apply connectedb_spec; [exact Hn| |exact H4]. intros u v Hi. apply Hg. apply H2. exact Hi.
  - intros [H1 [H2 [H3 H4]]]. repeat split; try assumption.
    apply connectedb_spec; [exact Hn| |exact H4]. intros u v Hi. apply Hg. apply H2. exact Hi.
Qed.

Lemma tree_weight_perm T T' : Permutation T T' -> tree_weight G T = tree_weight G T'.
Proof.
  induction 1 as [|x l l' _ IH|x y l|l l' l'' _ IH1 _ IH2]; simpl.
  - reflexivity.
  - rewrite IH. reflexivity.
  - ring.
  - congruence.
Qed.

Lemma spanning_tree_perm T T' : Permutation T T' -> spanning_tree ns G T -> spanning_tree ns G T'.
Proof.
  intros P [H1 [H2 [H3 H4]]]. split; [eapply Permutation_NoDup; eauto|]. split.
  - intros e He. apply H2. eapply Permutation_in; [apply Permutation_sym; exact P|exact He].
  - split; [rewrite <- (Permutation_length P); exact H3|].
    unfold connected in *. destruct ns as [|r t]; [exact I|]. intros v Hv.
    eapply uconn_same_edges; [|apply H4; exact Hv]. intros e He. eapply Permutation_in; eauto.
Qed.

Theorem mst_chk_spec T :
  mst_chk ns G T = true <->
  spanning_tree ns G T /\ forall T', spanning_tree ns G T' -> (tree_weight G T' <= tree_weight G T)%Qc.
Proof.
  unfold mst_chk. rewrite andb_true_iff, spanning_treeb_spec, forallb_forall. split.
  - intros [Hs Hall]. split; [exact Hs|]. intros T' Hs'.
    set (T'' := filter (fun e => mem_edge e T') (map fst G)).
    assert (P : Permutation T' T'').
    { destruct Hs' as [Hnd [Hinc _]]. destruct Gwf as [_ [HndG _]]. apply NoDup_Permutation.
      - exact Hnd.
      - apply NoDup_filter. exact HndG.
      - intros e. unfold T''. rewrite filter_In, mem_edge_In. split; [intros H; split; [apply Hinc; exact H|exact H]|tauto]. }
    assert (Hin : In T'' (combs (length ns - 1) (map fst G))).
    { assert (L : length T'' = length ns - 1).
      { rewrite <- (Permutation_length P). destruct Hs' as [_ [_ [H3 _]]]. lia. }
      rewrite <- L. apply combs_filter. }
    specialize (Hall T'' Hin). apply orb_true_iff in Hall.
    rewrite (tree_weight_perm T' T'' P). destruct Hall as [Hall|Hall].
    + apply negb_true_iff in Hall. pose proof (spanning_tree_perm T' T'' P Hs') as Hs''.
      apply spanning_treeb_spec in Hs''. congruence.
    + apply Qcleb_le. exact Hall.
  - intros [Hs Hmax]. split; [exact Hs|]. intros T' _.
    destruct (spanning_treeb ns G T') eqn:E; [|reflexivity]. simpl.
    apply Qcleb_le. apply Hmax. apply spanning_treeb_spec. exact E.
Qed.
End MST.
