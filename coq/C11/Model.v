(* C11 model: score-based structure search of pgmpy, as coded.
     pgmpy/estimators/HillClimbSearch.py   _legal_operations, estimate
     pgmpy/estimators/ExhaustiveSearch.py  all_dags, all_scores, estimate
     pgmpy/estimators/TreeSearch.py        _create_tree_and_dag (nx.bfs_tree orientation), spanning tree check
   Executable definitions only; proofs are in Proofs*.v.

   Conventions
   * node names are interned to nat by the harness.
   * the local score is an ABSTRACT function [s : node -> list node -> Qc] of the variable and the
     parent LIST exactly as pgmpy passes it (old_parents + [X], [v for v in old if v != X]); no
     property of [s] is assumed except where a theorem says so.
   * a graph is Base.Graph.digraph; [edges g] is kept in INSERTION order (add = append, remove =
     filter), so that [parents g v] is networkx's predecessor order and [edges_nx g] (grouped by source
     node in node order) is the order of [model.edges()].
   * order of candidates: additions in itertools.permutations(self.variables, 2) order (a list since
     /repo d77f396; before that a python set, whose hash order broke ties), then removals, then flips,
     both in model.edges() order = [edges_nx].  max() keeps the first maximal element, so the run is a
     function of the inputs; [r_tie] only records that some iteration had two or more maximal
     candidates (evidence that tie-breaking was exercised; nothing depends on it).
     The one python set left is set(fixed_edges): its iteration order is the order of [fixed c], the
     order in which new fixed edges are appended to the start graph.
   * [nx.has_path] = Base.Graph.has_path (proved = dpath).  The flip test
        not any(len(path) > 2 for path in nx.all_simple_paths(model, X, Y))
     is modelled as "no path X ->* Y in model minus the edge (X,Y)"; Props.C11_flip_test_faithful proves
     that this is the same as "some repetition-free node list X..Y along edges has more than two nodes". *)
From Coq Require Import List Bool Arith Lia PeanoNat ZArith QArith Qcanon.
From PV Require Import Base.Graph.
Import ListNotations.
Local Open Scope nat_scope.

Definition edge := (node * node)%type.
Definition mem_edge (e : edge) (l : list edge) : bool := existsb (edge_eqb e) l.
Definition swap (e : edge) : edge := (snd e, fst e).

Inductive opk := OAdd | ODel | OFlip.
Definition op := (opk * edge)%type.
Definition opk_eqb (a b : opk) : bool :=
  match a, b with OAdd, OAdd | ODel, ODel | OFlip, OFlip => true | _, _ => false end.
Definition op_eqb (a b : op) : bool := opk_eqb (fst a) (fst b) && edge_eqb (snd a) (snd b).
Definition mem_op (o : op) (l : list op) : bool := existsb (op_eqb o) l.

Definition Qcltb (x y : Qc) : bool := match (x ?= y)%Qc with Lt => true | _ => false end.
Definition Qceqb (x y : Qc) : bool := match (x ?= y)%Qc with Eq => true | _ => false end.
Definition Qcleb (x y : Qc) : bool := negb (Qcltb y x).

(* ---- graph edits (networkx add_edge / remove_edge on a DiGraph whose nodes all exist) ---- *)
Definition add_edge (g : digraph) (e : edge) : digraph :=
  {| nodes := nodes g; edges := edges g ++ [e] |}.
Definition del_edge (g : digraph) (e : edge) : digraph :=
  {| nodes := nodes g; edges := filter (fun x => negb (edge_eqb e x)) (edges g) |}.
Definition flip_edge (g : digraph) (e : edge) : digraph := add_edge (del_edge g e) (swap e).
(* model.edges(): for u in nodes: for v in adj[u] *)
Definition edges_nx (g : digraph) : list edge :=
  flat_map (fun u => filter (fun e => Nat.eqb (fst e) u) (edges g)) (nodes g).

(* itertools.permutations(l, 2): positional pairs (l[i], l[j]), i <> j, lexicographic in (i, j) *)
Fixpoint perms2_aux (pre l : list node) : list edge :=
  match l with
  | [] => []
  | x :: r => map (pair x) (pre ++ r) ++ perms2_aux (pre ++ [x]) r
  end.
Definition perms2 (l : list node) : list edge := perms2_aux [] l.

(* python: max(iterable, key=lambda t: t[1], default=None) -- keeps the FIRST maximal element *)
Definition argmax_first {A} (l : list (A * Qc)) : option (A * Qc) :=
  match l with
  | [] => None
  | x :: r => Some (fold_left (fun best y => if Qcltb (snd best) (snd y) then y else best) r x)
  end.

Definition gen {A B} (okf : A -> bool) (f : A -> B) (l : list A) : list B :=
  flat_map (fun x => if okf x then [f x] else []) l.

Record hc_cfg := {
  vars : list node;              (* self.variables: the data columns, in order *)
  fixed : list edge;             (* set(fixed_edges), in its iteration order *)
  black : list edge;
  white : option (list edge);    (* None: every pair of variables *)
  max_indeg : option nat;        (* None: float("inf") *)
  tabu_len : option nat;         (* deque(maxlen=tabu_length); None: unbounded *)
  eps : Qc;
  max_iter : nat;
  prior : opk -> Qc              (* score.structure_prior_ratio(operation); 0 in every pgmpy score *)
}.

Section HC.
Variable s : node -> list node -> Qc.
Variable c : hc_cfg.

Definition white_ok (e : edge) : bool :=
  match white c with None => true | Some w => mem_edge e w end.
Definition indeg_ok (n : nat) : bool :=
  match max_indeg c with None => true | Some m => n <=? m end.
Definition drop (x : node) (l : list node) : list node := filter (fun v => negb (Nat.eqb v x)) l.

(* Step 1: additions *)
Definition add_ok (g : digraph) (tabu : list op) (e : edge) : bool :=
  let '(x, y) := e in
  negb (has_edge g x y) && negb (has_edge g y x)          (* potential_new_edges *)
  && negb (has_path g y x)                                (* not nx.has_path(model, Y, X) *)
  && negb (mem_op (OAdd, e) tabu) && negb (mem_edge e (black c)) && white_ok e
  && indeg_ok (length (parents g y ++ [x])).
Definition add_delta (g : digraph) (e : edge) : Qc :=
  let '(x, y) := e in (s y (parents g y ++ [x]) - s y (parents g y) + prior c OAdd)%Qc.
(* Step 2: removals *)
Definition del_ok (tabu : list op) (e : edge) : bool :=
  negb (mem_op (ODel, e) tabu) && negb (mem_edge e (fixed c)).
Definition del_delta (g : digraph) (e : edge) : Qc :=
  let '(x, y) := e in (s y (drop x (parents g y)) - s y (parents g y) + prior c ODel)%Qc.
(* Step 3: flips *)
Definition flip_ok (g : digraph) (tabu : list op) (e : edge) : bool :=
  let '(x, y) := e in
  negb (has_path (del_edge g e) x y)                      (* no other simple path X ~> Y *)
  && negb (mem_op (OFlip, (x, y)) tabu) && negb (mem_op (OFlip, (y, x)) tabu)
  && negb (mem_edge (x, y) (fixed c)) && negb (mem_edge (y, x) (black c)) && white_ok (y, x)
  && indeg_ok (length (parents g x ++ [y])).
Definition flip_delta (g : digraph) (e : edge) : Qc :=
  let '(x, y) := e in
  (s x (parents g x ++ [y]) + s y (drop x (parents g y)) - s x (parents g x) - s y (parents g y)
   + prior c OFlip)%Qc.

Definition op_delta (g : digraph) (o : op) : Qc :=
  match fst o with
  | OAdd => add_delta g (snd o) | ODel => del_delta g (snd o) | OFlip => flip_delta g (snd o)
  end.

Definition adds (g : digraph) (tabu : list op) : list (op * Qc) :=
  gen (add_ok g tabu) (fun e => ((OAdd, e), add_delta g e)) (perms2 (vars c)).
Definition dels (g : digraph) (tabu : list op) : list (op * Qc) :=
  gen (del_ok tabu) (fun e => ((ODel, e), del_delta g e)) (edges_nx g).
Definition flips (g : digraph) (tabu : list op) : list (op * Qc) :=
  gen (flip_ok g tabu) (fun e => ((OFlip, e), flip_delta g e)) (edges_nx g).
Definition legal_ops (g : digraph) (tabu : list op) : list (op * Qc) :=
  adds g tabu ++ dels g tabu ++ flips g tabu.

Definition apply_op (g : digraph) (o : op) : digraph :=
  match fst o with
  | OAdd => add_edge g (snd o) | ODel => del_edge g (snd o) | OFlip => flip_edge g (snd o)
  end.
Definition tabu_entry (o : op) : op :=
  match fst o with OAdd => (ODel, snd o) | ODel => (OAdd, snd o) | OFlip => o end.
Definition tabu_push (t : list op) (o : op) : list op :=
  let t' := t ++ [o] in
  match tabu_len c with None => t' | Some n => skipn (length t' - n) t' end.

(* two or more candidates attain the maximal delta [d] (informational) *)
Definition tie_at (g : digraph) (tabu : list op) (d : Qc) : bool :=
  2 <=? length (filter (fun od => Qceqb (snd od) d) (legal_ops g tabu)).

Record hc_res := { r_g : digraph; r_broke : bool; r_tie : bool; r_trace : list (op * Qc) }.

(* the for-loop of estimate; [r_broke] = left by `break` (no operation, or best delta < epsilon) *)
Fixpoint hc_loop (fuel : nat) (g : digraph) (tabu : list op) : hc_res :=
  match fuel with
  | 0 => {| r_g := g; r_broke := false; r_tie := false; r_trace := [] |}
  | S f =>
      match argmax_first (legal_ops g tabu) with
      | None => {| r_g := g; r_broke := true; r_tie := false; r_trace := [] |}
      | Some (o, d) =>
          if Qcltb d (eps c) then {| r_g := g; r_broke := true; r_tie := false; r_trace := [] |}
          else
            let r := hc_loop f (apply_op g o) (tabu_push tabu (tabu_entry o)) in
            {| r_g := r_g r; r_broke := r_broke r;
               r_tie := tie_at g tabu d || r_tie r; r_trace := (o, d) :: r_trace r |}
      end
  end.

(* start_dag.copy(); start_dag.add_edges_from(fixed_edges): an existing edge is left in place, a new one
   is appended; networkx also creates end points that are not nodes yet *)
Definition add_node (ns : list node) (v : node) : list node := if memn v ns then ns else ns ++ [v].
Definition seed_edge (g : digraph) (e : edge) : digraph :=
  {| nodes := add_node (add_node (nodes g) (fst e)) (snd e);
     edges := if has_edge g (fst e) (snd e) then edges g else edges g ++ [e] |}.
Definition seed (start : digraph) : digraph := fold_left seed_edge (fixed c) start.

Definition same_set (a b : list node) : bool :=
  forallb (fun x => memn x b) a && forallb (fun x => memn x a) b.

Inductive hc_out := HcErrNodes | HcErrCycle | HcOk (r : hc_res).
Definition hc_estimate (start : digraph) : hc_out :=
  if negb (same_set (nodes start) (vars c)) then HcErrNodes
  else let g0 := seed start in
       if negb (acyclicb g0) then HcErrCycle
       else HcOk (hc_loop (max_iter c) g0 []).

(* StructureScore.score(model): sum of local scores over the nodes (structure_prior = 0) *)
Definition total (g : digraph) : Qc :=
  fold_right (fun v acc => (s v (parents g v) + acc)%Qc) 0%Qc (nodes g).

(* ---------------------------------------------------------------- ExhaustiveSearch *)
(* itertools.combinations(l, r) *)
Fixpoint combs {A} (r : nat) (l : list A) : list (list A) :=
  match r with
  | 0 => [[]]
  | S r' => match l with
            | [] => []
            | x :: t => map (cons x) (combs r' t) ++ combs r t
            end
  end.
(* pgmpy.utils.mathext.powerset: chain(combinations(l, r) for r in range(len(l)+1)) *)
Definition powerset {A} (l : list A) : list (list A) :=
  flat_map (fun r => combs r l) (seq 0 (S (length l))).
Definition combs2 (l : list node) : list edge :=
  flat_map (fun p => match p with [a; b] => [(a, b)] | _ => [] end) (combs 2 l).
(* edges = list(combinations(nodes, 2)); edges.extend([(y, x) for x, y in edges]) *)
Definition all_pairs (ns : list node) : list edge := combs2 ns ++ map swap (combs2 ns).
(* all_dags: every edge subset whose graph is acyclic, sparse first.  (The node ORDER of the yielded
   nx.DiGraph -- end points in edge order, then the rest -- is not modelled: estimate() re-sorts it.) *)
Definition all_dags (ns : list node) : list digraph :=
  filter acyclicb (map (fun es => {| nodes := ns; edges := es |}) (powerset (all_pairs ns))).
(* estimate: max(all_dags(), key=score) *)
Definition exhaustive (ns : list node) : option (digraph * Qc) :=
  argmax_first (map (fun g => (g, total g)) (all_dags ns)).

End HC.

(* ---------------------------------------------------------------- TreeSearch (Chow-Liu) *)
(* an undirected graph is a list of edges; (u,v) and (v,u) denote the same edge *)
Definition nbrs (T : list edge) (u : node) : list node :=
  flat_map (fun e => if Nat.eqb (fst e) u then [snd e] else if Nat.eqb (snd e) u then [fst e] else []) T.

(* nx.bfs_tree(T, root) = generic_bfs_edges:
     seen = {root}; queue = [root]
     while queue: parent = queue.popleft()
        for child in neighbors(parent): if child not in seen: seen.add(child); yield parent, child; queue.append(child) *)
Record bfs_st := { b_queue : list node; b_seen : list node; b_out : list edge }.
Definition bfs_visit (u : node) (st : bfs_st) (w : node) : bfs_st :=
  if memn w (b_seen st) then st
  else {| b_queue := b_queue st ++ [w]; b_seen := b_seen st ++ [w]; b_out := b_out st ++ [(u, w)] |}.
Fixpoint bfs_loop (T : list edge) (fuel : nat) (st : bfs_st) : bfs_st :=
  match fuel with
  | 0 => st
  | S f => match b_queue st with
           | [] => st
           | u :: q =>
               bfs_loop T f (fold_left (bfs_visit u) (nbrs T u)
                               {| b_queue := q; b_seen := b_seen st; b_out := b_out st |})
           end
  end.
Definition bfs_orient (ns : list node) (T : list edge) (root : node) : list edge :=
  b_out (bfs_loop T (length ns) {| b_queue := [root]; b_seen := [root]; b_out := [] |}).

(* brute-force optimality check of a spanning tree.  G: the weight graph (edges with their non-zero
   weights, each undirected edge listed once); T: a list of edges of G. *)
Definition sym (T : list edge) : list edge := T ++ map swap T.
Definition ugraph (ns : list node) (T : list edge) : digraph := {| nodes := ns; edges := sym T |}.
Definition connectedb (ns : list node) (T : list edge) : bool :=
  match ns with
  | [] => true
  | r :: _ => forallb (fun v => has_path (ugraph ns T) r v) ns
  end.
Fixpoint nodupb (l : list edge) : bool :=
  match l with [] => true | x :: r => negb (mem_edge x r) && nodupb r end.
Definition weight_of (G : list (edge * Qc)) (e : edge) : Qc :=
  match find (fun p => edge_eqb e (fst p)) G with Some p => snd p | None => 0%Qc end.
Definition tree_weight (G : list (edge * Qc)) (T : list edge) : Qc :=
  fold_right (fun e acc => (weight_of G e + acc)%Qc) 0%Qc T.
Definition spanning_treeb (ns : list node) (G : list (edge * Qc)) (T : list edge) : bool :=
  nodupb T && forallb (fun e => mem_edge e (map fst G)) T
  && Nat.eqb (S (length T)) (length ns) && connectedb ns T.
Definition mst_chk (ns : list node) (G : list (edge * Qc)) (T : list edge) : bool :=
  spanning_treeb ns G T
  && forallb (fun T' => negb (spanning_treeb ns G T') || Qcleb (tree_weight G T') (tree_weight G T))
       (combs (length ns - 1) (map fst G)).
