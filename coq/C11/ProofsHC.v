(* C11: hill climbing proofs (invariants of the estimate loop, score accounting, local optimality) *)
From Coq Require Import List Bool Arith Lia PeanoNat ZArith QArith Qcanon.
From PV Require Import Base.Reach Base.Graph C11.Model C11.Spec.
Import ListNotations.
Local Open Scope nat_scope.

(* ---------------------------------------------------------------- comparisons on Qc *)
Lemma Qcltb_lt x y : Qcltb x y = true <-> (x < y)%Qc.
Proof.
  unfold Qcltb. rewrite Qclt_alt. destruct (x ?= y)%Qc; split; intros H; congruence.
Qed.
Lemma Qcltb_ge x y : Qcltb x y = false <-> (y <= x)%Qc.
Proof.
  split; intros H.
  - apply Qcnot_lt_le. intros L. apply Qcltb_lt in L. congruence.
  - destruct (Qcltb x y) eqn:E; [|reflexivity]. apply Qcltb_lt in E.
    exfalso. exact (Qcle_not_lt _ _ H E).
Qed.
Lemma Qcleb_le x y : Qcleb x y = true <-> (x <= y)%Qc.
Proof. unfold Qcleb. rewrite negb_true_iff. apply Qcltb_ge. Qed.

(* ---------------------------------------------------------------- membership *)
Lemma mem_edge_In e l : mem_edge e l = true <-> In e l.
Proof.
  unfold mem_edge. rewrite existsb_exists. split.
  - intros [x [Hx He]]. apply edge_eqb_eq in He. subst. exact Hx.
  - intros H. exists e. split; [exact H|apply edge_eqb_eq; reflexivity].
Qed.
Lemma mem_edge_false e l : mem_edge e l = false <-> ~ In e l.
Proof.
  split; intros H.
  - intros Hi. apply mem_edge_In in Hi. congruence.
  - destruct (mem_edge e l) eqn:E; [|reflexivity]. apply mem_edge_In in E. contradiction.
Qed.
Lemma has_edge_false g u v : has_edge g u v = false <-> ~ In (u, v) (edges g).
Proof.
  split; intros H.
  - intros Hi. apply has_edge_In in Hi. congruence.
  - destruct (has_edge g u v) eqn:E; [|reflexivity]. apply has_edge_In in E. contradiction.
Qed.

Lemma gen_In {A B} (okf : A -> bool) (f : A -> B) l y :
  In y (gen okf f l) <-> exists x, In x l /\ okf x = true /\ y = f x.
Proof.
  unfold gen. rewrite in_flat_map. split.
  - intros [x [Hx Hy]]. destruct (okf x) eqn:E; [|destruct Hy].
    destruct Hy as [Hy|[]]. exists x. auto.
  - intros [x [Hx [Ho Hy]]]. exists x. split; [exact Hx|]. rewrite Ho. left. auto.
Qed.

(* ---------------------------------------------------------------- argmax_first *)
Lemma fold_max_spec {A} (r : list (A * Qc)) : forall x,
  let m := fold_left (fun best y => if Qcltb (snd best) (snd y) then y else best) r x in
  In m (x :: r) /\ (snd x <= snd m)%Qc /\ forall y, In y r -> (snd y <= snd m)%Qc.
Proof.
  induction r as [|a r IH]; intros x; simpl.
  - split; [left; reflexivity|]. split; [apply Qcle_refl|intros y []].
  - destruct (Qcltb (snd x) (snd a)) eqn:E.
    + destruct (IH a) as [Hin [Hle Hall]]. split; [right; exact Hin|]. split.
      * apply Qcltb_lt in E. eapply Qcle_trans; [apply Qclt_le_weak; exact E|exact Hle].
      * intros y [Hy|Hy]; [subst; exact Hle|apply Hall; exact Hy].
    + destruct (IH x) as [Hin [Hle Hall]]. split.
      * destruct Hin as [Hin|Hin]; [left; exact Hin|right; right; exact Hin].
      * split; [exact Hle|]. intros y [Hy|Hy]; [|apply Hall; exact Hy]. subst.
        apply Qcltb_ge in E. eapply Qcle_trans; [exact E|exact Hle].
Qed.
Lemma argmax_first_spec {A} (l : list (A * Qc)) r :
  argmax_first l = Some r -> In r l /\ forall x, In x l -> (snd x <= snd r)%Qc.
Proof.
  destruct l as [|x t]; simpl; [discriminate|]. intros H. inversion H; subst. clear H.
  destruct (fold_max_spec t x) as [Hin [Hle Hall]]. split; [exact Hin|].
  intros y [Hy|Hy]; [subst; exact Hle|apply Hall; exact Hy].
Qed.
Lemma argmax_first_none {A} (l : list (A * Qc)) : argmax_first l = None -> l = [].
Proof. destruct l; simpl; [reflexivity|discriminate]. Qed.

(* ---------------------------------------------------------------- graph edits *)
Lemma In_add_edge g e e' : In e (edges (add_edge g e')) <-> In e (edges g) \/ e = e'.
Proof. unfold add_edge. simpl. rewrite in_app_iff. simpl. intuition. Qed.
Lemma In_del_edge g e e' : In e (edges (del_edge g e')) <-> In e (edges g) /\ e <> e'.
Proof.
  unfold del_edge. simpl. rewrite filter_In, negb_true_iff. split; intros [H1 H2]; split; auto.
  - intros ->. assert (edge_eqb e' e' = true) by (apply edge_eqb_eq; reflexivity). congruence.
  - destruct (edge_eqb e' e) eqn:E; [|reflexivity]. apply edge_eqb_eq in E. subst. contradiction.
Qed.

Lemma dpath_incl g g' u v :
  (forall e, In e (edges g) -> In e (edges g')) -> dpath g u v -> dpath g' u v.
Proof.
  intros Hi Hp. induction Hp as [|a b d _ IH He]; [apply dpath_refl|].
  eapply dpath_step; [exact IH|apply Hi; exact He].
Qed.

Lemma acyclic_sub g g' :
  (forall e, In e (edges g') -> In e (edges g)) -> acyclic g -> acyclic g'.
Proof.
  intros Hi Ha u v He Hp. apply (Ha u v (Hi _ He)). eapply dpath_incl; [|exact Hp]. exact Hi.
Qed.

Lemma dpath_add_split g x y a b :
  dpath (add_edge g (x, y)) a b -> dpath g a b \/ (dpath g a x /\ dpath g y b).
Proof.
  intros H. induction H as [a|a v w _ IH He].
  - left. apply dpath_refl.
  - apply In_add_edge in He. destruct He as [He|He].
    + destruct IH as [IH|[I1 I2]].
      * left. eapply dpath_step; eauto.
      * right. split; [exact I1|]. eapply dpath_step; eauto.
    + inversion He; subst. right. destruct IH as [IH|[I1 _]]; (split; [assumption|apply dpath_refl]).
Qed.

Lemma acyclic_add g x y : acyclic g -> ~ dpath g y x -> acyclic (add_edge g (x, y)).
Proof.
  intros Ha Hn u v He Hp. apply In_add_edge in He.
  apply dpath_add_split in Hp. destruct He as [He|He].
  - destruct Hp as [Hp|[P1 P2]]; [exact (Ha u v He Hp)|].
    apply Hn. eapply dpath_trans; [exact P2|]. eapply dpath_step_l; [exact He|exact P1].
  - inversion He; subst. destruct Hp as [Hp|[P1 _]]; apply Hn; assumption.
Qed.

Lemma acyclic_no_loop g u : acyclic g -> ~ In (u, u) (edges g).
Proof. intros Ha Hi. exact (Ha u u Hi (dpath_refl g u)). Qed.

Lemma wf_add g x y : wf_graph g -> In x (nodes g) -> In y (nodes g) -> wf_graph (add_edge g (x, y)).
Proof.
  intros [Hn He] Hx Hy. split; [exact Hn|]. intros u v Hi. apply In_add_edge in Hi.
  destruct Hi as [Hi|Hi]; [apply (He _ _ Hi)|]. inversion Hi; subst. split; assumption.
Qed.
Lemma wf_del g e : wf_graph g -> wf_graph (del_edge g e).
Proof.
  intros [Hn He]. split; [exact Hn|]. intros u v Hi. apply In_del_edge in Hi. apply (He _ _ (proj1 Hi)).
Qed.

Lemma edges_nx_In g e : wf_graph g -> (In e (edges_nx g) <-> In e (edges g)).
Proof.
  intros [_ He]. unfold edges_nx. rewrite in_flat_map. split.
  - intros [u [_ Hf]]. apply filter_In in Hf. exact (proj1 Hf).
  - intros Hi. destruct e as [a b]. exists a. split; [apply (He _ _ Hi)|].
    apply filter_In. split; [exact Hi|]. simpl. apply Nat.eqb_refl.
Qed.

(* itertools.permutations(l, 2) on distinct names: every ordered pair of different names *)
Lemma perms2_aux_In pre l a b : NoDup (pre ++ l) ->
  (In (a, b) (perms2_aux pre l) <-> In a l /\ In b (pre ++ l) /\ a <> b).
Proof.
  revert pre. induction l as [|x r IH]; intros pre Hnd; simpl.
  - split; [intros []|intros [[] _]].
  - rewrite in_app_iff, in_map_iff.
    assert (Hnd' : NoDup ((pre ++ [x]) ++ r)) by (rewrite <- app_assoc; exact Hnd).
    rewrite (IH (pre ++ [x]) Hnd'). rewrite <- app_assoc. simpl.
    apply NoDup_remove in Hnd. destruct Hnd as [Hnd1 Hnx].
    split.
    + intros [[z [Hz Hin]]|[Ha [Hb Hab]]].
      * inversion Hz; subst. split; [left; reflexivity|]. split.
        -- apply in_app_iff in Hin. apply in_app_iff. destruct Hin; [left|right; right]; assumption.
        -- intros ->. contradiction.
      * split; [right; exact Ha|]. split; assumption.
    + intros [[Ha|Ha] [Hb Hab]].
      * subst x. left. exists b. split; [reflexivity|].
        apply in_app_iff in Hb. apply in_app_iff. destruct Hb as [Hb|[Hb|Hb]]; [left; exact Hb|congruence|right; exact Hb].
      * right. split; [exact Ha|]. split; assumption.
Qed.
Lemma perms2_In l a b : NoDup l -> (In (a, b) (perms2 l) <-> In a l /\ In b l /\ a <> b).
Proof. intros H. unfold perms2. apply (perms2_aux_In [] l a b H). Qed.

(* predecessor lists after an edit *)
Lemma parents_add g x y v :
  parents (add_edge g (x, y)) v = if Nat.eqb v y then parents g v ++ [x] else parents g v.
Proof.
  unfold parents, add_edge. simpl. rewrite filter_app, map_app. simpl.
  rewrite (Nat.eqb_sym y v). destruct (Nat.eqb v y); simpl; [reflexivity|apply app_nil_r].
Qed.
Lemma parents_del g x y v :
  parents (del_edge g (x, y)) v = if Nat.eqb v y then drop x (parents g v) else parents g v.
Proof.
  unfold parents, del_edge, drop. simpl. destruct (Nat.eqb v y) eqn:Evy.
  - apply Nat.eqb_eq in Evy. subst v. induction (edges g) as [|[a b] t IH]; simpl; [reflexivity|].
    unfold edge_eqb at 1. simpl. destruct (Nat.eqb b y) eqn:Eby.
    + apply Nat.eqb_eq in Eby. subst b. rewrite Nat.eqb_refl, andb_true_r.
      simpl. rewrite (Nat.eqb_sym a x). destruct (Nat.eqb x a); simpl.
      * exact IH.
      * rewrite Nat.eqb_refl. simpl. rewrite IH. reflexivity.
    + rewrite (Nat.eqb_sym y b), Eby, andb_false_r. simpl. rewrite Eby. exact IH.
  - induction (edges g) as [|[a b] t IH]; simpl; [reflexivity|].
    unfold edge_eqb at 1. simpl. destruct (Nat.eqb b v) eqn:Ebv.
    + apply Nat.eqb_eq in Ebv. subst b. rewrite (Nat.eqb_sym y v), Evy, andb_false_r. simpl.
      rewrite Nat.eqb_refl. simpl. rewrite IH. reflexivity.
    + destruct (Nat.eqb x a && Nat.eqb y b); simpl; [exact IH|]. rewrite Ebv. exact IH.
Qed.

Lemma drop_length x l : length (drop x l) <= length l.
Proof. unfold drop. induction l as [|a t IH]; simpl; [lia|]. destruct (negb (Nat.eqb a x)); simpl; lia. Qed.

(* ---------------------------------------------------------------- sums over the node list *)
Section Sum.
Lemma sum_change (f f' : node -> Qc) (ns : list node) (y : node) :
  NoDup ns -> In y ns -> (forall v, v <> y -> f' v = f v) ->
  fold_right (fun v acc => (f' v + acc)%Qc) 0%Qc ns
  = (fold_right (fun v acc => (f v + acc)%Qc) 0%Qc ns + (f' y - f y))%Qc.
Proof.
  intros Hnd Hy Hf. induction ns as [|a t IH]; [destruct Hy|].
  simpl. inversion Hnd as [|? ? Hna Hnt]; subst. destruct Hy as [Hy|Hy].
  - subst a. assert (E : fold_right (fun v acc => (f' v + acc)%Qc) 0%Qc t
                        = fold_right (fun v acc => (f v + acc)%Qc) 0%Qc t).
    { clear IH Hnt Hnd. induction t as [|b t IHt]; [reflexivity|]. simpl.
      rewrite (Hf b); [|intros E; subst b; apply Hna; left; reflexivity].
      rewrite IHt; [reflexivity|]. intros Hi. apply Hna. right. exact Hi. }
    rewrite E. ring.
  - rewrite (IH Hnt Hy). rewrite (Hf a); [ring|]. intros ->. contradiction.
Qed.
End Sum.

(* ================================================================ the loop *)
Section HCProofs.
Variable s : node -> list node -> Qc.
Variable c : hc_cfg.
Hypothesis vars_nodup : NoDup (vars c).

Notation legal_ops := (legal_ops s c).
Notation hc_loop := (hc_loop s c).
Notation total := (total s).

(* base invariant: a well-formed DAG that has every variable as a node *)
Definition base (g : digraph) : Prop := wf_graph g /\ acyclic g /\ incl (vars c) (nodes g).

(* what membership in the generated list means, per kind *)
Lemma legal_ops_In g tabu o d :
  In (o, d) (legal_ops g tabu) <->
  (exists e, o = (OAdd, e) /\ In e (perms2 (vars c)) /\ add_ok c g tabu e = true /\ d = add_delta s c g e) \/
  (exists e, o = (ODel, e) /\ In e (edges_nx g) /\ del_ok c tabu e = true /\ d = del_delta s c g e) \/
  (exists e, o = (OFlip, e) /\ In e (edges_nx g) /\ flip_ok c g tabu e = true /\ d = flip_delta s c g e).
Proof.
  unfold Model.legal_ops, adds, dels, flips. rewrite !in_app_iff, !gen_In. split.
  - intros [[e [H1 [H2 H3]]]|[[e [H1 [H2 H3]]]|[e [H1 [H2 H3]]]]]; inversion H3; subst;
      [left|right; left|right; right]; exists e; auto.
  - intros [[e [H0 [H1 [H2 H3]]]]|[[e [H0 [H1 [H2 H3]]]]|[e [H0 [H1 [H2 H3]]]]]]; subst;
      [left|right; left|right; right]; exists e; auto.
Qed.

Lemma add_ok_spec g tabu x y : add_ok c g tabu (x, y) = true ->
  has_edge g x y = false /\ has_edge g y x = false /\ has_path g y x = false /\
  mem_op (OAdd, (x, y)) tabu = false /\ mem_edge (x, y) (black c) = false /\ white_ok c (x, y) = true /\
  indeg_ok c (length (parents g y ++ [x])) = true.
Proof.
  unfold add_ok. rewrite !andb_true_iff, !negb_true_iff. intuition.
Qed.
Lemma flip_ok_spec g tabu x y : flip_ok c g tabu (x, y) = true ->
  has_path (del_edge g (x, y)) x y = false /\
  mem_op (OFlip, (x, y)) tabu = false /\ mem_op (OFlip, (y, x)) tabu = false /\
  mem_edge (x, y) (fixed c) = false /\ mem_edge (y, x) (black c) = false /\ white_ok c (y, x) = true /\
  indeg_ok c (length (parents g x ++ [y])) = true.
Proof.
  unfold flip_ok. rewrite !andb_true_iff, !negb_true_iff. intuition.
Qed.
Lemma del_ok_spec tabu e : del_ok c tabu e = true ->
  mem_op (ODel, e) tabu = false /\ mem_edge e (fixed c) = false.
Proof. unfold del_ok. rewrite !andb_true_iff, !negb_true_iff. intuition. Qed.

Lemma not_path_of_false g u v : wf_graph g -> has_path g u v = false -> ~ dpath g u v.
Proof. intros Hw H Hp. apply (has_path_spec g u v Hw) in Hp. congruence. Qed.

(* one generated operation, unfolded *)
Inductive step_of (g : digraph) (tabu : list op) : op -> Prop :=
| S_add x y : In x (vars c) -> In y (vars c) -> x <> y -> add_ok c g tabu (x, y) = true ->
              step_of g tabu (OAdd, (x, y))
| S_del x y : In (x, y) (edges g) -> del_ok c tabu (x, y) = true -> step_of g tabu (ODel, (x, y))
| S_flip x y : In (x, y) (edges g) -> flip_ok c g tabu (x, y) = true -> step_of g tabu (OFlip, (x, y)).

Lemma legal_ops_step g tabu o d : wf_graph g ->
  In (o, d) (legal_ops g tabu) -> step_of g tabu o /\ d = op_delta s c g o.
Proof.
  intros Hw H. apply legal_ops_In in H.
  destruct H as [[[x y] [-> [H1 [H2 ->]]]]|[[[x y] [-> [H1 [H2 ->]]]]|[[x y] [-> [H1 [H2 ->]]]]]].
  - apply (perms2_In _ _ _ vars_nodup) in H1. destruct H1 as [Hx [Hy Hxy]].
    split; [constructor; assumption|reflexivity].
  - apply (edges_nx_In g _ Hw) in H1. split; [constructor; assumption|reflexivity].
  - apply (edges_nx_In g _ Hw) in H1. split; [constructor; assumption|reflexivity].
Qed.

Lemma base_step g tabu o : base g -> step_of g tabu o -> base (apply_op g o).
Proof.
  intros [Hw [Ha Hv]] Hs. destruct Hs as [x y Hx Hy Hxy Hok|x y He Hok|x y He Hok]; unfold apply_op; cbn [fst snd].
  - apply add_ok_spec in Hok. destruct Hok as [_ [_ [Hp _]]].
    split; [apply wf_add; auto|]. split; [|exact Hv].
    apply acyclic_add; [exact Ha|]. apply not_path_of_false; assumption.
  - split; [apply wf_del; exact Hw|]. split; [|exact Hv].
    eapply acyclic_sub; [|exact Ha]. intros e Hi. apply In_del_edge in Hi. exact (proj1 Hi).
  - apply flip_ok_spec in Hok. destruct Hok as [Hp _].
    destruct Hw as [Hn Hend]. destruct (Hend _ _ He) as [Hxn Hyn].
    assert (Hw : wf_graph g) by (split; assumption).
    unfold flip_edge, swap. simpl. split; [apply wf_add; [apply wf_del; exact Hw|exact Hyn|exact Hxn]|].
    split; [|exact Hv]. apply acyclic_add.
    + eapply acyclic_sub; [|exact Ha]. intros e Hi. apply In_del_edge in Hi. exact (proj1 Hi).
    + apply not_path_of_false; [apply wf_del; exact Hw|exact Hp].
Qed.

(* ---- generic induction over the loop ---- *)
Lemma hc_loop_ind (P : digraph -> Prop) :
  (forall g tabu o d, base g -> P g -> step_of g tabu o -> d = op_delta s c g o -> (eps c <= d)%Qc ->
                      P (apply_op g o)) ->
  forall fuel g tabu, base g -> P g ->
    base (r_g (hc_loop fuel g tabu)) /\ P (r_g (hc_loop fuel g tabu)).
Proof.
  intros Hstep fuel. induction fuel as [|f IH]; intros g tabu Hb HP; simpl; [split; assumption|].
  destruct (argmax_first (legal_ops g tabu)) as [[o d]|] eqn:E; simpl; [|split; assumption].
  destruct (Qcltb d (eps c)) eqn:El; simpl; [split; assumption|].
  apply argmax_first_spec in E. destruct E as [Hin _].
  destruct (legal_ops_step g tabu o d (proj1 Hb) Hin) as [Hs Hd].
  apply IH; [eapply base_step; eauto|]. eapply Hstep; eauto. apply Qcltb_ge. exact El.
Qed.

Lemma hc_loop_base fuel g tabu : base g -> base (r_g (hc_loop fuel g tabu)).
Proof. intros Hb. apply (hc_loop_ind (fun _ => True)); auto. Qed.

Lemma hc_loop_nodes fuel g tabu : nodes (r_g (hc_loop fuel g tabu)) = nodes g.
Proof.
  revert g tabu. induction fuel as [|f IH]; intros g tabu; simpl; [reflexivity|].
  destruct (argmax_first (legal_ops g tabu)) as [[o d]|]; simpl; [|reflexivity].
  destruct (Qcltb d (eps c)); simpl; [reflexivity|]. rewrite IH.
  unfold apply_op. destruct (fst o); reflexivity.
Qed.

(* fixed edges stay *)
Lemma hc_loop_fixed fuel g tabu : base g ->
  (forall e, In e (fixed c) -> In e (edges g)) ->
  forall e, In e (fixed c) -> In e (edges (r_g (hc_loop fuel g tabu))).
Proof.
  intros Hb H0.
  apply (hc_loop_ind (fun g => forall e, In e (fixed c) -> In e (edges g))); [|exact Hb|exact H0].
  clear. intros g tabu o d _ HP Hs _ _ e He. specialize (HP e He).
  destruct Hs as [x y _ _ _ _|x y Hi Hok|x y Hi Hok]; unfold apply_op; cbn [fst snd].
  - apply In_add_edge. left. exact HP.
  - apply del_ok_spec in Hok. destruct Hok as [_ Hf]. apply mem_edge_false in Hf.
    apply In_del_edge. split; [exact HP|]. intros ->. contradiction.
  - apply flip_ok_spec in Hok. destruct Hok as [_ [_ [_ [Hf _]]]]. apply mem_edge_false in Hf.
    unfold flip_edge. apply In_add_edge. left. apply In_del_edge. split; [exact HP|]. intros ->. contradiction.
Qed.

(* every edge that was not in the (seeded) start graph is allowed by the black and the white list *)
Definition allowed (e : edge) : Prop := ~ In e (black c) /\ in_white (white c) e.
Lemma white_ok_in e : white_ok c e = true -> in_white (white c) e.
Proof. unfold white_ok, in_white. destruct (white c); [apply mem_edge_In|auto]. Qed.
Lemma in_white_ok e : in_white (white c) e -> white_ok c e = true.
Proof. unfold white_ok, in_white. destruct (white c); [apply mem_edge_In|auto]. Qed.

Lemma hc_loop_provenance fuel g tabu : base g ->
  forall e, In e (edges (r_g (hc_loop fuel g tabu))) -> In e (edges g) \/ allowed e.
Proof.
  intros Hb.
  apply (hc_loop_ind (fun g' => forall e, In e (edges g') -> In e (edges g) \/ allowed e)); [|exact Hb|auto].
  clear. intros g' tabu o d _ HP Hs _ _ e He.
  destruct Hs as [x y _ _ _ Hok|x y Hi Hok|x y Hi Hok]; unfold apply_op in He; cbn [fst snd] in He.
  - apply In_add_edge in He. destruct He as [He|He]; [auto|]. subst e.
    apply add_ok_spec in Hok. destruct Hok as [_ [_ [_ [_ [Hb [Hw _]]]]]].
    right. split; [apply mem_edge_false; exact Hb|apply white_ok_in; exact Hw].
  - apply In_del_edge in He. apply HP. exact (proj1 He).
  - unfold flip_edge, swap in He. apply In_add_edge in He. destruct He as [He|He].
    + apply In_del_edge in He. apply HP. exact (proj1 He).
    + subst e. simpl. apply flip_ok_spec in Hok. destruct Hok as [_ [_ [_ [_ [Hb [Hw _]]]]]].
      right. split; [apply mem_edge_false; exact Hb|apply white_ok_in; exact Hw].
Qed.

(* in-degree bound *)
Lemma indeg_ok_le n m : n <= m -> indeg_ok c m = true -> indeg_ok c n = true.
Proof.
  unfold indeg_ok. destruct (max_indeg c) as [k|]; [|auto]. intros H1 H2.
  apply Nat.leb_le in H2. apply Nat.leb_le. lia.
Qed.
Lemma indeg_within_ok g : indeg_within (max_indeg c) g <-> forall v, indeg_ok c (length (parents g v)) = true.
Proof.
  unfold indeg_within, indeg_ok. destruct (max_indeg c) as [k|]; [|tauto].
  split; intros H v; [apply Nat.leb_le|apply Nat.leb_le]; apply H.
Qed.
Lemma hc_loop_indegree fuel g tabu : base g ->
  indeg_within (max_indeg c) g -> indeg_within (max_indeg c) (r_g (hc_loop fuel g tabu)).
Proof.
  intros Hb H0. apply indeg_within_ok.
  apply (hc_loop_ind (fun g => forall v, indeg_ok c (length (parents g v)) = true));
    [|exact Hb|apply indeg_within_ok; exact H0].
  clear. intros g tabu o d _ HP Hs _ _ v.
  destruct Hs as [x y _ _ _ Hok|x y Hi Hok|x y Hi Hok]; unfold apply_op; cbn [fst snd].
  - rewrite parents_add. destruct (Nat.eqb v y) eqn:E; [|apply HP].
    apply Nat.eqb_eq in E. subst v. apply add_ok_spec in Hok. apply Hok.
  - rewrite parents_del. destruct (Nat.eqb v y); [|apply HP].
    eapply indeg_ok_le; [apply drop_length|apply HP].
  - unfold flip_edge, swap. simpl. rewrite parents_add, parents_del.
    apply flip_ok_spec in Hok. destruct Hok as [_ [_ [_ [_ [_ [_ Hd]]]]]].
    destruct (Nat.eqb v x) eqn:E1; destruct (Nat.eqb v y) eqn:E2.
    + apply Nat.eqb_eq in E1. subst v. rewrite app_length in *. simpl in *.
      eapply indeg_ok_le; [|exact Hd]. pose proof (drop_length x (parents g x)). lia.
    + apply Nat.eqb_eq in E1. subst v. exact Hd.
    + eapply indeg_ok_le; [apply drop_length|apply HP].
    + apply HP.
Qed.

(* ---- score accounting: total(apply o) = total + (delta - prior) ---- *)
Lemma total_add g x y : NoDup (nodes g) -> In y (nodes g) ->
  total (add_edge g (x, y)) = (total g + (s y (parents g y ++ [x]) - s y (parents g y)))%Qc.
Proof.
  intros Hn Hy. unfold Model.total. simpl nodes.
  rewrite (sum_change (fun v => s v (parents g v)) (fun v => s v (parents (add_edge g (x, y)) v)) (nodes g) y Hn Hy).
  - rewrite parents_add, Nat.eqb_refl. reflexivity.
  - intros v Hv. rewrite parents_add. apply Nat.eqb_neq in Hv. rewrite Hv. reflexivity.
Qed.
Lemma total_del g x y : NoDup (nodes g) -> In y (nodes g) ->
  total (del_edge g (x, y)) = (total g + (s y (drop x (parents g y)) - s y (parents g y)))%Qc.
Proof.
  intros Hn Hy. unfold Model.total. simpl nodes.
  rewrite (sum_change (fun v => s v (parents g v)) (fun v => s v (parents (del_edge g (x, y)) v)) (nodes g) y Hn Hy).
  - rewrite parents_del, Nat.eqb_refl. reflexivity.
  - intros v Hv. rewrite parents_del. apply Nat.eqb_neq in Hv. rewrite Hv. reflexivity.
Qed.

Lemma total_step g tabu o : base g -> step_of g tabu o ->
  total (apply_op g o) = (total g + (op_delta s c g o - prior c (fst o)))%Qc.
Proof.
  intros [[Hn Hend] [Ha Hv]] Hs.
  destruct Hs as [x y Hx Hy Hxy Hok|x y Hi Hok|x y Hi Hok]; unfold apply_op, op_delta, add_delta, del_delta, flip_delta; cbn [fst snd].
  - rewrite total_add; [ring|exact Hn|apply Hv; exact Hy].
  - rewrite total_del; [ring|exact Hn|apply (Hend _ _ Hi)].
  - destruct (Hend _ _ Hi) as [Hxn Hyn]. unfold flip_edge, swap. simpl.
    rewrite total_add; [|exact Hn|exact Hxn]. rewrite total_del; [|exact Hn|exact Hyn].
    rewrite parents_del.
    assert (Hxy : Nat.eqb x y = false).
    { apply Nat.eqb_neq. intros ->. exact (acyclic_no_loop g y Ha Hi). }
    rewrite Hxy. ring.
Qed.

Definition trace_gain (tr : list (op * Qc)) : Qc :=
  fold_right (fun od acc => (snd od - prior c (fst (fst od)) + acc)%Qc) 0%Qc tr.

Lemma hc_loop_total fuel : forall g tabu, base g ->
  let r := hc_loop fuel g tabu in
  total (r_g r) = (total g + trace_gain (r_trace r))%Qc /\
  Forall (fun od => (eps c <= snd od)%Qc) (r_trace r).
Proof.
  induction fuel as [|f IH]; intros g tabu Hb; simpl.
  - split; [unfold trace_gain; simpl; ring|constructor].
  - destruct (argmax_first (legal_ops g tabu)) as [[o d]|] eqn:E; simpl;
      [|split; [unfold trace_gain; simpl; ring|constructor]].
    destruct (Qcltb d (eps c)) eqn:El; simpl; [split; [unfold trace_gain; simpl; ring|constructor]|].
    apply argmax_first_spec in E. destruct E as [Hin _].
    destruct (legal_ops_step g tabu o d (proj1 Hb) Hin) as [Hs Hd].
    destruct (IH (apply_op g o) (tabu_push c tabu (tabu_entry o)) (base_step g tabu o Hb Hs)) as [I1 I2].
    split.
    + rewrite I1. rewrite (total_step g tabu o Hb Hs). unfold trace_gain. simpl. rewrite Hd. ring.
    + constructor; [simpl; apply Qcltb_ge; exact El|exact I2].
Qed.

Lemma trace_gain_nonneg tr :
  (forall k, prior c k = 0%Qc) -> (0 <= eps c)%Qc -> Forall (fun od => (eps c <= snd od)%Qc) tr ->
  (0 <= trace_gain tr)%Qc.
Proof.
  intros Hp He H. induction H as [|od tr Hd _ IH]; simpl; [apply Qcle_refl|].
  rewrite Hp. assert (H0 : (0 <= snd od)%Qc) by (exact (Qcle_trans _ _ _ He Hd)).
  pose proof (Qcplus_le_compat _ _ _ _ H0 IH) as P. rewrite Qcplus_0_l in P.
  eapply Qcle_trans; [exact P|]. apply Qcplus_le_compat; [|apply Qcle_refl].
  assert (E : forall q : Qc, (q <= q - 0)%Qc).
  { intros q. assert (E' : (q - 0 = q)%Qc) by ring. rewrite E'. apply Qcle_refl. }
  apply E.
Qed.

(* ---- local optimum: tabu list disabled, loop left by `break` ---- *)
Lemma tabu_push_zero t o : tabu_len c = Some 0 -> tabu_push c t o = [].
Proof. intros H. unfold tabu_push. rewrite H. rewrite Nat.sub_0_r. apply skipn_all. Qed.

Lemma hc_loop_break fuel : forall g, tabu_len c = Some 0 ->
  r_broke (hc_loop fuel g []) = true ->
  forall od, In od (legal_ops (r_g (hc_loop fuel g [])) []) -> (snd od < eps c)%Qc.
Proof.
  induction fuel as [|f IH]; intros g Ht; simpl; [discriminate|].
  destruct (argmax_first (legal_ops g [])) as [[o d]|] eqn:E; simpl.
  - destruct (Qcltb d (eps c)) eqn:El; simpl.
    + intros _ od Hin. apply argmax_first_spec in E. destruct E as [_ Hmax].
      apply Qcltb_lt in El. eapply Qcle_lt_trans; [apply (Hmax od Hin)|exact El].
    + rewrite (tabu_push_zero [] (tabu_entry o) Ht). apply IH. exact Ht.
  - intros _ od Hin. apply argmax_first_none in E. rewrite E in Hin. destruct Hin.
Qed.

(* completeness of the generator w.r.t. the specification of a legal move (empty tabu list) *)
Lemma indeg_ok_of_spec n : (forall k, max_indeg c = Some k -> n <= k) -> indeg_ok c n = true.
Proof. unfold indeg_ok. destruct (max_indeg c) as [k|]; [|auto]. intros H. apply Nat.leb_le. apply H. reflexivity. Qed.

Lemma legal_move_generated g o : base g -> legal_move c g o ->
  In (o, op_delta s c g o) (legal_ops g []).
Proof.
  intros [Hw [Ha Hv]] Hl. apply legal_ops_In.
  destruct Hl as [x y Hx Hy Hxy Hn1 Hn2 Hb Hwh Hd Hac|x y Hi Hf|x y Hi Hf Hb Hwh Hd Hac].
  - left. exists (x, y). split; [reflexivity|]. split; [apply perms2_In; auto|]. split; [|reflexivity].
    unfold add_ok. rewrite !andb_true_iff, !negb_true_iff. repeat split.
    + apply has_edge_false. exact Hn1.
    + apply has_edge_false. exact Hn2.
    + destruct (has_path g y x) eqn:E; [|reflexivity]. apply (has_path_spec g y x Hw) in E. exfalso.
      apply (Hac x y); [apply In_add_edge; right; reflexivity|].
      eapply dpath_incl; [|exact E]. intros e He. apply In_add_edge. left. exact He.
    + apply mem_edge_false. exact Hb.
    + apply in_white_ok. exact Hwh.
    + apply indeg_ok_of_spec. intros k Hk. rewrite app_length. simpl. specialize (Hd k Hk). lia.
  - right. left. exists (x, y). split; [reflexivity|]. split; [apply edges_nx_In; assumption|].
    split; [|reflexivity]. unfold del_ok. simpl. apply negb_true_iff, mem_edge_false. exact Hf.
  - right. right. exists (x, y). split; [reflexivity|]. split; [apply edges_nx_In; assumption|].
    split; [|reflexivity]. unfold flip_ok. rewrite !andb_true_iff, !negb_true_iff. simpl. repeat split.
    + destruct (has_path (del_edge g (x, y)) x y) eqn:E; [|reflexivity].
      apply (has_path_spec _ x y (wf_del g (x, y) Hw)) in E. exfalso.
      apply (Hac y x); [unfold flip_edge, swap; apply In_add_edge; right; reflexivity|].
      eapply dpath_incl; [|exact E]. intros e He. unfold flip_edge. apply In_add_edge. left. exact He.
    + apply mem_edge_false. exact Hf.
    + apply mem_edge_false. exact Hb.
    + apply in_white_ok. exact Hwh.
    + apply indeg_ok_of_spec. intros k Hk. rewrite app_length. simpl. specialize (Hd k Hk). lia.
Qed.

(* soundness of the generator: whatever it proposes is a legal move (any tabu list) *)
Lemma generated_legal g tabu o : base g -> step_of g tabu o -> legal_move c g o.
Proof.
  intros Hb Hs. pose proof (base_step g tabu o Hb Hs) as [_ [Hac _]]. destruct Hb as [Hw [Ha Hv]].
  destruct Hs as [x y Hx Hy Hxy Hok|x y Hi Hok|x y Hi Hok].
  - apply add_ok_spec in Hok. destruct Hok as [H1 [H2 [_ [_ [H5 [H6 H7]]]]]].
    constructor; auto.
    + apply has_edge_false; exact H1.
    + apply has_edge_false; exact H2.
    + apply mem_edge_false; exact H5.
    + apply white_ok_in; exact H6.
    + intros k Hk. unfold indeg_ok in H7. rewrite Hk in H7. apply Nat.leb_le in H7.
      rewrite app_length in H7. simpl in H7. lia.
  - apply del_ok_spec in Hok. constructor; [exact Hi|apply mem_edge_false; apply Hok].
  - apply flip_ok_spec in Hok. destruct Hok as [_ [_ [_ [H4 [H5 [H6 H7]]]]]].
    constructor; auto.
    + apply mem_edge_false; exact H4.
    + apply mem_edge_false; exact H5.
    + apply white_ok_in; exact H6.
    + intros k Hk. unfold indeg_ok in H7. rewrite Hk in H7. apply Nat.leb_le in H7.
      rewrite app_length in H7. simpl in H7. lia.
Qed.

(* ---- seeding ---- *)
Lemma add_node_id ns v : In v ns -> add_node ns v = ns.
Proof. intros H. unfold add_node. apply memn_In in H. rewrite H. reflexivity. Qed.

Lemma seed_spec start :
  wf_graph start -> (forall u v, In (u, v) (fixed c) -> In u (nodes start) /\ In v (nodes start)) ->
  let g0 := seed c start in
  nodes g0 = nodes start /\ wf_graph g0 /\
  (forall e, In e (edges g0) <-> In e (edges start) \/ In e (fixed c)).
Proof.
  unfold seed. generalize (fixed c) as fx. intros fx. revert start.
  induction fx as [|[a b] t IH]; intros start Hw Hf; simpl.
  - split; [reflexivity|]. split; [exact Hw|]. intros e. tauto.
  - destruct (Hf a b (or_introl eq_refl)) as [Ha Hb].
    assert (Hn : nodes (seed_edge start (a, b)) = nodes start).
    { unfold seed_edge. simpl. rewrite (add_node_id _ a Ha). apply add_node_id. exact Hb. }
    assert (He : forall e, In e (edges (seed_edge start (a, b))) <-> In e (edges start) \/ e = (a, b)).
    { intros e. unfold seed_edge. simpl. destruct (has_edge start a b) eqn:E.
      - apply has_edge_In in E. split; [auto|]. intros [H|H]; [exact H|subst; exact E].
      - rewrite in_app_iff. simpl. intuition. }
    assert (Hw' : wf_graph (seed_edge start (a, b))).
    { split; [rewrite Hn; apply Hw|]. intros u v Hi. rewrite Hn. apply He in Hi.
      destruct Hi as [Hi|Hi]; [apply (proj2 Hw _ _ Hi)|]. inversion Hi; subst. auto. }
    destruct (IH (seed_edge start (a, b)) Hw') as [I1 [I2 I3]].
    { intros u v Hi. rewrite Hn. apply Hf. right. exact Hi. }
    split; [rewrite I1; exact Hn|]. split; [exact I2|].
    intros e. rewrite I3, He. intuition.
Qed.

Lemma same_set_spec a b : same_set a b = true <-> (forall x, In x a <-> In x b).
Proof.
  unfold same_set. rewrite andb_true_iff, !forallb_forall. split.
  - intros [H1 H2] x. split; intros H; apply memn_In; auto.
  - intros H. split; intros x Hx; apply memn_In; apply H; exact Hx.
Qed.

End HCProofs.

(* unpacking a successful estimate() *)
Lemma hc_ok_inv s c start r : NoDup (vars c) -> wf_graph start -> fixed_within c start ->
  hc_estimate s c start = HcOk r ->
  r = hc_loop s c (max_iter c) (seed c start) [] /\ base c (seed c start) /\
  nodes (seed c start) = nodes start /\ (forall x, In x (nodes start) <-> In x (vars c)) /\
  (forall e, In e (edges (seed c start)) <-> In e (edges start) \/ In e (fixed c)).
Proof.
  intros Hv Hw Hf H. unfold hc_estimate in H.
  destruct (same_set (nodes start) (vars c)) eqn:E1; simpl in H; [|discriminate].
  destruct (acyclicb (seed c start)) eqn:E2; simpl in H; [|discriminate].
  inversion H; subst. clear H. destruct (seed_spec s c start Hw Hf) as [S1 [S2 S3]].
  pose proof (proj1 (same_set_spec _ _) E1) as E1'.
  split; [reflexivity|]. split.
  { split; [exact S2|]. split; [apply acyclicb_spec; assumption|]. intros x Hx. rewrite S1. apply E1'. exact Hx. }
  split; [exact S1|]. split; [exact E1'|exact S3].
Qed.


Lemma nodup3 (a b d : nat) : a <> b -> a <> d -> b <> d -> NoDup [a; b; d].
Proof.
  intros. constructor; [simpl; intuition|]. constructor; [simpl; intuition|]. constructor; [simpl; tauto|constructor].
Qed.


(* ---------------------------------------------------------------- the loop reads fixed_edges as a SET *)
Definition with_fixed (c : hc_cfg) (fx : list edge) : hc_cfg :=
  {| vars := vars c; fixed := fx; black := black c; white := white c; max_indeg := max_indeg c;
     tabu_len := tabu_len c; eps := eps c; max_iter := max_iter c; prior := prior c |}.

Lemma mem_edge_same l l' e : (forall x, In x l <-> In x l') -> mem_edge e l = mem_edge e l'.
Proof.
  intros H. destruct (mem_edge e l') eqn:E.
  - apply mem_edge_In. apply H. apply mem_edge_In. exact E.
  - apply mem_edge_false. intros Hi. apply H in Hi. apply mem_edge_In in Hi. congruence.
Qed.
Lemma gen_ext {A B} (okf okf' : A -> bool) (f : A -> B) l :
  (forall x, okf x = okf' x) -> gen okf f l = gen okf' f l.
Proof. intros H. unfold gen. induction l as [|x t IH]; simpl; [reflexivity|]. rewrite H, IH. reflexivity. Qed.

Lemma legal_ops_fixed_set s c fx g tabu : (forall x, In x (fixed c) <-> In x fx) ->
  legal_ops s (with_fixed c fx) g tabu = legal_ops s c g tabu.
Proof.
  intros H. unfold legal_ops.
  assert (Hm : forall e, mem_edge e fx = mem_edge e (fixed c)).
  { intros e. apply mem_edge_same. intros z. symmetry. apply H. }
  assert (E1 : adds s (with_fixed c fx) g tabu = adds s c g tabu) by reflexivity.
  assert (E2 : dels s (with_fixed c fx) g tabu = dels s c g tabu).
  { unfold dels. apply gen_ext. intros [x y]. unfold del_ok. simpl. rewrite Hm. reflexivity. }
  assert (E3 : flips s (with_fixed c fx) g tabu = flips s c g tabu).
  { unfold flips. apply gen_ext. intros [x y]. unfold flip_ok. simpl. rewrite Hm. reflexivity. }
  rewrite E1, E2, E3. reflexivity.
Qed.

Lemma hc_loop_fixed_set s c fx : (forall x, In x (fixed c) <-> In x fx) ->
  forall fuel g tabu, hc_loop s (with_fixed c fx) fuel g tabu = hc_loop s c fuel g tabu.
Proof.
  intros H. induction fuel as [|f IH]; intros g tabu; simpl; [reflexivity|].
  rewrite (legal_ops_fixed_set s c fx g tabu H).
  destruct (argmax_first (legal_ops s c g tabu)) as [[o d]|]; [|reflexivity].
  destruct (Qcltb d (eps c)); [reflexivity|].
  unfold tie_at. rewrite (legal_ops_fixed_set s c fx g tabu H).
  change (tabu_push (with_fixed c fx) tabu (tabu_entry o)) with (tabu_push c tabu (tabu_entry o)).
  rewrite IH. reflexivity.
Qed.
