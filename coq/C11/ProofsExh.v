(* C11: exhaustive search proofs (enumeration of all DAGs is sound and complete; argmax) *)
From Coq Require Import List Bool Arith Lia PeanoNat ZArith QArith Qcanon.
From PV Require Import Base.Reach Base.Graph C11.Model C11.Spec C11.ProofsHC.
Import ListNotations.
Local Open Scope nat_scope.

(* ---- itertools.combinations ---- *)
Lemma combs_0 {A} (l : list A) : combs 0 l = [[]].
Proof. destruct l; reflexivity. Qed.

Lemma combs_incl {A} (l : list A) : forall r c, In c (combs r l) -> incl c l /\ length c = r.
Proof.
  induction l as [|x t IH]; intros r c H.
  - destruct r; simpl in H; [|destruct H]. destruct H as [H|[]]. subst. split; [intros z []|reflexivity].
  - destruct r as [|r].
    + rewrite combs_0 in H. destruct H as [H|[]]. subst. split; [intros z []|reflexivity].
    + simpl in H. apply in_app_iff in H. destruct H as [H|H].
      * apply in_map_iff in H. destruct H as [c' [Hc Hin]]. subst c. destruct (IH r c' Hin) as [Hi Hl].
        split; [|simpl; lia]. intros z [Hz|Hz]; [left; exact Hz|right; apply Hi; exact Hz].
      * destruct (IH (S r) c H) as [Hi Hl]. split; [|exact Hl]. intros z Hz. right. apply Hi. exact Hz.
Qed.

Lemma combs_filter {A} (p : A -> bool) (l : list A) : In (filter p l) (combs (length (filter p l)) l).
Proof.
  induction l as [|x t IH]; simpl; [left; reflexivity|].
  destruct (p x); simpl.
  - apply in_or_app. left. apply in_map. exact IH.
  - destruct (length (filter p t)) eqn:E.
    + left. symmetry. apply length_zero_iff_nil. exact E.
    + apply in_or_app. right. exact IH.
Qed.

Lemma filter_length_le' {A} (p : A -> bool) l : length (filter p l) <= length l.
Proof. induction l as [|x t IH]; simpl; [lia|]. destruct (p x); simpl; lia. Qed.

Lemma powerset_filter {A} (p : A -> bool) (l : list A) : In (filter p l) (powerset l).
Proof.
  unfold powerset. apply in_flat_map. exists (length (filter p l)). split; [|apply combs_filter].
  apply in_seq. pose proof (filter_length_le' p l). lia.
Qed.
Lemma powerset_incl {A} (l c : list A) : In c (powerset l) -> incl c l.
Proof.
  unfold powerset. intros H. apply in_flat_map in H. destruct H as [r [_ H]]. apply (combs_incl l r c H).
Qed.

(* ---- the candidate edge list ---- *)
Lemma combs1 {A} (l : list A) : combs 1 l = map (fun y => [y]) l.
Proof. induction l as [|x t IH]; simpl; [reflexivity|]. rewrite combs_0. simpl. rewrite <- IH. reflexivity. Qed.
Lemma combs2_cons x t : combs2 (x :: t) = map (pair x) t ++ combs2 t.
Proof.
  unfold combs2. simpl combs. rewrite flat_map_app. f_equal.
  rewrite combs1. induction t as [|y t IH]; simpl; [reflexivity|]. f_equal. exact IH.
Qed.
Lemma combs2_In l a b : In (a, b) (combs2 l) -> In a l /\ In b l /\ (NoDup l -> a <> b).
Proof.
  induction l as [|x t IH]; [intros []|]. rewrite combs2_cons, in_app_iff, in_map_iff.
  intros [[z [Hz Hin]]|H].
  - inversion Hz; subst. split; [left; reflexivity|]. split; [right; exact Hin|].
    intros Hnd E. subst. inversion Hnd; contradiction.
  - destruct (IH H) as [Ha [Hb Hab]]. split; [right; exact Ha|]. split; [right; exact Hb|].
    intros Hnd. inversion Hnd; auto.
Qed.
Lemma combs2_total l a b : In a l -> In b l -> a <> b -> In (a, b) (combs2 l) \/ In (b, a) (combs2 l).
Proof.
  induction l as [|x t IH]; [intros []|]. rewrite !combs2_cons, !in_app_iff, !in_map_iff.
  intros [Ha|Ha] [Hb|Hb] Hab; subst.
  - congruence.
  - left. left. exists b. auto.
  - right. left. exists a. auto.
  - destruct (IH Ha Hb Hab); [left|right]; right; assumption.
Qed.

Lemma all_pairs_In ns a b : NoDup ns -> (In (a, b) (all_pairs ns) <-> In a ns /\ In b ns /\ a <> b).
Proof.
  intros Hnd. unfold all_pairs. rewrite in_app_iff, in_map_iff. split.
  - intros [H|[[u v] [Hs H]]].
    + destruct (combs2_In _ _ _ H) as [Ha [Hb Hab]]. auto.
    + unfold swap in Hs. simpl in Hs. inversion Hs; subst. destruct (combs2_In _ _ _ H) as [Ha [Hb Hab]].
      split; [exact Hb|]. split; [exact Ha|]. intros E. apply (Hab Hnd). auto.
  - intros [Ha [Hb Hab]]. destruct (combs2_total ns a b Ha Hb Hab) as [H|H]; [left; exact H|].
    right. exists (b, a). split; [reflexivity|exact H].
Qed.

(* ---- all_dags ---- *)
Lemma acyclic_same_edges g g' :
  (forall e, In e (edges g) <-> In e (edges g')) -> acyclic g -> acyclic g'.
Proof. intros H. apply acyclic_sub. intros e. apply H. Qed.

Lemma all_dags_sound ns g : NoDup ns -> In g (all_dags ns) ->
  dag_on ns g /\ forall e, In e (edges g) -> In e (all_pairs ns).
Proof.
  intros Hnd H. unfold all_dags in H. apply filter_In in H. destruct H as [H Hac].
  apply in_map_iff in H. destruct H as [es [Hg Hes]]. subst g. apply powerset_incl in Hes.
  assert (Hw : wf_graph {| nodes := ns; edges := es |}).
  { split; [exact Hnd|]. simpl. intros u v Hi. apply Hes in Hi. apply (all_pairs_In ns u v Hnd) in Hi. tauto. }
  split; [|exact Hes]. split; [reflexivity|]. split; [exact Hw|]. apply acyclicb_spec; assumption.
Qed.

(* every DAG on ns is enumerated (up to the order in which its edges are listed) *)
Lemma all_dags_complete ns g' : dag_on ns g' ->
  exists g, In g (all_dags ns) /\ forall e, In e (edges g) <-> In e (edges g').
Proof.
  intros [Hn [Hw Ha]]. subst ns.
  set (es := filter (fun e => mem_edge e (edges g')) (all_pairs (nodes g'))).
  exists {| nodes := nodes g'; edges := es |}.
  assert (Hes : forall e, In e es <-> In e (edges g')).
  { intros [a b]. unfold es. rewrite filter_In, mem_edge_In. split; [tauto|]. intros Hi. split; [|exact Hi].
    apply all_pairs_In; [apply Hw|]. destruct (proj2 Hw _ _ Hi) as [Ha' Hb']. split; [exact Ha'|].
    split; [exact Hb'|]. intros E. subst. exact (acyclic_no_loop g' b Ha Hi). }
  split; [|exact Hes]. unfold all_dags. apply filter_In. split.
  - apply in_map_iff. exists es. split; [reflexivity|]. apply powerset_filter.
  - apply acyclicb_spec.
    + split; [apply Hw|]. simpl. intros u v Hi. apply Hes in Hi. apply (proj2 Hw _ _ Hi).
    + eapply acyclic_same_edges; [|exact Ha]. intros e. simpl. symmetry. apply Hes.
Qed.

Section Exh.
Variable s : node -> list node -> Qc.

Lemma total_same_edges g g' : set_score s -> nodes g = nodes g' ->
  (forall e, In e (edges g) <-> In e (edges g')) -> total s g = total s g'.
Proof.
  intros Hs Hn He. unfold total. rewrite Hn. clear Hn. induction (nodes g') as [|v t IH]; simpl; [reflexivity|].
  rewrite IH. rewrite (Hs v (parents g v) (parents g' v)); [reflexivity|]. intros x. rewrite !In_parents. apply He.
Qed.

Lemma exhaustive_spec ns g q : exhaustive s ns = Some (g, q) ->
  In g (all_dags ns) /\ q = total s g /\ forall g', In g' (all_dags ns) -> (total s g' <= q)%Qc.
Proof.
  unfold exhaustive. intros H. apply argmax_first_spec in H. destruct H as [Hin Hmax].
  apply in_map_iff in Hin. destruct Hin as [g0 [E Hin]]. inversion E; subst. split; [exact Hin|].
  split; [reflexivity|]. intros g' Hg'. apply (Hmax (g', total s g')). apply in_map_iff. exists g'. auto.
Qed.

Lemma exhaustive_some ns : NoDup ns -> exists g q, exhaustive s ns = Some (g, q).
Proof.
  intros Hnd. unfold exhaustive.
  destruct (all_dags_complete ns {| nodes := ns; edges := [] |}) as [g [Hg _]].
  { split; [reflexivity|]. split; [split; [exact Hnd|intros u v []]|intros u v []]. }
  destruct (map (fun g0 => (g0, total s g0)) (all_dags ns)) as [|[g1 q1] t] eqn:E.
  - apply (in_map (fun g0 => (g0, total s g0))) in Hg. rewrite E in Hg. destruct Hg.
  - simpl. destruct (fold_left _ t (g1, q1)) as [g2 q2]. exists g2, q2. reflexivity.
Qed.

Lemma exhaustive_global_max ns g q : NoDup ns -> set_score s -> exhaustive s ns = Some (g, q) ->
  dag_on ns g /\ q = total s g /\ forall g', dag_on ns g' -> (total s g' <= total s g)%Qc.
Proof.
  intros Hnd Hs H. apply exhaustive_spec in H. destruct H as [Hin [Hq Hmax]].
  split; [apply (all_dags_sound ns g Hnd Hin)|]. split; [exact Hq|].
  intros g' Hd. destruct (all_dags_complete ns g' Hd) as [g2 [Hg2 He]].
  rewrite <- Hq. rewrite <- (total_same_edges g2 g' Hs); [apply Hmax; exact Hg2| |exact He].
  destruct (all_dags_sound ns g2 Hnd Hg2) as [[Hn2 _] _]. destruct Hd as [Hn' _]. congruence.
Qed.
End Exh.
