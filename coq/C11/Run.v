(* C11 entry points for the extracted driver: sx -> sx *)
From Coq Require Import List Bool Arith ZArith QArith Qcanon.
From PV Require Import Base.Sx Base.Graph C11.Model.
Import ListNotations.
Local Open Scope nat_scope.

Definition sx_edge : sx -> option edge := sx_pair sx_nat sx_nat.
Definition sx_opt {A} (d : sx -> option A) (s : sx) : option (option A) :=
  match s with
  | SL [] => Some None
  | SL [x] => match d x with Some v => Some (Some v) | None => None end
  | _ => None
  end.
Definition of_edge : edge -> sx := of_pair of_nat of_nat.
Definition of_opk (k : opk) : sx := SZ (match k with OAdd => 0 | ODel => 1 | OFlip => 2 end)%Z.
Definition of_opd (od : op * Qc) : sx :=
  SL [of_opk (fst (fst od)); of_edge (snd (fst od)); of_Qc (snd od)].
Definition sx_opk (s : sx) : option opk :=
  match s with SZ 0%Z => Some OAdd | SZ 1%Z => Some ODel | SZ 2%Z => Some OFlip | _ => None end.
Definition sx_op : sx -> option op := sx_pair sx_opk sx_edge.

(* score table: entries (variable, parent set, value); the score of a parent LIST is the entry with the
   same variable and the same parent SET (0 if absent) *)
Definition table := list (node * list node * Qc).
Definition sx_table : sx -> option table := sx_list (sx_triple sx_nat (sx_list sx_nat) sx_Qc).
Definition tab_score (t : table) (v : node) (ps : list node) : Qc :=
  match find (fun en => Nat.eqb (fst (fst en)) v && same_set (snd (fst en)) ps) t with
  | Some en => snd en
  | None => 0%Qc
  end.

Definition dec_graph (sn se : sx) : option digraph :=
  match sx_list sx_nat sn, sx_list sx_edge se with
  | Some ns, Some es => Some {| nodes := ns; edges := es |}
  | _, _ => None
  end.

(* options: [vars fixed black white max_indeg tabu_len eps max_iter [p+ p- pflip]] *)
Definition dec_cfg (s : sx) : option hc_cfg :=
  match s with
  | SL [sv; sf; sb; sw; smi; stl; se; smx; SL [pa; pd; pf]] =>
      match sx_list sx_nat sv, sx_list sx_edge sf, sx_list sx_edge sb, sx_opt (sx_list sx_edge) sw,
            sx_opt sx_nat smi, sx_opt sx_nat stl, sx_Qc se, sx_nat smx, sx_Qc pa, sx_Qc pd, sx_Qc pf with
      | Some v, Some f, Some b, Some w, Some mi, Some tl, Some e, Some mx, Some qa, Some qd, Some qf =>
          Some {| vars := v; fixed := f; black := b; white := w; max_indeg := mi; tabu_len := tl;
                  eps := e; max_iter := mx;
                  prior := fun k => match k with OAdd => qa | ODel => qd | OFlip => qf end |}
      | _, _, _, _, _, _, _, _, _, _, _ => None
      end
  | _ => None
  end.

(* [cfg table nodes edges] -> [nodes edges broke tie trace total(seeded start) total(result)]
   errors: 1 = start_dag nodes differ from the variables, 2 = fixed edges create a cycle *)
Definition run_c11_hc (s : sx) : sx :=
  match s with
  | SL [sc; st; sn; se] =>
      match dec_cfg sc, sx_table st, dec_graph sn se with
      | Some c, Some t, Some g =>
          match hc_estimate (tab_score t) c g with
          | HcErrNodes => sx_err 1
          | HcErrCycle => sx_err 2
          | HcOk r =>
              sx_ok (SL [ of_list of_nat (nodes (r_g r)); of_list of_edge (edges_nx (r_g r));
                          of_bool (r_broke r); of_bool (r_tie r); of_list of_opd (r_trace r);
                          of_Qc (total (tab_score t) (seed c g)); of_Qc (total (tab_score t) (r_g r)) ])
          end
      | _, _, _ => bad_request
      end
  | _ => bad_request
  end.

(* [cfg table nodes edges tabu] -> [additions (permutations order); removals; flips] of _legal_operations *)
Definition run_c11_legal (s : sx) : sx :=
  match s with
  | SL [sc; st; sn; se; stb] =>
      match dec_cfg sc, sx_table st, dec_graph sn se, sx_list sx_op stb with
      | Some c, Some t, Some g, Some tabu =>
          sx_ok (SL [ of_list of_opd (adds (tab_score t) c g tabu);
                      of_list of_opd (dels (tab_score t) c g tabu);
                      of_list of_opd (flips (tab_score t) c g tabu) ])
      | _, _, _, _ => bad_request
      end
  | _ => bad_request
  end.

(* [nodes table] -> [[best edges, best total] | [], all (total, edges) in all_dags order] *)
Definition run_c11_exh (s : sx) : sx :=
  match s with
  | SL [sn; st] =>
      match sx_list sx_nat sn, sx_table st with
      | Some ns, Some t =>
          let sc := tab_score t in
          sx_ok (SL [ of_option (fun gq => SL [of_list of_edge (edges (fst gq)); of_Qc (snd gq)])
                        (exhaustive sc ns);
                      of_list (fun g => SL [of_Qc (total sc g); of_list of_edge (edges g)]) (all_dags ns) ])
      | _, _ => bad_request
      end
  | _ => bad_request
  end.

(* [nodes G T root] with G = [(u v w)...] -> [mst_chk, spanning_treeb, bfs orientation of T from root]
   error 1 = root not a node *)
Definition run_c11_tree (s : sx) : sx :=
  match s with
  | SL [sn; sg; st; sr] =>
      match sx_list sx_nat sn, sx_list (sx_pair sx_edge sx_Qc) sg, sx_list sx_edge st, sx_nat sr with
      | Some ns, Some G, Some T, Some r =>
          if memn r ns
          then sx_ok (SL [ of_bool (mst_chk ns G T); of_bool (spanning_treeb ns G T);
                           of_list of_edge (bfs_orient ns T r) ])
          else sx_err 1
      | _, _, _, _ => bad_request
      end
  | _ => bad_request
  end.

(* [nodes T root] -> BFS orientation of T from root only (no optimality check); error 1 = root not a node *)
Definition run_c11_bfs (s : sx) : sx :=
  match s with
  | SL [sn; st; sr] =>
      match sx_list sx_nat sn, sx_list sx_edge st, sx_nat sr with
      | Some ns, Some T, Some r =>
          if memn r ns then sx_ok (of_list of_edge (bfs_orient ns T r)) else sx_err 1
      | _, _, _ => bad_request
      end
  | _ => bad_request
  end.

(* [nodes G T] -> spanning_treeb only (for trees too large for the brute-force optimality checker) *)
Definition run_c11_span (s : sx) : sx :=
  match s with
  | SL [sn; sg; st] =>
      match sx_list sx_nat sn, sx_list (sx_pair sx_edge sx_Qc) sg, sx_list sx_edge st with
      | Some ns, Some G, Some T => sx_ok (of_bool (spanning_treeb ns G T))
      | _, _, _ => bad_request
      end
  | _ => bad_request
  end.
