(* C11 specification: what the property text refers to, with no algorithm. *)
From Coq Require Import List Bool Arith Lia PeanoNat ZArith QArith Qcanon.
From PV Require Import Base.Graph C11.Model.
Import ListNotations.
Local Open Scope nat_scope.

(* a DAG over exactly the node list ns *)
Definition dag_on (ns : list node) (g : digraph) : Prop :=
  nodes g = ns /\ wf_graph g /\ acyclic g.

Definition indeg_within (m : option nat) (g : digraph) : Prop :=
  match m with None => True | Some k => forall v, length (parents g v) <= k end.

Definition in_white (w : option (list edge)) (e : edge) : Prop :=
  match w with None => True | Some l => In e l end.

(* a single-edge change of g that the options allow and that keeps the graph acyclic *)
Inductive legal_move (c : hc_cfg) (g : digraph) : op -> Prop :=
| LM_add x y :
    In x (vars c) -> In y (vars c) -> x <> y ->
    ~ In (x, y) (edges g) -> ~ In (y, x) (edges g) ->
    ~ In (x, y) (black c) -> in_white (white c) (x, y) ->
    (forall k, max_indeg c = Some k -> S (length (parents g y)) <= k) ->
    acyclic (add_edge g (x, y)) ->
    legal_move c g (OAdd, (x, y))
| LM_del x y :
    In (x, y) (edges g) -> ~ In (x, y) (fixed c) ->
    legal_move c g (ODel, (x, y))
| LM_flip x y :
    In (x, y) (edges g) -> ~ In (x, y) (fixed c) ->
    ~ In (y, x) (black c) -> in_white (white c) (y, x) ->
    (forall k, max_indeg c = Some k -> S (length (parents g x)) <= k) ->
    acyclic (flip_edge g (x, y)) ->
    legal_move c g (OFlip, (x, y)).

(* the score depends on the parent SET only *)
Definition set_score (s : node -> list node -> Qc) : Prop :=
  forall v l l', (forall x, In x l <-> In x l') -> s v l = s v l'.

(* ---- undirected trees ---- *)
(* u and v are connected by edges of T, read in either direction *)
Definition uconn (ns : list node) (T : list edge) (u v : node) : Prop := dpath (ugraph ns T) u v.
Definition connected (ns : list node) (T : list edge) : Prop :=
  match ns with [] => True | r :: _ => forall v, In v ns -> uconn ns T r v end.
Definition wgraph_wf (ns : list node) (G : list (edge * Qc)) : Prop :=
  NoDup ns /\ NoDup (map fst G) /\ forall u v, In (u, v) (map fst G) -> In u ns /\ In v ns.
(* T is a spanning tree of the weight graph G on ns: n-1 distinct edges of G that connect everything *)
Definition spanning_tree (ns : list node) (G : list (edge * Qc)) (T : list edge) : Prop :=
  NoDup T /\ incl T (map fst G) /\ S (length T) = length ns /\ connected ns T.

(* a tree given by its edge list, with a root *)
Definition tree_on (ns : list node) (T : list edge) (root : node) : Prop :=
  NoDup ns /\ In root ns /\ (forall u v, In (u, v) T -> In u ns /\ In v ns) /\
  S (length T) = length ns /\ (forall v, In v ns -> uconn ns T root v).

(* every fixed edge joins nodes of the start graph (= the data columns) *)
Definition fixed_within (c : hc_cfg) (start : digraph) : Prop :=
  forall u v, In (u, v) (fixed c) -> In u (nodes start) /\ In v (nodes start).

