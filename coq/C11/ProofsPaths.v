(* C11: the flip test of _legal_operations,
       not any(len(path) > 2 for path in nx.all_simple_paths(model, X, Y)),
   is modelled in Model.v as  negb (has_path (del_edge g (X,Y)) X Y).  This file proves that the two say
   the same thing when nx.all_simple_paths is read by its documented meaning (all node lists without
   repetition that start at X, end at Y and follow edges). *)
From Coq Require Import List Bool Arith Lia PeanoNat.
From PV Require Import Base.Reach Base.Graph C11.Model C11.ProofsHC.
Import ListNotations.
Local Open Scope nat_scope.

Fixpoint is_walk (g : digraph) (p : list node) : Prop :=
  match p with
  | a :: t => match t with b :: _ => In (a, b) (edges g) /\ is_walk g t | [] => True end
  | [] => True
  end.
(* a simple path from x to y, as a node list *)
Definition simple_path (g : digraph) (x y : node) (p : list node) : Prop :=
  NoDup p /\ hd_error p = Some x /\ last p x = y /\ is_walk g p.

Lemma is_walk_suffix g p1 l : is_walk g (p1 ++ l) -> is_walk g l.
Proof.
  induction p1 as [|a t IH]; [auto|]. simpl. destruct (t ++ l) eqn:E; [|intros [_ H]; apply IH; exact H].
  intros _. destruct t; [simpl in E; subst; exact I|discriminate].
Qed.
Lemma NoDup_suffix {A} (p1 l : list A) : NoDup (p1 ++ l) -> NoDup l.
Proof. induction p1 as [|a t IH]; [auto|]. simpl. intros H. inversion H; subst. apply IH. assumption. Qed.
Lemma last_cons_ne {A} (a : A) t d d' : t <> [] -> last (a :: t) d = last t d'.
Proof.
  revert a. induction t as [|b t IH]; intros a H; [congruence|]. destruct t as [|c t]; [reflexivity|].
  change (last (a :: b :: c :: t) d) with (last (b :: c :: t) d).
  change (last (b :: c :: t) d') with (last (c :: t) d'). rewrite (IH b); [|discriminate]. reflexivity.
Qed.
Lemma last_In {A} (l : list A) d : l <> [] -> In (last l d) l.
Proof.
  induction l as [|a t IH]; [congruence|]. intros _. destruct t as [|b t]; [left; reflexivity|].
  right. change (last (a :: b :: t) d) with (last (b :: t) d). apply IH. discriminate.
Qed.
Lemma last_suffix {A} (p1 : list A) u p2 d : last (p1 ++ u :: p2) d = last (u :: p2) d.
Proof.
  induction p1 as [|a t IH]; [reflexivity|]. simpl app.
  rewrite (last_cons_ne a (t ++ u :: p2) d d); [exact IH|destruct t; discriminate].
Qed.

(* every directed path contains a simple one (loop erasure) *)
Lemma dpath_simple g u w : dpath g u w -> exists p, simple_path g u w p.
Proof.
  apply (dpath_ind_left g (fun u w => exists p, simple_path g u w p)).
  - intros a. exists [a]. split; [constructor; [intros []|constructor]|]. split; [reflexivity|]. split; reflexivity.
  - intros a v b He _ [p [Hnd [Hhd [Hl Hw]]]].
    destruct p as [|v' t]; [discriminate|]. simpl in Hhd. inversion Hhd; subst v'.
    destruct (in_dec Nat.eq_dec a (v :: t)) as [Hin|Hnin].
    + apply in_split in Hin. destruct Hin as [p1 [p2 E]]. exists (a :: p2). split.
      { rewrite E in Hnd. apply NoDup_suffix in Hnd. exact Hnd. }
      split; [reflexivity|]. split.
      { rewrite E, last_suffix in Hl. rewrite <- Hl. destruct p2; [reflexivity|].
        rewrite (last_cons_ne a (n :: p2) a v); [|discriminate]. symmetry.
        rewrite (last_cons_ne a (n :: p2) v v); [reflexivity|discriminate]. }
      { rewrite E in Hw. apply is_walk_suffix in Hw. exact Hw. }
    + exists (a :: v :: t). split; [constructor; assumption|]. split; [reflexivity|]. split.
      { rewrite <- Hl. apply last_cons_ne. discriminate. }
      { simpl. split; [exact He|exact Hw]. }
Qed.

Lemma is_walk_dpath g : forall p a, is_walk g (a :: p) -> dpath g a (last (a :: p) a).
Proof.
  induction p as [|b t IH]; intros a H; [apply dpath_refl|].
  destruct H as [He Hw]. eapply dpath_step_l; [exact He|].
  rewrite (last_cons_ne a (b :: t) a b); [|discriminate]. apply IH. exact Hw.
Qed.

Lemma is_walk_mono g g' p : (forall e, In e (edges g) -> In e (edges g')) -> is_walk g p -> is_walk g' p.
Proof.
  intros Hi. induction p as [|a t IH]; [auto|]. simpl. destruct t as [|b t']; [auto|].
  intros [He Hw]. split; [apply Hi; exact He|apply IH; exact Hw].
Qed.

Lemma is_walk_del g x y p : is_walk g p -> (forall a, In a p -> a <> x) -> is_walk (del_edge g (x, y)) p.
Proof.
  induction p as [|a t IH]; [auto|]. simpl. destruct t as [|b t']; [auto|].
  intros [He Hw] Hne. split.
  - apply In_del_edge. split; [exact He|]. intros E. inversion E; subst. apply (Hne x); [left; reflexivity|reflexivity].
  - apply IH; [exact Hw|]. intros c Hc. apply Hne. right. exact Hc.
Qed.

Theorem flip_test_spec g x y : x <> y ->
  (dpath (del_edge g (x, y)) x y <-> exists p, simple_path g x y p /\ 2 < length p).
Proof.
  intros Hxy. split.
  - intros Hp. destruct (dpath_simple _ _ _ Hp) as [p [Hnd [Hhd [Hl Hw]]]]. exists p. split.
    + split; [exact Hnd|]. split; [exact Hhd|]. split; [exact Hl|].
      eapply is_walk_mono; [|exact Hw]. intros e He. apply In_del_edge in He. exact (proj1 He).
    + destruct p as [|a [|b [|c t]]]; simpl in *; try lia.
      * inversion Hhd; subst. congruence.
      * inversion Hhd; subst. destruct Hw as [He _]. apply In_del_edge in He. destruct He as [_ Hne]. congruence.
  - intros [p [[Hnd [Hhd [Hl Hw]]] Hlen]].
    destruct p as [|a [|z [|c t]]]; simpl in Hlen; try lia. simpl in Hhd. inversion Hhd; subst a.
    apply NoDup_cons_iff in Hnd. destruct Hnd as [Hx Hnd']. apply NoDup_cons_iff in Hnd'. destruct Hnd' as [Hz _].
    assert (Hly : last (z :: c :: t) z = y).
    { rewrite <- Hl. symmetry. apply last_cons_ne. discriminate. }
    assert (Hzy : z <> y).
    { intros E. apply Hz. pose proof (last_In (c :: t) c) as Hin.
      rewrite (last_cons_ne z (c :: t) z c) in Hly by discriminate. rewrite Hly in Hin. rewrite E.
      apply Hin. discriminate. }
    destruct Hw as [He Hw].
    assert (Hw' : is_walk (del_edge g (x, y)) (z :: c :: t)).
    { apply is_walk_del; [exact Hw|]. intros a Ha E. subst. contradiction. }
    eapply dpath_step_l.
    + apply In_del_edge. split; [exact He|]. intros E. inversion E. contradiction.
    + pose proof (is_walk_dpath _ _ _ Hw') as P. rewrite Hly in P. exact P.
Qed.
