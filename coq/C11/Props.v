(* C11 property theorems.  Only statements, each closed by lemmas proved in ProofsHC/ProofsExh/ProofsTree,
   with Print Assumptions underneath.  The hypotheses common to the hill-climbing theorems:
     NoDup (vars c)            the data columns are distinct
     wf_graph start            start_dag is a graph (distinct nodes, edges between its nodes)
     fixed within start        every fixed edge joins nodes of start_dag (= the columns); an edge naming a
                               non-column is outside the property's domain, see [hc_foreign_fixed_example]
     hc_estimate ... = HcOk r  estimate() returned (start_dag has exactly the columns as nodes and
                               start_dag + fixed_edges is acyclic: otherwise pgmpy raises ValueError)
   and NOTHING about the score [s], black/white lists, max_indegree, tabu_length, epsilon, max_iter. *)
From Coq Require Import List Bool Arith Lia PeanoNat ZArith QArith Qcanon.
From PV Require Import Base.Reach Base.Graph C11.Model C11.Spec C11.ProofsHC C11.ProofsExh C11.ProofsTree C11.ProofsPaths.
Import ListNotations.
Local Open Scope nat_scope.

(* the result is a well-formed acyclic graph on start_dag's node list *)
Theorem C11_hc_acyclic : forall s c start r,
  NoDup (vars c) -> wf_graph start -> fixed_within c start -> hc_estimate s c start = HcOk r ->
  dag_on (nodes start) (r_g r).
Proof.
  intros s c start r Hv Hw Hf H. destruct (hc_ok_inv s c start r Hv Hw Hf H) as [-> [Hb [Hn _]]].
  destruct (hc_loop_base s c Hv (max_iter c) _ [] Hb) as [B1 [B2 _]].
  split; [rewrite hc_loop_nodes; exact Hn|]. split; assumption.
Qed.
Print Assumptions C11_hc_acyclic.

(* ... whose nodes are exactly the data's variables *)
Theorem C11_hc_nodes_exact : forall s c start r,
  NoDup (vars c) -> wf_graph start -> fixed_within c start -> hc_estimate s c start = HcOk r ->
  NoDup (nodes (r_g r)) /\ forall x, In x (nodes (r_g r)) <-> In x (vars c).
Proof.
  intros s c start r Hv Hw Hf H. destruct (hc_ok_inv s c start r Hv Hw Hf H) as [-> [Hb [Hn [Hs _]]]].
  rewrite hc_loop_nodes, Hn. split; [apply Hw|exact Hs].
Qed.
Print Assumptions C11_hc_nodes_exact.

Theorem C11_hc_fixed_kept : forall s c start r,
  NoDup (vars c) -> wf_graph start -> fixed_within c start -> hc_estimate s c start = HcOk r ->
  forall e, In e (fixed c) -> In e (edges (r_g r)).
Proof.
  intros s c start r Hv Hw Hf H. destruct (hc_ok_inv s c start r Hv Hw Hf H) as [-> [Hb [_ [_ He]]]].
  apply hc_loop_fixed; [exact Hv|exact Hb|]. intros e Hi. apply He. right. exact Hi.
Qed.
Print Assumptions C11_hc_fixed_kept.

(* a black-listed edge is in the result only if the caller put it there (start_dag or fixed_edges) *)
Theorem C11_hc_black_absent : forall s c start r,
  NoDup (vars c) -> wf_graph start -> fixed_within c start -> hc_estimate s c start = HcOk r ->
  (forall e, In e (edges (r_g r)) -> In e (black c) -> In e (edges start) \/ In e (fixed c)) /\
  ((forall e, In e (edges start) \/ In e (fixed c) -> ~ In e (black c)) ->
   forall e, In e (edges (r_g r)) -> ~ In e (black c)).
Proof.
  intros s c start r Hv Hw Hf H. destruct (hc_ok_inv s c start r Hv Hw Hf H) as [-> [Hb [_ [_ He]]]].
  assert (G : forall e, In e (edges (r_g (hc_loop s c (max_iter c) (seed c start) []))) -> In e (black c) ->
                        In e (edges start) \/ In e (fixed c)).
  { intros e Hi Hbk. destruct (hc_loop_provenance s c Hv _ _ [] Hb e Hi) as [H0|[Hnb _]]; [apply He; exact H0|contradiction]. }
  split; [exact G|]. intros Hno e Hi Hbk. exact (Hno e (G e Hi Hbk) Hbk).
Qed.
Print Assumptions C11_hc_black_absent.

(* every edge that the caller did not supply is white-listed *)
Theorem C11_hc_white_only_additions : forall s c start r,
  NoDup (vars c) -> wf_graph start -> fixed_within c start -> hc_estimate s c start = HcOk r ->
  forall e, In e (edges (r_g r)) -> In e (edges start) \/ In e (fixed c) \/ in_white (white c) e.
Proof.
  intros s c start r Hv Hw Hf H. destruct (hc_ok_inv s c start r Hv Hw Hf H) as [-> [Hb [_ [_ He]]]].
  intros e Hi. destruct (hc_loop_provenance s c Hv _ _ [] Hb e Hi) as [H0|[_ Hwh]].
  - apply He in H0. tauto.
  - right. right. exact Hwh.
Qed.
Print Assumptions C11_hc_white_only_additions.

(* the in-degree bound is kept if start_dag + fixed_edges respects it *)
Theorem C11_hc_indegree : forall s c start r,
  NoDup (vars c) -> wf_graph start -> fixed_within c start -> hc_estimate s c start = HcOk r ->
  indeg_within (max_indeg c) (seed c start) -> indeg_within (max_indeg c) (r_g r).
Proof.
  intros s c start r Hv Hw Hf H. destruct (hc_ok_inv s c start r Hv Hw Hf H) as [-> [Hb _]].
  apply hc_loop_indegree; assumption.
Qed.
Print Assumptions C11_hc_indegree.

(* score accounting.  The code stops at the first iteration whose best delta is < epsilon, so every
   applied operation has delta >= epsilon; the decomposable total changes by exactly delta minus the
   structure prior ratio of each applied operation.  With the (default) zero prior ratio and epsilon >= 0
   the result's score is not lower than that of start_dag + fixed_edges. *)
Theorem C11_hc_score_monotone : forall s c start r,
  NoDup (vars c) -> wf_graph start -> fixed_within c start -> hc_estimate s c start = HcOk r ->
  total s (r_g r) = (total s (seed c start) + trace_gain c (r_trace r))%Qc /\
  Forall (fun od => (eps c <= snd od)%Qc) (r_trace r) /\
  ((forall k, prior c k = 0%Qc) -> (0 <= eps c)%Qc -> (total s (seed c start) <= total s (r_g r))%Qc).
Proof.
  intros s c start r Hv Hw Hf H. destruct (hc_ok_inv s c start r Hv Hw Hf H) as [-> [Hb _]].
  destruct (hc_loop_total s c Hv (max_iter c) _ [] Hb) as [T1 T2].
  split; [exact T1|]. split; [exact T2|]. intros Hp He. rewrite T1.
  pose proof (trace_gain_nonneg c _ Hp He T2) as G.
  pose proof (Qcplus_le_compat _ _ _ _ (Qcle_refl (total s (seed c start))) G) as P.
  rewrite Qcplus_0_r in P. exact P.
Qed.
Print Assumptions C11_hc_score_monotone.

(* op_delta IS the change of the total score (up to the prior ratio), for every legal move *)
Theorem C11_hc_delta_is_score_change : forall s c g o,
  NoDup (vars c) -> dag_on (nodes g) g -> incl (vars c) (nodes g) -> legal_move c g o ->
  total s (apply_op g o) = (total s g + (op_delta s c g o - prior c (fst o)))%Qc.
Proof.
  intros s c g o Hv [_ [Hw Ha]] Hi Hl. assert (Hb : base c g) by (split; [exact Hw|split; assumption]).
  pose proof (legal_move_generated s c Hv g o Hb Hl) as Hin.
  destruct (legal_ops_step s c Hv g [] o _ Hw Hin) as [Hs _]. apply (total_step s c g [] o Hb Hs).
Qed.
Print Assumptions C11_hc_delta_is_score_change.

(* tabu list disabled and loop left by `break`: no legal single-edge addition, deletion or reversal
   (legal_move: Spec.v, defined without reference to the generator) improves the score by epsilon or more *)
Theorem C11_hc_local_optimum : forall s c start r,
  NoDup (vars c) -> wf_graph start -> fixed_within c start -> hc_estimate s c start = HcOk r ->
  tabu_len c = Some 0 -> r_broke r = true ->
  forall o, legal_move c (r_g r) o -> (op_delta s c (r_g r) o < eps c)%Qc.
Proof.
  intros s c start r Hv Hw Hf H Ht Hbr o Hl. destruct (hc_ok_inv s c start r Hv Hw Hf H) as [-> [Hb _]].
  pose proof (hc_loop_base s c Hv (max_iter c) _ [] Hb) as Hb'.
  pose proof (legal_move_generated s c Hv _ o Hb' Hl) as Hin.
  apply (hc_loop_break s c (max_iter c) _ Ht Hbr _ Hin).
Qed.
Print Assumptions C11_hc_local_optimum.

(* conversely every operation the generator proposes is a legal move, whatever the tabu list *)
Theorem C11_hc_generated_moves_legal : forall s c g tabu o d,
  NoDup (vars c) -> dag_on (nodes g) g -> incl (vars c) (nodes g) ->
  In (o, d) (legal_ops s c g tabu) -> legal_move c g o /\ d = op_delta s c g o.
Proof.
  intros s c g tabu o d Hv [_ [Hw Ha]] Hi Hin. assert (Hb : base c g) by (split; [exact Hw|split; assumption]).
  destruct (legal_ops_step s c Hv g tabu o d Hw Hin) as [Hs Hd]. split; [|exact Hd].
  eapply generated_legal; eauto.
Qed.
Print Assumptions C11_hc_generated_moves_legal.

(* the model's flip test (reachability without the flipped edge) is pgmpy's test
     any(len(path) > 2 for path in nx.all_simple_paths(model, X, Y))
   with all_simple_paths read as "every repetition-free node list from X to Y along edges" *)
Theorem C11_flip_test_faithful : forall g x y, wf_graph g -> x <> y ->
  (has_path (del_edge g (x, y)) x y = true <-> exists p, simple_path g x y p /\ 2 < length p).
Proof.
  intros g x y Hw Hxy. rewrite (has_path_spec _ x y (wf_del g (x, y) Hw)). apply flip_test_spec. exact Hxy.
Qed.
Print Assumptions C11_flip_test_faithful.

(* determinism.  Every candidate order is now part of the model (additions in column order, removals and
   flips in edges() order, first maximum wins), so [hc_estimate] is a Gallina FUNCTION of the score, the
   options, the column order and the start graph: equal inputs give equal graphs, and PYTHONHASHSEED or
   the node names have no way in.  The single python set left is set(fixed_edges); its iteration order is
   the order of the list [fixed c].
   FULL statement (not proved):  for a score of the parent set, two option records that differ only in the
     order of [fixed] give the same trace, the same r_broke and the same edge SET of the result.
   PROVED part: the loop reads [fixed] only through membership -- from the same seeded graph, any two
     listings of the same fixed-edge set give the identical run (graph, trace, flags).
   MISSING: that the position of the newly appended fixed edges in the seeded graph's edge list cannot
     influence a choice (they are never removal/flip candidates and a set score ignores predecessor order);
     this needs a simulation argument between the two seeded graphs.  The correspondence run checks it on the
     model for every case with >= 2 fixed edges (tag fixed-order-permuted). *)
Theorem C11_hc_deterministic_partial : forall s c fx start,
  (forall e, In e (fixed c) <-> In e fx) ->
  hc_loop s (with_fixed c fx) (max_iter c) (seed c start) [] = hc_loop s c (max_iter c) (seed c start) [].
Proof. intros s c fx start H. apply hc_loop_fixed_set. exact H. Qed.
Print Assumptions C11_hc_deterministic_partial.

(* ---- exhaustive search ---- *)
(* all_dags enumerates exactly the DAGs on the node list (each edge SET once is not needed for the maximum) *)
Theorem C11_exhaustive_enumeration : forall ns, NoDup ns ->
  (forall g, In g (all_dags ns) -> dag_on ns g) /\
  (forall g', dag_on ns g' -> exists g, In g (all_dags ns) /\ forall e, In e (edges g) <-> In e (edges g')).
Proof.
  intros ns Hnd. split.
  - intros g Hg. apply (all_dags_sound ns g Hnd Hg).
  - apply all_dags_complete.
Qed.
Print Assumptions C11_exhaustive_enumeration.

Theorem C11_exhaustive_global_max : forall s ns, NoDup ns -> set_score s ->
  exists g q, exhaustive s ns = Some (g, q) /\ dag_on ns g /\ q = total s g /\
              forall g', dag_on ns g' -> (total s g' <= total s g)%Qc.
Proof.
  intros s ns Hnd Hs. destruct (exhaustive_some s ns Hnd) as [g [q E]]. exists g, q. split; [exact E|].
  apply (exhaustive_global_max s ns g q Hnd Hs E).
Qed.
Print Assumptions C11_exhaustive_global_max.

(* ---- Chow-Liu ---- *)
Theorem C11_bfs_orientation : forall ns T root, tree_on ns T root ->
  let D := bfs_orient ns T root in
  (forall v, In v ns -> v <> root -> exists u, In (u, v) D /\ forall u', In (u', v) D -> u' = u) /\
  (forall u, ~ In (u, root) D) /\
  (forall u v, In (u, v) D -> In (u, v) T \/ In (v, u) T) /\
  (forall u v, In (u, v) T -> In (u, v) D \/ In (v, u) D) /\
  (forall v, In v ns -> dpath {| nodes := ns; edges := D |} root v).
Proof.
  intros ns T root Ht. apply bfs_orient_spec; [|exact Ht]. destruct Ht as [_ [_ [H _]]]. exact H.
Qed.
Print Assumptions C11_bfs_orientation.

Theorem C11_mst_chk : forall ns G T, wgraph_wf ns G ->
  (mst_chk ns G T = true <->
   spanning_tree ns G T /\ forall T', spanning_tree ns G T' -> (tree_weight G T' <= tree_weight G T)%Qc).
Proof. intros ns G T Hw. apply mst_chk_spec. exact Hw. Qed.
Print Assumptions C11_mst_chk.

(* ================================================================ non-vacuity *)
Definition ex_s (v : node) (ps : list node) : Qc :=
  match v, length ps with
  | 1, 1 => Q2Qc (3 # 1) | 1, 2 => Q2Qc (4 # 1) | 2, 1 => Q2Qc (2 # 1) | 0, 1 => Q2Qc (5 # 2)
  | _, _ => Q2Qc 0
  end.
Definition ex_c : hc_cfg :=
  {| vars := [0; 1; 2]; fixed := [(2, 0)]; black := [(0, 1)]; white := None; max_indeg := Some 2;
     tabu_len := Some 0; eps := Q2Qc (1 # 2); max_iter := 10; prior := fun _ => Q2Qc 0 |}.
Definition ex_start : digraph := {| nodes := [2; 0; 1]; edges := [(1, 2)] |}.

(* the hypotheses of the hill-climbing theorems hold of a run that applies an operation and breaks *)
Example hc_example : exists r,
  NoDup (vars ex_c) /\ wf_graph ex_start /\ fixed_within ex_c ex_start /\
  hc_estimate ex_s ex_c ex_start = HcOk r /\ tabu_len ex_c = Some 0 /\ r_broke r = true /\
  map fst (r_trace r) = [(OFlip, (1, 2))] /\ edges (r_g r) = [(2, 0); (2, 1)] /\
  indeg_within (max_indeg ex_c) (seed ex_c ex_start) /\
  legal_move ex_c (r_g r) (ODel, (2, 1)).
Proof.
  eexists. split; [apply nodup3; discriminate|]. split.
  { split; [apply nodup3; discriminate|]. simpl. intros u v [E|[]]. inversion E; subst. tauto. }
  split. { intros u v [E|[]]. inversion E; subst. simpl. tauto. }
  split; [vm_compute; reflexivity|]. split; [reflexivity|]. split; [reflexivity|]. split; [reflexivity|].
  split; [reflexivity|]. split.
  { simpl. intros v. destruct v as [|[|[|v]]]; vm_compute; lia. }
  constructor; [simpl; tauto|]. simpl. intros [E|[]]. discriminate.
Qed.

(* a cyclic start + fixed combination is rejected *)
Example hc_cycle_example :
  hc_estimate ex_s ex_c {| nodes := [2; 0; 1]; edges := [(0, 2)] |} = HcErrCycle.
Proof. vm_compute. reflexivity. Qed.

(* OBSERVATION (outside the property's domain): a fixed edge naming a non-column is not rejected by the
   code; networkx creates the node, and the result is then not a graph over exactly the variables *)
Example hc_foreign_fixed_example :
  let c := {| vars := [0; 1]; fixed := [(0, 7)]; black := []; white := None; max_indeg := None;
              tabu_len := Some 0; eps := Q2Qc (1 # 2); max_iter := 3; prior := fun _ => Q2Qc 0 |} in
  match hc_estimate ex_s c {| nodes := [0; 1]; edges := [] |} with
  | HcOk r => In 7 (nodes (r_g r)) /\ ~ In 7 (vars c)
  | _ => False
  end.
Proof. vm_compute. split; [tauto|]. intros [H|[H|[]]]; discriminate. Qed.

Example exhaustive_example :
  option_map (fun gq => edges (fst gq)) (exhaustive ex_s [0; 1; 2]) = Some [(0, 1); (2, 0); (2, 1)].
Proof. vm_compute. reflexivity. Qed.

Example tree_example : tree_on [0; 1; 2; 3] [(0, 1); (1, 2); (1, 3)] 2 /\
  bfs_orient [0; 1; 2; 3] [(0, 1); (1, 2); (1, 3)] 2 = [(2, 1); (1, 0); (1, 3)].
Proof.
  split; [|vm_compute; reflexivity].
  assert (Hn : NoDup [0; 1; 2; 3]).
  { constructor; [simpl; intuition discriminate|]. apply nodup3; discriminate. }
  assert (Ht : forall u v, In (u, v) [(0, 1); (1, 2); (1, 3)] -> In u [0; 1; 2; 3] /\ In v [0; 1; 2; 3]).
  { intros u v [E|[E|[E|[]]]]; inversion E; subst; simpl; tauto. }
  split; [exact Hn|]. split; [simpl; tauto|]. split; [exact Ht|]. split; [reflexivity|].
  intros v Hv. unfold uconn. apply has_path_spec; [apply ugraph_wf; assumption|].
  destruct Hv as [E|[E|[E|[E|[]]]]]; subst; vm_compute; reflexivity.
Qed.

Definition ex_G : list (edge * Qc) := [((0, 1), Q2Qc (3 # 1)); ((0, 2), Q2Qc (1 # 1)); ((1, 2), Q2Qc (2 # 1))].
Example mst_example : wgraph_wf [0; 1; 2] ex_G /\ mst_chk [0; 1; 2] ex_G [(0, 1); (1, 2)] = true /\
  mst_chk [0; 1; 2] ex_G [(0, 2); (1, 2)] = false /\ spanning_tree [0; 1; 2] ex_G [(0, 2); (1, 2)].
Proof.
  assert (Hw : wgraph_wf [0; 1; 2] ex_G).
  { split; [apply nodup3; discriminate|]. split.
    - simpl. constructor; [simpl; intuition discriminate|]. constructor; [simpl; intuition discriminate|].
      constructor; [simpl; tauto|constructor].
    - simpl. intros u v [E|[E|[E|[]]]]; inversion E; subst; tauto. }
  split; [exact Hw|]. split; [vm_compute; reflexivity|]. split; [vm_compute; reflexivity|].
  apply (spanning_treeb_spec _ _ Hw). vm_compute. reflexivity.
Qed.
