(* C17 specification: the marginal of one variable of the UNROLLED network given evidence, by brute
   force: sum the product of all CPD factors over every other variable (no algorithm). *)
From Coq Require Import List Arith Bool PeanoNat QArith Qcanon.
From PV Require Import Base.Semiring Base.Ravel Base.FinSum Base.RefFactor C17.Model.
Import ListNotations.
Local Open Scope nat_scope.

Section Spec.
Variable N : nat.
Variable cards : list nat.
Notation F := (factor Qc_sum_csr).
Notation card := (card N cards).

(* all variables of slices 0..T *)
Definition all_vars (T : nat) : list var := seq 0 ((T + 1) * N).
Definition base_asg (ev : list (var * nat)) : asg := upds (fun _ => 0) ev.

(* joint weight of q = x together with the evidence: sum over all other variables *)
Definition spec_weight (fs : list F) (T : nat) (q : var) (ev : list (var * nat)) (x : nat) : Qc :=
  let others := filter (fun v => negb (Nat.eqb v q) && negb (memv v (map fst ev))) (all_vars T) in
  sum_over (R := Qc_sum_csr) others (map card others) (eval_prod Qc_sum_csr card fs) (upd (base_asg ev) q x).

(* P(q | ev) in the network with factors fs over slices 0..T *)
Definition spec_marginal (fs : list F) (T : nat) (q : var) (ev : list (var * nat)) : option (list Qc) :=
  normalise (map (spec_weight fs T q ev) (seq 0 (card q))).

Definition enc_ev (ev : evidence) : list (var * nat) := map (fun e => (enc N (fst e), snd e)) ev.

(* smoothing: condition on all the evidence; filtering: only on evidence up to the query's slice *)
Definition spec_smooth (F0 F1 : list F) (T : nat) (q : node) (ev : evidence) : option (list Qc) :=
  spec_marginal (unroll N F0 F1 T) T (enc N q) (enc_ev ev).
Definition spec_filter (F0 F1 : list F) (T : nat) (q : node) (ev : evidence) : option (list Qc) :=
  spec_smooth F0 F1 T q (filter (fun e => Nat.leb (snd (fst e)) (snd q)) ev).
End Spec.
