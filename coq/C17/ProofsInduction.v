(* C17: the general induction for forward filtering (no evidence, no query before the last slice), for
   templates in the class where pgmpy is right: inter-edge head names = tail names.
   pot t = the t-th interface potential of the model;  claim: it is the marginal, onto the slice-t
   interface, of the product of the network unrolled to t slices. *)
From Coq Require Import List Arith Bool PeanoNat Lia QArith Qcanon.
From PV Require Import Base.Semiring Base.Ravel Base.FinSum Base.RefFactor Base.VE C17.Model C17.Spec C17.Proofs.
Import ListNotations.
Local Open Scope nat_scope.

(* ---- re-indexing a sum along a shift of the variables *)
Definition push (k : nat) (b a0 : asg) : asg := fun w => if Nat.ltb w k then a0 w else b (w - k).

Lemma sum_over_shift (R : csr) k vs : forall cs (g : asg -> R) a, ext g ->
  sum_over (map (fun v => v + k) vs) cs g a =
  sum_over vs cs (fun b => g (push k b a)) (fun v => a (v + k)).
Proof.
  induction vs as [|v vs IH]; intros cs g a Hg.
  - cbn [map sum_over]. apply Hg. intros w. unfold push. destruct (Nat.ltb w k) eqn:E; [reflexivity|].
    apply Nat.ltb_ge in E. f_equal. lia.
  - destruct cs as [|c cs].
    + cbn [map sum_over]. apply Hg. intros w. unfold push. destruct (Nat.ltb w k) eqn:E; [reflexivity|].
      apply Nat.ltb_ge in E. f_equal. lia.
    + cbn [map sum_over]. apply sum_list_ext. intros i _. rewrite IH by exact Hg.
      transitivity (sum_over vs cs (fun b => g (push k b a)) (fun u => upd a (v + k) i (u + k))).
      * apply sum_over_ext_fun. intros b. apply Hg. intros w. unfold push.
        destruct (Nat.ltb w k) eqn:E; [|reflexivity]. apply Nat.ltb_lt in E. apply upd_other. lia.
      * apply sum_over_aeq.
        -- intros x y Hxy. apply Hg. intros w. unfold push. destruct (Nat.ltb w k); [reflexivity|apply Hxy].
        -- intros u. unfold upd. destruct (Nat.eqb u v) eqn:E.
           ++ apply Nat.eqb_eq in E. subst. rewrite Nat.eqb_refl. reflexivity.
           ++ apply Nat.eqb_neq in E. assert (H : u + k <> v + k) by lia. apply Nat.eqb_neq in H. rewrite H. reflexivity.
Qed.

Lemma vminus_nil (l : list var) : vminus l [] = l.
Proof. unfold vminus. induction l as [|x l IH]; [reflexivity|]. cbn. f_equal. exact IH. Qed.

Lemma NoDup_map_inj_on {A B} (f : A -> B) l :
  NoDup l -> (forall x y, In x l -> In y l -> f x = f y -> x = y) -> NoDup (map f l).
Proof.
  induction 1 as [|x l Hx Hn IH]; intros Hinj; [constructor|]. cbn. constructor.
  - intros Hi. apply in_map_iff in Hi. destruct Hi as [y [Hy Hyl]].
    assert (y = x) by (apply Hinj; [right; exact Hyl|left; reflexivity|exact Hy]). subst. contradiction.
  - apply IH. intros a b Ha Hb. apply Hinj; right; assumption.
Qed.

Section Induction.
Variable N : nat.
Variable cards : list nat.
Hypothesis HN : N <> 0.
Notation F := (factor Qc_sum_csr).
Notation card := (card N cards).
Notation eval_prod := (eval_prod Qc_sum_csr card).
Notation feval := (feval Qc_sum_csr card).
Variables (F0 F1 : list F) (I0 I1 : list var).

Hypothesis HndF0 : Forall (fun f : F => NoDup (fvars f)) F0.
Hypothesis HndF1 : Forall (fun f : F => NoDup (fvars f)) F1.
Hypothesis HF0lt : forall v, In v (scope_of F0) -> v < N.                 (* slice-0 CPDs live in slice 0 *)
Hypothesis HF1lt : forall v, In v (scope_of F1) -> v < 2 * N.             (* transition CPDs: slices 0 and 1 *)
Hypothesis HF1s0 : forall v, In v (scope_of F1) -> v < N -> In v I0.      (* their slice-0 variables are tails *)
Hypothesis HI0lt : forall v, In v I0 -> v < N.
Hypothesis HI0F1 : forall v, In v I0 -> In v (scope_of F1).               (* every tail is some transition parent *)
Hypothesis HI1 : forall v, In v I1 <-> exists n, In n I0 /\ v = n + N.    (* head names = tail names *)

Lemma card_shift v k : card (v + k * N) = card v.
Proof. unfold Model.card. rewrite Nat.mod_add by exact HN. reflexivity. Qed.

Lemma feval_fforward k (f : F) c : feval (fforward N k f) c = feval f (fun v => c (v + k * N)).
Proof.
  unfold RefFactor.feval, fforward, mkF, fcard. cbn [fvars fvals]. rewrite !map_map. f_equal.
  apply map_ext. intros v. apply card_shift.
Qed.
Lemma eval_prod_fforward k (fs : list F) c :
  eval_prod (map (fforward N k) fs) c = eval_prod fs (fun v => c (v + k * N)).
Proof.
  unfold RefFactor.eval_prod. rewrite map_map. f_equal. apply map_ext. intros f. apply feval_fforward.
Qed.

(* the model's potential sequence without evidence and without intermediate queries *)
Fixpoint pot (t : nat) : F :=
  match t with
  | 0 => joint_marg N cards F0 [] I0
  | S t' => fshift N 0 (joint_marg N cards (F1 ++ [pot t']) [] I1)
  end.
Definition Ostep (t : nat) : list var := vminus (scope_of (F1 ++ [pot t])) I1.
(* variables summed out of the unrolled network: everything but the slice-t interface *)
Fixpoint Rsum (t : nat) : list var :=
  match t with
  | 0 => vminus (scope_of F0) I0
  | S t' => map (fun v => v + t' * N) (Ostep t') ++ Rsum t'
  end.
Definition It (t : nat) : list var := map (fun v => v + t * N) I0.
Definition up (a : asg) : asg := fun w => a (w mod N).
Definition Phi (t : nat) : asg -> Qc_sum_csr :=
  sum_over (R := Qc_sum_csr) (Rsum t) (map card (Rsum t)) (eval_prod (unroll N F0 F1 t)).

Lemma reslice0 v : reslice N 0 v = v mod N. Proof. reflexivity. Qed.

Lemma pot_vars_I0 t : forall v, In v (fvars (pot t)) -> In v I0.
Proof.
  destruct t as [|t]; intros v Hv; cbn [pot] in Hv.
  - unfold joint_marg in Hv. cbn [fvars fbuild] in Hv. unfold vinter in Hv. apply filter_In in Hv.
    apply memv_In. apply Hv.
  - unfold fshift, mkF, joint_marg in Hv. cbn [fvars fbuild] in Hv. apply in_map_iff in Hv.
    destruct Hv as [w [<- Hw]]. unfold vinter in Hw. apply filter_In in Hw. destruct Hw as [_ Hw].
    apply memv_In in Hw. apply HI1 in Hw. destruct Hw as [n [Hn ->]].
    rewrite reslice0. rewrite <- (Nat.mul_1_l N) at 1. rewrite Nat.mod_add by exact HN.
    rewrite Nat.mod_small by (apply HI0lt; exact Hn). exact Hn.
Qed.

Lemma scope_app (l1 l2 : list F) v :
  In v (scope_of (l1 ++ l2)) <-> In v (scope_of l1) \/ In v (scope_of l2).
Proof.
  unfold scope_of. rewrite !In_scope_of. split.
  - intros [[]|[f [Hf Hv]]]. apply in_app_or in Hf. destruct Hf; [left|right]; right; exists f; auto.
  - intros [[[]|[f [Hf Hv]]]|[[]|[f [Hf Hv]]]]; right; exists f; split; auto; apply in_or_app; auto.
Qed.
Lemma scope_single (f : F) v : In v (scope_of [f]) <-> In v (fvars f).
Proof.
  unfold scope_of. rewrite In_scope_of. split.
  - intros [[]|[g [[<-|[]] Hv]]]. exact Hv.
  - intros H. right. exists f. split; [left; reflexivity|exact H].
Qed.

Lemma I0_not_I1 v : In v I0 -> ~ In v I1.
Proof. intros H0 H1. apply HI1 in H1. destruct H1 as [n [_ ->]]. apply HI0lt in H0. lia. Qed.

Lemma Ostep_spec t o : In o (Ostep t) <-> (In o (scope_of F1) \/ In o (fvars (pot t))) /\ ~ In o I1.
Proof. unfold Ostep. rewrite In_vminus, scope_app, scope_single. reflexivity. Qed.
Lemma Ostep_lt t o : In o (Ostep t) -> o < 2 * N.
Proof.
  intros H. apply Ostep_spec in H. destruct H as [[H|H] _]; [apply HF1lt; exact H|].
  apply pot_vars_I0, HI0lt in H. lia.
Qed.

(* every variable of the unrolled network is summed out or belongs to the slice-t interface *)
Lemma scope_cover t : forall w, In w (scope_of (unroll N F0 F1 t)) -> In w (Rsum t) \/ In w (It t).
Proof.
  induction t as [|t IH]; intros w Hw.
  - unfold unroll in Hw. cbn [seq flat_map] in Hw. rewrite app_nil_r in Hw. cbn [Rsum].
    destruct (in_dec Nat.eq_dec w I0) as [Hi|Hi].
    + right. unfold It. apply in_map_iff. exists w. split; [lia|exact Hi].
    + left. apply In_vminus. split; assumption.
  - rewrite unroll_succ in Hw. apply scope_app in Hw. cbn [Rsum]. destruct Hw as [Hw|Hw].
    + destruct (IH w Hw) as [H|H]; [left; apply in_or_app; right; exact H|].
      left. apply in_or_app. left. unfold It in H. apply in_map_iff in H. destruct H as [n [<- Hn]].
      apply in_map_iff. exists n. split; [reflexivity|]. apply Ostep_spec. split; [left; apply HI0F1; exact Hn|apply I0_not_I1; exact Hn].
    + unfold scope_of in Hw. apply In_scope_of in Hw. destruct Hw as [[]|[f [Hf Hv]]].
      apply in_map_iff in Hf. destruct Hf as [f1 [<- Hf1]]. unfold fforward, mkF in Hv. cbn [fvars] in Hv.
      apply in_map_iff in Hv. destruct Hv as [v [<- Hv]].
      assert (Hs : In v (scope_of F1)) by (unfold scope_of; apply In_scope_of; right; exists f1; auto).
      destruct (in_dec Nat.eq_dec v I1) as [Hi|Hi].
      * right. apply HI1 in Hi. destruct Hi as [n [Hn ->]]. unfold It. apply in_map_iff. exists n. split; [lia|exact Hn].
      * left. apply in_or_app. left. apply in_map_iff. exists v. split; [reflexivity|].
        apply Ostep_spec. split; [left; exact Hs|exact Hi].
Qed.

(* summed-out variables lie below slice t+1 and avoid the slice-t interface *)
Lemma Rsum_bound t : forall w, In w (Rsum t) -> w < (t + 1) * N /\ ~ In w (It t).
Proof.
  induction t as [|t IH]; intros w Hw; cbn [Rsum] in Hw.
  - apply In_vminus in Hw. destruct Hw as [Hs Hn]. split; [apply HF0lt in Hs; lia|].
    unfold It. intros Hi. apply in_map_iff in Hi. destruct Hi as [n [<- Hi]]. apply Hn. replace (n + 0 * N) with n by lia. exact Hi.
  - apply in_app_or in Hw. destruct Hw as [Hw|Hw].
    + apply in_map_iff in Hw. destruct Hw as [o [<- Ho]]. pose proof (Ostep_lt t o Ho) as Hlt. split; [lia|].
      unfold It. intros Hi. apply in_map_iff in Hi. destruct Hi as [n [He Hn]].
      apply Ostep_spec in Ho. destruct Ho as [_ Ho]. apply Ho. apply HI1. exists n. split; [exact Hn|lia].
    + destruct (IH w Hw) as [Hlt _]. split; [lia|].
      unfold It. intros Hi. apply in_map_iff in Hi. destruct Hi as [n [<- Hn]]. lia.
Qed.

Lemma Phi_depends t : depends_only (R := Qc_sum_csr) (Phi t) (It t).
Proof.
  unfold Phi. eapply depends_only_mono.
  - apply sum_over_depends_only; [apply eval_prod_depends_scope|symmetry; apply map_length].
  - intros w Hw. apply filter_In in Hw. destruct Hw as [Hs Hb]. destruct (scope_cover t w Hs) as [H|H]; [|exact H].
    apply negb_true_iff in Hb. apply memv_In in H. unfold memv in H. congruence.
Qed.

Lemma pot_nodup t : NoDup (fvars (pot t)).
Proof.
  induction t as [|t IH]; cbn [pot].
  - unfold joint_marg. cbn [fvars fbuild]. apply NoDup_filter. apply NoDup_filter.
    unfold scope_of. apply NoDup_scope_of; [constructor|exact HndF0].
  - unfold fshift, mkF, joint_marg. cbn [fvars fbuild]. apply NoDup_map_inj_on.
    + apply NoDup_filter. apply NoDup_filter. unfold scope_of. apply NoDup_scope_of; [constructor|].
      apply Forall_app. split; [exact HndF1|]. constructor; [exact IH|constructor].
    + intros x y Hx Hy He. unfold vinter in Hx, Hy. apply filter_In in Hx, Hy.
      destruct Hx as [_ Hx], Hy as [_ Hy]. apply memv_In in Hx, Hy. apply HI1 in Hx, Hy.
      destruct Hx as [n [Hn ->]], Hy as [m [Hm ->]]. rewrite !reslice0 in He.
      rewrite <- (Nat.mul_1_l N) in He at 1 3. rewrite !Nat.mod_add in He by exact HN.
      rewrite !Nat.mod_small in He by (apply HI0lt; assumption). lia.
Qed.

Lemma up_valid a : valid card a -> valid card (up a).
Proof.
  intros Hv w. unfold up. replace (card w) with (card (w mod N)); [apply Hv|].
  unfold Model.card. rewrite Nat.mod_mod by exact HN. reflexivity.
Qed.
Lemma up_small a w : w < N -> up a w = a w.
Proof. intros H. unfold up. rewrite Nat.mod_small by exact H. reflexivity. Qed.

Lemma sum_over_agree vs cs (g : asg -> Qc_sum_csr) S a b :
  depends_only (R := Qc_sum_csr) g S -> length vs = length cs -> (forall v, In v S -> a v = b v) ->
  sum_over vs cs g a = sum_over vs cs g b.
Proof.
  intros Hd Hl Hab. apply (sum_over_depends_only Qc_sum_csr vs cs g S Hd Hl).
  intros v Hv. apply filter_In in Hv. apply Hab. apply Hv.
Qed.

(* transition factors at step t do not look at the variables already summed out *)
Lemma trans_ignores t : ignores_all (R := Qc_sum_csr) (eval_prod (map (fforward N t) F1)) (Rsum t).
Proof.
  intros w Hw c i. rewrite !eval_prod_fforward. apply eval_prod_depends_scope. intros v Hv.
  apply upd_other. intros He. destruct (Rsum_bound t w Hw) as [Hlt Hni]. apply Hni.
  unfold It. apply in_map_iff. exists v. split; [exact He|]. apply HF1s0; [exact Hv|]. nia.
Qed.

Theorem pot_marginal t : forall a, valid card a -> feval (pot t) a = Phi t (up a).
Proof.
  induction t as [|t IH]; intros a Hv.
  - cbn [pot]. rewrite joint_marg_sem by assumption. cbn [map]. rewrite vminus_nil. unfold Phi. cbn [Rsum].
    transitivity (sum_over (R := Qc_sum_csr) (vminus (scope_of F0) I0) (map card (vminus (scope_of F0) I0)) (eval_prod F0) a).
    { apply sum_over_ext_fun. intros b. reflexivity. }
    transitivity (sum_over (R := Qc_sum_csr) (vminus (scope_of F0) I0) (map card (vminus (scope_of F0) I0)) (eval_prod F0) (up a)).
    { apply sum_over_agree with (S := scope_of F0); [apply eval_prod_depends_scope|symmetry; apply map_length|].
      intros v Hin. symmetry. apply up_small. apply HF0lt. exact Hin. }
    apply sum_over_ext_fun. intros b. unfold unroll. cbn [seq flat_map]. rewrite app_nil_r. reflexivity.
  - cbn [pot]. rewrite feval_fshift by exact HN.
    rewrite joint_marg_sem; [|apply Forall_app; split; [exact HndF1|constructor; [apply pot_nodup|constructor]]
                             |apply valid_reslice; assumption].
    cbn [map]. rewrite vminus_nil. fold (Ostep t).
    (* left side: use the induction hypothesis under the sum *)
    rewrite (sum_over_ext_valid Qc_sum_csr card (Ostep t) _
               (fun b => Qcmult (eval_prod F1 b) (Phi t (up b))) _ (valid_reslice N cards 0 a HN Hv)).
    2:{ intros b Hb. cbn [upds]. rewrite eval_prod_app. f_equal.
        unfold RefFactor.eval_prod. cbn [map prod_list fold_right]. rewrite (mul_1_r Qc_sum_csr). apply IH. exact Hb. }
    (* right side *)
    symmetry. unfold Phi at 1. cbn [Rsum]. rewrite map_app.
    rewrite sum_over_app by (rewrite !map_length; reflexivity).
    rewrite (sum_over_ext_fun Qc_sum_csr _ _ _
               (fun c => Qcmult (Phi t c) (eval_prod (map (fforward N t) F1) c))).
    2:{ intros c. unfold Phi.
        transitivity (sum_over (R := Qc_sum_csr) (Rsum t) (map card (Rsum t))
                        (fun d => Qcmult (eval_prod (unroll N F0 F1 t) d) (eval_prod (map (fforward N t) F1) d)) c).
        { apply sum_over_ext_fun. intros d. apply unroll_markov. }
        exact (sum_over_mul_r Qc_sum_csr (Rsum t) (map card (Rsum t)) (eval_prod (map (fforward N t) F1))
                 (eval_prod (unroll N F0 F1 t)) c (trans_ignores t) (fun _ => I)). }
    rewrite map_map.
    rewrite (map_ext (fun v => card (v + t * N)) card) by (intros v; apply card_shift).
    rewrite sum_over_shift.
    2:{ intros x y Hxy. f_equal.
        - apply (depends_only_ext Qc_sum_csr _ _ (Phi_depends t)). exact Hxy.
        - apply eval_prod_ext. exact Hxy. }
    (* both sides are now sums over Ostep t *)
    symmetry.
    transitivity (sum_over (R := Qc_sum_csr) (Ostep t) (map card (Ostep t))
                    (fun b => Qcmult (eval_prod F1 b) (Phi t (up b))) (fun v => up a (v + t * N))).
    { apply sum_over_aeq.
      - intros x y Hxy. f_equal; [apply eval_prod_ext; exact Hxy|].
        apply (depends_only_ext Qc_sum_csr _ _ (Phi_depends t)). intros w. unfold up. apply Hxy.
      - intros v. rewrite reslice0. unfold up. rewrite Nat.mod_add by exact HN. reflexivity. }
    apply sum_over_ext_fun. intros b. rewrite Qcmult_comm. f_equal.
    + apply (Phi_depends t). intros w Hw. unfold It in Hw. apply in_map_iff in Hw. destruct Hw as [n [<- Hn]].
      unfold up, push. assert (E : Nat.ltb (n + t * N) (t * N) = false) by (apply Nat.ltb_ge; lia). rewrite E.
      rewrite Nat.mod_add by exact HN. rewrite Nat.mod_small by (apply HI0lt; exact Hn). f_equal. lia.
    + rewrite eval_prod_fforward. apply eval_prod_ext. intros v. unfold push.
      assert (E : Nat.ltb (v + t * N) (t * N) = false) by (apply Nat.ltb_ge; lia). rewrite E. f_equal. lia.
Qed.

(* the sequence [pot] is what forward_inference computes while no evidence is given and no query is asked
   in the slice (a query re-initialises the engine, finding dbn-query-resets-belief) *)
Lemma fwd_step_pot qs t pots ans :
  has_query qs (S t) = false ->
  fwd_step N cards F1 I0 I1 qs [] (Ok (pot t, [], pots, ans)) (S t) = Ok (pot (S t), [], pot (S t) :: pots, ans ++ []).
Proof.
  intros Hq. unfold fwd_step. cbn [rbind get_ev filter map app]. rewrite query_slice_none by exact Hq.
  cbn [rbind]. rewrite Hq.
  change (fshift N 0 (joint_marg N cards (F1 ++ [pot t]) [] I1)) with (pot (S t)).
  assert (Hok : in_clique_ok I0 (pot (S t)) = true).
  { unfold in_clique_ok. apply forallb_forall. intros v Hv. apply memv_In. apply (pot_vars_I0 (S t)). exact Hv. }
  rewrite Hok. reflexivity.
Qed.
Lemma fwd_init_pot qs :
  has_query qs 0 = false -> fwd_init N cards F0 I0 qs [] = Ok (pot 0, [], [pot 0], []).
Proof.
  intros Hq. unfold fwd_init. cbn [get_ev filter map]. rewrite query_slice_none by exact Hq. reflexivity.
Qed.
End Induction.
