(* C17 property theorems.  Model: coq/C17/Model.v (pgmpy's DynamicBayesianNetwork bookkeeping and
   DBNInference's interface algorithm as coded, BeliefPropagation replaced by its specification);
   Spec: coq/C17/Spec.v (brute-force marginal of the unrolled network). *)
From Coq Require Import List Arith Bool PeanoNat Lia QArith Qcanon.
From PV Require Import Base.Semiring Base.Ravel Base.FinSum Base.RefFactor C17.Model C17.Spec C17.Proofs C17.ProofsInduction C17.ProofsEvidenceAll C17.ProofsEvidenceMore C17.ProofsBackward C17.ProofsFinite.
Import ListNotations.
Local Open Scope nat_scope.

(* ---- the constant two-slice network exposes the template's CPDs unchanged (scope renamed by the slice
   offset, same cardinalities, same table by named assignment) *)
Theorem C17_constant_bn_same_cpds g cs k es cs' :
  get_constant_bn g cs k = Ok (es, cs') ->
  cs' = map (const_cpd k) cs /\
  forall c, cvar (const_cpd k c) = rename_node k (cvar c) /\ cpars (const_cpd k c) = map (rename_node k) (cpars c) /\
            ccard (const_cpd k c) = ccard c /\ cpcards (const_cpd k c) = cpcards c /\
            forall a : node -> nat, cpd_eval (const_cpd k c) a = cpd_eval c (fun x => a (rename_node k x)).
Proof.
  intros H. split; [eapply constant_bn_cpds; exact H|]. intros c. repeat split. apply const_cpd_eval.
Qed.
Print Assumptions C17_constant_bn_same_cpds.

(* ... but not their state names (finding dbn-state-names-dropped) *)
Theorem C17_constant_bn_state_names_refuted :
  exists c k, cnames (const_cpd k c) <> cnames c.
Proof.
  exists {| cvar := (0, 0); ccard := 2; cpars := []; cpcards := []; cvals := []; cnames := [[100; 101]] |}, 0.
  vm_compute. discriminate.
Qed.
Print Assumptions C17_constant_bn_state_names_refuted.

(* ---- initial-state completion (code after the repairs b467fa1, 4acab62).  One loop iteration for a CPD c
   whose mirror node exists and has no CPD yet: if the mirror's graph parents are c's parents in the other
   slice AS A SET (any order, any cardinalities; possibly none) and lie in one slice, the appended CPD is an
   unaltered copy: same cardinalities, parents in the CPD's own order, same value for every named assignment *)
Theorem C17_initial_state_copy g cs c :
  memnode (flip (cvar c)) (gnodes g) = true ->
  has_cpd cs (flip (cvar c)) = false ->
  same_nodes (map flip (cpars c)) (parents g (flip (cvar c))) = true ->
  forallb (fun x => Nat.eqb (snd x) (snd (hd (0, 0) (parents g (flip (cvar c))))))
          (parents g (flip (cvar c))) = true ->
  length (cpars c) = length (cpcards c) ->
  exists c', init_step g (Ok cs) c = Ok (cs ++ [c']) /\ copy_of c c'.
Proof. exact (init_step_copy g cs c). Qed.
Print Assumptions C17_initial_state_copy.

Definition q4 (n : nat) : Qc := qc n 4.
Definition q8 (n : nat) : Qc := qc n 8.
(* non-vacuity: Z0 -> Z1, binary, only the slice-0 CPD and the transition given *)
Example C17_initial_state_copy_example :
  let g := {| gnodes := [(0, 0); (1, 0); (0, 1); (1, 1)]; gedges := [((0, 0), (1, 0)); ((0, 1), (1, 1))] |} in
  let c := {| cvar := (1, 0); ccard := 2; cpars := [(0, 0)]; cpcards := [2]; cvals := [q4 1; q4 2; q4 3; q4 2];
              cnames := default_names [2; 2] |} in
  exists c', init_step g (Ok [c]) c = Ok ([c] ++ [c']) /\ cvar c' = (1, 1) /\ cpars c' = [(0, 1)].
Proof. intros g c. eexists. vm_compute. repeat split. Qed.

(* non-vacuity for the formerly failing classes: cardinality 3 without parents (was D13), and a CPD whose
   evidence order (B, A) differs from the graph's predecessor order (A, B) *)
Example C17_initial_state_copy_card3 :
  initialize_initial_state {| gnodes := [(0, 0); (0, 1)]; gedges := [] |}
    [{| cvar := (0, 0); ccard := 3; cpars := []; cpcards := []; cvals := [q4 1; q4 1; q4 2]; cnames := default_names [3] |}]
  = Ok [{| cvar := (0, 0); ccard := 3; cpars := []; cpcards := []; cvals := [q4 1; q4 1; q4 2]; cnames := default_names [3] |};
        {| cvar := (0, 1); ccard := 3; cpars := []; cpcards := []; cvals := [q4 1; q4 1; q4 2]; cnames := default_names [3] |}].
Proof. vm_compute. reflexivity. Qed.
Example C17_initial_state_copy_permuted_parents :
  let g := {| gnodes := [(0, 0); (2, 0); (0, 1); (2, 1); (1, 0); (1, 1)];
              gedges := [((0, 0), (2, 0)); ((0, 1), (2, 1)); ((1, 0), (2, 0)); ((1, 1), (2, 1))] |} in
  let c := {| cvar := (2, 1); ccard := 2; cpars := [(1, 1); (0, 1)]; cpcards := [2; 3];
              cvals := map q8 [1; 2; 4; 6; 3; 5; 7; 6; 4; 2; 5; 3]; cnames := default_names [2; 2; 3] |} in
  parents g (2, 0) = [(0, 0); (1, 0)] /\
  exists c', initialize_initial_state g [c] = Ok [c; c'] /\ cpars c' = [(1, 0); (0, 0)] /\ cpcards c' = [2; 3].
Proof. intros g c. split; [reflexivity|]. eexists. vm_compute. repeat split. Qed.

(* finding dbn-state-names-dropped: the copy has integer state names *)
Theorem C17_initial_state_copy_state_names_refuted :
  exists g c c', initialize_initial_state g [c] = Ok [c; c'] /\ cnames c' <> cnames c.
Proof.
  exists {| gnodes := [(0, 0); (0, 1)]; gedges := [] |},
         {| cvar := (0, 0); ccard := 2; cpars := []; cpcards := []; cvals := [q4 1; q4 3]; cnames := [[100; 101]] |}.
  eexists. split; [vm_compute; reflexivity|]. vm_compute. discriminate.
Qed.
Print Assumptions C17_initial_state_copy_state_names_refuted.

(* ---- the unrolled network is the slice-0 part times one transition part per later slice *)
Theorem C17_unroll_markov N cards (F0 F1 : list (factor Qc_sum_csr)) T a :
  eval_prod Qc_sum_csr (card N cards) (unroll N F0 F1 (S T)) a =
  Qcmult (eval_prod Qc_sum_csr (card N cards) (unroll N F0 F1 T) a)
         (eval_prod Qc_sum_csr (card N cards) (map (fforward N T) F1) a).
Proof. apply unroll_markov. Qed.
Print Assumptions C17_unroll_markov.

(* ---- forward filtering.
   FULL STATEMENT (target, not proved in general):
     C17_forward_filtering: for every template whose inter-edge heads and tails are the same names, queries in
     one slice only, every evidence set and every t <= T, the t-th interface potential satisfies
       feval pot_t a = sum over all variables of slices 0..t outside I_t of
                         eval_prod (unroll t) at (a moved to slice t) with the evidence e_{0:t},
     hence forward_inference = spec_filter.
   Proved: the base case and the one-step equation for all inputs (any evidence); the full statement on a finite
   grid; and the GENERAL INDUCTION (C17_forward_filtering_interface_message below: every template of the class,
   every t) for the evidence-free pass.  Still missing: carrying evidence through the induction, and the last
   step from the potential to the normalised answer against Spec.spec_filter (needs permutation invariance of
   sum_over to match the specification's variable order). *)
Theorem C17_forward_filtering_base_partial N cards (F0 F1 : list (factor Qc_sum_csr)) I0 qs ev st a :
  Forall (fun f : factor Qc_sum_csr => NoDup (fvars f)) F0 -> valid (card N cards) a ->
  fwd_init N cards F0 I0 qs ev = Ok st ->
  let ev0 := get_ev N ev 0 0 in
  let scope := vminus (scope_of F0) (map fst ev0) in
  feval Qc_sum_csr (card N cards) (fst (fst (fst st))) a =
  sum_over (R := Qc_sum_csr) (vminus scope I0) (map (card N cards) (vminus scope I0))
           (fun b => eval_prod Qc_sum_csr (card N cards) (unroll N F0 F1 0) (upds b ev0)) a.
Proof. apply forward_base. Qed.
Print Assumptions C17_forward_filtering_base_partial.

Theorem C17_forward_filtering_step_partial N cards (F1 : list (factor Qc_sum_csr)) I0 I1 qs ev pot idict pots ans t st' a :
  N <> 0 -> has_query qs t = false ->
  Forall (fun f : factor Qc_sum_csr => NoDup (fvars f)) (F1 ++ [pot]) -> valid (card N cards) a ->
  fwd_step N cards F1 I0 I1 qs ev (Ok (pot, idict, pots, ans)) t = Ok st' ->
  let ev_t := get_ev N ev t 1 ++ idict in
  let scope := vminus (scope_of (F1 ++ [pot])) (map fst ev_t) in
  feval Qc_sum_csr (card N cards) (fst (fst (fst st'))) a =
  sum_over (R := Qc_sum_csr) (vminus scope I1) (map (card N cards) (vminus scope I1))
           (fun b => Qcmult (eval_prod Qc_sum_csr (card N cards) F1 (upds b ev_t))
                            (feval Qc_sum_csr (card N cards) pot (upds b ev_t)))
           (fun v => a (reslice N 0 v)).
Proof. apply forward_step_sem. Qed.
Print Assumptions C17_forward_filtering_step_partial.

(* ---- the general induction (all templates of the class where pgmpy is right, all t; no evidence, no query in
   an earlier slice).  Class: CPD factors with duplicate-free scopes; slice-0 CPDs over slice 0; transition CPDs
   over slices 0/1 whose slice-0 variables are interface nodes; every interface node is a transition parent;
   inter-edge head names = tail names (I1 = I0 + N).  Then for every t the model's interface potential pot t
   (what forward_inference computes, see the second and third conjunct) is the marginal of the network unrolled
   to t slices onto the slice-t interface:
       feval (pot t) a  =  sum over Rsum t of  eval_prod (unroll t)  at the assignment reading slice t from a,
   where every variable of unroll t is in Rsum t or in the slice-t interface (fourth conjunct). *)
Theorem C17_forward_filtering_interface_message N cards (F0 F1 : list (factor Qc_sum_csr)) (I0 I1 : list var) :
  N <> 0 ->
  Forall (fun f : factor Qc_sum_csr => NoDup (fvars f)) F0 ->
  Forall (fun f : factor Qc_sum_csr => NoDup (fvars f)) F1 ->
  (forall v, In v (scope_of F0) -> v < N) ->
  (forall v, In v (scope_of F1) -> v < 2 * N) ->
  (forall v, In v (scope_of F1) -> v < N -> In v I0) ->
  (forall v, In v I0 -> v < N) ->
  (forall v, In v I0 -> In v (scope_of F1)) ->
  (forall v, In v I1 <-> exists n, In n I0 /\ v = n + N) ->
  (forall t a, valid (card N cards) a ->
     feval Qc_sum_csr (card N cards) (pot N cards F0 F1 I0 I1 t) a =
     sum_over (R := Qc_sum_csr) (Rsum N cards F0 F1 I0 I1 t) (map (card N cards) (Rsum N cards F0 F1 I0 I1 t))
              (eval_prod Qc_sum_csr (card N cards) (unroll N F0 F1 t)) (up N a)) /\
  (forall qs, has_query qs 0 = false ->
     fwd_init N cards F0 I0 qs [] = Ok (pot N cards F0 F1 I0 I1 0, [], [pot N cards F0 F1 I0 I1 0], [])) /\
  (forall qs t pots ans, has_query qs (S t) = false ->
     fwd_step N cards F1 I0 I1 qs [] (Ok (pot N cards F0 F1 I0 I1 t, [], pots, ans)) (S t) =
     Ok (pot N cards F0 F1 I0 I1 (S t), [], pot N cards F0 F1 I0 I1 (S t) :: pots, ans ++ [])) /\
  (forall t w, In w (scope_of (unroll N F0 F1 t)) ->
     In w (Rsum N cards F0 F1 I0 I1 t) \/ In w (It N I0 t)).
Proof.
  intros HN H1 H2 H3 H4 H5 H6 H7 H8. split; [|split; [|split]].
  - intros t a Hv. exact (pot_marginal N cards HN F0 F1 I0 I1 H1 H2 H3 H4 H5 H6 H7 H8 t a Hv).
  - intros qs Hq. apply fwd_init_pot. exact Hq.
  - intros qs t pots ans Hq. apply fwd_step_pot; assumption.
  - intros t w. apply scope_cover; assumption.
Qed.
Print Assumptions C17_forward_filtering_interface_message.

(* non-vacuity: A -> B inside a slice, A_0 -> A_1 (N = 2; variables A0 = 0, B0 = 1, A1 = 2, B1 = 3) *)
Example C17_forward_filtering_interface_message_example :
  let F0 := [mkF [0] [q4 1; q4 3]; mkF [1; 0] [q4 1; q4 2; q4 3; q4 2]] in
  let F1 := [mkF [2; 0] [q4 3; q4 1; q4 1; q4 3]; mkF [3; 2] [q4 1; q4 2; q4 3; q4 2]] in
  let I0 := [0] in let I1 := [2] in
  Forall (fun f : factor Qc_sum_csr => NoDup (fvars f)) F0 /\
  Forall (fun f : factor Qc_sum_csr => NoDup (fvars f)) F1 /\
  (forall v, In v (scope_of F0) -> v < 2) /\
  (forall v, In v (scope_of F1) -> v < 2 * 2) /\
  (forall v, In v (scope_of F1) -> v < 2 -> In v I0) /\
  (forall v, In v I0 -> v < 2) /\
  (forall v, In v I0 -> In v (scope_of F1)) /\
  (forall v, In v I1 <-> exists n, In n I0 /\ v = n + 2).
Proof.
  cbn zeta.
  assert (D1 : NoDup [0]) by (constructor; [intros []|constructor]).
  assert (D2 : NoDup [1; 0]) by (constructor; [intros [H|[]]; discriminate|exact D1]).
  assert (D3 : NoDup [2; 0]) by (constructor; [intros [H|[]]; discriminate|exact D1]).
  assert (D4 : NoDup [3; 2]) by (constructor; [intros [H|[]]; discriminate|constructor; [intros []|constructor]]).
  repeat split.
  - constructor; [exact D1|constructor; [exact D2|constructor]].
  - constructor; [exact D3|constructor; [exact D4|constructor]].
  - intros v Hv. vm_compute in Hv. intuition lia.
  - intros v Hv. vm_compute in Hv. intuition lia.
  - intros v Hv Hlt. vm_compute in Hv. cbn. intuition lia.
  - intros v [<-|[]]. lia.
  - intros v [<-|[]]. vm_compute. tauto.
  - intros [<-|[]]. exists 0. split; [left; reflexivity|reflexivity].
  - intros [n [[<-|[]] ->]]. left. reflexivity.
Qed.

(* finite domain: the 56 templates of ProofsFinite.grid (1-2 binary variables per slice, every intra edge choice,
   every inter-edge set with heads = tails, two CPD parameter choices), every single query variable in slices
   0..2, no evidence or one evidence item anywhere in slices 0..2 (so T <= 2): forward inference of the
   model = brute-force filtered marginal of the unrolled network, exactly *)
Theorem C17_forward_filtering_binary2_T2 t q ev :
  In (t, q, ev) forward_grid ->
  exists v, run t [q] ev false = Ok [(q, v)] /\ spec t q ev false = Some v.
Proof.
  intros H. apply agree_sound.
  pose proof forward_grid_agrees as G. rewrite forallb_forall in G. exact (G _ H).
Qed.
Print Assumptions C17_forward_filtering_binary2_T2.

(* ---- smoothing.  FULL STATEMENT (refuted below in general): backward_inference = spec_smooth.
   Proved on the same finite grid when the evidence is on non-interface variables only. *)
Theorem C17_smoothing_partial_binary2_T2 t q ev :
  In (t, q, ev) backward_grid ->
  exists v, run t [q] ev true = Ok [(q, v)] /\ spec t q ev true = Some v.
Proof.
  intros H. apply agree_sound.
  pose proof backward_grid_agrees as G. rewrite forallb_forall in G. exact (G _ H).
Qed.
Print Assumptions C17_smoothing_partial_binary2_T2.

(* ---- refutations (each replayed on pgmpy by harness/c17.py) *)
(* finding dbn-interface-heads-vs-tails: inter edges A->A, B->A (B has no incoming inter edge): the slice-1
   interface is taken to be the HEADS, so B's distribution is lost: wrong filtered marginal; with A->A, A->B
   the potential does not fit the in-clique: error 4 *)
Theorem C17_forward_filtering_refuted_heads_tails :
  (exists t q, heads_eq_tails t = false /\ agree t q [] false = false /\ exists v, run t [q] [] false = Ok [(q, v)]) /\
  (exists t q, heads_eq_tails t = false /\ run t [q] [] false = Err 4).
Proof.
  split.
  - exists (mk_tpl 2 [(0, 1)] [(0, 0); (1, 0)] 0), (0, 2). split; [reflexivity|]. split; [vm_compute; reflexivity|].
    eexists. vm_compute. reflexivity.
  - exists (mk_tpl 2 [(0, 1)] [(0, 0); (0, 1)] 0), (0, 1). split; [reflexivity|]. vm_compute. reflexivity.
Qed.
Print Assumptions C17_forward_filtering_refuted_heads_tails.

(* finding dbn-query-resets-belief: BeliefPropagation.query re-initialises the engine; with query variables in
   slices 1 and 2 the slice-2 answer is computed without the incoming interface potential *)
Theorem C17_forward_multi_slice_query_refuted :
  exists t qs, heads_eq_tails t = true /\ agree_all t qs [] false = false /\
               forallb (fun q => agree t q [] false) qs = true.
Proof.
  exists (mk_tpl 2 [(0, 1)] [(0, 0)] 0), [(1, 1); (1, 2)]. split; [reflexivity|]. split; vm_compute; reflexivity.
Qed.
Print Assumptions C17_forward_multi_slice_query_refuted.

(* finding dbn-backward-interface-evidence: A -> B inside a slice, A_0 -> A_1; evidence A_1 = 1, query B_2 *)
Theorem C17_smoothing_refuted_interface_evidence :
  exists t q ev, heads_eq_tails t = true /\ agree t q ev true = false /\ agree t q ev false = true.
Proof.
  exists (mk_tpl 2 [(0, 1)] [(0, 0)] 0), (1, 2), [((0, 1), 1)]. split; [reflexivity|]. split; vm_compute; reflexivity.
Qed.
Print Assumptions C17_smoothing_refuted_interface_evidence.

(* ---- sessions: the engine state machine of Model.v (state untouched by a question): the k-th answer of a
   session is the answer a fresh engine gives to the k-th question alone, whatever was asked before *)
Theorem C17_session_independent e qs :
  session e qs = map (answer e) qs /\
  forall pre q, nth_error (session e (pre ++ [q])) (length pre) = Some (answer e q).
Proof.
  assert (H : forall l, session e l = map (answer e) l).
  { induction l as [|q r IH]; [reflexivity|]. cbn [session engine_ask map]. rewrite IH. reflexivity. }
  split; [apply H|]. intros pre q. rewrite H, map_app. rewrite nth_error_app2 by (rewrite map_length; apply le_n).
  rewrite map_length, Nat.sub_diag. reflexivity.
Qed.
Print Assumptions C17_session_independent.

(* ---- rejected edges: add_edges_from keeps exactly the edges before the first rejected one, whatever follows;
   without a rejected edge the partial and the all-or-error readings coincide *)
Theorem C17_add_edges_rejected_prefix es1 g g1 e c es2 :
  dbn_add_edges g es1 = Ok g1 -> dbn_add_edge g1 e = Err c ->
  dbn_add_edges_partial g (es1 ++ e :: es2) = (g1, false) /\ dbn_add_edges g (es1 ++ e :: es2) = Err c.
Proof. exact (add_edges_partial_rejected es1 g g1 e c es2). Qed.
Print Assumptions C17_add_edges_rejected_prefix.

Theorem C17_add_edges_accepted es g g' :
  dbn_add_edges g es = Ok g' -> dbn_add_edges_partial g es = (g', true).
Proof. exact (add_edges_partial_ok es g g'). Qed.
Print Assumptions C17_add_edges_accepted.

(* ---- forward filtering WITH evidence, all t, all templates of the class (ProofsEvidenceAll.v).
   Class: as in C17_forward_filtering_interface_message (head names = tail names, ...); evidence: any list of
   (variable, slice, state) on NON-interface variables (names that are no tails of inter edges), any slices.
   (1) the interface potential of slice t -- what forward_inference propagates -- is the marginal, onto the slice-t
       interface, of the product of the network unrolled to t slices evaluated at the evidence e_{0..t}
       (unnormalised: exactly P(I_t, e_{0..t})) *)
Theorem C17_forward_message_with_evidence N cards (F0 F1 : list (factor Qc_sum_csr)) (I0 I1 : list var) (ev : evidence) :
  N <> 0 ->
  Forall (fun f : factor Qc_sum_csr => NoDup (fvars f)) F0 ->
  Forall (fun f : factor Qc_sum_csr => NoDup (fvars f)) F1 ->
  (forall v, In v (scope_of F0) -> v < N) ->
  (forall v, In v (scope_of F1) -> v < 2 * N) ->
  (forall v, In v (scope_of F1) -> v < N -> In v I0) ->
  (forall v, In v I0 -> v < N) ->
  (forall v, In v I0 -> In v (scope_of F1)) ->
  (forall v, In v I1 <-> exists n, In n I0 /\ v = n + N) ->
  (forall e, In e ev -> fst (fst e) < N /\ ~ In (fst (fst e)) I0) ->
  forall t a, valid (card N cards) a ->
    feval Qc_sum_csr (card N cards) (potE N cards F0 F1 I0 I1 ev t) a =
    sum_over (R := Qc_sum_csr) (RsumE N cards F0 F1 I0 I1 ev t) (map (card N cards) (RsumE N cards F0 F1 I0 I1 ev t))
             (fun x => eval_prod Qc_sum_csr (card N cards) (unroll N F0 F1 t) (upds x (Eglob N ev t))) (up N a).
Proof.
  intros HN H1 H2 H3 H4 H5 H6 H7 H8 H9 t a Hv.
  exact (potE_marginal N cards HN F0 F1 I0 I1 ev H1 H2 H3 H4 H5 H6 H7 H8 H9 t a Hv).
Qed.
Print Assumptions C17_forward_message_with_evidence.

(* (2) the answer: for a query variable of the last slice T >= 1 (unobserved, with a slice-1 CPD), evidence on
   non-interface variables in any slices <= T given as a dict, every variable with a slice-0 and a slice-1 CPD,
   positive cardinalities: forward_inference returns the posterior of the unrolled network (Spec.spec_filter =
   brute-force normalised marginal given all the evidence); it fails with error 5 exactly when the specification is
   undefined, i.e. when P(e) = 0 *)
Theorem C17_forward_filtering_with_evidence N cards (F0 F1 : list (factor Qc_sum_csr)) (I0 I1 : list var) (ev : evidence) qn tq :
  N <> 0 ->
  Forall (fun f : factor Qc_sum_csr => NoDup (fvars f)) F0 ->
  Forall (fun f : factor Qc_sum_csr => NoDup (fvars f)) F1 ->
  (forall v, In v (scope_of F0) -> v < N) ->
  (forall v, In v (scope_of F1) -> v < 2 * N) ->
  (forall v, In v (scope_of F1) -> v < N -> In v I0) ->
  (forall v, In v I0 -> v < N) ->
  (forall v, In v I0 -> In v (scope_of F1)) ->
  (forall v, In v I1 <-> exists n, In n I0 /\ v = n + N) ->
  (forall e, In e ev -> fst (fst e) < N /\ ~ In (fst (fst e)) I0) ->
  (forall e, In e ev -> snd (fst e) <= S tq) ->
  (forall v, 0 < card N cards v) ->
  qn < N ->
  In (enc N (qn, 1)) (scope_of F1) ->
  ~ In (qn, S tq) (map fst ev) ->
  (forall n, n < N -> In n (scope_of F0)) ->
  (forall n, n < N -> In (n + N) (scope_of F1)) ->
  NoDup (map fst ev) ->
  forward_inference N cards F0 F1 I0 I1 [(qn, S tq)] ev =
  match spec_filter N cards F0 F1 (S tq) (qn, S tq) ev with
  | Some v => Ok [((qn, S tq), v)]
  | None => Err 5
  end.
Proof.
  intros HN H1 H2 H3 H4 H5 H6 H7 H8 H9 H10 H11 H12 H13 H14 H15 H16 H17.
  exact (forward_is_posterior N cards HN F0 F1 I0 I1 ev H1 H2 H3 H4 H5 H6 H7 H8 H9 qn tq H10 H11 H12 H13 H14 H15 H16 H17).
Qed.
Print Assumptions C17_forward_filtering_with_evidence.

(* non-vacuity: A -> B inside a slice, A_0 -> A_1 (N = 2); evidence B_0 = 1, B_1 = 0 (B is not an interface
   variable), query B_2: all hypotheses hold and P(e) <> 0 *)
Example C17_forward_filtering_with_evidence_example :
  let F0 := [mkF [0] [q4 1; q4 3]; mkF [1; 0] [q4 1; q4 2; q4 3; q4 2]] in
  let F1 := [mkF [2; 0] [q4 3; q4 1; q4 1; q4 3]; mkF [3; 2] [q4 1; q4 2; q4 3; q4 2]] in
  let I0 := [0] in let I1 := [2] in
  let ev : evidence := [((1, 0), 1); ((1, 1), 0)] in
  (forall e, In e ev -> fst (fst e) < 2 /\ ~ In (fst (fst e)) I0) /\
  (forall e, In e ev -> snd (fst e) <= 2) /\
  (forall v, 0 < card 2 [2; 2] v) /\
  In (enc 2 (1, 1)) (scope_of F1) /\ ~ In (1, 2) (map fst ev) /\
  (forall n, n < 2 -> In n (scope_of F0)) /\ (forall n, n < 2 -> In (n + 2) (scope_of F1)) /\
  NoDup (map fst ev) /\
  spec_filter 2 [2; 2] F0 F1 2 (1, 2) ev <> None /\
  exists v, forward_inference 2 [2; 2] F0 F1 I0 I1 [(1, 2)] ev = Ok [((1, 2), v)].
Proof.
  cbn zeta. split; [|split; [|split; [|split; [|split; [|split; [|split; [|split; [|split]]]]]]]].
  - intros e [<-|[<-|[]]]; cbn; split; try lia; intros [H|[]]; discriminate.
  - intros e [<-|[<-|[]]]; cbn; lia.
  - intros v. unfold card. pose proof (Nat.mod_upper_bound v 2 ltac:(lia)) as Hm.
    destruct (v mod 2) as [|[|m]]; cbn; lia.
  - vm_compute. tauto.
  - cbn. intros [H|[H|[]]]; discriminate.
  - intros n Hn. vm_compute. destruct n as [|[|n]]; [tauto|tauto|lia].
  - intros n Hn. destruct n as [|[|n]]; [vm_compute; tauto|vm_compute; tauto|lia].
  - cbn. constructor; [intros [H|[]]; discriminate|constructor; [intros []|constructor]].
  - vm_compute. discriminate.
  - eexists. vm_compute. reflexivity.
Qed.

(* (3) evidence in ANY slices (also after the query's slice; no bound on the evidence slices): the later evidence
   only makes the run propagate more potentials; the answer for a query variable of slice T >= 1 is the posterior of
   the network unrolled to T slices given the evidence of slices <= T (what Spec.spec_filter computes) *)
Theorem C17_forward_filtering_with_evidence_any_slices N cards (F0 F1 : list (factor Qc_sum_csr)) (I0 I1 : list var) (ev : evidence) qn tq :
  N <> 0 ->
  Forall (fun f : factor Qc_sum_csr => NoDup (fvars f)) F0 ->
  Forall (fun f : factor Qc_sum_csr => NoDup (fvars f)) F1 ->
  (forall v, In v (scope_of F0) -> v < N) ->
  (forall v, In v (scope_of F1) -> v < 2 * N) ->
  (forall v, In v (scope_of F1) -> v < N -> In v I0) ->
  (forall v, In v I0 -> v < N) ->
  (forall v, In v I0 -> In v (scope_of F1)) ->
  (forall v, In v I1 <-> exists n, In n I0 /\ v = n + N) ->
  (forall e, In e ev -> fst (fst e) < N /\ ~ In (fst (fst e)) I0) ->
  (forall v, 0 < card N cards v) ->
  qn < N ->
  In (enc N (qn, 1)) (scope_of F1) ->
  ~ In (qn, S tq) (map fst ev) ->
  (forall n, n < N -> In n (scope_of F0)) ->
  (forall n, n < N -> In (n + N) (scope_of F1)) ->
  NoDup (map fst ev) ->
  forward_inference N cards F0 F1 I0 I1 [(qn, S tq)] ev =
  match spec_filter N cards F0 F1 (S tq) (qn, S tq) ev with
  | Some v => Ok [((qn, S tq), v)]
  | None => Err 5
  end.
Proof.
  intros HN H1 H2 H3 H4 H5 H6 H7 H8 H9 H11 H12 H13 H14 H15 H16 H17.
  exact (forward_is_posterior_any N cards HN F0 F1 I0 I1 ev H1 H2 H3 H4 H5 H6 H7 H8 H9 qn tq H11 H12 H13 H14 H15 H16 H17).
Qed.
Print Assumptions C17_forward_filtering_with_evidence_any_slices.

(* ---- the backward (smoothing) pass, all T, all templates of the class (ProofsBackward.v).
   Additional hypotheses: CPD entries are non-negative (the 0/0 = 0 convention of the ratio update needs: a vanishing
   forward potential is a vanishing sum of non-negative terms, so every term vanishes), positive cardinalities, at
   least one inter edge, every variable has a slice-1 CPD; evidence on non-interface variables in any slices; one
   unobserved query variable of a slice k = S kq >= 1.
   (B1) [partial: the backward message is characterised by the textbook recursion, not yet in the unrolled frame]
   backward_inference = query returns the normalised FORWARD-BACKWARD product: with
     beta_from t r = the backward recursion of the 2-TBN (beta = 1 at the horizon, beta_{t-1} = sum over slice t of
                     transition CPDs at e_t x beta_t), read on the slice-1 interface,
     Wb r x = sum over all other variables of  alpha_{k-1}(I_{k-1}) x transition CPDs of slice k at e_k x
              beta_from k r (I_k)  with the query variable at x,  where alpha_{k-1} = ProofsEvidenceAll.potE is the
              forward message proved equal to the unrolled marginal (C17_forward_message_with_evidence),
   the answer is normalise (Wb (T - k)), error 5 when that or the forward normaliser vanishes.  Inside the proof:
   the update factor entering every slice t >= k is (forward potential of slice t) x beta_from t (T - t)
   (induction from T down, ProofsBackward.bwd_fold_nq), every ratio old * message / potential is finite, and the
   engine re-initialisation after the query does not reach the answer.
   Missing for the full statement: beta_from k (T - k) = sum over the variables of slices k+1..T of the unrolled
   transition parts at e_{k+1..T} (a second merge, in the future direction) and the permutation to Spec's order. *)
Theorem C17_smoothing_forward_backward_partial N cards (F0 F1 : list (factor Qc_sum_csr)) (I0 I1 : list var) (ev : evidence) qn kq :
  N <> 0 ->
  Forall (fun f : factor Qc_sum_csr => NoDup (fvars f)) F0 ->
  Forall (fun f : factor Qc_sum_csr => NoDup (fvars f)) F1 ->
  (forall v, In v (scope_of F1) -> v < N -> In v I0) ->
  (forall v, In v I0 -> v < N) ->
  (forall v, In v I0 -> In v (scope_of F1)) ->
  (forall v, In v I1 <-> exists n, In n I0 /\ v = n + N) ->
  (forall e, In e ev -> fst (fst e) < N /\ ~ In (fst (fst e)) I0) ->
  (forall v, 0 < card N cards v) ->
  I0 <> [] ->
  (forall n, n < N -> In (n + N) (scope_of F1)) ->
  (forall f, In f F0 -> Forall (fun x => (Q2Qc 0 <= x)%Qc) (fvals f)) ->
  (forall f, In f F1 -> Forall (fun x => (Q2Qc 0 <= x)%Qc) (fvals f)) ->
  qn < N ->
  In (enc N (qn, 1)) (scope_of F1) ->
  ~ In (qn, S kq) (map fst ev) ->
  backward_inference N cards F0 F1 I0 I1 [(qn, S kq)] ev =
  match bp_query N cards (F1 ++ [potE N cards F0 F1 I0 I1 ev kq]) (enc N (qn, 1)) (evf N ev (S kq)) with
  | Some _ =>
      match normalise (map (Wb N cards F0 F1 I0 I1 ev qn kq (time_range [(qn, S kq)] ev - S kq))
                           (seq 0 (card N cards (enc N (qn, 1))))) with
      | Some v => Ok [((qn, S kq), v)]
      | None => Err 5
      end
  | None => Err 5
  end.
Proof.
  intros HN H1 H2 H3 H4 H5 H6 H7 H8 H9 H10 H11 H12 H13 H14 H15.
  exact (backward_run N cards HN F0 F1 I0 I1 ev H1 H2 H3 H4 H5 H6 H7 H8 H9 H10 H11 H12 qn kq H13 H14 H15).
Qed.
Print Assumptions C17_smoothing_forward_backward_partial.

(* (B2) FULL statement for a query variable of the last slice (all evidence in slices <= T = S kq): smoothing returns
   the posterior of the network unrolled to T given all the evidence (Spec.spec_smooth), error 5 exactly when P(e) = 0 *)
Theorem C17_smoothing_last_slice N cards (F0 F1 : list (factor Qc_sum_csr)) (I0 I1 : list var) (ev : evidence) qn kq :
  N <> 0 ->
  Forall (fun f : factor Qc_sum_csr => NoDup (fvars f)) F0 ->
  Forall (fun f : factor Qc_sum_csr => NoDup (fvars f)) F1 ->
  (forall v, In v (scope_of F0) -> v < N) ->
  (forall v, In v (scope_of F1) -> v < 2 * N) ->
  (forall v, In v (scope_of F1) -> v < N -> In v I0) ->
  (forall v, In v I0 -> v < N) ->
  (forall v, In v I0 -> In v (scope_of F1)) ->
  (forall v, In v I1 <-> exists n, In n I0 /\ v = n + N) ->
  (forall e, In e ev -> fst (fst e) < N /\ ~ In (fst (fst e)) I0) ->
  (forall v, 0 < card N cards v) ->
  I0 <> [] ->
  (forall n, n < N -> In (n + N) (scope_of F1)) ->
  (forall f, In f F0 -> Forall (fun x => (Q2Qc 0 <= x)%Qc) (fvals f)) ->
  (forall f, In f F1 -> Forall (fun x => (Q2Qc 0 <= x)%Qc) (fvals f)) ->
  qn < N ->
  In (enc N (qn, 1)) (scope_of F1) ->
  ~ In (qn, S kq) (map fst ev) ->
  (forall n, n < N -> In n (scope_of F0)) ->
  NoDup (map fst ev) ->
  (forall e, In e ev -> snd (fst e) <= S kq) ->
  backward_inference N cards F0 F1 I0 I1 [(qn, S kq)] ev =
  match spec_smooth N cards F0 F1 (S kq) (qn, S kq) ev with
  | Some v => Ok [((qn, S kq), v)]
  | None => Err 5
  end.
Proof.
  intros HN H1 H2 H3 H4 H5 H6 H7 H8 H9 H10 H11 H12 H13 H14 H15 H16 H17 H18 H19 H20.
  exact (backward_last_slice N cards HN F0 F1 I0 I1 ev H1 H2 H3 H4 H5 H6 H7 H8 H9 H10 H11 H12 H13 H14 qn kq H15 H16 H17 H18 H19 H20).
Qed.
Print Assumptions C17_smoothing_last_slice.

(* non-vacuity: the template of C17_forward_filtering_with_evidence_example has non-negative CPDs, an inter edge,
   and the backward pass answers with the specification's posterior, for the last slice and for an earlier slice *)
Example C17_smoothing_example :
  let F0 := [mkF [0] [q4 1; q4 3]; mkF [1; 0] [q4 1; q4 2; q4 3; q4 2]] in
  let F1 := [mkF [2; 0] [q4 3; q4 1; q4 1; q4 3]; mkF [3; 2] [q4 1; q4 2; q4 3; q4 2]] in
  let ev : evidence := [((1, 0), 1); ((1, 2), 0)] in
  (forall f, In f (F0 ++ F1) -> Forall (fun x => (Q2Qc 0 <= x)%Qc) (fvals f)) /\
  (exists v, backward_inference 2 [2; 2] F0 F1 [0] [2] [(1, 1)] ev = Ok [((1, 1), v)] /\
             spec_smooth 2 [2; 2] F0 F1 2 (1, 1) ev = Some v) /\
  (exists v, backward_inference 2 [2; 2] F0 F1 [0] [2] [(0, 2)] ev = Ok [((0, 2), v)] /\
             spec_smooth 2 [2; 2] F0 F1 2 (0, 2) ev = Some v).
Proof.
  cbn zeta. split; [|split].
  - intros f Hf. cbn in Hf. repeat (destruct Hf as [<-|Hf]; [cbn; repeat constructor; discriminate|]). destruct Hf.
  - eexists. split; vm_compute; reflexivity.
  - eexists. split; vm_compute; reflexivity.
Qed.
