(* C17 lemmas: template bookkeeping (constant network, initial-state completion), the Markov
   factorisation of the unrolled network, and the semantics of one interface-algorithm step. *)
From Coq Require Import List Arith Bool PeanoNat Lia QArith Qcanon.
From PV Require Import Base.Semiring Base.Ravel Base.FinSum Base.RefFactor Base.VE C17.Model C17.Spec.
Import ListNotations.
Local Open Scope nat_scope.

(* ------------------------------------------------------------------ get_constant_bn *)
Lemma constant_bn_cpds g cs k es cs' :
  get_constant_bn g cs k = Ok (es, cs') -> cs' = map (const_cpd k) cs.
Proof. unfold get_constant_bn. destruct (forallb _ cs); intros H; inversion H; reflexivity. Qed.

Lemma const_cpd_eval k c (a : node -> nat) :
  cpd_eval (const_cpd k c) a = cpd_eval c (fun x => a (rename_node k x)).
Proof. unfold cpd_eval, const_cpd. cbn [cvar cpars ccard cpcards cvals map]. rewrite map_map. reflexivity. Qed.

(* ------------------------------------------------------------------ add_edges_from and rejected edges *)
Lemma add_edges_err es c :
  fold_left (fun r e => rbind r (fun g' => dbn_add_edge g' e)) es (Err c) = Err c.
Proof. induction es as [|e es IH]; [reflexivity|]. cbn [fold_left rbind]. exact IH. Qed.
Lemma add_edges_cons g e r :
  dbn_add_edges g (e :: r) = rbind (dbn_add_edge g e) (fun g' => dbn_add_edges g' r).
Proof.
  unfold dbn_add_edges. cbn [fold_left rbind]. destruct (dbn_add_edge g e); cbn [rbind]; [reflexivity|apply add_edges_err].
Qed.
Lemma add_edges_partial_ok es : forall g g',
  dbn_add_edges g es = Ok g' -> dbn_add_edges_partial g es = (g', true).
Proof.
  induction es as [|e es IH]; intros g g' H.
  - unfold dbn_add_edges in H. cbn in H. inversion H. reflexivity.
  - rewrite add_edges_cons in H. cbn [dbn_add_edges_partial]. destruct (dbn_add_edge g e) as [g1|c]; [|discriminate].
    cbn [rbind] in H. apply IH. exact H.
Qed.
Lemma add_edges_partial_rejected es1 : forall g g1 e c es2,
  dbn_add_edges g es1 = Ok g1 -> dbn_add_edge g1 e = Err c ->
  dbn_add_edges_partial g (es1 ++ e :: es2) = (g1, false) /\ dbn_add_edges g (es1 ++ e :: es2) = Err c.
Proof.
  induction es1 as [|x es1 IH]; intros g g1 e c es2 H He.
  - unfold dbn_add_edges in H. cbn in H. inversion H; subst. cbn [app dbn_add_edges_partial].
    rewrite add_edges_cons, He. split; reflexivity.
  - rewrite add_edges_cons in H. cbn [app dbn_add_edges_partial]. rewrite add_edges_cons.
    destruct (dbn_add_edge g x) as [g2|c2]; [|discriminate]. cbn [rbind] in *. apply IH; assumption.
Qed.

(* ------------------------------------------------------------------ initialize_initial_state *)
Definition copy_of (c c' : cpd) : Prop :=
  cvar c' = flip (cvar c) /\ cpars c' = map flip (cpars c) /\ ccard c' = ccard c /\ cpcards c' = cpcards c /\
  forall a : node -> nat, cpd_eval c' a = cpd_eval c (fun x => a (flip x)).

Lemma init_step_copy g cs c :
  memnode (flip (cvar c)) (gnodes g) = true ->
  has_cpd cs (flip (cvar c)) = false ->
  same_nodes (map flip (cpars c)) (parents g (flip (cvar c))) = true ->
  forallb (fun x => Nat.eqb (snd x) (snd (hd (0, 0) (parents g (flip (cvar c))))))
          (parents g (flip (cvar c))) = true ->
  length (cpars c) = length (cpcards c) ->
  exists c', init_step g (Ok cs) c = Ok (cs ++ [c']) /\ copy_of c c'.
Proof.
  intros Hmem Hno Hsame Hslice Hlen. unfold init_step, rbind. rewrite Hmem. cbn [negb]. rewrite Hno, Hslice.
  destruct (parents g (flip (cvar c))) as [|p ps] eqn:Ep.
  - (* no graph parents: then the CPD has no parents either *)
    unfold same_nodes in Hsame. apply andb_true_iff in Hsame. destruct Hsame as [H1 _].
    destruct (cpars c) as [|q qs] eqn:Eq; [|cbn in H1; discriminate].
    destruct (cpcards c) as [|k ks] eqn:Ek; [|discriminate].
    eexists. split; [reflexivity|]. unfold copy_of. cbn [cvar cpars ccard cpcards cvals]. rewrite Eq, Ek.
    split; [reflexivity|]. split; [reflexivity|]. split; [reflexivity|]. split; [reflexivity|].
    intros a. unfold cpd_eval. cbn [cvar cpars ccard cpcards cvals]. rewrite Eq, Ek. reflexivity.
  - rewrite Hsame. rewrite map_length, Hlen, Nat.eqb_refl.
    eexists. split; [reflexivity|]. unfold copy_of. cbn [cvar cpars ccard cpcards cvals].
    split; [reflexivity|]. split; [reflexivity|]. split; [reflexivity|]. split; [reflexivity|].
    intros a. unfold cpd_eval. cbn [cvar cpars ccard cpcards cvals]. cbn [map]. rewrite map_map. reflexivity.
Qed.

(* ------------------------------------------------------------------ unrolled network: Markov factorisation *)
Section Sem.
Variable N : nat.
Variable cards : list nat.
Notation F := (factor Qc_sum_csr).
Notation card := (card N cards).
Notation eval_prod := (eval_prod Qc_sum_csr card).
Notation feval := (feval Qc_sum_csr card).

Lemma eval_prod_app (l1 l2 : list F) a : eval_prod (l1 ++ l2) a = Qcmult (eval_prod l1 a) (eval_prod l2 a).
Proof. unfold RefFactor.eval_prod. rewrite map_app. apply (prod_list_app Qc_sum_csr). Qed.

Lemma unroll_succ (F0 F1 : list F) T :
  unroll N F0 F1 (S T) = unroll N F0 F1 T ++ map (fforward N T) F1.
Proof.
  unfold unroll. rewrite <- app_assoc. f_equal.
  replace (S T) with (T + 1) by lia. rewrite seq_app, flat_map_app. cbn [seq flat_map]. rewrite app_nil_r.
  f_equal. replace (1 + T - 1) with T by lia. reflexivity.
Qed.

Lemma unroll_markov (F0 F1 : list F) T a :
  eval_prod (unroll N F0 F1 (S T)) a =
  Qcmult (eval_prod (unroll N F0 F1 T) a) (eval_prod (map (fforward N T) F1) a).
Proof. rewrite unroll_succ. apply eval_prod_app. Qed.

(* ------------------------------------------------------------------ one step of the interface algorithm *)
Lemma In_scope_of (fs : list F) : forall acc x,
  In x (fold_left (fun acc f => vunion acc (fvars f)) fs acc) <-> In x acc \/ exists f, In f fs /\ In x (fvars f).
Proof.
  induction fs as [|f fs IH]; intros acc x; simpl.
  - split; [auto|intros [H|[f [[] _]]]; exact H].
  - rewrite IH, In_vunion. split.
    + intros [[H|H]|[g [Hg Hx]]]; [left; exact H|right; exists f; auto|right; exists g; auto].
    + intros [H|[g [[->|Hg] Hx]]]; [left; left; exact H|left; right; exact Hx|right; exists g; auto].
Qed.

Lemma NoDup_scope_of (fs : list F) : forall acc, NoDup acc -> Forall (fun f => NoDup (fvars f)) fs ->
  NoDup (fold_left (fun acc f => vunion acc (fvars f)) fs acc).
Proof.
  induction fs as [|f fs IH]; intros acc Ha Hf; simpl; [exact Ha|].
  inversion Hf; subst. apply IH; [apply NoDup_vunion; assumption|assumption].
Qed.

Lemma eval_prod_depends_scope (fs : list F) : depends_only (eval_prod fs) (scope_of fs).
Proof.
  intros a b Hab. unfold RefFactor.eval_prod. f_equal. apply map_ext_in. intros f Hf.
  apply feval_depends_only. intros v Hv. apply Hab. unfold scope_of. apply In_scope_of. right. exists f. auto.
Qed.

Lemma upds_in a b ev v : In v (map fst ev) -> upds a ev v = upds b ev v.
Proof.
  induction ev as [|[w i] ev IH]; intros H; [destruct H|]. cbn [upds]. unfold upd.
  destruct (Nat.eqb v w) eqn:E; [reflexivity|]. apply IH. destruct H as [H|H]; [|exact H].
  simpl in H. subst. rewrite Nat.eqb_refl in E. discriminate.
Qed.

(* the meaning of _marginalize_factor(S, _get_factor(bp, ev)) *)
Theorem joint_marg_sem (fs : list F) ev S a :
  Forall (fun f => NoDup (fvars f)) fs -> valid card a ->
  let scope := vminus (scope_of fs) (map fst ev) in
  feval (joint_marg N cards fs ev S) a =
  sum_over (R := Qc_sum_csr) (vminus scope S) (map card (vminus scope S)) (fun b => eval_prod fs (upds b ev)) a.
Proof.
  intros Hnd Hv scope. unfold joint_marg. fold scope.
  assert (Hsc : NoDup scope).
  { apply NoDup_filter. unfold scope_of. apply NoDup_scope_of; [constructor|exact Hnd]. }
  apply feval_fbuild; [apply NoDup_filter; exact Hsc|exact Hv|].
  eapply depends_only_mono.
  - apply sum_over_depends_only with (S := scope); [|symmetry; apply map_length].
    intros x y Hxy. apply eval_prod_depends_scope. intros v Hv'.
    destruct (in_dec Nat.eq_dec v (map fst ev)) as [Hi|Hi].
    + apply upds_in. exact Hi.
    + rewrite !upds_other by exact Hi. apply Hxy. apply In_vminus. split; assumption.
  - intros v Hin. apply filter_In in Hin. destruct Hin as [Hin Hb]. apply filter_In. split; [exact Hin|].
    destruct (memv v S) eqn:E; [reflexivity|]. exfalso.
    apply negb_true_iff in Hb.
    assert (Hm : In v (vminus scope S)) by (apply In_vminus; split; [exact Hin|apply memv_false; exact E]).
    apply memv_In in Hm. unfold memv in Hm. congruence.
Qed.

(* ---- shifting a factor between slices keeps its table; cardinalities depend on the name only *)
Lemma reslice_card s v : N <> 0 -> card (reslice N s v) = card v.
Proof.
  intros HN. unfold Model.card, reslice. f_equal.
  rewrite Nat.add_comm, Nat.mod_add by exact HN. apply Nat.mod_mod. exact HN.
Qed.
Lemma feval_fshift s (f : F) a : N <> 0 ->
  feval (fshift N s f) a = feval f (fun v => a (reslice N s v)).
Proof.
  intros HN. unfold RefFactor.feval, fshift, mkF, fcard. cbn [fvars fvals]. rewrite !map_map. f_equal.
  apply map_ext. intros v. apply reslice_card. exact HN.
Qed.
Lemma valid_reslice s a : N <> 0 -> valid card a -> valid card (fun v => a (reslice N s v)).
Proof. intros HN Hv v. rewrite <- (reslice_card s v HN). apply Hv. Qed.

Lemma query_slice_none (fs : list F) qs t sh ev :
  has_query qs t = false -> query_slice N cards fs qs t sh ev = Ok [].
Proof.
  unfold has_query, query_slice. induction qs as [|q qs IH]; intros H; [reflexivity|].
  cbn [existsb] in H. apply orb_false_iff in H. destruct H as [H1 H2]. cbn [fold_right]. rewrite H1. apply IH. exact H2.
Qed.

Variables (F0 F1 : list F) (I0 I1 : list var).

(* base case: the first interface potential is the sum, over the unobserved non-interface variables of
   slice 0, of the product of the slice-0 CPDs at the evidence: P(I_0, e_0) of the unrolled network *)
Theorem forward_base qs ev st a :
  Forall (fun f : F => NoDup (fvars f)) F0 -> valid card a ->
  fwd_init N cards F0 I0 qs ev = Ok st ->
  let ev0 := get_ev N ev 0 0 in
  let scope := vminus (scope_of F0) (map fst ev0) in
  feval (fst (fst (fst st))) a =
  sum_over (R := Qc_sum_csr) (vminus scope I0) (map card (vminus scope I0))
           (fun b => eval_prod (unroll N F0 F1 0) (upds b ev0)) a.
Proof.
  intros Hnd Hv Hinit ev0 scope. unfold fwd_init in Hinit.
  destruct (query_slice N cards F0 qs 0 0 (get_ev N ev 0 0)) as [ans|c]; [|discriminate].
  cbn [rbind] in Hinit. inversion Hinit; subst st. cbn [fst].
  rewrite joint_marg_sem by assumption. fold ev0 scope.
  apply sum_over_ext_fun. intros b. unfold unroll. cbn [seq flat_map]. rewrite app_nil_r. reflexivity.
Qed.

(* one step (no query inside the slice): the next potential is the marginal, onto the slice-1 interface,
   of  transition CPDs x previous potential  at the slice's evidence, read at slice 0 *)
Theorem forward_step_sem qs ev pot idict pots ans t st' a :
  N <> 0 -> has_query qs t = false ->
  Forall (fun f : F => NoDup (fvars f)) (F1 ++ [pot]) -> valid card a ->
  fwd_step N cards F1 I0 I1 qs ev (Ok (pot, idict, pots, ans)) t = Ok st' ->
  let ev_t := get_ev N ev t 1 ++ idict in
  let scope := vminus (scope_of (F1 ++ [pot])) (map fst ev_t) in
  feval (fst (fst (fst st'))) a =
  sum_over (R := Qc_sum_csr) (vminus scope I1) (map card (vminus scope I1))
           (fun b => Qcmult (eval_prod F1 (upds b ev_t)) (feval pot (upds b ev_t)))
           (fun v => a (reslice N 0 v)).
Proof.
  intros HN Hq Hnd Hv Hstep ev_t scope. unfold fwd_step in Hstep. cbn [rbind] in Hstep.
  rewrite query_slice_none in Hstep by exact Hq. cbn [rbind] in Hstep. rewrite Hq in Hstep.
  fold ev_t in Hstep.
  destruct (in_clique_ok I0 (fshift N 0 (joint_marg N cards (F1 ++ [pot]) ev_t I1))); [|discriminate].
  inversion Hstep; subst st'. cbn [fst].
  rewrite feval_fshift by exact HN.
  rewrite joint_marg_sem; [|exact Hnd|apply valid_reslice; assumption]. fold scope.
  apply sum_over_ext_fun. intros b. rewrite eval_prod_app. f_equal.
  unfold RefFactor.eval_prod. cbn [map prod_list fold_right]. apply (mul_1_r Qc_sum_csr).
Qed.
End Sem.
