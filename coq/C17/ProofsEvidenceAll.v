(* C17: forward filtering WITH evidence, for all t and all templates in the class where pgmpy is right
   (inter-edge head names = tail names), evidence on non-interface variables in any slices:
   (1) the interface potential of slice t is the marginal, onto the slice-t interface, of the product of the
       network unrolled to t slices, evaluated at the evidence e_{0..t}  (= P(I_t, e_{0..t}));
   (2) the normalised answer of forward_inference for a query variable of the last slice is the posterior of the
       unrolled network (Spec.spec_filter), in particular both are defined exactly when P(e) <> 0. *)
From Coq Require Import List Arith Bool PeanoNat Lia QArith Qcanon Permutation.
From PV Require Import Base.Semiring Base.Ravel Base.FinSum Base.RefFactor Base.VE C17.Model C17.Spec C17.Proofs C17.ProofsInduction.
Import ListNotations.
Local Open Scope nat_scope.

(* ---- generic facts about evidence overrides and sums *)
Lemma upds_app a e1 e2 : forall v, upds a (e1 ++ e2) v = upds (upds a e2) e1 v.
Proof. induction e1 as [|[w i] e1 IH]; intros v; [reflexivity|]. cbn [app upds]. unfold upd. destruct (Nat.eqb v w); [reflexivity|apply IH]. Qed.

Lemma upds_agree (S : var -> Prop) a b ev : (forall v, S v -> a v = b v) -> forall v, S v -> upds a ev v = upds b ev v.
Proof.
  intros H. induction ev as [|[w i] ev IH]; intros v Hv; [apply H; exact Hv|]. cbn [upds]. unfold upd.
  destruct (Nat.eqb v w); [reflexivity|apply IH; exact Hv].
Qed.

Lemma upds_aeq a b ev : aeq a b -> aeq (upds a ev) (upds b ev).
Proof. intros H v. apply (upds_agree (fun _ => True)); [intros; apply H|exact I]. Qed.

Lemma upd_upds_comm a ev v i : ~ In v (map fst ev) -> aeq (upd (upds a ev) v i) (upds (upd a v i) ev).
Proof.
  intros Hn w. induction ev as [|[u j] ev IH].
  - reflexivity.
  - cbn [upds]. cbn [map fst] in Hn.
    assert (IH' := IH (fun H => Hn (or_intror H))). clear IH.
    unfold upd in *. destruct (Nat.eqb w v) eqn:E1; destruct (Nat.eqb w u) eqn:E2.
    + apply Nat.eqb_eq in E1, E2. subst. exfalso. apply Hn. left. reflexivity.
    + exact IH'.
    + reflexivity.
    + exact IH'.
Qed.

Lemma upds_value a ev : NoDup (map fst ev) -> forall v i, In (v, i) ev -> upds a ev v = i.
Proof.
  induction ev as [|[w j] ev IH]; intros Hn v i Hin; [destruct Hin|]. cbn [upds]. cbn [map fst] in Hn.
  inversion Hn as [|? ? Hw Hn']; subst. destruct Hin as [Hin|Hin].
  - inversion Hin; subst. apply upd_same.
  - rewrite upd_other; [apply IH; assumption|]. intros E; subst. apply Hw. apply in_map_iff. exists (w, i). auto.
Qed.

(* a sum whose summand overrides the evidence = the same sum started from the overridden assignment *)
Lemma sum_over_upds (R : csr) vs : forall cs (g : asg -> R) ev s, ext g ->
  (forall v, In v vs -> ~ In v (map fst ev)) ->
  sum_over vs cs (fun c => g (upds c ev)) s = sum_over vs cs g (upds s ev).
Proof.
  induction vs as [|v vs IH]; intros cs g ev s Hg Hd; [reflexivity|]. destruct cs as [|c cs]; [reflexivity|].
  cbn [sum_over]. apply sum_list_ext. intros i _. rewrite IH; [|exact Hg|intros w Hw; apply Hd; right; exact Hw].
  apply sum_over_aeq; [exact Hg|]. apply aeq_sym. apply upd_upds_comm. apply Hd. left. reflexivity.
Qed.

Lemma depends_upds (R : csr) (f : asg -> R) S ev :
  depends_only f S -> depends_only (fun x => f (upds x ev)) (vminus S (map fst ev)).
Proof.
  intros Hd x y Hxy. apply Hd. intros v Hv.
  destruct (in_dec Nat.eq_dec v (map fst ev)) as [Hi|Hi]; [apply upds_in; exact Hi|].
  rewrite !upds_other by exact Hi. apply Hxy. apply In_vminus. split; assumption.
Qed.

(* ---- permutation invariance of sum_over *)
Lemma sum_over_perm (R : csr) (cardf : var -> nat) vs vs' : Permutation vs vs' -> NoDup vs ->
  forall (g : asg -> R) a, ext g -> sum_over vs (map cardf vs) g a = sum_over vs' (map cardf vs') g a.
Proof.
  induction 1 as [|x l l' Hp IH|x y l|l l' l'' H1 IH1 H2 IH2]; intros Hnd g a Hg.
  - reflexivity.
  - cbn [map sum_over]. inversion Hnd; subst. apply sum_list_ext. intros i _. apply IH; assumption.
  - inversion Hnd as [|? ? Hy Hnd']; subst.
    assert (Hne : y <> x) by (intros E; apply Hy; left; symmetry; exact E).
    cbn [map sum_over].
    rewrite (sum_list_swap R (fun i j => sum_over l (map cardf l) g (upd (upd a y i) x j))).
    apply sum_list_ext. intros j _. apply sum_list_ext. intros i _.
    apply sum_over_aeq; [exact Hg|]. apply upd_comm. exact Hne.
  - rewrite IH1 by assumption. apply IH2; [|exact Hg]. eapply Permutation_NoDup; eassumption.
Qed.

Lemma vinter_single (l : list var) (x : var) : NoDup l -> In x l -> vinter l [x] = [x].
Proof.
  unfold vinter. induction l as [|y l IH]; intros Hnd Hin; [destruct Hin|].
  inversion Hnd as [|? ? Hy Hnd']; subst. cbn [filter memv existsb]. destruct (Nat.eqb y x) eqn:E.
  - apply Nat.eqb_eq in E. subst. cbn [orb]. f_equal.
    clear - Hy. induction l as [|z l IH]; [reflexivity|]. cbn [filter memv existsb].
    destruct (Nat.eqb z x) eqn:E; [apply Nat.eqb_eq in E; subst; exfalso; apply Hy; left; reflexivity|].
    cbn [orb]. apply IH. intros H. apply Hy. right. exact H.
  - cbn [orb]. apply IH; [exact Hnd'|]. destruct Hin as [->|H]; [rewrite Nat.eqb_refl in E; discriminate|exact H].
Qed.

Lemma t_build_single (K : Type) (c : nat) (f : list nat -> K) :
  t_build K [c] f = map (fun n => f [n]) (seq 0 c).
Proof.
  unfold t_build. cbn [prod fold_right]. rewrite Nat.mul_1_r. apply map_ext. intros n.
  cbn [unravel prod fold_right]. rewrite Nat.div_1_r. reflexivity.
Qed.

Lemma upds_functional a (E : list (var * nat)) k i :
  (forall j, In (k, j) E -> j = i) -> In k (map fst E) -> upds a E k = i.
Proof.
  induction E as [|[w j] E IH]; intros Hf Hin; [destruct Hin|]. cbn [upds]. unfold upd.
  destruct (Nat.eqb k w) eqn:Eq.
  - apply Nat.eqb_eq in Eq. subst. apply Hf. left. reflexivity.
  - apply IH; [intros j' Hj'; apply Hf; right; exact Hj'|]. destruct Hin as [Hin|Hin]; [|exact Hin].
    cbn in Hin. subst. rewrite Nat.eqb_refl in Eq. discriminate.
Qed.

Lemma NoDup_fst_functional {A B} (l : list (A * B)) a i j :
  NoDup (map fst l) -> In (a, i) l -> In (a, j) l -> i = j.
Proof.
  induction l as [|[x y] l IH]; intros Hnd Hi Hj; [destruct Hi|]. cbn [map fst] in Hnd. inversion Hnd as [|? ? Hx Hnd']; subst.
  destruct Hi as [Hi|Hi]; destruct Hj as [Hj|Hj].
  - inversion Hi; inversion Hj; subst. reflexivity.
  - inversion Hi; subst. exfalso. apply Hx. apply in_map_iff. exists (a, j). auto.
  - inversion Hj; subst. exfalso. apply Hx. apply in_map_iff. exists (a, i). auto.
  - apply IH; assumption.
Qed.

Lemma NoDup_map_add k l : NoDup l -> NoDup (map (fun v => v + k) l).
Proof. intros H. apply NoDup_map_inj_on; [exact H|]. intros x y _ _ E. lia. Qed.

Lemma filter_all {A} (f : A -> bool) (l : list A) : (forall x, In x l -> f x = true) -> filter f l = l.
Proof.
  induction l as [|x l IH]; intros H; [reflexivity|]. cbn [filter]. rewrite (H x (or_introl eq_refl)). f_equal.
  apply IH. intros y Hy. apply H. right. exact Hy.
Qed.

Lemma max_slices_le (l : evidence) T : (forall e, In e l -> snd (fst e) <= T) ->
  fold_right Nat.max 0 (map (fun e : node * nat => snd (fst e)) l) <= T.
Proof.
  induction l as [|e r IH]; intros H; [cbn; lia|]. cbn [map fold_right].
  assert (snd (fst e) <= T) by (apply H; left; reflexivity).
  assert (fold_right Nat.max 0 (map (fun e0 : node * nat => snd (fst e0)) r) <= T) by (apply IH; intros e0 He0; apply H; right; exact He0).
  lia.
Qed.

Section Evid.
Variable N : nat.
Variable cards : list nat.
Hypothesis HN : N <> 0.
Notation F := (factor Qc_sum_csr).
Notation card := (card N cards).
Notation eval_prod := (eval_prod Qc_sum_csr card).
Notation feval := (feval Qc_sum_csr card).
Variables (F0 F1 : list F) (I0 I1 : list var).
Variable ev : evidence.

Hypothesis HndF0 : Forall (fun f : F => NoDup (fvars f)) F0.
Hypothesis HndF1 : Forall (fun f : F => NoDup (fvars f)) F1.
Hypothesis HF0lt : forall v, In v (scope_of F0) -> v < N.
Hypothesis HF1lt : forall v, In v (scope_of F1) -> v < 2 * N.
Hypothesis HF1s0 : forall v, In v (scope_of F1) -> v < N -> In v I0.
Hypothesis HI0lt : forall v, In v I0 -> v < N.
Hypothesis HI0F1 : forall v, In v I0 -> In v (scope_of F1).
Hypothesis HI1 : forall v, In v I1 <-> exists n, In n I0 /\ v = n + N.
(* evidence on non-interface variables (names < N that are no tails of inter edges), in any slices *)
Hypothesis Hev : forall e, In e ev -> fst (fst e) < N /\ ~ In (fst (fst e)) I0.

Definition ev0 : list (var * nat) := get_ev N ev 0 0.
Definition evf (t : nat) : list (var * nat) := get_ev N ev t 1.      (* evidence of slice t, read at slice 1 *)
Definition shiftev (k : nat) (e : list (var * nat)) : list (var * nat) := map (fun p => (fst p + k * N, snd p)) e.

Fixpoint potE (t : nat) : F :=
  match t with
  | 0 => joint_marg N cards F0 ev0 I0
  | S t' => fshift N 0 (joint_marg N cards (F1 ++ [potE t']) (evf (S t')) I1)
  end.
Definition OstepE (t : nat) : list var :=
  vminus (vminus (scope_of (F1 ++ [potE t])) (map fst (evf (S t)))) I1.
Fixpoint RsumE (t : nat) : list var :=
  match t with
  | 0 => vminus (vminus (scope_of F0) (map fst ev0)) I0
  | S t' => map (fun v => v + t' * N) (OstepE t') ++ RsumE t'
  end.
(* the evidence of slices 0..t as an override of the unrolled network's variables *)
Fixpoint Eglob (t : nat) : list (var * nat) :=
  match t with
  | 0 => ev0
  | S t' => shiftev t' (evf (S t')) ++ Eglob t'
  end.
Definition JE (t : nat) : asg -> Qc_sum_csr := fun x => eval_prod (unroll N F0 F1 t) (upds x (Eglob t)).
Definition PhiE (t : nat) : asg -> Qc_sum_csr := sum_over (R := Qc_sum_csr) (RsumE t) (map card (RsumE t)) (JE t).
Definition lift (t : nat) (a1 : asg) : asg := fun w => a1 (w - t * N).
Notation It := (It N I0).
Notation up := (up N).

(* ---- where the evidence keys live *)
Lemma key_get_ev t sh k : In k (map fst (get_ev N ev t sh)) -> exists n, k = sh * N + n /\ n < N /\ ~ In n I0.
Proof.
  unfold get_ev. rewrite map_map. intros H. apply in_map_iff in H. destruct H as [e [<- He]].
  apply filter_In in He. destruct He as [He _]. destruct (Hev e He) as [H1 H2].
  exists (fst (fst e)). cbn [fst snd enc]. repeat split; assumption.
Qed.
Lemma key_evf t k : In k (map fst (evf t)) -> exists n, k = N + n /\ n < N /\ ~ In n I0.
Proof. intros H. destruct (key_get_ev t 1 k H) as [n [-> Hn]]. exists n. split; [lia|exact Hn]. Qed.
Lemma key_ev0 k : In k (map fst ev0) -> k < N /\ ~ In k I0.
Proof. intros H. destruct (key_get_ev 0 0 k H) as [n [-> [H1 H2]]]. cbn. split; assumption. Qed.
Lemma key_shiftev k e w : In w (map fst (shiftev k e)) <-> exists v, In v (map fst e) /\ w = v + k * N.
Proof.
  unfold shiftev. rewrite map_map. cbn [fst]. split.
  - intros H. apply in_map_iff in H. destruct H as [p [<- Hp]]. exists (fst p). split; [apply in_map; exact Hp|reflexivity].
  - intros [v [Hv ->]]. apply in_map_iff in Hv. destruct Hv as [p [<- Hp]]. apply in_map_iff. exists p. split; [reflexivity|exact Hp].
Qed.
Lemma key_Eglob t : forall k, In k (map fst (Eglob t)) -> exists n s, k = n + s * N /\ n < N /\ s <= t /\ ~ In n I0.
Proof.
  induction t as [|t IH]; intros k Hk; cbn [Eglob] in Hk.
  - destruct (key_ev0 k Hk) as [H1 H2]. exists k, 0. repeat split; try assumption; lia.
  - rewrite map_app in Hk. apply in_app_or in Hk. destruct Hk as [Hk|Hk].
    + apply key_shiftev in Hk. destruct Hk as [v [Hv ->]]. destruct (key_evf _ _ Hv) as [n [-> [H1 H2]]].
      exists n, (S t). repeat split; try assumption; lia.
    + destruct (IH k Hk) as [n [s [-> [H1 [H2 H3]]]]]. exists n, s. repeat split; try assumption; lia.
Qed.

Lemma upds_shiftev a k e v : upds a (shiftev k e) (v + k * N) = upds (fun u => a (u + k * N)) e v.
Proof.
  induction e as [|[w i] e IH]; [reflexivity|]. cbn [shiftev map fst snd upds]. fold (shiftev k e). unfold upd.
  destruct (Nat.eqb v w) eqn:E.
  - apply Nat.eqb_eq in E. subst. rewrite Nat.eqb_refl. reflexivity.
  - apply Nat.eqb_neq in E. assert (H : v + k * N <> w + k * N) by lia. apply Nat.eqb_neq in H. rewrite H. exact IH.
Qed.

(* ---- scopes *)
Lemma I0_not_I1E v : In v I0 -> ~ In v I1.
Proof. intros H0 H1. apply HI1 in H1. destruct H1 as [n [_ ->]]. apply HI0lt in H0. lia. Qed.

Lemma potE_vars_I0 t : forall v, In v (fvars (potE t)) -> In v I0.
Proof.
  destruct t as [|t]; intros v Hv; cbn [potE] in Hv.
  - unfold joint_marg in Hv. cbn [fvars fbuild] in Hv. unfold vinter in Hv. apply filter_In in Hv. apply memv_In. apply Hv.
  - unfold fshift, mkF, joint_marg in Hv. cbn [fvars fbuild] in Hv. apply in_map_iff in Hv.
    destruct Hv as [w [<- Hw]]. unfold vinter in Hw. apply filter_In in Hw. destruct Hw as [_ Hw].
    apply memv_In in Hw. apply HI1 in Hw. destruct Hw as [n [Hn ->]].
    rewrite reslice0. rewrite <- (Nat.mul_1_l N) at 1. rewrite Nat.mod_add by exact HN.
    rewrite Nat.mod_small by (apply HI0lt; exact Hn). exact Hn.
Qed.

Lemma potE_nodup t : NoDup (fvars (potE t)).
Proof.
  induction t as [|t IH]; cbn [potE].
  - unfold joint_marg. cbn [fvars fbuild]. apply NoDup_filter. apply NoDup_filter.
    unfold scope_of. apply NoDup_scope_of; [constructor|exact HndF0].
  - unfold fshift, mkF, joint_marg. cbn [fvars fbuild]. apply NoDup_map_inj_on.
    + apply NoDup_filter. apply NoDup_filter. unfold scope_of. apply NoDup_scope_of; [constructor|].
      apply Forall_app. split; [exact HndF1|]. constructor; [exact IH|constructor].
    + intros x y Hx Hy He. unfold vinter in Hx, Hy. apply filter_In in Hx, Hy.
      destruct Hx as [_ Hx], Hy as [_ Hy]. apply memv_In in Hx, Hy. apply HI1 in Hx, Hy.
      destruct Hx as [n [Hn ->]], Hy as [m [Hm ->]]. rewrite !reslice0 in He.
      rewrite <- (Nat.mul_1_l N) in He at 1 3. rewrite !Nat.mod_add in He by exact HN.
      rewrite !Nat.mod_small in He by (apply HI0lt; assumption). lia.
Qed.

Lemma OstepE_spec t o : In o (OstepE t) <->
  (In o (scope_of F1) \/ In o (fvars (potE t))) /\ ~ In o (map fst (evf (S t))) /\ ~ In o I1.
Proof. unfold OstepE. rewrite !In_vminus, scope_app, scope_single. tauto. Qed.
Lemma OstepE_lt t o : In o (OstepE t) -> o < 2 * N.
Proof.
  intros H. apply OstepE_spec in H. destruct H as [[H|H] _]; [apply HF1lt; exact H|].
  apply potE_vars_I0, HI0lt in H. lia.
Qed.

Lemma coverE t : forall w, In w (scope_of (unroll N F0 F1 t)) ->
  In w (RsumE t) \/ In w (It t) \/ In w (map fst (Eglob t)).
Proof.
  induction t as [|t IH]; intros w Hw.
  - unfold unroll in Hw. cbn [seq flat_map] in Hw. rewrite app_nil_r in Hw. cbn [RsumE Eglob].
    destruct (in_dec Nat.eq_dec w (map fst ev0)) as [Hk|Hk]; [right; right; exact Hk|].
    destruct (in_dec Nat.eq_dec w I0) as [Hi|Hi].
    + right. left. unfold ProofsInduction.It. apply in_map_iff. exists w. split; [lia|exact Hi].
    + left. apply In_vminus. split; [apply In_vminus; split; assumption|exact Hi].
  - rewrite unroll_succ in Hw. apply scope_app in Hw. cbn [RsumE Eglob]. rewrite map_app. destruct Hw as [Hw|Hw].
    + destruct (IH w Hw) as [H|[H|H]].
      * left. apply in_or_app. right. exact H.
      * left. apply in_or_app. left. unfold ProofsInduction.It in H. apply in_map_iff in H. destruct H as [n [<- Hn]].
        apply in_map_iff. exists n. split; [reflexivity|]. apply OstepE_spec. split; [left; apply HI0F1; exact Hn|]. split.
        -- intros Hk. destruct (key_evf _ _ Hk) as [m [-> _]]. apply HI0lt in Hn. lia.
        -- apply I0_not_I1E. exact Hn.
      * right. right. apply in_or_app. right. exact H.
    + unfold scope_of in Hw. apply In_scope_of in Hw. destruct Hw as [[]|[f [Hf Hv]]].
      apply in_map_iff in Hf. destruct Hf as [f1 [<- Hf1]]. unfold fforward, mkF in Hv. cbn [fvars] in Hv.
      apply in_map_iff in Hv. destruct Hv as [v [<- Hv]].
      assert (Hs : In v (scope_of F1)) by (unfold scope_of; apply In_scope_of; right; exists f1; auto).
      destruct (in_dec Nat.eq_dec v (map fst (evf (S t)))) as [Hk|Hk].
      { right. right. apply in_or_app. left. apply key_shiftev. exists v. split; [exact Hk|reflexivity]. }
      destruct (in_dec Nat.eq_dec v I1) as [Hi|Hi].
      * right. left. apply HI1 in Hi. destruct Hi as [n [Hn ->]]. unfold ProofsInduction.It. apply in_map_iff. exists n. split; [lia|exact Hn].
      * left. apply in_or_app. left. apply in_map_iff. exists v. split; [reflexivity|].
        apply OstepE_spec. split; [left; exact Hs|]. split; assumption.
Qed.

Lemma RsumE_bound t : forall w, In w (RsumE t) -> w < (t + 1) * N /\ ~ In w (It t).
Proof.
  induction t as [|t IH]; intros w Hw; cbn [RsumE] in Hw.
  - apply In_vminus in Hw. destruct Hw as [Hs Hn]. apply In_vminus in Hs. destruct Hs as [Hs _].
    split; [apply HF0lt in Hs; lia|].
    unfold ProofsInduction.It. intros Hi. apply in_map_iff in Hi. destruct Hi as [n [<- Hi]]. apply Hn. replace (n + 0 * N) with n by lia. exact Hi.
  - apply in_app_or in Hw. destruct Hw as [Hw|Hw].
    + apply in_map_iff in Hw. destruct Hw as [o [<- Ho]]. pose proof (OstepE_lt t o Ho) as Hlt. split; [lia|].
      unfold ProofsInduction.It. intros Hi. apply in_map_iff in Hi. destruct Hi as [n [He Hn]].
      apply OstepE_spec in Ho. destruct Ho as [_ [_ Ho]]. apply Ho. apply HI1. exists n. split; [exact Hn|lia].
    + destruct (IH w Hw) as [Hlt _]. split; [lia|].
      unfold ProofsInduction.It. intros Hi. apply in_map_iff in Hi. destruct Hi as [n [<- Hn]]. lia.
Qed.

Lemma scope_unroll_lt t : forall w, In w (scope_of (unroll N F0 F1 t)) -> w < (t + 1) * N.
Proof.
  induction t as [|t IH]; intros w Hw.
  - unfold unroll in Hw. cbn [seq flat_map] in Hw. rewrite app_nil_r in Hw. apply HF0lt in Hw. lia.
  - rewrite unroll_succ in Hw. apply scope_app in Hw. destruct Hw as [Hw|Hw]; [apply IH in Hw; lia|].
    unfold scope_of in Hw. apply In_scope_of in Hw. destruct Hw as [[]|[f [Hf Hv]]].
    apply in_map_iff in Hf. destruct Hf as [f1 [<- Hf1]]. unfold fforward, mkF in Hv. cbn [fvars] in Hv.
    apply in_map_iff in Hv. destruct Hv as [v [<- Hv]].
    assert (Hs : In v (scope_of F1)) by (unfold scope_of; apply In_scope_of; right; exists f1; auto).
    apply HF1lt in Hs. lia.
Qed.

Lemma JE_depends t : depends_only (R := Qc_sum_csr) (JE t) (vminus (scope_of (unroll N F0 F1 t)) (map fst (Eglob t))).
Proof. unfold JE. apply (depends_upds Qc_sum_csr). apply eval_prod_depends_scope. Qed.
Lemma JE_ext t : ext (R := Qc_sum_csr) (JE t).
Proof. eapply depends_only_ext. apply JE_depends. Qed.

Lemma PhiE_depends t : depends_only (R := Qc_sum_csr) (PhiE t) (It t).
Proof.
  unfold PhiE. eapply depends_only_mono.
  - apply sum_over_depends_only; [apply JE_depends|symmetry; apply map_length].
  - intros w Hw. apply filter_In in Hw. destruct Hw as [Hs Hb]. apply In_vminus in Hs. destruct Hs as [Hs Hk].
    destruct (coverE t w Hs) as [H|[H|H]]; [|exact H|contradiction].
    apply negb_true_iff in Hb. apply memv_In in H. unfold memv in H. congruence.
Qed.

(* the transition part of step t+1 in the unrolled frame, evidence of slice t+1 applied *)
Definition TrE (t : nat) : asg -> Qc_sum_csr :=
  fun c => eval_prod F1 (upds (fun v => c (v + t * N)) (evf (S t))).

Lemma TrE_ext t : ext (R := Qc_sum_csr) (TrE t).
Proof.
  intros x y Hxy. unfold TrE. apply eval_prod_ext. apply upds_aeq. intros v. apply Hxy.
Qed.

Lemma TrE_ignores t : ignores_all (R := Qc_sum_csr) (TrE t) (RsumE t).
Proof.
  intros w Hw c i. unfold TrE. apply eval_prod_depends_scope. intros v Hv.
  apply (upds_agree (fun u => In u (scope_of F1))); [|exact Hv]. intros u Hu.
  apply upd_other. intros He. destruct (RsumE_bound t w Hw) as [Hlt Hni]. apply Hni.
  unfold ProofsInduction.It. apply in_map_iff. exists u. split; [exact He|]. apply HF1s0; [exact Hu|].
  assert ((t + 1) * N = t * N + N) by ring. lia.
Qed.

(* J_{t+1} at the evidence = J_t at the evidence x transition part *)
Lemma JE_succ t x : JE (S t) x = Qcmult (JE t x) (TrE t x).
Proof.
  unfold JE, TrE. cbn [Eglob]. rewrite unroll_markov. f_equal.
  - apply eval_prod_depends_scope. intros v Hv. rewrite upds_app. apply upds_other.
    intros Hk. apply key_shiftev in Hk. destruct Hk as [u [Hu ->]]. destruct (key_evf _ _ Hu) as [n [-> _]].
    apply scope_unroll_lt in Hv. lia.
  - rewrite (eval_prod_fforward N cards HN). apply eval_prod_depends_scope. intros v Hv.
    rewrite upds_app. rewrite upds_shiftev.
    apply (upds_agree (fun u => In u (scope_of F1))); [|exact Hv]. intros u Hu.
    apply upds_other. intros Hk. destruct (key_Eglob t _ Hk) as [n [s [He [Hn [Hs Hni]]]]].
    assert (u = n).
    { destruct (Nat.eq_dec s t) as [->|Hne]; [lia|].
      assert (H1 : (s + 1) * N <= t * N) by (apply Nat.mul_le_mono_r; lia).
      assert (H2 : (s + 1) * N = s * N + N) by ring. lia. }
    subst u.
    apply Hni. apply HF1s0; [exact Hu|exact Hn].
Qed.

(* THE MERGE: a sum over 1.5-slice variables of (transition x previous message) is the sum over the unrolled
   network's variables (those, moved to slices t / t+1, and everything summed before) of the joint at the evidence *)
Lemma merge t (O : list var) (a1 : asg) :
  sum_over (R := Qc_sum_csr) O (map card O) (fun b => Qcmult (eval_prod F1 (upds b (evf (S t)))) (PhiE t (up b))) a1 =
  sum_over (R := Qc_sum_csr) (map (fun v => v + t * N) O ++ RsumE t)
           (map card (map (fun v => v + t * N) O ++ RsumE t)) (JE (S t)) (lift t a1).
Proof.
  symmetry. rewrite map_app. rewrite sum_over_app by (rewrite !map_length; reflexivity).
  rewrite (sum_over_ext_fun Qc_sum_csr _ _ _ (fun c => Qcmult (PhiE t c) (TrE t c))).
  2:{ intros c. unfold PhiE.
      transitivity (sum_over (R := Qc_sum_csr) (RsumE t) (map card (RsumE t)) (fun d => Qcmult (JE t d) (TrE t d)) c).
      { apply sum_over_ext_fun. intros d. apply JE_succ. }
      exact (sum_over_mul_r Qc_sum_csr (RsumE t) (map card (RsumE t)) (TrE t) (JE t) c (TrE_ignores t) (fun _ => I)). }
  rewrite map_map. rewrite (map_ext (fun v => card (v + t * N)) card) by (intros v; apply (card_shift N cards HN)).
  rewrite sum_over_shift.
  2:{ intros x y Hxy. f_equal; [apply (depends_only_ext Qc_sum_csr _ _ (PhiE_depends t)); exact Hxy|apply TrE_ext; exact Hxy]. }
  transitivity (sum_over (R := Qc_sum_csr) O (map card O)
                  (fun b => Qcmult (PhiE t (push (t * N) b (lift t a1))) (TrE t (push (t * N) b (lift t a1)))) a1).
  { apply sum_over_aeq.
    - intros x y Hxy. f_equal.
      + apply (depends_only_ext Qc_sum_csr _ _ (PhiE_depends t)). intros w. unfold push. destruct (Nat.ltb w (t * N)); [reflexivity|apply Hxy].
      + apply TrE_ext. intros w. unfold push. destruct (Nat.ltb w (t * N)); [reflexivity|apply Hxy].
    - intros v. unfold lift. f_equal. lia. }
  apply sum_over_ext_fun. intros b. rewrite Qcmult_comm. f_equal.
  - unfold TrE. apply eval_prod_ext. apply upds_aeq. intros v. unfold push.
    assert (E : Nat.ltb (v + t * N) (t * N) = false) by (apply Nat.ltb_ge; lia). rewrite E. f_equal. lia.
  - apply (PhiE_depends t). intros w Hw. unfold ProofsInduction.It in Hw. apply in_map_iff in Hw. destruct Hw as [n [<- Hn]].
    unfold ProofsInduction.up, push. assert (E : Nat.ltb (n + t * N) (t * N) = false) by (apply Nat.ltb_ge; lia). rewrite E.
    rewrite Nat.mod_add by exact HN. rewrite Nat.mod_small by (apply HI0lt; exact Hn). f_equal. lia.
Qed.

(* the previous message read under the evidence of the next slice *)
Lemma potE_upds t b : feval (potE t) (upds b (evf (S t))) = feval (potE t) b.
Proof.
  apply feval_depends_only. intros v Hv. apply upds_other. intros Hk.
  destruct (key_evf _ _ Hk) as [n [-> _]]. apply potE_vars_I0, HI0lt in Hv. lia.
Qed.

(* (1) the interface message at slice t = marginal of the unrolled network at the evidence e_{0..t} *)
Theorem potE_marginal t : forall a, valid card a -> feval (potE t) a = PhiE t (up a).
Proof.
  induction t as [|t IH]; intros a Hv.
  - cbn [potE]. rewrite joint_marg_sem by assumption. fold ev0. unfold PhiE. cbn [RsumE].
    transitivity (sum_over (R := Qc_sum_csr) (vminus (vminus (scope_of F0) (map fst ev0)) I0)
                    (map card (vminus (vminus (scope_of F0) (map fst ev0)) I0)) (JE 0) a).
    { apply sum_over_ext_fun. intros b. unfold JE, unroll. cbn [seq flat_map Eglob]. rewrite app_nil_r. reflexivity. }
    apply sum_over_agree with (S := vminus (scope_of (unroll N F0 F1 0)) (map fst (Eglob 0))); [apply JE_depends|symmetry; apply map_length|].
    intros v Hin. apply In_vminus in Hin. destruct Hin as [Hin _]. apply scope_unroll_lt in Hin.
    symmetry. apply (up_small N). lia.
  - cbn [potE]. rewrite feval_fshift by exact HN.
    rewrite joint_marg_sem; [|apply Forall_app; split; [exact HndF1|constructor; [apply potE_nodup|constructor]]
                             |apply valid_reslice; assumption].
    fold (OstepE t).
    rewrite (sum_over_ext_valid Qc_sum_csr card (OstepE t) _
               (fun b => Qcmult (eval_prod F1 (upds b (evf (S t)))) (PhiE t (up b))) _ (valid_reslice N cards 0 a HN Hv)).
    2:{ intros b Hb. rewrite eval_prod_app. f_equal.
        unfold RefFactor.eval_prod. cbn [map prod_list fold_right]. rewrite (mul_1_r Qc_sum_csr).
        rewrite potE_upds. apply IH. exact Hb. }
    rewrite merge. fold (RsumE (S t)). fold (PhiE (S t)).
    apply (PhiE_depends (S t)). intros w Hw. unfold ProofsInduction.It in Hw. apply in_map_iff in Hw. destruct Hw as [n [<- Hn]].
    unfold lift, ProofsInduction.up. rewrite reslice0. rewrite Nat.mod_add by exact HN.
    replace (n + S t * N - t * N) with (n + 1 * N) by lia. rewrite Nat.mod_add by exact HN. reflexivity.
Qed.

(* ================= the run of forward_inference for one query variable of the last slice ================= *)
Lemma restrict_nil (e : list (var * nat)) (S : list var) :
  (forall k, In k (map fst e) -> ~ In k S) -> restrict e S = [].
Proof.
  intros H. unfold restrict. induction e as [|p e IH]; [reflexivity|]. cbn [filter].
  assert (Hm : memv (fst p) S = false) by (apply memv_false; apply H; left; reflexivity).
  rewrite Hm. apply IH. intros k Hk. apply H. right. exact Hk.
Qed.
Lemma restrict_ev0 : restrict ev0 I0 = [].
Proof. apply restrict_nil. intros k Hk. apply key_ev0 in Hk. apply Hk. Qed.
Lemma restrict_evf t : restrict (evf t ++ []) I1 = [].
Proof.
  rewrite app_nil_r. apply restrict_nil. intros k Hk Hi. destruct (key_evf _ _ Hk) as [n [-> [_ Hn]]].
  apply HI1 in Hi. destruct Hi as [m [Hm He]]. assert (n = m) by lia. subst. contradiction.
Qed.

Lemma in_clique_shift (fs : list F) e : in_clique_ok I0 (fshift N 0 (joint_marg N cards fs e I1)) = true.
Proof.
  unfold in_clique_ok. apply forallb_forall. intros v Hv. apply memv_In.
  unfold fshift, mkF, joint_marg in Hv. cbn [fvars fbuild] in Hv. apply in_map_iff in Hv.
  destruct Hv as [w [<- Hw]]. unfold vinter in Hw. apply filter_In in Hw. destruct Hw as [_ Hw].
  apply memv_In in Hw. apply HI1 in Hw. destruct Hw as [n [Hn ->]].
  rewrite reslice0. rewrite <- (Nat.mul_1_l N) at 1. rewrite Nat.mod_add by exact HN.
  rewrite Nat.mod_small by (apply HI0lt; exact Hn). exact Hn.
Qed.

Variable qn : nat.          (* the query variable's name *)
Variable tq : nat.          (* it lives in slice T = S tq *)
Notation q := (qn, S tq).
Notation q1 := (enc N (qn, 1)).
Notation qv := (enc N q).

Lemma has_query_other s : s <> S tq -> has_query [q] s = false.
Proof. intros H. unfold has_query. cbn [existsb snd]. rewrite orb_false_r. apply Nat.eqb_neq. intros E. apply H. symmetry. exact E. Qed.

Lemma fwd_fold k : k <= tq -> exists pots,
  fold_left (fwd_step N cards F1 I0 I1 [q] ev) (seq 1 k) (fwd_init N cards F0 I0 [q] ev) = Ok (potE k, [], pots, []).
Proof.
  induction k as [|k IH]; intros Hk.
  - cbn [seq fold_left]. unfold fwd_init. fold ev0. rewrite query_slice_none by (apply has_query_other; lia).
    cbn [rbind]. rewrite restrict_ev0. eexists. reflexivity.
  - destruct (IH ltac:(lia)) as [pots Hp]. rewrite seq_S, fold_left_app, Hp. cbn [fold_left Nat.add].
    unfold fwd_step. cbn [rbind]. fold (evf (S k)).
    rewrite query_slice_none by (apply has_query_other; lia). cbn [rbind].
    rewrite has_query_other by lia. rewrite in_clique_shift. rewrite restrict_evf. cbn [map app].
    rewrite app_nil_r. eexists. reflexivity.
Qed.

Hypothesis Hev_T : forall e, In e ev -> snd (fst e) <= S tq.

Lemma time_range_q : time_range [q] ev = S tq.
Proof.
  unfold time_range. cbn [map app fold_right snd].
  apply Nat.max_l. exact (max_slices_le ev (S tq) Hev_T).
Qed.

(* the run: every step before the last one only propagates the message; the last one asks the engine *)
Lemma forward_run :
  forward_inference N cards F0 F1 I0 I1 [q] ev =
  match bp_query N cards (F1 ++ [potE tq]) q1 (evf (S tq)) with
  | Some v => Ok [(q, v)]
  | None => Err 5
  end.
Proof.
  unfold forward_inference, forward_state. rewrite time_range_q. rewrite seq_S, fold_left_app.
  destruct (fwd_fold tq (le_n _)) as [pots Hp]. rewrite Hp. cbn [fold_left Nat.add].
  unfold fwd_step. cbn [rbind]. fold (evf (S tq)). rewrite app_nil_r.
  unfold query_slice. cbn [fold_right snd fst]. rewrite Nat.eqb_refl. cbn [rbind].
  destruct (bp_query N cards (F1 ++ [potE tq]) q1 (evf (S tq))) as [v|]; cbn [rbind]; [|reflexivity].
  assert (Hq : has_query [q] (S tq) = true) by (unfold has_query; cbn [existsb snd]; rewrite Nat.eqb_refl; reflexivity).
  rewrite Hq. rewrite in_clique_shift. cbn [rbind app]. reflexivity.
Qed.

(* ================= the answer's weights are the unrolled network's joint weights ================= *)
Hypothesis Hcardpos : forall v, 0 < card v.
Hypothesis Hqn : qn < N.
Hypothesis Hq1scope : In q1 (scope_of F1).                      (* the query variable has a slice-1 CPD *)
Hypothesis Hq_noev : ~ In q (map fst ev).                       (* it is not observed *)

Definition zero_asg : asg := fun _ => 0.
Lemma zero_valid : valid card zero_asg. Proof. intros v. apply Hcardpos. Qed.

Lemma q1_nokey : ~ In q1 (map fst (evf (S tq))).
Proof.
  unfold evf, get_ev. rewrite map_map. intros H. apply in_map_iff in H. destruct H as [e [He Hin]].
  apply filter_In in Hin. destruct Hin as [Hin Hs]. apply Nat.eqb_eq in Hs. unfold enc in He. cbn [fst snd] in He.
  destruct (Hev e Hin) as [Hn _].
  assert (fst (fst e) = qn) by lia. apply Hq_noev. apply in_map_iff. exists e. split; [|exact Hin].
  destruct e as [[n s] st]. cbn in *. subst. reflexivity.
Qed.

Definition Oq : list var := vminus (vminus (scope_of (F1 ++ [potE tq])) (map fst (evf (S tq)))) [q1].
Definition Lq : list var := map (fun v => v + tq * N) Oq ++ RsumE tq.
(* joint weight of  query = x  and the evidence, summed in the order of the interface algorithm *)
Definition WE (x : nat) : Qc_sum_csr :=
  sum_over (R := Qc_sum_csr) Lq (map card Lq) (JE (S tq)) (lift tq (upd zero_asg q1 x)).

Lemma answer_weights :
  fvals (joint_marg N cards (F1 ++ [potE tq]) (evf (S tq)) [q1]) = map WE (seq 0 (card q1)).
Proof.
  assert (Hnd : Forall (fun f : F => NoDup (fvars f)) (F1 ++ [potE tq]))
    by (apply Forall_app; split; [exact HndF1|constructor; [apply potE_nodup|constructor]]).
  assert (Hsc : NoDup (vminus (scope_of (F1 ++ [potE tq])) (map fst (evf (S tq)))))
    by (apply NoDup_filter; unfold scope_of; apply NoDup_scope_of; [constructor|exact Hnd]).
  assert (Hin : In q1 (vminus (scope_of (F1 ++ [potE tq])) (map fst (evf (S tq))))).
  { apply In_vminus. split; [apply scope_app; left; exact Hq1scope|exact q1_nokey]. }
  unfold joint_marg. rewrite (vinter_single _ _ Hsc Hin). unfold fbuild. cbn [fvals map].
  rewrite t_build_single. apply map_ext_in. intros x Hx. apply in_seq in Hx. cbn [asg_of].
  fold Oq. fold zero_asg.
  assert (Hval : valid card (upd zero_asg q1 x)) by (apply valid_upd; [apply zero_valid|lia]).
  rewrite (sum_over_ext_valid Qc_sum_csr card Oq _
             (fun b => Qcmult (eval_prod F1 (upds b (evf (S tq)))) (PhiE tq (up b))) _ Hval).
  2:{ intros b Hb. rewrite eval_prod_app. f_equal.
      unfold RefFactor.eval_prod. cbn [map prod_list fold_right]. rewrite (mul_1_r Qc_sum_csr).
      rewrite potE_upds. apply potE_marginal. exact Hb. }
  rewrite merge. reflexivity.
Qed.

(* ================= the same weights, in the specification's order ================= *)
Hypothesis Hfull0 : forall n, n < N -> In n (scope_of F0).               (* every variable has a slice-0 CPD *)
Hypothesis Hfull1 : forall n, n < N -> In (n + N) (scope_of F1).         (* ... and a slice-1 CPD *)
Hypothesis Hev_nodup : NoDup (map fst ev).                                (* evidence is a dict *)

Lemma get_ev_In t sh k i : In (k, i) (get_ev N ev t sh) <->
  exists e, In e ev /\ snd (fst e) = t /\ k = sh * N + fst (fst e) /\ i = snd e.
Proof.
  unfold get_ev. rewrite in_map_iff. split.
  - intros [e [He Hin]]. apply filter_In in Hin. destruct Hin as [Hin Hs]. apply Nat.eqb_eq in Hs.
    inversion He; subst. exists e. unfold enc. cbn [fst snd]. auto.
  - intros [e [Hin [Hs [-> ->]]]]. exists e. split; [unfold enc; cbn [fst snd]; reflexivity|].
    apply filter_In. split; [exact Hin|apply Nat.eqb_eq; exact Hs].
Qed.
Lemma shiftev_In s E k i : In (k, i) (shiftev s E) <-> exists k0, In (k0, i) E /\ k = k0 + s * N.
Proof.
  unfold shiftev. rewrite in_map_iff. split.
  - intros [[k0 i0] [He Hin]]. cbn [fst snd] in He. inversion He; subst. exists k0. auto.
  - intros [k0 [Hin ->]]. exists (k0, i). auto.
Qed.
Lemma Eglob_In t : forall k i, In (k, i) (Eglob t) <->
  exists e, In e ev /\ snd (fst e) <= t /\ k = enc N (fst e) /\ i = snd e.
Proof.
  induction t as [|t IH]; intros k i; cbn [Eglob].
  - unfold ev0. rewrite get_ev_In. split.
    + intros [e [H1 [H2 [-> ->]]]]. exists e. unfold enc. rewrite H2. repeat split; auto; lia.
    + intros [e [H1 [H2 [-> ->]]]]. exists e. assert (snd (fst e) = 0) by lia. unfold enc. rewrite H. auto.
  - rewrite in_app_iff, shiftev_In, IH. unfold evf. split.
    + intros [[k0 [Hk0 ->]]|[e [H1 [H2 [-> ->]]]]].
      * apply get_ev_In in Hk0. destruct Hk0 as [e [H1 [H2 [-> ->]]]]. exists e. unfold enc. rewrite H2.
        split; [exact H1|]. split; [lia|]. split; [cbn [Nat.mul]; lia|reflexivity].
      * exists e. repeat split; auto.
    + intros [e [H1 [H2 [-> ->]]]]. destruct (Nat.eq_dec (snd (fst e)) (S t)) as [E|E].
      * left. exists (1 * N + fst (fst e)). split; [apply get_ev_In; exists e; auto|]. unfold enc. rewrite E. cbn [Nat.mul]. lia.
      * right. exists e. repeat split; auto. lia.
Qed.

Notation E' := (enc_ev N ev).
Lemma Eglob_spec k i : In (k, i) (Eglob (S tq)) <-> In (k, i) E'.
Proof.
  rewrite Eglob_In. unfold enc_ev. rewrite in_map_iff. split.
  - intros [e [H1 [_ [-> ->]]]]. exists e. auto.
  - intros [e [He Hin]]. inversion He; subst. exists e. repeat split; auto.
Qed.
Lemma Eglob_keys k : In k (map fst (Eglob (S tq))) <-> In k (map fst E').
Proof.
  split; intros H; apply in_map_iff in H; destruct H as [[k0 i] [<- Hin]]; apply in_map_iff; exists (k0, i); split; auto; apply Eglob_spec; exact Hin.
Qed.

Lemma enc_inj (x y : node) : fst x < N -> fst y < N -> enc N x = enc N y -> x = y.
Proof.
  destruct x as [n s], y as [m r]. unfold enc. cbn [fst snd]. intros Hn Hm E.
  assert (s = r).
  { destruct (Nat.lt_trichotomy s r) as [H|[H|H]]; [|exact H|].
    - assert ((s + 1) * N <= r * N) by (apply Nat.mul_le_mono_r; lia). assert ((s + 1) * N = s * N + N) by ring. lia.
    - assert ((r + 1) * N <= s * N) by (apply Nat.mul_le_mono_r; lia). assert ((r + 1) * N = r * N + N) by ring. lia. }
  subst. f_equal. lia.
Qed.
Lemma E'_functional k i j : In (k, i) E' -> In (k, j) E' -> i = j.
Proof.
  unfold enc_ev. rewrite !in_map_iff. intros [e [He Hin]] [e' [He' Hin']]. inversion He; inversion He'; subst.
  assert (fst e = fst e') by (apply enc_inj; [apply Hev; exact Hin|apply Hev; exact Hin'|congruence]).
  destruct e as [x i0], e' as [y j0]. cbn [fst snd] in *. subst. eapply NoDup_fst_functional; eassumption.
Qed.

(* variables that the algorithm sums are never observed *)
Lemma shifted_nokey t o T' : (In o (scope_of F1) \/ In o (fvars (potE t))) -> ~ In o (map fst (evf (S t))) ->
  ~ In (o + t * N) (map fst (Eglob T')).
Proof.
  intros Ho Hnk Hk. apply in_map_iff in Hk. destruct Hk as [[k i] [Hk Hin]]. cbn [fst] in Hk. subst k.
  apply Eglob_In in Hin. destruct Hin as [e [He [_ [Hk _]]]]. destruct (Hev e He) as [Hn Hni]. unfold enc in Hk.
  destruct (Nat.lt_ge_cases o N) as [Hlt|Hge].
  - assert (Ho0 : In o I0) by (destruct Ho as [Ho|Ho]; [apply HF1s0; assumption|apply potE_vars_I0 in Ho; exact Ho]).
    assert (snd (fst e) = t).
    { destruct (Nat.lt_trichotomy (snd (fst e)) t) as [H|[H|H]]; [|exact H|].
      - assert ((snd (fst e) + 1) * N <= t * N) by (apply Nat.mul_le_mono_r; lia). assert ((snd (fst e) + 1) * N = snd (fst e) * N + N) by ring. lia.
      - assert ((t + 1) * N <= snd (fst e) * N) by (apply Nat.mul_le_mono_r; lia). assert ((t + 1) * N = t * N + N) by ring. lia. }
    assert (o = fst (fst e)) by (rewrite H in Hk; lia). subst o. contradiction.
  - assert (Hlt2 : o < 2 * N) by (destruct Ho as [Ho|Ho]; [apply HF1lt; exact Ho|apply potE_vars_I0, HI0lt in Ho; lia]).
    assert (snd (fst e) = S t).
    { destruct (Nat.lt_trichotomy (snd (fst e)) (S t)) as [H|[H|H]]; [|exact H|].
      - assert ((snd (fst e) + 1) * N <= S t * N) by (apply Nat.mul_le_mono_r; lia). assert ((snd (fst e) + 1) * N = snd (fst e) * N + N) by ring.
        assert (S t * N = t * N + N) by ring. lia.
      - assert ((S t + 1) * N <= snd (fst e) * N) by (apply Nat.mul_le_mono_r; lia). assert ((S t + 1) * N = t * N + N + N) by ring. lia. }
    apply Hnk. apply in_map_iff. exists (o, snd e). split; [reflexivity|]. unfold evf. apply get_ev_In. exists e.
    repeat split; auto. rewrite H in Hk. assert (S t * N = t * N + N) by ring. lia.
Qed.

Lemma RsumE_nokey t T' : forall w, In w (RsumE t) -> ~ In w (map fst (Eglob T')).
Proof.
  induction t as [|t IH]; intros w Hw; cbn [RsumE] in Hw.
  - apply In_vminus in Hw. destruct Hw as [Hw _]. apply In_vminus in Hw. destruct Hw as [Hs Hnk].
    intros Hk. apply in_map_iff in Hk. destruct Hk as [[k i] [Hk Hin]]. cbn [fst] in Hk. subst k.
    apply Eglob_In in Hin. destruct Hin as [e [He [_ [Hk ->]]]]. destruct (Hev e He) as [Hn _]. unfold enc in Hk.
    apply HF0lt in Hs.
    assert (snd (fst e) = 0).
    { destruct (snd (fst e)) as [|r]; [reflexivity|]. assert (S r * N = r * N + N) by ring. lia. }
    apply Hnk. apply in_map_iff. exists (w, snd e). split; [reflexivity|]. unfold ev0. apply get_ev_In. exists e.
    repeat split; auto. rewrite H in Hk. lia.
  - apply in_app_or in Hw. destruct Hw as [Hw|Hw]; [|apply IH; exact Hw].
    apply in_map_iff in Hw. destruct Hw as [o [<- Ho]]. apply OstepE_spec in Ho. destruct Ho as [Ho [Hnk _]].
    apply shifted_nokey; assumption.
Qed.

Lemma Oq_spec o : In o Oq <-> (In o (scope_of F1) \/ In o (fvars (potE tq))) /\ ~ In o (map fst (evf (S tq))) /\ o <> q1.
Proof.
  unfold Oq. rewrite !In_vminus, scope_app, scope_single. cbn [In]. split.
  - intros [[H1 H2] H3]. split; [exact H1|]. split; [exact H2|]. intros E. apply H3. left. symmetry. exact E.
  - intros [H1 [H2 H3]]. split; [split; assumption|]. intros [E|[]]. apply H3. symmetry. exact E.
Qed.

Lemma qv_q1 : qv = q1 + tq * N.
Proof. unfold enc. cbn [fst snd Nat.mul]. lia. Qed.

Lemma Lq_nokey w : In w Lq -> ~ In w (map fst (Eglob (S tq))).
Proof.
  unfold Lq. intros Hw. apply in_app_or in Hw. destruct Hw as [Hw|Hw]; [|apply (RsumE_nokey tq); exact Hw].
  apply in_map_iff in Hw. destruct Hw as [o [<- Ho]]. apply Oq_spec in Ho. destruct Ho as [Ho [Hnk _]].
  apply shifted_nokey; assumption.
Qed.

Lemma scope_unroll_full t : forall w, w < (t + 1) * N -> In w (scope_of (unroll N F0 F1 t)).
Proof.
  induction t as [|t IH]; intros w Hw.
  - unfold unroll. cbn [seq flat_map]. rewrite app_nil_r. apply Hfull0. lia.
  - rewrite unroll_succ. apply scope_app. destruct (Nat.lt_ge_cases w ((t + 1) * N)) as [H|H]; [left; apply IH; exact H|].
    right. assert (Hd : (t + 1) * N = t * N + N) by (cbn [Nat.mul]; lia). assert (Hd2 : (S t + 1) * N = t * N + N + N) by (cbn [Nat.mul]; lia).
    pose (n := w - (t + 1) * N). assert (Hn : n < N) by (unfold n; lia).
    destruct (proj1 (In_scope_of F1 [] (n + N)) (Hfull1 n Hn)) as [[]|[f [Hf Hv]]].
    unfold scope_of. apply In_scope_of. right. exists (fforward N t f). split; [apply in_map; exact Hf|].
    unfold fforward, mkF. cbn [fvars]. apply in_map_iff. exists (n + N). split; [unfold n; lia|exact Hv].
Qed.

Lemma coverQ w : In w (scope_of (unroll N F0 F1 (S tq))) -> In w Lq \/ w = qv \/ In w (map fst (Eglob (S tq))).
Proof.
  intros Hw. rewrite unroll_succ in Hw. apply scope_app in Hw. unfold Lq. cbn [Eglob]. rewrite map_app. destruct Hw as [Hw|Hw].
  - destruct (coverE tq w Hw) as [H|[H|H]].
    + left. apply in_or_app. right. exact H.
    + left. apply in_or_app. left. unfold ProofsInduction.It in H. apply in_map_iff in H. destruct H as [n [<- Hn]].
      apply in_map_iff. exists n. split; [reflexivity|]. apply Oq_spec. split; [left; apply HI0F1; exact Hn|]. split.
      * intros Hk. destruct (key_evf _ _ Hk) as [m [-> _]]. apply HI0lt in Hn. lia.
      * apply HI0lt in Hn. unfold enc. cbn [fst snd]. lia.
    + right. right. apply in_or_app. right. exact H.
  - unfold scope_of in Hw. apply In_scope_of in Hw. destruct Hw as [[]|[f [Hf Hv]]].
    apply in_map_iff in Hf. destruct Hf as [f1 [<- Hf1]]. unfold fforward, mkF in Hv. cbn [fvars] in Hv.
    apply in_map_iff in Hv. destruct Hv as [v [<- Hv]].
    assert (Hs : In v (scope_of F1)) by (unfold scope_of; apply In_scope_of; right; exists f1; auto).
    destruct (in_dec Nat.eq_dec v (map fst (evf (S tq)))) as [Hk|Hk].
    { right. right. apply in_or_app. left. apply key_shiftev. exists v. split; [exact Hk|reflexivity]. }
    destruct (Nat.eq_dec v q1) as [->|Hne]; [right; left; symmetry; apply qv_q1|].
    left. apply in_or_app. left. apply in_map_iff. exists v. split; [reflexivity|]. apply Oq_spec. auto.
Qed.

Lemma NoDup_RsumE t : NoDup (RsumE t).
Proof.
  induction t as [|t IH]; cbn [RsumE].
  - apply NoDup_filter, NoDup_filter. unfold scope_of. apply NoDup_scope_of; [constructor|exact HndF0].
  - apply NoDup_app_disj; [| exact IH |].
    + apply NoDup_map_add. unfold OstepE. apply NoDup_filter, NoDup_filter. unfold scope_of. apply NoDup_scope_of; [constructor|].
      apply Forall_app. split; [exact HndF1|constructor; [apply potE_nodup|constructor]].
    + intros w Hw Hr. apply in_map_iff in Hw. destruct Hw as [o [<- Ho]]. destruct (RsumE_bound t _ Hr) as [Hlt Hni].
      apply OstepE_spec in Ho. destruct Ho as [Ho _].
      assert (Hd : (t + 1) * N = t * N + N) by (cbn [Nat.mul]; lia).
      assert (Ho0 : In o I0).
      { destruct Ho as [Ho|Ho]; [apply HF1s0; [exact Ho|lia]|apply potE_vars_I0 in Ho; exact Ho]. }
      apply Hni. unfold ProofsInduction.It. apply in_map_iff. exists o. split; [reflexivity|exact Ho0].
Qed.

Lemma NoDup_Lq : NoDup Lq.
Proof.
  unfold Lq. apply NoDup_app_disj; [| apply NoDup_RsumE |].
  - apply NoDup_map_add. unfold Oq. apply NoDup_filter, NoDup_filter. unfold scope_of. apply NoDup_scope_of; [constructor|].
    apply Forall_app. split; [exact HndF1|constructor; [apply potE_nodup|constructor]].
  - intros w Hw Hr. apply in_map_iff in Hw. destruct Hw as [o [<- Ho]]. destruct (RsumE_bound tq _ Hr) as [Hlt Hni].
    apply Oq_spec in Ho. destruct Ho as [Ho _].
    assert (Hd : (tq + 1) * N = tq * N + N) by (cbn [Nat.mul]; lia).
    assert (Ho0 : In o I0).
    { destruct Ho as [Ho|Ho]; [apply HF1s0; [exact Ho|lia]|apply potE_vars_I0 in Ho; exact Ho]. }
    apply Hni. unfold ProofsInduction.It. apply in_map_iff. exists o. split; [reflexivity|exact Ho0].
Qed.

Definition others : list var :=
  filter (fun v => negb (Nat.eqb v qv) && negb (memv v (map fst E'))) (all_vars N (S tq)).

Lemma Lq_others w : In w Lq <-> In w others.
Proof.
  unfold others, all_vars. rewrite filter_In, in_seq, andb_true_iff, !negb_true_iff, Nat.eqb_neq, memv_false.
  assert (Hd : (S tq + 1) * N = tq * N + N + N) by (cbn [Nat.mul]; lia).
  split.
  - intros Hw. split; [|split].
    + split; [lia|]. unfold Lq in Hw. apply in_app_or in Hw. destruct Hw as [Hw|Hw].
      * apply in_map_iff in Hw. destruct Hw as [o [<- Ho]]. apply Oq_spec in Ho. destruct Ho as [[Ho|Ho] _].
        -- apply HF1lt in Ho. lia.
        -- apply potE_vars_I0, HI0lt in Ho. lia.
      * destruct (RsumE_bound tq _ Hw) as [Hlt _]. assert ((tq + 1) * N = tq * N + N) by (cbn [Nat.mul]; lia). lia.
    + unfold Lq in Hw. apply in_app_or in Hw. destruct Hw as [Hw|Hw].
      * apply in_map_iff in Hw. destruct Hw as [o [<- Ho]]. apply Oq_spec in Ho. destruct Ho as [_ [_ Hne]]. rewrite qv_q1. lia.
      * destruct (RsumE_bound tq _ Hw) as [Hlt _]. assert ((tq + 1) * N = tq * N + N) by (cbn [Nat.mul]; lia).
        rewrite qv_q1. unfold enc. cbn [fst snd]. lia.
    + intros Hk. apply (Lq_nokey w Hw). apply Eglob_keys. exact Hk.
  - intros [[_ Hlt] [Hne Hnk]]. cbn [Nat.add] in Hlt.
    destruct (coverQ w (scope_unroll_full (S tq) w Hlt)) as [H|[H|H]]; [exact H|contradiction|].
    exfalso. apply Hnk. apply Eglob_keys. exact H.
Qed.

(* (2a) the algorithm's weight = the specification's weight *)
Lemma WE_spec x : WE x = spec_weight N cards (unroll N F0 F1 (S tq)) (S tq) qv E' x.
Proof.
  unfold WE, spec_weight. fold others.
  assert (HLk : forall v, In v Lq -> ~ In v (map fst (Eglob (S tq)))) by exact Lq_nokey.
  (* evidence override -> start assignment *)
  transitivity (sum_over (R := Qc_sum_csr) Lq (map card Lq) (eval_prod (unroll N F0 F1 (S tq)))
                  (upds (lift tq (upd zero_asg q1 x)) (Eglob (S tq)))).
  { unfold JE. apply (sum_over_upds Qc_sum_csr); [apply eval_prod_ext|exact HLk]. }
  (* same start assignment on everything that is not summed *)
  transitivity (sum_over (R := Qc_sum_csr) Lq (map card Lq) (eval_prod (unroll N F0 F1 (S tq))) (upd (base_asg E') qv x)).
  { apply (sum_over_depends_only Qc_sum_csr Lq (map card Lq) _ _ (eval_prod_depends_scope N cards _) (eq_sym (map_length _ _))).
    intros v Hv. apply filter_In in Hv. destruct Hv as [Hs Hb]. apply negb_true_iff in Hb.
    destruct (coverQ v Hs) as [H|[H|H]].
    - apply memv_In in H. unfold memv in H. congruence.
    - subst v. rewrite upds_other, upd_same.
      + unfold lift. rewrite qv_q1. replace (q1 + tq * N - tq * N) with q1 by lia. apply upd_same.
      + intros Hk. apply Eglob_keys in Hk. apply in_map_iff in Hk. destruct Hk as [[k i] [Hk Hin]]. cbn [fst] in Hk. subst k.
        unfold enc_ev in Hin. apply in_map_iff in Hin. destruct Hin as [e [He Hin]]. inversion He.
        apply Hq_noev. apply in_map_iff. exists e. split; [|exact Hin].
        symmetry. apply enc_inj; [exact Hqn|apply Hev; exact Hin|]. symmetry. assumption.
    - assert (Hk := H). apply in_map_iff in H. destruct H as [[k i] [Hk' Hin]]. cbn [fst] in Hk'. subst k.
      assert (Hne : v <> qv).
      { intros ->. apply Eglob_keys in Hk. apply in_map_iff in Hk. destruct Hk as [[k j] [Hk' Hin']]. cbn [fst] in Hk'. subst k.
        unfold enc_ev in Hin'. apply in_map_iff in Hin'. destruct Hin' as [e [He Hin']]. inversion He.
        apply Hq_noev. apply in_map_iff. exists e. split; [|exact Hin'].
        symmetry. apply enc_inj; [exact Hqn|apply Hev; exact Hin'|]. symmetry. assumption. }
      rewrite (upds_functional _ (Eglob (S tq)) v i); [|intros j Hj; apply Eglob_spec in Hj; apply Eglob_spec in Hin; eapply E'_functional; eassumption|exact Hk].
      rewrite upd_other by exact Hne. unfold base_asg. symmetry.
      apply upds_functional; [intros j Hj; apply Eglob_spec in Hin; eapply E'_functional; eassumption|apply Eglob_keys; exact Hk]. }
  (* the specification's order of summation *)
  apply (sum_over_perm Qc_sum_csr card Lq others); [|exact NoDup_Lq|apply eval_prod_ext].
  apply NoDup_Permutation; [exact NoDup_Lq|apply NoDup_filter, seq_NoDup|exact Lq_others].
Qed.

(* (2) forward_inference for a query variable of the last slice, evidence on non-interface variables in any slices:
   the answer is the posterior of the unrolled network; both are undefined (error 5 / None) exactly when P(e) = 0 *)
Theorem forward_is_posterior :
  forward_inference N cards F0 F1 I0 I1 [q] ev =
  match spec_filter N cards F0 F1 (S tq) q ev with
  | Some v => Ok [(q, v)]
  | None => Err 5
  end.
Proof.
  rewrite forward_run. unfold bp_query. rewrite answer_weights.
  unfold spec_filter, spec_smooth, spec_marginal. cbn [snd].
  rewrite (filter_all _ ev) by (intros e He; apply Nat.leb_le; apply Hev_T; exact He).
  assert (Hc : card q1 = card qv) by (rewrite qv_q1; symmetry; apply (card_shift N cards HN)).
  rewrite Hc. rewrite (map_ext WE (spec_weight N cards (unroll N F0 F1 (S tq)) (S tq) qv E') WE_spec).
  reflexivity.
Qed.
End Evid.
