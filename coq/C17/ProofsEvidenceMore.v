(* C17: forward filtering with evidence in ANY slices: evidence of slices after the query's slice does not
   change the filtered answer (the run only continues to propagate potentials), so forward_inference returns the
   posterior of the network unrolled to the query's slice given the evidence up to that slice (Spec.spec_filter). *)
From Coq Require Import List Arith Bool PeanoNat Lia QArith Qcanon.
From PV Require Import Base.Semiring Base.Ravel Base.FinSum Base.RefFactor C17.Model C17.Spec C17.Proofs C17.ProofsInduction C17.ProofsEvidenceAll.
Import ListNotations.
Local Open Scope nat_scope.

Lemma filter_filter_eq {A} (f g : A -> bool) (l : list A) :
  (forall x, In x l -> f x = true -> g x = true) -> filter f (filter g l) = filter f l.
Proof.
  induction l as [|x l IH]; intros H; [reflexivity|]. cbn [filter].
  assert (IH' := IH (fun y Hy => H y (or_intror Hy))).
  destruct (g x) eqn:G; cbn [filter].
  - destruct (f x); [f_equal|]; exact IH'.
  - destruct (f x) eqn:Fx; [rewrite (H x (or_introl eq_refl) Fx) in G; discriminate|exact IH'].
Qed.

Lemma NoDup_map_filter {A B} (h : A -> B) (f : A -> bool) l : NoDup (map h l) -> NoDup (map h (filter f l)).
Proof.
  induction l as [|x l IH]; intros H; [constructor|]. cbn [map] in H. inversion H as [|? ? Hx Hn]; subst.
  cbn [filter]. destruct (f x); [|apply IH; exact Hn]. cbn [map]. constructor; [|apply IH; exact Hn].
  intros Hi. apply Hx. apply in_map_iff in Hi. destruct Hi as [y [Hy Hin]]. apply filter_In in Hin.
  apply in_map_iff. exists y. split; [exact Hy|apply Hin].
Qed.

Lemma fold_fwd_err N cards F1 I0 I1 qs ev l c :
  fold_left (fwd_step N cards F1 I0 I1 qs ev) l (Err c) = Err c.
Proof. induction l as [|s l IH]; [reflexivity|]. cbn [fold_left]. unfold fwd_step at 2. cbn [rbind]. exact IH. Qed.

Section More.
Variable N : nat.
Variable cards : list nat.
Hypothesis HN : N <> 0.
Notation F := (factor Qc_sum_csr).
Variables (F0 F1 : list F) (I0 I1 : list var).
Variable ev : evidence.
Hypothesis HI0lt : forall v, In v I0 -> v < N.
Hypothesis HI1 : forall v, In v I1 <-> exists n, In n I0 /\ v = n + N.
Hypothesis Hev : forall e, In e ev -> fst (fst e) < N /\ ~ In (fst (fst e)) I0.
Variables qn tq : nat.
Notation q := (qn, S tq).

Definition upto : evidence := filter (fun e => Nat.leb (snd (fst e)) (S tq)) ev.

Lemma get_ev_upto s sh : s <= S tq -> get_ev N upto s sh = get_ev N ev s sh.
Proof.
  intros Hs. unfold get_ev, upto. f_equal. apply filter_filter_eq.
  intros e _ He. apply Nat.eqb_eq in He. apply Nat.leb_le. lia.
Qed.

Lemma potE_upto t : t <= S tq -> potE N cards F0 F1 I0 I1 upto t = potE N cards F0 F1 I0 I1 ev t.
Proof.
  induction t as [|t IH]; intros Ht; cbn [potE].
  - unfold ev0. rewrite get_ev_upto by lia. reflexivity.
  - unfold evf. rewrite get_ev_upto by lia. rewrite IH by lia. reflexivity.
Qed.

(* steps after the query's slice only move potentials on *)
Lemma trailing l : (forall s, In s l -> s <> S tq) -> forall pot pots ans,
  exists pot' pots', fold_left (fwd_step N cards F1 I0 I1 [q] ev) l (Ok (pot, [], pots, ans)) = Ok (pot', [], pots', ans).
Proof.
  induction l as [|s l IH]; intros Hl pot pots ans; [do 2 eexists; reflexivity|].
  cbn [fold_left]. unfold fwd_step at 2. cbn [rbind].
  rewrite query_slice_none by (apply has_query_other; apply Hl; left; reflexivity). cbn [rbind].
  rewrite has_query_other by (apply Hl; left; reflexivity).
  rewrite (in_clique_shift N cards HN I0 I1 HI0lt HI1).
  fold (evf N ev s). rewrite (restrict_evf N HN I0 I1 ev HI1 Hev s). cbn [map]. rewrite !app_nil_r.
  apply IH. intros s' Hs'. apply Hl. right. exact Hs'.
Qed.

Lemma time_range_ge : S tq <= time_range [q] ev.
Proof. unfold time_range. cbn [map app fold_right snd]. apply Nat.le_max_l. Qed.

Lemma forward_run_any :
  forward_inference N cards F0 F1 I0 I1 [q] ev =
  match bp_query N cards (F1 ++ [potE N cards F0 F1 I0 I1 ev tq]) (enc N (qn, 1)) (evf N ev (S tq)) with
  | Some v => Ok [(q, v)]
  | None => Err 5
  end.
Proof.
  unfold forward_inference, forward_state.
  pose proof time_range_ge as Hge. remember (time_range [q] ev) as T' eqn:ET.
  replace T' with (S tq + (T' - S tq)) by lia. rewrite seq_app, fold_left_app.
  rewrite seq_S, fold_left_app.
  destruct (fwd_fold N cards HN F0 F1 I0 I1 ev HI0lt HI1 Hev qn tq tq (le_n _)) as [pots Hp]. rewrite Hp.
  cbn [fold_left Nat.add]. unfold fwd_step at 2. cbn [rbind]. fold (evf N ev (S tq)). rewrite app_nil_r.
  unfold query_slice. cbn [fold_right snd fst]. rewrite Nat.eqb_refl. cbn [rbind].
  destruct (bp_query N cards (F1 ++ [potE N cards F0 F1 I0 I1 ev tq]) (enc N (qn, 1)) (evf N ev (S tq))) as [v|]; cbn [rbind].
  - assert (Hq : has_query [q] (S tq) = true) by (unfold has_query; cbn [existsb snd]; rewrite Nat.eqb_refl; reflexivity).
    rewrite Hq. rewrite (in_clique_shift N cards HN I0 I1 HI0lt HI1). cbn [app].
    pose proof (restrict_evf N HN I0 I1 ev HI1 Hev (S tq)) as Hr. rewrite app_nil_r in Hr. rewrite Hr. cbn [map].
    edestruct (trailing (seq (1 + S tq) (T' - S tq))) as [pot' [pots' Ht]].
    { intros s Hs. apply in_seq in Hs. lia. }
    rewrite Ht. reflexivity.
  - rewrite fold_fwd_err. reflexivity.
Qed.
End More.

Section Any.
Variable N : nat.
Variable cards : list nat.
Hypothesis HN : N <> 0.
Notation F := (factor Qc_sum_csr).
Variables (F0 F1 : list F) (I0 I1 : list var).
Variable ev : evidence.
Hypothesis HndF0 : Forall (fun f : F => NoDup (fvars f)) F0.
Hypothesis HndF1 : Forall (fun f : F => NoDup (fvars f)) F1.
Hypothesis HF0lt : forall v, In v (scope_of F0) -> v < N.
Hypothesis HF1lt : forall v, In v (scope_of F1) -> v < 2 * N.
Hypothesis HF1s0 : forall v, In v (scope_of F1) -> v < N -> In v I0.
Hypothesis HI0lt : forall v, In v I0 -> v < N.
Hypothesis HI0F1 : forall v, In v I0 -> In v (scope_of F1).
Hypothesis HI1 : forall v, In v I1 <-> exists n, In n I0 /\ v = n + N.
Hypothesis Hev : forall e, In e ev -> fst (fst e) < N /\ ~ In (fst (fst e)) I0.
Variables qn tq : nat.
Hypothesis Hcardpos : forall v, 0 < card N cards v.
Hypothesis Hqn : qn < N.
Hypothesis Hq1scope : In (enc N (qn, 1)) (scope_of F1).
Hypothesis Hq_noev : ~ In (qn, S tq) (map fst ev).
Hypothesis Hfull0 : forall n, n < N -> In n (scope_of F0).
Hypothesis Hfull1 : forall n, n < N -> In (n + N) (scope_of F1).
Hypothesis Hev_nodup : NoDup (map fst ev).
Notation q := (qn, S tq).
Notation ev' := (upto ev tq).

Lemma upto_In e : In e ev' -> In e ev /\ snd (fst e) <= S tq.
Proof. unfold upto. intros H. apply filter_In in H. destruct H as [H1 H2]. apply Nat.leb_le in H2. auto. Qed.

(* evidence on non-interface variables in ANY slices: the answer for a query variable of slice T >= 1 is the
   posterior of the network unrolled to T slices given the evidence of slices <= T *)
Theorem forward_is_posterior_any :
  forward_inference N cards F0 F1 I0 I1 [q] ev =
  match spec_filter N cards F0 F1 (S tq) q ev with
  | Some v => Ok [(q, v)]
  | None => Err 5
  end.
Proof.
  assert (Hev' : forall e, In e ev' -> fst (fst e) < N /\ ~ In (fst (fst e)) I0) by (intros e He; apply Hev; apply upto_In; exact He).
  rewrite (forward_run_any N cards HN F0 F1 I0 I1 ev HI0lt HI1 Hev qn tq).
  rewrite <- (potE_upto N cards HN F0 F1 I0 I1 ev tq tq) by lia.
  unfold evf. rewrite <- (get_ev_upto N HN ev tq (S tq) 1) by lia. fold (evf N ev' (S tq)).
  rewrite <- (forward_run_any N cards HN F0 F1 I0 I1 ev' HI0lt HI1 Hev' qn tq).
  rewrite (forward_is_posterior N cards HN F0 F1 I0 I1 ev' HndF0 HndF1 HF0lt HF1lt HF1s0 HI0lt HI0F1 HI1 Hev' qn tq).
  - unfold spec_filter. cbn [snd]. unfold upto. rewrite filter_filter_eq by (intros; assumption). reflexivity.
  - intros e He. apply upto_In. exact He.
  - exact Hcardpos.
  - exact Hqn.
  - exact Hq1scope.
  - intros Hi. apply Hq_noev. apply in_map_iff in Hi. destruct Hi as [e [He Hin]]. apply in_map_iff. exists e. split; [exact He|apply upto_In; exact Hin].
  - exact Hfull0.
  - exact Hfull1.
  - unfold upto. apply NoDup_map_filter. exact Hev_nodup.
Qed.
End Any.
