(* C17 finite-domain checks by vm_compute: a grid of small binary templates, every single-variable
   query, no / one evidence item, T <= 2; and the refutation witnesses. *)
From Coq Require Import List Arith Bool PeanoNat QArith Qcanon.
From PV Require Import Base.Semiring Base.Ravel Base.FinSum Base.RefFactor C17.Model C17.Spec.
Import ListNotations.
Local Open Scope nat_scope.

Record tpl := { tN : nat; tcards : list nat; tintra : list (nat * nat); tinter : list (nat * nat);
                tcpds : list cpd }.
Definition tpl_edges (t : tpl) : list edge :=
  map (fun e => ((fst e, 0), (snd e, 0))) (tintra t) ++ map (fun e => ((fst e, 0), (snd e, 1))) (tinter t).

(* binary CPD whose column j has P(x = 0) = ((2 j + k + name) mod 3 + 1) / 4 (depends on the column) *)
Definition qc (n d : nat) : Qc := Q2Qc (Z.of_nat n # Pos.of_nat d).
Definition bin_cpd (k : nat) (x : node) (pars : list node) : cpd :=
  let ncol := Nat.pow 2 (length pars) in
  let p0 := map (fun j => (2 * j + k + fst x) mod 3 + 1) (seq 0 ncol) in
  {| cvar := x; ccard := 2; cpars := pars; cpcards := map (fun _ => 2) pars;
     cvals := map (fun n => qc n 4) p0 ++ map (fun n => qc (4 - n) 4) p0;
     cnames := default_names (2 :: map (fun _ => 2) pars) |}.

Definition mk_tpl (N : nat) (intra inter : list (nat * nat)) (k : nat) : tpl :=
  let par0 v := map (fun e => (fst e, 0)) (filter (fun e => Nat.eqb (snd e) v) intra) in
  let par1 v := map (fun e => (fst e, 1)) (filter (fun e => Nat.eqb (snd e) v) intra) ++
                map (fun e => (fst e, 0)) (filter (fun e => Nat.eqb (snd e) v) inter) in
  {| tN := N; tcards := map (fun _ => 2) (seq 0 N); tintra := intra; tinter := inter;
     tcpds := flat_map (fun v => [bin_cpd k (v, 0) (par0 v); bin_cpd (k + 1) (v, 1) (par1 v)]) (seq 0 N) |}.

(* the factor-level inputs exactly as dbn_infer assembles them, without the init_ok guard
   (that guard is a crash of BayesianNetwork.add_cpds, not part of the algebra) *)
Definition run (t : tpl) (qs : queries) (ev : evidence) (smooth : bool) : res answers :=
  let names := seq 0 (tN t) in
  rbind (build_graph names (tpl_edges t)) (fun g =>
    let F0 := map (factor_of (tN t)) (slice_cpds names (tcpds t) 0) in
    let F1 := map (factor_of (tN t)) (slice_cpds names (tcpds t) 1) in
    let I0 := map (enc (tN t)) (get_interface_nodes g 0) in
    let I1 := map (enc (tN t)) (get_interface_nodes g 1) in
    if smooth then backward_inference (tN t) (tcards t) F0 F1 I0 I1 qs ev
    else forward_inference (tN t) (tcards t) F0 F1 I0 I1 qs ev).
Definition spec (t : tpl) (q : node) (ev : evidence) (smooth : bool) : option (list Qc) :=
  let names := seq 0 (tN t) in
  let F0 := map (factor_of (tN t)) (slice_cpds names (tcpds t) 0) in
  let F1 := map (factor_of (tN t)) (slice_cpds names (tcpds t) 1) in
  let T := time_range [q] ev in
  if smooth then spec_smooth (tN t) (tcards t) F0 F1 T q ev else spec_filter (tN t) (tcards t) F0 F1 T q ev.

Fixpoint qlist_eqb (a b : list Qc) : bool :=
  match a, b with
  | [], [] => true
  | x :: a', y :: b' => Qc_eq_bool x y && qlist_eqb a' b'
  | _, _ => false
  end.
Lemma qlist_eqb_eq a : forall b, qlist_eqb a b = true -> a = b.
Proof.
  induction a as [|x a IH]; intros [|y b] H; try discriminate; [reflexivity|].
  simpl in H. apply andb_true_iff in H. destruct H as [H1 H2].
  apply Qc_eq_bool_correct in H1. subst. f_equal. apply IH. exact H2.
Qed.

(* model answer for the single query q equals the brute-force marginal of the unrolled network *)
Definition agree (t : tpl) (q : node) (ev : evidence) (smooth : bool) : bool :=
  match run t [q] ev smooth, spec t q ev smooth with
  | Ok [(q', v)], Some w => node_eqb q q' && qlist_eqb v w
  | _, _ => false
  end.

(* ---- the grid *)
Fixpoint sublists {A} (l : list A) : list (list A) :=
  match l with [] => [[]] | x :: r => let s := sublists r in s ++ map (cons x) s end.
Definition same_set (a b : list nat) : bool :=
  forallb (fun x => existsb (Nat.eqb x) b) a && forallb (fun x => existsb (Nat.eqb x) a) b.
Definition inters2 : list (list (nat * nat)) :=
  filter (fun l => negb (Nat.eqb (length l) 0) && same_set (map fst l) (map snd l))
         (sublists [(0, 0); (1, 1); (0, 1); (1, 0)]).
Definition grid : list tpl :=
  flat_map (fun k => mk_tpl 1 [] [(0, 0)] k ::
                     flat_map (fun inter => [mk_tpl 2 [] inter k; mk_tpl 2 [(0, 1)] inter k; mk_tpl 2 [(1, 0)] inter k]) inters2)
           [0; 1].
Definition slots (t : tpl) (T : nat) : list node :=
  flat_map (fun s => map (fun n => (n, s)) (seq 0 (tN t))) (seq 0 (T + 1)).
Definition evidences (t : tpl) (q : node) (only : nat -> bool) : list evidence :=
  [] :: flat_map (fun x => if node_eqb x q || negb (only (fst x)) then [] else [[(x, 0)]; [(x, 1)]]) (slots t 2).
Definition questions (t : tpl) (only : tpl -> nat -> bool) : list (tpl * node * evidence) :=
  flat_map (fun q => map (fun ev => (t, q, ev)) (evidences t q (only t))) (slots t 2).
Definition all_names (_ : tpl) (_ : nat) : bool := true.
Definition non_interface (t : tpl) (n : nat) : bool := negb (existsb (Nat.eqb n) (map fst (tinter t))).

Definition forward_grid : list (tpl * node * evidence) := flat_map (fun t => questions t all_names) grid.
Definition backward_grid : list (tpl * node * evidence) := flat_map (fun t => questions t non_interface) grid.

Lemma forward_grid_agrees :
  forallb (fun x => agree (fst (fst x)) (snd (fst x)) (snd x) false) forward_grid = true.
Proof. vm_compute. reflexivity. Qed.

Lemma backward_grid_agrees :
  forallb (fun x => agree (fst (fst x)) (snd (fst x)) (snd x) true) backward_grid = true.
Proof. vm_compute. reflexivity. Qed.

Lemma grid_sizes : length grid = 56 /\ length forward_grid > 3000 /\ length backward_grid > 500.
Proof. vm_compute. repeat split; repeat constructor. Qed.

Lemma node_eqb_eq a b : node_eqb a b = true -> a = b.
Proof.
  destruct a, b. unfold node_eqb. cbn. intros H. apply andb_true_iff in H. destruct H as [H1 H2].
  apply Nat.eqb_eq in H1, H2. subst. reflexivity.
Qed.
Lemma agree_sound t q ev sm : agree t q ev sm = true ->
  exists v, run t [q] ev sm = Ok [(q, v)] /\ spec t q ev sm = Some v.
Proof.
  unfold agree. destruct (run t [q] ev sm) as [[|[q' v] [|? ?]]|]; try discriminate.
  destruct (spec t q ev sm) as [w|]; try discriminate.
  intros H. apply andb_true_iff in H. destruct H as [H1 H2].
  apply node_eqb_eq in H1. apply qlist_eqb_eq in H2. subst. exists w. split; reflexivity.
Qed.


Definition heads_eq_tails (t : tpl) : bool := same_set (map fst (tinter t)) (map snd (tinter t)).


Definition agree_all (t : tpl) (qs : queries) (ev : evidence) (sm : bool) : bool :=
  match run t qs ev sm with
  | Ok ans => forallb (fun p => match spec t (fst p) ev sm with Some w => qlist_eqb (snd p) w | None => false end) ans
  | Err _ => false
  end.

