(* C17: the backward (smoothing) pass of DBNInference for all templates of the class where pgmpy is right, all
   horizons T, a query variable of any slice k >= 1, evidence on non-interface variables in any slices. *)
From Coq Require Import List Arith Bool PeanoNat Lia QArith Qcanon Permutation.
From PV Require Import Base.Semiring Base.Ravel Base.FinSum Base.RefFactor Base.VE C17.Model C17.Spec C17.Proofs C17.ProofsInduction C17.ProofsEvidenceAll.
Import ListNotations.
Local Open Scope nat_scope.

(* ---- non-negative rationals: a vanishing sum of non-negative terms has only vanishing terms *)
Local Notation Q0 := (Q2Qc 0).
Lemma Qc_sum_zero_l (a b : Qc) : (Q0 <= a)%Qc -> (Q0 <= b)%Qc -> (a + b = Q0)%Qc -> a = Q0.
Proof.
  intros Ha Hb E. apply Qcle_antisym; [|exact Ha].
  assert (H : (a + Q0 <= a + b)%Qc). { apply Qcplus_le_compat. apply Qcle_refl. exact Hb. }
  rewrite E in H. rewrite Qcplus_0_r in H. exact H.
Qed.
Lemma Qc_sum_zero_r (a b : Qc) : (Q0 <= a)%Qc -> (Q0 <= b)%Qc -> (a + b = Q0)%Qc -> b = Q0.
Proof. intros Ha Hb E. rewrite Qcplus_comm in E. exact (Qc_sum_zero_l b a Hb Ha E). Qed.

Lemma sum_list_nonneg (l : list Qc) : Forall (fun x => (Q0 <= x)%Qc) l -> (Q0 <= sum_list (R := Qc_sum_csr) l)%Qc.
Proof.
  induction 1 as [|x l Hx _ IH]; [apply Qcle_refl|]. cbn [sum_list fold_right].
  change (Q0 <= x + sum_list (R := Qc_sum_csr) l)%Qc. rewrite <- (Qcplus_0_l Q0). apply Qcplus_le_compat; assumption.
Qed.
Lemma sum_list_zero (l : list Qc) : Forall (fun x => (Q0 <= x)%Qc) l -> sum_list (R := Qc_sum_csr) l = Q0 ->
  forall x, In x l -> x = Q0.
Proof.
  induction 1 as [|y l Hy Hl IH]; intros E x Hin; [destruct Hin|]. cbn [sum_list fold_right] in E.
  change (y + sum_list (R := Qc_sum_csr) l = Q0)%Qc in E. pose proof (sum_list_nonneg l Hl) as Hs.
  destruct Hin as [<-|Hin]; [exact (Qc_sum_zero_l _ _ Hy Hs E)|].
  apply IH; [exact (Qc_sum_zero_r _ _ Hy Hs E)|exact Hin].
Qed.

Lemma sum_over_nonneg vs : forall cs (g : asg -> Qc_sum_csr) a, (forall b, (Q0 <= g b)%Qc) ->
  (Q0 <= sum_over vs cs g a)%Qc.
Proof.
  induction vs as [|v vs IH]; intros cs g a Hg; [apply Hg|]. destruct cs as [|c cs]; [apply Hg|].
  cbn [sum_over]. apply sum_list_nonneg. apply Forall_forall. intros x Hx. apply in_map_iff in Hx.
  destruct Hx as [i [<- _]]. apply IH. exact Hg.
Qed.

(* the assignment that follows c on vs and s elsewhere *)
Definition override (s : asg) (vs : list var) (c : asg) : asg := fun v => if memv v vs then c v else s v.

Lemma sum_over_zero_term (cardf : var -> nat) vs : forall (g : asg -> Qc_sum_csr) s c,
  ext g -> (forall b, (Q0 <= g b)%Qc) -> (forall v, In v vs -> c v < cardf v) ->
  sum_over vs (map cardf vs) g s = Q0 -> g (override s vs c) = Q0.
Proof.
  induction vs as [|v vs IH]; intros g s c Hg Hnn Hc E.
  - cbn [map sum_over] in E. rewrite <- E. apply Hg. intros w. reflexivity.
  - cbn [map sum_over] in E.
    assert (Ht : sum_over vs (map cardf vs) g (upd s v (c v)) = Q0).
    { apply (sum_list_zero _ (proj2 (Forall_forall _ _)
               (fun x Hx => match proj1 (in_map_iff _ _ _) Hx with ex_intro _ i (conj Ei _) =>
                              eq_ind _ (fun y => (Q0 <= y)%Qc) (sum_over_nonneg vs _ g _ Hnn) _ Ei end)) E).
      apply in_map_iff. exists (c v). split; [reflexivity|]. apply in_seq. split; [lia|]. cbn. apply Hc. left. reflexivity. }
    rewrite <- (IH g (upd s v (c v)) c Hg Hnn (fun w Hw => Hc w (or_intror Hw)) Ht).
    apply Hg. intros w. unfold override, upd. cbn [memv existsb].
    destruct (Nat.eqb w v) eqn:E1; cbn [orb].
    + apply Nat.eqb_eq in E1. subst. destruct (memv v vs); reflexivity.
    + reflexivity.
Qed.

Lemma Qcmult_nonneg (a b : Qc) : (Q0 <= a)%Qc -> (Q0 <= b)%Qc -> (Q0 <= a * b)%Qc.
Proof. intros Ha Hb. replace Q0 with (Q0 * b)%Qc by ring. apply Qcmult_le_compat_r; assumption. Qed.

Lemma ratio_alg (tr p a b : Qc) : (a = Q0 -> (tr * p = Q0)%Qc) ->
  (tr * (p * ((a * b) / a)) = p * (tr * b))%Qc.
Proof.
  intros H. destruct (Qc_eq_dec a Q0) as [E|E].
  - specialize (H E). transitivity ((tr * p) * ((a * b) / a))%Qc; [ring|]. rewrite H.
    transitivity ((tr * p) * b)%Qc; [rewrite H; ring|ring].
  - field. exact E.
Qed.

Lemma match_app_nil {A} (l : list A) : match l with [] => [] | _ :: _ => l ++ [] end = l.
Proof. destruct l; [reflexivity|apply app_nil_r]. Qed.

Section Bwd.
Variable N : nat.
Variable cards : list nat.
Hypothesis HN : N <> 0.
Notation F := (factor Qc_sum_csr).
Notation card := (card N cards).
Notation eval_prod := (eval_prod Qc_sum_csr card).
Notation feval := (feval Qc_sum_csr card).
Variables (F0 F1 : list F) (I0 I1 : list var).
Variable ev : evidence.

Hypothesis HndF0 : Forall (fun f : F => NoDup (fvars f)) F0.
Hypothesis HndF1 : Forall (fun f : F => NoDup (fvars f)) F1.
Hypothesis HF0lt : forall v, In v (scope_of F0) -> v < N.
Hypothesis HF1lt : forall v, In v (scope_of F1) -> v < 2 * N.
Hypothesis HF1s0 : forall v, In v (scope_of F1) -> v < N -> In v I0.
Hypothesis HI0lt : forall v, In v I0 -> v < N.
Hypothesis HI0F1 : forall v, In v I0 -> In v (scope_of F1).
Hypothesis HI1 : forall v, In v I1 <-> exists n, In n I0 /\ v = n + N.
Hypothesis Hev : forall e, In e ev -> fst (fst e) < N /\ ~ In (fst (fst e)) I0.
Hypothesis Hcardpos : forall v, 0 < card v.
Hypothesis HI0ne : I0 <> [].                                              (* there is an inter edge *)
Hypothesis Hfull1 : forall n, n < N -> In (n + N) (scope_of F1).
(* CPD entries are probabilities *)
Hypothesis Hnn0 : forall f, In f F0 -> Forall (fun x => (Q0 <= x)%Qc) (fvals f).
Hypothesis Hnn1 : forall f, In f F1 -> Forall (fun x => (Q0 <= x)%Qc) (fvals f).

Notation evf := (evf N ev).
Notation potE := (potE N cards F0 F1 I0 I1 ev).
Definition nn (f : F) : Prop := Forall (fun x => (Q0 <= x)%Qc) (fvals f).

Lemma feval_nonneg (f : F) a : nn f -> (Q0 <= feval f a)%Qc.
Proof.
  intros H. unfold RefFactor.feval, t_get.
  destruct (Nat.lt_ge_cases (ravel (fcard Qc_sum_csr card f) (map a (fvars f))) (length (fvals f))) as [Hl|Hl].
  - unfold nn in H. rewrite Forall_forall in H. apply H. apply nth_In. exact Hl.
  - rewrite nth_overflow by exact Hl. apply Qcle_refl.
Qed.
Lemma eval_prod_nonneg (fs : list F) a : (forall f, In f fs -> nn f) -> (Q0 <= eval_prod fs a)%Qc.
Proof.
  unfold RefFactor.eval_prod. induction fs as [|f fs IH]; intros H; cbn [map prod_list fold_right].
  - discriminate.
  - apply Qcmult_nonneg; [apply feval_nonneg; apply H; left; reflexivity|apply IH; intros g Hg; apply H; right; exact Hg].
Qed.
Lemma nn_fbuild vs (g : asg -> Qc_sum_csr) : (forall b, (Q0 <= g b)%Qc) -> nn (fbuild Qc_sum_csr card vs g).
Proof.
  intros H. unfold nn, fbuild, t_build. cbn [fvals]. apply Forall_forall. intros x Hx. apply in_map_iff in Hx.
  destruct Hx as [n [<- _]]. apply H.
Qed.
Lemma nn_joint_marg fs e S : (forall f, In f fs -> nn f) -> nn (joint_marg N cards fs e S).
Proof. intros H. unfold joint_marg. apply nn_fbuild. intros b. apply sum_over_nonneg. intros c. apply eval_prod_nonneg. exact H. Qed.
Lemma nn_fshift s f : nn f -> nn (fshift N s f). Proof. intros H. exact H. Qed.

(* assignments enumerated by a table are valid *)
Lemma asg_of_valid vs : forall idx, in_range (map card vs) idx -> valid card (asg_of vs idx).
Proof.
  induction vs as [|v vs IH]; intros idx H.
  - intros w. cbn. apply Hcardpos.
  - inversion H as [|c cs i is_ Hi Hr]; subst. cbn [asg_of]. apply valid_upd; [apply IH; exact Hr|exact Hi].
Qed.
Lemma fbuild_all_zero vs (g : asg -> Qc_sum_csr) : (forall a, valid card a -> g a = Q0) ->
  forallb (fun x : Qc => if Qc_eq_dec x Q0 then true else false) (fvals (fbuild Qc_sum_csr card vs g)) = true.
Proof.
  intros H. unfold fbuild, t_build. cbn [fvals]. apply forallb_forall. intros x Hx. apply in_map_iff in Hx.
  destruct Hx as [n [<- Hn]]. apply in_seq in Hn. rewrite H; [destruct (Qc_eq_dec Q0 Q0); [reflexivity|contradiction]|].
  apply asg_of_valid. apply unravel_in_range. lia.
Qed.

Lemma feval_fdiv (f g : F) a : NoDup (fvars f) -> NoDup (fvars g) -> valid card a ->
  feval (fdiv N cards f g) a = Qcdiv (feval f a) (feval g a).
Proof.
  intros Hf Hg Hv. unfold fdiv. apply feval_fbuild; [apply NoDup_vunion; assumption|exact Hv|].
  intros x y Hxy. f_equal.
  - apply feval_depends_only. intros v Hin. apply Hxy. apply In_vunion. left. exact Hin.
  - apply feval_depends_only. intros v Hin. apply Hxy. apply In_vunion. right. exact Hin.
Qed.

(* factors whose variables already occur do not change the scope list *)
Lemma vunion_absorb (acc l : list var) : (forall v, In v l -> In v acc) -> vunion acc l = acc.
Proof.
  intros H. unfold vunion. rewrite <- app_nil_r. f_equal. induction l as [|x l IH]; [reflexivity|]. cbn [filter].
  assert (Hm : memv x acc = true) by (apply memv_In; apply H; left; reflexivity). rewrite Hm. cbn [negb].
  apply IH. intros v Hv. apply H. right. exact Hv.
Qed.
Lemma scope_absorb (fs extra : list F) : (forall f v, In f extra -> In v (fvars f) -> In v (scope_of fs)) ->
  scope_of (fs ++ extra) = scope_of fs.
Proof.
  unfold scope_of. rewrite fold_left_app. generalize (fold_left (fun acc f => vunion acc (fvars f)) fs []) as acc.
  induction extra as [|f extra IH]; intros acc H; [reflexivity|]. cbn [fold_left].
  rewrite vunion_absorb by (intros v Hv; apply (H f v); [left; reflexivity|exact Hv]).
  apply IH. intros g v Hg Hv. apply (H g v); [right; exact Hg|exact Hv].
Qed.

(* ================= the forward potentials as forward_inference computes them for the query (qn, S kq) =========== *)
Variables qn kq : nat.
Notation q := (qn, S kq).
Notation q1 := (enc N (qn, 1)).

(* BeliefPropagation.query re-initialises the engine: the potential leaving the query's slice has no prior *)
Fixpoint potK (j : nat) : F :=
  match j with
  | 0 => joint_marg N cards F0 (ev0 N ev) I0
  | S j' => fshift N 0 (joint_marg N cards (if Nat.eqb (S j') (S kq) then F1 else F1 ++ [potK j']) (evf (S j')) I1)
  end.

Lemma potK_potE j : j <= kq -> potK j = potE j.
Proof.
  induction j as [|j IH]; intros Hj; [reflexivity|]. cbn [potK ProofsEvidenceAll.potE].
  assert (E : Nat.eqb (S j) (S kq) = false) by (apply Nat.eqb_neq; lia). rewrite E. rewrite IH by lia. reflexivity.
Qed.

Lemma reslice0_I1 v : In v I1 -> In (reslice N 0 v) I0 /\ v = reslice N 0 v + N.
Proof.
  intros Hv. apply HI1 in Hv. destruct Hv as [n [Hn ->]].
  assert (E : reslice N 0 (n + N) = n).
  { rewrite reslice0. replace (n + N) with (n + 1 * N) by lia. rewrite Nat.mod_add by exact HN.
    apply Nat.mod_small. apply HI0lt. exact Hn. }
  rewrite E. split; [exact Hn|reflexivity].
Qed.
Lemma reslice1_I0 v : In v I0 -> reslice N 1 v = v + N /\ In (reslice N 1 v) I1.
Proof.
  intros Hv. unfold reslice. rewrite Nat.mod_small by (apply HI0lt; exact Hv).
  split; [lia|]. apply HI1. exists v. split; [exact Hv|lia].
Qed.

Lemma shifted0_vars (fs : list F) e v : In v (fvars (fshift N 0 (joint_marg N cards fs e I1))) -> In v I0.
Proof.
  unfold fshift, mkF, joint_marg. cbn [fvars fbuild]. intros Hv. apply in_map_iff in Hv. destruct Hv as [w [<- Hw]].
  unfold vinter in Hw. apply filter_In in Hw. destruct Hw as [_ Hw]. apply memv_In in Hw. apply reslice0_I1. exact Hw.
Qed.
Lemma shifted0_nodup (fs : list F) e : Forall (fun f : F => NoDup (fvars f)) fs ->
  NoDup (fvars (fshift N 0 (joint_marg N cards fs e I1))).
Proof.
  intros Hnd. unfold fshift, mkF, joint_marg. cbn [fvars fbuild]. apply NoDup_map_inj_on.
  - apply NoDup_filter, NoDup_filter. unfold scope_of. apply NoDup_scope_of; [constructor|exact Hnd].
  - intros x y Hx Hy He. unfold vinter in Hx, Hy. apply filter_In in Hx, Hy. destruct Hx as [_ Hx], Hy as [_ Hy].
    apply memv_In in Hx, Hy. destruct (reslice0_I1 x Hx) as [_ Ex]. destruct (reslice0_I1 y Hy) as [_ Ey]. lia.
Qed.
Lemma shifted1_vars (fs : list F) e v : In v (fvars (fshift N 1 (joint_marg N cards fs e I0))) -> In v I1.
Proof.
  unfold fshift, mkF, joint_marg. cbn [fvars fbuild]. intros Hv. apply in_map_iff in Hv. destruct Hv as [w [<- Hw]].
  unfold vinter in Hw. apply filter_In in Hw. destruct Hw as [_ Hw]. apply memv_In in Hw. apply reslice1_I0. exact Hw.
Qed.
Lemma shifted1_nodup (fs : list F) e : Forall (fun f : F => NoDup (fvars f)) fs ->
  NoDup (fvars (fshift N 1 (joint_marg N cards fs e I0))).
Proof.
  intros Hnd. unfold fshift, mkF, joint_marg. cbn [fvars fbuild]. apply NoDup_map_inj_on.
  - apply NoDup_filter, NoDup_filter. unfold scope_of. apply NoDup_scope_of; [constructor|exact Hnd].
  - intros x y Hx Hy He. unfold vinter in Hx, Hy. apply filter_In in Hx, Hy. destruct Hx as [_ Hx], Hy as [_ Hy].
    apply memv_In in Hx, Hy. destruct (reslice1_I0 x Hx) as [Ex _]. destruct (reslice1_I0 y Hy) as [Ey _]. lia.
Qed.

Lemma potK_vars j v : In v (fvars (potK j)) -> In v I0.
Proof.
  destruct j as [|j]; cbn [potK]; intros Hv.
  - unfold joint_marg in Hv. cbn [fvars fbuild] in Hv. unfold vinter in Hv. apply filter_In in Hv. apply memv_In. apply Hv.
  - eapply shifted0_vars. exact Hv.
Qed.
Lemma potK_nodup j : NoDup (fvars (potK j)).
Proof.
  induction j as [|j IH]; cbn [potK].
  - unfold joint_marg. cbn [fvars fbuild]. apply NoDup_filter, NoDup_filter. unfold scope_of. apply NoDup_scope_of; [constructor|exact HndF0].
  - apply shifted0_nodup. destruct (Nat.eqb (S j) (S kq)); [exact HndF1|].
    apply Forall_app. split; [exact HndF1|constructor; [exact IH|constructor]].
Qed.
Lemma potK_nn j : nn (potK j).
Proof.
  induction j as [|j IH]; cbn [potK].
  - apply nn_joint_marg. exact Hnn0.
  - apply nn_fshift, nn_joint_marg. destruct (Nat.eqb (S j) (S kq)); [exact Hnn1|].
    intros f Hf. apply in_app_or in Hf. destruct Hf as [Hf|[<-|[]]]; [apply Hnn1; exact Hf|exact IH].
Qed.

Lemma I1_in_scope v : In v I1 -> In v (scope_of F1).
Proof. intros Hv. apply HI1 in Hv. destruct Hv as [n [Hn ->]]. apply Hfull1. apply HI0lt. exact Hn. Qed.
Lemma I1_nokey t v : In v I1 -> ~ In v (map fst (evf t)).
Proof.
  intros Hv Hk. apply HI1 in Hv. destruct Hv as [n [Hn ->]].
  destruct (key_evf N HN I0 ev Hev t _ Hk) as [m [E [_ Hm]]]. assert (n = m) by lia. subst. contradiction.
Qed.
Lemma I0_nokey t v : In v I0 -> ~ In v (map fst (evf t)).
Proof. intros Hv Hk. destruct (key_evf N HN I0 ev Hev t _ Hk) as [m [E _]]. apply HI0lt in Hv. lia. Qed.

(* ================= the backward messages ================= *)
Definition Tr (t : nat) : asg -> Qc_sum_csr := fun c => eval_prod F1 (upds c (evf t)).
Definition Ob (t : nat) : list var := vminus (vminus (scope_of F1) (map fst (evf t))) I0.
(* textbook backward recursion of the 2-TBN, read at slice 1:  beta_from t r  =  P(e_{t+1 .. t+r} | interface of slice t) *)
Fixpoint beta_from (t r : nat) : asg -> Qc_sum_csr :=
  match r with
  | 0 => fun _ => Q2Qc 1
  | S r' => fun b => sum_over (R := Qc_sum_csr) (Ob (S t)) (map card (Ob (S t)))
                       (fun c => Qcmult (Tr (S t) c) (beta_from (S t) r' c)) (fun v => b (reslice N 1 v))
  end.
Definition Afw (t : nat) : asg -> Qc_sum_csr := fun b => feval (fshift N 1 (potK t)) b.

Definition InvU (t r : nat) (U : F) : Prop :=
  NoDup (fvars U) /\ fvars U <> [] /\ (forall v, In v (fvars U) -> In v I1) /\
  forall b, valid card b -> feval U b = Qcmult (Afw t b) (beta_from t r b).

Lemma Tr_ext t : ext (R := Qc_sum_csr) (Tr t).
Proof. intros x y Hxy. unfold Tr. apply eval_prod_ext. apply upds_aeq. exact Hxy. Qed.
Lemma Tr_nonneg t c : (Q0 <= Tr t c)%Qc.
Proof. unfold Tr. apply eval_prod_nonneg. exact Hnn1. Qed.

(* ---- the step of backward_inference under evidence on non-interface variables *)
Lemma restrict_get0 t : restrict (get_ev N ev t 0) I0 = [].
Proof.
  apply restrict_nil. intros k Hk Hi. destruct (key_get_ev N I0 ev Hev t 0 k Hk) as [n [-> [_ Hn]]]. cbn in Hi. contradiction.
Qed.

Lemma bwd_step_eq pots U ans p t :
  bwd_step N cards F1 I0 pots [q] ev (Ok (U, [], ans, p)) t =
  (let fwd := fshift N 1 (nth t pots (fone0 N cards)) in
   let mid := F1 ++ [nth (t - 1) pots (fone0 N cards)] ++ ratio_factors N cards U fwd in
   let p' := p || negb (ratio_finite N cards U fwd) in
   if p' && has_query [q] t then Err 6 else
   rbind (query_slice N cards mid [q] t 1 (evf t))
     (fun ans_t => Ok (fshift N 1 (joint_marg N cards (if has_query [q] t then F1 else mid) (evf t) I0), [], ans ++ ans_t, p'))).
Proof.
  unfold bwd_step. cbn [rbind]. cbv zeta. fold (evf t).
  assert (Hid : match get_ev N ev (t - 1) 0 with [] => @nil (var * nat) | _ :: _ => restrict (get_ev N ev (t - 1) 0) I0 end = []).
  { pose proof (restrict_get0 (t - 1)) as Hr. destruct (get_ev N ev (t - 1) 0); [reflexivity|exact Hr]. }
  rewrite Hid. rewrite match_app_nil. reflexivity.
Qed.

Lemma ratio_finite_true (U fwd : F) :
  (forall a, valid card a -> feval fwd a = Q0 -> feval U a = Q0) -> ratio_finite N cards U fwd = true.
Proof.
  intros H. unfold ratio_finite. destruct (fvars U); [reflexivity|]. destruct (fvars fwd); [reflexivity|].
  apply fbuild_all_zero. intros a Ha. destruct (Qc_eq_dec (feval fwd a) Q0) as [E|E]; [apply H; assumption|reflexivity].
Qed.
Lemma ratio_factors_ne (U fwd : F) : fvars U <> [] -> fvars fwd <> [] -> ratio_factors N cards U fwd = [fdiv N cards U fwd].
Proof. intros H1 H2. unfold ratio_factors. destruct (fvars U); [contradiction|]. destruct (fvars fwd); [contradiction|]. reflexivity. Qed.

Lemma some_I0 : exists n, In n I0.
Proof. destruct I0 as [|n l]; [contradiction|]. exists n. left. reflexivity. Qed.

Lemma fwd_shift_facts j : NoDup (fvars (fshift N 1 (potK j))) /\ (forall v, In v (fvars (fshift N 1 (potK j))) -> In v I1).
Proof.
  unfold fshift, mkF. cbn [fvars]. split.
  - apply NoDup_map_inj_on; [apply potK_nodup|]. intros x y Hx Hy E. apply potK_vars in Hx, Hy.
    destruct (reslice1_I0 x Hx) as [Ex _]. destruct (reslice1_I0 y Hy) as [Ey _]. lia.
  - intros v Hv. apply in_map_iff in Hv. destruct Hv as [w [<- Hw]]. apply reslice1_I0. eapply potK_vars. exact Hw.
Qed.
Lemma potK_vars_ne j : fvars (potK (S j)) <> [].
Proof.
  cbn [potK]. unfold fshift, mkF, joint_marg. cbn [fvars fbuild]. destruct some_I0 as [n Hn].
  assert (Hin : In (n + N) (vinter (vminus (scope_of (if Nat.eqb (S j) (S kq) then F1 else F1 ++ [potK j])) (map fst (evf (S j)))) I1)).
  { unfold vinter. apply filter_In. split; [|apply memv_In; apply HI1; exists n; auto].
    apply In_vminus. split.
    - destruct (Nat.eqb (S j) (S kq)); [|apply scope_app; left]; apply Hfull1; apply HI0lt; exact Hn.
    - apply I1_nokey. apply HI1. exists n. auto. }
  intros E. apply (f_equal (@length _)) in E. rewrite map_length in E. destruct (vinter _ I1); [destruct Hin|discriminate].
Qed.

Lemma Afw_eq j b : Afw j b = feval (potK j) (fun v => b (reslice N 1 v)).
Proof. unfold Afw. apply feval_fshift. exact HN. Qed.

(* a factor over interface variables does not see the evidence of the slice *)
Lemma feval_I_upds (P : F) t c : (forall v, In v (fvars P) -> In v I0 \/ In v I1) -> feval P (upds c (evf t)) = feval P c.
Proof.
  intros H. apply feval_depends_only. intros v Hv. apply upds_other. destruct (H v Hv) as [Hi|Hi]; [apply I0_nokey|apply I1_nokey]; exact Hi.
Qed.

Lemma valid_r10 c : valid card c -> valid card (fun v => c (reslice N 1 (reslice N 0 v))).
Proof.
  intros Hc. pose proof (valid_reslice N cards 1 c HN Hc) as H1.
  exact (valid_reslice N cards 0 (fun v => c (reslice N 1 v)) HN H1).
Qed.
Lemma r10_I1 v : In v I1 -> reslice N 1 (reslice N 0 v) = v.
Proof. intros Hv. destruct (reslice0_I1 v Hv) as [H0 E]. destruct (reslice1_I0 _ H0) as [E1 _]. lia. Qed.

(* where the forward potential of slice t vanishes, every term it sums vanishes *)
Lemma zero_terms (fs : list F) t c : Forall (fun f : F => NoDup (fvars f)) fs -> (forall f, In f fs -> nn f) ->
  valid card c ->
  feval (fshift N 0 (joint_marg N cards fs (evf t) I1)) (fun v => c (reslice N 1 v)) = Q0 ->
  eval_prod fs (upds c (evf t)) = Q0.
Proof.
  intros Hnd Hnnf Hc E. rewrite feval_fshift in E by exact HN.
  rewrite joint_marg_sem in E; [|exact Hnd|apply valid_r10; exact Hc].
  set (deps := vminus (scope_of fs) (map fst (evf t))) in *. set (vsA := vminus deps I1) in *.
  set (gA := fun b : asg => eval_prod fs (upds b (evf t))) in *.
  assert (HgA : depends_only (R := Qc_sum_csr) gA deps) by (apply (depends_upds Qc_sum_csr); apply eval_prod_depends_scope).
  pose proof (sum_over_zero_term card vsA gA _ c (depends_only_ext Qc_sum_csr _ _ HgA)
                (fun b => eval_prod_nonneg fs _ Hnnf) (fun v _ => Hc v) E) as Hz.
  rewrite <- Hz. apply HgA. intros v Hv. unfold override. destruct (memv v vsA) eqn:Em; [reflexivity|].
  apply memv_false in Em. assert (Hi : In v I1).
  { destruct (in_dec Nat.eq_dec v I1) as [Hi|Hi]; [exact Hi|]. exfalso. apply Em. apply In_vminus. split; assumption. }
  cbn beta. rewrite r10_I1 by exact Hi. reflexivity.
Qed.

Lemma Afw_zero_nonreset t' c : S t' <> S kq -> valid card c -> Afw (S t') c = Q0 ->
  Qcmult (Tr (S t') c) (feval (potK t') c) = Q0.
Proof.
  intros Hne Hc E. rewrite Afw_eq in E. cbn [potK] in E.
  assert (Eq : Nat.eqb (S t') (S kq) = false) by (apply Nat.eqb_neq; exact Hne). rewrite Eq in E.
  apply zero_terms in E; [| |intros f Hf; apply in_app_or in Hf; destruct Hf as [Hf|[<-|[]]]; [apply Hnn1; exact Hf|apply potK_nn]|exact Hc].
  2:{ apply Forall_app. split; [exact HndF1|constructor; [apply potK_nodup|constructor]]. }
  rewrite eval_prod_app in E. unfold RefFactor.eval_prod at 2 in E. cbn [map prod_list fold_right] in E.
  rewrite (mul_1_r Qc_sum_csr) in E. rewrite feval_I_upds in E by (intros v Hv; left; eapply potK_vars; exact Hv). exact E.
Qed.
Lemma Afw_zero_reset c : valid card c -> Afw (S kq) c = Q0 -> Tr (S kq) c = Q0.
Proof.
  intros Hc E. rewrite Afw_eq in E. cbn [potK] in E. rewrite Nat.eqb_refl in E.
  apply zero_terms in E; [exact E|exact HndF1|exact Hnn1|exact Hc].
Qed.

(* the engine's product at step S t' (prior factor P over slice-0 interface variables, ratio message) *)
Lemma mid_eval (P : F) t' r U c :
  (forall v, In v (fvars P) -> In v I0) -> InvU (S t') r U -> valid card c ->
  (Afw (S t') c = Q0 -> Qcmult (Tr (S t') c) (feval P c) = Q0) ->
  eval_prod (F1 ++ [P] ++ [fdiv N cards U (fshift N 1 (potK (S t')))]) (upds c (evf (S t'))) =
  Qcmult (feval P c) (Qcmult (Tr (S t') c) (beta_from (S t') r c)).
Proof.
  intros HP [HUnd [HUne [HUI1 HU]]] Hc Hz. destruct (fwd_shift_facts (S t')) as [Hfnd HfI1].
  rewrite eval_prod_app. fold (Tr (S t') c). unfold RefFactor.eval_prod. cbn [map prod_list fold_right app].
  rewrite (mul_1_r Qc_sum_csr).
  rewrite (feval_I_upds P) by (intros v Hv; left; apply HP; exact Hv).
  rewrite (feval_I_upds (fdiv N cards U (fshift N 1 (potK (S t'))))).
  2:{ intros v Hv. right. unfold fdiv in Hv. cbn [fvars fbuild] in Hv. apply In_vunion in Hv. destruct Hv as [Hv|Hv]; [apply HUI1|apply HfI1]; exact Hv. }
  rewrite feval_fdiv by assumption. rewrite (HU c Hc). fold (Afw (S t') c).
  exact (ratio_alg (Tr (S t') c) (feval P c) (Afw (S t') c) (beta_from (S t') r c) Hz).
Qed.

Lemma shifted1_ne (fs : list F) e n : In n I0 -> In n (vminus (scope_of fs) (map fst e)) ->
  fvars (fshift N 1 (joint_marg N cards fs e I0)) <> [].
Proof.
  intros Hn Hs. unfold fshift, mkF, joint_marg. cbn [fvars fbuild].
  assert (Hin : In n (vinter (vminus (scope_of fs) (map fst e)) I0)).
  { unfold vinter. apply filter_In. split; [exact Hs|apply memv_In; exact Hn]. }
  intros E. apply (f_equal (@length _)) in E. rewrite map_length in E. destruct (vinter _ I0); [destruct Hin|discriminate].
Qed.

Lemma mid_nodup (P U : F) j : NoDup (fvars P) -> NoDup (fvars U) ->
  Forall (fun f : F => NoDup (fvars f)) (F1 ++ [P; fdiv N cards U (fshift N 1 (potK j))]).
Proof.
  intros HP HU. apply Forall_app. split; [exact HndF1|]. constructor; [exact HP|]. constructor; [|constructor].
  unfold fdiv. cbn [fvars fbuild]. apply NoDup_vunion; [exact HU|apply fwd_shift_facts].
Qed.
Lemma mid_scope (P U : F) j : (forall v, In v (fvars P) -> In v I0) -> (forall v, In v (fvars U) -> In v I1) ->
  scope_of (F1 ++ [P; fdiv N cards U (fshift N 1 (potK j))]) = scope_of F1.
Proof.
  intros HP HU. apply scope_absorb. intros f v [<-|[<-|[]]] Hv.
  - apply HI0F1, HP. exact Hv.
  - unfold fdiv in Hv. cbn [fvars fbuild] in Hv. apply In_vunion in Hv. apply I1_in_scope.
    destruct Hv as [Hv|Hv]; [apply HU; exact Hv|apply (proj2 (fwd_shift_facts j)); exact Hv].
Qed.
Lemma ratio_ok t r U : InvU t r U -> ratio_finite N cards U (fshift N 1 (potK t)) = true.
Proof.
  intros [_ [_ [_ HU]]]. apply ratio_finite_true. intros a Ha E. rewrite (HU a Ha). unfold Afw.
  change (Qcmult (feval (fshift N 1 (potK t)) a) (beta_from t r a) = Q0). rewrite E. ring.
Qed.

(* ---- a step without query: the invariant moves one slice down *)
Lemma bwd_step_nq pots T t' r U :
  (forall j, j <= T -> nth j pots (fone0 N cards) = potK j) -> S t' <= T -> S t' <> S kq -> InvU (S t') r U ->
  exists U', bwd_step N cards F1 I0 pots [q] ev (Ok (U, [], [], false)) (S t') = Ok (U', [], [], false) /\ InvU t' (S r) U'.
Proof.
  intros Hpots Ht Hne HI. pose proof HI as [HUnd [HUne [HUI1 HU]]].
  rewrite bwd_step_eq. cbv zeta. replace (S t' - 1) with t' by lia.
  rewrite (Hpots (S t') Ht), (Hpots t') by lia.
  rewrite (has_query_other qn kq (S t') Hne). rewrite (ratio_ok _ _ _ HI). cbn [negb orb andb].
  rewrite query_slice_none by (apply has_query_other; exact Hne). cbn [rbind app].
  rewrite ratio_factors_ne; [|exact HUne|].
  2:{ unfold fshift, mkF. cbn [fvars]. intros E. apply (f_equal (@length _)) in E. rewrite map_length in E.
      pose proof (potK_vars_ne t') as Hn. destruct (fvars (potK (S t'))); [contradiction|discriminate]. }
  eexists. split; [reflexivity|].
  pose proof (mid_nodup (potK t') U (S t') (potK_nodup t') HUnd) as Hmnd.
  pose proof (mid_scope (potK t') U (S t') (potK_vars t') HUI1) as Hmsc.
  split; [apply shifted1_nodup; exact Hmnd|]. split.
  { destruct some_I0 as [n Hn]. apply (shifted1_ne _ _ n Hn). rewrite Hmsc.
    apply In_vminus. split; [apply HI0F1; exact Hn|apply I0_nokey; exact Hn]. }
  split; [intros v Hv; eapply shifted1_vars; exact Hv|].
  intros b' Hb'. rewrite feval_fshift by exact HN.
  rewrite joint_marg_sem; [|exact Hmnd|apply valid_reslice; assumption]. rewrite Hmsc. fold (Ob (S t')).
  rewrite (sum_over_ext_valid Qc_sum_csr card (Ob (S t')) _
             (fun c => Qcmult (feval (potK t') c) (Qcmult (Tr (S t') c) (beta_from (S t') r c))) _
             (valid_reslice N cards 1 b' HN Hb')).
  2:{ intros c Hc. apply (mid_eval (potK t') t' r U c (potK_vars t') HI Hc). intros E. apply Afw_zero_nonreset; assumption. }
  rewrite Afw_eq. cbn [beta_from].
  apply (sum_over_mul_l Qc_sum_csr (Ob (S t')) (map card (Ob (S t'))) (feval (potK t'))
           (fun c => Qcmult (Tr (S t') c) (beta_from (S t') r c)) (fun v => b' (reslice N 1 v))); [|intros; exact I].
  intros v Hv. apply (depends_only_ignores Qc_sum_csr _ (fvars (potK t'))); [apply feval_depends_only|].
  intros Hin. apply potK_vars in Hin. unfold Ob in Hv. apply In_vminus in Hv. apply Hv. exact Hin.
Qed.

Lemma bwd_fold_nq pots T m : forall r U,
  (forall j, j <= T -> nth j pots (fone0 N cards) = potK j) -> S kq + m <= T -> InvU (S kq + m) r U ->
  exists U', fold_left (bwd_step N cards F1 I0 pots [q] ev) (rev (seq (S (S kq)) m)) (Ok (U, [], [], false)) = Ok (U', [], [], false)
             /\ InvU (S kq) (r + m) U'.
Proof.
  induction m as [|m IH]; intros r U Hpots Hm HI.
  - cbn [seq rev fold_left]. exists U. split; [reflexivity|]. rewrite !Nat.add_0_r in *. exact HI.
  - rewrite seq_S, rev_app_distr. cbn [rev app fold_left].
    replace (S kq + S m) with (S (S kq + m)) in HI by lia.
    destruct (bwd_step_nq pots T (S kq + m) r U Hpots ltac:(lia) ltac:(lia) HI) as [U1 [E1 HIu1]].
    replace (S (S kq) + m) with (S (S kq + m)) by lia. rewrite E1.
    destruct (IH (S r) U1 Hpots ltac:(lia) HIu1) as [U' [E' HI']]. exists U'. split; [exact E'|].
    replace (r + S m) with (S r + m) by lia. exact HI'.
Qed.

(* ---- the query's slice *)
Hypothesis Hqn : qn < N.
Hypothesis Hq1scope : In q1 (scope_of F1).
Hypothesis Hq_noev : ~ In q (map fst ev).

Definition Oqb : list var := vminus (vminus (scope_of F1) (map fst (evf (S kq)))) [q1].
(* forward message of slice k-1  x  transition CPDs of slice k at its evidence  x  backward message of slice k *)
Definition Wb (r x : nat) : Qc_sum_csr :=
  sum_over (R := Qc_sum_csr) Oqb (map card Oqb)
    (fun c => Qcmult (feval (potE kq) c) (Qcmult (Tr (S kq) c) (beta_from (S kq) r c))) (upd zero_asg q1 x).

Lemma bwd_step_q pots T r U :
  (forall j, j <= T -> nth j pots (fone0 N cards) = potK j) -> S kq <= T -> InvU (S kq) r U ->
  bwd_step N cards F1 I0 pots [q] ev (Ok (U, [], [], false)) (S kq) =
  match normalise (map (Wb r) (seq 0 (card q1))) with
  | Some v => Ok (fshift N 1 (joint_marg N cards F1 (evf (S kq)) I0), [], [(q, v)], false)
  | None => Err 5
  end.
Proof.
  intros Hpots Ht HI. pose proof HI as [HUnd [HUne [HUI1 HU]]].
  rewrite bwd_step_eq. cbv zeta. replace (S kq - 1) with kq by lia.
  rewrite (Hpots (S kq) Ht), (Hpots kq) by lia.
  assert (Hq : has_query [q] (S kq) = true) by (unfold has_query; cbn [existsb snd]; rewrite Nat.eqb_refl; reflexivity).
  rewrite Hq. rewrite (ratio_ok _ _ _ HI). cbn [negb orb andb].
  rewrite ratio_factors_ne; [|exact HUne|].
  2:{ unfold fshift, mkF. cbn [fvars]. intros E. apply (f_equal (@length _)) in E. rewrite map_length in E.
      pose proof (potK_vars_ne kq) as Hn. destruct (fvars (potK (S kq))); [contradiction|discriminate]. }
  cbn [app]. pose proof (mid_nodup (potK kq) U (S kq) (potK_nodup kq) HUnd) as Hmnd.
  pose proof (mid_scope (potK kq) U (S kq) (potK_vars kq) HUI1) as Hmsc.
  unfold query_slice. cbn [fold_right snd fst]. rewrite Nat.eqb_refl. cbn [rbind]. unfold bp_query.
  assert (Hw : fvals (joint_marg N cards (F1 ++ [potK kq; fdiv N cards U (fshift N 1 (potK (S kq)))]) (evf (S kq)) [q1])
               = map (Wb r) (seq 0 (card q1))).
  { assert (Hsc : NoDup (vminus (scope_of F1) (map fst (evf (S kq)))))
      by (apply NoDup_filter; unfold scope_of; apply NoDup_scope_of; [constructor|exact HndF1]).
    assert (Hin : In q1 (vminus (scope_of F1) (map fst (evf (S kq))))).
    { apply In_vminus. split; [exact Hq1scope|apply (q1_nokey N HN I0 ev Hev qn kq Hqn Hq_noev)]. }
    unfold joint_marg. rewrite Hmsc. rewrite (vinter_single _ _ Hsc Hin). unfold fbuild. cbn [fvals map].
    rewrite t_build_single. apply map_ext_in. intros x Hx. apply in_seq in Hx. cbn [asg_of]. fold Oqb. fold zero_asg.
    assert (Hval : valid card (upd zero_asg q1 x)) by (apply valid_upd; [intros v; apply Hcardpos|lia]).
    unfold Wb. apply (sum_over_ext_valid Qc_sum_csr card Oqb _ _ _ Hval). intros c Hc.
    rewrite <- (potK_potE kq (le_n _)).
    apply (mid_eval (potK kq) kq r U c (potK_vars kq) HI Hc). intros E.
    rewrite (Afw_zero_reset c Hc E). ring. }
  rewrite Hw. destruct (normalise (map (Wb r) (seq 0 (card q1)))) as [v|]; cbn [rbind]; reflexivity.
Qed.

Lemma bwd_trailing pots l : (forall s, In s l -> s <> S kq) -> forall U ans p,
  exists U' p', fold_left (bwd_step N cards F1 I0 pots [q] ev) l (Ok (U, [], ans, p)) = Ok (U', [], ans, p').
Proof.
  induction l as [|s l IH]; intros Hl U ans p; [do 2 eexists; reflexivity|].
  cbn [fold_left]. rewrite bwd_step_eq. cbv zeta.
  rewrite (has_query_other qn kq s (Hl s (or_introl eq_refl))). rewrite andb_false_r.
  rewrite query_slice_none by (apply has_query_other; apply Hl; left; reflexivity). cbn [rbind]. rewrite app_nil_r.
  apply IH. intros s' Hs'. apply Hl. right. exact Hs'.
Qed.

(* ================= the runs ================= *)
Notation bpq := (bp_query N cards (F1 ++ [potE kq]) q1 (evf (S kq))).
Definition potlist (j : nat) : list F := rev (map potK (seq 0 (S j))).
Lemma potlist_S j : potK (S j) :: potlist j = potlist (S j).
Proof. unfold potlist. rewrite (seq_S (S j) 0), map_app, rev_app_distr. reflexivity. Qed.

Lemma fwd_step_other pot pots ans s : s <> S kq ->
  fwd_step N cards F1 I0 I1 [q] ev (Ok (pot, [], pots, ans)) s =
  Ok (fshift N 0 (joint_marg N cards (F1 ++ [pot]) (evf s) I1), [], fshift N 0 (joint_marg N cards (F1 ++ [pot]) (evf s) I1) :: pots, ans).
Proof.
  intros Hs. unfold fwd_step. cbn [rbind]. fold (evf s).
  rewrite query_slice_none by (apply has_query_other; exact Hs). cbn [rbind].
  rewrite (has_query_other qn kq s Hs). rewrite (in_clique_shift N cards HN I0 I1 HI0lt HI1).
  rewrite (restrict_evf N HN I0 I1 ev HI1 Hev s). cbn [map]. rewrite !app_nil_r. reflexivity.
Qed.

Lemma fwd_foldK j :
  fold_left (fwd_step N cards F1 I0 I1 [q] ev) (seq 1 j) (fwd_init N cards F0 I0 [q] ev) =
  if Nat.ltb j (S kq) then Ok (potK j, [], potlist j, [])
  else match bpq with Some v => Ok (potK j, [], potlist j, [(q, v)]) | None => Err 5 end.
Proof.
  induction j as [|j IH].
  - cbn [seq fold_left Nat.ltb Nat.leb]. unfold fwd_init. fold (ev0 N ev).
    rewrite query_slice_none by (apply has_query_other; lia). cbn [rbind]. rewrite (restrict_ev0 N I0 ev Hev). reflexivity.
  - rewrite seq_S, fold_left_app, IH. cbn [fold_left Nat.add].
    destruct (Nat.ltb_spec j (S kq)) as [Hlt|Hge]; destruct (Nat.ltb_spec (S j) (S kq)) as [Hlt'|Hge']; try lia.
    + rewrite fwd_step_other by lia. rewrite <- potlist_S. cbn [potK]. assert (E : Nat.eqb (S j) (S kq) = false) by (apply Nat.eqb_neq; lia).
      rewrite E. reflexivity.
    + assert (j = kq) by lia. subst j.
      unfold fwd_step. cbn [rbind]. fold (evf (S kq)). rewrite app_nil_r.
      unfold query_slice. cbn [fold_right snd fst]. rewrite Nat.eqb_refl. cbn [rbind].
      rewrite (potK_potE kq (le_n _)).
      destruct bpq as [v|]; cbn [rbind]; [|reflexivity].
      assert (Hq : has_query [q] (S kq) = true) by (unfold has_query; cbn [existsb snd]; rewrite Nat.eqb_refl; reflexivity).
      rewrite Hq. rewrite (in_clique_shift N cards HN I0 I1 HI0lt HI1). cbn [app].
      pose proof (restrict_evf N HN I0 I1 ev HI1 Hev (S kq)) as Hr. rewrite app_nil_r in Hr. rewrite Hr. cbn [map].
      rewrite <- potlist_S. cbn [potK]. rewrite Nat.eqb_refl. reflexivity.
    + destruct bpq as [v|]; [|reflexivity].
      rewrite fwd_step_other by lia. rewrite <- potlist_S. cbn [potK]. assert (E : Nat.eqb (S j) (S kq) = false) by (apply Nat.eqb_neq; lia).
      rewrite E. reflexivity.
Qed.

Lemma time_range_geK : S kq <= time_range [q] ev.
Proof. unfold time_range. cbn [map app fold_right snd]. apply Nat.le_max_l. Qed.

Lemma forward_potentials_K :
  forward_potentials N cards F0 F1 I0 I1 [q] ev =
  match bpq with Some _ => Ok (map potK (seq 0 (S (time_range [q] ev)))) | None => Err 5 end.
Proof.
  unfold forward_potentials, forward_state. rewrite fwd_foldK.
  pose proof time_range_geK as Hge. destruct (Nat.ltb_spec (time_range [q] ev) (S kq)) as [H|H]; [lia|].
  destruct bpq as [v|]; cbn [rbind]; [|reflexivity]. unfold potlist. rewrite rev_involutive. reflexivity.
Qed.

Lemma nth_potK T j : j <= T -> nth j (map potK (seq 0 (S T))) (fone0 N cards) = potK j.
Proof.
  intros Hj. rewrite (nth_indep _ _ (potK 0)) by (rewrite map_length, seq_length; lia).
  rewrite (map_nth potK (seq 0 (S T)) 0 j). rewrite seq_nth by lia. reflexivity.
Qed.

(* (B1) the run of backward_inference: the answer is the normalised forward-backward product
        alpha_{k-1}(I_{k-1}) x transition CPDs of slice k at e_k x beta_k(I_k), summed over everything but the query *)
Theorem backward_run :
  backward_inference N cards F0 F1 I0 I1 [q] ev =
  match bpq with
  | None => Err 5
  | Some _ => match normalise (map (Wb (time_range [q] ev - S kq)) (seq 0 (card q1))) with
              | Some v => Ok [(q, v)]
              | None => Err 5
              end
  end.
Proof.
  unfold backward_inference. rewrite forward_potentials_K. destruct bpq as [v0|]; cbn [rbind]; [|reflexivity].
  pose proof time_range_geK as Hge. remember (time_range [q] ev) as T eqn:ET. set (m := T - S kq).
  set (pots := map potK (seq 0 (S T))).
  assert (Hpots : forall j, j <= T -> nth j pots (fone0 N cards) = potK j) by (intros j Hj; apply nth_potK; exact Hj).
  assert (Hseq : rev (seq 1 T) = rev (seq (S (S kq)) m) ++ [S kq] ++ rev (seq 1 kq)).
  { replace T with (kq + (1 + m)) at 1 by (unfold m; lia). rewrite seq_app, seq_app. cbn [seq].
    rewrite !rev_app_distr. cbn [rev app]. rewrite <- app_assoc. replace (1 + kq + 1) with (S (S kq)) by lia. replace (1 + kq) with (S kq) by lia. reflexivity. }
  rewrite Hseq, !fold_left_app. rewrite (Hpots T (le_n _)).
  assert (HI0' : InvU (S kq + m) 0 (fshift N 1 (potK T))).
  { replace (S kq + m) with T by (unfold m; lia). destruct (fwd_shift_facts T) as [H1 H2].
    split; [exact H1|]. split.
    - unfold fshift, mkF. cbn [fvars]. intros E. apply (f_equal (@length _)) in E. rewrite map_length in E.
      destruct T as [|T']; [lia|]. pose proof (potK_vars_ne T') as Hn. destruct (fvars (potK (S T'))); [contradiction|discriminate].
    - split; [exact H2|]. intros b Hb. cbn [beta_from]. unfold Afw. symmetry. apply (mul_1_r Qc_sum_csr). }
  destruct (bwd_fold_nq pots T m 0 _ Hpots ltac:(unfold m; lia) HI0') as [U1 [E1 HIk]]. rewrite E1.
  cbn [fold_left app]. rewrite (bwd_step_q pots T (0 + m) U1 Hpots Hge HIk). cbn [Nat.add]. fold m.
  destruct (normalise (map (Wb m) (seq 0 (card q1)))) as [v|].
  - destruct (bwd_trailing pots (rev (seq 1 kq)) ltac:(intros s Hs; apply in_rev, in_seq in Hs; lia) (fshift N 1 (joint_marg N cards F1 (evf (S kq)) I0)) [(q, v)] false) as [U2 [p2 E2]].
    match goal with |- rbind ?X _ = _ => replace X with (@Ok (bwd_state) (U2, [], [(q, v)], p2)) by (symmetry; exact E2) end.
    cbn [rbind]. rewrite (has_query_other qn kq 0 ltac:(lia)). rewrite andb_false_r.
    rewrite query_slice_none by (apply has_query_other; lia). cbn [rbind app]. reflexivity.
  - assert (Herr : forall l, fold_left (bwd_step N cards F1 I0 pots [q] ev) l (Err 5) = Err 5).
    { induction l as [|s l IHl]; [reflexivity|]. cbn [fold_left]. unfold bwd_step at 2. cbn [rbind]. exact IHl. }
    rewrite Herr. reflexivity.
Qed.

(* ================= query variable of the LAST slice: smoothing = posterior of the unrolled network ================= *)
Hypothesis Hfull0 : forall n, n < N -> In n (scope_of F0).
Hypothesis Hev_nodup : NoDup (map fst ev).
Hypothesis Hev_T : forall e, In e ev -> snd (fst e) <= S kq.

Lemma Wb0_fvals :
  map (Wb 0) (seq 0 (card q1)) = fvals (joint_marg N cards (F1 ++ [potE kq]) (evf (S kq)) [q1]).
Proof.
  assert (Hpv : forall v, In v (fvars (potE kq)) -> In v I0).
  { intros v Hv. rewrite <- (potK_potE kq (le_n _)) in Hv. eapply potK_vars. exact Hv. }
  assert (Hsc0 : scope_of (F1 ++ [potE kq]) = scope_of F1).
  { apply scope_absorb. intros f v [<-|[]] Hv. apply HI0F1, Hpv. exact Hv. }
  assert (Hsc : NoDup (vminus (scope_of F1) (map fst (evf (S kq)))))
    by (apply NoDup_filter; unfold scope_of; apply NoDup_scope_of; [constructor|exact HndF1]).
  assert (Hin : In q1 (vminus (scope_of F1) (map fst (evf (S kq))))).
  { apply In_vminus. split; [exact Hq1scope|apply (q1_nokey N HN I0 ev Hev qn kq Hqn Hq_noev)]. }
  unfold joint_marg. rewrite Hsc0. rewrite (vinter_single _ _ Hsc Hin). unfold fbuild. cbn [fvals map].
  rewrite t_build_single. apply map_ext_in. intros x Hx. apply in_seq in Hx. cbn [asg_of]. fold Oqb. fold zero_asg.
  assert (Hval : valid card (upd zero_asg q1 x)) by (apply valid_upd; [intros v; apply Hcardpos|lia]).
  unfold Wb. apply (sum_over_ext_valid Qc_sum_csr card Oqb _ _ _ Hval). intros c Hc. cbn [beta_from].
  rewrite eval_prod_app. fold (Tr (S kq) c). unfold RefFactor.eval_prod. cbn [map prod_list fold_right].
  rewrite (feval_I_upds (potE kq)) by (intros v Hv; left; apply Hpv; exact Hv).
  change (Qcmult (feval (potE kq) c) (Qcmult (Tr (S kq) c) (Q2Qc 1)) = Qcmult (Tr (S kq) c) (Qcmult (feval (potE kq) c) (Q2Qc 1))).
  ring.
Qed.

Lemma bpq_is_spec : bpq = spec_smooth N cards F0 F1 (S kq) q ev.
Proof.
  pose proof (forward_run N cards HN F0 F1 I0 I1 ev HI0lt HI1 Hev qn kq Hev_T) as H1.
  pose proof (forward_is_posterior N cards HN F0 F1 I0 I1 ev HndF0 HndF1 HF0lt HF1lt HF1s0 HI0lt HI0F1 HI1 Hev qn kq
                Hev_T Hcardpos Hqn Hq1scope Hq_noev Hfull0 Hfull1 Hev_nodup) as H2.
  rewrite H1 in H2. unfold spec_filter in H2. cbn [snd] in H2.
  rewrite (filter_all _ ev) in H2 by (intros e He; apply Nat.leb_le; apply Hev_T; exact He).
  destruct bpq as [v|]; destruct (spec_smooth N cards F0 F1 (S kq) q ev) as [w|]; try discriminate; [|reflexivity].
  inversion H2. reflexivity.
Qed.

(* (B2) all evidence up to the query's slice T = S kq: backward_inference / query return the posterior of the
        network unrolled to T given all the evidence, and fail (error 5) exactly when P(e) = 0 *)
Theorem backward_last_slice :
  backward_inference N cards F0 F1 I0 I1 [q] ev =
  match spec_smooth N cards F0 F1 (S kq) q ev with
  | Some v => Ok [(q, v)]
  | None => Err 5
  end.
Proof.
  rewrite backward_run.
  assert (HT : time_range [q] ev = S kq).
  { unfold time_range. cbn [map app fold_right snd]. apply Nat.max_l. exact (max_slices_le ev (S kq) Hev_T). }
  rewrite HT, Nat.sub_diag. rewrite Wb0_fvals. fold bpq. rewrite bpq_is_spec.
  destruct (spec_smooth N cards F0 F1 (S kq) q ev); reflexivity.
Qed.
End Bwd.
