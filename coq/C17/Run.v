(* C17 entry points for the extracted driver: sx -> sx *)
From Coq Require Import List Bool Arith ZArith QArith Qcanon.
From PV Require Import Base.Sx Base.Semiring Base.Ravel Base.FinSum Base.RefFactor C17.Model C17.Spec.
Import ListNotations.
Local Open Scope nat_scope.

Definition sx_node : sx -> option node := sx_pair sx_nat sx_nat.
Definition sx_edge : sx -> option edge := sx_pair sx_node sx_node.
Definition of_node : node -> sx := of_pair of_nat of_nat.
Definition of_edge : edge -> sx := of_pair of_node of_node.

(* cpd on the wire: [node; card; parents; parent cards; values; state names] *)
Definition sx_cpd (s : sx) : option cpd :=
  match s with
  | SL [sv; sc; sp; spc; svals; sn] =>
      match sx_node sv, sx_nat sc, sx_list sx_node sp, sx_list sx_nat spc, sx_list sx_Qc svals,
            sx_list (sx_list sx_nat) sn with
      | Some v, Some c, Some p, Some pc, Some vals, Some nm =>
          Some {| cvar := v; ccard := c; cpars := p; cpcards := pc; cvals := vals; cnames := nm |}
      | _, _, _, _, _, _ => None
      end
  | _ => None
  end.
Definition of_cpd (c : cpd) : sx :=
  SL [of_node (cvar c); of_nat (ccard c); of_list of_node (cpars c); of_list of_nat (cpcards c);
      of_list of_Qc (cvals c); of_list (of_list of_nat) (cnames c)].

Definition of_res {A} (e : A -> sx) (r : res A) : sx :=
  match r with Ok a => sx_ok (e a) | Err c => sx_err (Z.of_nat c) end.

(* [names; edges] -> [nodes; edges; intra(0); inter; interface(0); interface(1)] *)
Definition run_c17_graph (s : sx) : sx :=
  match s with
  | SL [sn; se] =>
      match sx_list sx_nat sn, sx_list sx_edge se with
      | Some ns, Some es =>
          of_res (fun g => SL [of_list of_node (gnodes g); of_list of_edge (gedges g);
                               of_list of_edge (get_intra_edges g 0); of_list of_edge (get_inter_edges g);
                               of_list of_node (get_interface_nodes g 0);
                               of_list of_node (get_interface_nodes g 1)])
                 (build_graph ns es)
      | _, _ => bad_request
      end
  | _ => bad_request
  end.

(* [names; edges; cpds] -> cpds after initialize_initial_state *)
Definition run_c17_init (s : sx) : sx :=
  match s with
  | SL [sn; se; sc] =>
      match sx_list sx_nat sn, sx_list sx_edge se, sx_list sx_cpd sc with
      | Some ns, Some es, Some cs =>
          of_res (of_list of_cpd) (rbind (build_graph ns es) (fun g => initialize_initial_state g cs))
      | _, _, _ => bad_request
      end
  | _ => bad_request
  end.

(* [names; edges; cpds; t_slice] -> [edges; cpds] of get_constant_bn *)
Definition run_c17_constbn (s : sx) : sx :=
  match s with
  | SL [sn; se; sc; sk] =>
      match sx_list sx_nat sn, sx_list sx_edge se, sx_list sx_cpd sc, sx_nat sk with
      | Some ns, Some es, Some cs, Some k =>
          of_res (fun p => SL [of_list of_edge (fst p); of_list of_cpd (snd p)])
                 (rbind (build_graph ns es) (fun g => get_constant_bn g cs k))
      | _, _, _, _ => bad_request
      end
  | _ => bad_request
  end.

Definition of_answers (a : answers) : sx := of_list (of_pair of_node (of_list of_Qc)) a.
Definition sx_evidence : sx -> option evidence := sx_list (sx_pair sx_node sx_nat).

(* [N; cards; edges; cpds; queries; evidence; mode]  mode 0 = forward_inference, 1 = backward_inference/query
   -> [[node; values] ...] *)
Definition run_c17_infer (s : sx) : sx :=
  match s with
  | SL [sN; scards; se; sc; sq; sev; sm] =>
      match sx_nat sN, sx_list sx_nat scards, sx_list sx_edge se, sx_list sx_cpd sc,
            sx_list sx_node sq, sx_evidence sev, sx_nat sm with
      | Some N, Some cards, Some es, Some cs, Some qs, Some ev, Some mode =>
          of_res of_answers (dbn_infer N cards es cs qs ev (negb (Nat.eqb mode 0)))
      | _, _, _, _, _, _, _ => bad_request
      end
  | _ => bad_request
  end.

(* [N; cards; cpds; T; query node; evidence; mode]  mode 0 = filtering, 1 = smoothing -> values (brute force) *)
Definition run_c17_spec (s : sx) : sx :=
  match s with
  | SL [sN; scards; sc; sT; sq; sev; sm] =>
      match sx_nat sN, sx_list sx_nat scards, sx_list sx_cpd sc, sx_nat sT, sx_node sq, sx_evidence sev,
            sx_nat sm with
      | Some N, Some cards, Some cs, Some T, Some q, Some ev, Some mode =>
          let names := seq 0 N in
          let F0 := map (factor_of N) (slice_cpds names cs 0) in
          let F1 := map (factor_of N) (slice_cpds names cs 1) in
          match (if Nat.eqb mode 0 then spec_filter N cards F0 F1 T q ev else spec_smooth N cards F0 F1 T q ev) with
          | Some v => sx_ok (of_list of_Qc v)
          | None => sx_err 5
          end
      | _, _, _, _, _, _, _ => bad_request
      end
  | _ => bad_request
  end.

(* [N; cards; edges; cpds; queries; evidence] -> potential_dict of forward_inference(..., "potential") as
   [[scope nodes; values] ...] for slices 0..T *)
Definition run_c17_potentials (s : sx) : sx :=
  match s with
  | SL [sN; scards; se; sc; sq; sev] =>
      match sx_nat sN, sx_list sx_nat scards, sx_list sx_edge se, sx_list sx_cpd sc,
            sx_list sx_node sq, sx_evidence sev with
      | Some N, Some cards, Some es, Some cs, Some qs, Some ev =>
          of_res (of_list (fun f : factor Qc_sum_csr => SL [of_list (fun v => of_node (v mod N, v / N)) (fvars f);
                                        of_list of_Qc (fvals f)]))
                 (dbn_potentials N cards es cs qs ev)
      | _, _, _, _, _, _ => bad_request
      end
  | _ => bad_request
  end.

(* [names; edges] -> [all accepted?; nodes; edges] after add_edges_from stopped at the first rejected edge *)
Definition run_c17_graph_partial (s : sx) : sx :=
  match s with
  | SL [sn; se] =>
      match sx_list sx_nat sn, sx_list sx_edge se with
      | Some ns, Some es =>
          let r := dbn_add_edges_partial (dbn_add_names {| gnodes := []; gedges := [] |} ns) es in
          sx_ok (SL [of_bool (snd r); of_list of_node (gnodes (fst r)); of_list of_edge (gedges (fst r))])
      | _, _ => bad_request
      end
  | _ => bad_request
  end.
