(* C17 model: pgmpy's DynamicBayesianNetwork (2-TBN template bookkeeping) and DBNInference (interface
   algorithm) AS CODED, at factor-algebra level: every BeliefPropagation call is replaced by its
   specification (normalised marginal of the product of the junction tree's factors, reduced by the
   evidence).  No proofs here.

   Nodes are (name, slice) pairs; names are interned 0..N-1 by the harness.  For the inference part a
   node (n, t) is the variable  t * N + n  of the reference factor algebra (coq/Base/RefFactor.v). *)
From Coq Require Import List Arith Bool PeanoNat QArith Qcanon.
From PV Require Import Base.Semiring Base.Ravel Base.FinSum Base.RefFactor.
Import ListNotations.
Local Open Scope nat_scope.

(* ------------------------------------------------------------------ result type with error codes *)
Inductive res (A : Type) : Type := Ok (a : A) | Err (code : nat).
Arguments Ok {A} a. Arguments Err {A} code.
Definition rbind {A B} (r : res A) (f : A -> res B) : res B :=
  match r with Ok a => f a | Err c => Err c end.

(* error codes (the harness maps pgmpy's exceptions to the same enums)
   1  ValueError/TypeError raised while building a TabularCPD in initialize_initial_state
   2  get_constant_bn: CPD on a node that is no endpoint of any edge (BayesianNetwork.add_cpds raises);
      initialize_initial_state: the mirror node is not in the graph (NetworkXError)
   3  DBNInference.__init__: a name without intra-slice edge ("CPD defined on variable not in the model")
   4  _update_belief: potential's scope is not inside the in-clique ("Factors defined on clusters ...")
   5  normalising constant is zero (pgmpy returns nan)
   6  backward pass divided a non-zero message entry by a zero forward-potential entry (pgmpy: inf/nan) and a query is
      asked in that or an earlier slice
   8  a query variable is also an evidence variable (ValueError from BeliefPropagation.query)
   9  empty list of query variables (ValueError from max())
   7  add_edge rejects the edge (self loop, backward edge, edge over several slices) *)

(* ------------------------------------------------------------------ nodes, graph bookkeeping *)
Definition node := (nat * nat)%type.
Definition node_eqb (a b : node) : bool := Nat.eqb (fst a) (fst b) && Nat.eqb (snd a) (snd b).
Definition memnode (x : node) (l : list node) : bool := existsb (node_eqb x) l.
Definition edge := (node * node)%type.
Definition edge_eqb (a b : edge) : bool := node_eqb (fst a) (fst b) && node_eqb (snd a) (snd b).

(* networkx DiGraph: nodes and edges in insertion order; re-adding is a no-op *)
Record dgraph := { gnodes : list node; gedges : list edge }.
Definition g_add_node (g : dgraph) (x : node) : dgraph :=
  if memnode x (gnodes g) then g else {| gnodes := gnodes g ++ [x]; gedges := gedges g |}.
Definition g_add_edge (g : dgraph) (u v : node) : dgraph :=
  let g1 := g_add_node (g_add_node g u) v in
  if existsb (edge_eqb (u, v)) (gedges g1) then g1
  else {| gnodes := gnodes g1; gedges := gedges g1 ++ [(u, v)] |}.

(* DynamicBayesianNetwork.add_edge: normalise the slices to 0/1, mirror intra edges into the other
   slice, add the slice-0 copy of the head of an inter edge.  (The has_path loop check is not modelled:
   the harness only feeds acyclic templates.) *)
Definition dbn_add_edge (g : dgraph) (e : edge) : res dgraph :=
  let '((sn, ss), (en, es)) := e in
  if Nat.eqb ss es then
    if Nat.eqb sn en then Err 7
    else Ok (g_add_edge (g_add_edge g (sn, 0) (en, 0)) (sn, 1) (en, 1))
  else if Nat.eqb (S ss) es then
    Ok (g_add_node (g_add_edge g (sn, 0) (en, 1)) (en, 0))
  else Err 7.
Definition dbn_add_edges (g : dgraph) (es : list edge) : res dgraph :=
  fold_left (fun r e => rbind r (fun g' => dbn_add_edge g' e)) es (Ok g).
(* add_edges_from stops at the first rejected edge; the edges before it stay in the graph *)
Fixpoint dbn_add_edges_partial (g : dgraph) (es : list edge) : dgraph * bool :=
  match es with
  | [] => (g, true)
  | e :: r => match dbn_add_edge g e with
              | Ok g' => dbn_add_edges_partial g' r
              | Err _ => (g, false)
              end
  end.
(* add_node(name) adds (name, 0) *)
Definition dbn_add_names (g : dgraph) (ns : list nat) : dgraph :=
  fold_left (fun g' n => g_add_node g' (n, 0)) ns g.

Definition parents (g : dgraph) (x : node) : list node :=
  map fst (filter (fun e => node_eqb (snd e) x) (gedges g)).
Definition get_intra_edges (g : dgraph) (t : nat) : list edge :=
  map (fun e => ((fst (fst e), t), (fst (snd e), t)))
      (filter (fun e => Nat.eqb (snd (fst e)) 0 && Nat.eqb (snd (snd e)) 0) (gedges g)).
Definition get_inter_edges (g : dgraph) : list edge :=
  filter (fun e => negb (Nat.eqb (snd (fst e)) (snd (snd e)))) (gedges g).
(* edge[time_slice]: tails (slice 0) for 0, heads (slice 1) for 1 *)
Definition get_interface_nodes (g : dgraph) (t : nat) : list node :=
  map (fun e => if Nat.eqb t 0 then fst e else snd e) (get_inter_edges g).
Definition names_of (g : dgraph) : list nat :=
  fold_left (fun acc x => if existsb (Nat.eqb (fst x)) acc then acc else acc ++ [fst x]) (gnodes g) [].

(* ------------------------------------------------------------------ CPDs as records *)
(* cvals: flat row-major table over [cvar] ++ cpars with cardinalities [ccard] ++ cpcards
   (TabularCPD.values raveled; get_values()/the constructor only reshape, which keeps this order).
   cnames: state names of [cvar] ++ cpars. *)
Record cpd := { cvar : node; ccard : nat; cpars : list node; cpcards : list nat;
                cvals : list Qc; cnames : list (list nat) }.
Definition default_names (cs : list nat) : list (list nat) := map (seq 0) cs.
Definition has_cpd (cs : list cpd) (x : node) : bool := existsb (fun c => node_eqb (cvar c) x) cs.
Definition find_cpd (cs : list cpd) (x : node) : option cpd := find (fun c => node_eqb (cvar c) x) cs.

(* named-assignment semantics of a CPD table *)
Definition cpd_eval (c : cpd) (a : node -> nat) : Qc :=
  t_get Qc (Q2Qc 0) (ccard c :: cpcards c) (cvals c) (map a (cvar c :: cpars c)).

Definition flip (x : node) : node := (fst x, 1 - snd x).

Definition Qc_sum (l : list Qc) : Qc := fold_right Qcplus (Q2Qc 0) l.
(* TabularCPD.marginalize(all evidence): row sums, then normalise *)
Fixpoint chunks (k : nat) (n : nat) (l : list Qc) : list (list Qc) :=
  match n with 0 => [] | S n' => firstn k l :: chunks k n' (skipn k l) end.
Definition marg_norm (c : cpd) : list Qc :=
  let rows := map Qc_sum (chunks (prod (cpcards c)) (ccard c) (cvals c)) in
  let z := Qc_sum rows in map (fun x => Qcdiv x z) rows.

Definition same_nodes (a b : list node) : bool :=
  forallb (fun x => memnode x b) a && forallb (fun x => memnode x a) b.

(* one iteration of the loop of initialize_initial_state, as coded *)
Definition init_step (g : dgraph) (acc : res (list cpd)) (c : cpd) : res (list cpd) :=
  rbind acc (fun cs =>
    let tv := flip (cvar c) in
    let ps := parents g tv in
    (* self.get_parents(temp_var) raises NetworkXError when the mirror node does not exist (a variable
       without any edge only has its slice-0 node) *)
    if negb (memnode tv (gnodes g)) then Err 2 else
    if has_cpd cs tv then Ok cs
    else if forallb (fun x => Nat.eqb (snd x) (snd (hd (0, 0) ps))) ps then
      match ps with
      | _ :: _ =>
          (* the table keeps its own parent order when the mirrored CPD parents are the graph parents as a
             set (else graph order); TabularCPD(temp_var, card, values.reshape(card, prod(evidence_card)),
             parents, evidence_card) with evidence_card = the original cpd's cardinalities *)
          let mirrored := map flip (cpars c) in
          let ps' := if same_nodes mirrored ps then mirrored else ps in
          if Nat.eqb (length ps') (length (cpcards c))
          then Ok (cs ++ [{| cvar := tv; ccard := ccard c; cpars := ps'; cpcards := cpcards c;
                             cvals := cvals c; cnames := default_names (ccard c :: cpcards c) |}])
          else Err 1
      | [] =>
          let vals := match cpars c with [] => cvals c | _ :: _ => marg_norm c end in
          (* np.reshape(values, (variable_card, -1)) *)
          Ok (cs ++ [{| cvar := tv; ccard := ccard c; cpars := []; cpcards := [];
                        cvals := vals; cnames := default_names [ccard c] |}])
      end
    else Ok cs).
(* `for cpd in self.cpds` also visits the CPDs appended meanwhile; for those the mirror exists already,
   so iterating over the original list is the same *)
Definition initialize_initial_state (g : dgraph) (cs : list cpd) : res (list cpd) :=
  fold_left (init_step g) cs (Ok cs).

(* get_constant_bn(t_slice): rename (n, s) to "n_(s+t_slice)", keep tables, lose state names *)
Definition rename_node (k : nat) (x : node) : node := (fst x, snd x + k).
Definition const_cpd (k : nat) (c : cpd) : cpd :=
  {| cvar := rename_node k (cvar c); ccard := ccard c; cpars := map (rename_node k) (cpars c);
     cpcards := cpcards c; cvals := cvals c; cnames := default_names (ccard c :: cpcards c) |}.
Definition is_endpoint (g : dgraph) (x : node) : bool :=
  existsb (fun e => node_eqb (fst e) x || node_eqb (snd e) x) (gedges g).
Definition get_constant_bn (g : dgraph) (cs : list cpd) (k : nat) : res (list edge * list cpd) :=
  if forallb (fun c => is_endpoint g (cvar c)) cs
  then Ok (map (fun e => (rename_node k (fst e), rename_node k (snd e))) (gedges g), map (const_cpd k) cs)
  else Err 2.

(* ------------------------------------------------------------------ inference *)
Section Infer.
Variable N : nat.              (* number of names *)
Variable cards : list nat.     (* cardinality of each name *)
Definition card (v : var) : nat := nth (v mod N) cards 0.
Definition enc (x : node) : var := snd x * N + fst x.
Definition reslice (s : nat) (v : var) : var := s * N + v mod N.

Notation F := (factor Qc_sum_csr).
Definition mkF (vs : list var) (vals : list Qc) : F := Build_factor Qc_sum_csr vs vals.
Definition factor_of (c : cpd) : F := mkF (map enc (cvar c :: cpars c)) (cvals c).
(* _shift_factor: same cardinalities and values, scope moved to slice s *)
Definition fshift (s : nat) (f : F) : F := mkF (map (reslice s) (fvars f)) (fvals f).
(* move a factor k slices forward (used by unrolling) *)
Definition fforward (k : nat) (f : F) : F := mkF (map (fun v => v + k * N) (fvars f)) (fvals f).

Definition evidence := list (node * nat).
(* _get_evidence(evidence, time_slice, shift) *)
Definition get_ev (ev : evidence) (t sh : nat) : list (var * nat) :=
  map (fun e => (enc (fst (fst e), sh), snd e)) (filter (fun e => Nat.eqb (snd (fst e)) t) ev).
Definition restrict (ev : list (var * nat)) (S : list var) : list (var * nat) :=
  filter (fun p => memv (fst p) S) ev.

(* _marginalize_factor(nodes, _get_factor(bp, evidence)): the product of all factors of the junction
   tree, reduced by the evidence, with everything outside S summed out.  Defined pointwise (the full
   product table is never materialised): scope = the product's scope minus the evidence variables,
   restricted to S; value = sum over the other variables of the product at the evidence-overridden
   assignment. *)
Definition scope_of (fs : list F) : list var := fold_left (fun acc f => vunion acc (fvars f)) fs [].
Definition joint_marg (fs : list F) (ev : list (var * nat)) (S : list var) : F :=
  let scope := vminus (scope_of fs) (map fst ev) in
  let others := vminus scope S in
  fbuild Qc_sum_csr card (vinter scope S)
    (sum_over (R := Qc_sum_csr) others (map card others)
       (fun b => eval_prod Qc_sum_csr card fs (upds b ev))).

Definition normalise (l : list Qc) : option (list Qc) :=
  let z := Qc_sum l in if Qc_eq_dec z (Q2Qc 0) then None else Some (map (fun x => Qcdiv x z) l).
(* specification of BeliefPropagation(jt).query([q], evidence, joint=False)[q] *)
Definition bp_query (fs : list F) (q : var) (ev : list (var * nat)) : option (list Qc) :=
  normalise (fvals (joint_marg fs ev [q])).

(* pointwise quotient (pgmpy: 0/0 = 0; Qc: x/0 = 0) over the union scope *)
Definition fdiv (f g : F) : F :=
  fbuild Qc_sum_csr card (vunion (fvars f) (fvars g)) (fun a => Qcdiv (feval Qc_sum_csr card f a : Qc) (feval Qc_sum_csr card g a : Qc) : Qc_sum_csr).

Variable F0 : list F.          (* CPD factors of the start network (slice 0) *)
Variable F1 : list F.          (* CPD factors of the 1.5-slice network (slice-1 CPDs) *)
Variable I0 : list var.        (* get_interface_nodes(0): tails of inter edges, at slice 0 *)
Variable I1 : list var.        (* get_interface_nodes(1): heads of inter edges, at slice 1 *)

Definition queries := list node.
Definition answers := list (node * list Qc).

Definition in_clique_ok (f : F) : bool := forallb (fun v => memv v I0) (fvars f).

Definition has_query (qs : queries) (t : nat) : bool := existsb (fun q => Nat.eqb (snd q) t) qs.
Definition query_slice (fs : list F) (qs : queries) (t sh : nat) (ev : list (var * nat)) : res answers :=
  fold_right (fun q r =>
      if Nat.eqb (snd q) t then
        rbind r (fun l => match bp_query fs (enc (fst q, sh)) ev with
                          | Some v => Ok ((q, v) :: l) | None => Err 5 end)
      else r) (Ok []) qs.

(* forward_inference: state after slice t = (potential in the in-clique, interface evidence carried to
   the next slice, potentials so far (newest first), answers so far) *)
Definition fwd_state := (F * list (var * nat) * list F * answers)%type.

Definition fwd_init (qs : queries) (ev : evidence) : res fwd_state :=
  let ev0 := get_ev ev 0 0 in
  let idict := restrict ev0 I0 in
  let pot0 := joint_marg F0 ev0 I0 in
  rbind (query_slice F0 qs 0 0 ev0) (fun ans => Ok (pot0, idict, [pot0], ans)).

Definition fwd_step (qs : queries) (ev : evidence) (st : res fwd_state) (t : nat) : res fwd_state :=
  rbind st (fun '(pot, idict, pots, ans) =>
    let ev_t := get_ev ev t 1 ++ idict in
    let mid := F1 ++ [pot] in
    rbind (query_slice mid qs t 1 ev_t) (fun ans_t =>
      (* BeliefPropagation.query ends with self.__init__(orig_model): after a query in this slice the
         engine's junction tree is the pristine one again, WITHOUT the incoming potential *)
      let mid' := if has_query qs t then F1 else mid in
      let out := joint_marg mid' ev_t I1 in
      let newf := fshift 0 out in
      if in_clique_ok newf then
        (* {(k[0], 0): v for k, v in evidence_time.items() if k in interface_nodes_1} *)
        let idict' := map (fun p => (reslice 0 (fst p), snd p)) (restrict ev_t I1) in
        Ok (newf, idict', newf :: pots, ans ++ ans_t)
      else Err 4)).

Definition time_range (qs : queries) (ev : evidence) : nat :=
  fold_right Nat.max 0 (map snd qs ++ map (fun e => snd (fst e)) ev).

Definition forward_state (qs : queries) (ev : evidence) : res fwd_state :=
  fold_left (fwd_step qs ev) (seq 1 (time_range qs ev)) (fwd_init qs ev).
Definition forward_inference (qs : queries) (ev : evidence) : res answers :=
  rbind (forward_state qs ev) (fun '(_, _, _, ans) => Ok ans).
(* potential_dict as the list [pot_0; ...; pot_T] *)
Definition forward_potentials (qs : queries) (ev : evidence) : res (list F) :=
  rbind (forward_state qs ev) (fun '(_, _, pots, _) => Ok (rev pots)).

(* _update_belief(bp, clique, clique_potential, message): the clique's factor becomes
   old * message / clique_potential when both scopes are non-empty, else stays *)
Definition ratio_factors (message clique_potential : F) : list F :=
  match fvars message, fvars clique_potential with
  | _ :: _, _ :: _ => [fdiv message clique_potential]
  | _, _ => []
  end.

(* numpy divides: 0/0 is repaired to 0 but x/0 (x <> 0) is inf and poisons the answers with inf/nan.  That cannot
   happen where the backward message is a marginal of (forward potential x ...); it does happen on the inputs of the
   open findings (engine reset, interface evidence).  The model reports it as error 6 instead of inventing a value
   (sufficient condition: the clique's own factor is not looked at). *)
Definition ratio_finite (message clique_potential : F) : bool :=
  match fvars message, fvars clique_potential with
  | _ :: _, _ :: _ =>
      forallb (fun x => if Qc_eq_dec x (Q2Qc 0) then true else false)
        (fvals (fbuild Qc_sum_csr card (vunion (fvars message) (fvars clique_potential))
                  (fun a => if Qc_eq_dec (feval Qc_sum_csr card clique_potential a : Qc) (Q2Qc 0)
                            then (feval Qc_sum_csr card message a : Qc_sum_csr) else (Q2Qc 0 : Qc_sum_csr))))
  | _, _ => true
  end.

(* backward_inference (= query): state = (update_factor at slice 1, interface evidence dict, answers, poisoned).
   poisoned: some ratio so far divided a non-zero entry by zero, so the engine's tables hold inf/nan from there on;
   pgmpy only shows that in the answers of queries asked in the remaining (earlier) slices: error 6 there; a run
   that asks nothing more ends normally. *)
Definition bwd_state := (F * list (var * nat) * answers * bool)%type.
Definition fone0 : F := fone Qc_sum_csr card.

Definition bwd_step (pots : list F) (qs : queries) (ev : evidence) (st : res bwd_state) (t : nat)
  : res bwd_state :=
  rbind st (fun '(upd_f, idict, ans, poisoned) =>
    let ev_t0 := get_ev ev t 1 in
    let ev_prev := get_ev ev (t - 1) 0 in
    (* `if evidence_prev_time:` -- the dict is only replaced when slice t-1 has evidence *)
    let idict' := match ev_prev with [] => idict | _ :: _ => restrict ev_prev I0 end in
    (* `if evidence_time:` -- interface evidence only joins a non-empty evidence_time *)
    let ev_t := match ev_t0 with [] => [] | _ :: _ => ev_t0 ++ idict' end in
    let fwd_f := fshift 1 (nth t pots fone0) in
    let mid := F1 ++ [nth (t - 1) pots fone0] ++ ratio_factors upd_f fwd_f in
    let poisoned' := poisoned || negb (ratio_finite upd_f fwd_f) in
    if poisoned' && has_query qs t then Err 6 else
    rbind (query_slice mid qs t 1 ev_t) (fun ans_t =>
      let mid' := if has_query qs t then F1 else mid in   (* same reset as in the forward pass *)
      let inphi := joint_marg mid' ev_t I0 in
      Ok (fshift 1 inphi, idict', ans ++ ans_t, poisoned'))).

Definition backward_inference (qs : queries) (ev : evidence) : res answers :=
  rbind (forward_potentials qs ev) (fun pots =>
    let T := time_range qs ev in
    let st0 : res bwd_state := Ok (fshift 1 (nth T pots fone0), [], [], false) in
    rbind (fold_left (bwd_step pots qs ev) (rev (seq 1 T)) st0) (fun '(upd_f, _, ans, poisoned) =>
      let out := fshift 0 upd_f in
      let pot0 := nth 0 pots fone0 in
      let fs := F0 ++ ratio_factors out pot0 in
      if (poisoned || negb (ratio_finite out pot0)) && has_query qs 0 then Err 6 else
      rbind (query_slice fs qs 0 0 (get_ev ev 0 0)) (fun ans0 => Ok (ans ++ ans0)))).

(* unrolled network: slice-0 CPDs, then the transition CPDs moved to slices (t-1, t) for t = 1..T *)
Definition unroll (T : nat) : list F :=
  F0 ++ flat_map (fun t => map (fforward (t - 1)) F1) (seq 1 T).
End Infer.

(* assembling the inference inputs from a DBN as DBNInference.__init__ does *)
Definition slice_cpds (names : list nat) (cs : list cpd) (t : nat) : list cpd :=
  flat_map (fun n => match find_cpd cs (n, t) with Some c => [c] | None => [] end) names.
(* every name must be an endpoint of some intra-slice edge, else BayesianNetwork.add_cpds raises *)
Definition init_ok (g : dgraph) (names : list nat) : bool :=
  forallb (fun n => existsb (fun e => Nat.eqb (fst (fst e)) n || Nat.eqb (fst (snd e)) n)
                            (get_intra_edges g 0)) names.

Definition build_graph (names : list nat) (es : list edge) : res dgraph :=
  dbn_add_edges (dbn_add_names {| gnodes := []; gedges := [] |} names) es.

(* DBNInference(dbn).forward_inference (smooth = false) / .backward_inference = .query (smooth = true) *)
Definition dbn_infer (N : nat) (cards : list nat) (es : list edge) (cs : list cpd)
                     (qs : queries) (ev : evidence) (smooth : bool) : res answers :=
  let names := seq 0 N in
  rbind (build_graph names es) (fun g =>
    if init_ok g names then
      (* max(variable_dict) of an empty query list raises ValueError; a query variable that is also observed is
         rejected by BeliefPropagation.query (ValueError) in the slice where it is asked *)
      if Nat.eqb (length qs) 0 then Err 9 else
      if existsb (fun q => existsb (fun e => node_eqb q (fst e)) ev) qs then Err 8 else
      let F0 := map (factor_of N) (slice_cpds names cs 0) in
      let F1 := map (factor_of N) (slice_cpds names cs 1) in
      let I0 := map (enc N) (get_interface_nodes g 0) in
      let I1 := map (enc N) (get_interface_nodes g 1) in
      if smooth then backward_inference N cards F0 F1 I0 I1 qs ev
      else forward_inference N cards F0 F1 I0 I1 qs ev
    else Err 3).

(* forward_inference(variables, evidence, "potential"): the interface potentials [pot_0; ...; pot_T] *)
Definition dbn_potentials (N : nat) (cards : list nat) (es : list edge) (cs : list cpd)
                          (qs : queries) (ev : evidence) : res (list (factor Qc_sum_csr)) :=
  let names := seq 0 N in
  rbind (build_graph names es) (fun g =>
    if init_ok g names then
      if Nat.eqb (length qs) 0 then Err 9 else
      if existsb (fun q => existsb (fun e => node_eqb q (fst e)) ev) qs then Err 8 else
      forward_potentials N cards (map (factor_of N) (slice_cpds names cs 0)) (map (factor_of N) (slice_cpds names cs 1))
                         (map (enc N) (get_interface_nodes g 0)) (map (enc N) (get_interface_nodes g 1)) qs ev
    else Err 3).

(* ------------------------------------------------------------------ sessions (one engine, several questions)
   A DBNInference object keeps, between calls, only what __init__ built from the template: the start and
   1.5-slice junction trees, the interface node lists and the three cliques.  forward_inference and
   backward_inference create fresh BeliefPropagation engines (deep copies of those trees) on every call and
   never assign to self.  So the engine is a state machine whose state is not changed by a question, and the
   model answer for the k-th question of a session is the single-question answer; harness/c17.py's session
   stream checks exactly that against pgmpy (any memoisation keyed on less than the full question shows up there). *)
Record engine := { e_N : nat; e_cards : list nat; e_edges : list edge; e_cpds : list cpd }.
Record question := { q_vars : queries; q_ev : evidence; q_smooth : bool }.
Definition answer (e : engine) (q : question) : res answers :=
  dbn_infer (e_N e) (e_cards e) (e_edges e) (e_cpds e) (q_vars q) (q_ev q) (q_smooth q).
(* one call: new state, answer *)
Definition engine_ask (e : engine) (q : question) : engine * res answers := (e, answer e q).
Fixpoint session (e : engine) (qs : list question) : list (res answers) :=
  match qs with
  | [] => []
  | q :: r => let (e', a) := engine_ask e q in a :: session e' r
  end.
