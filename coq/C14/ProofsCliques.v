(* C14: the brute-force enumerator all_max_cliques lists exactly the maximal cliques (max_cliques_of), and a
   verified checker accepts any other listing of them (nx.find_cliques' output, in its own order). *)
From Coq Require Import List Bool Arith Lia PeanoNat.
From PV Require Import Base.Reach Base.Graph C14.UGraph C14.Model C14.Spec C14.ProofsJT C14.ProofsRIP.
Import ListNotations.

(* ---- sublists ----------------------------------------------------------------------------- *)
Lemma sublists_incl U : forall K, In K (sublists U) -> incl K U.
Proof.
  induction U as [|x r IH]; intros K HK.
  - destruct HK as [<-|[]]. intros y [].
  - cbn [sublists] in HK. apply in_app_or in HK. destruct HK as [HK|HK].
    + apply in_map_iff in HK. destruct HK as [K' [<- HK']]. intros y [<-|Hy]; [left; reflexivity|right; apply (IH K' HK'); exact Hy].
    + intros y Hy. right. apply (IH K HK). exact Hy.
Qed.
Lemma sublists_NoDup_mem U : NoDup U -> forall K, In K (sublists U) -> NoDup K.
Proof.
  induction U as [|x r IH]; intros Hn K HK.
  - destruct HK as [<-|[]]. constructor.
  - inversion Hn as [|? ? Hx Hr]; subst. cbn [sublists] in HK. apply in_app_or in HK. destruct HK as [HK|HK].
    + apply in_map_iff in HK. destruct HK as [K' [<- HK']]. constructor; [|apply IH; assumption].
      intros Hc. apply Hx. apply (sublists_incl r K' HK'). exact Hc.
    + apply IH; assumption.
Qed.
Lemma filter_in_sublists (p : node -> bool) U : In (filter p U) (sublists U).
Proof.
  induction U as [|x r IH]; [left; reflexivity|]. cbn [sublists filter]. apply in_or_app. destruct (p x).
  - left. apply in_map. exact IH.
  - right. exact IH.
Qed.
Lemma sublists_NoDup U : NoDup U -> NoDup (sublists U).
Proof.
  induction U as [|x r IH]; intros Hn; [constructor; [intros []|constructor]|].
  inversion Hn as [|? ? Hx Hr]; subst. cbn [sublists]. apply RefFactor.NoDup_app_disj.
  - apply FinFun.Injective_map_NoDup; [intros a b H; inversion H; reflexivity|apply IH; exact Hr].
  - apply IH; exact Hr.
  - intros K HK HK'. apply in_map_iff in HK. destruct HK as [K' [<- _]].
    apply Hx. apply (sublists_incl r _ HK'). left. reflexivity.
Qed.
(* sublists of a duplicate-free list with the same elements are the same list *)
Lemma sublists_same_set U : NoDup U -> forall K1 K2, In K1 (sublists U) -> In K2 (sublists U) ->
  (forall y, In y K1 <-> In y K2) -> K1 = K2.
Proof.
  induction U as [|x r IH]; intros Hn K1 K2 H1 H2 Hs.
  - destruct H1 as [<-|[]], H2 as [<-|[]]. reflexivity.
  - inversion Hn as [|? ? Hx Hr]; subst. cbn [sublists] in H1, H2. apply in_app_or in H1, H2.
    destruct H1 as [H1|H1], H2 as [H2|H2].
    + apply in_map_iff in H1, H2. destruct H1 as [A [<- HA]], H2 as [B [<- HB]]. f_equal.
      apply (IH Hr A B HA HB). intros y.
      assert (HxA : ~ In x A) by (intros Hc; apply Hx; apply (sublists_incl r A HA); exact Hc).
      assert (HxB : ~ In x B) by (intros Hc; apply Hx; apply (sublists_incl r B HB); exact Hc).
      split; intros Hy.
      * destruct (proj1 (Hs y) (or_intror Hy)) as [<-|H]; [contradiction|exact H].
      * destruct (proj2 (Hs y) (or_intror Hy)) as [<-|H]; [contradiction|exact H].
    + exfalso. apply in_map_iff in H1. destruct H1 as [A [<- _]].
      apply Hx. apply (sublists_incl r K2 H2). apply Hs. left. reflexivity.
    + exfalso. apply in_map_iff in H2. destruct H2 as [B [<- _]].
      apply Hx. apply (sublists_incl r K1 H1). apply Hs. left. reflexivity.
    + apply (IH Hr); assumption.
Qed.

(* ---- maximality test ------------------------------------------------------------------------ *)
Definition maxb (E : list uedge) (U K : list node) : bool :=
  forallb (fun x => memn x K || negb (forallb (fun y => adjb E x y) K)) U.
Lemma max_cliques_in_unfold E U :
  max_cliques_in E U = filter (fun K => is_cliqueb E K && maxb E U K) (sublists U).
Proof. reflexivity. Qed.

Lemma maxb_spec E U K : maxb E U K = true <->
  forall x, In x U -> ~ In x K -> exists y, In y K /\ ~ Adj E x y.
Proof.
  unfold maxb. rewrite forallb_forall. split.
  - intros H x Hx HxK. specialize (H x Hx). apply orb_true_iff in H. destruct H as [H|H]; [apply memn_In in H; contradiction|].
    apply negb_true_iff in H. apply forallb_false_ex in H. destruct H as [y [Hy Ha]]. exists y. split; [exact Hy|].
    apply adjb_false. exact Ha.
  - intros H x Hx. destruct (memn x K) eqn:Em; [reflexivity|]. cbn [orb]. apply negb_true_iff.
    apply memn_false in Em. destruct (H x Hx Em) as [y [Hy Ha]].
    destruct (forallb (fun y0 => adjb E x y0) K) eqn:Ef; [|reflexivity].
    rewrite forallb_forall in Ef. specialize (Ef y Hy). apply adjb_Adj in Ef. contradiction.
Qed.

(* every clique extends to a maximal one *)
Lemma extend_to_max E U : NoDup U -> forall d K, clique_in E U K -> length U = length K + d ->
  exists M, clique_in E U M /\ incl K M /\ maxb E U M = true.
Proof.
  intros HU. induction d as [|d IH]; intros K HK Hl.
  - exists K. split; [exact HK|]. split; [intros x Hx; exact Hx|]. apply maxb_spec. intros x Hx HxK. exfalso.
    destruct HK as (Hn & Hi & _).
    assert (Hn' : NoDup (x :: K)) by (constructor; assumption).
    assert (Hi' : incl (x :: K) U) by (intros y [<-|Hy]; [exact Hx|apply Hi; exact Hy]).
    pose proof (NoDup_incl_length Hn' Hi'). simpl in H. lia.
  - destruct (maxb E U K) eqn:Em.
    + exists K. split; [exact HK|]. split; [intros x Hx; exact Hx|exact Em].
    + unfold maxb in Em. apply forallb_false_ex in Em. destruct Em as [x [Hx Hf]].
      apply orb_false_iff in Hf. destruct Hf as [Hf1 Hf2]. apply memn_false in Hf1.
      apply negb_false_iff in Hf2. rewrite forallb_forall in Hf2.
      destruct HK as (Hn & Hi & Hc).
      destruct (IH (x :: K)) as [M (HM & HKM & Hmax)].
      * split; [constructor; assumption|]. split.
        -- intros y [<-|Hy]; [exact Hx|apply Hi; exact Hy].
        -- intros a b [<-|Ha] [<-|Hb] Hne; try congruence.
           ++ apply adjb_Adj. apply Hf2. exact Hb.
           ++ apply Adj_sym. apply adjb_Adj. apply Hf2. exact Ha.
           ++ apply Hc; assumption.
      * simpl. lia.
      * exists M. split; [exact HM|]. split; [intros y Hy; apply HKM; right; exact Hy|exact Hmax].
Qed.

Lemma clique_set_ext E K K' : (forall x, In x K <-> In x K') -> is_clique E K -> is_clique E K'.
Proof. intros H Hc x y Hx Hy Hne. apply Hc; [apply H; exact Hx|apply H; exact Hy|exact Hne]. Qed.
Lemma maxb_set_ext E U K K' : (forall x, In x K <-> In x K') -> maxb E U K = true -> maxb E U K' = true.
Proof.
  intros H Hm. apply maxb_spec. intros x Hx HxK'. rewrite maxb_spec in Hm.
  destruct (Hm x Hx) as [y [Hy Ha]]; [intros Hc; apply HxK'; apply H; exact Hc|].
  exists y. split; [apply H; exact Hy|exact Ha].
Qed.

Theorem max_cliques_in_spec E U : NoDup U -> max_cliques_of E U (max_cliques_in E U).
Proof.
  intros HU. rewrite max_cliques_in_unfold.
  assert (Hmem : forall C, In C (filter (fun K => is_cliqueb E K && maxb E U K) (sublists U)) ->
                           In C (sublists U) /\ clique_in E U C /\ maxb E U C = true).
  { intros C HC. apply filter_In in HC. destruct HC as [HC Hb]. apply andb_true_iff in Hb. destruct Hb as [Hb1 Hb2].
    pose proof (sublists_NoDup_mem U HU C HC) as Hn. split; [exact HC|]. split; [|exact Hb2].
    split; [exact Hn|]. split; [apply sublists_incl; exact HC|apply is_cliqueb_spec; assumption]. }
  split; [|split].
  - intros C HC. apply Hmem. exact HC.
  - intros K HK. destruct HK as (Hn & Hi & Hc).
    destruct (extend_to_max E U HU (length U - length K) K (conj Hn (conj Hi Hc))) as [M (HM & HKM & Hmax)].
    { pose proof (NoDup_incl_length Hn Hi). lia. }
    set (C := filter (fun u => memn u M) U).
    assert (HCs : forall x, In x M <-> In x C).
    { intros x. unfold C. rewrite filter_In, memn_In. destruct HM as (_ & HMi & _). split; [intros H; split; [apply HMi; exact H|exact H]|tauto]. }
    exists C. split.
    + apply filter_In. split; [apply filter_in_sublists|]. apply andb_true_iff. split.
      * apply is_cliqueb_spec; [apply List.NoDup_filter; exact HU|]. apply (clique_set_ext E M C HCs). apply HM.
      * apply (maxb_set_ext E U M C HCs Hmax).
    + intros x Hx. apply HCs. apply HKM. exact Hx.
  - intros i j Hi Hj Hij Hinc.
    set (L := filter (fun K => is_cliqueb E K && maxb E U K) (sublists U)) in *.
    assert (HLn : NoDup L) by (apply List.NoDup_filter; apply sublists_NoDup; exact HU).
    destruct (Hmem _ (nth_In L [] Hi)) as (Hsi & Hci & Hmi).
    destruct (Hmem _ (nth_In L [] Hj)) as (Hsj & Hcj & Hmj).
    apply Hij. apply (proj1 (NoDup_nth L []) HLn i j Hi Hj).
    apply (sublists_same_set U HU); [exact Hsi|exact Hsj|]. intros x. split; [apply Hinc|].
    intros Hx. destruct (in_dec Nat.eq_dec x (nth i L [])) as [H|H]; [exact H|]. exfalso.
    rewrite maxb_spec in Hmi. destruct Hcj as (_ & Hji & Hjc).
    destruct (Hmi x (Hji x Hx) H) as [y [Hy Ha]]. apply Ha. apply Hjc; [exact Hx|apply Hinc; exact Hy|].
    intros ->. contradiction.
Qed.

Corollary all_max_cliques_spec g : max_cliques_of (uedges g) (vertices g) (all_max_cliques g).
Proof. apply max_cliques_in_spec. apply NoDup_udedup. Qed.

(* ---- a checker for any other listing of the maximal cliques (e.g. nx.find_cliques) ---------- *)
Lemma nodupb_spec l : nodupb l = true -> NoDup l.
Proof.
  induction l as [|x r IH]; intros H; [constructor|]. cbn in H. apply andb_true_iff in H. destruct H as [H1 H2].
  constructor; [apply memn_false, negb_true_iff; exact H1|apply IH; exact H2].
Qed.
Theorem max_cliques_chk_sound g F : max_cliques_chk g F = true -> max_cliques_of (uedges g) (vertices g) F.
Proof.
  unfold max_cliques_chk. rewrite !andb_true_iff, !forallb_forall. intros [[H1 H2] H3]. split; [|split].
  - intros C HC. specialize (H1 C HC). rewrite !andb_true_iff in H1. destruct H1 as [[Ha Hb] Hc].
    pose proof (nodupb_spec C Ha) as Hn. split; [exact Hn|]. split; [apply subsetn_incl; exact Hb|apply is_cliqueb_spec; assumption].
  - intros K HK. destruct (all_max_cliques_spec g) as (_ & M2 & _). destruct (M2 K HK) as [M [HM HKM]].
    specialize (H2 M HM). apply existsb_exists in H2. destruct H2 as [C [HC Hs]]. apply subsetn_incl in Hs.
    exists C. split; [exact HC|]. intros x Hx. apply Hs. apply HKM. exact Hx.
  - intros i j Hi Hj Hij Hinc. specialize (H3 i (proj2 (in_seq _ _ _) (conj (Nat.le_0_l _) Hi))).
    rewrite forallb_forall in H3. specialize (H3 j (proj2 (in_seq _ _ _) (conj (Nat.le_0_l _) Hj))).
    apply orb_true_iff in H3. destruct H3 as [H3|H3]; [apply Nat.eqb_eq in H3; contradiction|].
    apply negb_true_iff in H3. apply subsetn_incl in Hinc. congruence.
Qed.
