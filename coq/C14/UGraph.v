(* Undirected graphs over nat node identifiers as edge lists (an edge may be stored in either
   orientation, possibly several times: networkx adjacency is the symmetric closure).  Small library
   for C14: adjacency, neighbours, all unordered pairs, node deletion. *)
From Coq Require Import List Bool Arith Lia PeanoNat.
From PV Require Import Base.Graph.
Import ListNotations.

Definition uedge : Type := (node * node)%type.
Record ugraph := { unodes : list node; uedges : list uedge }.

Definition Adj (E : list uedge) (u v : node) : Prop := In (u, v) E \/ In (v, u) E.
Definition adjb (E : list uedge) (u v : node) : bool :=
  existsb (fun e => (Nat.eqb (fst e) u && Nat.eqb (snd e) v) || (Nat.eqb (fst e) v && Nat.eqb (snd e) u)) E.

Lemma adjb_Adj E u v : adjb E u v = true <-> Adj E u v.
Proof.
  unfold adjb, Adj. rewrite existsb_exists. split.
  - intros [[a b] [Hin H]]. simpl in H. apply orb_true_iff in H.
    destruct H as [H|H]; apply andb_true_iff in H; destruct H as [H1 H2];
      apply Nat.eqb_eq in H1, H2; subst; [left|right]; exact Hin.
  - intros [H|H]; [exists (u, v)|exists (v, u)]; (split; [exact H|]); simpl; rewrite !Nat.eqb_refl; simpl;
      [reflexivity|apply orb_true_r].
Qed.
Lemma adjb_false E u v : adjb E u v = false <-> ~ Adj E u v.
Proof.
  split; intros H.
  - intros Ha. apply adjb_Adj in Ha. congruence.
  - destruct (adjb E u v) eqn:Eq; [|reflexivity]. apply adjb_Adj in Eq. contradiction.
Qed.
Lemma Adj_sym E u v : Adj E u v -> Adj E v u.
Proof. unfold Adj. tauto. Qed.
Lemma Adj_app E F u v : Adj (E ++ F) u v <-> Adj E u v \/ Adj F u v.
Proof. unfold Adj. rewrite !in_app_iff. tauto. Qed.
Lemma Adj_dec E u v : {Adj E u v} + {~ Adj E u v}.
Proof. destruct (adjb E u v) eqn:H; [left; apply adjb_Adj; exact H|right; apply adjb_false; exact H]. Qed.

Definition noloop (E : list uedge) : Prop := forall a, ~ In (a, a) E.
Definition noloopb (E : list uedge) : bool := forallb (fun e => negb (Nat.eqb (fst e) (snd e))) E.
Lemma noloopb_spec E : noloopb E = true <-> noloop E.
Proof.
  unfold noloopb, noloop. rewrite forallb_forall. split.
  - intros H a Ha. specialize (H _ Ha). simpl in H. rewrite Nat.eqb_refl in H. discriminate.
  - intros H [a b] Hab. simpl. destruct (Nat.eqb a b) eqn:E1; [|reflexivity].
    apply Nat.eqb_eq in E1. subst. exfalso. exact (H b Hab).
Qed.
Lemma noloop_Adj E a b : noloop E -> Adj E a b -> a <> b.
Proof. intros Hn [H|H] ->; exact (Hn _ H). Qed.

(* duplicate removal (keeps the last occurrence) *)
Fixpoint udedup (l : list node) : list node :=
  match l with [] => [] | x :: r => if memn x r then udedup r else x :: udedup r end.
Lemma In_udedup x l : In x (udedup l) <-> In x l.
Proof.
  induction l as [|y r IH]; simpl; [tauto|]. destruct (memn y r) eqn:E.
  - rewrite IH. apply memn_In in E. split; [tauto|]. intros [->|H]; assumption.
  - simpl. rewrite IH. tauto.
Qed.
Lemma NoDup_udedup l : NoDup (udedup l).
Proof.
  induction l as [|y r IH]; simpl; [constructor|]. destruct (memn y r) eqn:E; [exact IH|].
  constructor; [|exact IH]. rewrite In_udedup. apply memn_false. exact E.
Qed.

(* endpoints of the edges *)
Definition endpoints (E : list uedge) : list node := flat_map (fun e => [fst e; snd e]) E.
Lemma In_endpoints E x : In x (endpoints E) <-> exists y, Adj E x y.
Proof.
  unfold endpoints, Adj. rewrite in_flat_map. split.
  - intros [[a b] [Hin [H|[H|[]]]]]; simpl in H; subst; [exists b; left|exists a; right]; exact Hin.
  - intros [y [H|H]]; [exists (x, y)|exists (y, x)]; (split; [exact H|simpl; tauto]).
Qed.
(* every vertex of the graph: declared nodes and edge endpoints *)
Definition vertices (g : ugraph) : list node := udedup (unodes g ++ endpoints (uedges g)).

(* neighbours of v, each once (networkx: G.neighbors(v)) *)
Definition nbrs (E : list uedge) (v : node) : list node :=
  udedup (flat_map (fun e => if Nat.eqb (fst e) v then [snd e]
                             else if Nat.eqb (snd e) v then [fst e] else []) E).
Lemma In_nbrs E v x : In x (nbrs E v) <-> Adj E v x.
Proof.
  unfold nbrs, Adj. rewrite In_udedup, in_flat_map. split.
  - intros [[a b] [Hin H]]. simpl in H. destruct (Nat.eqb a v) eqn:E1.
    + apply Nat.eqb_eq in E1. destruct H as [H|[]]. subst. left. exact Hin.
    + destruct (Nat.eqb b v) eqn:E2; [|destruct H]. apply Nat.eqb_eq in E2.
      destruct H as [H|[]]. subst. right. exact Hin.
  - intros [H|H].
    + exists (v, x). split; [exact H|]. simpl. rewrite Nat.eqb_refl. left. reflexivity.
    + exists (x, v). split; [exact H|]. simpl. destruct (Nat.eqb x v) eqn:E1.
      * apply Nat.eqb_eq in E1. left. symmetry. exact E1.
      * rewrite Nat.eqb_refl. left. reflexivity.
Qed.
Lemma NoDup_nbrs E v : NoDup (nbrs E v).
Proof. apply NoDup_udedup. Qed.

(* all unordered pairs of a list (itertools.combinations(l, 2)) *)
Fixpoint pairs (l : list node) : list uedge :=
  match l with [] => [] | x :: r => map (fun y => (x, y)) r ++ pairs r end.
Lemma pairs_In a b l : In (a, b) (pairs l) -> In a l /\ In b l.
Proof.
  induction l as [|x r IH]; simpl; [tauto|]. rewrite in_app_iff, in_map_iff.
  intros [[y [Hy Hi]]|H].
  - inversion Hy; subst. tauto.
  - destruct (IH H). tauto.
Qed.
Lemma pairs_neq a b l : NoDup l -> In (a, b) (pairs l) -> a <> b.
Proof.
  induction l as [|x r IH]; simpl; [tauto|]. intros Hn. inversion Hn as [|? ? Hx Hr]; subst.
  rewrite in_app_iff, in_map_iff. intros [[y [Hy Hi]]|H].
  - inversion Hy; subst. intros ->. contradiction.
  - apply IH; assumption.
Qed.
Lemma pairs_complete a b l : In a l -> In b l -> a <> b -> In (a, b) (pairs l) \/ In (b, a) (pairs l).
Proof.
  induction l as [|x r IH]; simpl; [tauto|]. intros Ha Hb Hne. rewrite !in_app_iff, !in_map_iff.
  destruct Ha as [Ha|Ha]; destruct Hb as [Hb|Hb]; subst.
  - congruence.
  - left. left. exists b. tauto.
  - right. left. exists a. tauto.
  - destruct (IH Ha Hb Hne); tauto.
Qed.
Lemma Adj_pairs l a b : NoDup l -> (Adj (pairs l) a b <-> In a l /\ In b l /\ a <> b).
Proof.
  intros Hn. split.
  - intros [H|H].
    + pose proof (pairs_In _ _ _ H). pose proof (pairs_neq _ _ _ Hn H). tauto.
    + pose proof (pairs_In _ _ _ H). pose proof (pairs_neq _ _ _ Hn H). split; [tauto|]. split; [tauto|].
      intros E. symmetry in E. contradiction.
  - intros (Ha & Hb & Hne). apply pairs_complete; assumption.
Qed.

(* G.remove_node(v) *)
Definition del_node (v : node) (E : list uedge) : list uedge :=
  filter (fun e => negb (Nat.eqb (fst e) v) && negb (Nat.eqb (snd e) v)) E.
Lemma In_del_node v E a b : In (a, b) (del_node v E) <-> In (a, b) E /\ a <> v /\ b <> v.
Proof.
  unfold del_node. rewrite filter_In. simpl. rewrite andb_true_iff, !negb_true_iff, !Nat.eqb_neq. tauto.
Qed.
Lemma Adj_del_node v E a b : Adj (del_node v E) a b <-> Adj E a b /\ a <> v /\ b <> v.
Proof. unfold Adj. rewrite !In_del_node. tauto. Qed.
Lemma noloop_del_node v E : noloop E -> noloop (del_node v E).
Proof. intros H a Ha. apply In_del_node in Ha. exact (H a (proj1 Ha)). Qed.

Definition is_cliqueb (E : list uedge) (l : list node) : bool :=
  forallb (fun p => adjb E (fst p) (snd p)) (pairs l).
Definition is_clique (E : list uedge) (l : list node) : Prop :=
  forall x y, In x l -> In y l -> x <> y -> Adj E x y.
Lemma is_cliqueb_spec E l : NoDup l -> (is_cliqueb E l = true <-> is_clique E l).
Proof.
  intros Hn. unfold is_cliqueb, is_clique. rewrite forallb_forall. split.
  - intros H x y Hx Hy Hne. destruct (pairs_complete x y l Hx Hy Hne) as [Hp|Hp].
    + apply adjb_Adj. exact (H _ Hp).
    + apply Adj_sym. apply adjb_Adj. exact (H _ Hp).
  - intros H [a b] Hp. simpl. apply adjb_Adj. pose proof (pairs_In _ _ _ Hp) as [Ha Hb].
    apply H; [exact Ha|exact Hb|exact (pairs_neq _ _ _ Hn Hp)].
Qed.
