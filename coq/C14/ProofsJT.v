(* C14 proofs, clique-tree and factor part: checkers <-> specs, conversions keep the factor list,
   junction-tree potentials multiply to the factor product when no two factors are equal, partition
   function. *)
From Coq Require Import List Bool Arith Lia PeanoNat Permutation.
From PV Require Import Base.Semiring Base.Ravel Base.FinSum Base.RefFactor Base.VE Base.Reach Base.Graph
  C14.UGraph C14.Model C14.Spec C14.ProofsGraph.
Import ListNotations.

(* ------------------------------------------------------------------ connectivity checker *)
Lemma nat_eqb_iff a b : Nat.eqb a b = true <-> a = b.
Proof. apply Nat.eqb_eq. Qed.

Lemma tnext_closed edges S x y : In y (tnext edges S x) -> In y S.
Proof. unfold tnext. rewrite filter_In. intros [_ H]. apply memn_In. exact H. Qed.

Lemma conn_search edges S i : In i S ->
  exists r, search nat Nat.eqb (tnext edges S) (length S) [i] [] = Some r /\
            forall x, In x r <-> reach nat (tnext edges S) [i] x.
Proof.
  intros Hi.
  destruct (search_fuel_enough nat Nat.eqb nat_eqb_iff (tnext edges S) S) with
    (fuel := length S) (work := [i]) (visited := @nil nat) as [r Hr].
  - intros x y _ Hy. eapply tnext_closed. exact Hy.
  - intros z [<-|[]]. exact Hi.
  - intros z [].
  - constructor.
  - simpl. lia.
  - exists r. split; [exact Hr|]. apply (search_correct nat Nat.eqb nat_eqb_iff _ _ _ _ Hr).
Qed.

Theorem conn_chk_spec edges S : conn_chk edges S = true <-> conn_on edges S.
Proof.
  unfold conn_chk, conn_on. rewrite forallb_forall. split.
  - intros H i j Hi Hj. specialize (H i Hi). destruct (conn_search edges S i Hi) as [r [Hr Hc]].
    rewrite Hr in H. rewrite forallb_forall in H. apply Hc. apply memn_In. apply H. exact Hj.
  - intros H i Hi. destruct (conn_search edges S i Hi) as [r [Hr Hc]]. rewrite Hr.
    apply forallb_forall. intros j Hj. apply memn_In. apply Hc. apply H; assumption.
Qed.

Lemma subsetn_incl a b : subsetn a b = true <-> incl a b.
Proof.
  unfold subsetn, incl. rewrite forallb_forall. split; intros H x Hx; [apply memn_In|apply memn_In]; auto.
Qed.

Theorem tree_chk_spec t : tree_chk t = true <-> is_tree t.
Proof.
  unfold tree_chk, is_tree. rewrite !andb_true_iff, Nat.ltb_lt, Nat.eqb_eq, forallb_forall, conn_chk_spec.
  split.
  - intros [[[H1 H2] H3] H4]. repeat split; try assumption.
    + specialize (H2 e H). apply andb_true_iff in H2. apply Nat.ltb_lt. apply H2.
    + specialize (H2 e H). apply andb_true_iff in H2. apply Nat.ltb_lt. apply H2.
  - intros (H1 & H2 & H3 & H4). repeat split; try assumption.
    intros e He. destruct (H2 e He). apply andb_true_iff. split; apply Nat.ltb_lt; assumption.
Qed.

Theorem cover_chk_spec t scopes : cover_chk t scopes = true <-> covers t scopes.
Proof.
  unfold cover_chk, covers. rewrite forallb_forall. split.
  - intros H s Hs. specialize (H s Hs). apply existsb_exists in H. destruct H as [c [Hc Hsub]].
    exists c. split; [exact Hc|apply subsetn_incl; exact Hsub].
  - intros H s Hs. destruct (H s Hs) as [c [Hc Hsub]]. apply existsb_exists. exists c.
    split; [exact Hc|apply subsetn_incl; exact Hsub].
Qed.

Theorem rip_chk_spec t : rip_chk t = true <-> rip t.
Proof.
  unfold rip_chk, rip. rewrite forallb_forall. split.
  - intros H x. destruct (in_dec Nat.eq_dec x (udedup (concat (jcliques t)))) as [Hx|Hx].
    + apply conn_chk_spec. apply H. exact Hx.
    + intros i j Hi _. exfalso. apply Hx. apply In_udedup. unfold holders in Hi.
      apply filter_In in Hi. destruct Hi as [Hi Hm]. apply in_seq in Hi. apply memn_In in Hm.
      apply in_concat. exists (nth i (jcliques t) []). split; [apply nth_In; lia|exact Hm].
  - intros H x _. apply conn_chk_spec. apply H.
Qed.

(* ================================================================== factors *)
Section Factors.
Variable R : csr.
Variable card : var -> nat.
Variable eqR : R -> R -> bool.
Notation factor := (factor R).
Notation feval := (feval R card).
Notation wf := (wf R card).
Notation valid := (valid card).
Notation eval_prod := (eval_prod R card).
Notation fprod := (fprod R card).

(* ---- BN -> MN ---------------------------------------------------------------------------- *)
Lemma feval_cpd_to_factor c a : feval (cpd_to_factor R c) a = cpd_eval R card c a.
Proof. reflexivity. Qed.

Theorem bn_to_mn_joint g cpds a :
  eval_prod (mfactors R (bn_to_mn R g cpds)) a = prod_list (map (fun c => cpd_eval R card c a) cpds).
Proof.
  unfold bn_to_mn, eval_prod. cbn [mfactors]. rewrite map_map. reflexivity.
Qed.

Theorem bn_to_mn_scopes g cpds :
  map fvars (mfactors R (bn_to_mn R g cpds)) = map (cpd_scope R) cpds.
Proof. unfold bn_to_mn. cbn [mfactors]. rewrite map_map. reflexivity. Qed.

(* each CPD scope (child + its parents in the DAG) is pairwise adjacent in the moral graph, which is
   what MarkovNetwork.check_model demands of every factor *)
Theorem bn_to_mn_scope_clique g c :
  wf_graph g -> NoDup (edges g) -> (forall a, ~ In (a, a) (edges g)) ->
  (forall p, In p (cpars R c) -> In (p, cchild R c) (edges g)) ->
  is_clique (uedges (moral_graph g)) (cpd_scope R c).
Proof.
  intros Hw Hn Hl Hp x y Hx Hy Hne. apply moral_graph_spec; try assumption.
  split; [exact Hne|]. destruct Hx as [Hx|Hx], Hy as [Hy|Hy]; subst.
  - congruence.
  - right. left. apply Hp. exact Hy.
  - left. apply Hp. exact Hx.
  - right. right. exists (cchild R c). split; apply Hp; assumption.
Qed.

(* ---- MN -> FG, FG -> MN -------------------------------------------------------------------- *)
Theorem mn_to_fg_factors m : fg_factors R (mn_to_fg R m) = mfactors R m.
Proof. reflexivity. Qed.

Theorem fg_to_mn_factors fs m : fg_to_mn R card eqR fs = Ok m -> mfactors R m = fs.
Proof. unfold fg_to_mn. destruct (negb (fg_check R card eqR fs)); [discriminate|]. intros H. inversion H. reflexivity. Qed.

Theorem fg_to_mn_scope_clique fs m f : fg_to_mn R card eqR fs = Ok m -> In f fs -> NoDup (fvars f) ->
  is_clique (uedges (mgraph R m)) (fvars f).
Proof.
  unfold fg_to_mn. destruct (negb (fg_check R card eqR fs)); [discriminate|]. intros H Hf Hn. inversion H; subst.
  cbn [mgraph uedges]. intros x y Hx Hy Hne. unfold Adj. rewrite !in_flat_map.
  destruct (pairs_complete x y (fvars f) Hx Hy Hne) as [Hp|Hp]; [left|right]; exists f; tauto.
Qed.

(* ---- add_factors: exactly the longest valid prefix is appended, in order ---------------------- *)
Fixpoint valid_prefix (ns : list node) (new : list factor) : list factor :=
  match new with
  | [] => []
  | f :: r => if subsetn (fvars f) ns then f :: valid_prefix ns r else []
  end.
Theorem add_factors_spec ns : forall new fs,
  add_factors R ns fs new = (fs ++ valid_prefix ns new, forallb (fun f => subsetn (fvars f) ns) new).
Proof.
  induction new as [|f r IH]; intros fs; cbn [add_factors valid_prefix forallb].
  - rewrite app_nil_r. reflexivity.
  - destruct (subsetn (fvars f) ns); cbn [andb].
    + rewrite IH, <- app_assoc. reflexivity.
    + rewrite app_nil_r. reflexivity.
Qed.

(* ---- junction tree ----------------------------------------------------------------------------- *)
(* product of the factors at positions i, i+1, ... whose is_used entry is still False *)
Fixpoint Rem (fs : list factor) (i : nat) (U : list nat) (a : asg) : R :=
  match fs with
  | [] => one
  | f :: r => mul (if memn i U then one else feval f a) (Rem r (S i) U a)
  end.

Lemma memn_cons j i U : memn j (i :: U) = Nat.eqb j i || memn j U.
Proof. reflexivity. Qed.

Lemma Rem_skip r : forall k i U a, i < k -> Rem r k (i :: U) a = Rem r k U a.
Proof.
  induction r as [|f r IH]; intros k i U a Hlt; [reflexivity|]. cbn [Rem].
  rewrite memn_cons. assert (E : Nat.eqb k i = false) by (apply Nat.eqb_neq; lia). rewrite E. cbn [orb].
  rewrite IH by lia. reflexivity.
Qed.

Lemma Rem_nil fs : forall i a, Rem fs i [] a = eval_prod fs a.
Proof. induction fs as [|f r IH]; intros i a; [reflexivity|]. cbn [Rem]. rewrite IH. reflexivity. Qed.

Lemma Rem_all r : forall i U a, (forall j, i <= j < i + length r -> memn j U = true) -> Rem r i U a = one.
Proof.
  induction r as [|f r IH]; intros i U a H; [reflexivity|]. cbn [Rem].
  rewrite (H i) by (simpl; lia). rewrite IH; [apply mul_1_l|]. intros j Hj. apply H. simpl. lia.
Qed.

Lemma eval_prod_cons' f L a : eval_prod (f :: L) a = mul (feval f a) (eval_prod L a).
Proof. reflexivity. Qed.

(* one pass over the factor list for clique c: positions below the start are untouched, marks only grow,
   and what is taken out of the not-yet-used product is exactly the product of the taken factors *)
Lemma assign_pass_inv c a : forall r i U A U', assign_pass R c r i U = (A, U') ->
  (forall j, memn j U = true -> memn j U' = true) /\
  (forall j, memn j U' = true -> memn j U = true \/ i <= j) /\
  mul (eval_prod A a) (Rem r i U' a) = Rem r i U a /\ incl A r.
Proof.
  induction r as [|f r IH]; intros i U A U' H.
  - inversion H; subst. repeat split; try tauto; [apply mul_1_l|intros x []].
  - cbn [assign_pass] in H. destruct (negb (memn i U) && subsetn (fvars f) c) eqn:Ec.
    + destruct (assign_pass R c r (S i) (i :: U)) as [A1 U1] eqn:E1. inversion H; subst.
      destruct (IH _ _ _ _ E1) as (M1 & M2 & M3 & M4).
      apply andb_true_iff in Ec. destruct Ec as [Ec _]. apply negb_true_iff in Ec.
      split; [|split; [|split]].
      * intros j Hj. apply M1. rewrite memn_cons, Hj. apply orb_true_r.
      * intros j Hj. destruct (M2 j Hj) as [Hj'|Hj']; [|right; lia].
        rewrite memn_cons in Hj'. apply orb_true_iff in Hj'. destruct Hj' as [Hj'|Hj']; [|left; exact Hj'].
        apply Nat.eqb_eq in Hj'. right. lia.
      * cbn [Rem]. rewrite Ec.
        assert (Hi : memn i U' = true) by (apply M1; rewrite memn_cons, Nat.eqb_refl; reflexivity).
        rewrite Hi, mul_1_l. rewrite eval_prod_cons', <- mul_assoc, M3. rewrite Rem_skip by lia. reflexivity.
      * intros x [<-|Hx]; [left; reflexivity|right; apply M4; exact Hx].
    + destruct (IH _ _ _ _ H) as (M1 & M2 & M3 & M4). split; [|split; [|split]].
      * exact M1.
      * intros j Hj. destruct (M2 j Hj) as [Hj'|Hj']; [left; exact Hj'|right; lia].
      * cbn [Rem].
        assert (Hi : memn i U' = memn i U).
        { destruct (memn i U) eqn:E0; [apply M1; exact E0|].
          destruct (memn i U') eqn:E1; [|reflexivity]. destruct (M2 i E1) as [E2|E2]; [congruence|lia]. }
        rewrite Hi. rewrite <- M3. rewrite !mul_assoc. f_equal. apply mul_comm.
      * intros x Hx. right. apply M4. exact Hx.
Qed.

Lemma feval_unity c a : NoDup c -> valid a -> feval (unity R card c) a = one.
Proof. intros Hn Hv. unfold unity. apply feval_fbuild; [exact Hn|exact Hv|]. intros x y _. reflexivity. Qed.
Lemma wf_unity c : NoDup c -> wf (unity R card c).
Proof. intros Hn. apply wf_fbuild. exact Hn. Qed.

Lemma feval_fprod1 A a : Forall wf A -> valid a -> feval (fprod1 R card A) a = eval_prod A a.
Proof.
  intros Hw Hv. destruct A as [|f r]; [apply feval_fone; exact Hv|].
  inversion Hw; subst. cbn [fprod1]. rewrite feval_fold_fprod by assumption. reflexivity.
Qed.
Lemma wf_fprod1 A : Forall wf A -> wf (fprod1 R card A).
Proof.
  intros Hw. destruct A as [|f r]; [apply wf_fbuild; constructor|].
  inversion Hw; subst. cbn [fprod1]. apply wf_fold_fprod; assumption.
Qed.

Lemma feval_clique_potential c A a : NoDup c -> Forall wf A -> valid a ->
  feval (clique_potential R card c A) a = eval_prod A a.
Proof.
  intros Hn Hw Hv. destruct A as [|f r].
  - cbn [clique_potential]. rewrite feval_unity by assumption. reflexivity.
  - unfold clique_potential. rewrite feval_fprod; [|apply wf_unity; exact Hn|apply wf_fprod1; exact Hw|exact Hv].
    rewrite feval_unity by assumption. rewrite feval_fprod1 by assumption. apply mul_1_l.
Qed.
Lemma wf_clique_potential c A : NoDup c -> Forall wf A -> wf (clique_potential R card c A).
Proof.
  intros Hn Hw. destruct A as [|f r]; [apply wf_unity; exact Hn|].
  unfold clique_potential. apply wf_fprod; [apply wf_unity; exact Hn|apply wf_fprod1; exact Hw].
Qed.

Lemma jt_pots_inv fs a : Forall wf fs -> valid a -> forall cliques U ps U',
  Forall (@NoDup var) cliques -> jt_pots R card cliques fs U = (ps, U') ->
  mul (eval_prod ps a) (Rem fs 0 U' a) = Rem fs 0 U a /\ Forall wf ps /\
  (forall j, memn j U = true -> memn j U' = true).
Proof.
  intros Hw Hv. induction cliques as [|c cs IH]; intros U ps U' Hn H.
  - inversion H; subst. split; [apply mul_1_l|]. split; [constructor|tauto].
  - cbn [jt_pots] in H. inversion Hn as [|? ? Hc Hcs]; subst.
    destruct (assign_pass R c fs 0 U) as [A U1] eqn:E1.
    destruct (jt_pots R card cs fs U1) as [ps1 U2] eqn:E2. inversion H; subst.
    destruct (assign_pass_inv c a fs 0 U A U1 E1) as (M1 & _ & M3 & M4).
    destruct (IH _ _ _ Hcs E2) as (I1 & I2 & I3).
    assert (HwA : Forall wf A).
    { apply Forall_forall. intros x Hx. rewrite Forall_forall in Hw. apply Hw. apply M4. exact Hx. }
    split; [|split].
    + rewrite eval_prod_cons'. rewrite feval_clique_potential by assumption.
      rewrite <- mul_assoc, I1. exact M3.
    + constructor; [apply wf_clique_potential; assumption|exact I2].
    + intros j Hj. apply I3. apply M1. exact Hj.
Qed.

(* the product of the clique potentials is the product of ALL factors -- every factor list, equal
   factors included *)
Theorem jt_joint cliques fs ps :
  Forall wf fs -> Forall (@NoDup var) cliques ->
  jt_potentials R card cliques fs = Ok ps ->
  same_joint R card ps fs.
Proof.
  intros Hw Hn H a Hv. unfold jt_potentials in H.
  destruct (jt_pots R card cliques fs []) as [ps' U] eqn:E.
  destruct (forallb (fun i => memn i U) (seq 0 (length fs))) eqn:Ea; [|discriminate]. inversion H; subst.
  destruct (jt_pots_inv fs a Hw Hv cliques [] ps U Hn E) as [Hi _].
  rewrite Rem_nil in Hi. rewrite Rem_all in Hi; [rewrite mul_1_r in Hi; exact Hi|].
  intros j Hj. rewrite forallb_forall in Ea. apply Ea. apply in_seq. lia.
Qed.

Lemma jt_pots_wf fs : Forall wf fs -> forall cliques U ps U',
  Forall (@NoDup var) cliques -> jt_pots R card cliques fs U = (ps, U') -> Forall wf ps.
Proof.
  intros Hw. induction cliques as [|c cs IH]; intros U ps U' Hn E.
  - inversion E; subst. constructor.
  - cbn [jt_pots] in E. inversion Hn as [|? ? Hc Hcs]; subst.
    destruct (assign_pass R c fs 0 U) as [A U1] eqn:E1.
    destruct (jt_pots R card cs fs U1) as [ps1 U2] eqn:E2. inversion E; subst.
    constructor; [|exact (IH _ _ _ Hcs E2)].
    apply wf_clique_potential; [exact Hc|]. apply Forall_forall. intros x Hx.
    rewrite Forall_forall in Hw. apply Hw.
    destruct (assign_pass_inv c (fun _ => 0) fs 0 U A U1 E1) as (_ & _ & _ & M4). apply M4. exact Hx.
Qed.
Theorem jt_potentials_wf cliques fs ps : Forall wf fs -> Forall (@NoDup var) cliques ->
  jt_potentials R card cliques fs = Ok ps -> Forall wf ps.
Proof.
  intros Hw Hn H. unfold jt_potentials in H.
  destruct (jt_pots R card cliques fs []) as [ps' U] eqn:E.
  destruct (forallb (fun i => memn i U) (seq 0 (length fs))); [|discriminate]. inversion H; subst.
  exact (jt_pots_wf fs Hw _ _ _ _ Hn E).
Qed.

(* when the cliques cover every factor scope, every position is marked: no ValueError *)
Lemma assign_pass_takes c : forall r i U A U', assign_pass R c r i U = (A, U') ->
  forall k d, k < length r -> subsetn (fvars (nth k r d)) c = true -> memn (i + k) U' = true.
Proof.
  induction r as [|f r IH]; intros i U A U' H k d Hk Hs; [simpl in Hk; lia|].
  destruct (assign_pass_inv c (fun _ => 0) (f :: r) i U A U' H) as (M1 & _).
  cbn [assign_pass] in H. destruct k as [|k].
  - rewrite Nat.add_0_r. cbn [nth] in Hs. destruct (memn i U) eqn:Em; [apply M1; exact Em|].
    rewrite Hs in H. cbn [negb andb] in H.
    destruct (assign_pass R c r (S i) (i :: U)) as [A1 U1] eqn:E1. inversion H; subst.
    destruct (assign_pass_inv c (fun _ => 0) r (S i) (i :: U) A1 U' E1) as (N1 & _).
    apply N1. rewrite memn_cons, Nat.eqb_refl. reflexivity.
  - cbn [nth] in Hs. simpl in Hk. replace (i + S k) with (S i + k) by lia.
    destruct (negb (memn i U) && subsetn (fvars f) c).
    + destruct (assign_pass R c r (S i) (i :: U)) as [A1 U1] eqn:E1. inversion H; subst.
      apply (IH _ _ _ _ E1 k d); [lia|exact Hs].
    + apply (IH _ _ _ _ H k d); [lia|exact Hs].
Qed.

Lemma jt_pots_mono fs j : forall cliques U ps U', jt_pots R card cliques fs U = (ps, U') ->
  memn j U = true -> memn j U' = true.
Proof.
  induction cliques as [|c cs IH]; intros U ps U' E Hj.
  - inversion E; subst. exact Hj.
  - cbn [jt_pots] in E. destruct (assign_pass R c fs 0 U) as [A U1] eqn:E1.
    destruct (jt_pots R card cs fs U1) as [ps1 U2] eqn:E2. inversion E; subst.
    apply (IH _ _ _ E2). destruct (assign_pass_inv c (fun _ => 0) fs 0 U A U1 E1) as (M1 & _).
    apply M1. exact Hj.
Qed.
Lemma jt_pots_takes fs c k d : k < length fs -> subsetn (fvars (nth k fs d)) c = true ->
  forall cliques U ps U', In c cliques -> jt_pots R card cliques fs U = (ps, U') -> memn k U' = true.
Proof.
  intros Hk Hs. induction cliques as [|c0 cs IH]; intros U ps U' Hc E; [destruct Hc|].
  cbn [jt_pots] in E. destruct (assign_pass R c0 fs 0 U) as [A U1] eqn:E1.
  destruct (jt_pots R card cs fs U1) as [ps1 U2] eqn:E2. inversion E; subst.
  destruct Hc as [->|Hc].
  - apply (jt_pots_mono fs k _ _ _ _ E2).
    exact (assign_pass_takes c fs 0 U A U1 E1 k d Hk Hs).
  - exact (IH _ _ _ Hc E2).
Qed.

Theorem jt_potentials_total cliques fs :
  covers {| jcliques := cliques; jedges := [] |} (map fvars fs) ->
  exists ps, jt_potentials R card cliques fs = Ok ps.
Proof.
  intros Hc. unfold jt_potentials. destruct (jt_pots R card cliques fs []) as [ps U] eqn:E.
  assert (Ha : forallb (fun i => memn i U) (seq 0 (length fs)) = true).
  { apply forallb_forall. intros k Hk. apply in_seq in Hk.
    set (d := Build_factor R [] []).
    destruct (Hc (fvars (nth k fs d))) as [c [Hc1 Hc2]]; [apply in_map; apply nth_In; lia|].
    cbn [jcliques] in Hc1. apply subsetn_incl in Hc2.
    apply (jt_pots_takes fs c k d (proj2 Hk) Hc2 _ _ _ _ Hc1 E). }
  rewrite Ha. exists ps. reflexivity.
Qed.

(* ---- partition function ---------------------------------------------------------------------- *)
Hypothesis card_pos : forall v, 0 < card v.
Lemma valid_a0 : valid a0.
Proof. intros v. apply card_pos. Qed.

Theorem partition_spec fs : Forall wf fs ->
  partition R card fs = Zsum R card (fvars (fprod1 R card fs)) fs.
Proof.
  intros Hw. unfold partition, Zsum, fcard, joint. apply sum_over_ext_valid; [exact valid_a0|].
  intros b Hb. apply feval_fprod1; assumption.
Qed.

Lemma In_fvars_fprod1 fs x : In x (fvars (fprod1 R card fs)) <-> exists f, In f fs /\ In x (fvars f).
Proof.
  destruct fs as [|f r].
  - simpl. split; [intros []|intros [f [[] _]]].
  - cbn [fprod1]. rewrite In_fvars_fold_fprod. split.
    + intros [H|[h [Hh Hx]]]; [exists f; split; [left; reflexivity|exact H]|exists h; split; [right; exact Hh|exact Hx]].
    + intros [h [[<-|Hh] Hx]]; [left; exact Hx|right; exists h; tauto].
Qed.

Lemma sum_over_perm vs vs' : Permutation vs vs' -> NoDup vs -> forall (g : asg -> R) a, ext g ->
  sum_over vs (map card vs) g a = sum_over vs' (map card vs') g a.
Proof.
  induction 1 as [|x l l' Hp IH|x y l|l l' l'' Hp1 IH1 Hp2 IH2]; intros Hn g a Hg.
  - reflexivity.
  - inversion Hn; subst. cbn [map sum_over]. apply sum_list_ext. intros i _. apply IH; assumption.
  - cbn [map].
    change (sum_over [y] [card y] (sum_over [x] [card x] (sum_over l (map card l) g)) a =
            sum_over [x] [card x] (sum_over [y] [card y] (sum_over l (map card l) g)) a).
    assert (Hg' : ext (sum_over l (map card l) g)) by (apply sum_over_is_ext; exact Hg).
    apply (sum_over_swap1 R [x] [card x] y (card y) _ a Hg').
    intros [E|[]]. subst. inversion Hn as [|? ? Hy _]. apply Hy. left. reflexivity.
  - rewrite IH1 by assumption. apply IH2; [|exact Hg]. eapply Permutation_NoDup; eassumption.
Qed.

Theorem Zsum_same_joint vs fs gs : same_joint R card fs gs -> Zsum R card vs fs = Zsum R card vs gs.
Proof. intros H. unfold Zsum. apply sum_over_ext_valid; [exact valid_a0|exact H]. Qed.

(* equal joint and the same variables => equal partition function (whatever the axis orders) *)
Theorem partition_same_joint fs gs : Forall wf fs -> Forall wf gs ->
  same_joint R card fs gs ->
  (forall x, In x (fvars (fprod1 R card fs)) <-> In x (fvars (fprod1 R card gs))) ->
  partition R card fs = partition R card gs.
Proof.
  intros Hf Hg Hj Hv. rewrite !partition_spec by assumption.
  rewrite (Zsum_same_joint _ fs gs Hj). unfold Zsum.
  apply sum_over_perm.
  - apply NoDup_Permutation; [apply (wf_fprod1 fs Hf)|apply (wf_fprod1 gs Hg)|exact Hv].
  - apply (wf_fprod1 fs Hf).
  - apply eval_prod_ext.
Qed.

(* the junction tree has the partition function of the source *)
Theorem jt_partition cliques fs ps :
  Forall wf fs -> Forall (@NoDup var) cliques ->
  jt_potentials R card cliques fs = Ok ps ->
  (forall x, In x (fvars (fprod1 R card ps)) <-> In x (fvars (fprod1 R card fs))) ->
  partition R card ps = partition R card fs.
Proof.
  intros Hw Hn H Hv. apply partition_same_joint; [|exact Hw| |exact Hv].
  - exact (jt_potentials_wf _ _ _ Hw Hn H).
  - exact (jt_joint _ _ _ Hw Hn H).
Qed.

End Factors.
