(* C14 proofs, graph part: moral graph, elimination-game triangulation gives a perfect elimination
   ordering, the PEO-search chordality checker is sound and complete. *)
From Coq Require Import List Bool Arith Lia PeanoNat.
From PV Require Import Base.Graph C14.UGraph C14.Model C14.Spec.
Import ListNotations.

(* ------------------------------------------------------------------ moral graph *)
Lemma NoDup_map_inj' {A B} (f : A -> B) (l : list A) :
  NoDup l -> (forall a b, In a l -> In b l -> f a = f b -> a = b) -> NoDup (map f l).
Proof.
  induction l as [|x r IH]; simpl; intros Hn Hi; [constructor|].
  inversion Hn as [|? ? Hx Hr]; subst. constructor.
  - rewrite in_map_iff. intros [y [Hy Hin]]. assert (y = x) by (apply Hi; auto). subst. contradiction.
  - apply IH; [exact Hr|]. intros a b Ha Hb. apply Hi; auto.
Qed.
Lemma parents_NoDup' g n : NoDup (edges g) -> NoDup (parents g n).
Proof.
  intros Hn. unfold parents. apply NoDup_map_inj'; [apply List.NoDup_filter; exact Hn|].
  intros [a1 a2] [b1 b2] Ha Hb Hf. apply filter_In in Ha, Hb. simpl in *.
  destruct Ha as [_ Ha], Hb as [_ Hb]. apply Nat.eqb_eq in Ha, Hb. subst. reflexivity.
Qed.

Lemma moral_graph_spec g u v :
  wf_graph g -> NoDup (edges g) -> (forall a, ~ In (a, a) (edges g)) ->
  (Adj (uedges (moral_graph g)) u v <-> moral_spec g u v).
Proof.
  intros Hw Hn Hl. unfold moral_graph, moral_spec, Adj. cbn [uedges].
  rewrite !in_app_iff, !in_flat_map. split.
  - intros [[H|[n [Hn' H]]]|[H|[n [Hn' H]]]].
    + split; [intros ->; exact (Hl v H)|left; exact H].
    + split; [exact (pairs_neq _ _ _ (parents_NoDup' g n Hn) H)|].
      right. right. exists n. apply pairs_In in H. rewrite !In_parents in H. exact H.
    + split; [intros ->; exact (Hl v H)|right; left; exact H].
    + split; [intros E; symmetry in E; revert E; exact (pairs_neq _ _ _ (parents_NoDup' g n Hn) H)|].
      right. right. exists n. apply pairs_In in H. rewrite !In_parents in H. tauto.
  - intros [Hne [H|[H|[c [H1 H2]]]]].
    + left. left. exact H.
    + right. left. exact H.
    + assert (Hc : In c (nodes g)) by (destruct Hw as [_ He]; apply (He u c H1)).
      destruct (pairs_complete u v (parents g c)) as [H|H];
        [apply In_parents; exact H1|apply In_parents; exact H2|exact Hne| |].
      * left. right. exists c. tauto.
      * right. right. exists c. tauto.
Qed.

Lemma moral_graph_nodes g : unodes (moral_graph g) = nodes g.
Proof. reflexivity. Qed.

(* ------------------------------------------------------------------ PEO basics *)
Lemma peo_ext (A B : node -> node -> Prop) l :
  (forall a b, In a l -> In b l -> (A a b <-> B a b)) -> peo A l -> peo B l.
Proof.
  induction l as [|v rest IH]; intros H Hp; [exact I|]. destruct Hp as [Hh Ht]. split.
  - intros x y Hx Hy Hne Hvx Hvy.
    apply (H x y (or_intror Hx) (or_intror Hy)). apply Hh; try assumption.
    + apply (H v x (or_introl eq_refl) (or_intror Hx)). exact Hvx.
    + apply (H v y (or_introl eq_refl) (or_intror Hy)). exact Hvy.
  - apply IH; [|exact Ht]. intros a b Ha Hb. apply H; right; assumption.
Qed.

Lemma peo_filter (A : node -> node -> Prop) (p : node -> bool) l : peo A l -> peo A (filter p l).
Proof.
  induction l as [|v rest IH]; intros Hp; [exact I|]. destruct Hp as [Hh Ht]. simpl.
  destruct (p v); [|apply IH; exact Ht]. split; [|apply IH; exact Ht].
  intros x y Hx Hy. apply filter_In in Hx, Hy. apply Hh; tauto.
Qed.

(* ------------------------------------------------------------------ elimination game *)
Lemma fill_in_touch order : forall E x y, Adj (fill_in E order) x y -> exists z, Adj E x z.
Proof.
  induction order as [|v rest IH]; intros E x y H; [destruct H as [[]|[]]|].
  cbn [fill_in] in H. apply Adj_app in H. destruct H as [H|H].
  - apply Adj_pairs in H; [|apply NoDup_nbrs]. destruct H as (Hx & _ & _).
    apply In_nbrs in Hx. exists v. apply Adj_sym. exact Hx.
  - destruct (IH _ _ _ H) as [z Hz]. apply Adj_del_node in Hz. destruct Hz as (Hz & _ & _).
    apply Adj_app in Hz. destruct Hz as [Hz|Hz]; [exists z; exact Hz|].
    apply Adj_pairs in Hz; [|apply NoDup_nbrs]. destruct Hz as (Hx & _ & _).
    apply In_nbrs in Hx. exists v. apply Adj_sym. exact Hx.
Qed.

Lemma fill_in_avoids order v E x y : Adj (fill_in (del_node v E) order) x y -> x <> v /\ y <> v.
Proof.
  intros H. split.
  - destruct (fill_in_touch _ _ _ _ H) as [z Hz]. apply Adj_del_node in Hz. tauto.
  - destruct (fill_in_touch _ _ _ _ (Adj_sym _ _ _ H)) as [z Hz]. apply Adj_del_node in Hz. tauto.
Qed.

Lemma noloop_app_pairs E l : noloop E -> NoDup l -> noloop (E ++ pairs l).
Proof.
  intros HE Hl a Ha. apply in_app_or in Ha. destruct Ha as [Ha|Ha]; [exact (HE a Ha)|].
  exact (pairs_neq _ _ _ Hl Ha eq_refl).
Qed.

Lemma fill_in_peo order : forall E, NoDup order -> noloop E -> peo (Adj (E ++ fill_in E order)) order.
Proof.
  induction order as [|v rest IH]; intros E Hnd Hnl; [exact I|].
  inversion Hnd as [|? ? Hv Hnd']; subst. cbn [fill_in].
  set (N := nbrs E v). set (F := pairs N). set (E1 := del_node v (E ++ F)).
  assert (HN : NoDup N) by apply NoDup_nbrs.
  assert (Hnl1 : noloop E1) by (apply noloop_del_node; apply noloop_app_pairs; assumption).
  assert (Hnb : forall x, Adj (E ++ F ++ fill_in E1 rest) v x -> In x N).
  { intros x H. apply Adj_app in H. destruct H as [H|H]; [apply In_nbrs; exact H|].
    apply Adj_app in H. destruct H as [H|H].
    - apply Adj_pairs in H; [|exact HN]. destruct H as (Hvn & _ & _).
      apply In_nbrs in Hvn. exfalso. exact (noloop_Adj _ _ _ Hnl Hvn eq_refl).
    - apply fill_in_avoids in H. exfalso. apply (proj1 H). reflexivity. }
  split.
  - intros x y Hx Hy Hne Hvx Hvy. apply Hnb in Hvx, Hvy.
    apply Adj_app. right. apply Adj_app. left. apply Adj_pairs; [exact HN|tauto].
  - apply peo_ext with (A := Adj (E1 ++ fill_in E1 rest)); [|apply IH; assumption].
    intros a b Ha Hb.
    assert (Hav : a <> v) by (intros ->; contradiction).
    assert (Hbv : b <> v) by (intros ->; contradiction).
    rewrite (app_assoc E F). rewrite !Adj_app. unfold E1 at 1. rewrite Adj_del_node. rewrite Adj_app. tauto.
Qed.

(* nodes mentioned by the fill-in edges are nodes of the original edges *)
Lemma endpoints_fill_in E order x :
  In x (endpoints (E ++ fill_in E order)) <-> In x (endpoints E).
Proof.
  rewrite !In_endpoints. split.
  - intros [y H]. apply Adj_app in H. destruct H as [H|H]; [exists y; exact H|].
    exact (fill_in_touch _ _ _ _ H).
  - intros [y H]. exists y. apply Adj_app. left. exact H.
Qed.

Theorem fill_in_chordal ns E order :
  noloop E -> NoDup order -> (forall v, In v order <-> In v (ns ++ endpoints E)) ->
  let g := {| unodes := ns; uedges := E |} in
  let g' := {| unodes := ns; uedges := E ++ fill_in E order |} in
  supergraph g g' /\ is_peo g' order.
Proof.
  intros Hnl Hnd Hcov g g'. split; [|split; [exact Hnd|split]].
  - split; [intros x Hx; exact Hx|]. intros u v H. cbn. apply Adj_app. left. exact H.
  - intros v. rewrite Hcov. unfold vertices. rewrite In_udedup. cbn [unodes uedges g'].
    rewrite !in_app_iff, endpoints_fill_in. reflexivity.
  - cbn [uedges g']. apply fill_in_peo; assumption.
Qed.

(* ------------------------------------------------------------------ chordality checker *)
Lemma simplicialb_spec E l v : NoDup l ->
  (simplicialb E l v = true <->
   forall x y, In x l -> In y l -> x <> v -> y <> v -> x <> y -> Adj E v x -> Adj E v y -> Adj E x y).
Proof.
  intros Hn. unfold simplicialb. rewrite is_cliqueb_spec by (apply List.NoDup_filter; exact Hn).
  unfold is_clique. split.
  - intros H x y Hx Hy Hxv Hyv Hne Hvx Hvy. apply H; [| |exact Hne]; apply filter_In; (split; [assumption|]).
    + apply andb_true_iff. split; [apply negb_true_iff, Nat.eqb_neq; exact Hxv|apply adjb_Adj; exact Hvx].
    + apply andb_true_iff. split; [apply negb_true_iff, Nat.eqb_neq; exact Hyv|apply adjb_Adj; exact Hvy].
  - intros H x y Hx Hy Hne. apply filter_In in Hx, Hy. destruct Hx as [Hx Hx'], Hy as [Hy Hy'].
    apply andb_true_iff in Hx', Hy'. destruct Hx' as [Hx1 Hx2], Hy' as [Hy1 Hy2].
    apply negb_true_iff, Nat.eqb_neq in Hx1, Hy1. apply adjb_Adj in Hx2, Hy2. apply H; assumption.
Qed.

Lemma In_remove_node v l x : In x (remove_node v l) <-> In x l /\ x <> v.
Proof. unfold remove_node. rewrite filter_In, negb_true_iff, Nat.eqb_neq. reflexivity. Qed.
Lemma length_remove_node v l : In v l -> length (remove_node v l) < length l.
Proof.
  induction l as [|a r IH]; intros H; [destruct H|]. simpl. destruct (Nat.eqb a v) eqn:E; simpl.
  - assert (length (remove_node v r) <= length r); [|lia].
    clear. induction r as [|b r IH]; simpl; [lia|]. destruct (negb (Nat.eqb b v)); simpl; lia.
  - destruct H as [H|H]; [subst; rewrite Nat.eqb_refl in E; discriminate|]. specialize (IH H). lia.
Qed.

Lemma peo_search_sound E fuel : forall l o, NoDup l -> peo_search E fuel l = Some o ->
  NoDup o /\ (forall v, In v o <-> In v l) /\ peo (Adj E) o.
Proof.
  induction fuel as [|f IH]; intros l o Hn H.
  - destruct l; [|discriminate]. inversion H; subst. split; [constructor|]. split; [tauto|exact I].
  - destruct l as [|a l']; [inversion H; subst; split; [constructor|]; split; [tauto|exact I]|].
    cbn [peo_search] in H. destruct (find (simplicialb E (a :: l')) (a :: l')) as [v|] eqn:Ef; [|discriminate].
    destruct (peo_search E f (remove_node v (a :: l'))) as [o'|] eqn:Er; [|discriminate].
    inversion H; subst. apply find_some in Ef. destruct Ef as [Hv Hs].
    destruct (IH _ _ (List.NoDup_filter _ Hn) Er) as (Hno & Hio & Hpo).
    split; [|split].
    + constructor; [|exact Hno]. intros Hi. apply Hio, In_remove_node in Hi. destruct Hi as [_ Hi]. congruence.
    + intros x. split.
      * intros [<-|Hx]; [exact Hv|]. apply Hio, In_remove_node in Hx. tauto.
      * intros Hx. destruct (Nat.eq_dec v x) as [->|Hne]; [left; reflexivity|right].
        apply Hio, In_remove_node. split; [exact Hx|]. intros E'. apply Hne. symmetry. exact E'.
    + split; [|exact Hpo]. intros x y Hx Hy Hne Hvx Hvy.
      apply Hio, In_remove_node in Hx. apply Hio, In_remove_node in Hy.
      apply (proj1 (simplicialb_spec E _ v Hn) Hs x y); tauto.
Qed.

Lemma peo_search_complete E fuel : forall l order, NoDup l -> length l <= fuel ->
  NoDup order -> (forall v, In v order <-> In v l) -> peo (Adj E) order ->
  exists o, peo_search E fuel l = Some o.
Proof.
  induction fuel as [|f IH]; intros l order Hn Hlen Hno Hio Hp.
  - destruct l; [eexists; reflexivity|simpl in Hlen; lia].
  - destruct l as [|a l']; [eexists; reflexivity|]. cbn [peo_search].
    set (l := a :: l') in *.
    destruct order as [|v0 rest]; [exfalso; apply (Hio a); left; reflexivity|].
    destruct Hp as [Hh Ht]. inversion Hno as [|? ? Hv0 Hnr]; subst.
    assert (Hs0 : simplicialb E l v0 = true).
    { apply simplicialb_spec; [exact Hn|]. intros x y Hx Hy Hxv Hyv Hne. apply Hh; [| |exact Hne].
      - apply Hio in Hx. destruct Hx as [Hx|Hx]; [congruence|exact Hx].
      - apply Hio in Hy. destruct Hy as [Hy|Hy]; [congruence|exact Hy]. }
    destruct (find (simplicialb E l) l) as [u|] eqn:Ef.
    + apply find_some in Ef. destruct Ef as [Hu Hsu].
      destruct (IH (remove_node u l) (remove_node u (v0 :: rest))) as [o' Ho'].
      * apply List.NoDup_filter. exact Hn.
      * pose proof (length_remove_node u l Hu). lia.
      * apply List.NoDup_filter. exact Hno.
      * intros x. rewrite !In_remove_node, Hio. reflexivity.
      * apply peo_filter. split; assumption.
      * rewrite Ho'. eexists; reflexivity.
    + exfalso. pose proof (find_none _ _ Ef v0) as Hc. rewrite Hs0 in Hc.
      assert (In v0 l) by (apply Hio; left; reflexivity). specialize (Hc H). discriminate.
Qed.

Theorem chordal_chk_spec g : chordal_chk g = true <-> chordal g.
Proof.
  unfold chordal_chk, chordal, is_peo. split.
  - destruct (peo_search (uedges g) (length (vertices g)) (vertices g)) as [o|] eqn:E; [|discriminate].
    intros _. exists o. apply (peo_search_sound _ _ _ _ (NoDup_udedup _) E).
  - intros [order (Hn & Hi & Hp)].
    destruct (peo_search_complete (uedges g) (length (vertices g)) (vertices g) order
                (NoDup_udedup _) (le_n _) Hn Hi Hp) as [o Ho].
    rewrite Ho. reflexivity.
Qed.

(* ------------------------------------------------------------------ triangulate as coded *)
Lemma fill_in_ns_eff order : forall ns E, fill_in_ns ns E order = fill_in E (eff_order ns order).
Proof.
  induction order as [|v rest IH]; intros ns E; [reflexivity|]. cbn [fill_in_ns eff_order].
  destruct (memn v ns); [|apply IH]. cbn [fill_in]. rewrite IH. reflexivity.
Qed.

Lemma In_eff_order order : forall ns v, In v (eff_order ns order) <-> In v ns /\ In v order.
Proof.
  induction order as [|w rest IH]; intros ns v; [simpl; tauto|]. cbn [eff_order].
  destruct (memn w ns) eqn:Ew.
  - apply memn_In in Ew. simpl. rewrite IH, In_remove_node.
    destruct (Nat.eq_dec w v) as [->|Hne]; [tauto|]. split.
    + intros [H|H]; [contradiction|tauto].
    + intros [H1 [H2|H2]]; [contradiction|]. right. split; [split; [exact H1|]|exact H2].
      intros E'. apply Hne. symmetry. exact E'.
  - apply memn_false in Ew. rewrite IH. simpl. split; [tauto|].
    intros [H1 [H2|H2]]; [subst; contradiction|tauto].
Qed.

Lemma NoDup_eff_order order : forall ns, NoDup (eff_order ns order).
Proof.
  induction order as [|w rest IH]; intros ns; [constructor|]. cbn [eff_order].
  destruct (memn w ns); [|apply IH]. constructor; [|apply IH].
  rewrite In_eff_order, In_remove_node. tauto.
Qed.

(* vertices without any edge may be appended to a perfect elimination ordering *)
Lemma peo_app_isolated (A : node -> node -> Prop) iso :
  (forall x y, In x iso -> ~ A x y /\ ~ A y x) -> forall l, peo A l -> peo A (l ++ iso).
Proof.
  intros Hiso. assert (Hb : peo A iso).
  { clear -Hiso. induction iso as [|v r IH]; [exact I|]. split.
    - intros x y _ _ _ Hvx _. exfalso. exact (proj1 (Hiso v x (or_introl eq_refl)) Hvx).
    - apply IH. intros x y Hx. apply Hiso. right. exact Hx. }
  induction l as [|v rest IH]; intros Hp; [exact Hb|]. destruct Hp as [Hh Ht]. split; [|apply IH; exact Ht].
  intros x y Hx Hy Hne Hvx Hvy. apply in_app_or in Hx, Hy.
  destruct Hx as [Hx|Hx]; [|exfalso; exact (proj2 (Hiso x v Hx) Hvx)].
  destruct Hy as [Hy|Hy]; [|exfalso; exact (proj2 (Hiso y v Hy) Hvy)].
  apply Hh; assumption.
Qed.

(* MarkovNetwork.triangulate as coded, ANY graph without self loops (isolated nodes included), any order
   that mentions every node having an edge (repeats and extra nodes are skipped by the code): edges and
   nodes are kept, the vertex set is unchanged, the result is chordal *)
Theorem triangulate_order_chordal g order inplace :
  noloop (uedges g) ->
  (forall v, In v (endpoints (uedges g)) -> In v order) ->
  let g' := triangulate_order g order inplace in
  (forall u v, Adj (uedges g) u v -> Adj (uedges g') u v) /\
  (forall v, In v (unodes g) -> In v (unodes g')) /\
  (forall v, In v (vertices g') <-> In v (vertices g)) /\ chordal g'.
Proof.
  intros Hnl Hcov. unfold triangulate_order. destruct (chordal_chk g) eqn:Ec.
  - cbn zeta. split; [tauto|]. split; [tauto|]. split; [tauto|]. apply chordal_chk_spec. exact Ec.
  - cbn zeta. rewrite fill_in_ns_eff.
    set (eo := eff_order (edge_nodes g) order).
    set (ns := if inplace then unodes g
               else edge_nodes g ++ filter (fun v => negb (memn v (edge_nodes g))) (unodes g)).
    set (g' := {| unodes := ns; uedges := uedges g ++ fill_in (uedges g) eo |}).
    assert (Heo : forall v, In v eo <-> In v (endpoints (uedges g))).
    { intros v. unfold eo. rewrite In_eff_order. unfold edge_nodes. rewrite In_udedup. split; [tauto|].
      intros H. split; [exact H|apply Hcov; exact H]. }
    assert (Hns : forall v, In v ns <-> In v (unodes g) \/ (inplace = false /\ In v (endpoints (uedges g)))).
    { intros v. unfold ns. destruct inplace.
      - split; [tauto|]. intros [H|[H _]]; [exact H|discriminate].
      - rewrite in_app_iff, filter_In, negb_true_iff. unfold edge_nodes. rewrite In_udedup. split.
        + intros [H|[H _]]; [right; tauto|left; exact H].
        + intros [H|[_ H]]; [|left; exact H].
          destruct (memn v (udedup (endpoints (uedges g)))) eqn:Em.
          * left. apply memn_In in Em. rewrite In_udedup in Em. exact Em.
          * right. split; [exact H|reflexivity]. }
    assert (Hvx : forall v, In v (vertices g') <-> In v (vertices g)).
    { intros v. unfold vertices. rewrite !In_udedup. cbn [unodes uedges g'].
      rewrite !in_app_iff, endpoints_fill_in, Hns. tauto. }
    split; [|split; [|split]].
    + intros u v Huv. cbn [uedges g']. apply Adj_app. left. exact Huv.
    + intros v Hv. cbn [unodes g']. apply Hns. left. exact Hv.
    + exact Hvx.
    + set (iso := filter (fun v => negb (memn v (endpoints (uedges g)))) (vertices g)).
      assert (Hiso : forall v, In v iso <-> In v (vertices g) /\ ~ In v (endpoints (uedges g))).
      { intros v. unfold iso. rewrite filter_In, negb_true_iff, memn_false. reflexivity. }
      exists (eo ++ iso). split; [|split].
      * apply RefFactor.NoDup_app_disj; [apply NoDup_eff_order|apply List.NoDup_filter; apply NoDup_udedup|].
        intros x Hx Hx'. apply Heo in Hx. apply Hiso in Hx'. tauto.
      * intros v. rewrite in_app_iff, Heo, Hiso, Hvx. unfold vertices. rewrite In_udedup, in_app_iff.
        destruct (in_dec Nat.eq_dec v (endpoints (uedges g))); tauto.
      * apply peo_app_isolated.
        -- intros x y Hx. apply Hiso in Hx. destruct Hx as [_ Hx]. cbn [uedges g'].
           assert (Hno : forall z, ~ Adj (uedges g ++ fill_in (uedges g) eo) x z).
           { intros z Hz. apply Hx. apply (endpoints_fill_in (uedges g) eo). apply In_endpoints.
             exists z. exact Hz. }
           split; [apply Hno|intros H; apply (Hno y); apply Adj_sym; exact H].
        -- cbn [uedges g']. apply fill_in_peo; [apply NoDup_eff_order|exact Hnl].
Qed.
