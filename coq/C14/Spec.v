(* C14 specification: what the targets of the conversions must be.  No algorithms. *)
From Coq Require Import List Bool Arith.
From PV Require Import Base.Semiring Base.FinSum Base.RefFactor Base.Reach Base.Graph C14.UGraph C14.Model.
Import ListNotations.

(* ---- moral graph (Koller & Friedman def. 4.12): u - v iff distinct and adjacent in the DAG or
   parents of a common child *)
Definition moral_spec (g : digraph) (u v : node) : Prop :=
  u <> v /\ (In (u, v) (edges g) \/ In (v, u) (edges g) \/
             exists c, In (u, c) (edges g) /\ In (v, c) (edges g)).

(* ---- chordal graph.  DEFINITION CHOSEN: existence of a perfect elimination ordering -- an ordering
   of all vertices in which the LATER neighbours of every vertex are pairwise adjacent.  (By
   Fulkerson & Gross 1965 this is equivalent to "every cycle of length >= 4 has a chord"; that
   equivalence is classical graph theory and is not re-proved here.) *)
Fixpoint peo (A : node -> node -> Prop) (order : list node) : Prop :=
  match order with
  | [] => True
  | v :: rest => (forall x y, In x rest -> In y rest -> x <> y -> A v x -> A v y -> A x y) /\ peo A rest
  end.
Definition is_peo (g : ugraph) (order : list node) : Prop :=
  NoDup order /\ (forall v, In v order <-> In v (vertices g)) /\ peo (Adj (uedges g)) order.
Definition chordal (g : ugraph) : Prop := exists order, is_peo g order.

Definition supergraph (g g' : ugraph) : Prop :=
  incl (unodes g) (unodes g') /\ forall u v, Adj (uedges g) u v -> Adj (uedges g') u v.

(* ---- clique tree over cliques numbered 0..n-1.
   tree: DEFINITION CHOSEN: connected with exactly n-1 edges (equivalent to connected and acyclic).
   RIP: for every variable x, any two cliques containing x are joined by a path all of whose cliques
   contain x (in a tree the path is unique, so this is the running-intersection property of Koller &
   Friedman def. 10.2). *)
Definition conn_on (edges : list (nat * nat)) (S : list nat) : Prop :=
  forall i j, In i S -> In j S -> reach nat (tnext edges S) [i] j.
Definition is_tree (t : jtree) : Prop :=
  let n := length (jcliques t) in
  0 < n /\ (forall e, In e (jedges t) -> fst e < n /\ snd e < n) /\
  length (jedges t) + 1 = n /\ conn_on (jedges t) (seq 0 n).
Definition covers (t : jtree) (scopes : list (list node)) : Prop :=
  forall s, In s scopes -> exists c, In c (jcliques t) /\ incl s c.
Definition rip (t : jtree) : Prop := forall x, conn_on (jedges t) (holders t x).

(* ---- the joint distribution is the pointwise product of the factor multiset ---------------- *)
Section Joint.
Variable R : csr.
Variable card : var -> nat.
(* unnormalised joint at assignment a; a list IS a multiset with multiplicity here *)
Definition joint (fs : list (factor R)) (a : asg) : R := eval_prod R card fs a.
Definition same_joint (fs gs : list (factor R)) : Prop :=
  forall a, valid card a -> joint fs a = joint gs a.
(* Z = sum over all joint assignments of the variables vs *)
Definition Zsum (vs : list var) (fs : list (factor R)) : R :=
  sum_over vs (map card vs) (joint fs) a0.
End Joint.
