(* C14 entry points for the extracted driver: sx -> sx.  Values are exact rationals (Qc), variables
   are 0..n-1 with cardinalities given as a list indexed by variable. *)
From Coq Require Import List Bool Arith ZArith QArith Qcanon.
From PV Require Import Base.Sx Base.Semiring Base.Ravel Base.FinSum Base.RefFactor Base.Graph
  C14.UGraph C14.Model.
Import ListNotations.

Definition QR := Qc_sum_csr.
Definition qfactor := factor QR.
Definition cardf (l : list nat) (v : var) : nat := nth v l 1%nat.
Definition qeq (x y : Qc) : bool := Qc_eq_bool x y.

Definition dec_factor (s : sx) : option qfactor :=
  match s with
  | SL [sv; sx_] => match sx_list sx_nat sv, sx_list sx_Qc sx_ with
                    | Some v, Some x => Some (Build_factor QR v x)
                    | _, _ => None
                    end
  | _ => None
  end.
Definition enc_factor (f : qfactor) : sx := SL [of_list of_nat (fvars f); of_list of_Qc (fvals f)].
Definition dec_edges (s : sx) : option (list (nat * nat)) := sx_list (sx_pair sx_nat sx_nat) s.
Definition enc_edges (l : list (nat * nat)) : sx := of_list (of_pair of_nat of_nat) l.
Definition dec_ugraph (sn se : sx) : option ugraph :=
  match sx_list sx_nat sn, dec_edges se with
  | Some ns, Some es => Some {| unodes := ns; uedges := es |}
  | _, _ => None
  end.
Definition enc_ugraph (g : ugraph) : sx := SL [of_list of_nat (unodes g); enc_edges (uedges g)].
Definition dec_cpd (s : sx) : option (cpd QR) :=
  match s with
  | SL [sc; sp; sv] => match sx_nat sc, sx_list sx_nat sp, sx_list sx_Qc sv with
                       | Some c, Some p, Some v => Some (Build_cpd QR c p v)
                       | _, _, _ => None
                       end
  | _ => None
  end.
Definition of_result {A} (e : A -> sx) (r : result A) : sx :=
  match r with Ok a => sx_ok (e a) | Err c => sx_err (Z.of_nat c) end.

(* [nodes edges] (directed) -> moral graph [nodes edges] *)
Definition run_c14_moral (s : sx) : sx :=
  match s with
  | SL [sn; se] =>
      match sx_list sx_nat sn, dec_edges se with
      | Some ns, Some es => sx_ok (enc_ugraph (moral_graph {| nodes := ns; edges := es |}))
      | _, _ => bad_request
      end
  | _ => bad_request
  end.

(* [nodes edges cpds] -> [[nodes edges] factors] of to_markov_model *)
Definition run_c14_bn2mn (s : sx) : sx :=
  match s with
  | SL [sn; se; sc] =>
      match sx_list sx_nat sn, dec_edges se, sx_list dec_cpd sc with
      | Some ns, Some es, Some cs =>
          let m := bn_to_mn QR {| nodes := ns; edges := es |} cs in
          sx_ok (SL [enc_ugraph (mgraph QR m); of_list enc_factor (mfactors QR m)])
      | _, _, _ => bad_request
      end
  | _ => bad_request
  end.

(* [nodes edges factors] -> check_model passes? *)
Definition run_c14_mncheck (s : sx) : sx :=
  match s with
  | SL [sn; se; sf] =>
      match dec_ugraph sn se, sx_list dec_factor sf with
      | Some g, Some fs => sx_ok (of_bool (mn_check QR {| mgraph := g; mfactors := fs |}))
      | _, _ => bad_request
      end
  | _ => bad_request
  end.

(* [cards factors] -> partition function (factors non-empty) *)
Definition run_c14_partition (s : sx) : sx :=
  match s with
  | SL [sc; sf] =>
      match sx_list sx_nat sc, sx_list dec_factor sf with
      | Some cs, Some (f :: fs) => sx_ok (of_Qc (partition QR (cardf cs) (f :: fs)))
      | _, _ => bad_request
      end
  | _ => bad_request
  end.

(* [cards factors vars] -> table over vars (row-major) of the pointwise product of all factors *)
Definition run_c14_joint (s : sx) : sx :=
  match s with
  | SL [sc; sf; sv] =>
      match sx_list sx_nat sc, sx_list dec_factor sf, sx_list sx_nat sv with
      | Some cs, Some fs, Some vs =>
          sx_ok (of_list of_Qc
            (t_build Qc (map (cardf cs) vs) (fun idx => eval_prod QR (cardf cs) fs (asg_of vs idx))))
      | _, _, _ => bad_request
      end
  | _ => bad_request
  end.

(* [nodes edges factors] -> [vars fnodes fedges factors] *)
Definition run_c14_mn2fg (s : sx) : sx :=
  match s with
  | SL [sn; se; sf] =>
      match dec_ugraph sn se, sx_list dec_factor sf with
      | Some g, Some fs =>
          let fg := mn_to_fg QR {| mgraph := g; mfactors := fs |} in
          sx_ok (SL [of_list of_nat (fg_vars QR fg); of_list (of_list of_nat) (fg_fnodes QR fg);
                     of_list (of_pair of_nat (of_list of_nat)) (fg_edges QR fg);
                     of_list enc_factor (fg_factors QR fg)])
      | _, _ => bad_request
      end
  | _ => bad_request
  end.

(* [cards factors] -> [[nodes edges] factors] | error 5 *)
Definition run_c14_fg2mn (s : sx) : sx :=
  match s with
  | SL [sc; sf] =>
      match sx_list sx_nat sc, sx_list dec_factor sf with
      | Some cs, Some fs =>
          of_result (fun m => SL [enc_ugraph (mgraph QR m); of_list enc_factor (mfactors QR m)])
                    (fg_to_mn QR (cardf cs) qeq fs)
      | _, _ => bad_request
      end
  | _ => bad_request
  end.

(* [nodes edges] -> chordal? *)
Definition run_c14_chordal (s : sx) : sx :=
  match s with
  | SL [sn; se] =>
      match dec_ugraph sn se with
      | Some g => sx_ok (of_bool (chordal_chk g))
      | None => bad_request
      end
  | _ => bad_request
  end.

(* [nodes edges order inplace] -> [nodes edges] *)
Definition run_c14_triangulate (s : sx) : sx :=
  match s with
  | SL [sn; se; so; si] =>
      match dec_ugraph sn se, sx_list sx_nat so, sx_bool si with
      | Some g, Some o, Some i => sx_ok (enc_ugraph (triangulate_order g o i))
      | _, _, _ => bad_request
      end
  | _ => bad_request
  end.

(* [h cards nodes edges order] -> is the order a possible outcome of heuristic h? *)
Definition run_c14_heur (s : sx) : sx :=
  match s with
  | SL [sh; sc; sn; se; so] =>
      match sx_nat sh, sx_list sx_nat sc, dec_ugraph sn se, sx_list sx_nat so with
      | Some h, Some cs, Some g, Some o => sx_ok (of_bool (heur_order_ok h (cardf cs) g o))
      | _, _, _, _ => bad_request
      end
  | _ => bad_request
  end.

(* [nodes edges] -> all maximal cliques (brute force) *)
Definition run_c14_maxcliques (s : sx) : sx :=
  match s with
  | SL [sn; se] =>
      match dec_ugraph sn se with
      | Some g => sx_ok (of_list (of_list of_nat) (all_max_cliques g))
      | None => bad_request
      end
  | _ => bad_request
  end.

(* [cliques tree-edges scopes] -> [tree cover rip] *)
Definition run_c14_jtchk (s : sx) : sx :=
  match s with
  | SL [sc; se; ss] =>
      match sx_list (sx_list sx_nat) sc, dec_edges se, sx_list (sx_list sx_nat) ss with
      | Some cs, Some es, Some scopes =>
          let t := {| jcliques := cs; jedges := es |} in
          sx_ok (SL [of_bool (tree_chk t); of_bool (cover_chk t scopes); of_bool (rip_chk t)])
      | _, _, _ => bad_request
      end
  | _ => bad_request
  end.

(* [cards cliques factors] -> clique potentials in clique order | error 6 *)
Definition run_c14_jtpots (s : sx) : sx :=
  match s with
  | SL [sc; sq; sf] =>
      match sx_list sx_nat sc, sx_list (sx_list sx_nat) sq, sx_list dec_factor sf with
      | Some cs, Some qs, Some fs =>
          of_result (of_list enc_factor) (jt_potentials QR (cardf cs) qs fs)
      | _, _, _ => bad_request
      end
  | _ => bad_request
  end.

(* [nodes edges v] -> MarkovNetwork.markov_blanket(v) *)
Definition run_c14_blanket (s : sx) : sx :=
  match s with
  | SL [sn; se; sv] =>
      match dec_ugraph sn se, sx_nat sv with
      | Some g, Some v => sx_ok (of_list of_nat (nbrs (uedges g) v))
      | _, _ => bad_request
      end
  | _ => bad_request
  end.

(* [nodes old-factors new-factors] -> [factors-after ok] of add_factors *)
Definition run_c14_addfactors (s : sx) : sx :=
  match s with
  | SL [sn; sf; sg] =>
      match sx_list sx_nat sn, sx_list dec_factor sf, sx_list dec_factor sg with
      | Some ns, Some fs, Some new =>
          let r := add_factors QR ns fs new in
          sx_ok (SL [of_list enc_factor (fst r); of_bool (snd r)])
      | _, _, _ => bad_request
      end
  | _ => bad_request
  end.

(* [nodes edges cliques] -> does the listing consist of exactly the maximal cliques? (verified checker) *)
Definition run_c14_mcchk (s : sx) : sx :=
  match s with
  | SL [sn; se; sc] =>
      match dec_ugraph sn se, sx_list (sx_list sx_nat) sc with
      | Some g, Some cs => sx_ok (of_bool (max_cliques_chk g cs))
      | _, _ => bad_request
      end
  | _ => bad_request
  end.

(* [cliques tree-edges] -> [weight wstar]: weight = sum of sepset sizes, wstar = the bound only junction trees reach *)
Definition run_c14_jtweight (s : sx) : sx :=
  match s with
  | SL [sc; se] =>
      match sx_list (sx_list sx_nat) sc, dec_edges se with
      | Some cs, Some es =>
          let t := {| jcliques := cs; jedges := es |} in sx_ok (SL [of_nat (weight t); of_nat (wstar t)])
      | _, _ => bad_request
      end
  | _ => bad_request
  end.
