(* C14 -- Model conversions preserve the distribution and produce valid targets.
   Only the property theorems; every proof is `exact <lemma>` (ProofsGraph.v, ProofsJT.v). *)
From Coq Require Import List Bool Arith ZArith QArith Qcanon.
From PV Require Import Base.Semiring Base.Ravel Base.FinSum Base.RefFactor Base.Reach Base.Graph
  C14.UGraph C14.Model C14.Spec C14.ProofsGraph C14.ProofsJT C14.ProofsRIP C14.ProofsCliques C14.Run.
Import ListNotations.
Local Open Scope nat_scope.

(* ---- moral graph: DAG.moralize() keeps the nodes and joins u - v iff they are distinct and adjacent
   in the DAG or parents of a common child.  Every DAG (no size bound); the hypotheses are networkx
   DiGraph storage facts (edges between known nodes, each edge once) and "no self loop" (acyclicity). *)
Theorem C14_moral_graph : forall g u v,
  wf_graph g -> NoDup (edges g) -> (forall a, ~ In (a, a) (edges g)) ->
  unodes (moral_graph g) = nodes g /\
  (Adj (uedges (moral_graph g)) u v <-> moral_spec g u v).
Proof. intros g u v Hw Hn Hl. split; [reflexivity|exact (moral_graph_spec g u v Hw Hn Hl)]. Qed.
Print Assumptions C14_moral_graph.

(* ---- BN -> MN: the graph is the moral graph, there is one factor per CPD with the CPD's scope, and
   the product of the factors is the product of the CPDs at every assignment (any csr, any cards) *)
Theorem C14_bn_to_mn_joint : forall (R : csr) (card : var -> nat) g (cpds : list (cpd R)) a,
  mgraph R (bn_to_mn R g cpds) = moral_graph g /\
  map fvars (mfactors R (bn_to_mn R g cpds)) = map (cpd_scope R) cpds /\
  joint R card (mfactors R (bn_to_mn R g cpds)) a = prod_list (map (fun c => cpd_eval R card c a) cpds).
Proof.
  intros R card g cpds a. split; [reflexivity|]. split; [exact (bn_to_mn_scopes R g cpds)|].
  exact (bn_to_mn_joint R card g cpds a).
Qed.
Print Assumptions C14_bn_to_mn_joint.

(* ... and every factor scope is pairwise adjacent in the moral graph (MarkovNetwork.check_model) *)
Theorem C14_bn_to_mn_valid : forall (R : csr) g (c : cpd R),
  wf_graph g -> NoDup (edges g) -> (forall a, ~ In (a, a) (edges g)) ->
  (forall p, In p (cpars R c) -> In (p, cchild R c) (edges g)) ->
  is_clique (uedges (moral_graph g)) (cpd_scope R c).
Proof. exact bn_to_mn_scope_clique. Qed.
Print Assumptions C14_bn_to_mn_valid.

(* ---- add_factors (sessions): the valid prefix is appended in order with multiplicity, nothing else
   changes; the call raises iff some factor mentions a non-node, and the factors before it stay added *)
Theorem C14_add_factors : forall (R : csr) ns new fs,
  add_factors R ns fs new = (fs ++ valid_prefix R ns new, forallb (fun f => subsetn (fvars f) ns) new).
Proof. exact add_factors_spec. Qed.
Print Assumptions C14_add_factors.

(* ---- MN -> FG: the factor LIST is unchanged -- same multiset with multiplicity, hence same joint
   and same partition function *)
Theorem C14_mn_to_fg_joint : forall (R : csr) (card : var -> nat) (m : mnet R),
  fg_factors R (mn_to_fg R m) = mfactors R m /\
  same_joint R card (fg_factors R (mn_to_fg R m)) (mfactors R m) /\
  partition R card (fg_factors R (mn_to_fg R m)) = partition R card (mfactors R m).
Proof. intros R card m. split; [reflexivity|]. split; [intros a _; reflexivity|reflexivity]. Qed.
Print Assumptions C14_mn_to_fg_joint.

(* ---- FG -> MN: when the conversion succeeds the factor list is unchanged (with multiplicity) and
   every scope is a clique of the new graph *)
Theorem C14_fg_to_mn_joint : forall (R : csr) (card : var -> nat) (eqR : R -> R -> bool) fs m,
  fg_to_mn R card eqR fs = Ok m ->
  mfactors R m = fs /\
  forall f, In f fs -> NoDup (fvars f) -> is_clique (uedges (mgraph R m)) (fvars f).
Proof.
  intros R card eqR fs m H. split; [exact (fg_to_mn_factors R card eqR fs m H)|].
  intros f. exact (fg_to_mn_scope_clique R card eqR fs m f H).
Qed.
Print Assumptions C14_fg_to_mn_joint.

(* ---- triangulation: the elimination game along ANY duplicate-free order that covers the vertices
   yields a supergraph for which that very order is a perfect elimination ordering (so it is chordal,
   Spec.chordal).  Every graph without self loops, no size bound. *)
Theorem C14_triangulate_chordal : forall ns E order,
  noloop E -> NoDup order -> (forall v, In v order <-> In v (ns ++ endpoints E)) ->
  let g := {| unodes := ns; uedges := E |} in
  let g' := {| unodes := ns; uedges := E ++ fill_in E order |} in
  supergraph g g' /\ is_peo g' order.
Proof. exact fill_in_chordal. Qed.
Print Assumptions C14_triangulate_chordal.

(* MarkovNetwork.triangulate as coded after repair 0de2e66 (early return when already chordal; inplace
   both ways; nodes of the order that are not in the working graph -- isolated, repeated, unknown -- are
   skipped): for EVERY graph without self loops, isolated nodes included, and every order mentioning
   each node that has an edge, the result keeps all edges and nodes, has the same vertices and is chordal. *)
Theorem C14_triangulate_as_coded : forall g order inplace,
  noloop (uedges g) ->
  (forall v, In v (endpoints (uedges g)) -> In v order) ->
  let g' := triangulate_order g order inplace in
  (forall u v, Adj (uedges g) u v -> Adj (uedges g') u v) /\
  (forall v, In v (unodes g) -> In v (unodes g')) /\
  (forall v, In v (vertices g') <-> In v (vertices g)) /\ chordal g'.
Proof. exact triangulate_order_chordal. Qed.
Print Assumptions C14_triangulate_as_coded.

(* ---- verified chordality checker (applied by the harness to pgmpy's output under every heuristic) *)
Theorem C14_chordal_chk : forall g, chordal_chk g = true <-> chordal g.
Proof. exact chordal_chk_spec. Qed.
Print Assumptions C14_chordal_chk.

(* ---- verified clique-tree checkers (applied to pgmpy's junction trees) *)
Theorem C14_jt_structure_tree : forall t, tree_chk t = true <-> is_tree t.
Proof. exact tree_chk_spec. Qed.
Print Assumptions C14_jt_structure_tree.
Theorem C14_jt_structure_cover : forall t scopes, cover_chk t scopes = true <-> covers t scopes.
Proof. exact cover_chk_spec. Qed.
Print Assumptions C14_jt_structure_cover.
Theorem C14_jt_structure_rip : forall t, rip_chk t = true <-> rip t.
Proof. exact rip_chk_spec. Qed.
Print Assumptions C14_jt_structure_rip.

(* ---- clique potentials (after repair f4ac9f9: is_used keyed by position).  FULL STATEMENT, now
   unconditional: whenever to_junction_tree's assignment loop succeeds, the product of the clique
   potentials is the product of ALL factors at every assignment -- equal factors included. *)
Theorem C14_jt_joint : forall (R : csr) (card : var -> nat) cliques fs ps,
  Forall (wf R card) fs -> Forall (@NoDup var) cliques ->
  jt_potentials R card cliques fs = Ok ps ->
  same_joint R card ps fs.
Proof. exact jt_joint. Qed.
Print Assumptions C14_jt_joint.

(* ... and the loop does succeed (no "All the factors were not used") whenever the cliques cover every
   factor scope, which cover_chk establishes for pgmpy's cliques *)
Theorem C14_jt_all_factors_used : forall (R : csr) (card : var -> nat) cliques fs,
  covers {| jcliques := cliques; jedges := [] |} (map fvars fs) ->
  exists ps, jt_potentials R card cliques fs = Ok ps.
Proof. exact jt_potentials_total. Qed.
Print Assumptions C14_jt_all_factors_used.

(* ---- partition function: get_partition_function() is the sum over all joint assignments of the
   variables of the pointwise product of the factors ... *)
Theorem C14_partition_function : forall (R : csr) (card : var -> nat),
  (forall v, 0 < card v) ->
  forall fs, Forall (wf R card) fs ->
  partition R card fs = Zsum R card (fvars (fprod1 R card fs)) fs /\
  (forall x, In x (fvars (fprod1 R card fs)) <-> exists f, In f fs /\ In x (fvars f)).
Proof.
  intros R card Hc fs Hw. split; [exact (partition_spec R card Hc fs Hw)|].
  intros x. exact (In_fvars_fprod1 R card fs x).
Qed.
Print Assumptions C14_partition_function.

(* ... so two factor lists with the same joint over the same variables have the same Z (axis orders
   are irrelevant) ... *)
Theorem C14_partition_same_joint : forall (R : csr) (card : var -> nat),
  (forall v, 0 < card v) ->
  forall fs gs, Forall (wf R card) fs -> Forall (wf R card) gs ->
  same_joint R card fs gs ->
  (forall x, In x (fvars (fprod1 R card fs)) <-> In x (fvars (fprod1 R card gs))) ->
  partition R card fs = partition R card gs.
Proof. exact partition_same_joint. Qed.
Print Assumptions C14_partition_same_joint.

(* ... in particular the junction tree *)
Theorem C14_jt_partition : forall (R : csr) (card : var -> nat),
  (forall v, 0 < card v) ->
  forall cliques fs ps,
  Forall (wf R card) fs -> Forall (@NoDup var) cliques ->
  jt_potentials R card cliques fs = Ok ps ->
  (forall x, In x (fvars (fprod1 R card ps)) <-> In x (fvars (fprod1 R card fs))) ->
  partition R card ps = partition R card fs.
Proof. exact jt_partition. Qed.
Print Assumptions C14_jt_partition.

(* ================================================================== the clique-tree CONSTRUCTION (all n)
   Definitions (ProofsRIP.v / Model.v): clique_in E V C = C duplicate-free, inside V, pairwise adjacent;
   max_cliques_of E V F = F lists exactly the maximal cliques of (V,E) (every member is a clique, every clique lies
   in a member, no member lies in another); weight t = sum over the tree edges of |C_i n C_j| (pgmpy passes its
   negative to nx.minimum_spanning_tree); max_weight_tree t = t is a spanning tree (is_tree) and no spanning tree on
   the same cliques is heavier; wstar t = sum over the variables of (number of cliques holding it - 1). *)

(* Jensen & Jensen, one direction: if the cliques have SOME junction tree, EVERY maximum-weight spanning tree of the
   clique graph has the running-intersection property.  Any family of duplicate-free cliques. *)
Theorem C14_max_weight_rip : forall t, cliques_nodup t ->
  (exists E0, is_tree {| jcliques := jcliques t; jedges := E0 |} /\ rip {| jcliques := jcliques t; jedges := E0 |}) ->
  max_weight_tree t -> rip t.
Proof. exact max_weight_rip. Qed.
Print Assumptions C14_max_weight_rip.

(* the maximal cliques of a graph with a perfect elimination ordering have a junction tree (induction along the
   ordering; every graph, no size bound) *)
Theorem C14_chordal_clique_tree_exists : forall E order, NoDup order -> peo (Adj E) order ->
  forall F, max_cliques_of E order F ->
  exists E0, is_tree {| jcliques := F; jedges := E0 |} /\ rip {| jcliques := F; jedges := E0 |}.
Proof. exact rip_tree_exists. Qed.
Print Assumptions C14_chordal_clique_tree_exists.

(* hence: maximal cliques of a chordal graph + ANY maximum-weight spanning tree of the clique graph = a connected
   clique tree with the running-intersection property *)
Theorem C14_chordal_max_weight_junction_tree : forall g t,
  chordal g -> max_cliques_of (uedges g) (vertices g) (jcliques t) -> max_weight_tree t ->
  is_tree t /\ rip t.
Proof. exact chordal_max_weight_rip. Qed.
Print Assumptions C14_chordal_max_weight_junction_tree.

(* the model's maximal-clique enumerator is correct, and the checker applied to nx.find_cliques' listing is sound *)
Theorem C14_all_max_cliques : forall g, max_cliques_of (uedges g) (vertices g) (all_max_cliques g).
Proof. exact all_max_cliques_spec. Qed.
Print Assumptions C14_all_max_cliques.
Theorem C14_max_cliques_chk_sound : forall g F,
  max_cliques_chk g F = true -> max_cliques_of (uedges g) (vertices g) F.
Proof. exact max_cliques_chk_sound. Qed.
Print Assumptions C14_max_cliques_chk_sound.

(* no spanning tree weighs more than wstar, so weight >= wstar certifies maximum weight (the per-run certificate for
   the output of nx.minimum_spanning_tree) *)
Theorem C14_max_weight_certificate : forall t,
  is_tree t -> cliques_nodup t -> wstar t <= weight t -> max_weight_tree t.
Proof. exact wstar_certifies_max. Qed.
Print Assumptions C14_max_weight_certificate.

(* MarkovNetwork.to_junction_tree of the model, for EVERY Markov network whose factor scopes are cliques (check_model):
   triangulate as coded (any heuristic's order), the maximal cliques of the result, any maximum-weight spanning tree:
   a connected tree, covering every factor scope, with the running-intersection property ... *)
Theorem C14_junction_tree_construction : forall g order inplace F E0 scopes,
  noloop (uedges g) ->
  (forall v, In v (endpoints (uedges g)) -> In v order) ->
  let g' := triangulate_order g order inplace in
  let t := {| jcliques := F; jedges := E0 |} in
  max_cliques_of (uedges g') (vertices g') F ->
  max_weight_tree t ->
  (forall s, In s scopes -> clique_in (uedges g) (vertices g) s) ->
  is_tree t /\ covers t scopes /\ rip t.
Proof. exact junction_tree_construction. Qed.
Print Assumptions C14_junction_tree_construction.

(* ... whose clique potentials exist (every factor is used) and multiply to the product of all the factors: the
   junction-tree joint equals the source joint, without a per-run certificate *)
Theorem C14_junction_tree_joint : forall (R : csr) (card : var -> nat) g order inplace F E0 (fs : list (factor R)),
  noloop (uedges g) ->
  (forall v, In v (endpoints (uedges g)) -> In v order) ->
  let g' := triangulate_order g order inplace in
  let t := {| jcliques := F; jedges := E0 |} in
  max_cliques_of (uedges g') (vertices g') F ->
  max_weight_tree t ->
  Forall (wf R card) fs ->
  (forall f, In f fs -> incl (fvars f) (vertices g) /\ is_clique (uedges g) (fvars f)) ->
  is_tree t /\ covers t (map fvars fs) /\ rip t /\
  exists ps, jt_potentials R card F fs = Ok ps /\ same_joint R card ps fs.
Proof. exact junction_tree_joint. Qed.
Print Assumptions C14_junction_tree_joint.

(* ================================================================== non-vacuity examples *)
Local Open Scope nat_scope.
(* a collider 0 -> 2 <- 1: the moral graph marries 0 and 1 *)
Definition ex_collider : digraph := {| nodes := [0; 1; 2]; edges := [(0, 2); (1, 2)] |}.
Example ex_moral : Adj (uedges (moral_graph ex_collider)) 0 1 /\ NoDup (edges ex_collider).
Proof. split; [left; simpl; tauto|repeat constructor; simpl; intuition discriminate]. Qed.

(* the 4-cycle is not chordal; eliminating 0,1,2,3 adds the chord 1-3 and makes it chordal *)
Definition c4 : ugraph := {| unodes := [0; 1; 2; 3]; uedges := [(0, 1); (1, 2); (2, 3); (3, 0)] |}.
Example ex_c4_not_chordal : chordal_chk c4 = false. Proof. vm_compute. reflexivity. Qed.
Example ex_c4_triangulated :
  exists g', triangulate_order c4 [0; 1; 2; 3] false = g' /\ chordal_chk g' = true /\ Adj (uedges g') 1 3.
Proof. eexists. split; [vm_compute; reflexivity|]. split; [vm_compute; reflexivity|left; simpl; tauto]. Qed.

(* a junction tree {0,1} - {1,2} - {2,3} passes all three checkers; swapping to a non-RIP tree fails *)
Definition jt_ok : jtree := {| jcliques := [[0; 1]; [1; 2]; [2; 3]]; jedges := [(0, 1); (1, 2)] |}.
Definition jt_bad : jtree := {| jcliques := [[0; 1]; [2; 3]; [1; 2]; [1; 4]]; jedges := [(0, 1); (1, 2); (1, 3)] |}.
Example ex_jt_ok : tree_chk jt_ok = true /\ cover_chk jt_ok [[1; 0]; [2]; [3; 2]] = true /\ rip_chk jt_ok = true.
Proof. vm_compute. auto. Qed.
Example ex_jt_bad : tree_chk jt_bad = true /\ rip_chk jt_bad = false.
Proof. vm_compute. auto. Qed.

(* the former witness of defect D2 (two equal factors phi(A,B) = [1,2,3,4], one clique {B,A}; before
   f4ac9f9 the junction tree had Z = 10 and joint 4 at A=B=1): both copies are now multiplied in *)
Definition card2 : var -> nat := fun _ => 2.
Definition q (n : Z) : Qc := Q2Qc (n # 1)%Q.
Definition phiAB : qfactor := Build_factor QR [0; 1] [q 1; q 2; q 3; q 4].
Definition jt_dup_pots : list qfactor :=
  match jt_potentials QR card2 [[1; 0]] [phiAB; phiAB] with Ok p => p | Err _ => [] end.
Definition a11 : asg := fun _ => 1.
Example ex_former_witness :
  jt_potentials QR card2 [[1; 0]] [phiAB; phiAB] = Ok jt_dup_pots /\
  joint QR card2 jt_dup_pots a11 = q 16 /\ joint QR card2 [phiAB; phiAB] a11 = q 16 /\
  partition QR card2 jt_dup_pots = q 30 /\ partition QR card2 [phiAB; phiAB] = q 30.
Proof.
  split; [vm_compute; reflexivity|]. repeat split; apply Qc_is_canon; vm_compute; reflexivity.
Qed.

(* an isolated node 4 beside the 4-cycle: triangulate keeps it and the result is chordal *)
Definition c4iso : ugraph := {| unodes := [0; 1; 2; 3; 4]; uedges := [(0, 1); (1, 2); (2, 3); (3, 0)] |}.
Example ex_c4iso : let g' := triangulate_order c4iso [4; 0; 1; 2; 3] false in
  chordal_chk c4iso = false /\ chordal_chk g' = true /\ In 4 (unodes g').
Proof. vm_compute. repeat split; auto 10. Qed.

(* the 4-cycle triangulated along 0,1,2,3: its maximal cliques {0,1,3},{1,2,3} are recognised, the one-edge tree is
   a maximum-weight spanning tree by the certificate (weight 2 = wstar), hence a junction tree by the theorems *)
Example ex_construction :
  let g' := triangulate_order c4 [0; 1; 2; 3] false in
  let t := {| jcliques := [[0; 1; 3]; [1; 2; 3]]; jedges := [(0, 1)] |} in
  max_cliques_chk g' (jcliques t) = true /\ tree_chk t = true /\ weight t = 2 /\ wstar t = 2 /\ rip t.
Proof.
  intros g' t. assert (Hm : max_cliques_chk g' (jcliques t) = true) by (vm_compute; reflexivity).
  assert (Ht : tree_chk t = true) by (vm_compute; reflexivity).
  assert (Hw : weight t = 2) by (vm_compute; reflexivity). assert (Hs : wstar t = 2) by (vm_compute; reflexivity).
  repeat split; try assumption.
  apply (C14_chordal_max_weight_junction_tree g' t).
  - apply C14_chordal_chk. vm_compute. reflexivity.
  - apply C14_max_cliques_chk_sound. exact Hm.
  - apply C14_max_weight_certificate; [apply C14_jt_structure_tree; exact Ht| |rewrite Hw, Hs; apply le_n].
    intros c Hc. cbn in Hc. destruct Hc as [<-|[<-|[]]]; repeat constructor; simpl; intuition discriminate.
Qed.
