(* C14 model: pgmpy's model conversions as coded (incl. repairs f4ac9f9, 0de2e66).
     DAG.moralize; BayesianNetwork.to_markov_model; MarkovNetwork.check_model / to_factor_graph /
     triangulate / to_junction_tree / get_partition_function / markov_blanket;
     FactorGraph.check_model / to_markov_model; UndirectedGraph.is_triangulated.
   Executable definitions only (no proofs).  Python set/dict iteration orders are explicit order
   parameters.  networkx's find_cliques / minimum_spanning_tree are not re-implemented: the
   junction-tree construction takes their outputs (cliques in node order, tree edges) as inputs and
   the checkers below validate them; a brute-force maximal-clique enumerator is provided for
   cross-checking on small graphs. *)
From Coq Require Import List Bool Arith PeanoNat ZArith.
From PV Require Import Base.Semiring Base.Ravel Base.FinSum Base.RefFactor Base.Reach Base.Graph C14.UGraph.
Import ListNotations.

(* ================================================================== graphs *)

(* DAG.moralize(): nodes, the undirected version of every edge, and all pairs of parents of each node *)
Definition moral_graph (g : digraph) : ugraph :=
  {| unodes := nodes g;
     uedges := edges g ++ flat_map (fun n => pairs (parents g n)) (nodes g) |}.

(* the elimination loop of MarkovNetwork.triangulate:
     for node in order:
         for edge in combinations(graph_copy.neighbors(node), 2): graph_copy.add_edge(edge[0], edge[1]); edge_set.add(edge)
         graph_copy.remove_node(node)
   returns edge_set (as a list, with repetitions) *)
Fixpoint fill_in (E : list uedge) (order : list node) : list uedge :=
  match order with
  | [] => []
  | v :: rest => let F := pairs (nbrs E v) in F ++ fill_in (del_node v (E ++ F)) rest
  end.

(* v is simplicial in the subgraph induced on l: its neighbours inside l form a clique *)
Definition simplicialb (E : list uedge) (l : list node) (v : node) : bool :=
  is_cliqueb E (filter (fun x => negb (Nat.eqb x v) && adjb E v x) l).
Definition remove_node (v : node) (l : list node) : list node := filter (fun x => negb (Nat.eqb x v)) l.

(* greedy search for a perfect elimination ordering: repeatedly delete any simplicial vertex *)
Fixpoint peo_search (E : list uedge) (fuel : nat) (l : list node) : option (list node) :=
  match l with
  | [] => Some []
  | _ :: _ =>
      match fuel with
      | 0 => None
      | S f =>
          match find (simplicialb E l) l with
          | None => None
          | Some v => match peo_search E f (remove_node v l) with
                      | Some o => Some (v :: o)
                      | None => None
                      end
          end
      end
  end.

(* UndirectedGraph.is_triangulated() = nx.is_chordal: decided here by PEO search *)
Definition chordal_chk (g : ugraph) : bool :=
  let vs := vertices g in
  match peo_search (uedges g) (length vs) vs with Some _ => true | None => false end.

Definition subsetn (a b : list node) : bool := forallb (fun x => memn x b) a.

Inductive result (A : Type) := Ok (a : A) | Err (code : nat).
Arguments Ok {A}. Arguments Err {A}.

Definition edge_nodes (g : ugraph) : list node := udedup (endpoints (uedges g)).

(* the elimination loop as repaired by 0de2e66: [ns] = nodes still in graph_copy = nx.Graph(self.edges());
     for node in order:
         if node not in graph_copy: continue          (isolated nodes, repeats, unknown nodes)
         fill in among graph_copy.neighbors(node); graph_copy.remove_node(node) *)
Fixpoint fill_in_ns (ns : list node) (E : list uedge) (order : list node) : list uedge :=
  match order with
  | [] => []
  | v :: rest =>
      if memn v ns
      then let F := pairs (nbrs E v) in F ++ fill_in_ns (remove_node v ns) (del_node v (E ++ F)) rest
      else fill_in_ns ns E rest
  end.
(* the nodes of the order that are actually eliminated, in order *)
Fixpoint eff_order (ns : list node) (order : list node) : list node :=
  match order with
  | [] => []
  | v :: rest => if memn v ns then v :: eff_order (remove_node v ns) rest else eff_order ns rest
  end.

(* MarkovNetwork.triangulate(order=..., inplace=...) with an explicit order (never raises for a valid
   model).  Already chordal: returns self unchanged.  Otherwise the fill-in edges are added to self
   (inplace) or to MarkovNetwork(self.edges()) + add_nodes_from(self.nodes()): all nodes are kept. *)
Definition triangulate_order (g : ugraph) (order : list node) (inplace : bool) : ugraph :=
  if chordal_chk g then g
  else {| unodes := if inplace then unodes g
                    else edge_nodes g ++ filter (fun v => negb (memn v (edge_nodes g))) (unodes g);
          uedges := uedges g ++ fill_in_ns (edge_nodes g) (uedges g) order |}.

(* ---- heuristics H1..H6 --------------------------------------------------------------------
   As coded the scores are computed on nx.Graph(self.edges()) WITHOUT simulating eliminations
   (graph_copy is not modified inside the selection loop): for a node with neighbour set N,
     M = C = prod card({node} + N)            (the only maximal clique containing node after connecting N)
     S     = prod card(K) for SOME maximal clique K >= N of the graph with N connected and node removed
             (`_find_common_cliques(...)[0]` of a list made from a set: hash order) -- every such K is
             N + X with X a maximal clique of the subgraph induced on the common neighbours of N.
   Selection: min over the remaining nodes, ties by set iteration order.  The model therefore
   VALIDATES an order: at every step the chosen node must be able to attain the minimum. *)
Fixpoint sublists (l : list node) : list (list node) :=
  match l with [] => [[]] | x :: r => let s := sublists r in map (cons x) s ++ s end.
Definition max_cliques_in (E : list uedge) (U : list node) : list (list node) :=
  filter (fun K => is_cliqueb E K &&
                   forallb (fun x => memn x K || negb (forallb (fun y => adjb E x y) K)) U)
         (sublists U).
(* all maximal cliques of the graph (brute force; for cross-checking nx.find_cliques on small graphs) *)
Definition all_max_cliques (g : ugraph) : list (list node) := max_cliques_in (uedges g) (vertices g).

Definition zcard (cards : node -> nat) (l : list node) : Z :=
  fold_right (fun v acc => (Z.of_nat (cards v) * acc)%Z) 1%Z l.
Definition common_nbrs (E : list uedge) (v : node) (N : list node) : list node :=
  filter (fun x => negb (Nat.eqb x v) && negb (memn x N) && forallb (fun y => adjb E x y) N)
         (udedup (endpoints E)).
Definition s_values (cards : node -> nat) (E : list uedge) (v : node) : list Z :=
  let N := nbrs E v in
  map (fun X => zcard cards (N ++ X)) (max_cliques_in E (common_nbrs E v N)).
Definition m_value (cards : node -> nat) (E : list uedge) (v : node) : Z := zcard cards (v :: nbrs E v).

(* score of heuristic h (1..6) as a fraction num/den with den > 0, for a given S *)
Definition score (h : nat) (cards : node -> nat) (E : list uedge) (v : node) (s : Z) : Z * Z :=
  let m := m_value cards E v in
  match h with
  | 1 => (s, 1%Z)
  | 2 => (s, Z.of_nat (cards v))
  | 3 => ((s - m)%Z, 1%Z)
  | 4 => ((s - m)%Z, 1%Z)
  | 5 => (s, m)
  | _ => (s, m)
  end.
Definition fr_le (a b : Z * Z) : bool := (fst a * snd b <=? fst b * snd a)%Z.
(* can v attain the minimum among [remaining]?  (scores are increasing in S) *)
Definition can_be_min (h : nat) (cards : node -> nat) (E : list uedge) (v : node) (remaining : list node) : bool :=
  existsb (fun s => forallb (fun w => existsb (fun s' => fr_le (score h cards E v s) (score h cards E w s'))
                                              (s_values cards E w)) remaining)
          (s_values cards E v).
Fixpoint heur_order_ok_from (h : nat) (cards : node -> nat) (E : list uedge) (remaining order : list node) : bool :=
  match order with
  | [] => match remaining with [] => true | _ => false end
  | v :: rest => memn v remaining && can_be_min h cards E v remaining &&
                 heur_order_ok_from h cards E (remove_node v remaining) rest
  end.
(* the selection loop runs once per node of nx.Graph(self.edges()) (repair 0de2e66): the order is a
   permutation of the nodes that have an edge; isolated nodes are not candidates *)
Definition heur_order_ok (h : nat) (cards : node -> nat) (g : ugraph) (order : list node) : bool :=
  heur_order_ok_from h cards (uedges g) (edge_nodes g) order.

(* ---- clique-tree checkers --------------------------------------------------------------- *)
Record jtree := { jcliques : list (list node); jedges : list (nat * nat) }.

(* neighbours of tree node v that lie in S *)
Definition tnext (edges : list (nat * nat)) (S : list nat) (v : nat) : list nat :=
  filter (fun w => memn w S) (nbrs edges v).
(* every member of S reaches every member of S inside S *)
Definition conn_chk (edges : list (nat * nat)) (S : list nat) : bool :=
  forallb (fun i =>
    match search nat Nat.eqb (tnext edges S) (length S) [i] [] with
    | Some r => forallb (fun j => memn j r) S
    | None => false
    end) S.

Definition tree_chk (t : jtree) : bool :=
  let n := length (jcliques t) in
  Nat.ltb 0 n &&
  forallb (fun e => Nat.ltb (fst e) n && Nat.ltb (snd e) n) (jedges t) &&
  Nat.eqb (length (jedges t) + 1) n &&
  conn_chk (jedges t) (seq 0 n).
Definition cover_chk (t : jtree) (scopes : list (list node)) : bool :=
  forallb (fun s => existsb (fun c => subsetn s c) (jcliques t)) scopes.
Definition holders (t : jtree) (x : node) : list nat :=
  filter (fun i => memn x (nth i (jcliques t) [])) (seq 0 (length (jcliques t))).
Definition rip_chk (t : jtree) : bool :=
  forallb (fun x => conn_chk (jedges t) (holders t x)) (udedup (concat (jcliques t))).

(* ---- weight of a clique tree (sum of the sepset sizes, what pgmpy hands to the spanning-tree routine with a
   minus sign) and the bound sum_x (|holders x| - 1) that exactly the junction trees attain --------------- *)
Definition count {A} (p : A -> bool) (l : list A) : nat := length (filter p l).
Fixpoint sumn {A} (f : A -> nat) (l : list A) : nat :=
  match l with [] => 0 | a :: r => f a + sumn f r end.
Definition clq (t : jtree) (i : nat) : list node := nth i (jcliques t) [].
Definition sepw (t : jtree) (e : nat * nat) : nat := count (fun x => memn x (clq t (snd e))) (clq t (fst e)).
Definition weight (t : jtree) : nat := sumn (sepw t) (jedges t).
Definition allvars (t : jtree) : list node := udedup (concat (jcliques t)).
Definition wstar (t : jtree) : nat := sumn (fun x => length (holders t x) - 1) (allvars t).

(* checker for a listing F of the maximal cliques of g (nx.find_cliques, in its own order): members are
   duplicate-free cliques inside the vertex set, pairwise not included in each other, and every maximal clique
   found by brute force lies in one of them *)
Fixpoint nodupb (l : list node) : bool :=
  match l with [] => true | x :: r => negb (memn x r) && nodupb r end.
Definition max_cliques_chk (g : ugraph) (F : list (list node)) : bool :=
  let E := uedges g in let V := vertices g in
  forallb (fun C => nodupb C && subsetn C V && is_cliqueb E C) F &&
  forallb (fun M => existsb (fun C => subsetn M C) F) (all_max_cliques g) &&
  forallb (fun i => forallb (fun j => Nat.eqb i j || negb (subsetn (nth i F []) (nth j F []))) (seq 0 (length F)))
          (seq 0 (length F)).

(* ================================================================== factors *)
Section Factors.
Variable R : csr.
Variable card : var -> nat.
Variable eqR : R -> R -> bool.
Notation factor := (factor R).
Notation feval := (feval R card).
Notation fprod := (fprod R card).
Notation fbuild := (fbuild R card).
Notation fone := (fone R card).

(* TabularCPD: child, evidence (parents in the CPD's own order), values of the (child, evidence...)
   array flattened in row-major order.  cpd.to_factor() keeps scope order and values. *)
Record cpd := { cchild : var; cpars : list var; cvals : list R }.
Definition cpd_scope (c : cpd) : list var := cchild c :: cpars c.
(* P(child = a child | parents = a parents) as stored *)
Definition cpd_eval (c : cpd) (a : asg) : R :=
  t_get R zero (map card (cpd_scope c)) (cvals c) (map a (cpd_scope c)).
Definition cpd_to_factor (c : cpd) : factor := {| fvars := cpd_scope c; fvals := cvals c |}.

Record mnet := { mgraph : ugraph; mfactors : list factor }.

(* BayesianNetwork.to_markov_model(): moral graph, one factor per CPD, in cpds order *)
Definition bn_to_mn (g : digraph) (cpds : list cpd) : mnet :=
  {| mgraph := moral_graph g; mfactors := map cpd_to_factor cpds |}.

(* MarkovNetwork.check_model() for consistent cardinalities: every node has a factor mentioning it
   (checked inside the loop over factors, so a model WITHOUT factors passes), and each factor's scope
   is pairwise adjacent *)
Definition scope_vars (fs : list factor) : list var := udedup (flat_map fvars fs).
Definition mn_check (m : mnet) : bool :=
  match mfactors m with
  | [] => true
  | _ => Nat.eqb (length (udedup (unodes (mgraph m)))) (length (scope_vars (mfactors m))) &&
         forallb (fun f => is_cliqueb (uedges (mgraph m)) (fvars f)) (mfactors m)
  end.

(* MarkovNetwork.add_factors(new...) (FactorGraph.add_factors alike): the factors are appended one by one;
   the first one mentioning a variable that is not a node raises ValueError, AFTER the earlier ones were
   appended (false = raised) *)
Fixpoint add_factors (ns : list node) (fs new : list factor) : list factor * bool :=
  match new with
  | [] => (fs, true)
  | f :: r => if subsetn (fvars f) ns then add_factors ns (fs ++ [f]) r else (fs, false)
  end.

(* MarkovNetwork.to_factor_graph(): variable nodes, one factor node NAMED AFTER THE SCOPE
   ("phi_" + "_".join(scope): two factors with the same scope list share one node), an edge from each
   scope variable to the factor node, the factor list itself unchanged *)
Record fgraph := { fg_vars : list var; fg_fnodes : list (list var);
                   fg_edges : list (var * list var); fg_factors : list factor }.
Definition lists_eqb (a b : list var) : bool :=
  Nat.eqb (length a) (length b) && forallb (fun p => Nat.eqb (fst p) (snd p)) (combine a b).
Fixpoint dedup_scopes (l : list (list var)) : list (list var) :=
  match l with
  | [] => []
  | s :: r => if existsb (lists_eqb s) r then dedup_scopes r else s :: dedup_scopes r
  end.
Definition mn_to_fg (m : mnet) : fgraph :=
  {| fg_vars := unodes (mgraph m);
     fg_fnodes := dedup_scopes (map fvars (mfactors m));
     fg_edges := flat_map (fun f => map (fun v => (v, fvars f)) (fvars f)) (mfactors m);
     fg_factors := mfactors m |}.

(* DiscreteFactor.__eq__/__hash__ (the key equality of dicts and sets of factors): same variable SET
   and the same value at every assignment (axis order irrelevant) *)
Definition seteqb (a b : list var) : bool := subsetn a b && subsetn b a.
Definition feqb (f g : factor) : bool :=
  seteqb (fvars f) (fvars g) &&
  forallb (fun n => let a := asg_of (fvars f) (unravel (fcard R card f) n) in eqR (feval f a) (feval g a))
          (seq 0 (prod (fcard R card f))).
Definition memf (f : factor) (U : list factor) : bool := existsb (fun u => feqb u f) U.

(* FactorGraph built from factor objects as nodes: nx stores nodes in a dict keyed by the factor, so
   equal factors are ONE node; check_model then sees fewer factor nodes than factors (ValueError, 5) *)
Fixpoint dedup_f (l : list factor) : list factor :=
  match l with [] => [] | f :: r => if memf f r then dedup_f r else f :: dedup_f r end.
Definition fg_check (fs : list factor) : bool := Nat.eqb (length (dedup_f fs)) (length fs).
(* FactorGraph.to_markov_model(): variable nodes = variables of the factor scopes; all pairs of every
   scope become edges; factors appended in order *)
Definition fg_to_mn (fs : list factor) : result mnet :=
  if negb (fg_check fs) then Err 5
  else Ok {| mgraph := {| unodes := scope_vars fs; uedges := flat_map (fun f => pairs (fvars f)) fs |};
             mfactors := fs |}.

(* ---- junction tree: factor assignment and clique potentials, as coded (after repair f4ac9f9) -----
     is_used = {index: False for index in range(len(self.factors))}       # keyed by POSITION
     for node in clique_trees.nodes():
         for index, factor in enumerate(self.factors):
             if not is_used[index] and set(factor.scope()).issubset(node): append; is_used[index] = True
         potential = unity(node) [* factor_product of clique_factors]
     if not all(is_used.values()): raise ValueError
   [U] = the positions whose dict entry is True; [i] = position of the head of [fs]. *)
Fixpoint assign_pass (c : list var) (fs : list factor) (i : nat) (U : list nat) : list factor * list nat :=
  match fs with
  | [] => ([], U)
  | f :: r =>
      if negb (memn i U) && subsetn (fvars f) c
      then let (A, U') := assign_pass c r (S i) (i :: U) in (f :: A, U')
      else assign_pass c r (S i) U
  end.
Definition unity (c : list var) : factor := fbuild c (fun _ => one).
(* factor_product of the list l = reduce(mul, l) *)
Definition fprod1 (l : list factor) : factor :=
  match l with [] => fone | f :: r => fold_left fprod r f end.
Definition clique_potential (c : list var) (A : list factor) : factor :=
  match A with [] => unity c | _ => fprod (unity c) (fprod1 A) end.
Fixpoint jt_pots (cliques : list (list var)) (fs : list factor) (U : list nat) : list factor * list nat :=
  match cliques with
  | [] => ([], U)
  | c :: cs => let (A, U1) := assign_pass c fs 0 U in
               let (ps, U2) := jt_pots cs fs U1 in (clique_potential c A :: ps, U2)
  end.
(* error 6 = ValueError "All the factors were not used to create Junction Tree" *)
Definition jt_potentials (cliques : list (list var)) (fs : list factor) : result (list factor) :=
  let (ps, U) := jt_pots cliques fs [] in
  if forallb (fun i => memn i U) (seq 0 (length fs)) then Ok ps else Err 6.

(* get_partition_function(): np.sum over all entries of the product of all factors, i.e. the sum over
   all index tuples of the product's scope *)
Definition a0 : asg := fun _ => 0.
Definition partition (fs : list factor) : R :=
  let P := fprod1 fs in sum_over (fvars P) (fcard R card P) (feval P) a0.

End Factors.
