(* C14/C02: the clique-tree CONSTRUCTION is correct for all n.
   Part A (Jensen & Jensen): for any family of cliques, a spanning tree of the clique graph whose weight
     (sum of |sepset|) is maximal among spanning trees has the running-intersection property, provided SOME
     spanning tree with the running-intersection property exists.  Counting argument:
       weight(T) = sum over variables x of #edges of T inside holders(x)  <=  sum_x (|holders(x)| - 1),
     with equality iff every holders(x) induces a connected subgraph, and a RIP tree attains the bound.
   Part B: for a graph with a perfect elimination ordering the maximal cliques do have a RIP spanning tree
     (induction along the ordering: the first vertex is simplicial, its closed neighbourhood is a maximal clique
     that is either dropped or shrunk in the rest of the graph).
   Together: maximal cliques of a chordal graph + ANY maximum-weight spanning tree = junction tree. *)
From Coq Require Import List Bool Arith Lia PeanoNat.
From PV Require Import Base.Semiring Base.FinSum Base.RefFactor Base.Reach Base.Graph
  C14.UGraph C14.Model C14.Spec C14.ProofsGraph C14.ProofsJT.
Import ListNotations.

(* ================================================================== reachability utilities *)
Lemma In_tnext E S x y : In y (tnext E S x) <-> Adj E x y /\ In y S.
Proof. unfold tnext. rewrite filter_In, In_nbrs, memn_In. reflexivity. Qed.

Lemma reach_trans {T} (next : T -> list T) i j k :
  reach T next [i] j -> reach T next [j] k -> reach T next [i] k.
Proof.
  intros H1 H2. induction H2 as [x Hx|x y _ IH Hy].
  - destruct Hx as [<-|[]]. exact H1.
  - eapply reach_step; [exact IH|exact Hy].
Qed.

Lemma reach_next_mono {T} (n1 n2 : T -> list T) src x :
  (forall a b, In b (n1 a) -> In b (n2 a)) -> reach T n1 src x -> reach T n2 src x.
Proof.
  intros H Hr. induction Hr as [x Hx|x y _ IH Hy]; [apply reach_src; exact Hx|].
  eapply reach_step; [exact IH|apply H; exact Hy].
Qed.

Lemma reach_in_S E S i x : In i S -> reach nat (tnext E S) [i] x -> In x S.
Proof.
  intros Hi H. induction H as [x Hx|x y _ _ Hy]; [destruct Hx as [<-|[]]; exact Hi|].
  apply In_tnext in Hy. apply Hy.
Qed.

Lemma reach_sym E S i j : In i S -> reach nat (tnext E S) [i] j -> reach nat (tnext E S) [j] i.
Proof.
  intros Hi H. induction H as [x Hx|x y Hx IH Hy].
  - destruct Hx as [<-|[]]. apply reach_src. left. reflexivity.
  - apply reach_trans with (j := x); [|exact IH].
    eapply reach_step; [apply reach_src; left; reflexivity|].
    apply In_tnext in Hy. apply In_tnext. split; [apply Adj_sym; apply Hy|].
    exact (reach_in_S E S i x Hi Hx).
Qed.

(* ================================================================== counting *)
Lemma count_cons {A} (p : A -> bool) a l : count p (a :: l) = (if p a then 1 else 0) + count p l.
Proof. unfold count. simpl. destruct (p a); reflexivity. Qed.
Lemma count_sumn {A} (p : A -> bool) l : count p l = sumn (fun x => if p x then 1 else 0) l.
Proof. induction l as [|a l IH]; [reflexivity|]. rewrite count_cons, IH. reflexivity. Qed.
Lemma count_le_length {A} (p : A -> bool) l : count p l <= length l.
Proof. induction l as [|a l IH]; [apply le_n|]. rewrite count_cons. simpl. destruct (p a); lia. Qed.
Lemma count_ext_in {A} (p q : A -> bool) l : (forall x, In x l -> p x = q x) -> count p l = count q l.
Proof.
  induction l as [|a l IH]; intros H; [reflexivity|]. rewrite !count_cons, (H a (or_introl eq_refl)).
  rewrite IH; [reflexivity|]. intros x Hx. apply H. right. exact Hx.
Qed.
(* p implies q or r  =>  #p <= #q + #r *)
Lemma count_split {A} (p q r : A -> bool) l :
  (forall x, In x l -> p x = true -> q x = true \/ r x = true) -> count p l <= count q l + count r l.
Proof.
  induction l as [|a l IH]; intros H; [apply le_n|]. rewrite !count_cons.
  assert (IH' : count p l <= count q l + count r l) by (apply IH; intros x Hx; apply H; right; exact Hx).
  destruct (p a) eqn:Ep; [|destruct (q a), (r a); lia].
  destruct (H a (or_introl eq_refl) Ep) as [Hq|Hr]; [rewrite Hq|rewrite Hr]; destruct (q a), (r a); lia.
Qed.
(* disjoint predicates *)
Lemma count_disjoint {A} (p q : A -> bool) l :
  (forall x, In x l -> p x = true -> q x = false) -> count p l + count q l <= length l.
Proof.
  induction l as [|a l IH]; intros H; [apply le_n|]. rewrite !count_cons. simpl.
  assert (IH' : count p l + count q l <= length l) by (apply IH; intros x Hx; apply H; right; exact Hx).
  destruct (p a) eqn:Ep; [rewrite (H a (or_introl eq_refl) Ep)|destruct (q a)]; lia.
Qed.
Lemma NoDup_incl_count {A} (p : A -> bool) (es l : list A) :
  NoDup es -> (forall e, In e es -> In e l /\ p e = true) -> length es <= count p l.
Proof.
  intros Hn H. unfold count. apply NoDup_incl_length; [exact Hn|].
  intros e He. apply filter_In. apply H. exact He.
Qed.

Lemma sumn_swap {A B} (g : A -> B -> nat) (la : list A) (lb : list B) :
  sumn (fun a => sumn (fun b => g a b) lb) la = sumn (fun b => sumn (fun a => g a b) la) lb.
Proof.
  induction la as [|a la IH]; simpl.
  - induction lb as [|b lb IHb]; [reflexivity|]. simpl. exact IHb.
  - rewrite IH. clear IH. induction lb as [|b lb IHb]; [reflexivity|]. simpl. rewrite <- IHb. lia.
Qed.
Lemma sumn_ext_in {A} (f g : A -> nat) l : (forall x, In x l -> f x = g x) -> sumn f l = sumn g l.
Proof.
  induction l as [|a l IH]; intros H; [reflexivity|]. simpl. rewrite (H a (or_introl eq_refl)).
  rewrite IH; [reflexivity|]. intros x Hx. apply H. right. exact Hx.
Qed.
Lemma sumn_le {A} (f g : A -> nat) l : (forall x, In x l -> f x <= g x) -> sumn f l <= sumn g l.
Proof.
  induction l as [|a l IH]; intros H; [apply le_n|]. simpl.
  pose proof (H a (or_introl eq_refl)). assert (sumn f l <= sumn g l) by (apply IH; intros x Hx; apply H; right; exact Hx). lia.
Qed.
(* termwise <= with total >=  =>  termwise = *)
Lemma sumn_squeeze {A} (f g : A -> nat) l :
  (forall x, In x l -> f x <= g x) -> sumn g l <= sumn f l -> forall x, In x l -> f x = g x.
Proof.
  induction l as [|a l IH]; intros H Hs x Hx; [destruct Hx|]. simpl in Hs.
  pose proof (H a (or_introl eq_refl)) as Ha.
  assert (Hl : sumn f l <= sumn g l) by (apply sumn_le; intros y Hy; apply H; right; exact Hy).
  destruct Hx as [<-|Hx]; [lia|]. apply IH; [intros y Hy; apply H; right; exact Hy|lia|exact Hx].
Qed.

Lemma forallb_false_ex {A} (p : A -> bool) l : forallb p l = false -> exists x, In x l /\ p x = false.
Proof.
  induction l as [|a l IH]; [discriminate|]. simpl. destruct (p a) eqn:E.
  - intros H. destruct (IH H) as [x [Hx Hp]]. exists x. split; [right; exact Hx|exact Hp].
  - intros _. exists a. split; [left; reflexivity|exact E].
Qed.

(* two duplicate-free lists with the same elements have the same length *)
Lemma NoDup_same_length {A} (l1 l2 : list A) :
  NoDup l1 -> NoDup l2 -> (forall x, In x l1 <-> In x l2) -> length l1 = length l2.
Proof.
  intros H1 H2 H. apply Nat.le_antisymm; apply NoDup_incl_length; try assumption; intros x Hx; apply H; exact Hx.
Qed.

(* ================================================================== edges inside a vertex set *)
Definition inside (S : list nat) (e : nat * nat) : bool := memn (fst e) S && memn (snd e) S.
Lemma inside_spec S e : inside S e = true <-> In (fst e) S /\ In (snd e) S.
Proof. unfold inside. rewrite andb_true_iff, !memn_In. reflexivity. Qed.

(* a path that leaves A uses an edge leaving A *)
Lemma crossing E V A a y :
  reach nat (tnext E V) [a] y -> In a A -> ~ In y A ->
  exists u x, In u A /\ ~ In x A /\ In x V /\ Adj E u x.
Proof.
  intros H Ha. induction H as [x Hx|x y _ IH Hy]; intros Hy'.
  - destruct Hx as [<-|[]]. contradiction.
  - apply In_tnext in Hy. destruct (in_dec Nat.eq_dec x A) as [Hx|Hx].
    + exists x, y. tauto.
    + apply IH. exact Hx.
Qed.

(* growing a set A inside a connected vertex set V: |V| - |A| pairwise different edges of E, all inside V,
   none inside A *)
Lemma grow E V : NoDup V -> conn_on E V ->
  forall d A, NoDup A -> incl A V -> A <> [] -> length V = length A + d ->
  exists es, NoDup es /\ length es = d /\
             forall e, In e es -> In e E /\ inside V e = true /\ inside A e = false.
Proof.
  intros HV Hc. induction d as [|d IH]; intros A HA Hi Hne Hl.
  - exists []. split; [constructor|]. split; [reflexivity|]. intros e [].
  - destruct (forallb (fun y => memn y A) V) eqn:Ef.
    + exfalso. rewrite forallb_forall in Ef.
      assert (incl V A) by (intros y Hy; apply memn_In; apply Ef; exact Hy).
      pose proof (NoDup_incl_length HV H). lia.
    + apply forallb_false_ex in Ef. destruct Ef as [y [Hy Hny]]. apply memn_false in Hny.
      destruct A as [|a A']; [contradiction|].
      assert (Ha : In a (a :: A')) by (left; reflexivity).
      destruct (crossing E V (a :: A') a y (Hc a y (Hi a Ha) Hy) Ha Hny) as (u & x & Hu & Hx & HxV & Hadj).
      destruct (IH (x :: a :: A')) as (es & Hn & Hlen & Hes).
      * constructor; assumption.
      * intros z [<-|Hz]; [exact HxV|apply Hi; exact Hz].
      * discriminate.
      * simpl in *. lia.
      * assert (Huv : In u V) by (apply Hi; exact Hu).
        assert (Hin : exists e, In e E /\ ((fst e = u /\ snd e = x) \/ (fst e = x /\ snd e = u))).
        { destruct Hadj as [H|H]; [exists (u, x)|exists (x, u)]; simpl; tauto. }
        destruct Hin as [e [HeE Hends]].
        assert (He1 : inside (x :: a :: A') e = true).
        { apply inside_spec. destruct Hends as [[-> ->]|[-> ->]]; split; try (left; reflexivity); right; exact Hu. }
        assert (He2 : inside (a :: A') e = false).
        { destruct (inside (a :: A') e) eqn:Ei; [|reflexivity]. apply inside_spec in Ei.
          destruct Hends as [[_ E2]|[E1 _]]; [rewrite E2 in Ei|rewrite E1 in Ei]; tauto. }
        assert (He3 : inside V e = true).
        { apply inside_spec. destruct Hends as [[-> ->]|[-> ->]]; tauto. }
        exists (e :: es). split; [|split].
        -- constructor; [|exact Hn]. intros Hc'. destruct (Hes e Hc') as (_ & _ & Hf). congruence.
        -- simpl. rewrite Hlen. reflexivity.
        -- intros e' [<-|He']; [tauto|]. destruct (Hes e' He') as (H1 & H2 & H3). split; [exact H1|]. split; [exact H2|].
           destruct (inside (a :: A') e') eqn:Ei; [|reflexivity]. apply inside_spec in Ei.
           assert (inside (x :: a :: A') e' = true) by (apply inside_spec; split; right; apply Ei). congruence.
Qed.

(* L1: a connected vertex set spans at least |V| - 1 edges *)
Lemma conn_edges_lower E V : NoDup V -> V <> [] -> conn_on E V -> length V <= count (inside V) E + 1.
Proof.
  intros HV Hne Hc. destruct V as [|a V']; [contradiction|].
  destruct (grow E (a :: V') HV Hc (length V') [a]) as (es & Hn & Hlen & Hes).
  - constructor; [intros []|constructor].
  - intros z [<-|[]]. left. reflexivity.
  - discriminate.
  - simpl. lia.
  - assert (length es <= count (inside (a :: V')) E).
    { apply NoDup_incl_count; [exact Hn|]. intros e He. destruct (Hes e He) as (H1 & H2 & _). tauto. }
    simpl. lia.
Qed.

(* L2: in a connected graph on V with |V| - 1 edges, a vertex subset S spans at most |S| - 1 edges *)
Lemma tree_edges_upper E V S : NoDup V -> conn_on E V -> length E + 1 = length V ->
  NoDup S -> incl S V -> S <> [] -> count (inside S) E + 1 <= length S.
Proof.
  intros HV Hc Hlen HS Hi Hne.
  pose proof (NoDup_incl_length HS Hi) as Hle.
  destruct (grow E V HV Hc (length V - length S) S HS Hi Hne) as (es & Hn & Hl & Hes); [lia|].
  assert (H1 : length es <= count (fun e => negb (inside S e)) E).
  { apply NoDup_incl_count; [exact Hn|]. intros e He. destruct (Hes e He) as (H1 & _ & H3). rewrite H3. tauto. }
  assert (H2 : count (inside S) E + count (fun e => negb (inside S e)) E <= length E).
  { apply count_disjoint. intros e _ He. rewrite He. reflexivity. }
  lia.
Qed.

(* L3: ... and if it spans exactly |S| - 1 edges it is connected *)
Lemma tree_edges_tight E V S : NoDup V -> conn_on E V -> length E + 1 = length V ->
  NoDup S -> incl S V -> length S <= count (inside S) E + 1 -> conn_on E S.
Proof.
  intros HV Hc Hlen HS Hi Htight.
  destruct S as [|s0 S']; [intros i j []|]. remember (s0 :: S') as S eqn:ES.
  assert (Hs0 : In s0 S) by (rewrite ES; left; reflexivity). clear ES.
  destruct (conn_search E S s0 Hs0) as (r & Hr & Hrc).
  assert (Hrn : NoDup r) by (apply (search_nodup nat Nat.eqb nat_eqb_iff _ _ _ _ _ Hr); constructor).
  assert (HrS : incl r S) by (intros x Hx; apply (reach_in_S E S s0 x Hs0); apply Hrc; exact Hx).
  destruct (forallb (fun y => memn y r) S) eqn:Ef.
  - (* everything is reachable from s0 *)
    rewrite forallb_forall in Ef. intros i j Hi' Hj'.
    apply reach_trans with (j := s0).
    + apply reach_sym; [exact Hs0|]. apply Hrc. apply memn_In. apply Ef. exact Hi'.
    + apply Hrc. apply memn_In. apply Ef. exact Hj'.
  - exfalso. apply forallb_false_ex in Ef. destruct Ef as [y [Hy Hny]]. apply memn_false in Hny.
    set (K' := filter (fun x => negb (memn x r)) S).
    assert (HK'n : NoDup K') by (apply List.NoDup_filter; exact HS).
    assert (HK'i : incl K' V) by (intros x Hx; apply Hi; apply filter_In in Hx; apply Hx).
    assert (HK'ne : K' <> []).
    { intros E0. assert (In y K') by (apply filter_In; split; [exact Hy|apply negb_true_iff, memn_false; exact Hny]).
      rewrite E0 in H. destruct H. }
    assert (Hrne : r <> []) by (intros E0; assert (In s0 r) by (apply Hrc; apply reach_src; left; reflexivity); rewrite E0 in H; destruct H).
    assert (Hri : incl r V) by (intros x Hx; apply Hi; apply HrS; exact Hx).
    pose proof (tree_edges_upper E V r HV Hc Hlen Hrn Hri Hrne) as U1.
    pose proof (tree_edges_upper E V K' HV Hc Hlen HK'n HK'i HK'ne) as U2.
    (* every edge inside S is inside r or inside K' *)
    assert (Hsplit : count (inside S) E <= count (inside r) E + count (inside K') E).
    { apply count_split. intros [p q] HeE He. apply inside_spec in He. cbn [fst snd] in He. destruct He as [Hp Hq].
      assert (Hadj : Adj E p q) by (left; exact HeE).
      destruct (in_dec Nat.eq_dec p r) as [Hpr|Hpr].
      - left. apply inside_spec. cbn [fst snd]. split; [exact Hpr|]. apply Hrc.
        eapply reach_step; [apply Hrc; exact Hpr|]. apply In_tnext. tauto.
      - right. apply inside_spec. cbn [fst snd].
        assert (Hqr : ~ In q r).
        { intros Hqr. apply Hpr. apply Hrc. eapply reach_step; [apply Hrc; exact Hqr|].
          apply In_tnext. split; [apply Adj_sym; exact Hadj|exact Hp]. }
        split; apply filter_In; (split; [assumption|apply negb_true_iff, memn_false; assumption]). }
    (* |r| + |K'| = |S| *)
    assert (Hpart : length r + length K' = length S).
    { assert (E1 : length r = length (filter (fun x => memn x r) S)).
      { apply NoDup_same_length; [exact Hrn|apply List.NoDup_filter; exact HS|].
        intros x. rewrite filter_In, memn_In. split; [intros Hx; split; [apply HrS; exact Hx|exact Hx]|tauto]. }
      rewrite E1. unfold K'. clear. induction S as [|a l IH]; [reflexivity|]. simpl.
      destruct (memn a r); simpl; lia. }
    assert (Har : forall a b c d e f : nat, a + 1 <= d -> b + 1 <= e -> c <= a + b -> d + e = f -> f <= c + 1 -> False)
      by (intros; lia).
    exact (Har _ _ _ _ _ _ U1 U2 Hsplit Hpart Htight).
Qed.

(* ================================================================== weight of a clique tree *)
Lemma In_holders t x i : In i (holders t x) <-> i < length (jcliques t) /\ In x (clq t i).
Proof.
  unfold holders, clq. rewrite filter_In, in_seq, memn_In. split; [intros [H1 H2]; split; [lia|exact H2]|].
  intros [H1 H2]. split; [lia|exact H2].
Qed.
Lemma NoDup_holders t x : NoDup (holders t x).
Proof. unfold holders. apply List.NoDup_filter. apply seq_NoDup. Qed.
Lemma clq_in_allvars t i x : i < length (jcliques t) -> In x (clq t i) -> In x (allvars t).
Proof.
  intros Hi Hx. unfold allvars. apply In_udedup. apply in_concat. exists (clq t i).
  split; [apply nth_In; exact Hi|exact Hx].
Qed.
Lemma allvars_holders t x : In x (allvars t) -> holders t x <> [].
Proof.
  unfold allvars. rewrite In_udedup, in_concat. intros [c [Hc Hx]] E0.
  apply In_nth with (d := []) in Hc. destruct Hc as [i [Hi Hn]].
  assert (In i (holders t x)) by (apply In_holders; unfold clq; rewrite Hn; tauto). rewrite E0 in H. destruct H.
Qed.

Definition cliques_nodup (t : jtree) : Prop := forall c, In c (jcliques t) -> NoDup c.
Definition edges_in_range (t : jtree) : Prop :=
  forall e, In e (jedges t) -> fst e < length (jcliques t) /\ snd e < length (jcliques t).

(* |Ci n Cj| counted over the variables *)
Lemma sepw_over_vars t e : cliques_nodup t -> fst e < length (jcliques t) ->
  sepw t e = count (fun x => memn x (clq t (fst e)) && memn x (clq t (snd e))) (allvars t).
Proof.
  intros Hn Hi. unfold sepw, count. apply NoDup_same_length.
  - apply List.NoDup_filter. apply Hn. apply nth_In. exact Hi.
  - apply List.NoDup_filter. apply NoDup_udedup.
  - intros x. rewrite !filter_In, andb_true_iff, !memn_In. split.
    + intros [H1 H2]. split; [apply (clq_in_allvars t (fst e)); assumption|tauto].
    + tauto.
Qed.

(* weight = sum over the variables of the number of tree edges inside holders(x) *)
Lemma weight_by_vars t : cliques_nodup t -> edges_in_range t ->
  weight t = sumn (fun x => count (inside (holders t x)) (jedges t)) (allvars t).
Proof.
  intros Hn Hr. unfold weight.
  transitivity (sumn (fun e => sumn (fun x => if memn x (clq t (fst e)) && memn x (clq t (snd e)) then 1 else 0)
                                    (allvars t)) (jedges t)).
  - apply sumn_ext_in. intros e He. rewrite sepw_over_vars by (try exact Hn; apply Hr; exact He).
    apply count_sumn.
  - rewrite sumn_swap. apply sumn_ext_in. intros x _. rewrite count_sumn. apply sumn_ext_in.
    intros e He. destruct (Hr e He) as [H1 H2].
    assert (E1 : inside (holders t x) e = memn x (clq t (fst e)) && memn x (clq t (snd e))).
    { apply eq_true_iff_eq. rewrite inside_spec, andb_true_iff, !In_holders, !memn_In. tauto. }
    rewrite E1. reflexivity.
Qed.

(* ================================================================== Part A *)
Lemma tree_weight_upper t : is_tree t -> cliques_nodup t -> weight t <= wstar t.
Proof.
  intros (Hpos & Hr & Hlen & Hc) Hn. rewrite weight_by_vars by assumption. unfold wstar.
  apply sumn_le. intros x Hx.
  pose proof (tree_edges_upper (jedges t) (seq 0 (length (jcliques t))) (holders t x)
                (seq_NoDup _ _) Hc) as U. rewrite seq_length in U.
  specialize (U Hlen (NoDup_holders t x)).
  assert (incl (holders t x) (seq 0 (length (jcliques t)))).
  { intros i Hi. apply In_holders in Hi. apply in_seq. lia. }
  specialize (U H (allvars_holders t x Hx)). lia.
Qed.

Lemma tree_weight_tight_rip t : is_tree t -> cliques_nodup t -> wstar t <= weight t -> rip t.
Proof.
  intros (Hpos & Hr & Hlen & Hc) Hn Hw x.
  destruct (in_dec Nat.eq_dec x (allvars t)) as [Hx|Hx].
  - rewrite weight_by_vars in Hw by assumption. unfold wstar in Hw.
    assert (Hin : incl (holders t x) (seq 0 (length (jcliques t)))).
    { intros i Hi. apply In_holders in Hi. apply in_seq. lia. }
    assert (Heq : count (inside (holders t x)) (jedges t) = length (holders t x) - 1).
    { apply (sumn_squeeze (fun x => count (inside (holders t x)) (jedges t))
                          (fun x => length (holders t x) - 1) (allvars t)); [|exact Hw|exact Hx].
      intros y Hy.
      pose proof (tree_edges_upper (jedges t) (seq 0 (length (jcliques t))) (holders t y)
                    (seq_NoDup _ _) Hc) as U. rewrite seq_length in U.
      specialize (U Hlen (NoDup_holders t y)).
      assert (incl (holders t y) (seq 0 (length (jcliques t)))).
      { intros i Hi. apply In_holders in Hi. apply in_seq. lia. }
      specialize (U H (allvars_holders t y Hy)). lia. }
    apply (tree_edges_tight (jedges t) (seq 0 (length (jcliques t)))); try assumption.
    + apply seq_NoDup.
    + rewrite seq_length. exact Hlen.
    + apply NoDup_holders.
    + lia.
  - intros i j Hi _. exfalso. apply Hx. apply In_holders in Hi. destruct Hi as [Hi Hxi].
    exact (clq_in_allvars t i x Hi Hxi).
Qed.

Lemma rip_weight_lower t : edges_in_range t -> cliques_nodup t -> rip t -> wstar t <= weight t.
Proof.
  intros Hr Hn Hrip. rewrite weight_by_vars by assumption. unfold wstar. apply sumn_le. intros x Hx.
  pose proof (conn_edges_lower (jedges t) (holders t x) (NoDup_holders t x) (allvars_holders t x Hx) (Hrip x)). lia.
Qed.

Lemma wstar_cliques t t' : jcliques t' = jcliques t -> wstar t' = wstar t.
Proof. intros H. unfold wstar, allvars, holders. rewrite H. reflexivity. Qed.

Definition max_weight_tree (t : jtree) : Prop :=
  is_tree t /\ forall E', is_tree {| jcliques := jcliques t; jedges := E' |} ->
                          weight {| jcliques := jcliques t; jedges := E' |} <= weight t.

(* Jensen & Jensen: if the cliques have ANY junction tree, every maximum-weight spanning tree is one *)
Theorem max_weight_rip t : cliques_nodup t ->
  (exists E0, is_tree {| jcliques := jcliques t; jedges := E0 |} /\ rip {| jcliques := jcliques t; jedges := E0 |}) ->
  max_weight_tree t -> rip t.
Proof.
  intros Hn [E0 [Ht0 Hr0]] [Ht Hmax].
  apply tree_weight_tight_rip; [exact Ht|exact Hn|].
  set (t0 := {| jcliques := jcliques t; jedges := E0 |}) in *.
  assert (wstar t0 <= weight t0).
  { apply rip_weight_lower; [exact (proj1 (proj2 Ht0))|exact Hn|exact Hr0]. }
  rewrite (wstar_cliques t t0 eq_refl) in H. specialize (Hmax E0 Ht0). fold t0 in Hmax. lia.
Qed.

(* ================================================================== Part B: a junction tree exists *)
(* list surgery *)
Fixpoint remove_nth {A} (n : nat) (l : list A) : list A :=
  match l, n with
  | [], _ => []
  | _ :: r, 0 => r
  | x :: r, S k => x :: remove_nth k r
  end.
Fixpoint replace_nth {A} (n : nat) (y : A) (l : list A) : list A :=
  match l, n with
  | [], _ => []
  | _ :: r, 0 => y :: r
  | x :: r, S k => x :: replace_nth k y r
  end.
Definition lift (a i : nat) : nat := if Nat.ltb i a then i else S i.

Lemma length_remove_nth {A} (l : list A) : forall a, a < length l -> length (remove_nth a l) + 1 = length l.
Proof.
  induction l as [|x r IH]; intros a Ha; [simpl in Ha; lia|]. destruct a as [|a]; simpl; [lia|].
  simpl in Ha. specialize (IH a). lia.
Qed.
Lemma nth_remove_nth {A} (d : A) (l : list A) : forall a i, nth i (remove_nth a l) d = nth (lift a i) l d.
Proof.
  induction l as [|x r IH]; intros a i.
  - simpl. destruct a; destruct i; unfold lift; simpl; try reflexivity; destruct (Nat.ltb _ _); reflexivity.
  - destruct a as [|a]; simpl.
    + unfold lift. simpl. reflexivity.
    + destruct i as [|i]; [reflexivity|]. rewrite IH. unfold lift.
      change (Nat.ltb (S i) (S a)) with (Nat.ltb i a). destruct (Nat.ltb i a); reflexivity.
Qed.
Lemma lift_neq a i : lift a i <> a.
Proof. unfold lift. destruct (Nat.ltb i a) eqn:E; [apply Nat.ltb_lt in E|apply Nat.ltb_ge in E]; lia. Qed.
Lemma lift_inj a i j : lift a i = lift a j -> i = j.
Proof.
  unfold lift. destruct (Nat.ltb_spec i a), (Nat.ltb_spec j a); lia.
Qed.
Lemma lift_lt a i n : i + 1 < n + 1 -> i < n -> lift a i < n + 1.
Proof. unfold lift. destruct (Nat.ltb i a); lia. Qed.
Lemma lift_surj a k : k <> a -> exists i, lift a i = k /\ (k < a -> i = k) /\ (a < k -> i + 1 = k).
Proof.
  intros Hk. unfold lift. destruct (Nat.ltb k a) eqn:E.
  - exists k. rewrite E. apply Nat.ltb_lt in E. split; [reflexivity|lia].
  - apply Nat.ltb_ge in E. exists (k - 1).
    assert (E2 : Nat.ltb (k - 1) a = false) by (apply Nat.ltb_ge; lia). rewrite E2. lia.
Qed.

Lemma length_replace_nth {A} (y : A) (l : list A) : forall a, length (replace_nth a y l) = length l.
Proof. induction l as [|x r IH]; intros a; [destruct a; reflexivity|]. destruct a; simpl; [reflexivity|]. rewrite IH. reflexivity. Qed.
Lemma nth_replace_nth_same {A} (d y : A) (l : list A) : forall a, a < length l -> nth a (replace_nth a y l) d = y.
Proof.
  induction l as [|x r IH]; intros a Ha; [simpl in Ha; lia|]. destruct a; simpl; [reflexivity|]. apply IH. simpl in Ha. lia.
Qed.
Lemma nth_replace_nth_other {A} (d y : A) (l : list A) : forall a i, i <> a -> nth i (replace_nth a y l) d = nth i l d.
Proof.
  induction l as [|x r IH]; intros a i Hi; [destruct a; reflexivity|]. destruct a, i; simpl; try reflexivity; try lia.
  apply IH. lia.
Qed.

(* maximal cliques of the graph (V, E) *)
Definition clique_in (E : list uedge) (V C : list node) : Prop := NoDup C /\ incl C V /\ is_clique E C.
Definition max_cliques_of (E : list uedge) (V : list node) (F : list (list node)) : Prop :=
  (forall C, In C F -> clique_in E V C) /\
  (forall K, clique_in E V K -> exists C, In C F /\ incl K C) /\
  (forall i j, i < length F -> j < length F -> i <> j -> ~ incl (nth i F []) (nth j F [])).

Lemma single_clique_tree C : let t := {| jcliques := [C]; jedges := [] |} in is_tree t /\ rip t.
Proof.
  intros t. split.
  - unfold is_tree. cbn. split; [lia|]. split; [intros e []|]. split; [reflexivity|].
    intros i j [<-|[]] [<-|[]]. apply reach_src. left. reflexivity.
  - intros x i j Hi Hj. apply In_holders in Hi, Hj. cbn in Hi, Hj.
    assert (i = 0) by lia. assert (j = 0) by lia. subst. apply reach_src. left. reflexivity.
Qed.

(* every member of S is reachable from a hub in S => S is connected *)
Lemma hub_conn E S h : In h S -> (forall k, In k S -> reach nat (tnext E S) [h] k) -> conn_on E S.
Proof.
  intros Hh H i j Hi Hj. apply reach_trans with (j := h); [|apply H; exact Hj].
  apply reach_sym; [exact Hh|apply H; exact Hi].
Qed.

(* connectivity is transported along an index map *)
Lemma reach_map (f : nat -> nat) E' S' E S i j :
  (forall x y, In (x, y) E' -> In (f x, f y) E) -> (forall x, In x S' -> In (f x) S) ->
  reach nat (tnext E' S') [i] j -> reach nat (tnext E S) [f i] (f j).
Proof.
  intros HE HS H. induction H as [x Hx|x y _ IH Hy].
  - destruct Hx as [<-|[]]. apply reach_src. left. reflexivity.
  - eapply reach_step; [exact IH|]. apply In_tnext in Hy. apply In_tnext. destruct Hy as [[Hy|Hy] HyS].
    + split; [left; apply HE; exact Hy|apply HS; exact HyS].
    + split; [right; apply HE; exact Hy|apply HS; exact HyS].
Qed.

Section Exists.
Variable E : list uedge.

Lemma clique_in_sub V V' C : clique_in E V C -> incl C V' -> clique_in E V' C.
Proof. intros (H1 & _ & H3) H. split; [exact H1|split; [exact H|exact H3]]. Qed.

Theorem rip_tree_exists : forall order, NoDup order -> peo (Adj E) order ->
  forall F, max_cliques_of E order F ->
  exists E0, is_tree {| jcliques := F; jedges := E0 |} /\ rip {| jcliques := F; jedges := E0 |}.
Proof.
  induction order as [|v rest IH]; intros Hnd Hpeo F (M1 & M2 & M3).
  - (* no vertices: the only clique is the empty one *)
    destruct (M2 [] (conj (NoDup_nil _) (conj (fun x (H : In x []) => H) (fun x y (H : In x []) => match H with end))))
      as [C0 [HC0 _]].
    destruct F as [|C F']; [destruct HC0|]. destruct F' as [|C' F''].
    + exists []. apply single_clique_tree.
    + exfalso. apply (M3 0 1); [simpl; lia|simpl; lia|discriminate|]. simpl.
      destruct (M1 C (or_introl eq_refl)) as (_ & Hi & _). intros x Hx. destruct (Hi x Hx).
  - inversion Hnd as [|? ? Hv Hnd']; subst. destruct Hpeo as [Hhead Hpeo'].
    set (V := v :: rest).
    set (N := filter (fun x => adjb E v x) rest).
    assert (HNin : forall x, In x N <-> In x rest /\ Adj E v x).
    { intros x. unfold N. rewrite filter_In, adjb_Adj. reflexivity. }
    assert (HvN : ~ In v N) by (intros H; apply HNin in H; tauto).
    assert (HNn : NoDup N) by (apply List.NoDup_filter; exact Hnd').
    assert (HNc : is_clique E N).
    { intros x y Hx Hy Hne. apply HNin in Hx, Hy. apply Hhead; tauto. }
    assert (HKv : clique_in E V (v :: N)).
    { split; [constructor; assumption|]. split.
      - intros x [<-|Hx]; [left; reflexivity|right; apply HNin in Hx; tauto].
      - intros x y [<-|Hx] [<-|Hy] Hne; try congruence.
        + apply HNin in Hy. tauto.
        + apply HNin in Hx. apply Adj_sym. tauto.
        + apply HNc; assumption. }
    (* any clique through v lies in v :: N *)
    assert (Hthru : forall C, clique_in E V C -> In v C -> incl C (v :: N)).
    { intros C (_ & Hi & Hc) HvC x Hx. destruct (Nat.eq_dec x v) as [->|Hne]; [left; reflexivity|].
      right. apply HNin. split.
      - destruct (Hi x Hx) as [Hx'|Hx']; [congruence|exact Hx'].
      - apply Hc; [exact HvC|exact Hx|congruence]. }
    destruct (M2 _ HKv) as [Ca [HCa HKvCa]].
    destruct (In_nth F Ca [] HCa) as [a [Ha Hntha]].
    assert (HvCa : In v Ca) by (apply HKvCa; left; reflexivity).
    assert (HCaK : incl Ca (v :: N)) by (apply Hthru; [apply M1; exact HCa|exact HvCa]).
    assert (Huniq : forall i, i < length F -> In v (nth i F []) -> i = a).
    { intros i Hi Hvi. destruct (Nat.eq_dec i a) as [Hia|Hia]; [exact Hia|]. exfalso.
      apply (M3 i a Hi Ha Hia). rewrite Hntha. intros x Hx. apply HKvCa.
      apply (Hthru (nth i F [])); [apply M1; apply nth_In; exact Hi|exact Hvi|exact Hx]. }
    assert (Hrest : forall i, i < length F -> i <> a -> clique_in E rest (nth i F [])).
    { intros i Hi Hia. assert (Hc := M1 _ (nth_In F [] Hi)). apply (clique_in_sub V); [exact Hc|].
      intros x Hx. destruct Hc as (_ & Hin & _). destruct (Hin x Hx) as [<-|Hx']; [|exact Hx'].
      exfalso. apply Hia. apply Huniq; assumption. }
    assert (HNrest : clique_in E rest N).
    { split; [exact HNn|]. split; [intros x Hx; apply HNin in Hx; tauto|exact HNc]. }
    assert (HKrest : forall K, clique_in E rest K -> incl K Ca -> incl K N).
    { intros K (_ & HKi & _) HKC x Hx. destruct (HCaK x (HKC x Hx)) as [<-|Hx']; [|exact Hx'].
      exfalso. apply Hv. apply HKi. exact Hx. }
    assert (Hup : forall K, clique_in E rest K -> clique_in E V K).
    { intros K HK. apply (clique_in_sub rest); [exact HK|]. intros x Hx. right. destruct HK as (_ & Hi & _). apply Hi. exact Hx. }
    destruct (existsb (fun b => negb (Nat.eqb b a) && subsetn N (nth b F [])) (seq 0 (length F))) eqn:Ecase.
    + (* ---- case A: N lies in another maximal clique; v :: N disappears in the rest of the graph *)
      apply existsb_exists in Ecase. destruct Ecase as [b [Hb Hb2]]. apply in_seq in Hb.
      apply andb_true_iff in Hb2. destruct Hb2 as [Hba HNb]. apply negb_true_iff, Nat.eqb_neq in Hba.
      apply subsetn_incl in HNb.
      set (F' := remove_nth a F).
      assert (HlenF : length F' + 1 = length F) by (apply length_remove_nth; exact Ha).
      assert (Hnth' : forall i, nth i F' [] = nth (lift a i) F []) by (intros i; apply nth_remove_nth).
      assert (Hlt : forall i, i < length F' -> lift a i < length F).
      { intros i Hi. unfold lift. destruct (Nat.ltb i a); lia. }
      destruct (lift_surj a b Hba) as [b' [Hb' Hb'']].
      assert (Hb'lt : b' < length F') by lia.
      destruct (IH Hnd' Hpeo' F') as [E' [Ht' Hr']].
      { split; [|split].
        - intros C HC. destruct (In_nth F' C [] HC) as [i [Hi Hn]]. rewrite <- Hn, Hnth'.
          apply Hrest; [apply Hlt; exact Hi|apply lift_neq].
        - intros K HK. destruct (M2 K (Hup K HK)) as [C [HC HKC]].
          destruct (In_nth F C [] HC) as [i [Hi Hn]].
          destruct (Nat.eq_dec i a) as [->|Hia].
          + exists (nth b' F' []). split; [apply nth_In; exact Hb'lt|]. rewrite Hnth', Hb'.
            intros x Hx. apply HNb. apply (HKrest K HK); [|exact Hx]. rewrite <- Hntha, Hn. exact HKC.
          + destruct (lift_surj a i Hia) as [i' [Hi' Hi'']].
            exists (nth i' F' []). split; [apply nth_In; lia|]. rewrite Hnth', Hi', Hn. exact HKC.
        - intros i j Hi Hj Hij. rewrite !Hnth'. apply M3; [apply Hlt; exact Hi|apply Hlt; exact Hj|].
          intros Heq. apply Hij. exact (lift_inj a i j Heq). }
      set (t' := {| jcliques := F'; jedges := E' |}) in *.
      set (E0 := map (fun e => (lift a (fst e), lift a (snd e))) E' ++ [(a, b)]).
      set (t := {| jcliques := F; jedges := E0 |}).
      destruct Ht' as (Hpos' & Hrng' & Hlen' & Hconn'). cbn [jcliques jedges t'] in Hpos', Hrng', Hlen', Hconn'.
      assert (HE0 : forall x y, In (x, y) E' -> In (lift a x, lift a y) E0).
      { intros x y H. unfold E0. apply in_or_app. left. apply in_map_iff. exists (x, y). split; [reflexivity|exact H]. }
      assert (Hab : Adj E0 b a) by (right; unfold E0; apply in_or_app; right; left; reflexivity).
      exists E0. split.
      * (* tree *)
        unfold is_tree. cbn [jcliques jedges]. split; [lia|]. split; [|split].
        -- intros e He. unfold E0 in He. apply in_app_or in He. destruct He as [He|[<-|[]]]; [|cbn; lia].
           apply in_map_iff in He. destruct He as [[x y] [<- Hxy]]. cbn [fst snd].
           destruct (Hrng' _ Hxy) as [H1 H2]. cbn [fst snd] in H1, H2. split; apply Hlt; assumption.
        -- unfold E0. rewrite app_length, map_length. simpl. lia.
        -- apply (hub_conn E0 _ b); [apply in_seq; lia|]. intros k Hk. apply in_seq in Hk.
           destruct (Nat.eq_dec k a) as [->|Hka].
           ++ eapply reach_step; [apply reach_src; left; reflexivity|]. apply In_tnext. split; [exact Hab|apply in_seq; lia].
           ++ destruct (lift_surj a k Hka) as [k' [Hk' Hk'']]. rewrite <- Hk', <- Hb'.
              apply (reach_map (lift a) E' (seq 0 (length F'))); [exact HE0| |].
              ** intros x Hx. apply in_seq in Hx. apply in_seq. pose proof (Hlt x). lia.
              ** apply Hconn'; apply in_seq; lia.
      * (* running intersection *)
        intros x.
        assert (Hhold : forall k', In (lift a k') (holders t x) <-> In k' (holders t' x)).
        { intros k'. rewrite !In_holders. unfold clq. cbn [jcliques t t']. rewrite Hnth'. split.
          - intros [H1 H2]. split; [|exact H2]. unfold lift in H1. destruct (Nat.ltb k' a) eqn:El; [apply Nat.ltb_lt in El|]; lia.
          - intros [H1 H2]. split; [apply Hlt; exact H1|exact H2]. }
        assert (Hlift : forall i' j', In i' (holders t' x) -> In j' (holders t' x) ->
                                      reach nat (tnext E0 (holders t x)) [lift a i'] (lift a j')).
        { intros i' j' Hi' Hj'. apply (reach_map (lift a) E' (holders t' x)); [exact HE0| |].
          - intros y Hy. apply Hhold. exact Hy.
          - apply (Hr' x); assumption. }
        destruct (in_dec Nat.eq_dec x Ca) as [HxCa|HxCa].
        -- destruct (Nat.eq_dec x v) as [->|Hxv].
           ++ (* only clique a contains v *)
              intros i j Hi Hj. apply In_holders in Hi, Hj. cbn [jcliques t] in Hi, Hj. unfold clq in Hi, Hj. cbn [jcliques t] in Hi, Hj.
              assert (i = a) by (apply Huniq; tauto). assert (j = a) by (apply Huniq; tauto). subst.
              apply reach_src. left. reflexivity.
           ++ assert (HxN : In x N) by (destruct (HCaK x HxCa) as [<-|H]; [congruence|exact H]).
              assert (Hbh : In b (holders t x)).
              { apply In_holders. cbn [jcliques t]. split; [lia|]. unfold clq. cbn [jcliques t]. apply HNb. exact HxN. }
              assert (Hah : In a (holders t x)).
              { apply In_holders. cbn [jcliques t]. split; [exact Ha|]. unfold clq. cbn [jcliques t]. rewrite Hntha. exact HxCa. }
              apply (hub_conn E0 _ b Hbh). intros k Hk.
              destruct (Nat.eq_dec k a) as [->|Hka].
              ** eapply reach_step; [apply reach_src; left; reflexivity|]. apply In_tnext. split; [exact Hab|exact Hah].
              ** destruct (lift_surj a k Hka) as [k' [Hk' _]]. rewrite <- Hk', <- Hb'. apply Hlift.
                 --- apply Hhold. rewrite Hb'. exact Hbh.
                 --- apply Hhold. rewrite Hk'. exact Hk.
        -- intros i j Hi Hj.
           assert (Hia : i <> a).
           { intros ->. apply In_holders in Hi. unfold clq in Hi. cbn [jcliques t] in Hi. rewrite Hntha in Hi. tauto. }
           assert (Hja : j <> a).
           { intros ->. apply In_holders in Hj. unfold clq in Hj. cbn [jcliques t] in Hj. rewrite Hntha in Hj. tauto. }
           destruct (lift_surj a i Hia) as [i' [Hi' _]]. destruct (lift_surj a j Hja) as [j' [Hj' _]].
           rewrite <- Hi', <- Hj'. apply Hlift; apply Hhold; [rewrite Hi'; exact Hi|rewrite Hj'; exact Hj].
    + (* ---- case B: N is itself maximal in the rest of the graph; clique a shrinks from v :: N to N *)
      assert (HB : forall b, b < length F -> b <> a -> ~ incl N (nth b F [])).
      { intros b Hb Hba Hinc.
        assert (Hf : existsb (fun b => negb (Nat.eqb b a) && subsetn N (nth b F [])) (seq 0 (length F)) = true).
        { apply existsb_exists. exists b. split; [apply in_seq; lia|]. apply andb_true_iff.
          split; [apply negb_true_iff, Nat.eqb_neq; exact Hba|apply subsetn_incl; exact Hinc]. }
        congruence. }
      set (F' := replace_nth a N F).
      assert (HlenF : length F' = length F) by apply length_replace_nth.
      assert (Hna : nth a F' [] = N) by (apply nth_replace_nth_same; exact Ha).
      assert (Hno : forall i, i <> a -> nth i F' [] = nth i F []) by (intros i Hi; apply nth_replace_nth_other; exact Hi).
      destruct (IH Hnd' Hpeo' F') as [E' [Ht' Hr']].
      { split; [|split].
        - intros C HC. destruct (In_nth F' C [] HC) as [i [Hi Hn]]. rewrite <- Hn.
          destruct (Nat.eq_dec i a) as [->|Hia]; [rewrite Hna; exact HNrest|].
          rewrite Hno by exact Hia. apply Hrest; [lia|exact Hia].
        - intros K HK. destruct (M2 K (Hup K HK)) as [C [HC HKC]].
          destruct (In_nth F C [] HC) as [i [Hi Hn]].
          destruct (Nat.eq_dec i a) as [->|Hia].
          + exists N. split; [rewrite <- Hna; apply nth_In; lia|]. apply (HKrest K HK). rewrite <- Hntha, Hn. exact HKC.
          + exists C. split; [rewrite <- Hn, <- (Hno i Hia); apply nth_In; lia|exact HKC].
        - intros i j Hi Hj Hij. rewrite HlenF in Hi, Hj.
          destruct (Nat.eq_dec i a) as [->|Hia]; [rewrite Hna, (Hno j) by congruence; apply HB; [exact Hj|congruence]|].
          rewrite (Hno i Hia). destruct (Nat.eq_dec j a) as [->|Hja].
          + rewrite Hna. intros Hinc. apply (M3 i a Hi Ha Hia). rewrite Hntha. intros x Hx. apply HKvCa. right. apply Hinc. exact Hx.
          + rewrite (Hno j Hja). apply M3; assumption. }
      set (t' := {| jcliques := F'; jedges := E' |}) in *.
      set (t := {| jcliques := F; jedges := E' |}).
      exists E'. split.
      * unfold is_tree in *. cbn [jcliques jedges t'] in Ht'. cbn [jcliques jedges]. rewrite HlenF in Ht'. exact Ht'.
      * intros x. destruct (Nat.eq_dec x v) as [->|Hxv].
        -- intros i j Hi Hj. apply In_holders in Hi, Hj. unfold clq in Hi, Hj. cbn [jcliques t] in Hi, Hj.
           assert (i = a) by (apply Huniq; tauto). assert (j = a) by (apply Huniq; tauto). subst.
           apply reach_src. left. reflexivity.
        -- assert (Heq : holders t x = holders t' x).
           { unfold holders. cbn [jcliques t t']. rewrite HlenF. apply filter_ext_in. intros i Hi.
             destruct (Nat.eq_dec i a) as [->|Hia]; [|rewrite (Hno i Hia); reflexivity].
             rewrite Hna, Hntha. apply eq_true_iff_eq. rewrite !memn_In. split.
             - intros Hx. destruct (HCaK x Hx) as [<-|H]; [congruence|exact H].
             - intros Hx. apply HKvCa. right. exact Hx. }
           change (conn_on E' (holders t x)). rewrite Heq. exact (Hr' x).
Qed.
End Exists.

(* ================================================================== Part C: the construction *)
Lemma max_cliques_of_ext E V V' F : (forall x, In x V <-> In x V') -> max_cliques_of E V F -> max_cliques_of E V' F.
Proof.
  intros HV (M1 & M2 & M3). split; [|split; [|exact M3]].
  - intros C HC. destruct (M1 C HC) as (H1 & H2 & H3). split; [exact H1|split; [|exact H3]].
    intros x Hx. apply HV. apply H2. exact Hx.
  - intros K (H1 & H2 & H3). apply M2. split; [exact H1|split; [|exact H3]].
    intros x Hx. apply HV. apply H2. exact Hx.
Qed.

(* maximal cliques of a chordal graph + any maximum-weight spanning tree of the clique graph = junction tree *)
Theorem chordal_max_weight_rip g t :
  chordal g -> max_cliques_of (uedges g) (vertices g) (jcliques t) -> max_weight_tree t ->
  is_tree t /\ rip t.
Proof.
  intros [order (Hnd & Hcov & Hpeo)] HM Hmax. split; [apply Hmax|].
  apply max_weight_rip; [|.. |exact Hmax].
  - intros c Hc. destruct HM as (M1 & _). apply (M1 c Hc).
  - apply (rip_tree_exists (uedges g) order Hnd Hpeo).
    apply (max_cliques_of_ext _ (vertices g)); [intros x; symmetry; apply Hcov|exact HM].
Qed.

(* the cliques cover every scope that is a clique of the graph *)
Lemma max_cliques_cover E V t scopes : max_cliques_of E V (jcliques t) ->
  (forall s, In s scopes -> clique_in E V s) -> covers t scopes.
Proof. intros (_ & M2 & _) H s Hs. apply M2. apply H. exact Hs. Qed.

(* MarkovNetwork.to_junction_tree of the model: triangulate as coded, take the maximal cliques of the result and
   ANY maximum-weight spanning tree of their clique graph -- the result is a junction tree for the factors *)
Theorem junction_tree_construction g order inplace F E0 scopes :
  noloop (uedges g) ->
  (forall v, In v (endpoints (uedges g)) -> In v order) ->
  let g' := triangulate_order g order inplace in
  let t := {| jcliques := F; jedges := E0 |} in
  max_cliques_of (uedges g') (vertices g') F ->
  max_weight_tree t ->
  (forall s, In s scopes -> clique_in (uedges g) (vertices g) s) ->
  is_tree t /\ covers t scopes /\ rip t.
Proof.
  intros Hnl Hcov g' t HM Hmax Hsc.
  destruct (triangulate_order_chordal g order inplace Hnl Hcov) as (Hadj & _ & Hvert & Hch).
  fold g' in Hadj, Hvert, Hch.
  destruct (chordal_max_weight_rip g' t Hch HM Hmax) as [Ht Hr].
  split; [exact Ht|]. split; [|exact Hr].
  apply (max_cliques_cover (uedges g') (vertices g')); [exact HM|].
  intros s Hs. destruct (Hsc s Hs) as (H1 & H2 & H3). split; [exact H1|]. split.
  - intros x Hx. apply Hvert. apply H2. exact Hx.
  - intros x y Hx Hy Hne. apply Hadj. apply H3; assumption.
Qed.

Section Joint.
Variable R : csr.
Variable card : var -> nat.

(* ... and its clique potentials multiply to the product of all the factors *)
Theorem junction_tree_joint g order inplace F E0 (fs : list (factor R)) :
  noloop (uedges g) ->
  (forall v, In v (endpoints (uedges g)) -> In v order) ->
  let g' := triangulate_order g order inplace in
  let t := {| jcliques := F; jedges := E0 |} in
  max_cliques_of (uedges g') (vertices g') F ->
  max_weight_tree t ->
  Forall (wf R card) fs ->
  (forall f, In f fs -> incl (fvars f) (vertices g) /\ is_clique (uedges g) (fvars f)) ->
  is_tree t /\ covers t (map fvars fs) /\ rip t /\
  exists ps, jt_potentials R card F fs = Ok ps /\ same_joint R card ps fs.
Proof.
  intros Hnl Hcov g' t HM Hmax Hwf Hsc.
  destruct (junction_tree_construction g order inplace F E0 (map fvars fs) Hnl Hcov HM Hmax) as (Ht & Hc & Hr).
  { intros s Hs. apply in_map_iff in Hs. destruct Hs as [f [<- Hf]]. destruct (Hsc f Hf) as [H1 H2].
    rewrite Forall_forall in Hwf. split; [apply (Hwf f Hf)|]. split; assumption. }
  split; [exact Ht|]. split; [exact Hc|]. split; [exact Hr|].
  destruct (jt_potentials_total R card F fs Hc) as [ps Hps]. exists ps. split; [exact Hps|].
  apply (jt_joint R card F fs ps Hwf); [|exact Hps].
  apply Forall_forall. intros c Hcin. destruct HM as (M1 & _). apply (M1 c Hcin).
Qed.
End Joint.

(* a per-run certificate that a given spanning tree has maximum weight: its weight reaches the bound wstar
   (no spanning tree on the same cliques can exceed it) *)
Theorem wstar_certifies_max t : is_tree t -> cliques_nodup t -> wstar t <= weight t -> max_weight_tree t.
Proof.
  intros Ht Hn Hw. split; [exact Ht|]. intros E' Ht'.
  pose proof (tree_weight_upper {| jcliques := jcliques t; jedges := E' |} Ht' Hn) as U.
  rewrite (wstar_cliques t {| jcliques := jcliques t; jedges := E' |} eq_refl) in U. lia.
Qed.
