(* C13: the finite-domain theorems of Finite.v restated against the Prop criteria of Spec.v, through the
   reflection lemmas of ProofsCrit.v *)
From Coq Require Import List Bool Arith PeanoNat Lia.
From PV Require Import Base.Reach Base.Graph C08.Model C08.Spec C13.Model C13.Spec C13.ProofsCrit C13.Finite.
Import ListNotations.

Lemma has_dpathb_spec g x y : wf_graph g -> acyclic g ->
  (has_dpathb g x y = true <-> exists t, directed_path g x y t).
Proof.
  intros Hw Hac. unfold has_dpathb. destruct (directed_paths g x y) as [|t l] eqn:E.
  - split; [discriminate|]. intros [t Ht]. apply (directed_paths_spec g x y t Hw Hac) in Ht. rewrite E in Ht. destruct Ht.
  - split; [|reflexivity]. intros _. exists t. apply (directed_paths_spec g x y t Hw Hac). rewrite E. left. reflexivity.
Qed.


Lemma all_dags_wf n g : In g (all_dags n) -> wf_graph g /\ acyclic g.
Proof.
  unfold all_dags. intros H. apply filter_In in H. destruct H as [H Hac]. apply in_map_iff in H.
  destruct H as [es [<- Hes]].
  assert (Hw : wf_graph {| nodes := seq 0 n; edges := es |}).
  { split; [apply seq_NoDup|]. simpl. clear Hac. revert es Hes. generalize (seq 0 n) as ns. intros ns.
    assert (G : forall P es, In es (choices P) -> forall u v, In (u, v) es -> In (u, v) P \/ In (v, u) P).
    { induction P as [|e P IH]; intros es Hes u v Hin; simpl in Hes.
      - destruct Hes as [<-|[]]. destruct Hin.
      - apply in_flat_map in Hes. destruct Hes as [o [Ho Hes]]. destruct e as [a b]. simpl in Hes.
        destruct Hes as [<-|[<-|[<-|[]]]].
        + destruct (IH o Ho u v Hin); [left; right; assumption|right; right; assumption].
        + destruct Hin as [E|Hin]; [inversion E; subst; left; left; reflexivity|].
          destruct (IH o Ho u v Hin); [left; right; assumption|right; right; assumption].
        + destruct Hin as [E|Hin]; [inversion E; subst; right; left; reflexivity|].
          destruct (IH o Ho u v Hin); [left; right; assumption|right; right; assumption]. }
    assert (U : forall l u v, In (u, v) (upairs l) -> In u l /\ In v l).
    { induction l as [|x l IH]; intros u v H; [destruct H|]. simpl in H. apply in_app_or in H. destruct H as [H|H].
      - apply in_map_iff in H. destruct H as [y [E Hy]]. inversion E; subst. split; [left; reflexivity|right; exact Hy].
      - destruct (IH u v H). split; right; assumption. }
    intros es Hes u v Hin. destruct (G _ es Hes u v Hin) as [H|H]; apply U in H; tauto. }
  split; [exact Hw|]. apply (acyclicb_spec _ Hw). exact Hac.
Qed.

(* the coded tests against the Prop criteria *)
Theorem backdoor_test_iff_criterion_upto4 : forall n g x y Z, n <= 4 -> In g (all_dags n) ->
  In x (nodes g) -> In y (nodes g) -> x <> y -> In Z (powerset (nondesc_cand g x y)) ->
  (is_valid_backdoor g x y Z = true <-> backdoor_criterion g x y Z) /\
  (is_valid_adjustment g [x] [y] Z = Some true <-> backdoor_criterion g x y Z).
Proof.
  intros n g x y Z Hn Hg Hx Hy Hne HZ. destruct (all_dags_wf n g Hg) as [Hw _].
  destruct (backdoor_tests_upto4 n g x y Z Hn Hg Hx Hy Hne HZ) as [H1 H2].
  rewrite H1, H2, <- (backdoor_criterionb_spec g x y Z Hw). split; [tauto|].
  split; [intros E; inversion E; reflexivity|intros ->; reflexivity].
Qed.

Theorem frontdoor_iff_upto4 : forall n g x y Z, n <= 4 -> In g (all_dags n) ->
  In x (nodes g) -> In y (nodes g) -> x <> y -> In Z (powerset (other_nodes g x y)) ->
  (is_valid_frontdoor g x y Z = true <-> (exists t, directed_path g x y t) /\ frontdoor_criterion g x y Z).
Proof.
  intros n g x y Z Hn Hg Hx Hy Hne HZ. destruct (all_dags_wf n g Hg) as [Hw Hac].
  rewrite (frontdoor_test_upto4 n g x y Z Hn Hg Hx Hy Hne HZ), andb_true_iff.
  rewrite (has_dpathb_spec g x y Hw Hac), (frontdoor_criterionb_spec g x y Z Hw Hac). tauto.
Qed.

Theorem enumerated_sets_valid_upto4 : forall n g x y lat order, n <= 4 -> In g (all_dags n) ->
  In x (nodes g) -> In y (nodes g) -> x <> y -> In lat (powerset (nodes g)) -> In order (perms (nodes g)) ->
  (forall l s, all_backdoor_sets g lat x y order = Some (Some l) -> In s l ->
     backdoor_criterion g x y s /\ (forall v, In v s -> ~ In v lat)) /\
  (all_backdoor_sets g lat x y order = Some (Some []) -> backdoor_criterion g x y []) /\
  (forall l s, all_frontdoor_sets g lat x y order = Some l -> In s l ->
     frontdoor_criterion g x y s /\ (forall v, In v s -> ~ In v lat)).
Proof.
  intros n g x y lat order Hn Hg Hx Hy Hne Hl Ho. destruct (all_dags_wf n g Hg) as [Hw Hac].
  destruct (enumerated_upto4 n g x y lat order Hn Hg Hx Hy Hne Hl Ho) as [H1 [H2 H3]].
  assert (D : forall s, disjointb s lat = true -> forall v, In v s -> ~ In v lat).
  { intros s H v Hv. unfold disjointb in H. rewrite forallb_forall in H. apply memn_false. apply negb_true_iff. apply H. exact Hv. }
  split; [|split].
  - intros l s E Hs. destruct (H1 l s E Hs) as [Ha Hb]. split; [apply (backdoor_criterionb_spec g x y s Hw); exact Ha|apply D; exact Hb].
  - intros E. apply (backdoor_criterionb_spec g x y [] Hw). apply H2. exact E.
  - intros l s E Hs. destruct (H3 l s E Hs) as [Ha Hb]. split; [apply (frontdoor_criterionb_spec g x y s Hw Hac); exact Ha|apply D; exact Hb].
Qed.
