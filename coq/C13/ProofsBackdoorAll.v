(* C13 proofs: the back-door ADJUSTMENT FORMULA for every DAG of every size (Base/Backdoor.v, from the
   factorisation theorem of Base/Markov.v), stated with pgmpy's own test [is_valid_backdoor].
   The potentials F are any family of conditional distributions along the graph (F v looks at v and its parents and
   sums to one over v); P = marginals of their product, trunc = the truncated factorisation.  What is NOT done
   here: the link from this formula to the literal loop of Model.query on a [bnet] (adj_value: dictionary merge,
   final normalisation, definedness flag), which stays the finite-domain theorem of ProofsBdGrid.v. *)
From Coq Require Import List Bool Arith PeanoNat QArith Qcanon.
From PV Require Import Base.Reach Base.Graph Base.Semiring Base.FinSum Base.RefFactor Base.Markov Base.Backdoor
  C08.Model C08.Spec C13.Model.
Import ListNotations.
Local Close Scope Q_scope.
Local Open Scope nat_scope.

Theorem backdoor_adjustment_formula (card : var -> nat) (g : digraph) (F : var -> asg -> Qc)
  (x : node) (xv : nat) (Y Z : list node) (a : asg) :
  wf_graph g -> acyclic g ->
  (forall v, In v (nodes g) -> @depends_only Qc_sum_csr (F v) (v :: parents g v)) ->
  (forall v, In v (nodes g) -> forall b, valid card b -> @sum_over Qc_sum_csr [v] [card v] (F v) b = 1%Qc) ->
  In x (nodes g) -> xv < card x ->
  (forall y, In y Y -> In y (nodes g) /\ ~ In y (x :: Z)) ->
  NoDup Z /\ incl Z (nodes g) /\ ~ In x Z ->
  (forall y, In y Y -> is_valid_backdoor g x y Z = true) ->
  (forall z, In z Z -> ~ dpath g x z) ->
  valid card a -> a x = xv ->
  (forall b, valid card b -> b x = xv -> marg Qc_sum_csr card g F (x :: Z) b <> 0%Qc) ->
  @sum_over Qc_sum_csr Z (map card Z)
     (fun b => (marg Qc_sum_csr card g F (Y ++ x :: Z) b / marg Qc_sum_csr card g F (x :: Z) b
                * marg Qc_sum_csr card g F Z b)%Qc) a
  = trunc Qc_sum_csr card g F x Y a.
Proof.
  intros Hwf Hac Fdep Fsum Hx Hxv HY HZ Htest Hdesc Ha Hax Hpos.
  exact (backdoor_adjustment card g F Hwf Hac Fdep Fsum x xv Hx Hxv Y Z HY HZ Htest Hdesc a Ha Hax Hpos).
Qed.

(* non-vacuity: U -> X, U -> Y, X -> Y (X = 0, U = 1, Y = 2): {U} passes pgmpy's test, is not a descendant of X,
   while the empty set fails the test *)
Example backdoor_formula_nonvacuous :
  let g := {| nodes := [0; 1; 2]; edges := [(1, 0); (1, 2); (0, 2)] |} in
  wf_graph g /\ acyclic g /\ is_valid_backdoor g 0 2 [1] = true /\ is_valid_backdoor g 0 2 [] = false /\
  (forall z, In z [1] -> ~ dpath g 0 z).
Proof.
  intros g.
  assert (Hw : wf_graph g).
  { split; [repeat constructor; simpl; intuition discriminate|].
    intros u v [H|[H|[H|[]]]]; inversion H; subst; simpl; tauto. }
  split; [exact Hw|]. split; [apply (acyclicb_spec g Hw); vm_compute; reflexivity|].
  split; [vm_compute; reflexivity|]. split; [vm_compute; reflexivity|].
  intros z [<-|[]] Hp. apply (has_path_spec g 0 1 Hw) in Hp. revert Hp. vm_compute. discriminate.
Qed.
