(* C13: the joint of the mutilated network do_bn bn X factorises as
      (parent-free CPDs of X) x (truncated factorisation),
   hence conditioning the mutilated network on X = x gives the normalised truncated factorisation.
   Unbounded, algebraic (over Qc). *)
From Coq Require Import List Bool Arith PeanoNat Lia QArith Qcanon.
From PV Require Import Base.Reach Base.Graph Base.Semiring Base.Ravel Base.FinSum Base.RefFactor Base.VE
  C08.Model C13.Model C13.Spec C13.ProofsDo.
Import ListNotations.
Local Close Scope Q_scope.
Local Open Scope Qc_scope.

Notation R := Qc_sum_csr.

(* ---- generic helpers ---- *)
Lemma sum_over_ext_outside vs : forall cs (g h : asg -> R) a,
  (forall b, (forall v, ~ In v vs -> b v = a v) -> g b = h b) ->
  @sum_over R vs cs g a = @sum_over R vs cs h a.
Proof.
  induction vs as [|w vs IH]; intros cs g h a H.
  - simpl. apply H. intros v _. reflexivity.
  - destruct cs as [|c cs]; [simpl; apply H; intros v _; reflexivity|]. cbn [sum_over].
    apply sum_list_ext. intros i _. apply IH. intros b Hb. apply H. intros v Hv.
    rewrite Hb by (intros Hi; apply Hv; right; exact Hi).
    apply upd_other. intros E. apply Hv. left. symmetry. exact E.
Qed.

Lemma upds_key a b ev v : In v (map fst ev) -> upds a ev v = upds b ev v.
Proof.
  induction ev as [|[w i] ev IH]; intros H; [destruct H|]. cbn [upds]. unfold upd.
  destruct (Nat.eqb v w) eqn:E; [reflexivity|]. apply IH.
  destruct H as [H|H]; [simpl in H; subst; rewrite Nat.eqb_refl in E; discriminate|exact H].
Qed.

Lemma upds_idem a ev : aeq (upds (upds a ev) ev) (upds a ev).
Proof.
  intros v. destruct (in_dec Nat.eq_dec v (map fst ev)) as [Hi|Hn].
  - apply upds_key. exact Hi.
  - rewrite upds_other by exact Hn. reflexivity.
Qed.

(* an assignment is consistent with the intervention *)
Definition consistent (dov : list (var * nat)) (a : asg) : Prop := aeq (upds a dov) a.

Lemma consistent_upds dov a : consistent dov (upds a dov).
Proof. apply upds_idem. Qed.

Lemma consistent_outside dov a b :
  consistent dov a -> (forall v, In v (evars dov) -> b v = a v) -> consistent dov b.
Proof.
  intros Ha Hb v. destruct (in_dec Nat.eq_dec v (evars dov)) as [Hi|Hn].
  - rewrite (upds_key b a dov v Hi). rewrite (Ha v). symmetry. apply Hb. exact Hi.
  - apply upds_other. exact Hn.
Qed.

(* ---- the weight of the intervened nodes in the mutilated network ---- *)
Definition inX (dov : list (var * nat)) (c : cpd) : bool := memn (cvar c) (evars dov).
Definition do_weight (bn : bnet) (dov : list (var * nat)) (a : asg) : Qc :=
  eval_prod R (bcard bn) (map (fun c => cfac (marg_cpd (bcard bn) c)) (filter (inX dov) (bcpds bn))) a.

Lemma do_weight_ignores bn dov v : ~ In v (evars dov) -> @ignores R (do_weight bn dov) v.
Proof.
  intros Hv. unfold do_weight. apply eval_prod_ignores. intros f Hf Hi.
  apply in_map_iff in Hf. destruct Hf as [c [<- Hc]]. apply filter_In in Hc. destruct Hc as [_ Hc].
  unfold inX in Hc. apply memn_In in Hc. simpl in Hi. destruct Hi as [<-|[]]. contradiction.
Qed.

Lemma prod_split (cs : list cpd) (p : cpd -> bool) (f g : cpd -> Qc) :
  @prod_list R (map (fun c => if p c then f c else g c) cs) =
  @prod_list R (map f (filter p cs)) * @prod_list R (map g (filter (fun c => negb (p c)) cs)).
Proof.
  induction cs as [|c cs IH]; simpl; [ring|]. simpl in IH. rewrite IH.
  destruct (p c); simpl; ring.
Qed.

Lemma joint_prod_shape bn dov a :
  @prod_list R (map (fun c => feval R (bcard bn)
                    (cfac (if memn (cvar c) (evars dov) then marg_cpd (bcard bn) c else c)) a) (bcpds bn)) =
  @prod_list R (map (fun c => if inX dov c then feval R (bcard bn) (cfac (marg_cpd (bcard bn) c)) a
                              else feval R (bcard bn) (cfac c) a) (bcpds bn)).
Proof. f_equal. apply map_ext. intros c. unfold inX. destruct (memn (cvar c) (evars dov)); reflexivity. Qed.

(* pointwise: mutilated joint = weight x truncated factorisation, on assignments consistent with do *)
Lemma do_joint_pointwise bn dov bn' a :
  do_bn bn (evars dov) = Some bn' -> consistent dov a ->
  joint bn' a = do_weight bn dov a * trunc_joint bn dov a.
Proof.
  intros Hdo Hc. unfold do_bn in Hdo. destruct (do_graph (bg bn) (evars dov)) as [g'|]; [|discriminate].
  inversion Hdo. subst bn'. unfold joint, do_weight, trunc_joint, bcard. cbn [bcards bcpds].
  fold (bcard bn). unfold eval_prod. rewrite !map_map.
  rewrite joint_prod_shape.
  etransitivity.
  { apply (prod_split (bcpds bn) (inX dov)
             (fun c => feval R (bcard bn) (cfac (marg_cpd (bcard bn) c)) a)
             (fun c => feval R (bcard bn) (cfac c) a)). }
  f_equal. f_equal. apply map_ext. intros c. apply feval_ext. apply aeq_sym. exact Hc.
Qed.

(* ---- conditioning the mutilated network on X = x ---- *)
Lemma do_bn_same bn X bn' : do_bn bn X = Some bn' ->
  nodes (bg bn') = nodes (bg bn) /\ bcard bn' = bcard bn.
Proof.
  intros H. destruct (do_bn_spec bn X bn' H) as [Hg [Hc _]].
  destruct (do_graph_spec (bg bn) X) as [_ Hs]. destruct (Hs _ Hg) as [Hn _].
  split; [exact Hn|]. unfold bcard. rewrite Hc. reflexivity.
Qed.

Lemma do_sum_factor bn dov bn' vs a :
  do_bn bn (evars dov) = Some bn' -> (forall v, In v vs -> ~ In v (evars dov)) ->
  qsum (bcard bn) vs (joint bn') (upds a dov) =
  do_weight bn dov (upds a dov) * qsum (bcard bn) vs (trunc_joint bn dov) (upds a dov).
Proof.
  intros Hdo Hd. unfold qsum.
  rewrite (sum_over_ext_outside vs (map (bcard bn) vs) (joint bn')
             (fun b => do_weight bn dov b * trunc_joint bn dov b)).
  - apply (sum_over_mul_l R vs (map (bcard bn) vs) (do_weight bn dov) (trunc_joint bn dov)).
    + intros v Hv. apply do_weight_ignores. apply Hd. exact Hv.
    + intros b. exact I.
  - intros b Hb. apply (do_joint_pointwise bn dov bn' b Hdo).
    apply (consistent_outside dov (upds a dov) b); [apply consistent_upds|].
    intros v Hv. apply Hb. intros Hi. exact (Hd v Hi Hv).
Qed.

Definition trunc_norm (bn : bnet) (Y : list var) (dov : list (var * nat)) (a : asg) : Qc :=
  qsum (bcard bn) (Y ++ minus (minus (nodes (bg bn)) Y) (evars dov)) (trunc_joint bn dov) (upds a dov).

Lemma In_minus x a b : In x (minus a b) <-> In x a /\ ~ In x b.
Proof. unfold minus. rewrite filter_In, negb_true_iff, memn_false. reflexivity. Qed.

Lemma Qc_cancel_l (w n d : Qc) : w <> 0 -> (w * n) / (w * d) = n / d.
Proof.
  intros Hw. unfold Qcdiv. rewrite Qcinv_mult_distr.
  transitivity ((w * / w) * (n * / d)); [ring|]. rewrite Qcmult_inv_r by exact Hw. ring.
Qed.

Lemma do_condition_is_truncated bn dov bn' Y a :
  do_bn bn (evars dov) = Some bn' -> (forall v, In v Y -> ~ In v (evars dov)) ->
  do_weight bn dov (upds a dov) <> 0 ->
  post bn' Y dov a = trunc_marg bn Y dov a / trunc_norm bn Y dov a.
Proof.
  intros Hdo Hd Hw. destruct (do_bn_same bn _ bn' Hdo) as [Hn Hc].
  unfold post, post_num, post_den, trunc_marg, trunc_norm. rewrite Hn, Hc.
  set (rest := minus (minus (nodes (bg bn)) Y) (evars dov)).
  assert (Hr : forall v, In v rest -> ~ In v (evars dov)).
  { intros v Hv. apply In_minus in Hv. apply Hv. }
  rewrite (do_sum_factor bn dov bn' rest a Hdo Hr).
  rewrite (do_sum_factor bn dov bn' (Y ++ rest) a Hdo).
  - apply Qc_cancel_l. exact Hw.
  - intros v Hv. apply in_app_or in Hv. destruct Hv as [Hv|Hv]; [apply Hd|apply Hr]; exact Hv.
Qed.
