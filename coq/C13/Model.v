(* C13 model: pgmpy/base/DAG.py [do], pgmpy/models/BayesianNetwork.py [do],
   pgmpy/inference/CausalInference.py (back-door / front-door tests and enumerations, proper back-door
   graph, is_valid_adjustment_set, get_minimal_adjustment_set, query) AS CODED.
   Executable definitions only; no proofs here.

   Conventions
   * nodes / variables are nat identifiers (Base.Graph.node = Base.FinSum.var = nat), states are indices;
   * a CPD is its variable, its parent list (= TabularCPD.variables[1:], the axis order) and the flat
     row-major table over (variable :: parents), i.e. a reference factor of Base/RefFactor.v;
   * probabilities are exact rationals Qc;
   * the inner VariableElimination / BeliefPropagation queries of CausalInference.query are modelled by
     their SPECIFICATION: the conditional of the CPD-product joint (that VE and BP compute it is the
     subject of C01 (C01_ve_any_order ...) and C02); everything CausalInference itself does on top
     (choice of the adjustment set, the dictionary merges, the loop, the final normalisation) is literal;
   * d-connection is C08.Model.is_dconnected (the worklist model of DAG.active_trail_nodes, proved equal
     to the path definition in C08: C08_is_dconnected_iff);
   * Python set iteration orders are explicit [order] parameters. *)
From Coq Require Import List Bool Arith PeanoNat QArith Qcanon.
From PV Require Import Base.Reach Base.Graph Base.Semiring Base.Ravel Base.FinSum Base.RefFactor C08.Model.
Import ListNotations.

(* ====================================================================== 1. graph surgery *)

(* DAG.do:  for node in nodes: for parent in list(dag.predecessors(node)): dag.remove_edge(parent, node) *)
Definition remove_edge (es : list (node * node)) (u v : node) : list (node * node) :=
  filter (fun e => negb (edge_eqb e (u, v))) es.
Definition remove_in_edges (g : digraph) (n : node) : digraph :=
  {| nodes := nodes g; edges := fold_left (fun es p => remove_edge es p n) (parents g n) (edges g) |}.
Definition subsetb (a b : list node) : bool := forallb (fun x => memn x b) a.
(* None = ValueError("Nodes not found in the model") *)
Definition do_graph (g : digraph) (X : list node) : option digraph :=
  if subsetb X (nodes g) then Some (fold_left remove_in_edges X g) else None.

(* ====================================================================== 2. networks *)

Local Open Scope Qc_scope.

Record cpd := { cvar : var; cpars : list var; ctab : list Qc }.
Record bnet := { bg : digraph; bcards : list (var * nat); bcpds : list cpd; blat : list node }.

Definition card_of (cs : list (var * nat)) (v : var) : nat :=
  match find (fun p => Nat.eqb (fst p) v) cs with Some p => snd p | None => 0%nat end.
Definition bcard (bn : bnet) : var -> nat := card_of (bcards bn).

Definition QF := factor Qc_sum_csr.
Definition cfac (c : cpd) : QF := Build_factor Qc_sum_csr (cvar c :: cpars c) (ctab c).
Definition qeval (card : var -> nat) (f : QF) (a : asg) : Qc := feval Qc_sum_csr card f a.
Definition qsum (card : var -> nat) (vs : list var) (g : asg -> Qc) (a : asg) : Qc :=
  @sum_over Qc_sum_csr vs (map card vs) g a.
Definition qsuml (l : list Qc) : Qc := @sum_list Qc_sum_csr l.

(* TabularCPD.marginalize(cpd.variables[1:]): sum the parents out, then TabularCPD.normalize
   (values / values.sum(axis=0)) *)
Definition marg_cpd (card : var -> nat) (c : cpd) : cpd :=
  let col := map (fun i => qsum card (cpars c) (qeval card (cfac c)) (upd (fun _ => 0%nat) (cvar c) i))
                 (seq 0 (card (cvar c))) in
  let tot := qsuml col in
  {| cvar := cvar c; cpars := []; ctab := map (fun q => q / tot) col |}.

(* BayesianNetwork.do(nodes): DAG.do on (a copy of) the graph, then for node in nodes:
   get_cpds(node).marginalize(cpd.variables[1:]).  All other CPD objects are untouched. *)
Definition do_bn (bn : bnet) (X : list node) : option bnet :=
  match do_graph (bg bn) X with
  | None => None
  | Some g' =>
      Some {| bg := g'; bcards := bcards bn;
              bcpds := map (fun c => if memn (cvar c) X then marg_cpd (bcard bn) c else c) (bcpds bn);
              blat := blat bn |}
  end.

(* ====================================================================== 3. exact posteriors (specification
   of the inner inference calls): P(Y | ev) of the CPD-product joint, as a function of the assignment *)

Definition joint (bn : bnet) (a : asg) : Qc := eval_prod Qc_sum_csr (bcard bn) (map cfac (bcpds bn)) a.

Definition minus (a b : list node) : list node := filter (fun x => negb (memn x b)) a.
Definition evars (ev : list (var * nat)) : list var := map fst ev.

(* numerator  sum_{rest} joint  and denominator  sum_{Y, rest} joint  at the evidence; Y-values read from a *)
Definition post_num (bn : bnet) (Y : list var) (ev : list (var * nat)) (a : asg) : Qc :=
  let rest := minus (minus (nodes (bg bn)) Y) (evars ev) in
  qsum (bcard bn) rest (joint bn) (upds a ev).
Definition post_den (bn : bnet) (Y : list var) (ev : list (var * nat)) (a : asg) : Qc :=
  let rest := minus (minus (nodes (bg bn)) Y) (evars ev) in
  qsum (bcard bn) (Y ++ rest) (joint bn) (upds a ev).
Definition post (bn : bnet) (Y : list var) (ev : list (var * nat)) (a : asg) : Qc :=
  post_num bn Y ev a / post_den bn Y ev a.

(* ====================================================================== 4. CausalInference.query *)

(* Step 2, adjustment_set is None:  the union of model.predecessors(var) over the do variables, as a set *)
Definition default_adjustment (g : digraph) (dov : list (var * nat)) : list node :=
  dedup (flat_map (parents g) (evars dov)).

Definition zev (Z : list var) (b : asg) : list (var * nat) := map (fun v => (v, b v)) Z.

(* Step 4 (evidence = {}):  values = [ infer.query(variables, {do merged with adj_evidence}) * p_z.get_value(adj_evidence)
   for every state combination of the adjustment set ];  the adjustment entries OVERRIDE the do entries in
   the merged dictionary (upds applies earlier list entries last) *)
Definition adj_term (bn : bnet) (Y : list var) (dov : list (var * nat)) (Z : list var) (b : asg) : Qc :=
  post bn Y (zev Z b ++ dov) b * post bn Z [] b.
Definition adj_unnorm (bn : bnet) (Y : list var) (dov : list (var * nat)) (Z : list var) (a : asg) : Qc :=
  qsum (bcard bn) Z (adj_term bn Y dov Z) a.
(* sum(values).normalize() *)
Definition adj_value (bn : bnet) (Y : list var) (dov : list (var * nat)) (Z : list var) (a : asg) : Qc :=
  adj_unnorm bn Y dov Z a / qsum (bcard bn) Y (adj_unnorm bn Y dov Z) a.

Inductive qerr := EValue | EUndefined.

Definition disjointb (a b : list node) : bool := forallb (fun x => negb (memn x b)) a.

(* the value of the returned factor at the Y-part of assignment a *)
Definition query_value (bn : bnet) (Y : list var) (dov : list (var * nat)) (Z : list var) (a : asg) : Qc :=
  match dov with
  | [] => post bn Y [] a
  | _ => match Z with
         | [] => post bn Y dov a
         | _ => adj_value bn Y dov Z a
         end
  end.

(* all joint index tuples of variables vs, row-major *)
Definition all_idx (card : var -> nat) (vs : list var) : list (list nat) :=
  map (unravel (map card vs)) (seq 0 (prod (map card vs))).

Definition qnz (q : Qc) : bool := negb (Qc_eq_bool q 0).

(* every division performed is by a non-zero number (otherwise pgmpy produces nan / back-end dependent
   values: zero-probability conditioning is outside the property) *)
Definition query_defined (bn : bnet) (Y : list var) (dov : list (var * nat)) (Z : list var) : bool :=
  let a0 : asg := fun _ => 0%nat in
  match dov with
  | [] => qnz (post_den bn Y [] a0)
  | _ => match Z with
         | [] => qnz (post_den bn Y dov a0)
         | _ => qnz (post_den bn Z [] a0)
                && forallb (fun idx => let b := asg_of Z idx in qnz (post_den bn Y (zev Z b ++ dov) b))
                           (all_idx (bcard bn) Z)
                && qnz (qsum (bcard bn) Y (adj_unnorm bn Y dov Z) a0)
         end
  end.

(* query(variables=Y, do=dov, evidence=None, adjustment_set=adj):
   EValue = ValueError (unknown variable; latent parent in the default adjustment set; the inner query refusing
   a variable that is both queried and conditioned on).  Result: the table over Y, row-major in the order Y. *)
Definition query (bn : bnet) (Y : list var) (dov : list (var * nat)) (adj : option (list var))
  : qerr + list Qc :=
  if negb (subsetb Y (nodes (bg bn))) then inl EValue
  else
    let Z := match adj with Some s => dedup s | None => default_adjustment (bg bn) dov end in
    if (match adj with None => negb (disjointb Z (blat bn)) | Some _ => false end) then inl EValue
    else
      let cond := match dov with [] => [] | _ => match Z with [] => evars dov | _ => Z ++ evars dov end end in
      if negb (disjointb Y cond) then inl EValue
      else if negb (query_defined bn Y dov Z) then inl EUndefined
      else inr (map (fun idx => query_value bn Y dov Z (asg_of Y idx)) (all_idx (bcard bn) Y)).

Local Close Scope Qc_scope.
Local Close Scope Q_scope.

(* ====================================================================== 5. adjustment-set tests *)

(* is_valid_backdoor_adjustment_set(X, Y, Z): observed = [X] + list(Z);
   all(not is_dconnected(p, Y, observed) for p in predecessors(X)) *)
Definition is_valid_backdoor (g : digraph) (x y : node) (Z : list node) : bool :=
  forallb (fun p => negb (is_dconnected g p y (x :: Z))) (parents g x).

(* itertools.combinations(s, k) / utils.sets._powerset *)
Fixpoint combs (l : list node) (k : nat) : list (list node) :=
  match l with
  | [] => match k with 0 => [[]] | S _ => [] end
  | x :: r => match k with 0 => [[]] | S k' => map (cons x) (combs r k') ++ combs r k end
  end.
Definition powerset (l : list node) : list (list node) := flat_map (combs l) (seq 0 (S (length l))).

Definition observed_nodes (g : digraph) (lat : list node) : list node := minus (nodes g) lat.

(* get_all_backdoor_adjustment_sets(X, Y); [order] lists the nodes in the iteration order of the Python set
   possible_adjustment_variables.  None = AssertionError (X or Y latent); Some None = ValueError (no set);
   Some (Some l): the returned frozenset of frozensets -- EMPTY when the empty set is valid (as coded). *)
Definition all_backdoor_sets (g : digraph) (lat : list node) (x y : node) (order : list node)
  : option (option (list (list node))) :=
  let obs := observed_nodes g lat in
  if negb (memn x obs && memn y obs) then None
  else if is_valid_backdoor g x y [] then Some (Some [])
  else
    let possible := filter (fun v => memn v obs && negb (Nat.eqb v x) && negb (Nat.eqb v y)
                                     && negb (memn v (desc_of g [x]))) order in
    let found := fold_left (fun (acc : list (list node)) (s : list node) =>
                              if existsb (fun vs => subsetb vs s) acc then acc
                              else if is_valid_backdoor g x y s then acc ++ [s] else acc)
                           (powerset possible) [] in
    match found with [] => Some None | _ => Some (Some found) end.

(* nx.all_simple_paths(model, X, Y) on a DAG: every directed path with at least one edge *)
Fixpoint dpaths (fuel : nat) (g : digraph) (x y : node) : list (list node) :=
  match fuel with
  | 0 => []
  | S f => flat_map (fun c => if Nat.eqb c y then [[x; y]] else map (cons x) (dpaths f g c y)) (children g x)
  end.

(* is_valid_frontdoor_adjustment_set(X, Y, Z) *)
Definition is_valid_frontdoor (g : digraph) (x y : node) (Z : list node) : bool :=
  let dp := dpaths (length (nodes g)) g x y in
  match dp with
  | [] => false
  | _ =>
      if existsb (fun p => negb (existsb (fun z => memn z p) Z)) dp then false
      else if existsb (fun z => negb (is_valid_backdoor g x z [])) Z then false
      else forallb (fun z => is_valid_backdoor g z y [x]) Z
  end.

(* get_all_frontdoor_adjustment_sets(X, Y); None = AssertionError *)
Definition all_frontdoor_sets (g : digraph) (lat : list node) (x y : node) (order : list node)
  : option (list (list node)) :=
  let obs := observed_nodes g lat in
  if negb (memn x obs && memn y obs) then None
  else
    let possible := filter (fun v => memn v obs && negb (Nat.eqb v x) && negb (Nat.eqb v y)) order in
    Some (filter (is_valid_frontdoor g x y) (powerset possible)).

(* get_proper_backdoor_graph(X, Y): remove path[0] for every path of nx.all_simple_edge_paths(model, source, Y),
   source in X.  On a DAG the first edges of the simple paths from source to a target in Y are the edges
   (source, c) with some target reachable from c.  None = ValueError (unknown node). *)
Definition proper_backdoor_graph (g : digraph) (X Y : list node) : option digraph :=
  if subsetb (X ++ Y) (nodes g) then
    Some {| nodes := nodes g;
            edges := filter (fun e => negb (memn (fst e) X && existsb (fun y => has_path g (snd e) y) Y))
                            (edges g) |}
  else None.

(* is_valid_adjustment_set(X, Y, adjustment_set): for x, y in zip(X, Y) *)
Definition is_valid_adjustment (g : digraph) (X Y : list node) (Z : list node) : option bool :=
  match proper_backdoor_graph g X Y with
  | None => None
  | Some pg => Some (forallb (fun xy => negb (is_dconnected pg (fst xy) (snd xy) Z)) (combine X Y))
  end.

(* get_minimal_adjustment_set(X, Y) = proper_backdoor_graph([X],[Y]).minimal_dseparator(X, Y)
   (C08.Model.minimal_dseparator; [lorder i] = iteration order of pass i of its latent-replacement loop,
   [order] = iteration order of the Python set [separator] in its removal loop).
   None = ValueError (unknown node, or X and Y adjacent in the proper back-door graph);
   Some None = returned None; Some (Some s). *)
Definition minimal_adjustment (g : digraph) (lat : list node) (x y : node)
  (lorder : nat -> list node) (order : list node) : option (option (list node)) :=
  match proper_backdoor_graph g [x] [y] with
  | None => None
  | Some pg => minimal_dseparator pg lat x y lorder order
  end.
