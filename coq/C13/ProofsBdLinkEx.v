(* C13: a non-trivial instance of backdoor_adjustment_is_truncated (non-vacuity): U -> X, U -> Y, X -> Y with
   strictly positive CPDs, do(X = 0), query Y, adjustment set {U}: every hypothesis is discharged (the semantic
   ones by evaluation on the finitely many in-range index tuples, ProofsAdjEx.check_all). *)
From Coq Require Import List Bool Arith PeanoNat Lia QArith Qcanon Permutation.
From PV Require Import Base.Reach Base.Graph Base.Semiring Base.Ravel Base.FinSum Base.RefFactor Base.VE
  C08.Model C08.Spec C13.Model C13.Spec C13.ProofsDo C13.ProofsTrunc C13.ProofsSum C13.ProofsAdjU C13.ProofsAdjEx
  C13.ProofsRefuted C13.ProofsBackdoorAll C13.ProofsBdLink.
Import ListNotations.
Local Close Scope Q_scope.
Local Open Scope Qc_scope.

Lemma upds_agree S a b ev : (forall v, In v S -> a v = b v) -> forall v, In v S -> upds a ev v = upds b ev v.
Proof.
  intros H. induction ev as [|[w i] ev IH]; intros v Hv; [apply H; exact Hv|]. cbn [upds]. unfold upd.
  destruct (Nat.eqb v w); [reflexivity|apply IH; exact Hv].
Qed.

Lemma pos_fun_depends bn Y Z dov : scopes_in bn -> incl Z (nodes (bg bn)) ->
  @depends_only R (fun b => post_den bn Y (zev Z b ++ dov) b) (nodes (bg bn)).
Proof.
  intros Hs HZ a b Hab.
  assert (E : zev Z a = zev Z b).
  { unfold zev. apply map_ext_in. intros v Hv. f_equal. apply Hab. apply HZ. exact Hv. }
  rewrite E. unfold post_den.
  apply (qsum_depends_only (bcard bn) _ (joint bn) (nodes (bg bn)) (joint_depends_only bn Hs)).
  apply upds_agree. exact Hab.
Qed.

(* X = 0, U = 1, Y = 2 *)
Definition e0 := {| cvar := 0%nat; cpars := [1%nat]; ctab := [q 1 4; q 3 4; q 3 4; q 1 4] |}.
Definition e1 := {| cvar := 1%nat; cpars := []; ctab := [q 1 2; q 1 2] |}.
Definition e2 := {| cvar := 2%nat; cpars := [1%nat; 0%nat]; ctab := [q 1 4; q 1 2; q 2 3; q 1 8; q 3 4; q 1 2; q 1 3; q 7 8] |}.
Definition ex_bn : bnet :=
  {| bg := {| nodes := [0; 1; 2]; edges := [(1, 0); (1, 2); (0, 2)] |}%nat;
     bcards := [(0, 2); (1, 2); (2, 2)]%nat; bcpds := [e0; e1; e2]; blat := [] |}.
Definition ex_cof (v : var) : cpd := match v with O => e0 | S O => e1 | _ => e2 end.

Local Close Scope Qc_scope.

Definition ex_check : bool :=
  forallb (fun c => forallb (fun idx => is1 (qsum (bcard ex_bn) [cvar c] (qeval (bcard ex_bn) (cfac c))
                                                  (asg_of [0; 1; 2]%nat idx)))
                            (all_idx (bcard ex_bn) [0; 1; 2]%nat)) [e0; e1; e2]
  && forallb (fun idx => nz (post_den ex_bn [2%nat] (zev [1%nat] (asg_of [0; 1; 2]%nat idx) ++ [(0, 0)]%nat)
                                      (asg_of [0; 1; 2]%nat idx)))
             (all_idx (bcard ex_bn) [0; 1; 2]%nat).
Lemma ex_check_true : ex_check = true.
Proof. vm_compute. reflexivity. Qed.

Lemma backdoor_link_example :
  is_valid_backdoor (bg ex_bn) 0 2 [1%nat] = true /\ is_valid_backdoor (bg ex_bn) 0 2 [] = false /\
  query ex_bn [2%nat] [(0, 0)]%nat (Some [1%nat]) = inr (trunc_table ex_bn [2%nat] [(0, 0)]%nat).
Proof.
  split; [vm_compute; reflexivity|]. split; [vm_compute; reflexivity|].
  assert (Hs : scopes_in ex_bn).
  { intros c Hc. simpl in Hc. destruct Hc as [<-|[<-|[<-|[]]]]; intros v Hv; simpl in *; intuition. }
  pose proof ex_check_true as Hc. unfold ex_check in Hc. apply andb_true_iff in Hc. destruct Hc as [Hn Hp].
  assert (Hwf : wf_graph (bg ex_bn)).
  { split; [repeat constructor; simpl; intuition discriminate|].
    intros u v H. simpl in H. repeat (destruct H as [H|H]; [inversion H; subst; simpl; tauto|]). destruct H. }
  assert (Hac : acyclic (bg ex_bn)) by (apply (acyclicb_spec _ Hwf); vm_compute; reflexivity).
  apply (backdoor_adjustment_is_truncated ex_bn ex_cof 0%nat 0%nat [2%nat] [1%nat] Hwf Hac).
  - apply Permutation_refl.
  - intros v Hv. simpl in Hv. destruct Hv as [<-|[<-|[<-|[]]]]; simpl; split; try reflexivity; intros p Hp'; simpl in *; intuition.
  - intros v Hv a Ha. apply is1_spec. rewrite forallb_forall in Hn.
    assert (Hc : In (ex_cof v) [e0; e1; e2]) by (simpl in Hv; destruct Hv as [<-|[<-|[<-|[]]]]; simpl; tauto).
    specialize (Hn _ Hc).
    apply (check_all (bcard ex_bn) (nodes (bg ex_bn)) (qsum (bcard ex_bn) [cvar (ex_cof v)] (qeval (bcard ex_bn) (cfac (ex_cof v)))) is1); [|exact Hn|exact Ha].
    apply qsum_depends_only. eapply depends_only_mono; [apply feval_depends_only|]. apply Hs. exact Hc.
  - intros v Hv. simpl in Hv. destruct Hv as [<-|[<-|[<-|[]]]]; vm_compute; lia.
  - simpl. tauto.
  - vm_compute. lia.
  - repeat constructor. intros [].
  - intros v [<-|[]]. simpl. tauto.
  - intros y [<-|[]]. simpl. intuition discriminate.
  - repeat constructor. intros [].
  - intros v [<-|[]]. simpl. tauto.
  - simpl. intuition discriminate.
  - intros y [<-|[]]. vm_compute. reflexivity.
  - intros z [<-|[]] Hd. apply (has_path_spec _ 0%nat 1%nat Hwf) in Hd. revert Hd. vm_compute. discriminate.
  - intros b Hb. apply nz_spec.
    apply (check_all (bcard ex_bn) (nodes (bg ex_bn))
             (fun b => post_den ex_bn [2%nat] (zev [1%nat] b ++ [(0, 0)]%nat) b) nz); [|exact Hp|exact Hb].
    apply pos_fun_depends; [exact Hs|]. intros v [<-|[]]. simpl. tauto.
Qed.
