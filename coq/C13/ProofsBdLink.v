(* C13: the LINK from the back-door adjustment formula (Base/Backdoor.v, C13_backdoor_adjustment_formula) to the
   literal computation of Model.query on a [bnet] with an explicitly given adjustment set: the dictionary merge,
   the loop over the states of Z, the final normalisation and the definedness flag.  Unbounded. *)
From Coq Require Import List Bool Arith PeanoNat Lia QArith Qcanon Permutation.
From PV Require Import Base.Reach Base.Graph Base.Semiring Base.Ravel Base.FinSum Base.RefFactor Base.VE
  Base.Markov Base.Backdoor C08.Model C08.Spec C08.ProofsMisc
  C13.Model C13.Spec C13.ProofsDo C13.ProofsTrunc C13.ProofsSum C13.ProofsAdjU C13.ProofsBackdoorAll.
Import ListNotations.
Local Close Scope Q_scope.
Local Open Scope Qc_scope.

Notation R := Qc_sum_csr.

Lemma feval_card_ext (c1 c2 : var -> nat) (f : factor R) a :
  (forall v, In v (fvars f) -> c1 v = c2 v) -> feval R c1 f a = feval R c2 f a.
Proof. intros H. unfold feval, fcard. f_equal. apply map_ext_in. exact H. Qed.

Lemma minus_minus V S E : minus (minus V S) E = filter (fun v => negb (memn v (S ++ E))) V.
Proof.
  unfold minus. induction V as [|v V IH]; [reflexivity|]. cbn [filter].
  assert (Hm : memn v (S ++ E) = memn v S || memn v E).
  { unfold memn. apply existsb_app. }
  rewrite Hm. destruct (memn v S); cbn [negb orb filter]; [exact IH|].
  destruct (memn v E); cbn [negb]; [exact IH|f_equal; exact IH].
Qed.

Section Link.
Variable bn : bnet.
Variable cof : var -> cpd.
Variables (x : var) (xv : nat) (Y Z : list var).
Notation g := (bg bn).
Notation V := (nodes (bg bn)).
Notation dov := [(x, xv)].

(* cardinalities, made positive outside the nodes (no assignment is in range for card_of's default 0) *)
Definition card' (v : var) : nat := if memn v V then bcard bn v else 1%nat.
Definition FF (v : var) (a : asg) : Qc := qeval card' (cfac (cof v)) a.

Hypothesis Hwf : wf_graph g.
Hypothesis Hac : acyclic g.
Hypothesis Hperm : Permutation (bcpds bn) (map cof V).
Hypothesis Hcof : forall v, In v V -> cvar (cof v) = v /\ forall p, In p (cpars (cof v)) -> In p (parents g v).
Hypothesis Hnorm : forall v, In v V -> normalised (bcard bn) V (cof v).
Hypothesis Hcard : forall v, In v V -> (0 < bcard bn v)%nat.

Lemma card'_V v : In v V -> card' v = bcard bn v.
Proof. intros H. unfold card'. apply memn_In in H. rewrite H. reflexivity. Qed.
Lemma map_card' vs : incl vs V -> map card' vs = map (bcard bn) vs.
Proof. intros H. apply map_ext_in. intros v Hv. apply card'_V. apply H. exact Hv. Qed.
Lemma card'_pos v : (0 < card' v)%nat.
Proof. unfold card'. destruct (memn v V) eqn:E; [apply Hcard; apply memn_In; exact E|lia]. Qed.

Lemma valid_vOn a : valid card' a -> vOn (bcard bn) V a.
Proof. intros H v Hv. rewrite <- (card'_V v Hv). apply H. Qed.

Lemma scope_in_V v : In v V -> incl (fvars (cfac (cof v))) V.
Proof.
  intros Hv u Hu. destruct (Hcof v Hv) as [Hc Hp]. simpl in Hu. destruct Hu as [<-|Hu]; [rewrite Hc; exact Hv|].
  apply Hp in Hu. apply In_parents in Hu. apply (proj2 Hwf _ _ Hu).
Qed.

Lemma FF_bcard v a : In v V -> FF v a = qeval (bcard bn) (cfac (cof v)) a.
Proof.
  intros Hv. unfold FF, qeval. apply feval_card_ext. intros u Hu. apply card'_V. apply (scope_in_V v Hv). exact Hu.
Qed.

Lemma qsum_card' vs (G : asg -> Qc) a : incl vs V -> qsum (bcard bn) vs G a = @sum_over R vs (map card' vs) G a.
Proof. intros H. unfold qsum. rewrite (map_card' vs H). reflexivity. Qed.

(* ---- B1: the CPD-product joint is the product of the node potentials ---- *)
Lemma joint_jprod a : joint bn a = jprod R FF V a.
Proof.
  unfold joint. rewrite (eval_prod_perm (bcard bn) _ (map cfac (map cof V)) a) by (apply Permutation_map; exact Hperm).
  unfold eval_prod, jprod. rewrite !map_map. f_equal. apply map_ext_in. intros v Hv.
  symmetry. apply FF_bcard. exact Hv.
Qed.

Lemma FF_dep v : In v V -> @depends_only R (FF v) (v :: parents g v).
Proof.
  intros Hv. destruct (Hcof v Hv) as [Hc Hp]. unfold FF, qeval.
  eapply depends_only_mono; [apply feval_depends_only|]. intros u Hu. simpl in Hu.
  destruct Hu as [<-|Hu]; [left; symmetry; exact Hc|right; apply Hp; exact Hu].
Qed.
Lemma FF_sum v : In v V -> forall a, valid card' a -> @sum_over R [v] [card' v] (FF v) a = 1.
Proof.
  intros Hv a Ha. pose proof (Hnorm v Hv a (valid_vOn a Ha)) as H. destruct (Hcof v Hv) as [Hc _].
  rewrite Hc in H. unfold qsum in H. cbn [map] in H. rewrite (card'_V v Hv). rewrite <- H.
  apply (sum_over_ext_fun R). intros b. apply FF_bcard. exact Hv.
Qed.
Lemma FF_ext v : In v V -> @ext R (FF v).
Proof. intros Hv. eapply depends_only_ext. apply FF_dep. exact Hv. Qed.
Lemma ext_jprodV : @ext R (jprod R FF V).
Proof. apply jprod_ext. intros v Hv. apply FF_ext. exact Hv. Qed.

Notation P := (marg R card' g FF).

(* ---- B2: the model's posterior numerators / denominators are marginals ---- *)
Lemma incl_filter_V (p : var -> bool) : incl (filter p V) V.
Proof. intros v Hv. apply filter_In in Hv. apply Hv. Qed.

Lemma post_num_marg S ev b : post_num bn S ev b = P (S ++ evars ev) (upds b ev).
Proof.
  unfold post_num, marg. rewrite minus_minus. rewrite qsum_card' by apply incl_filter_V.
  apply (sum_over_ext_fun R). intros c. apply joint_jprod.
Qed.

Lemma post_den_marg S ev b : NoDup S -> incl S V -> (forall s, In s S -> ~ In s (evars ev)) ->
  post_den bn S ev b = P (evars ev) (upds b ev).
Proof.
  intros Hnd Hin Hdis. unfold post_den. rewrite minus_minus.
  rewrite qsum_card'.
  2:{ intros v Hv. apply in_app_or in Hv. destruct Hv as [Hv|Hv]; [apply Hin; exact Hv|apply (incl_filter_V _ v Hv)]. }
  rewrite (sum_over_ext_fun R _ _ (joint bn) (jprod R FF V)) by apply joint_jprod.
  rewrite map_app. rewrite (sum_over_app R S _ (map card' S)) by (symmetry; apply map_length).
  exact (gmarg_sum_out R card' g (proj1 Hwf) (jprod R FF V) S (evars ev) (upds b ev) ext_jprodV Hnd Hin Hdis).
Qed.

(* ---- the query ---- *)
Hypothesis Hx : In x V.
Hypothesis Hxv : (xv < bcard bn x)%nat.
Hypothesis HYnd : NoDup Y.
Hypothesis HYV : incl Y V.
Hypothesis HYd : forall y, In y Y -> ~ In y (x :: Z).
Hypothesis HZnd : NoDup Z.
Hypothesis HZV : incl Z V.
Hypothesis HxZ : ~ In x Z.
(* pgmpy's own test accepts Z for every queried variable; no adjustment variable is a descendant of x *)
Hypothesis Htest : forall y, In y Y -> is_valid_backdoor g x y Z = true.
Hypothesis Hdesc : forall z, In z Z -> ~ dpath g x z.
(* positivity: P(x = xv, z) <> 0 for every in-range z: the denominators of the inner queries *)
Hypothesis Hpos : forall b, vOn (bcard bn) V b -> post_den bn Y (zev Z b ++ dov) b <> 0.

Lemma all_okQ' : forall q0 : R, ok q0. Proof. intros q0. exact I. Qed.
Lemma Hxv' : (xv < card' x)%nat. Proof. rewrite (card'_V x Hx). exact Hxv. Qed.

Lemma valid_bx b : valid card' b -> valid card' (upd b x xv).
Proof. intros H. apply valid_upd; [exact H|exact Hxv']. Qed.

Lemma ext_P S : @ext R (P S).
Proof. unfold marg. apply sum_over_is_ext. exact ext_jprodV. Qed.

Lemma filter_none (p : var -> bool) l : (forall v, In v l -> p v = false) -> filter p l = [].
Proof.
  induction l as [|v l IH]; intros H; [reflexivity|]. simpl. rewrite (H v (or_introl eq_refl)). apply IH.
  intros u Hu. apply H. right. exact Hu.
Qed.

Lemma total_mass (G : var -> asg -> Qc) a :
  (forall v, In v V -> @depends_only R (G v) (v :: parents g v)) ->
  (forall v, In v V -> forall b, valid card' b -> @sum_over R [v] [card' v] (G v) b = 1) ->
  valid card' a -> marg R card' g G [] a = 1.
Proof.
  intros Hd Hs Ha.
  pose proof (marg_ancestral R all_okQ' card' g G Hwf Hac Hd Hs [] [] a) as H.
  cbv zeta in H. rewrite H; [|intros u v _ []|intros v []|exact Ha].
  match goal with |- context [jprod _ _ ?Wl] =>
    assert (EW : Wl = []) by (apply filter_none; intros v _; reflexivity); rewrite EW end.
  reflexivity.
Qed.

Lemma P_ignores_summed S b i : ~ In x S -> P S (upd b x i) = P S b.
Proof.
  intros H. unfold marg. apply sum_over_upd_absorb; [exact ext_jprodV| |symmetry; apply map_length].
  apply filter_In. split; [exact Hx|]. apply negb_true_iff, memn_false. exact H.
Qed.

Lemma ev_aeq' b : aeq (upds b (zev Z b ++ dov)) (upd b x xv).
Proof.
  intros v. rewrite upds_app. cbn [upds]. apply upds_zev. intros w Hw. apply upd_other.
  intros E. subst w. exact (HxZ Hw).
Qed.
Lemma evars_ev' b : evars (zev Z b ++ dov) = Z ++ [x].
Proof. unfold evars. rewrite map_app. change (map fst (zev Z b)) with (evars (zev Z b)). rewrite evars_zev. reflexivity. Qed.

Lemma HYd' : forall y, In y Y -> ~ In y (Z ++ [x]).
Proof. intros y Hy Hi. apply (HYd y Hy). apply in_app_or in Hi. destruct Hi as [Hi|[E|[]]]; [right; exact Hi|left; exact E]. Qed.

Lemma post_Y_num b : post_num bn Y (zev Z b ++ dov) b = P (Y ++ x :: Z) (upd b x xv).
Proof.
  rewrite post_num_marg, evars_ev'. rewrite (ext_P _ _ _ (ev_aeq' b)).
  apply (marg_set_ext R card' g FF). intros v. repeat (rewrite in_app_iff). cbn [In]. repeat (rewrite in_app_iff). cbn [In]. tauto.
Qed.
Lemma post_Y_den b : post_den bn Y (zev Z b ++ dov) b = P (x :: Z) (upd b x xv).
Proof.
  rewrite (post_den_marg Y _ b HYnd HYV) by (rewrite evars_ev'; exact HYd').
  rewrite evars_ev'. rewrite (ext_P _ _ _ (ev_aeq' b)).
  apply (marg_set_ext R card' g FF). intros v. rewrite in_app_iff. cbn [In]. tauto.
Qed.
Lemma post_Z_num b : post_num bn Z [] b = P Z b.
Proof. rewrite post_num_marg. cbn [evars map upds]. rewrite app_nil_r. reflexivity. Qed.
Lemma post_Z_den b : valid card' b -> post_den bn Z [] b = 1.
Proof.
  intros Hb. rewrite (post_den_marg Z [] b HZnd HZV) by (intros s _ []). cbn [evars map upds].
  apply total_mass; [exact FF_dep|exact FF_sum|exact Hb].
Qed.

(* P(x = xv, z) <> 0 in the form the formula wants *)
Lemma pos_marg b : valid card' b -> b x = xv -> P (x :: Z) b <> 0.
Proof.
  intros Hb Hbx. pose proof (Hpos b (valid_vOn b Hb)) as H. rewrite post_Y_den in H.
  rewrite (ext_P (x :: Z) (upd b x xv) b) in H; [exact H|]. rewrite <- Hbx. apply upd_id.
Qed.

Definition TT' (c : asg) : Qc := P (Y ++ x :: Z) c / P (x :: Z) c * P Z c.
Lemma ext_TT' : @ext R TT'.
Proof. intros a b H. unfold TT'. rewrite (ext_P _ a b H), (ext_P (x :: Z) a b H), (ext_P Z a b H). reflexivity. Qed.

Lemma Qc_div_one (q0 : Qc) : q0 / 1 = q0.
Proof. unfold Qcdiv. assert (H1 : / 1 = 1) by (apply Qc_is_canon; reflexivity). rewrite H1. ring. Qed.

Lemma adj_term_TT b : valid card' b -> adj_term bn Y dov Z b = TT' (upd b x xv).
Proof.
  intros Hb. unfold adj_term, post. rewrite post_Y_num, post_Y_den, post_Z_num, (post_Z_den b Hb).
  unfold TT'. rewrite Qc_div_one. rewrite (P_ignores_summed Z b xv HxZ). reflexivity.
Qed.

Notation Pdo := (trunc R card' g FF x).

Lemma formula a : valid card' a -> a x = xv -> @sum_over R Z (map card' Z) TT' a = Pdo Y a.
Proof.
  intros Ha Hax.
  apply (backdoor_adjustment_formula card' g FF x xv Y Z a Hwf Hac FF_dep FF_sum Hx Hxv').
  - intros y Hy. split; [apply HYV; exact Hy|apply HYd; exact Hy].
  - split; [exact HZnd|split; [exact HZV|exact HxZ]].
  - exact Htest.
  - exact Hdesc.
  - exact Ha.
  - exact Hax.
  - exact pos_marg.
Qed.

Lemma adj_unnorm_trunc a : valid card' a -> adj_unnorm bn Y dov Z a = Pdo Y (upd a x xv).
Proof.
  intros Ha. unfold adj_unnorm. rewrite (qsum_card' Z _ a HZV).
  rewrite (sum_over_ext_on R card' Z _ (fun b => TT' (upd b x xv)) a Ha)
    by (intros b Hb _; apply adj_term_TT; exact Hb).
  rewrite (sum_over_clamp x xv Z (map card' Z) TT' a ext_TT' HxZ).
  apply formula; [apply valid_bx; exact Ha|apply upd_same].
Qed.

(* ---- the truncated factorisation of Spec.v is Backdoor.trunc ---- *)
Lemma trunc_joint_jprod b : trunc_joint bn dov b = jprod R FF (remv x V) (upd b x xv).
Proof.
  unfold trunc_joint. cbn [upds evars map fst].
  set (p := fun c : cpd => negb (memn (cvar c) [x])).
  assert (HP : Permutation (filter p (bcpds bn)) (map cof (remv x V))).
  { eapply Permutation_trans; [apply Permutation_filter; exact Hperm|].
    assert (E : filter p (map cof V) = map cof (remv x V)).
    { unfold remv. generalize (fun v (H : In v V) => proj1 (Hcof v H)). generalize V as l.
      induction l as [|v l IH]; intros Hc; [reflexivity|]. cbn [map filter]. unfold p at 1.
      rewrite (Hc v (or_introl eq_refl)). simpl. destruct (Nat.eqb v x); simpl.
      - apply IH. intros u Hu. apply Hc. right. exact Hu.
      - f_equal. apply IH. intros u Hu. apply Hc. right. exact Hu. }
    rewrite E. apply Permutation_refl. }
  rewrite (eval_prod_perm (bcard bn) _ (map cfac (map cof (remv x V))) _ (Permutation_map cfac HP)).
  unfold eval_prod, jprod. rewrite !map_map. f_equal. apply map_ext_in. intros v Hv.
  symmetry. apply FF_bcard. unfold remv in Hv. apply filter_In in Hv. apply Hv.
Qed.

Lemma ext_jprod_rem : @ext R (jprod R FF (remv x V)).
Proof. apply jprod_ext. intros v Hv. apply FF_ext. unfold remv in Hv. apply filter_In in Hv. apply Hv. Qed.

Lemma rest_lists : minus (minus V Y) [x] = filter (fun v => negb (memn v (x :: Y))) V.
Proof.
  rewrite minus_minus. apply filter_ext. intros v. f_equal. apply eq_true_iff_eq.
  rewrite !memn_In, in_app_iff. cbn [In]. tauto.
Qed.

Lemma trunc_marg_Pdo a : trunc_marg bn Y dov a = Pdo Y (upd a x xv).
Proof.
  unfold trunc_marg, trunc. cbn [upds evars map fst]. rewrite rest_lists.
  set (r := filter (fun v => negb (memn v (x :: Y))) V).
  rewrite (qsum_card' r _ _ (incl_filter_V _)).
  rewrite (sum_over_ext_fun R r (map card' r) _ (fun b => jprod R FF (remv x V) (upd b x xv))) by (intros b; apply trunc_joint_jprod).
  rewrite (sum_over_clamp x xv r (map card' r) (jprod R FF (remv x V)) (upd a x xv) ext_jprod_rem).
  - apply (sum_over_aeq R); [exact ext_jprod_rem|apply upd_upd].
  - intros H. apply filter_In in H. destruct H as [_ H]. apply negb_true_iff, memn_false in H. apply H. left. reflexivity.
Qed.

(* the truncated factorisation sums to one over the queried variables *)
Lemma Pdo_total a : valid card' a -> a x = xv -> @sum_over R Y (map card' Y) (Pdo Y) a = 1.
Proof.
  intros Ha Hax.
  assert (E : forall b, Pdo Y b = gmarg R card' g (jprod R FF (remv x V)) (Y ++ [x]) b).
  { intros b. unfold trunc. apply gmarg_set_ext. intros v. rewrite in_app_iff. cbn [In]. tauto. }
  rewrite (sum_over_ext_fun R Y (map card' Y) _ _ a E).
  rewrite (gmarg_sum_out R card' g (proj1 Hwf) (jprod R FF (remv x V)) Y [x] a ext_jprod_rem HYnd HYV).
  2:{ intros y Hy [Eq|[]]. apply (HYd y Hy). left. exact Eq. }
  etransitivity; [symmetry; exact (marg_do_is_trunc R card' g FF Hwf x xv Hx [] a Ha Hax)|].
  assert (Ea : aeq (upd a x xv) a) by (rewrite <- Hax; apply upd_id).
  assert (Hext : @ext R (marg R card' g (Fdo R FF x xv) [x])).
  { unfold marg. apply sum_over_is_ext. apply jprod_ext. intros v Hv. eapply depends_only_ext.
    apply (Fdo_dep R g FF FF_dep x xv v Hv). }
  etransitivity; [symmetry; exact (Hext _ _ Ea)|].
  etransitivity; [symmetry; exact (marg_do_sum_x R all_okQ' card' g FF Hwf FF_dep x xv Hx Hxv' [] a Ha (fun H => H))|].
  apply total_mass; [apply (Fdo_dep R g FF FF_dep x xv)|apply (Fdo_sum R all_okQ' card' g FF FF_sum x xv Hxv')|exact Ha].
Qed.

Lemma adj_norm_one a : valid card' a -> qsum (bcard bn) Y (adj_unnorm bn Y dov Z) a = 1.
Proof.
  intros Ha. rewrite (qsum_card' Y _ a HYV).
  rewrite (sum_over_ext_on R card' Y _ (fun c => Pdo Y (upd c x xv)) a Ha)
    by (intros c Hc _; apply adj_unnorm_trunc; exact Hc).
  assert (Hext : @ext R (Pdo Y)).
  { unfold trunc. apply sum_over_is_ext. exact ext_jprod_rem. }
  rewrite (sum_over_clamp x xv Y (map card' Y) (Pdo Y) a Hext (fun H => HYd x H (or_introl eq_refl))).
  apply Pdo_total; [apply valid_bx; exact Ha|apply upd_same].
Qed.

Theorem adj_value_trunc a : valid card' a -> adj_value bn Y dov Z a = trunc_marg bn Y dov a.
Proof.
  intros Ha. unfold adj_value. rewrite (adj_norm_one a Ha), (adj_unnorm_trunc a Ha), trunc_marg_Pdo. apply Qc_div_one.
Qed.

(* Z empty: plain conditioning on x *)
Lemma cond_nums a : Z = [] ->
  post_num bn Y dov a = P (Y ++ [x]) (upd a x xv) /\ post_den bn Y dov a = P [x] (upd a x xv).
Proof.
  intros HZe. pose proof (post_Y_num a) as H1. pose proof (post_Y_den a) as H2.
  rewrite HZe in H1, H2. cbn [zev map app] in H1, H2. split; assumption.
Qed.

Theorem cond_value_trunc a : valid card' a -> Z = [] -> post bn Y dov a = trunc_marg bn Y dov a.
Proof.
  intros Ha HZe. destruct (cond_nums a HZe) as [H1 H2]. unfold post. rewrite H1, H2, trunc_marg_Pdo.
  pose proof (formula (upd a x xv) (valid_bx a Ha) (upd_same a x xv)) as Hf. unfold TT' in Hf.
  rewrite HZe in Hf. cbn [sum_over map] in Hf.
  rewrite (total_mass FF (upd a x xv) FF_dep FF_sum (valid_bx a Ha)) in Hf. rewrite <- Hf. ring.
Qed.

Theorem query_value_trunc a : valid card' a -> query_value bn Y dov Z a = trunc_marg bn Y dov a.
Proof.
  intros Ha.
  assert (H : forall L, L = Z ->
            match L with [] => post bn Y dov a | _ :: _ => adj_value bn Y dov L a end = trunc_marg bn Y dov a).
  { intros L HL. destruct L as [|z L'].
    - apply cond_value_trunc; [exact Ha|symmetry; exact HL].
    - rewrite HL. apply adj_value_trunc. exact Ha. }
  exact (H Z eq_refl).
Qed.

(* ---- the definedness flag ---- *)
Lemma valid_zero : valid card' (fun _ => 0%nat).
Proof. intros v. apply card'_pos. Qed.

Lemma asg_of_valid L : forall idx, in_range (map card' L) idx -> valid card' (asg_of L idx).
Proof.
  induction L as [|y L IH]; intros idx Hr v.
  - destruct idx; simpl; apply card'_pos.
  - inversion Hr as [|c cs i is_ Hi Hr' E1 E2]; subst. cbn [asg_of]. unfold upd.
    destruct (Nat.eqb v y) eqn:E; [apply Nat.eqb_eq in E; subst; exact Hi|apply IH; exact Hr'].
Qed.

Lemma all_idx_valid L idx : incl L V -> In idx (all_idx (bcard bn) L) -> valid card' (asg_of L idx).
Proof.
  intros HL H. apply asg_of_valid. rewrite (map_card' L HL). apply all_idx_in_range. exact H.
Qed.

Lemma Qc_1_neq_0 : (1 : Qc) <> 0.
Proof. intros H. apply (f_equal (fun q0 => Qc_eq_bool q0 0)) in H. vm_compute in H. discriminate. Qed.
Lemma qnz_neq (q0 : Qc) : q0 <> 0 -> qnz q0 = true.
Proof.
  intros H. unfold qnz. destruct (Qc_eq_bool q0 0) eqn:E; [|reflexivity].
  apply Qc_eq_bool_correct in E. contradiction.
Qed.

Theorem query_defined_bd : query_defined bn Y dov Z = true.
Proof.
  assert (H : forall L, L = Z -> query_defined bn Y dov L = true).
  { intros L HL. unfold query_defined. destruct L as [|z L'].
    - apply qnz_neq. destruct (cond_nums (fun _ => 0%nat) (eq_sym HL)) as [_ H2]. rewrite H2.
      pose proof (pos_marg _ (valid_bx _ valid_zero) (upd_same (fun _ => 0%nat) x xv)) as Hp.
      rewrite <- HL in Hp. exact Hp.
    - rewrite HL. apply andb_true_iff. split; [apply andb_true_iff; split|].
      + apply qnz_neq. rewrite (post_Z_den _ valid_zero). exact Qc_1_neq_0.
      + apply forallb_forall. intros idx Hidx. apply qnz_neq. apply Hpos. apply valid_vOn.
        apply all_idx_valid; [exact HZV|exact Hidx].
      + apply qnz_neq. rewrite (adj_norm_one _ valid_zero). exact Qc_1_neq_0. }
  exact (H Z eq_refl).
Qed.
End Link.

Lemma dedup_NoDup l : NoDup l -> dedup l = l.
Proof.
  induction 1 as [|y l Hy Hn IH]; [reflexivity|]. simpl. apply memn_false in Hy. rewrite Hy, IH. reflexivity.
Qed.

(* ---- table level: what query returns for an explicitly given valid back-door set ---- *)
Theorem backdoor_adjustment_is_truncated bn cof x xv Y Z :
  wf_graph (bg bn) -> acyclic (bg bn) ->
  Permutation (bcpds bn) (map cof (nodes (bg bn))) ->
  (forall v, In v (nodes (bg bn)) ->
     cvar (cof v) = v /\ forall p, In p (cpars (cof v)) -> In p (parents (bg bn) v)) ->
  (forall v, In v (nodes (bg bn)) -> normalised (bcard bn) (nodes (bg bn)) (cof v)) ->
  (forall v, In v (nodes (bg bn)) -> (0 < bcard bn v)%nat) ->
  In x (nodes (bg bn)) -> (xv < bcard bn x)%nat ->
  NoDup Y -> incl Y (nodes (bg bn)) -> (forall y, In y Y -> ~ In y (x :: Z)) ->
  NoDup Z -> incl Z (nodes (bg bn)) -> ~ In x Z ->
  (forall y, In y Y -> is_valid_backdoor (bg bn) x y Z = true) ->
  (forall z, In z Z -> ~ dpath (bg bn) x z) ->
  (forall b, vOn (bcard bn) (nodes (bg bn)) b -> post_den bn Y (zev Z b ++ [(x, xv)]) b <> 0) ->
  query bn Y [(x, xv)] (Some Z) = inr (trunc_table bn Y [(x, xv)]).
Proof.
  intros Hwf Hac Hperm Hcof Hnorm Hcard Hx Hxv HYnd HYV HYd HZnd HZV HxZ Htest Hdesc Hpos.
  unfold query. cbv beta iota zeta. rewrite (dedup_NoDup Z HZnd).
  assert (E1 : subsetb Y (nodes (bg bn)) = true) by (apply subsetb_incl; exact HYV).
  rewrite E1. cbn [negb].
  match goal with |- context [disjointb Y ?t] => assert (E3 : disjointb Y t = true) end.
  { apply disjointb_spec. intros v Hv Hi.
    assert (Hi' : In v (Z ++ [x])).
    { destruct Z; [simpl in Hi; simpl; exact Hi|exact Hi]. }
    apply (HYd v Hv). apply in_app_or in Hi'. destruct Hi' as [Hz|[E|[]]]; [right; exact Hz|left; exact E]. }
  rewrite E3. cbn [negb].
  match goal with |- context [query_defined ?a ?b ?c ?d] =>
    assert (Hdef : query_defined a b c d = true)
      by exact (query_defined_bd bn cof x xv Y Z Hwf Hac Hperm Hcof Hnorm Hcard Hx Hxv HYnd HYV HYd HZnd HZV HxZ Htest Hdesc Hpos);
    rewrite Hdef end.
  cbn [negb]. f_equal. unfold trunc_table. apply map_ext_in. intros idx Hidx.
  apply (query_value_trunc bn cof); try assumption.
  apply all_idx_valid; assumption.
Qed.
