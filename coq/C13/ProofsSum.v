(* C13: generic finite-sum lemmas over Qc used by the unbounded adjustment theorem: validity relative to a
   node set, permutation of the summed variable list, clamping, and the tail-sum lemma for normalised local
   factors in topological order (every CPD product over a topological suffix sums to one). *)
From Coq Require Import List Bool Arith PeanoNat Lia QArith Qcanon Permutation.
From PV Require Import Base.Graph Base.Semiring Base.Ravel Base.FinSum Base.RefFactor Base.VE C13.Model.
Import ListNotations.
Local Close Scope Q_scope.
Local Open Scope Qc_scope.

Notation R := Qc_sum_csr.

Section Gen.
Variable card : var -> nat.
Notation qs := (qsum card).

(* in-range on a set of variables *)
Definition vOn (V : list var) (a : asg) : Prop := forall v, In v V -> (a v < card v)%nat.

Lemma vOn_upd V a v i : vOn V a -> (i < card v)%nat -> vOn V (upd a v i).
Proof.
  intros H Hi w Hw. unfold upd. destruct (Nat.eqb w v) eqn:E; [apply Nat.eqb_eq in E; subst; exact Hi|apply H; exact Hw].
Qed.
Lemma vOn_aeq V a b : aeq a b -> vOn V a -> vOn V b.
Proof. intros E H v Hv. rewrite <- (E v). apply H. exact Hv. Qed.

(* extensionality of a sum w.r.t. the assignments it actually visits: in range on V (if the base is) and equal
   to the base outside the summed variables *)
Lemma sum_ext_vOn V vs : forall (g h : asg -> R) a, vOn V a ->
  (forall b, vOn V b -> (forall v, ~ In v vs -> b v = a v) -> g b = h b) ->
  qs vs g a = qs vs h a.
Proof.
  unfold qsum. induction vs as [|w vs IH]; intros g h a Ha H.
  - simpl. apply H; [exact Ha|]. intros v _. reflexivity.
  - cbn [map sum_over]. apply (sum_list_ext R). intros i Hi. apply in_seq in Hi.
    apply IH; [apply vOn_upd; [exact Ha|lia]|]. intros b Hb Hout. apply H; [exact Hb|].
    intros v Hv. rewrite Hout by (intros Hi'; apply Hv; right; exact Hi').
    apply upd_other. intros E. apply Hv. left. symmetry. exact E.
Qed.

Lemma sum_over_perm (o1 o2 : list var) : Permutation o1 o2 -> forall (g : asg -> R) a, NoDup o1 -> ext g ->
  qs o1 g a = qs o2 g a.
Proof.
  unfold qsum. induction 1 as [|x l l' HP IH|x y l|l l' l'' HP1 IH1 HP2 IH2]; intros g a Hnd Hg.
  - reflexivity.
  - cbn [map sum_over]. apply (sum_list_ext R). intros i _. apply IH; [inversion Hnd; assumption|exact Hg].
  - cbn [map].
    change (sum_over [y] [card y] (sum_over [x] [card x] (sum_over l (map card l) g)) a =
            sum_over [x] [card x] (sum_over [y] [card y] (sum_over l (map card l) g)) a).
    apply sum_over_swap; [apply sum_over_is_ext; exact Hg| |reflexivity].
    intros v [<-|[]] [E|[]]. inversion Hnd as [|? ? Hy _]; subst. apply Hy. left. reflexivity.
  - rewrite IH1 by assumption. apply IH2; [|exact Hg]. eapply Permutation_NoDup; eassumption.
Qed.

Lemma qs_app vs1 vs2 (g : asg -> R) a : qs (vs1 ++ vs2) g a = qs vs1 (qs vs2 g) a.
Proof.
  unfold qsum. rewrite map_app. rewrite (sum_over_app R vs1 vs2 (map card vs1) (map card vs2) g a) by (symmetry; apply map_length).
  apply (sum_over_ext_fun R). intros b. reflexivity.
Qed.

(* clamping a variable that is not summed commutes with the sum *)
Lemma sum_over_clamp x i vs : forall cs (g : asg -> R) a, ext g -> ~ In x vs ->
  @sum_over R vs cs (fun b => g (upd b x i)) a = @sum_over R vs cs g (upd a x i).
Proof.
  induction vs as [|w vs IH]; intros cs g a Hg Hn; [reflexivity|].
  destruct cs as [|c cs]; [reflexivity|]. cbn [sum_over]. apply (sum_list_ext R). intros j _.
  rewrite IH; [|exact Hg|intros Hi; apply Hn; right; exact Hi].
  apply sum_over_aeq; [exact Hg|]. apply upd_comm. intros E. apply Hn. left. exact E.
Qed.

(* a variable ignored by the summand and not summed is ignored by the sum *)
Lemma sum_over_ignores_other x vs : forall cs (g : asg -> R), ext g -> @ignores R g x -> ~ In x vs ->
  @ignores R (@sum_over R vs cs g) x.
Proof.
  induction vs as [|w vs IH]; intros cs g Hg Hi Hn a i; [apply Hi|].
  destruct cs as [|c cs]; [apply Hi|]. cbn [sum_over]. apply (sum_list_ext R). intros j _.
  rewrite (sum_over_aeq R vs cs g (upd (upd a x i) w j) (upd (upd a w j) x i) Hg).
  - apply IH; [exact Hg|exact Hi|intros H; apply Hn; right; exact H].
  - apply upd_comm. intros E. apply Hn. left. symmetry. exact E.
Qed.

Lemma prod_list_perm (l1 l2 : list Qc) : Permutation l1 l2 -> @prod_list R l1 = @prod_list R l2.
Proof.
  induction 1 as [|x l l' HP IH|x y l|l l' l'' HP1 IH1 HP2 IH2]; simpl.
  - reflexivity.
  - simpl in IH. rewrite IH. reflexivity.
  - ring.
  - congruence.
Qed.
Lemma eval_prod_perm (L1 L2 : list (factor R)) a : Permutation L1 L2 -> eval_prod R card L1 a = eval_prod R card L2 a.
Proof. intros H. unfold eval_prod. apply prod_list_perm. apply Permutation_map. exact H. Qed.

Lemma eval_prod_app (L1 L2 : list (factor R)) a :
  eval_prod R card (L1 ++ L2) a = eval_prod R card L1 a * eval_prod R card L2 a.
Proof. unfold eval_prod. rewrite map_app. apply (prod_list_app R). Qed.

(* ---------------------------------------------------------------- topological lists of local factors *)
Definition scope (c : cpd) : list var := cvar c :: cpars c.
(* list given LAST cpd first: the child of each cpd does not occur in the scope of an earlier one *)
Fixpoint topo_rev (l : list cpd) : Prop :=
  match l with
  | [] => True
  | c :: r => (forall d, In d r -> ~ In (cvar c) (scope d)) /\ topo_rev r
  end.
Definition topological (cs : list cpd) : Prop := topo_rev (rev cs).
Definition normalised (V : list var) (c : cpd) : Prop :=
  forall a, vOn V a -> qs [cvar c] (qeval card (cfac c)) a = 1.

Lemma topo_rev_app l1 : forall l2, topo_rev (l1 ++ l2) ->
  topo_rev l1 /\ topo_rev l2 /\ forall c d, In c l1 -> In d l2 -> ~ In (cvar c) (scope d).
Proof.
  induction l1 as [|c l1 IH]; intros l2 H; simpl in *.
  - split; [exact I|]. split; [exact H|]. intros c d [].
  - destruct H as [Hc Ht]. destruct (IH l2 Ht) as [H1 [H2 H3]]. split; [|split; [exact H2|]].
    + split; [|exact H1]. intros d Hd. apply Hc. apply in_or_app. left. exact Hd.
    + intros c' d [<-|Hc'] Hd; [apply Hc; apply in_or_app; right; exact Hd|apply H3; assumption].
Qed.

Lemma cfacs_ignore (l : list cpd) v : (forall d, In d l -> ~ In v (scope d)) ->
  @ignores R (eval_prod R card (map cfac l)) v.
Proof.
  intros H. apply eval_prod_ignores. intros f Hf. apply in_map_iff in Hf. destruct Hf as [d [<- Hd]].
  exact (H d Hd).
Qed.

(* the product of a topological list of normalised local factors, summed over its children, is one *)
Lemma tail_sum_one V (l : list cpd) : topo_rev l -> (forall c, In c l -> normalised V c) ->
  forall a, vOn V a -> qs (map cvar (rev l)) (eval_prod R card (map cfac (rev l))) a = 1.
Proof.
  induction l as [|c r IH]; intros Ht Hn a Ha.
  - simpl. unfold eval_prod. reflexivity.
  - destruct Ht as [Hfresh Ht]. cbn [rev]. rewrite !map_app. cbn [map].
    rewrite qs_app.
    rewrite (sum_ext_vOn V _ _ (eval_prod R card (map cfac (rev r))) a Ha).
    + apply IH; [exact Ht|intros d Hd; apply Hn; right; exact Hd|exact Ha].
    + intros b Hb _.
      transitivity (qs [cvar c] (fun y => eval_prod R card (map cfac (rev r)) y * qeval card (cfac c) y) b).
      { unfold qsum. apply sum_over_ext_fun. intros y. rewrite eval_prod_app. unfold eval_prod. simpl. unfold qeval. ring. }
      unfold qsum. cbn [map].
      etransitivity.
      { apply (sum_over_mul_l R [cvar c] [card (cvar c)] (eval_prod R card (map cfac (rev r))) (qeval card (cfac c)) b).
        - intros v [<-|[]]. apply cfacs_ignore. intros d Hd. apply in_rev in Hd. exact (Hfresh d Hd).
        - intros y. exact I. }
      pose proof (Hn c (or_introl eq_refl) b Hb) as H1. unfold qsum in H1. cbn [map] in H1.
      rewrite H1. simpl. ring.
Qed.
End Gen.
