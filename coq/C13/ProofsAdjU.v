(* C13: UNBOUNDED theorem for a single intervention with the default (parent) adjustment set:
      sum_pa P(y | x, pa) P(pa)  =  sum_rest prod_{V <> X} P(v | pa_V) [X = x]
   on the as-coded model of CausalInference.query, for every network whose CPDs can be arranged in a
   topological order, are normalised, and with P(x | pa) > 0, P(pa) > 0 for every parent configuration. *)
From Coq Require Import List Bool Arith PeanoNat Lia QArith Qcanon Permutation.
From PV Require Import Base.Reach Base.Graph Base.Semiring Base.Ravel Base.FinSum Base.RefFactor Base.VE
  C08.Model C13.Model C13.Spec C13.ProofsDo C13.ProofsTrunc C13.ProofsSum.
Import ListNotations.
Local Close Scope Q_scope.
Local Open Scope Qc_scope.

(* ---- small list facts ---- *)
Lemma In_dedup x l : In x (dedup l) <-> In x l.
Proof.
  induction l as [|y l IH]; simpl; [tauto|]. destruct (memn y l) eqn:E.
  - rewrite IH. split; [tauto|]. intros [<-|H]; [apply memn_In; exact E|exact H].
  - simpl. rewrite IH. tauto.
Qed.
Lemma NoDup_dedup l : NoDup (dedup l).
Proof.
  induction l as [|y l IH]; simpl; [constructor|]. destruct (memn y l) eqn:E; [exact IH|].
  constructor; [|exact IH]. rewrite In_dedup. apply memn_false. exact E.
Qed.
Lemma NoDup_minus a b : NoDup a -> NoDup (minus a b).
Proof. apply NoDup_filter. Qed.
Lemma Permutation_filter {A} (p : A -> bool) l l' : Permutation l l' -> Permutation (filter p l) (filter p l').
Proof.
  induction 1 as [|x l l' HP IH|x y l|l l' l'' HP1 IH1 HP2 IH2]; simpl.
  - constructor.
  - destruct (p x); [constructor|]; exact IH.
  - destruct (p x), (p y); try apply Permutation_refl. apply perm_swap.
  - eapply Permutation_trans; eassumption.
Qed.
Lemma filter_all {A} (p : A -> bool) l : (forall c, In c l -> p c = true) -> filter p l = l.
Proof.
  induction l as [|c l IH]; intros H; simpl; [reflexivity|]. rewrite (H c (or_introl eq_refl)). f_equal.
  apply IH. intros d Hd. apply H. right. exact Hd.
Qed.
Lemma NoDup_app_inv {A} (l1 l2 : list A) : NoDup (l1 ++ l2) ->
  NoDup l1 /\ NoDup l2 /\ forall v, In v l1 -> ~ In v l2.
Proof.
  induction l1 as [|a l1 IH]; simpl; intros H.
  - split; [constructor|]. split; [exact H|]. intros v [].
  - inversion H as [|? ? Ha Hn]; subst. destruct (IH Hn) as [H1 [H2 H3]]. split; [|split; [exact H2|]].
    + constructor; [|exact H1]. intros Hi. apply Ha. apply in_or_app. left. exact Hi.
    + intros v [<-|Hv]; [intros Hi; apply Ha; apply in_or_app; right; exact Hi|apply H3; exact Hv].
Qed.

Lemma upds_app a l1 : forall l2 v, upds a (l1 ++ l2) v = upds (upds a l2) l1 v.
Proof.
  induction l1 as [|[w i] l1 IH]; intros l2 v; [reflexivity|]. cbn [app upds]. unfold upd.
  destruct (Nat.eqb v w); [reflexivity|apply IH].
Qed.
Lemma upds_zev Z b c : (forall v, In v Z -> c v = b v) -> aeq (upds c (zev Z b)) c.
Proof.
  induction Z as [|z Z IH]; intros H v; [reflexivity|]. cbn [zev map upds]. unfold upd.
  destruct (Nat.eqb v z) eqn:E.
  - apply Nat.eqb_eq in E. subst. symmetry. apply H. left. reflexivity.
  - apply IH. intros w Hw. apply H. right. exact Hw.
Qed.
Lemma evars_zev Z b : evars (zev Z b) = Z.
Proof. unfold evars, zev. rewrite map_map. simpl. apply map_id. Qed.

Lemma asg_of_vOn card V Y : (forall v, In v V -> (0 < card v)%nat) ->
  forall idx, in_range (map card Y) idx -> vOn card V (asg_of Y idx).
Proof.
  intros Hpos. induction Y as [|y Y IH]; intros idx Hr v Hv.
  - destruct idx; simpl; apply Hpos; exact Hv.
  - inversion Hr as [|c cs i is_ Hi Hr' E1 E2]; subst. cbn [asg_of]. unfold upd.
    destruct (Nat.eqb v y) eqn:E; [apply Nat.eqb_eq in E; subst; exact Hi|apply IH; assumption].
Qed.

Lemma all_idx_in_range card Y idx : In idx (all_idx card Y) -> in_range (map card Y) idx.
Proof.
  unfold all_idx. intros H. apply in_map_iff in H. destruct H as [k [<- Hk]]. apply in_seq in Hk.
  apply unravel_in_range. lia.
Qed.


Section Adj.
Variable bn : bnet.
Variables (x : var) (xv : nat) (A B : list cpd) (cx : cpd) (Y : list var).
Notation V := (nodes (bg bn)).
Notation card := (bcard bn).
Notation dov := [(x, xv)].
Notation Z := (default_adjustment (bg bn) dov).

Hypothesis HVnd : NoDup V.
Hypothesis Hperm : Permutation (bcpds bn) (A ++ cx :: B).
Hypothesis Hchildren : Permutation V (map cvar (A ++ cx :: B)).
Hypothesis Hcx : cvar cx = x.
Hypothesis Htopo : topological (A ++ cx :: B).
Hypothesis Hnorm : forall c, In c (A ++ cx :: B) -> normalised card V c.
Hypothesis Hscope : forall c, In c (A ++ cx :: B) -> incl (cpars c) V /\ ~ In (cvar c) (cpars c).
Hypothesis Hpars : forall p, In p (parents (bg bn) x) <-> In p (cpars cx).
Hypothesis HYnd : NoDup Y.
Hypothesis HYV : incl Y V.
Hypothesis HYx : ~ In x Y.
Hypothesis HYZ : forall y, In y Y -> ~ In y (parents (bg bn) x).
Hypothesis Hxv : (xv < card x)%nat.

Definition PA (a : asg) : Qc := eval_prod R card (map cfac A) a.
Definition PB (a : asg) : Qc := eval_prod R card (map cfac B) a.
Definition cX (a : asg) : Qc := qeval card (cfac cx) a.
Definition TT (a : asg) : Qc := PA a * PB a.
Notation chA := (map cvar A).
Notation chB := (map cvar B).

Lemma InZ p : In p Z <-> In p (cpars cx).
Proof. unfold default_adjustment. rewrite In_dedup. simpl. rewrite app_nil_r. apply Hpars. Qed.
Lemma ZNoDup : NoDup Z.
Proof. apply NoDup_dedup. Qed.

Lemma joint_split a : joint bn a = cX a * TT a.
Proof.
  unfold joint. rewrite (eval_prod_perm card _ (map cfac (A ++ cx :: B)) a) by (apply Permutation_map; exact Hperm).
  rewrite map_app. cbn [map]. rewrite eval_prod_app. unfold TT, PA, PB, cX, qeval.
  rewrite eval_prod_cons. simpl. ring.
Qed.

Lemma ext_PA : @ext R PA. Proof. apply eval_prod_ext. Qed.
Lemma ext_PB : @ext R PB. Proof. apply eval_prod_ext. Qed.
Lemma ext_cX : @ext R cX. Proof. apply feval_ext. Qed.
Lemma ext_TT : @ext R TT. Proof. intros a b H. unfold TT. rewrite (ext_PA a b H), (ext_PB a b H). reflexivity. Qed.
Lemma ext_joint : @ext R (joint bn). Proof. apply eval_prod_ext. Qed.

(* ---- what the topological order gives ---- *)
Lemma topo_facts :
  topo_rev (rev A) /\ topo_rev (rev B) /\
  (forall d, In d A -> ~ In x (scope d)) /\
  (forall c d, In c B -> In d A -> ~ In (cvar c) (scope d)) /\
  (forall c, In c B -> ~ In (cvar c) (scope cx)).
Proof.
  unfold topological in Htopo. rewrite rev_app_distr in Htopo. cbn [rev] in Htopo.
  destruct (topo_rev_app _ _ Htopo) as [H1 [H2 H3]].
  destruct (topo_rev_app _ _ H1) as [H4 [_ H6]].
  split; [exact H2|]. split; [exact H4|]. split; [|split].
  - intros d Hd. rewrite <- Hcx. apply H3; [apply in_or_app; right; left; reflexivity|exact (proj1 (in_rev A d) Hd)].
  - intros c d Hc Hd. apply H3; [apply in_or_app; left; exact (proj1 (in_rev B c) Hc)|exact (proj1 (in_rev A d) Hd)].
  - intros c Hc. apply H6; [exact (proj1 (in_rev B c) Hc)|left; reflexivity].
Qed.

Lemma children_nodup : NoDup (chA ++ x :: chB).
Proof.
  pose proof (Permutation_NoDup Hchildren HVnd) as H. rewrite map_app in H. cbn [map] in H. rewrite Hcx in H. exact H.
Qed.
Lemma InV v : In v V <-> In v chA \/ v = x \/ In v chB.
Proof.
  split.
  - intros H. apply (Permutation_in _ Hchildren) in H. rewrite map_app in H. cbn [map] in H. rewrite Hcx in H.
    apply in_app_or in H. destruct H as [H|[H|H]]; auto.
  - intros H. apply (Permutation_in _ (Permutation_sym Hchildren)). rewrite map_app. cbn [map]. rewrite Hcx.
    apply in_or_app. destruct H as [H|[H|H]]; [left; exact H|right; left; symmetry; exact H|right; right; exact H].
Qed.
Lemma ch_disj :
  NoDup chA /\ NoDup chB /\ ~ In x chA /\ ~ In x chB /\ (forall v, In v chA -> ~ In v chB).
Proof.
  destruct (NoDup_app_inv _ _ children_nodup) as [H1 [H2 H3]]. apply NoDup_cons_iff in H2. destruct H2 as [Hx HB].
  split; [exact H1|]. split; [exact HB|]. split; [|split; [exact Hx|]].
  - intros Hi. apply (H3 x Hi). left. reflexivity.
  - intros v Hv Hi. apply (H3 v Hv). right. exact Hi.
Qed.
Lemma Z_in_chA p : In p Z -> In p chA.
Proof.
  intros Hp. apply InZ in Hp. destruct topo_facts as [_ [_ [_ [_ HBX]]]].
  assert (HcxIn : In cx (A ++ cx :: B)) by (apply in_or_app; right; left; reflexivity).
  destruct (Hscope cx HcxIn) as [Hinc Hself].
  pose proof (Hinc p Hp) as HV. apply InV in HV. destruct HV as [H|[H|H]]; [exact H| |].
  - subst p. exfalso. apply Hself. rewrite Hcx. exact Hp.
  - exfalso. apply in_map_iff in H. destruct H as [c [<- Hc]]. apply (HBX c Hc). right. exact Hp.
Qed.
Lemma x_notin_Z : ~ In x Z.
Proof. intros H. apply Z_in_chA in H. destruct ch_disj as [_ [_ [Hx _]]]. contradiction. Qed.

(* ---- what the factors ignore ---- *)
Lemma PA_ignores_x : @ignores R PA x.
Proof. destruct topo_facts as [_ [_ [H _]]]. apply cfacs_ignore. exact H. Qed.
Lemma PA_ignores_B v : In v chB -> @ignores R PA v.
Proof.
  intros Hv. destruct topo_facts as [_ [_ [_ [H _]]]]. apply in_map_iff in Hv. destruct Hv as [c [<- Hc]].
  apply cfacs_ignore. intros d Hd. apply H; assumption.
Qed.
Lemma cX_ignores v : v <> x -> ~ In v Z -> @ignores R cX v.
Proof.
  intros Hx HZ. apply (depends_only_ignores R _ (fvars (cfac cx))); [apply feval_depends_only|].
  simpl. intros [E|Hi]; [apply Hx; rewrite <- Hcx; symmetry; exact E|apply HZ; apply InZ; exact Hi].
Qed.

(* ---- tail sums ---- *)
Lemma InAll_A c : In c A -> In c (A ++ cx :: B). Proof. intros H. apply in_or_app. left. exact H. Qed.
Lemma InAll_B c : In c B -> In c (A ++ cx :: B). Proof. intros H. apply in_or_app. right. right. exact H. Qed.
Lemma InAll_x : In cx (A ++ cx :: B). Proof. apply in_or_app. right. left. reflexivity. Qed.

Lemma sum_B b : vOn card V b -> qsum card chB PB b = 1.
Proof.
  intros Hb. destruct topo_facts as [_ [HB _]].
  pose proof (tail_sum_one card V (rev B) HB) as H. rewrite rev_involutive in H. apply H; [|exact Hb].
  intros c Hc. apply Hnorm. apply InAll_B. exact (proj2 (in_rev B c) Hc).
Qed.
Lemma sum_A b : vOn card V b -> qsum card chA PA b = 1.
Proof.
  intros Hb. destruct topo_facts as [HA _].
  pose proof (tail_sum_one card V (rev A) HA) as H. rewrite rev_involutive in H. apply H; [|exact Hb].
  intros c Hc. apply Hnorm. apply InAll_A. exact (proj2 (in_rev A c) Hc).
Qed.
Lemma sum_X b : vOn card V b -> qsum card [x] cX b = 1.
Proof.
  intros Hb. pose proof (Hnorm cx InAll_x b Hb) as H.
  rewrite Hcx in H. exact H.
Qed.

(* a block of A-children followed by all B-children: the B part sums out *)
Lemma sum_block W b : vOn card V b -> qsum card (W ++ chB) TT b = qsum card W PA b.
Proof.
  intros Hb. rewrite qs_app. apply (sum_ext_vOn card V); [exact Hb|]. intros b' Hb' _.
  unfold qsum, TT.
  etransitivity.
  { apply (sum_over_mul_l R chB (map card chB) PA PB b').
    - intros v Hv. apply PA_ignores_B. exact Hv.
    - intros y. exact I. }
  fold (qsum card chB PB b'). rewrite (sum_B b' Hb'). simpl. ring.
Qed.

Definition GA (b : asg) : Qc := qsum card (minus chA Z) PA b.
Lemma GA_ignores_x : @ignores R GA x.
Proof.
  unfold GA, qsum. apply sum_over_ignores_other; [exact ext_PA|exact PA_ignores_x|].
  intros H. apply In_minus in H. destruct ch_disj as [_ [_ [Hx _]]]. apply Hx. apply H.
Qed.

(* ---- the variable lists of the model, brought into block form ---- *)
Notation rest1 := (minus (minus V Y) (Z ++ [x])).
Notation rest2 := (minus (minus V Z) []).
Notation restT := (minus (minus V Y) [x]).
Notation W := (minus chA Z).

Lemma InZp p : In p Z <-> In p (parents (bg bn) x).
Proof. rewrite InZ. symmetry. apply Hpars. Qed.
Lemma Y_notin_Z y : In y Y -> ~ In y Z.
Proof. intros Hy H. apply InZp in H. exact (HYZ y Hy H). Qed.
Lemma Z_in_V p : In p Z -> In p V.
Proof. intros H. apply InV. left. apply Z_in_chA. exact H. Qed.

Definition QQ (v : var) : Prop := In v V /\ v <> x /\ ~ In v Z.

Lemma In_blocks v : In v (W ++ chB) <-> QQ v.
Proof.
  destruct ch_disj as [_ [_ [HxA [HxB HAB]]]]. unfold QQ. rewrite in_app_iff, In_minus. split.
  - intros [[H1 H2]|H].
    + split; [apply InV; left; exact H1|]. split; [intros E; subst; contradiction|exact H2].
    + split; [apply InV; right; right; exact H|]. split; [intros E; subst; contradiction|].
      intros Hz. apply Z_in_chA in Hz. exact (HAB v Hz H).
  - intros [H1 [H2 H3]]. apply InV in H1. destruct H1 as [H1|[H1|H1]]; [left; split; assumption|contradiction|right; exact H1].
Qed.
Lemma NoDup_blocks : NoDup (W ++ chB).
Proof.
  destruct ch_disj as [HA [HB [_ [_ HAB]]]]. apply NoDup_app_disj; [apply NoDup_minus; exact HA|exact HB|].
  intros v Hv. apply In_minus in Hv. apply HAB. apply Hv.
Qed.

Lemma In_Y_rest1 v : In v (Y ++ rest1) <-> QQ v.
Proof.
  unfold QQ. rewrite in_app_iff, !In_minus, in_app_iff. split.
  - intros [H|[[H1 H2] H3]].
    + split; [apply HYV; exact H|]. split; [intros E; subst; contradiction|apply Y_notin_Z; exact H].
    + split; [exact H1|]. split; [intros E; apply H3; right; left; symmetry; exact E|intros Hz; apply H3; left; exact Hz].
  - intros [H1 [H2 H3]]. destruct (in_dec Nat.eq_dec v Y) as [Hy|Hy]; [left; exact Hy|right].
    split; [split; assumption|]. intros [Hz|[E|[]]]; [contradiction|apply H2; symmetry; exact E].
Qed.
Lemma NoDup_Y_rest1 : NoDup (Y ++ rest1).
Proof.
  apply NoDup_app_disj; [exact HYnd|apply NoDup_minus, NoDup_minus; exact HVnd|].
  intros v Hv Hi. apply In_minus in Hi. destruct Hi as [Hi _]. apply In_minus in Hi. apply Hi. exact Hv.
Qed.
Lemma perm1 : Permutation (Y ++ rest1) (W ++ chB).
Proof.
  apply NoDup_Permutation; [exact NoDup_Y_rest1|exact NoDup_blocks|]. intros v. rewrite In_Y_rest1, In_blocks. tauto.
Qed.

Lemma perm2 : Permutation rest2 (x :: W ++ chB).
Proof.
  destruct ch_disj as [_ [_ [HxA [HxB _]]]].
  apply NoDup_Permutation.
  - apply NoDup_minus, NoDup_minus; exact HVnd.
  - constructor; [|exact NoDup_blocks]. rewrite In_blocks. unfold QQ. tauto.
  - intros v. cbn [In]. rewrite In_blocks, !In_minus. unfold QQ. split.
    + intros [[H1 H2] _]. destruct (Nat.eq_dec x v) as [E|E]; [left; exact E|right].
      split; [exact H1|]. split; [intros E'; apply E; symmetry; exact E'|exact H2].
    + intros [E|[H1 [H2 H3]]].
      * subst v. split; [split; [apply InV; right; left; reflexivity|exact x_notin_Z]|intros []].
      * split; [split; assumption|intros []].
Qed.

Lemma perm3 : Permutation (Z ++ rest2) (chA ++ x :: chB).
Proof.
  apply NoDup_Permutation.
  - apply NoDup_app_disj; [exact ZNoDup|apply NoDup_minus, NoDup_minus; exact HVnd|].
    intros v Hv Hi. apply In_minus in Hi. destruct Hi as [Hi _]. apply In_minus in Hi. apply Hi. exact Hv.
  - exact children_nodup.
  - intros v. rewrite !in_app_iff, !In_minus. cbn [In]. rewrite (InV v). split.
    + intros [H|[[H _] _]]; [left; apply Z_in_chA; exact H|].
      destruct H as [H|[H|H]]; [left; exact H|right; left; symmetry; exact H|right; right; exact H].
    + intros H. destruct (in_dec Nat.eq_dec v Z) as [Hz|Hz]; [left; exact Hz|right].
      split; [split; [|exact Hz]|intros []].
      destruct H as [H|[H|H]]; [left; exact H|right; left; symmetry; exact H|right; right; exact H].
Qed.

Lemma perm4 : Permutation (Z ++ rest1) restT.
Proof.
  apply NoDup_Permutation.
  - apply NoDup_app_disj; [exact ZNoDup|apply NoDup_minus, NoDup_minus; exact HVnd|].
    intros v Hv Hi. apply In_minus in Hi. destruct Hi as [_ Hi]. apply Hi. apply in_or_app. left. exact Hv.
  - apply NoDup_minus, NoDup_minus; exact HVnd.
  - intros v. rewrite in_app_iff, !In_minus, in_app_iff. cbn [In]. split.
    + intros [H|[[H1 H2] H3]].
      * split; [split; [apply Z_in_V; exact H|intros Hy; exact (Y_notin_Z v Hy H)]|].
        intros [E|[]]. subst v. exact (x_notin_Z H).
      * split; [split; assumption|]. intros [E|[]]. apply H3. right. left. exact E.
    + intros [[H1 H2] H3]. destruct (in_dec Nat.eq_dec v Z) as [Hz|Hz]; [left; exact Hz|right].
      split; [split; assumption|]. intros [Hz'|[E|[]]]; [contradiction|apply H3; left; exact E].
Qed.

Lemma perm5 : Permutation (Y ++ restT) (chA ++ chB).
Proof.
  destruct ch_disj as [HA [HB [HxA [HxB HAB]]]].
  apply NoDup_Permutation.
  - apply NoDup_app_disj; [exact HYnd|apply NoDup_minus, NoDup_minus; exact HVnd|].
    intros v Hv Hi. apply In_minus in Hi. destruct Hi as [Hi _]. apply In_minus in Hi. apply Hi. exact Hv.
  - apply NoDup_app_disj; assumption.
  - intros v. rewrite !in_app_iff, !In_minus. cbn [In]. split.
    + intros [H|[[H1 H2] H3]].
      * pose proof (HYV v H) as HV. apply InV in HV. destruct HV as [HV|[HV|HV]]; [left; exact HV|subst; contradiction|right; exact HV].
      * apply InV in H1. destruct H1 as [H1|[H1|H1]]; [left; exact H1|exfalso; apply H3; left; symmetry; exact H1|right; exact H1].
    + intros H. assert (HV : In v V) by (apply InV; tauto).
      assert (Hx : v <> x) by (intros E; subst; tauto).
      destruct (in_dec Nat.eq_dec v Y) as [Hy|Hy]; [left; exact Hy|right].
      split; [split; assumption|]. intros [E|[]]. apply Hx. symmetry. exact E.
Qed.

(* ---- the sums of the adjustment formula ---- *)
Lemma pull_cX vs a : (forall v, In v vs -> v <> x /\ ~ In v Z) ->
  qsum card vs (joint bn) a = cX a * qsum card vs TT a.
Proof.
  intros H. unfold qsum.
  rewrite (sum_over_ext_fun R vs (map card vs) (joint bn) (fun y => cX y * TT y)) by (intros y; apply joint_split).
  apply (sum_over_mul_l R vs (map card vs) cX TT a).
  - intros v Hv. destruct (H v Hv) as [H1 H2]. apply cX_ignores; assumption.
  - intros y. exact I.
Qed.

Lemma vOn_bx b : vOn card V b -> vOn card V (upd b x xv).
Proof. intros H. apply vOn_upd; [exact H|exact Hxv]. Qed.

Lemma sum_QQ_TT b : vOn card V b -> qsum card (Y ++ rest1) TT b = GA b.
Proof.
  intros Hb. rewrite (sum_over_perm card _ _ perm1 TT b NoDup_Y_rest1 ext_TT).
  apply sum_block. exact Hb.
Qed.

Lemma den1 b : vOn card V b ->
  qsum card (Y ++ rest1) (joint bn) (upd b x xv) = cX (upd b x xv) * GA b.
Proof.
  intros Hb. rewrite pull_cX.
  - rewrite (sum_QQ_TT _ (vOn_bx b Hb)). rewrite (GA_ignores_x b xv). reflexivity.
  - intros v Hv. apply In_Y_rest1 in Hv. destruct Hv as [_ Hv]. exact Hv.
Qed.
Lemma num1 b : qsum card rest1 (joint bn) (upd b x xv) = cX (upd b x xv) * qsum card rest1 TT (upd b x xv).
Proof.
  apply pull_cX. intros v Hv. assert (H : In v (Y ++ rest1)) by (apply in_or_app; right; exact Hv).
  apply In_Y_rest1 in H. destruct H as [_ H]. exact H.
Qed.

Lemma num2 b : vOn card V b -> qsum card rest2 (joint bn) b = GA b.
Proof.
  intros Hb.
  rewrite (sum_over_perm card _ _ perm2 (joint bn) b) by
    (try apply ext_joint; apply NoDup_minus, NoDup_minus; exact HVnd).
  change (qsum card ([x] ++ (W ++ chB)) (joint bn) b = GA b). rewrite qs_app.
  transitivity (qsum card [x] (fun y => cX y * GA y) b).
  - apply (sum_ext_vOn card V); [exact Hb|]. intros b' Hb' _.
    rewrite pull_cX by (intros v Hv; apply In_blocks in Hv; destruct Hv as [_ Hv]; exact Hv).
    f_equal. exact (sum_block W b' Hb').
  - unfold qsum. cbn [map].
    etransitivity.
    { apply (sum_over_mul_r R [x] [card x] GA cX b).
      - intros v [<-|[]]. exact GA_ignores_x.
      - intros y. exact I. }
    pose proof (sum_X b Hb) as H. unfold qsum in H. cbn [map] in H. rewrite H. simpl. ring.
Qed.

Lemma den2 b : vOn card V b -> qsum card (Z ++ rest2) (joint bn) b = 1.
Proof.
  intros Hb.
  rewrite (sum_over_perm card _ _ perm3 (joint bn) b); [| |exact ext_joint].
  2:{ apply NoDup_app_disj; [exact ZNoDup|apply NoDup_minus, NoDup_minus; exact HVnd|].
      intros v Hv Hi. apply In_minus in Hi. destruct Hi as [Hi _]. apply In_minus in Hi. apply Hi. exact Hv. }
  pose proof (tail_sum_one card V (rev (A ++ cx :: B)) Htopo) as H. rewrite rev_involutive in H.
  rewrite map_app in H. cbn [map] in H. rewrite Hcx in H.
  rewrite <- (H (fun c Hc => Hnorm c (proj2 (in_rev _ c) Hc)) b Hb).
  unfold qsum. apply (sum_over_ext_fun R). intros y. unfold joint.
  rewrite (eval_prod_perm card _ (map cfac (A ++ cx :: B)) y) by (apply Permutation_map; exact Hperm).
  rewrite map_app. reflexivity.
Qed.

(* ---- positivity: P(x | pa) > 0 and P(pa) > 0 for every parent configuration ---- *)
Hypothesis Hpos_x : forall b, vOn card V b -> cX (upd b x xv) <> 0.
Hypothesis Hpos_pa : forall b, vOn card V b -> post_num bn Z [] b <> 0.

Lemma ev_aeq b : aeq (upds b (zev Z b ++ dov)) (upd b x xv).
Proof.
  intros v. rewrite upds_app. cbn [upds]. apply upds_zev. intros w Hw. apply upd_other.
  intros E. subst w. exact (x_notin_Z Hw).
Qed.
Lemma evars_ev b : evars (zev Z b ++ dov) = Z ++ [x].
Proof. unfold evars. rewrite map_app. change (map fst (zev Z b)) with (evars (zev Z b)). rewrite evars_zev. reflexivity. Qed.

Lemma post_num_Y b : post_num bn Y (zev Z b ++ dov) b = qsum card rest1 (joint bn) (upd b x xv).
Proof. unfold post_num. rewrite evars_ev. unfold qsum. apply (sum_over_aeq R); [exact ext_joint|apply ev_aeq]. Qed.
Lemma post_den_Y b : post_den bn Y (zev Z b ++ dov) b = qsum card (Y ++ rest1) (joint bn) (upd b x xv).
Proof. unfold post_den. rewrite evars_ev. unfold qsum. apply (sum_over_aeq R); [exact ext_joint|apply ev_aeq]. Qed.

Lemma Qc_adj_algebra (c n g : Qc) : c <> 0 -> g <> 0 -> (c * n) / (c * g) * (g / 1) = n.
Proof.
  intros Hc Hg. rewrite (Qc_cancel_l c n g Hc). unfold Qcdiv.
  assert (H1 : / 1 = 1) by (apply Qc_is_canon; reflexivity). rewrite H1.
  transitivity (n * (g * / g)); [ring|]. rewrite Qcmult_inv_r by exact Hg. ring.
Qed.

Lemma adj_term_eq b : vOn card V b -> adj_term bn Y dov Z b = qsum card rest1 TT (upd b x xv).
Proof.
  intros Hb. unfold adj_term, post. rewrite post_num_Y, post_den_Y.
  pose proof (Hpos_pa b Hb) as Hg.
  change (post_num bn Z [] b) with (qsum card rest2 (joint bn) b) in *.
  change (post_den bn Z [] b) with (qsum card (Z ++ rest2) (joint bn) b).
  rewrite num1, (den1 b Hb), (den2 b Hb). rewrite (num2 b Hb) in *.
  apply Qc_adj_algebra; [apply Hpos_x; exact Hb|exact Hg].
Qed.

Lemma ext_sum vs (g : asg -> Qc) : @ext R g -> @ext R (qsum card vs g).
Proof. intros Hg. unfold qsum. apply sum_over_is_ext. exact Hg. Qed.

Lemma adj_unnorm_eq a : vOn card V a -> adj_unnorm bn Y dov Z a = qsum card restT TT (upd a x xv).
Proof.
  intros Ha. unfold adj_unnorm.
  rewrite (sum_ext_vOn card V Z _ (fun b => qsum card rest1 TT (upd b x xv)) a Ha)
    by (intros b Hb _; apply adj_term_eq; exact Hb).
  unfold qsum at 1.
  rewrite (sum_over_clamp x xv Z (map card Z) (qsum card rest1 TT) a (ext_sum _ _ ext_TT) x_notin_Z).
  fold (qsum card Z (qsum card rest1 TT) (upd a x xv)). rewrite <- qs_app.
  apply (sum_over_perm card _ _ perm4 TT); [|exact ext_TT].
  apply NoDup_app_disj; [exact ZNoDup|apply NoDup_minus, NoDup_minus; exact HVnd|].
  intros v Hv Hi. apply In_minus in Hi. destruct Hi as [_ Hi]. apply Hi. apply in_or_app. left. exact Hv.
Qed.

Lemma trunc_total a : vOn card V a -> qsum card (Y ++ restT) TT (upd a x xv) = 1.
Proof.
  intros Ha. rewrite (sum_over_perm card _ _ perm5 TT); [| |exact ext_TT].
  - rewrite (sum_block chA _ (vOn_bx a Ha)). apply sum_A. apply vOn_bx. exact Ha.
  - apply NoDup_app_disj; [exact HYnd|apply NoDup_minus, NoDup_minus; exact HVnd|].
    intros v Hv Hi. apply In_minus in Hi. destruct Hi as [Hi _]. apply In_minus in Hi. apply Hi. exact Hv.
Qed.

Lemma adj_norm_eq a : vOn card V a -> qsum card Y (adj_unnorm bn Y dov Z) a = 1.
Proof.
  intros Ha.
  rewrite (sum_ext_vOn card V Y _ (fun a' => qsum card restT TT (upd a' x xv)) a Ha)
    by (intros a' Ha' _; apply adj_unnorm_eq; exact Ha').
  unfold qsum at 1.
  rewrite (sum_over_clamp x xv Y (map card Y) (qsum card restT TT) a (ext_sum _ _ ext_TT) HYx).
  fold (qsum card Y (qsum card restT TT) (upd a x xv)). rewrite <- qs_app.
  apply trunc_total. exact Ha.
Qed.

(* the truncated factorisation of the specification, in block form *)
Lemma trunc_joint_TT b : trunc_joint bn dov b = TT (upd b x xv).
Proof.
  unfold trunc_joint. cbn [upds evars map fst].
  set (p := fun c : cpd => negb (memn (cvar c) [x])).
  assert (HP : Permutation (filter p (bcpds bn)) (A ++ B)).
  { eapply Permutation_trans; [apply Permutation_filter; exact Hperm|].
    destruct ch_disj as [_ [_ [HxA [HxB _]]]].
    rewrite filter_app. cbn [filter]. unfold p at 2. rewrite Hcx. simpl. rewrite Nat.eqb_refl. simpl.
    rewrite !filter_all; [apply Permutation_refl| |].
    - intros c Hc. unfold p. simpl. destruct (Nat.eqb (cvar c) x) eqn:E; [|reflexivity].
      apply Nat.eqb_eq in E. exfalso. apply HxB. rewrite <- E. apply in_map. exact Hc.
    - intros c Hc. unfold p. simpl. destruct (Nat.eqb (cvar c) x) eqn:E; [|reflexivity].
      apply Nat.eqb_eq in E. exfalso. apply HxA. rewrite <- E. apply in_map. exact Hc. }
  rewrite (eval_prod_perm card _ (map cfac (A ++ B)) _ (Permutation_map cfac HP)).
  rewrite map_app, eval_prod_app. reflexivity.
Qed.

Lemma trunc_marg_eq a : trunc_marg bn Y dov a = qsum card restT TT (upd a x xv).
Proof.
  unfold trunc_marg. cbn [upds evars map fst].
  unfold qsum.
  rewrite (sum_over_ext_fun R restT (map card restT) _ (fun b => TT (upd b x xv))) by (intros b; apply trunc_joint_TT).
  rewrite (sum_over_clamp x xv restT (map card restT) TT (upd a x xv) ext_TT).
  - apply (sum_over_aeq R); [exact ext_TT|apply upd_upd].
  - intros H. apply In_minus in H. destruct H as [_ H]. apply H. left. reflexivity.
Qed.

Lemma Qc_div_1 (q : Qc) : q / 1 = q.
Proof. unfold Qcdiv. assert (H1 : / 1 = 1) by (apply Qc_is_canon; reflexivity). rewrite H1. ring. Qed.

(* Z non-empty: the adjustment loop *)
Theorem adj_value_is_truncated a : vOn card V a -> adj_value bn Y dov Z a = trunc_marg bn Y dov a.
Proof.
  intros Ha. unfold adj_value. rewrite (adj_norm_eq a Ha), (adj_unnorm_eq a Ha), trunc_marg_eq. apply Qc_div_1.
Qed.

(* Z empty (x has no parents): plain conditioning *)
Theorem cond_value_is_truncated a : vOn card V a -> Z = [] -> post bn Y dov a = trunc_marg bn Y dov a.
Proof.
  intros Ha HZe. rewrite trunc_marg_eq. unfold post, post_num, post_den. cbn [upds evars map fst].
  assert (Hig : forall v, In v (Y ++ restT) -> v <> x /\ ~ In v Z).
  { intros v Hv. rewrite HZe. split; [|intros []]. intros E. subst v. apply in_app_or in Hv. destruct Hv as [Hv|Hv]; [contradiction|].
    apply In_minus in Hv. destruct Hv as [_ Hv]. apply Hv. left. reflexivity. }
  rewrite (pull_cX restT) by (intros v Hv; apply Hig; apply in_or_app; right; exact Hv).
  rewrite (pull_cX (Y ++ restT)) by exact Hig.
  rewrite (trunc_total a Ha).
  pose proof (Hpos_x a Ha) as Hc. field. exact Hc.
Qed.

Theorem query_value_is_truncated a : vOn card V a ->
  query_value bn Y dov Z a = trunc_marg bn Y dov a.
Proof.
  intros Ha.
  assert (H : forall L, L = Z ->
            match L with [] => post bn Y dov a | _ :: _ => adj_value bn Y dov L a end = trunc_marg bn Y dov a).
  { intros L HL. destruct L as [|z L'].
    - apply cond_value_is_truncated; [exact Ha|symmetry; exact HL].
    - rewrite HL. apply adj_value_is_truncated. exact Ha. }
  exact (H Z eq_refl).
Qed.

(* ---- the engine's definedness flag follows from positivity ---- *)
Hypothesis Hcardpos : forall v, In v V -> (0 < card v)%nat.

Lemma qnz_of_neq (q0 : Qc) : q0 <> 0 -> qnz q0 = true.
Proof.
  intros H. unfold qnz. destruct (Qc_eq_bool q0 0) eqn:E; [|reflexivity].
  apply Qc_eq_bool_correct in E. contradiction.
Qed.
Lemma Qc_one_neq_0 : (1 : Qc) <> 0.
Proof. intros H. apply (f_equal (fun q0 => Qc_eq_bool q0 0)) in H. vm_compute in H. discriminate. Qed.

Lemma vOn_zero : vOn card V (fun _ => 0%nat).
Proof. intros v Hv. apply Hcardpos. exact Hv. Qed.

Lemma den_Y_nz b : vOn card V b -> post_den bn Y (zev Z b ++ dov) b <> 0.
Proof.
  intros Hb. rewrite post_den_Y, (den1 b Hb). intros H. apply Qcmult_integral in H. destruct H as [H|H].
  - exact (Hpos_x b Hb H).
  - apply (Hpos_pa b Hb). change (post_num bn Z [] b) with (qsum card rest2 (joint bn) b). rewrite (num2 b Hb). exact H.
Qed.

Lemma den_cond_nz a : vOn card V a -> Z = [] -> post_den bn Y dov a <> 0.
Proof.
  intros Ha HZe. unfold post_den. cbn [upds evars map fst].
  assert (Hig : forall v, In v (Y ++ restT) -> v <> x /\ ~ In v Z).
  { intros v Hv. rewrite HZe. split; [|intros []]. intros E. subst v. apply in_app_or in Hv. destruct Hv as [Hv|Hv]; [contradiction|].
    apply In_minus in Hv. destruct Hv as [_ Hv]. apply Hv. left. reflexivity. }
  rewrite (pull_cX (Y ++ restT)) by exact Hig. rewrite (trunc_total a Ha).
  intros H. apply (Hpos_x a Ha). rewrite <- H. ring.
Qed.

Theorem query_defined_holds : query_defined bn Y dov Z = true.
Proof.
  assert (H : forall L, L = Z -> query_defined bn Y dov L = true).
  { intros L HL. unfold query_defined. destruct L as [|z L'].
    - apply qnz_of_neq. apply den_cond_nz; [exact vOn_zero|symmetry; exact HL].
    - rewrite HL. apply andb_true_iff. split; [apply andb_true_iff; split|].
      + apply qnz_of_neq. change (post_den bn Z [] (fun _ => 0%nat)) with (qsum card (Z ++ rest2) (joint bn) (fun _ => 0%nat)).
        rewrite (den2 _ vOn_zero). exact Qc_one_neq_0.
      + apply forallb_forall. intros idx Hidx. apply qnz_of_neq. apply den_Y_nz.
        apply asg_of_vOn; [exact Hcardpos|apply all_idx_in_range; exact Hidx].
      + apply qnz_of_neq. rewrite (adj_norm_eq _ vOn_zero). exact Qc_one_neq_0. }
  exact (H Z eq_refl).
Qed.
End Adj.

(* ---- table level: the value returned by query ---- *)
Lemma disjointb_spec a b : disjointb a b = true <-> forall v, In v a -> ~ In v b.
Proof.
  unfold disjointb. rewrite forallb_forall. split.
  - intros H v Hv. apply memn_false. apply negb_true_iff. apply H. exact Hv.
  - intros H v Hv. apply negb_true_iff. apply memn_false. apply H. exact Hv.
Qed.

Theorem single_do_parent_adjustment bn x xv A B cx Y :
  NoDup (nodes (bg bn)) ->
  Permutation (bcpds bn) (A ++ cx :: B) ->
  Permutation (nodes (bg bn)) (map cvar (A ++ cx :: B)) ->
  cvar cx = x ->
  topological (A ++ cx :: B) ->
  (forall c, In c (A ++ cx :: B) -> normalised (bcard bn) (nodes (bg bn)) c) ->
  (forall c, In c (A ++ cx :: B) -> incl (cpars c) (nodes (bg bn)) /\ ~ In (cvar c) (cpars c)) ->
  (forall p, In p (parents (bg bn) x) <-> In p (cpars cx)) ->
  (forall v, In v (nodes (bg bn)) -> (0 < bcard bn v)%nat) ->
  NoDup Y -> incl Y (nodes (bg bn)) -> ~ In x Y -> (forall y, In y Y -> ~ In y (parents (bg bn) x)) ->
  (xv < bcard bn x)%nat ->
  (forall p, In p (parents (bg bn) x) -> ~ In p (blat bn)) ->
  (forall b, vOn (bcard bn) (nodes (bg bn)) b -> qeval (bcard bn) (cfac cx) (upd b x xv) <> 0) ->
  (forall b, vOn (bcard bn) (nodes (bg bn)) b ->
     post_num bn (default_adjustment (bg bn) [(x, xv)]) [] b <> 0) ->
  query bn Y [(x, xv)] None = inr (trunc_table bn Y [(x, xv)]).
Proof.
  intros HVnd Hperm Hch Hcx Htopo Hnorm Hscope Hpars Hcard HYnd HYV HYx HYZ Hxv Hlat Hpx Hppa.
  assert (Hdef : query_defined bn Y [(x, xv)] (default_adjustment (bg bn) [(x, xv)]) = true)
    by (apply (query_defined_holds bn x xv A B cx Y); assumption).
  unfold query. cbv beta iota zeta.
  assert (E1 : subsetb Y (nodes (bg bn)) = true) by (apply subsetb_incl; exact HYV).
  rewrite E1. cbn [negb].
  set (Z := default_adjustment (bg bn) [(x, xv)]) in *.
  assert (HZp : forall p, In p Z <-> In p (parents (bg bn) x)).
  { intros p. unfold Z, default_adjustment. rewrite In_dedup. simpl. rewrite app_nil_r. tauto. }
  assert (E2 : disjointb Z (blat bn) = true).
  { apply disjointb_spec. intros v Hv. apply Hlat. apply HZp. exact Hv. }
  rewrite E2. cbn [negb].
  match goal with |- context [disjointb Y ?t] => assert (E3 : disjointb Y t = true) end.
  { apply disjointb_spec. intros v Hv Hi.
    assert (Hi' : In v (Z ++ [x])).
    { destruct Z; [simpl in Hi; simpl; exact Hi|exact Hi]. }
    apply in_app_or in Hi'. destruct Hi' as [Hz|[E|[]]].
    - apply (HYZ v Hv). apply HZp. exact Hz.
    - subst v. contradiction. }
  rewrite E3. cbn [negb]. rewrite Hdef. cbn [negb]. f_equal. unfold trunc_table.
  apply map_ext_in. intros idx Hidx.
  apply (query_value_is_truncated bn x xv A B cx Y); try assumption.
  apply asg_of_vOn; [exact Hcard|apply all_idx_in_range; exact Hidx].
Qed.
