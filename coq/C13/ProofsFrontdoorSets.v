(* C13 proofs: the front-door ADJUSTMENT FORMULA for mediator SETS, every DAG of every size (Base/FrontdoorSets.v), with
   pgmpy's own test [is_valid_frontdoor g x y M] as the hypothesis, M any duplicate-free list of nodes.  The test
   checks each mediator separately against y (observed = [m, x]); Base/FrontdoorSets.v per_member_joint shows that
   this implies the joint d-separation given all of M and x. *)
From Coq Require Import List Bool Arith PeanoNat Lia QArith Qcanon.
From PV Require Import Base.Reach Base.Graph Base.Semiring Base.FinSum Base.RefFactor Base.Markov Base.Backdoor
  Base.Frontdoor Base.FrontdoorSets C08.Model C08.Spec C08.ProofsTrail C08.ProofsMisc C13.Model C13.Spec C13.ProofsCrit
  C13.ProofsFrontdoorAll.
Import ListNotations.
Local Close Scope Q_scope.
Local Open Scope nat_scope.

Lemma dtrail_cut g M : forall p, is_dtrail (PV.C08.Model.do_graph g M) p -> is_dtrail g p /\ forall v, In v (tl p) -> ~ In v M.
Proof.
  induction p as [|a p IH]; intros Ht; [destruct Ht|].
  destruct p as [|b p']; [split; [exact I|intros v []]|]. destruct Ht as [He Ht]. apply do_graph_In in He.
  destruct (IH Ht) as [Ht' Hm]. split; [split; [apply He|exact Ht']|].
  intros v [<-|Hv]; [apply He|apply Hm; exact Hv].
Qed.

(* what the path part of pgmpy's test says, for a set *)
Theorem frontdoor_paths_sets g x y M : wf_graph g -> acyclic g -> x <> y -> ~ In x M ->
  existsb (fun p => negb (existsb (fun z => memn z p) M)) (dpaths (length (nodes g)) g x y) = false ->
  ~ dpath (PV.C08.Model.do_graph g M) x y.
Proof.
  intros Hw Hac Hxy HxM Hall Hp.
  destruct (dpath_dtrail _ x y Hp) as [r [Ht Hl]].
  assert (Hr : r <> []) by (intros ->; simpl in Hl; congruence).
  destruct (dtrail_cut g M (x :: r) Ht) as [Ht' HrM]. cbn [tl] in HrM.
  assert (Hlen : 2 <= length (x :: r)) by (destruct r; [congruence|simpl; lia]).
  pose proof (dtrail_NoDup g Hac (x :: r) Ht') as Hn.
  assert (Hin : incl (x :: r) (nodes g)).
  { intros v Hv. exact (trail_in_nodes g Hw (x :: r) (dtrail_trail g _ Ht') Hlen v Hv). }
  pose proof (NoDup_incl_length Hn Hin) as Hle. simpl in Hle.
  assert (Hen : In (x :: r) (dpaths (length (nodes g)) g x y)) by (apply dpaths_complete; try assumption; lia).
  destruct (existsb (fun z => memn z (x :: r)) M) eqn:E.
  - apply existsb_exists in E. destruct E as [z [Hz Hm]]. apply memn_In in Hm.
    destruct Hm as [<-|Hm]; [contradiction|exact (HrM z Hm Hz)].
  - assert (H : existsb (fun p => negb (existsb (fun z => memn z p) M)) (dpaths (length (nodes g)) g x y) = true).
    { apply existsb_exists. exists (x :: r). split; [exact Hen|rewrite E; reflexivity]. }
    congruence.
Qed.

Local Open Scope Qc_scope.
Notation Pm := (marg Qc_sum_csr).

Theorem frontdoor_adjustment_formula_sets (card : var -> nat) (g : digraph) (F : var -> asg -> Qc)
  (x y : node) (M : list node) (xv : nat) (a : asg) :
  wf_graph g -> acyclic g ->
  (forall v, In v (nodes g) -> @depends_only Qc_sum_csr (F v) (v :: parents g v)) ->
  (forall v, In v (nodes g) -> forall b, valid card b -> @sum_over Qc_sum_csr [v] [card v] (F v) b = 1) ->
  In x (nodes g) -> In y (nodes g) -> y <> x -> (xv < card x)%nat ->
  NoDup M -> incl M (nodes g) -> ~ In x M -> ~ In y M ->
  is_valid_frontdoor g x y M = true ->
  valid card a -> a x = xv ->
  (forall b, valid card b -> b x = xv -> Pm card g F [x] b <> 0) ->
  (forall b, valid card b -> Pm card g F (M ++ [x]) b <> 0) ->
  @sum_over Qc_sum_csr M (map card M)
    (fun b => Pm card g F (M ++ [x]) b / Pm card g F [x] b *
              @sum_over Qc_sum_csr [x] [card x]
                (fun c => Pm card g F (y :: M ++ [x]) c / Pm card g F (M ++ [x]) c * Pm card g F [x] c) b) a
  = trunc Qc_sum_csr card g F x [y] a.
Proof.
  intros Hw Hac Fdep Fsum Hx Hy Hyx Hxv HMnd HMn HxM HyM Hfd Ha Hax Hp1 Hp2.
  unfold is_valid_frontdoor in Hfd.
  destruct (dpaths (length (nodes g)) g x y) as [|p0 l0] eqn:Ed; [discriminate|].
  destruct (existsb (fun p => negb (existsb (fun z => memn z p) M)) (p0 :: l0)) eqn:E1; [discriminate|].
  destruct (existsb (fun z => negb (is_valid_backdoor g x z [])) M) eqn:E2; [discriminate|].
  rewrite <- Ed in E1.
  pose proof (frontdoor_paths_sets g x y M Hw Hac (fun E => Hyx (eq_sym E)) HxM E1) as Hcut.
  assert (Hii : forall m, In m M -> forallb (fun p => negb (is_dconnected g p m [x])) (parents g x) = true).
  { intros m Hm. destruct (is_valid_backdoor g x m []) eqn:E; [exact E|]. exfalso.
    assert (H : existsb (fun z => negb (is_valid_backdoor g x z [])) M = true)
      by (apply existsb_exists; exists m; split; [exact Hm|rewrite E; reflexivity]).
    congruence. }
  assert (Hiii : forall m y', In m M -> In y' [y] -> forallb (fun p => negb (is_dconnected g p y' [m; x])) (parents g m) = true).
  { intros m y' Hm [<-|[]]. rewrite forallb_forall in Hfd. exact (Hfd m Hm). }
  assert (HM : NoDup M /\ incl M (nodes g) /\ ~ In x M) by tauto.
  assert (HY : NoDup [y] /\ forall y', In y' [y] -> In y' (nodes g) /\ y' <> x /\ ~ In y' M).
  { split; [constructor; [intros []|constructor]|]. intros y' [<-|[]]. tauto. }
  assert (Hcut' : forall y', In y' [y] -> ~ dpath (PV.C08.Model.do_graph g M) x y') by (intros y' [<-|[]]; exact Hcut).
  exact (frontdoor_adjustment_sets card g Hw Hac F Fdep Fsum x xv M [y] Hx Hxv HM HY Hcut' Hii Hiii a Ha Hax Hp1 Hp2).
Qed.

Local Close Scope Qc_scope.
(* non-vacuity: X -> M1 -> M2 -> Y with a latent U -> X, U -> Y (X = 0, U = 1, M1 = 2, M2 = 3, Y = 4): the two-element
   set {M1, M2} passes pgmpy's test (so do {M1} and {M2}), while the empty back-door set fails *)
Example frontdoor_sets_nonvacuous :
  let g := {| nodes := [0; 1; 2; 3; 4]; edges := [(1, 0); (1, 4); (0, 2); (2, 3); (3, 4)] |} in
  wf_graph g /\ acyclic g /\ is_valid_frontdoor g 0 4 [2; 3] = true /\ is_valid_backdoor g 0 4 [] = false.
Proof.
  intros g.
  assert (Hw : wf_graph g).
  { split; [repeat constructor; simpl; intuition discriminate|].
    intros u v [H|[H|[H|[H|[H|[]]]]]]; inversion H; subst; simpl; tauto. }
  split; [exact Hw|]. split; [apply (acyclicb_spec g Hw); vm_compute; reflexivity|].
  split; vm_compute; reflexivity.
Qed.
