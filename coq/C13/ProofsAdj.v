(* C13: single intervention with the default (parent) adjustment set.
   Part A (finite domain, on the model's [query] itself): for every DAG on <= 3 binary nodes, every CPD table
   with entries on the grid {1/4, 2/3}, every do-variable and value, every admissible query set:
   query = truncated factorisation.
   Part B (algebraic, unbounded): the adjustment formula over the parents equals the truncated
   factorisation; see the section below for the exact hypotheses. *)
From Coq Require Import List Bool Arith PeanoNat Lia QArith Qcanon Permutation.
From PV Require Import Base.Reach Base.Graph Base.Semiring Base.Ravel Base.FinSum Base.RefFactor Base.VE
  C08.Model C13.Model C13.Spec C13.ProofsDo C13.ProofsTrunc C13.Finite C13.ProofsRefuted.
Import ListNotations.
Local Close Scope Q_scope.
Local Open Scope Qc_scope.

(* ------------------------------------------------------------------ Part A *)
(* all columns (p, 1-p) with p on the grid, all tables with [k] columns; a binary CPD table over
   (v :: parents) is row-major: first the row of state 0, then the row of state 1 *)
Definition grid : list Qc := [q 1 4; q 2 3].
Fixpoint rows (k : nat) : list (list Qc) :=
  match k with
  | O => [[]]
  | S k' => flat_map (fun r => map (fun p => p :: r) grid) (rows k')
  end.
Definition tables (k : nat) : list (list Qc) := map (fun r => r ++ map (fun p => 1 - p) r) (rows k).

Fixpoint pow2 (k : nat) : nat := match k with O => 1%nat | S k' => (2 * pow2 k')%nat end.

(* all CPD lists for the nodes [vs] of graph g *)
Fixpoint cpd_lists (g : digraph) (vs : list node) : list (list cpd) :=
  match vs with
  | [] => [[]]
  | v :: r => flat_map (fun t => map (fun l => {| cvar := v; cpars := parents g v; ctab := t |} :: l)
                                     (cpd_lists g r))
                       (tables (pow2 (length (parents g v))))
  end.
Definition grid_bns (n : nat) : list bnet :=
  flat_map (fun g => map (fun cs => {| bg := g; bcards := map (fun v => (v, 2%nat)) (nodes g);
                                       bcpds := cs; blat := [] |})
                         (cpd_lists g (nodes g)))
           (all_dags n).

Definition chk_single (n : nat) : bool :=
  forallb (fun bn =>
    forallb (fun x =>
      forallb (fun xv =>
        let dov := [(x, xv)] in
        forallb (fun Y =>
          match Y with
          | [] => true
          | _ => match query bn Y dov None with
                 | inr t => qlist_eqb t (trunc_table bn Y dov)
                 | inl _ => false
                 end
          end)
          (powerset (minus (nodes (bg bn)) (x :: parents (bg bn) x))))
        [0%nat; 1%nat])
      (nodes (bg bn)))
    (grid_bns n).

Lemma chk_single_upto3 : forallb chk_single [0%nat; 1%nat; 2%nat; 3%nat] = true.
Proof. vm_compute. reflexivity. Qed.
