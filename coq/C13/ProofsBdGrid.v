(* C13: finite-domain back-door adjustment theorem on the model's [query]: for every DAG on <= 3 binary nodes,
   every CPD whose columns are (p, 1-p) with p in {1/4, 2/3}, every do-variable and value, every outcome y and
   EVERY set Z (not containing x, y) that satisfies the path-based back-door criterion:
   query bn [y] [(x, v)] (Some Z) is the truncated factorisation.  (The general, unbounded back-door theorem is
   not attempted: it needs the global Markov property of the CPD-product joint.) *)
From Coq Require Import List Bool Arith PeanoNat Lia QArith Qcanon.
From PV Require Import Base.Reach Base.Graph Base.FinSum C08.Model C13.Model C13.Spec C13.Finite
  C13.ProofsRefuted.
Import ListNotations.
Local Close Scope Q_scope.
Local Open Scope Qc_scope.

Definition grid2 : list Qc := [q 1 4; q 2 3].
Fixpoint rows2 (k : nat) : list (list Qc) :=
  match k with
  | O => [[]]
  | S k' => flat_map (fun r => map (fun p => p :: r) grid2) (rows2 k')
  end.
Definition tables2 (k : nat) : list (list Qc) := map (fun r => r ++ map (fun p => 1 - p) r) (rows2 k).
Fixpoint pow2' (k : nat) : nat := match k with O => 1%nat | S k' => (2 * pow2' k')%nat end.
Fixpoint cpd_lists2 (g : digraph) (vs : list node) : list (list cpd) :=
  match vs with
  | [] => [[]]
  | v :: r => flat_map (fun t => map (fun l => {| cvar := v; cpars := parents g v; ctab := t |} :: l)
                                     (cpd_lists2 g r))
                       (tables2 (pow2' (length (parents g v))))
  end.
Definition grid2_bns (n : nat) : list bnet :=
  flat_map (fun g => map (fun cs => {| bg := g; bcards := map (fun v => (v, 2%nat)) (nodes g);
                                       bcpds := cs; blat := [] |})
                         (cpd_lists2 g (nodes g)))
           (all_dags n).

Definition chk_bd_grid (n : nat) : bool :=
  forallb (fun bn =>
    let g := bg bn in
    forallb (fun x => forallb (fun y => Nat.eqb x y ||
      forallb (fun Z =>
        negb (backdoor_criterionb g x y Z) ||
        forallb (fun xv =>
          match query bn [y] [(x, xv)] (Some Z) with
          | inr t => qlist_eqb t (trunc_table bn [y] [(x, xv)])
          | inl _ => false
          end) [0%nat; 1%nat])
        (powerset (other_nodes g x y))) (nodes g)) (nodes g))
    (grid2_bns n).

Lemma chk_bd_grid_upto3 : forallb chk_bd_grid [0%nat; 1%nat; 2%nat; 3%nat] = true.
Proof. vm_compute. reflexivity. Qed.

Local Close Scope Qc_scope.

Lemma backdoor_adjustment_upto3_grid : forall n bn x y xv Z,
  n <= 3 -> In bn (grid2_bns n) -> In x (nodes (bg bn)) -> In y (nodes (bg bn)) -> x <> y -> xv < 2 ->
  In Z (powerset (other_nodes (bg bn) x y)) -> backdoor_criterionb (bg bn) x y Z = true ->
  query bn [y] [(x, xv)] (Some Z) = inr (trunc_table bn [y] [(x, xv)]).
Proof.
  intros n bn x y xv Z Hn Hbn Hx Hy Hne Hxv HZ Hc.
  assert (Hn' : In n [0; 1; 2; 3]) by (simpl; lia).
  pose proof (forallb_In _ _ n chk_bd_grid_upto3 Hn') as H. unfold chk_bd_grid in H.
  pose proof (forallb_In _ _ bn H Hbn) as H1. cbv beta zeta in H1.
  pose proof (forallb_In _ _ x H1 Hx) as H2. cbv beta in H2.
  pose proof (forallb_In _ _ y H2 Hy) as H3. cbv beta in H3.
  apply orb_true_iff in H3. destruct H3 as [H3|H3]; [apply Nat.eqb_eq in H3; contradiction|].
  pose proof (forallb_In _ _ Z H3 HZ) as H4. cbv beta in H4. rewrite Hc in H4. cbn [negb orb] in H4.
  assert (Hv : In xv [0; 1]) by (simpl; lia).
  pose proof (forallb_In _ _ xv H4 Hv) as H5. cbv beta in H5.
  match type of H5 with
  | match ?qq with inl _ => _ | inr _ => _ end = true =>
      change (qq = inr (trunc_table bn [y] [(x, xv)])); destruct qq as [e|t]; [discriminate|]
  end.
  apply qlist_eqb_eq in H5. rewrite H5. reflexivity.
Qed.
