(* C13: the two full-strength statements the as-coded model refutes (witnesses replayed on pgmpy by the
   harness: known findings multi-do-default-adjustment and minimal-adjustment-descendant). *)
From Coq Require Import List Bool Arith PeanoNat Lia QArith Qcanon.
From PV Require Import Base.Reach Base.Graph Base.Semiring Base.Ravel Base.FinSum Base.RefFactor
  C08.Model C08.Spec C13.Model C13.Spec.
Import ListNotations.
Local Close Scope Q_scope.
Local Open Scope Qc_scope.

Definition q (n : Z) (d : positive) : Qc := Q2Qc (n # d).
Definition qpos (p : Qc) : bool := match Qccompare 0 p with Lt => true | _ => false end.

(* a well-formed strictly positive discrete network: one CPD per node (in node order), CPD parents = graph
   parents (as sets), table of the right size, entries > 0, every column sums to one, graph well-formed
   and acyclic *)
Definition cpd_okb (bn : bnet) (c : cpd) : bool :=
  let card := bcard bn in
  subsetb (cpars c) (parents (bg bn) (cvar c)) && subsetb (parents (bg bn) (cvar c)) (cpars c)
  && Nat.eqb (length (ctab c)) (prod (map card (cvar c :: cpars c)))
  && forallb qpos (ctab c)
  && forallb (fun idx => Qc_eq_bool (qsum card [cvar c] (qeval card (cfac c)) (asg_of (cpars c) idx)) 1)
             (all_idx card (cpars c)).
Definition bn_okb (bn : bnet) : bool :=
  acyclicb (bg bn) && wf_graphb (bg bn)
  && forallb (fun p => Nat.eqb (fst p) (snd p)) (combine (map cvar (bcpds bn)) (nodes (bg bn)))
  && Nat.eqb (length (bcpds bn)) (length (nodes (bg bn)))
  && forallb (cpd_okb bn) (bcpds bn).

Fixpoint qlist_eqb (a b : list Qc) : bool :=
  match a, b with
  | [], [] => true
  | x :: a', y :: b' => Qc_eq_bool x y && qlist_eqb a' b'
  | _, _ => false
  end.
Lemma qlist_eqb_refl a : qlist_eqb a a = true.
Proof.
  induction a as [|x a IH]; [reflexivity|]. simpl. rewrite IH.
  unfold Qc_eq_bool. destruct (Qc_eq_dec x x); [reflexivity|congruence].
Qed.

(* ---- D8a: A -> B, A -> Y, do(A = 0, B = 0): the default adjustment set is {A} (the parent of B), the loop
   sums over A and the merged evidence dictionary overrides do(A = 0) ---- *)
Definition w_bn : bnet :=
  {| bg := {| nodes := [0; 1; 2]; edges := [(0, 1); (0, 2)] |};
     bcards := [(0, 2); (1, 2); (2, 2)];
     bcpds := [ {| cvar := 0; cpars := []; ctab := [q 1 2; q 1 2] |};
                {| cvar := 1; cpars := [0]; ctab := [q 1 2; q 1 2; q 1 2; q 1 2] |};
                {| cvar := 2; cpars := [0]; ctab := [q 1 4; q 3 4; q 3 4; q 1 4] |} ];
     blat := [] |}%nat.
Definition w_do : list (var * nat) := [(0, 0); (1, 0)]%nat.

Definition w_check : bool :=
  bn_okb w_bn
  && match query w_bn [2%nat] w_do None with
     | inr t => qlist_eqb t [q 1 2; q 1 2]
     | inl _ => false
     end
  && qlist_eqb (trunc_table w_bn [2%nat] w_do) [q 1 4; q 3 4]
  && negb (Qc_eq_bool (q 1 2) (q 1 4)).
Lemma w_check_true : w_check = true.
Proof. vm_compute. reflexivity. Qed.

Lemma qlist_eqb_eq a : forall b, qlist_eqb a b = true -> a = b.
Proof.
  induction a as [|x a IH]; intros [|y b] H; try discriminate; [reflexivity|].
  simpl in H. apply andb_true_iff in H. destruct H as [H1 H2].
  apply Qc_eq_bool_correct in H1. subst. f_equal. apply IH. exact H2.
Qed.

Lemma multi_do_default_refuted :
  exists bn Y dov t,
    bn_okb bn = true /\ length dov = 2%nat /\
    query bn Y dov None = inr t /\
    qlist_eqb t [q 1 2; q 1 2] = true /\
    qlist_eqb (trunc_table bn Y dov) [q 1 4; q 3 4] = true /\
    t <> trunc_table bn Y dov.
Proof.
  pose proof w_check_true as H. unfold w_check in H.
  set (r := query w_bn [2%nat] w_do None) in H.
  set (tt := trunc_table w_bn [2%nat] w_do) in H.
  apply andb_true_iff in H. destruct H as [H Hne].
  apply andb_true_iff in H. destruct H as [H Hs].
  apply andb_true_iff in H. destruct H as [Hok Ht].
  destruct r as [e|t] eqn:E; [discriminate|].
  exists w_bn, [2%nat], w_do, t.
  split; [exact Hok|]. split; [reflexivity|]. split; [exact E|]. split; [exact Ht|]. split; [exact Hs|].
  fold tt. intros Heq. apply qlist_eqb_eq in Ht, Hs.
  assert (Hc : hd 0 [q 1 2; q 1 2] = hd 0 [q 1 4; q 3 4]) by (rewrite <- Ht, <- Hs, Heq; reflexivity).
  cbn [hd] in Hc.
  apply negb_true_iff in Hne. unfold Qc_eq_bool in Hne.
  destruct (Qc_eq_dec (q 1 2) (q 1 4)) as [_|Hn]; [discriminate|contradiction].
Qed.

Local Close Scope Qc_scope.

(* ---- D8b: X <- U -> M -> Y, X -> M  (X=0, U=1, M=2, Y=3): depending on the iteration order of the set
   {U, M} the minimal "adjustment" set is {M}, a descendant (mediator) of X, or {U} ---- *)
Definition w_g : digraph := {| nodes := [0; 1; 2; 3]; edges := [(1, 0); (1, 2); (2, 3); (0, 2)] |}.

Lemma minimal_adjustment_refuted :
  exists g x y order order' s,
    wf_graph g /\ acyclicb g = true /\
    minimal_adjustment g [] x y (fun _ => order) order = Some (Some s) /\
    (exists z, In z s /\ z <> x /\ dpath g x z) /\
    ~ backdoor_criterion g x y s /\
    minimal_adjustment g [] x y (fun _ => order') order' = Some (Some [1]) /\
    backdoor_criterionb g x y [1] = true.
Proof.
  exists w_g, 0, 3, [1; 2], [2; 1], [2].
  assert (Hd : dpath w_g 0 2).
  { eapply dpath_step; [apply dpath_refl|]. simpl. tauto. }
  split.
  { split; [repeat constructor; simpl; intuition discriminate|].
    intros u v H. simpl in H.
    repeat (destruct H as [H|H]; [inversion H; subst; simpl; tauto|]). destruct H. }
  split; [vm_compute; reflexivity|]. split; [vm_compute; reflexivity|].
  split; [exists 2; split; [left; reflexivity|split; [discriminate|exact Hd]]|].
  split; [intros [H _]; apply (H 2); [left; reflexivity|exact Hd]|].
  split; vm_compute; reflexivity.
Qed.
