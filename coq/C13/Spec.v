(* C13 specification: the truncated factorisation (Pearl, Causality, eq. 3.10) and the back-door /
   front-door criteria (Pearl, defs. 3.3.1 and 3.3.3) stated directly on paths, with the vocabulary of the
   path-based d-separation specification C08/Spec.v (is_trail, active).  The boolean functions at the end
   evaluate the same criteria by brute-force enumeration of all simple paths (no reachability algorithm);
   ProofsCrit.v proves that they decide the Prop definitions. *)
From Coq Require Import List Bool Arith PeanoNat QArith Qcanon.
From PV Require Import Base.Reach Base.Graph Base.Semiring Base.Ravel Base.FinSum Base.RefFactor
  C08.Spec C13.Model.
Import ListNotations.

(* ---------------------------------------------------------------- truncated factorisation *)
(* P(v | do(X = x)) = prod_{V not in X} P(v | pa_V)  for v consistent with x (0 otherwise);
   here as a function of an assignment that is first overwritten by the intervention *)
Definition trunc_joint (bn : bnet) (dov : list (var * nat)) (a : asg) : Qc :=
  eval_prod Qc_sum_csr (bcard bn)
    (map cfac (filter (fun c => negb (memn (cvar c) (evars dov))) (bcpds bn))) (upds a dov).

(* ... marginalised to Y: sum over every variable that is neither queried nor intervened on *)
Definition trunc_marg (bn : bnet) (Y : list var) (dov : list (var * nat)) (a : asg) : Qc :=
  let rest := minus (minus (nodes (bg bn)) Y) (evars dov) in
  qsum (bcard bn) rest (fun b => trunc_joint bn dov b) (upds a dov).

Definition trunc_table (bn : bnet) (Y : list var) (dov : list (var * nat)) : list Qc :=
  map (fun idx => trunc_marg bn Y dov (asg_of Y idx)) (all_idx (bcard bn) Y).

(* ---------------------------------------------------------------- criteria on paths *)
Local Close Scope Qc_scope.
Local Close Scope Q_scope.

(* a back-door path from x to y: a simple path x <- p ... y *)
Definition backdoor_path (g : digraph) (x y : node) (t : list node) : Prop :=
  exists p r, t = x :: p :: r /\ In (p, x) (edges g) /\ is_trail g t /\ NoDup t /\ last t x = y.

(* Z satisfies the back-door criterion relative to (x, y):
   (i) no node of Z is a descendant of x;  (ii) Z blocks every back-door path from x to y *)
Definition backdoor_criterion (g : digraph) (x y : node) (Z : list node) : Prop :=
  (forall z, In z Z -> ~ dpath g x z) /\
  (forall t, backdoor_path g x y t -> ~ active g Z t).

(* a directed path x -> ... -> y with at least one edge *)
Fixpoint is_dtrail (g : digraph) (t : list node) : Prop :=
  match t with
  | [] => False
  | [x] => True
  | x :: ((y :: _) as r) => In (x, y) (edges g) /\ is_dtrail g r
  end.
Definition directed_path (g : digraph) (x y : node) (t : list node) : Prop :=
  is_dtrail g t /\ hd_error t = Some x /\ last t x = y /\ 2 <= length t.

(* Z satisfies the front-door criterion relative to (x, y):
   (i) Z intercepts all directed paths from x to y; (ii) there is no unblocked back-door path from x to Z;
   (iii) all back-door paths from Z to y are blocked by x *)
Definition frontdoor_criterion (g : digraph) (x y : node) (Z : list node) : Prop :=
  (forall t, directed_path g x y t -> exists z, In z Z /\ In z t) /\
  (forall z t, In z Z -> backdoor_path g x z t -> ~ active g [] t) /\
  (forall z t, In z Z -> backdoor_path g z y t -> ~ active g [x] t).

(* ---------------------------------------------------------------- the same, by brute force over all paths *)
Definition nbrs (g : digraph) (v : node) : list node := parents g v ++ children g v.

(* all simple paths (as node lists) starting at x, avoiding [avoid], with at most [n] edges *)
Fixpoint spaths (n : nat) (g : digraph) (x : node) (avoid : list node) : list (list node) :=
  match n with
  | 0 => [[x]]
  | S n' => [x] :: flat_map (fun v => map (cons x) (spaths n' g v (x :: avoid)))
                            (filter (fun v => negb (memn v (x :: avoid))) (nbrs g x))
  end.

Definition colliderb (g : digraph) (a b c : node) : bool := has_edge g a b && has_edge g c b.
Definition ok_midb (g : digraph) (Z : list node) (a b c : node) : bool :=
  if colliderb g a b c then existsb (fun z => has_path g b z) Z else negb (memn b Z).
Fixpoint activeb (g : digraph) (Z : list node) (t : list node) : bool :=
  match t with
  | a :: ((b :: ((c :: _) as r2)) as r1) => ok_midb g Z a b c && activeb g Z r1
  | _ => true
  end.

(* the back-door paths from x to y *)
Definition backdoor_paths (g : digraph) (x y : node) : list (list node) :=
  filter (fun t => match t with
                   | _ :: p :: _ => has_edge g p x && Nat.eqb (last t x) y
                   | _ => false
                   end) (spaths (length (nodes g)) g x []).

Definition backdoor_criterionb (g : digraph) (x y : node) (Z : list node) : bool :=
  forallb (fun z => negb (has_path g x z)) Z
  && forallb (fun t => negb (activeb g Z t)) (backdoor_paths g x y).

Fixpoint is_dtrailb (g : digraph) (t : list node) : bool :=
  match t with
  | [] => false
  | [x] => true
  | x :: ((y :: _) as r) => has_edge g x y && is_dtrailb g r
  end.
Definition directed_paths (g : digraph) (x y : node) : list (list node) :=
  filter (fun t => is_dtrailb g t && Nat.eqb (last t x) y && Nat.leb 2 (length t))
         (spaths (length (nodes g)) g x []).

Definition frontdoor_criterionb (g : digraph) (x y : node) (Z : list node) : bool :=
  forallb (fun t => existsb (fun z => memn z t) Z) (directed_paths g x y)
  && forallb (fun z => forallb (fun t => negb (activeb g [] t)) (backdoor_paths g x z)) Z
  && forallb (fun z => forallb (fun t => negb (activeb g [x] t)) (backdoor_paths g z y)) Z.
