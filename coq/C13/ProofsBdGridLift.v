(* the grid back-door theorem stated against the Prop criterion *)
From Coq Require Import List Bool Arith PeanoNat Lia.
From PV Require Import Base.Reach Base.Graph Base.FinSum C08.Model C08.Spec C13.Model C13.Spec C13.Finite
  C13.ProofsCrit C13.ProofsCritLift C13.ProofsBdGrid.
Import ListNotations.

Lemma grid2_graph n bn : In bn (grid2_bns n) -> In (bg bn) (all_dags n).
Proof.
  unfold grid2_bns. intros H. apply in_flat_map in H. destruct H as [g [Hg H]].
  apply in_map_iff in H. destruct H as [cs [<- _]]. exact Hg.
Qed.

Theorem backdoor_adjustment_is_truncated_upto3_grid : forall n bn x y xv Z,
  n <= 3 -> In bn (grid2_bns n) -> In x (nodes (bg bn)) -> In y (nodes (bg bn)) -> x <> y -> xv < 2 ->
  In Z (powerset (other_nodes (bg bn) x y)) -> backdoor_criterion (bg bn) x y Z ->
  query bn [y] [(x, xv)] (Some Z) = inr (trunc_table bn [y] [(x, xv)]).
Proof.
  intros n bn x y xv Z Hn Hbn Hx Hy Hne Hxv HZ Hc.
  destruct (all_dags_wf n _ (grid2_graph n bn Hbn)) as [Hw _].
  apply (backdoor_adjustment_upto3_grid n bn x y xv Z); try assumption.
  apply (backdoor_criterionb_spec _ x y Z Hw). exact Hc.
Qed.
