(* C13 property theorems ("Interventions follow the truncated factorisation").  Only statements, each closed by
   [exact] of a lemma proved in ProofsDo / ProofsTrunc / ProofsAdj / Finite / ProofsRefuted, with
   Print Assumptions underneath, and Examples showing the hypotheses are met by non-trivial objects.

   Vocabulary
     Model.v   do_graph / do_bn (DAG.do, BayesianNetwork.do), query (CausalInference.query, inner VE/BP calls by
               their specification [post] = conditional of the CPD-product joint, cf. C01/C02), is_valid_backdoor,
               all_backdoor_sets, is_valid_frontdoor, all_frontdoor_sets, proper_backdoor_graph,
               is_valid_adjustment, minimal_adjustment (with set-iteration orders as parameters)
     Spec.v    trunc_joint / trunc_marg / trunc_table (truncated factorisation, marginalised to Y);
               backdoor_criterion / frontdoor_criterion (Pearl's criteria on simple paths, with the C08 path
               vocabulary is_trail / active); backdoor_criterionb / frontdoor_criterionb evaluate the same
               criteria by brute-force enumeration of all simple paths.

   NOT attempted unbounded (stated here so that it stays visible): the general back-door theorem
       forall bn x y Z, backdoor_criterion (bg bn) x y Z -> positivity ->
         query bn [y] [(x, v)] (Some Z) = inr (trunc_table bn [y] [(x, v)])
   (adjustment over EVERY valid set equals the truncated factorisation; needs the global Markov property of the
   CPD-product joint).  Proved instead: the parent-set instance UNBOUNDED (C13_single_do_parent_adjustment) and
   the statement for every valid set on a finite domain (C13_backdoor_adjustment_is_truncated_upto3_grid); for
   other sets on larger networks the run-time correspondence (every enumerated back-door set of every generated
   network, both back-ends) ties pgmpy to the truncated factorisation.
   PROVED UNBOUNDED since (section 6): the adjustment FORMULA itself, for every DAG of every size and every set Z that
   passes pgmpy's own test is_valid_backdoor and contains no descendant of x (C13_backdoor_adjustment_formula, from
   the factorisation / global Markov theorem of Base/Markov.v), and the LINK from that formula to the literal loop of
   [query] on a [bnet] (section 7: C13_backdoor_adjustment_is_truncated, for every network and every set that passes
   pgmpy's test and contains no descendant of x).  The _upto3_grid theorem is kept as an independent check. *)
From Coq Require Import List Bool Arith PeanoNat QArith Qcanon.
From PV Require Import Base.Reach Base.Graph Base.Semiring Base.Ravel Base.FinSum Base.RefFactor
  C08.Model C08.Spec C13.Model C13.Spec C13.ProofsDo C13.ProofsTrunc C13.ProofsAdj C13.ProofsAdjLift C13.Finite C13.ProofsRefuted
  C13.ProofsSum C13.ProofsAdjU C13.ProofsAdjEx C13.ProofsCrit C13.ProofsCritLift C13.ProofsBdGrid C13.ProofsBdGridLift
  C13.ProofsBackdoorAll C13.ProofsBdLink C13.ProofsBdLinkEx C13.ProofsFrontdoorAll C13.ProofsFrontdoorSets.
From Coq Require Import Permutation.
Import ListNotations.
Local Close Scope Q_scope.
Local Open Scope Qc_scope.

(* ================================================================== 1. do(): graph and CPD surgery *)

(* DAG.do / BayesianNetwork.do refuse exactly unknown nodes; otherwise the node set is unchanged and an edge
   survives iff its head is not intervened on: exactly the incoming edges of the intervened nodes are removed,
   every other edge is kept.  Any graph, any node list (duplicates, any order); no size bound. *)
Theorem C13_do_surgery_graph : forall g X,
  (do_graph g X = None <-> ~ incl X (nodes g)) /\
  (forall g', do_graph g X = Some g' ->
     nodes g' = nodes g /\
     forall u v, In (u, v) (edges g') <-> In (u, v) (edges g) /\ ~ In v X).
Proof. exact do_graph_spec. Qed.
Print Assumptions C13_do_surgery_graph.

(* BayesianNetwork.do: the graph is DAG.do's; cardinalities and latents unchanged; the CPD list keeps its
   length and positions; a CPD of a node outside X is untouched (the same object), a CPD of a node in X is
   replaced by marg_cpd: parent-free, one entry per state, entry i = (sum over all parent configurations of
   P(i | pa)) / (the sum of those over i)  -- the value pgmpy's marginalize+normalize produces; it sums to 1
   whenever that total is non-zero. *)
Theorem C13_do_surgery : forall bn X bn', do_bn bn X = Some bn' ->
  do_graph (bg bn) X = Some (bg bn') /\ bcards bn' = bcards bn /\ blat bn' = blat bn /\
  length (bcpds bn') = length (bcpds bn) /\
  forall k c, nth_error (bcpds bn) k = Some c ->
    exists c', nth_error (bcpds bn') k = Some c' /\
      (~ In (cvar c) X -> c' = c) /\ (In (cvar c) X -> c' = marg_cpd (bcard bn) c).
Proof. exact do_bn_spec. Qed.
Print Assumptions C13_do_surgery.

Theorem C13_do_new_cpd : forall card c,
  cvar (marg_cpd card c) = cvar c /\ cpars (marg_cpd card c) = [] /\
  length (ctab (marg_cpd card c)) = card (cvar c) /\
  (forall i, (i < card (cvar c))%nat ->
     nth i (ctab (marg_cpd card c)) 0 =
       parent_sum card c i / qsuml (map (parent_sum card c) (seq 0 (card (cvar c))))) /\
  (qsuml (map (parent_sum card c) (seq 0 (card (cvar c)))) <> 0 -> qsuml (ctab (marg_cpd card c)) = 1).
Proof. exact marg_cpd_spec. Qed.
Print Assumptions C13_do_new_cpd.

(* intervened nodes become roots, every other node keeps its parent set *)
Theorem C13_do_parents : forall g X g' v, do_graph g X = Some g' ->
  (In v X -> parents g' v = []) /\ (~ In v X -> forall u, In u (parents g' v) <-> In u (parents g v)).
Proof. exact do_graph_parents. Qed.
Print Assumptions C13_do_parents.

Theorem C13_do_refuses_unknown : forall bn X, do_bn bn X = None <-> ~ incl X (nodes (bg bn)).
Proof. exact do_bn_none. Qed.
Print Assumptions C13_do_refuses_unknown.

Example do_example :
  option_map (fun b => edges (bg b)) (do_bn w_bn [1%nat]) = Some [(0, 2)]%nat.
Proof. vm_compute. reflexivity. Qed.

(* ================================================================== 2. mutilated joint = truncated factorisation *)

(* On every assignment consistent with the intervention, the CPD-product joint of the mutilated network
   do_bn bn X is (the product of the new parent-free CPDs of X, a number depending on x only) times the
   truncated factorisation of the ORIGINAL network.  Any network, any do-list; algebraic, no size bound. *)
Theorem C13_do_joint_is_truncated : forall bn dov bn' a,
  do_bn bn (evars dov) = Some bn' -> consistent dov a ->
  joint bn' a = do_weight bn dov a * trunc_joint bn dov a.
Proof. exact do_joint_pointwise. Qed.
Print Assumptions C13_do_joint_is_truncated.

(* the weight only looks at the intervened variables *)
Theorem C13_do_weight_ignores : forall bn dov v, ~ In v (evars dov) -> @ignores Qc_sum_csr (do_weight bn dov) v.
Proof. exact do_weight_ignores. Qed.
Print Assumptions C13_do_weight_ignores.

(* hence conditioning the mutilated network on X = x (what simulate(do=...) samples from, and what an exact
   query on model.do(X) with evidence X = x returns) is the truncated factorisation marginalised to Y and
   normalised, for every query set disjoint from X, provided x has positive weight *)
Theorem C13_do_condition_is_truncated : forall bn dov bn' Y a,
  do_bn bn (evars dov) = Some bn' -> (forall v, In v Y -> ~ In v (evars dov)) ->
  do_weight bn dov (upds a dov) <> 0 ->
  post bn' Y dov a = trunc_marg bn Y dov a / trunc_norm bn Y dov a.
Proof. exact do_condition_is_truncated. Qed.
Print Assumptions C13_do_condition_is_truncated.

Example do_condition_example :
  exists bn', do_bn w_bn (evars [(1, 0)]%nat) = Some bn' /\
  Qc_eq_bool (do_weight w_bn [(1, 0)]%nat (upds (fun _ => 0%nat) [(1, 0)]%nat)) 0 = false.
Proof. eexists. split; [vm_compute; reflexivity|vm_compute; reflexivity]. Qed.

(* ================================================================== 3. single intervention, default (parent) adjustment *)
(* UNBOUNDED.  Single do-variable x (no evidence), default adjustment set = Pa(x):
     sum_pa P(y | x, pa) P(pa)  =  sum_rest prod_{V <> X} P(v | pa_V) [X = x]     (whole table, exact)
   for EVERY network (any size, any cardinalities) such that
     - the CPDs can be arranged in a topological order  A ++ cx :: B  (cx the CPD of x): the child of a later
       CPD does not occur in the scope of an earlier one  (= the graph is a DAG and CPD scopes follow it);
     - there is one CPD per node, every CPD is normalised on in-range assignments, parents are nodes, the parents
       of cx are the graph parents of x, cardinalities are positive;
     - Y is duplicate-free, within the nodes, disjoint from {x} and Pa(x) (the engine refuses other Y), x's
       parents are observed;
     - positivity: P(x | pa) <> 0 and P(pa) <> 0 for every in-range parent configuration (the engine's own
       definedness flag -- no division by zero is performed -- is then PROVED, not assumed).
   Both branches of the code are covered: Pa(x) = {} (plain conditioning) and the adjustment loop with the final
   normalisation.  Proof: ProofsSum.v (permutation/clamping of finite sums, tail sums of normalised CPDs in
   topological order equal one), ProofsAdjU.v. *)
Theorem C13_single_do_parent_adjustment : forall bn x xv A B cx Y,
  NoDup (nodes (bg bn)) ->
  Permutation (bcpds bn) (A ++ cx :: B) ->
  Permutation (nodes (bg bn)) (map cvar (A ++ cx :: B)) ->
  cvar cx = x ->
  topological (A ++ cx :: B) ->
  (forall c, In c (A ++ cx :: B) -> normalised (bcard bn) (nodes (bg bn)) c) ->
  (forall c, In c (A ++ cx :: B) -> incl (cpars c) (nodes (bg bn)) /\ ~ In (cvar c) (cpars c)) ->
  (forall p, In p (parents (bg bn) x) <-> In p (cpars cx)) ->
  (forall v, In v (nodes (bg bn)) -> (0 < bcard bn v)%nat) ->
  NoDup Y -> incl Y (nodes (bg bn)) -> ~ In x Y -> (forall y, In y Y -> ~ In y (parents (bg bn) x)) ->
  (xv < bcard bn x)%nat ->
  (forall p, In p (parents (bg bn) x) -> ~ In p (blat bn)) ->
  (forall b, vOn (bcard bn) (nodes (bg bn)) b -> qeval (bcard bn) (cfac cx) (upd b x xv) <> 0) ->
  (forall b, vOn (bcard bn) (nodes (bg bn)) b ->
     post_num bn (default_adjustment (bg bn) [(x, xv)]) [] b <> 0) ->
  query bn Y [(x, xv)] None = inr (trunc_table bn Y [(x, xv)]).
Proof. exact single_do_parent_adjustment. Qed.
Print Assumptions C13_single_do_parent_adjustment.

(* the tail-sum lemma the proof rests on: a topological list of normalised CPDs, summed over its children, is 1 *)
Theorem C13_topological_product_sums_to_one : forall card V (l : list cpd),
  topo_rev l -> (forall c, In c l -> normalised card V c) ->
  forall a, vOn card V a -> qsum card (map cvar (rev l)) (eval_prod Qc_sum_csr card (map cfac (rev l))) a = 1.
Proof. exact tail_sum_one. Qed.
Print Assumptions C13_topological_product_sums_to_one.

(* the semantic hypotheses (normalisation, positivity) of the theorem are decidable by evaluating them on the
   finitely many in-range index tuples of the nodes *)
Theorem C13_single_do_hypotheses_checkable : forall bn x xv cs cx,
  scopes_in bn -> (forall c, In c cs -> In c (bcpds bn)) -> In cx (bcpds bn) ->
  hyps_okb bn x xv cs cx = true ->
  (forall c, In c cs -> normalised (bcard bn) (nodes (bg bn)) c) /\
  (forall b, vOn (bcard bn) (nodes (bg bn)) b -> qeval (bcard bn) (cfac cx) (upd b x xv) <> 0) /\
  (forall b, vOn (bcard bn) (nodes (bg bn)) b -> post_num bn (default_adjustment (bg bn) [(x, xv)]) [] b <> 0).
Proof. exact hyps_ok_sound. Qed.
Print Assumptions C13_single_do_hypotheses_checkable.

(* non-vacuity: A -> B, A -> Y, do(B = 0), query Y -- adjustment set {A}; all hypotheses hold *)
Example single_do_unbounded_instance :
  default_adjustment (bg w_bn) [(1, 0)]%nat = [0%nat] /\
  query w_bn [2%nat] [(1, 0)]%nat None = inr (trunc_table w_bn [2%nat] [(1, 0)]%nat).
Proof. exact single_do_example. Qed.

(* The same statement by exhaustive computation on a finite domain (kept: it is about [query] with no
   hypotheses to discharge): every DAG on <= 3 binary nodes,
   every CPD whose columns are (p, 1-p) with p in {1/4, 2/3} (all combinations; 20 networks on 2 nodes,
   several thousand on 3), every do-variable and value, every non-empty query set disjoint from the do-variable
   and its parents. *)
Theorem C13_single_do_parent_adjustment_upto3_grid : forall n bn x xv Y,
  (n <= 3)%nat -> In bn (grid_bns n) -> In x (nodes (bg bn)) -> (xv < 2)%nat ->
  In Y (powerset (minus (nodes (bg bn)) (x :: parents (bg bn) x))) -> Y <> [] ->
  query bn Y [(x, xv)] None = inr (trunc_table bn Y [(x, xv)]).
Proof. exact single_do_parent_adjustment_upto3_grid. Qed.
Print Assumptions C13_single_do_parent_adjustment_upto3_grid.

Example single_do_domain_nonempty : length (grid_bns 2) = 20%nat /\ length (all_dags 3) = 25%nat.
Proof. exact grid_nonempty. Qed.

Local Close Scope Qc_scope.

(* ================================================================== 4. criteria *)

(* UNBOUNDED: the boolean checkers of Spec.v (enumeration of all simple paths) decide Pearl's criteria as stated
   on paths in Spec.v, for every well-formed graph (front-door: every well-formed DAG) *)
Theorem C13_backdoor_checker_decides : forall g x y Z, wf_graph g ->
  (backdoor_criterionb g x y Z = true <-> backdoor_criterion g x y Z).
Proof. exact backdoor_criterionb_spec. Qed.
Print Assumptions C13_backdoor_checker_decides.

Theorem C13_frontdoor_checker_decides : forall g x y Z, wf_graph g -> acyclic g ->
  (frontdoor_criterionb g x y Z = true <-> frontdoor_criterion g x y Z).
Proof. exact frontdoor_criterionb_spec. Qed.
Print Assumptions C13_frontdoor_checker_decides.

(* finite domain: all DAGs on <= 4 labelled nodes (573 graphs), by vm_compute, then lifted to the Prop criteria.
   For every X <> Y and every candidate set Z of non-descendants of X (without X, Y): the coded back-door test
   is_valid_backdoor_adjustment_set and the coded is_valid_adjustment_set([X],[Y],Z) both hold iff Z satisfies
   the back-door criterion on paths. *)
Theorem C13_backdoor_test_iff_criterion_upto4 : forall n g x y Z, n <= 4 -> In g (all_dags n) ->
  In x (nodes g) -> In y (nodes g) -> x <> y -> In Z (powerset (nondesc_cand g x y)) ->
  (is_valid_backdoor g x y Z = true <-> backdoor_criterion g x y Z) /\
  (is_valid_adjustment g [x] [y] Z = Some true <-> backdoor_criterion g x y Z).
Proof. exact backdoor_test_iff_criterion_upto4. Qed.
Print Assumptions C13_backdoor_test_iff_criterion_upto4.

(* Every set enumerated by get_all_backdoor_adjustment_sets / get_all_frontdoor_adjustment_sets satisfies the
   criterion on paths and contains no latent variable, for every latent subset and EVERY iteration order of
   the candidate set; the empty result of the back-door enumeration means "the empty set is valid" (as coded)
   and then the empty set satisfies the criterion. *)
Theorem C13_enumerated_sets_valid_upto4 : forall n g x y lat order, n <= 4 -> In g (all_dags n) ->
  In x (nodes g) -> In y (nodes g) -> x <> y -> In lat (powerset (nodes g)) -> In order (perms (nodes g)) ->
  (forall l s, all_backdoor_sets g lat x y order = Some (Some l) -> In s l ->
     backdoor_criterion g x y s /\ (forall v, In v s -> ~ In v lat)) /\
  (all_backdoor_sets g lat x y order = Some (Some []) -> backdoor_criterion g x y []) /\
  (forall l s, all_frontdoor_sets g lat x y order = Some l -> In s l ->
     frontdoor_criterion g x y s /\ (forall v, In v s -> ~ In v lat)).
Proof. exact enumerated_sets_valid_upto4. Qed.
Print Assumptions C13_enumerated_sets_valid_upto4.

(* The coded front-door test holds iff X has a directed path to Y and Z satisfies the front-door criterion on
   paths (pgmpy additionally refuses pairs without a directed path), for every Z not containing X, Y. *)
Theorem C13_frontdoor_iff_upto4 : forall n g x y Z, n <= 4 -> In g (all_dags n) ->
  In x (nodes g) -> In y (nodes g) -> x <> y -> In Z (powerset (other_nodes g x y)) ->
  (is_valid_frontdoor g x y Z = true <-> (exists t, directed_path g x y t) /\ frontdoor_criterion g x y Z).
Proof. exact frontdoor_iff_upto4. Qed.
Print Assumptions C13_frontdoor_iff_upto4.

(* finite domain: adjustment over EVERY valid back-door set is the truncated factorisation -- every DAG on <= 3
   binary nodes, every CPD with columns (p, 1-p), p in {1/4, 2/3}, every X <> Y, every do-value, every Z
   (without X, Y) satisfying the back-door criterion on paths.  (The unbounded statement is not attempted.) *)
Theorem C13_backdoor_adjustment_is_truncated_upto3_grid : forall n bn x y xv Z,
  n <= 3 -> In bn (grid2_bns n) -> In x (nodes (bg bn)) -> In y (nodes (bg bn)) -> x <> y -> xv < 2 ->
  In Z (powerset (other_nodes (bg bn) x y)) -> backdoor_criterion (bg bn) x y Z ->
  query bn [y] [(x, xv)] (Some Z) = inr (trunc_table bn [y] [(x, xv)]).
Proof. exact backdoor_adjustment_is_truncated_upto3_grid. Qed.
Print Assumptions C13_backdoor_adjustment_is_truncated_upto3_grid.

Example finite_domain_nonempty : length (all_dags 4) = 543%nat /\ length (all_dags 3) = 25%nat.
Proof. split; vm_compute; reflexivity. Qed.
(* a pair with an open back-door path, closed by {U}: X <- U -> Y *)
Example backdoor_example :
  let g := {| nodes := [0; 1; 2]; edges := [(1, 0); (1, 2)] |}%nat in
  is_valid_backdoor g 0 2 [] = false /\ is_valid_backdoor g 0 2 [1%nat] = true /\
  backdoor_criterionb g 0 2 [1%nat] = true.
Proof. vm_compute. repeat split; reflexivity. Qed.
(* the front-door graph X <- U -> Y, X -> M -> Y with U latent *)
Example frontdoor_example :
  let g := {| nodes := [0; 1; 2; 3]; edges := [(1, 0); (1, 3); (0, 2); (2, 3)] |}%nat in
  is_valid_frontdoor g 0 3 [2%nat] = true /\ all_frontdoor_sets g [1%nat] 0 3 [0; 1; 2; 3]%nat = Some [[2%nat]].
Proof. vm_compute. split; reflexivity. Qed.

(* ================================================================== 5. refuted full-strength statements *)

(* FULL STATEMENT (refuted): "for every do-list, query with the default adjustment set returns the truncated
   factorisation".  Witness: A -> B, A -> Y, do(A = 0, B = 0), strictly positive CPDs: the default set is {A}
   (the parent of B), the loop sums over A and overrides do(A = 0); the engine returns P(Y) = (1/2, 1/2)
   instead of P(Y | A = 0) = (1/4, 3/4).  pgmpy defect D8a, known finding multi-do-default-adjustment. *)
Theorem C13_multi_do_default_refuted :
  exists bn Y dov t,
    bn_okb bn = true /\ length dov = 2%nat /\
    query bn Y dov None = inr t /\
    qlist_eqb t [q 1 2; q 1 2] = true /\
    qlist_eqb (trunc_table bn Y dov) [q 1 4; q 3 4] = true /\
    t <> trunc_table bn Y dov.
Proof. exact multi_do_default_refuted. Qed.
Print Assumptions C13_multi_do_default_refuted.

(* FULL STATEMENT (refuted): "every set returned by get_minimal_adjustment_set satisfies the back-door
   criterion".  Witness X <- U -> M -> Y, X -> M: under the iteration order (U, M) of the candidate set the
   result is {M}, a descendant (mediator) of X; under (M, U) it is {U}, which is valid.  pgmpy defect D8b, known
   finding minimal-adjustment-descendant (PYTHONHASHSEED dependent). *)
Theorem C13_minimal_adjustment_refuted :
  exists g x y order order' s,
    wf_graph g /\ acyclicb g = true /\
    minimal_adjustment g [] x y (fun _ => order) order = Some (Some s) /\
    (exists z, In z s /\ z <> x /\ dpath g x z) /\
    ~ backdoor_criterion g x y s /\
    minimal_adjustment g [] x y (fun _ => order') order' = Some (Some [1%nat]) /\
    backdoor_criterionb g x y [1%nat] = true.
Proof. exact minimal_adjustment_refuted. Qed.
Print Assumptions C13_minimal_adjustment_refuted.


(* ================================================================== 6. the back-door adjustment formula, unbounded *)
Local Close Scope Qc_scope.
(* For EVERY well-formed DAG g (any number of nodes, any cardinalities), every family F of conditional distributions
   along g (F v looks at v and its parents only and sums to one over v: the CPDs of a Bayesian network), every
   intervened node x and value xv, every outcome set Y and every adjustment set Z such that
     - pgmpy's own test accepts Z for every y in Y:  is_valid_backdoor g x y Z = true  (every parent of x is
       d-separated from y given x :: Z, by the verified worklist of C08),
     - no node of Z is a descendant of x,
     - P(x = xv, z) <> 0 for every z (the divisions the engine performs are defined),
   the adjustment formula equals the truncated factorisation:
       sum_z  P(y, xv, z) / P(xv, z) * P(z)  =  sum_rest prod_{v <> x} F_v   at x = xv
   ([marg .. S] = the marginal of the product of all F over S, [trunc .. x Y] = the truncated factorisation summed over
   everything outside x :: Y; both as functions of an assignment).  Proof: Base/Backdoor.v -- the do-network
   (point mass at xv for x) has the same A/B factorisation as the original one (Base/Markov.v) because the CPD
   of x is on the side away from Y; intervening does not change the marginal of non-descendants. *)
Theorem C13_backdoor_adjustment_formula :
  forall (card : var -> nat) (g : digraph) (F : var -> asg -> Qc) (x : node) (xv : nat) (Y Z : list node) (a : asg),
  wf_graph g -> acyclic g ->
  (forall v, In v (nodes g) -> @depends_only Qc_sum_csr (F v) (v :: parents g v)) ->
  (forall v, In v (nodes g) -> forall b, valid card b -> @sum_over Qc_sum_csr [v] [card v] (F v) b = 1%Qc) ->
  In x (nodes g) -> xv < card x ->
  (forall y, In y Y -> In y (nodes g) /\ ~ In y (x :: Z)) ->
  NoDup Z /\ incl Z (nodes g) /\ ~ In x Z ->
  (forall y, In y Y -> is_valid_backdoor g x y Z = true) ->
  (forall z, In z Z -> ~ dpath g x z) ->
  valid card a -> a x = xv ->
  (forall b, valid card b -> b x = xv -> PV.Base.Markov.marg Qc_sum_csr card g F (x :: Z) b <> 0%Qc) ->
  @sum_over Qc_sum_csr Z (map card Z)
     (fun b => (PV.Base.Markov.marg Qc_sum_csr card g F (Y ++ x :: Z) b / PV.Base.Markov.marg Qc_sum_csr card g F (x :: Z) b
                * PV.Base.Markov.marg Qc_sum_csr card g F Z b)%Qc) a
  = PV.Base.Backdoor.trunc Qc_sum_csr card g F x Y a.
Proof. exact backdoor_adjustment_formula. Qed.
Print Assumptions C13_backdoor_adjustment_formula.

(* non-vacuity: U -> X, U -> Y, X -> Y: {U} passes the test and is no descendant of X; the empty set fails *)
Example C13_backdoor_formula_nonvacuous :
  let g := {| nodes := [0; 1; 2]; edges := [(1, 0); (1, 2); (0, 2)] |}%nat in
  wf_graph g /\ acyclic g /\ is_valid_backdoor g 0 2 [1%nat] = true /\ is_valid_backdoor g 0 2 [] = false /\
  (forall z, In z [1%nat] -> ~ dpath g 0 z).
Proof. exact backdoor_formula_nonvacuous. Qed.

(* ================================================================== 7. back-door adjustment by [query], every size *)

(* UNBOUNDED.  For EVERY network (any number of nodes, any cardinalities) and EVERY explicitly given adjustment set Z
   that pgmpy's own test accepts for each queried variable and that contains no descendant of x, the engine's answer
       query bn Y [(x, xv)] (Some Z)
   -- inner posteriors P(Y | x, z) and P(z) (specification of the VE/BP calls), the dictionary merge, the loop over
   the states of Z, the final normalisation, the definedness flag (PROVED to hold) -- is the truncated factorisation
   marginalised to Y, as a whole table.  Both branches of the code: Z = {} (plain conditioning) and the loop.
   Hypotheses: the graph is a well-formed DAG; there is one CPD per node ([cof v], the CPD list is a permutation
   of them), its parents are graph parents, it is normalised on in-range assignments; cardinalities are positive;
   Y and Z are duplicate-free sets of nodes, Y avoids x and Z, x is not in Z; positivity: P(x = xv, z) <> 0 for
   every in-range z (the denominators of the inner queries).
   Proof: ProofsBdLink.v (the CPD-product joint is the product of node potentials, the model's numerators and
   denominators are marginals, Spec.trunc_marg is Backdoor.trunc) on top of C13_backdoor_adjustment_formula
   (Base/Backdoor.v, Base/Markov.v).  With C13_backdoor_test_iff_criterion_upto4 / C13_backdoor_checker_decides the
   test hypothesis is the path criterion on the finite domain where that agreement is proved. *)
Theorem C13_backdoor_adjustment_is_truncated : forall bn cof x xv Y Z,
  wf_graph (bg bn) -> acyclic (bg bn) ->
  Permutation (bcpds bn) (map cof (nodes (bg bn))) ->
  (forall v, In v (nodes (bg bn)) ->
     cvar (cof v) = v /\ forall p, In p (cpars (cof v)) -> In p (parents (bg bn) v)) ->
  (forall v, In v (nodes (bg bn)) -> normalised (bcard bn) (nodes (bg bn)) (cof v)) ->
  (forall v, In v (nodes (bg bn)) -> (0 < bcard bn v)%nat) ->
  In x (nodes (bg bn)) -> (xv < bcard bn x)%nat ->
  NoDup Y -> incl Y (nodes (bg bn)) -> (forall y, In y Y -> ~ In y (x :: Z)) ->
  NoDup Z -> incl Z (nodes (bg bn)) -> ~ In x Z ->
  (forall y, In y Y -> is_valid_backdoor (bg bn) x y Z = true) ->
  (forall z, In z Z -> ~ dpath (bg bn) x z) ->
  (forall b, vOn (bcard bn) (nodes (bg bn)) b -> post_den bn Y (zev Z b ++ [(x, xv)]) b <> 0%Qc) ->
  query bn Y [(x, xv)] (Some Z) = inr (trunc_table bn Y [(x, xv)]).
Proof. exact backdoor_adjustment_is_truncated. Qed.
Print Assumptions C13_backdoor_adjustment_is_truncated.

(* non-vacuity: U -> X, U -> Y, X -> Y with strictly positive CPDs, do(X = 0), query Y: {U} passes the test (the
   empty set does not) and every hypothesis above is discharged *)
Example C13_backdoor_adjustment_instance :
  is_valid_backdoor (bg ex_bn) 0 2 [1%nat] = true /\ is_valid_backdoor (bg ex_bn) 0 2 [] = false /\
  query ex_bn [2%nat] [(0, 0)]%nat (Some [1%nat]) = inr (trunc_table ex_bn [2%nat] [(0, 0)]%nat).
Proof. exact backdoor_link_example. Qed.


(* ================================================================== 7. the front-door adjustment formula, unbounded *)
(* For EVERY well-formed DAG g (any number of nodes, any cardinalities), every family F of conditional distributions
   along g (the CPDs of a Bayesian network), distinct nodes x, m, y such that pgmpy's own test accepts the mediator:
       is_valid_frontdoor g x y [m] = true
   (the enumerated directed paths from x to y exist and all meet m -- [dpaths] is proved sound and complete, so this
   says: x is an ancestor of m and no directed path from x to y survives the removal of m; the empty set passes the
   back-door test for (x, m); {x} passes it for (m, y)), and wherever the divisions are defined
   (P(x = xv) <> 0 and P(m', x') <> 0):
       sum_m'  P(m', xv) / P(xv)  *  sum_x'  P(y, m', x') / P(m', x') * P(x')   =   sum_rest prod_{v <> x} F_v  at x = xv
   i.e. Pearl's front-door formula equals the truncated factorisation P(y | do(x = xv)).
   ([marg .. S] = marginal of the product of all F over S, [trunc .. x [y]] = truncated factorisation summed over
   everything outside {x, y}; both as functions of an assignment.)  pgmpy offers no front-door QUERY route, only
   this test and the enumeration built on it, so there is no model function to link the formula to.
   Proof: Base/Frontdoor.v, from three uses of the back-door theorem of Base/Backdoor.v.
   One mediator here; mediator SETS: C13_frontdoor_adjustment_formula_sets in section 8. *)
Theorem C13_frontdoor_adjustment_formula :
  forall (card : var -> nat) (g : digraph) (F : var -> asg -> Qc) (x m y : node) (xv : nat) (a : asg),
  wf_graph g -> acyclic g ->
  (forall v, In v (nodes g) -> @depends_only Qc_sum_csr (F v) (v :: parents g v)) ->
  (forall v, In v (nodes g) -> forall b, valid card b -> @sum_over Qc_sum_csr [v] [card v] (F v) b = 1%Qc) ->
  In x (nodes g) -> In m (nodes g) -> In y (nodes g) -> x <> m -> y <> x -> y <> m -> (xv < card x)%nat ->
  is_valid_frontdoor g x y [m] = true ->
  valid card a -> a x = xv ->
  (forall b, valid card b -> b x = xv -> PV.Base.Markov.marg Qc_sum_csr card g F [x] b <> 0%Qc) ->
  (forall b, valid card b -> PV.Base.Markov.marg Qc_sum_csr card g F [m; x] b <> 0%Qc) ->
  @sum_over Qc_sum_csr [m] [card m]
    (fun b => (PV.Base.Markov.marg Qc_sum_csr card g F [m; x] b / PV.Base.Markov.marg Qc_sum_csr card g F [x] b *
              @sum_over Qc_sum_csr [x] [card x]
                (fun c => PV.Base.Markov.marg Qc_sum_csr card g F [y; m; x] c / PV.Base.Markov.marg Qc_sum_csr card g F [m; x] c
                          * PV.Base.Markov.marg Qc_sum_csr card g F [x] c) b)%Qc) a
  = PV.Base.Backdoor.trunc Qc_sum_csr card g F x [y] a.
Proof. exact frontdoor_adjustment_formula. Qed.
Print Assumptions C13_frontdoor_adjustment_formula.

(* what the path part of the test says, for every DAG: soundness and completeness of the coded enumeration *)
Theorem C13_frontdoor_paths_meaning : forall g x y m, wf_graph g -> acyclic g -> x <> y ->
  dpaths (length (nodes g)) g x y <> [] ->
  existsb (fun p => negb (existsb (fun z => memn z p) [m])) (dpaths (length (nodes g)) g x y) = false ->
  dpath g x m /\ ~ dpath (PV.C08.Model.remove_node g m) x y.
Proof. exact frontdoor_paths. Qed.
Print Assumptions C13_frontdoor_paths_meaning.

(* non-vacuity: X -> M -> Y with a latent U -> X, U -> Y (X = 0, U = 1, M = 2, Y = 3): {M} passes the test, while
   the empty back-door set fails *)
Example C13_frontdoor_formula_nonvacuous :
  let g := {| nodes := [0; 1; 2; 3]; edges := [(1, 0); (1, 3); (0, 2); (2, 3)] |}%nat in
  wf_graph g /\ acyclic g /\ is_valid_frontdoor g 0 3 [2%nat] = true /\ is_valid_backdoor g 0 3 [] = false.
Proof. exact frontdoor_formula_nonvacuous. Qed.


(* ================================================================== 8. front-door adjustment over mediator SETS, unbounded *)
(* pgmpy's test looks at each mediator separately (every parent of m is d-separated from y given m and x).  For every
   DAG that implies the joint statement: every unobserved parent of every mediator is d-separated from y given ALL of
   M and x.  (Simulation of the verified worklist relation: every (node, direction) state reachable from y under the
   joint conditioning is reachable under each per-member conditioning, unless a per-member test is already violated -
   the only step that differs is a collider opened by a descendant in M, and walking down to the first mediator below
   it exposes a parent of that mediator that its own test forbids.) *)
Theorem C13_frontdoor_per_member_joint :
  forall g, wf_graph g -> acyclic g ->
  forall (x y : node) (M : list node), ~ In y (M ++ [x]) ->
  (forall m, In m M -> is_valid_backdoor g m y [x] = true) ->
  forall m p, In m M -> In (p, m) (edges g) -> ~ In p (M ++ [x]) -> ~ dconnected g (M ++ [x]) y p.
Proof. exact PV.Base.FrontdoorSets.per_member_joint. Qed.
Print Assumptions C13_frontdoor_per_member_joint.

(* The front-door formula for EVERY duplicate-free mediator list M that passes pgmpy's own test
   is_valid_frontdoor g x y M (x, y outside M), every DAG, every family of conditional distributions along it:
       sum_m  P(m, xv) / P(xv)  *  sum_x'  P(y, m, x') / P(m, x') * P(x')   =   sum_rest prod_{v <> x} F_v  at x = xv
   (m ranges over the joint states of M), wherever P(xv) <> 0 and P(m, x') <> 0.  Proof: Base/FrontdoorSets.v -
   simultaneous interventions FdoM, the conditional of Y is the same in any two families that agree off the
   mediators (family_invariance), C13_frontdoor_per_member_joint. *)
Theorem C13_frontdoor_adjustment_formula_sets :
  forall (card : var -> nat) (g : digraph) (F : var -> asg -> Qc) (x y : node) (M : list node) (xv : nat) (a : asg),
  wf_graph g -> acyclic g ->
  (forall v, In v (nodes g) -> @depends_only Qc_sum_csr (F v) (v :: parents g v)) ->
  (forall v, In v (nodes g) -> forall b, valid card b -> @sum_over Qc_sum_csr [v] [card v] (F v) b = 1%Qc) ->
  In x (nodes g) -> In y (nodes g) -> y <> x -> (xv < card x)%nat ->
  NoDup M -> incl M (nodes g) -> ~ In x M -> ~ In y M ->
  is_valid_frontdoor g x y M = true ->
  valid card a -> a x = xv ->
  (forall b, valid card b -> b x = xv -> PV.Base.Markov.marg Qc_sum_csr card g F [x] b <> 0%Qc) ->
  (forall b, valid card b -> PV.Base.Markov.marg Qc_sum_csr card g F (M ++ [x]) b <> 0%Qc) ->
  @sum_over Qc_sum_csr M (map card M)
    (fun b => (PV.Base.Markov.marg Qc_sum_csr card g F (M ++ [x]) b / PV.Base.Markov.marg Qc_sum_csr card g F [x] b *
              @sum_over Qc_sum_csr [x] [card x]
                (fun c => PV.Base.Markov.marg Qc_sum_csr card g F (y :: M ++ [x]) c / PV.Base.Markov.marg Qc_sum_csr card g F (M ++ [x]) c
                          * PV.Base.Markov.marg Qc_sum_csr card g F [x] c) b)%Qc) a
  = PV.Base.Backdoor.trunc Qc_sum_csr card g F x [y] a.
Proof. exact frontdoor_adjustment_formula_sets. Qed.
Print Assumptions C13_frontdoor_adjustment_formula_sets.

(* non-vacuity: X -> M1 -> M2 -> Y with a latent U -> X, U -> Y: the two-element set {M1, M2} passes the test *)
Example C13_frontdoor_sets_nonvacuous :
  let g := {| nodes := [0; 1; 2; 3; 4]; edges := [(1, 0); (1, 4); (0, 2); (2, 3); (3, 4)] |}%nat in
  wf_graph g /\ acyclic g /\ is_valid_frontdoor g 0 4 [2; 3]%nat = true /\ is_valid_backdoor g 0 4 [] = false.
Proof. exact frontdoor_sets_nonvacuous. Qed.
