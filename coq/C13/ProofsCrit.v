(* C13: the boolean criterion checkers of Spec.v (brute-force enumeration of all simple paths) decide the Prop
   definitions of the back-door / front-door criteria.  Unbounded. *)
From Coq Require Import List Bool Arith PeanoNat Lia.
From PV Require Import Base.Reach Base.Graph C08.Model C08.Spec C13.Model C13.Spec.
Import ListNotations.

(* ---- enumeration of simple paths ---- *)
Lemma In_nbrs g x v : In v (nbrs g x) <-> adj g x v.
Proof. unfold nbrs, adj. rewrite in_app_iff, In_parents, In_children. tauto. Qed.

Lemma spaths_spec n : forall g x avoid t,
  In t (spaths n g x avoid) <->
  exists r, t = x :: r /\ is_trail g t /\ NoDup t /\ (forall v, In v r -> ~ In v avoid) /\ length r <= n.
Proof.
  induction n as [|n IH]; intros g x avoid t; cbn [spaths].
  - split.
    + intros [<-|[]]. exists []. repeat split; [constructor; [intros []|constructor]|intros v []|simpl; lia].
    + intros [r [-> [_ [_ [_ Hl]]]]]. destruct r; [left; reflexivity|simpl in Hl; lia].
  - cbn [In]. rewrite in_flat_map. split.
    + intros [<-|[v [Hv Ht]]].
      * exists []. repeat split; [constructor; [intros []|constructor]|intros v []|simpl; lia].
      * apply filter_In in Hv. destruct Hv as [Hnb Hav]. apply negb_true_iff, memn_false in Hav.
        apply in_map_iff in Ht. destruct Ht as [t' [<- Ht']]. apply IH in Ht'.
        destruct Ht' as [r' [-> [Htr [Hnd [Hout Hl]]]]]. exists (v :: r'). split; [reflexivity|].
        split; [split; [apply In_nbrs; exact Hnb|exact Htr]|]. split; [|split].
        -- constructor; [|exact Hnd]. intros [E|Hi]; [apply Hav; left; symmetry; exact E|].
           apply (Hout x Hi). left. reflexivity.
        -- intros w [<-|Hw] Hi; [apply Hav; right; exact Hi|apply (Hout w Hw); right; exact Hi].
        -- simpl. lia.
    + intros [r [-> [Htr [Hnd [Hout Hl]]]]]. destruct r as [|v r']; [left; reflexivity|right].
      destruct Htr as [Hadj Htr]. inversion Hnd as [|? ? Hx Hnd']; subst.
      exists v. split.
      * apply filter_In. split; [apply In_nbrs; exact Hadj|]. apply negb_true_iff, memn_false.
        intros [E|Hi]; [apply Hx; left; symmetry; exact E|apply (Hout v (or_introl eq_refl)); exact Hi].
      * apply in_map. apply IH. exists r'. split; [reflexivity|]. split; [exact Htr|]. split; [exact Hnd'|]. split.
        -- intros w Hw [E|Hi]; [apply Hx; right; rewrite E; exact Hw|apply (Hout w (or_intror Hw)); exact Hi].
        -- simpl in Hl. lia.
Qed.

Lemma trail_in_nodes g : wf_graph g -> forall t, is_trail g t -> 2 <= length t -> forall v, In v t -> In v (nodes g).
Proof.
  intros [_ Hw] t. induction t as [|a t IH]; intros Ht Hl v Hv; [destruct Hv|].
  destruct t as [|b t']; [simpl in Hl; lia|]. destruct Ht as [Hadj Ht].
  assert (Hab : In a (nodes g) /\ In b (nodes g)).
  { destruct Hadj as [H|H]; apply Hw in H; tauto. }
  destruct Hv as [<-|Hv]; [apply Hab|].
  destruct t' as [|c t'']; [destruct Hv as [<-|[]]; apply Hab|].
  apply IH; [exact Ht|simpl; lia|exact Hv].
Qed.

Lemma simple_trail_enumerated g x t : wf_graph g ->
  (exists r, t = x :: r) -> is_trail g t -> NoDup t -> 2 <= length t ->
  In t (spaths (length (nodes g)) g x []).
Proof.
  intros Hw [r ->] Ht Hnd Hl. apply spaths_spec. exists r. split; [reflexivity|]. split; [exact Ht|].
  split; [exact Hnd|]. split; [intros v _ []|].
  assert (H : length (x :: r) <= length (nodes g)).
  { apply NoDup_incl_length; [exact Hnd|]. intros v Hv. apply (trail_in_nodes g Hw _ Ht Hl v Hv). }
  simpl in H. lia.
Qed.

(* ---- activity of a trail ---- *)
Lemma colliderb_spec g a b c : colliderb g a b c = true <-> collider g a b c.
Proof. unfold colliderb, collider. rewrite andb_true_iff, !has_edge_In. tauto. Qed.

Lemma ok_midb_spec g Z a b c : wf_graph g -> (ok_midb g Z a b c = true <-> ok_mid g Z a b c).
Proof.
  intros Hw. unfold ok_midb, ok_mid. destruct (colliderb g a b c) eqn:E.
  - apply colliderb_spec in E. rewrite existsb_exists. split.
    + intros [z [Hz Hp]]. split; [intros _; exists z; split; [exact Hz|apply (has_path_spec g b z Hw); exact Hp]|].
      intros Hn. contradiction.
    + intros [H _]. destruct (H E) as [z [Hz Hp]]. exists z. split; [exact Hz|apply (has_path_spec g b z Hw); exact Hp].
  - assert (Hn : ~ collider g a b c).
    { intros H. apply colliderb_spec in H. congruence. }
    rewrite negb_true_iff, memn_false. split.
    + intros H. split; [intros Hc; contradiction|intros _; exact H].
    + intros [_ H]. apply H. exact Hn.
Qed.

Lemma activeb_spec g Z : wf_graph g -> forall t, activeb g Z t = true <-> active g Z t.
Proof.
  intros Hw t. induction t as [|a t IH]; [simpl; tauto|].
  destruct t as [|b [|c r]]; [simpl; tauto|simpl; tauto|].
  change (ok_midb g Z a b c && activeb g Z (b :: c :: r) = true <-> ok_mid g Z a b c /\ active g Z (b :: c :: r)).
  rewrite andb_true_iff, (ok_midb_spec g Z a b c Hw), IH. tauto.
Qed.

(* ---- back-door ---- *)
Lemma backdoor_paths_spec g x y t : wf_graph g ->
  (In t (backdoor_paths g x y) <-> backdoor_path g x y t).
Proof.
  intros Hw. unfold backdoor_paths, backdoor_path. rewrite filter_In. split.
  - intros [Hs Hf]. apply spaths_spec in Hs. destruct Hs as [r [-> [Htr [Hnd _]]]].
    destruct r as [|p r]; [discriminate|]. apply andb_true_iff in Hf. destruct Hf as [He Hl].
    exists p, r. split; [reflexivity|]. split; [apply has_edge_In; exact He|]. split; [exact Htr|].
    split; [exact Hnd|apply Nat.eqb_eq; exact Hl].
  - intros [p [r [-> [He [Htr [Hnd Hl]]]]]]. split.
    + apply simple_trail_enumerated; [exact Hw|eexists; reflexivity|exact Htr|exact Hnd|simpl; lia].
    + apply andb_true_iff. split; [apply has_edge_In; exact He|apply Nat.eqb_eq; exact Hl].
Qed.

Theorem backdoor_criterionb_spec g x y Z : wf_graph g ->
  (backdoor_criterionb g x y Z = true <-> backdoor_criterion g x y Z).
Proof.
  intros Hw. unfold backdoor_criterionb, backdoor_criterion. rewrite andb_true_iff, !forallb_forall. split.
  - intros [H1 H2]. split.
    + intros z Hz Hp. specialize (H1 z Hz). apply negb_true_iff in H1.
      apply (has_path_spec g x z Hw) in Hp. congruence.
    + intros t Ht Ha. apply (backdoor_paths_spec g x y t Hw) in Ht. specialize (H2 t Ht).
      apply negb_true_iff in H2. apply (activeb_spec g Z Hw) in Ha. congruence.
  - intros [H1 H2]. split.
    + intros z Hz. apply negb_true_iff. destruct (has_path g x z) eqn:E; [|reflexivity].
      exfalso. apply (H1 z Hz). apply (has_path_spec g x z Hw). exact E.
    + intros t Ht. apply negb_true_iff. destruct (activeb g Z t) eqn:E; [|reflexivity].
      exfalso. apply (H2 t); [apply (backdoor_paths_spec g x y t Hw); exact Ht|apply (activeb_spec g Z Hw); exact E].
Qed.

(* ---- directed paths and the front-door criterion ---- *)
Lemma is_dtrailb_spec g t : is_dtrailb g t = true <-> is_dtrail g t.
Proof.
  induction t as [|a t IH]; [simpl; split; [discriminate|tauto]|].
  destruct t as [|b r]; [simpl; tauto|].
  change (has_edge g a b && is_dtrailb g (b :: r) = true <-> In (a, b) (edges g) /\ is_dtrail g (b :: r)).
  rewrite andb_true_iff, has_edge_In, IH. tauto.
Qed.

Lemma dtrail_trail g t : is_dtrail g t -> is_trail g t.
Proof.
  induction t as [|a t IH]; [tauto|]. destruct t as [|b r]; [tauto|].
  intros [He Ht]. split; [left; exact He|apply IH; exact Ht].
Qed.

Lemma dtrail_dpath g : forall r b, is_dtrail g (b :: r) -> forall v, In v (b :: r) -> dpath g b v.
Proof.
  induction r as [|c r IH]; intros b Ht v Hv.
  - destruct Hv as [<-|[]]. apply dpath_refl.
  - destruct Ht as [He Ht]. destruct Hv as [<-|Hv]; [apply dpath_refl|].
    eapply dpath_step_l; [exact He|]. apply IH; assumption.
Qed.

Lemma dtrail_NoDup g : acyclic g -> forall t, is_dtrail g t -> NoDup t.
Proof.
  intros Hac t. induction t as [|a t IH]; intros Ht; [constructor|].
  destruct t as [|b r]; [constructor; [intros []|constructor]|].
  destruct Ht as [He Ht]. constructor; [|apply IH; exact Ht].
  intros Hi. apply (Hac a b He). apply (dtrail_dpath g r b Ht a Hi).
Qed.

Lemma directed_paths_spec g x y t : wf_graph g -> acyclic g ->
  (In t (directed_paths g x y) <-> directed_path g x y t).
Proof.
  intros Hw Hac. unfold directed_paths, directed_path. rewrite filter_In, !andb_true_iff, is_dtrailb_spec, Nat.eqb_eq, Nat.leb_le.
  split.
  - intros [Hs [[Hd Hl] Hn]]. apply spaths_spec in Hs. destruct Hs as [r [-> _]]. repeat split; assumption.
  - intros [Hd [Hh [Hl Hn]]]. split; [|repeat split; assumption].
    destruct t as [|a r]; [simpl in Hn; lia|]. simpl in Hh. inversion Hh; subst a.
    apply simple_trail_enumerated; [exact Hw|eexists; reflexivity|apply dtrail_trail; exact Hd|
                                    apply (dtrail_NoDup g Hac); exact Hd|exact Hn].
Qed.

Theorem frontdoor_criterionb_spec g x y Z : wf_graph g -> acyclic g ->
  (frontdoor_criterionb g x y Z = true <-> frontdoor_criterion g x y Z).
Proof.
  intros Hw Hac. unfold frontdoor_criterionb, frontdoor_criterion. rewrite !andb_true_iff, !forallb_forall. split.
  - intros [[H1 H2] H3]. split; [|split].
    + intros t Ht. apply (directed_paths_spec g x y t Hw Hac) in Ht. specialize (H1 t Ht).
      apply existsb_exists in H1. destruct H1 as [z [Hz Hm]]. exists z. split; [exact Hz|apply memn_In; exact Hm].
    + intros z t Hz Ht Ha. specialize (H2 z Hz). rewrite forallb_forall in H2.
      apply (backdoor_paths_spec g x z t Hw) in Ht. specialize (H2 t Ht). apply negb_true_iff in H2.
      apply (activeb_spec g [] Hw) in Ha. congruence.
    + intros z t Hz Ht Ha. specialize (H3 z Hz). rewrite forallb_forall in H3.
      apply (backdoor_paths_spec g z y t Hw) in Ht. specialize (H3 t Ht). apply negb_true_iff in H3.
      apply (activeb_spec g [x] Hw) in Ha. congruence.
  - intros [H1 [H2 H3]]. split; [split|].
    + intros t Ht. apply (directed_paths_spec g x y t Hw Hac) in Ht. destruct (H1 t Ht) as [z [Hz Hm]].
      apply existsb_exists. exists z. split; [exact Hz|apply memn_In; exact Hm].
    + intros z Hz. apply forallb_forall. intros t Ht. apply negb_true_iff.
      destruct (activeb g [] t) eqn:E; [|reflexivity]. exfalso.
      apply (H2 z t Hz); [apply (backdoor_paths_spec g x z t Hw); exact Ht|apply (activeb_spec g [] Hw); exact E].
    + intros z Hz. apply forallb_forall. intros t Ht. apply negb_true_iff.
      destruct (activeb g [x] t) eqn:E; [|reflexivity]. exfalso.
      apply (H3 z t Hz); [apply (backdoor_paths_spec g z y t Hw); exact Ht|apply (activeb_spec g [x] Hw); exact E].
Qed.
