(* C13: discharging the semantic hypotheses of single_do_parent_adjustment by computation for a concrete
   network (a function that only looks at the nodes can be checked on the finitely many in-range index tuples),
   and a non-trivial instance (non-vacuity of the unbounded theorem). *)
From Coq Require Import List Bool Arith PeanoNat Lia QArith Qcanon Permutation.
From PV Require Import Base.Reach Base.Graph Base.Semiring Base.Ravel Base.FinSum Base.RefFactor Base.VE
  C08.Model C13.Model C13.Spec C13.ProofsDo C13.ProofsTrunc C13.ProofsSum C13.ProofsAdjU C13.ProofsRefuted.
Import ListNotations.
Local Close Scope Q_scope.
Local Open Scope Qc_scope.

Lemma vOn_in_all_idx card V a : vOn card V a -> In (map a V) (all_idx card V).
Proof.
  intros H. unfold all_idx.
  assert (Hr : in_range (map card V) (map a V)).
  { clear -H. induction V as [|v V IH]; simpl; constructor.
    - apply H. left. reflexivity.
    - apply IH. intros w Hw. apply H. right. exact Hw. }
  rewrite <- (unravel_ravel _ _ Hr). apply in_map. apply in_seq. pose proof (ravel_lt _ _ Hr). lia.
Qed.

(* a property of the value of F, checked on every in-range index tuple of V, holds on every assignment in
   range on V -- provided F only looks at V *)
Lemma check_all card V (F : asg -> Qc) (p : Qc -> bool) :
  @depends_only R F V ->
  forallb (fun idx => p (F (asg_of V idx))) (all_idx card V) = true ->
  forall a, vOn card V a -> p (F a) = true.
Proof.
  intros Hd Hc a Ha. rewrite forallb_forall in Hc. specialize (Hc (map a V) (vOn_in_all_idx card V a Ha)).
  cbv beta in Hc. rewrite <- Hc. f_equal. apply Hd. intros v Hv. symmetry. apply asg_of_map. exact Hv.
Qed.

Lemma eval_prod_depends_only card (L : list (factor R)) S :
  (forall f, In f L -> incl (fvars f) S) -> @depends_only R (eval_prod R card L) S.
Proof.
  intros H a b Hab. unfold eval_prod. f_equal. apply map_ext_in. intros f Hf.
  apply feval_depends_only. intros v Hv. apply Hab. apply (H f Hf). exact Hv.
Qed.
Lemma qsum_depends_only card vs (g : asg -> Qc) S : @depends_only R g S -> @depends_only R (qsum card vs g) S.
Proof.
  intros Hd. unfold qsum. eapply depends_only_mono.
  - apply sum_over_depends_only; [exact Hd|symmetry; apply map_length].
  - intros v Hv. apply filter_In in Hv. apply Hv.
Qed.
Lemma clamp_depends_only (g : asg -> Qc) S x i : @depends_only R g S -> @depends_only R (fun b => g (upd b x i)) S.
Proof.
  intros Hd a b Hab. apply Hd. intros v Hv. unfold upd. destruct (Nat.eqb v x); [reflexivity|apply Hab; exact Hv].
Qed.

Definition scopes_in (bn : bnet) : Prop := forall c, In c (bcpds bn) -> incl (cvar c :: cpars c) (nodes (bg bn)).

Lemma joint_depends_only bn : scopes_in bn -> @depends_only R (joint bn) (nodes (bg bn)).
Proof.
  intros H. unfold joint. apply eval_prod_depends_only. intros f Hf. apply in_map_iff in Hf.
  destruct Hf as [c [<- Hc]]. exact (H c Hc).
Qed.

Definition is1 (q : Qc) : bool := Qc_eq_bool q 1.
Definition nz (q : Qc) : bool := negb (Qc_eq_bool q 0).
Lemma is1_spec q : is1 q = true -> q = 1. Proof. apply Qc_eq_bool_correct. Qed.
Lemma nz_spec q : nz q = true -> q <> 0.
Proof.
  unfold nz, Qc_eq_bool. destruct (Qc_eq_dec q 0); [discriminate|]. intros _. assumption.
Qed.

(* boolean version of the theorem's semantic hypotheses for x, given the arrangement A ++ cx :: B *)
Definition hyps_okb (bn : bnet) (x : var) (xv : nat) (cs : list cpd) (cx : cpd) : bool :=
  let V := nodes (bg bn) in let card := bcard bn in
  forallb (fun c => forallb (fun idx => is1 (qsum card [cvar c] (qeval card (cfac c)) (asg_of V idx))) (all_idx card V)) cs
  && forallb (fun idx => nz (qeval card (cfac cx) (upd (asg_of V idx) x xv))) (all_idx card V)
  && forallb (fun idx => nz (post_num bn (default_adjustment (bg bn) [(x, xv)]) [] (asg_of V idx))) (all_idx card V).

Lemma hyps_ok_sound bn x xv cs cx : scopes_in bn -> (forall c, In c cs -> In c (bcpds bn)) -> In cx (bcpds bn) ->
  hyps_okb bn x xv cs cx = true ->
  (forall c, In c cs -> normalised (bcard bn) (nodes (bg bn)) c) /\
  (forall b, vOn (bcard bn) (nodes (bg bn)) b -> qeval (bcard bn) (cfac cx) (upd b x xv) <> 0) /\
  (forall b, vOn (bcard bn) (nodes (bg bn)) b -> post_num bn (default_adjustment (bg bn) [(x, xv)]) [] b <> 0).
Proof.
  intros Hs Hin Hcx H. unfold hyps_okb in H. apply andb_true_iff in H. destruct H as [H H3].
  apply andb_true_iff in H. destruct H as [H1 H2]. split; [|split].
  - intros c Hc a Ha. apply is1_spec. rewrite forallb_forall in H1. specialize (H1 c Hc).
    apply (check_all (bcard bn) (nodes (bg bn)) (qsum (bcard bn) [cvar c] (qeval (bcard bn) (cfac c))) is1); [|exact H1|exact Ha].
    apply qsum_depends_only. eapply depends_only_mono; [apply feval_depends_only|]. exact (Hs c (Hin c Hc)).
  - intros b Hb. apply nz_spec.
    apply (check_all (bcard bn) (nodes (bg bn)) (fun b => qeval (bcard bn) (cfac cx) (upd b x xv)) nz); [|exact H2|exact Hb].
    apply clamp_depends_only. eapply depends_only_mono; [apply feval_depends_only|]. exact (Hs cx Hcx).
  - intros b Hb. apply nz_spec.
    apply (check_all (bcard bn) (nodes (bg bn)) (post_num bn (default_adjustment (bg bn) [(x, xv)]) []) nz); [|exact H3|exact Hb].
    unfold post_num. cbn [upds]. apply qsum_depends_only. apply joint_depends_only. exact Hs.
Qed.

(* ---- a non-trivial instance: A -> B, A -> Y (the network of the refutation), do(B = 0), query Y:
        the default adjustment set is {A}; every hypothesis of the theorem holds ---- *)
Definition c0 := {| cvar := 0%nat; cpars := []; ctab := [q 1 2; q 1 2] |}.
Definition c1 := {| cvar := 1%nat; cpars := [0%nat]; ctab := [q 1 2; q 1 2; q 1 2; q 1 2] |}.
Definition c2 := {| cvar := 2%nat; cpars := [0%nat]; ctab := [q 1 4; q 3 4; q 3 4; q 1 4] |}.

Lemma w_hyps : hyps_okb w_bn 1%nat 0%nat [c0; c1; c2] c1 = true.
Proof. vm_compute. reflexivity. Qed.
Lemma w_defined : query_defined w_bn [2%nat] [(1, 0)]%nat (default_adjustment (bg w_bn) [(1, 0)]%nat) = true.
Proof. vm_compute. reflexivity. Qed.

Lemma single_do_example :
  default_adjustment (bg w_bn) [(1, 0)]%nat = [0%nat] /\
  query w_bn [2%nat] [(1, 0)]%nat None = inr (trunc_table w_bn [2%nat] [(1, 0)]%nat).
Proof.
  split; [reflexivity|].
  assert (Hs : scopes_in w_bn).
  { intros c Hc. simpl in Hc. destruct Hc as [<-|[<-|[<-|[]]]]; intros v Hv; simpl in *; intuition. }
  destruct (hyps_ok_sound w_bn 1%nat 0%nat [c0; c1; c2] c1 Hs) as [Hn [Hpx Hpp]];
    [intros c Hc; exact Hc|simpl; tauto|exact w_hyps|].
  apply (single_do_parent_adjustment w_bn 1%nat 0%nat [c0] [c2] c1 [2%nat]).
  - repeat constructor; simpl; intuition discriminate.
  - apply Permutation_refl.
  - apply Permutation_refl.
  - reflexivity.
  - unfold topological. simpl. repeat split; intros d Hd; simpl in Hd; intuition (subst; simpl in *; intuition discriminate).
  - exact Hn.
  - intros c Hc. simpl in Hc. destruct Hc as [<-|[<-|[<-|[]]]]; simpl; split; try (intros v Hv; simpl in *; intuition); intuition discriminate.
  - intros p. simpl. tauto.
  - intros v Hv. simpl in Hv. destruct Hv as [<-|[<-|[<-|[]]]]; vm_compute; lia.
  - repeat constructor. intros [].
  - intros v [<-|[]]. simpl. tauto.
  - simpl. intuition discriminate.
  - intros y [<-|[]]. simpl. intuition discriminate.
  - vm_compute. lia.
  - intros p Hp []. 
  - exact Hpx.
  - exact Hpp.
Qed.
